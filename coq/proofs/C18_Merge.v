(** C18 lemmas about the merge specification (spec/Merge.v): the step rule,
    every element exactly once, each input's order kept, sortedness, HasNext /
    Next / Reset under any call pattern. *)
From Coq Require Import List ZArith Bool Lia Permutation Sorted.
From GL Require Import model.Mixer spec.Merge.
Import ListNotations.
Open Scope Z_scope.

(** * The step rule *)

Lemma merge_step_none : forall sf r1 r2,
  merge_step sf r1 r2 = None <-> r1 = [] /\ r2 = [].
Proof.
  intros sf [|x t1] [|y t2]; cbn; try destruct (sf x y);
    split; intros H; try discriminate; try tauto;
    destruct H; discriminate.
Qed.

(* the head of the first input is emitted iff the second input is exhausted or
   the selector prefers the first head *)
Lemma merge_step_first : forall sf r1 r2 x t1 r2',
  merge_step sf r1 r2 = Some (O1, x, t1, r2') <->
  r1 = x :: t1 /\ r2' = r2 /\ (r2 = [] \/ exists y t2, r2 = y :: t2 /\ sf x y = true).
Proof.
  intros sf [|a t] [|b u] x t1 r2'; cbn; try destruct (sf a b) eqn:Hsf; split; intros H;
    try discriminate;
    try (injection H as <- <- <-);
    try (destruct H as (H1 & H2 & H3); try discriminate; injection H1 as -> ->; subst r2');
    try reflexivity.
  - repeat split; left; reflexivity.
  - repeat split. right. exists b, u. split; [reflexivity | exact Hsf].
  - destruct H3 as [H3 | (y & t2 & H3 & H4)]; [discriminate|].
    injection H3 as <- <-. congruence.
Qed.

(* symmetric: the head of the second input is emitted iff the first input is
   exhausted or the selector does not prefer the first head *)
Lemma merge_step_second : forall sf r1 r2 y t2 r1',
  merge_step sf r1 r2 = Some (O2, y, r1', t2) <->
  r2 = y :: t2 /\ r1' = r1 /\ (r1 = [] \/ exists x t1, r1 = x :: t1 /\ sf x y = false).
Proof.
  intros sf [|a t] [|b u] y t2 r1'; cbn; try destruct (sf a b) eqn:Hsf; split; intros H;
    try discriminate;
    try (injection H as <- <- <-);
    try (destruct H as (H1 & H2 & H3); try discriminate; injection H1 as -> ->; subst r1');
    try reflexivity.
  - repeat split; left; reflexivity.
  - destruct H3 as [H3 | (x & t1 & H3 & H4)]; [discriminate|].
    injection H3 as <- <-. congruence.
  - repeat split. right. exists a, t. split; [reflexivity | exact Hsf].
Qed.

(* all three outcomes at once *)
Lemma merge_choice : forall sf r1 r2,
  match merge_step sf r1 r2 with
  | None => r1 = [] /\ r2 = []
  | Some (O1, v, r1', r2') =>
      r1 = v :: r1' /\ r2' = r2 /\ (r2 = [] \/ exists y t2, r2 = y :: t2 /\ sf v y = true)
  | Some (O2, v, r1', r2') =>
      r2 = v :: r2' /\ r1' = r1 /\ (r1 = [] \/ exists x t1, r1 = x :: t1 /\ sf x v = false)
  end.
Proof.
  intros sf r1 r2. destruct (merge_step sf r1 r2) as [[[[[|] v] r1'] r2']|] eqn:H.
  - apply merge_step_first. exact H.
  - apply merge_step_second. exact H.
  - apply (proj1 (merge_step_none sf r1 r2)). exact H.
Qed.

Lemma merge_step_length : forall sf r1 r2 o v r1' r2',
  merge_step sf r1 r2 = Some (o, v, r1', r2') ->
  (length r1 + length r2 = S (length r1' + length r2'))%nat.
Proof.
  intros sf [|a t] [|b u] o v r1' r2'; cbn; try destruct (sf a b); intros H;
    try discriminate; injection H as <- <- <- <-; cbn; lia.
Qed.

(** * The drained output *)

Lemma merge_run_length : forall sf fuel r1 r2,
  (length r1 + length r2 <= fuel)%nat ->
  length (merge_run fuel sf r1 r2) = (length r1 + length r2)%nat.
Proof.
  intros sf fuel. induction fuel as [|f IH]; intros r1 r2 Hf.
  - cbn. lia.
  - cbn [merge_run]. destruct (merge_step sf r1 r2) as [[[[o v] r1'] r2']|] eqn:Hs.
    + pose proof (merge_step_length _ _ _ _ _ _ _ Hs) as Hl.
      cbn [length]. rewrite IH by lia. lia.
    + apply merge_step_none in Hs. destruct Hs as [-> ->]. reflexivity.
Qed.

(* more fuel than elements changes nothing *)
Lemma merge_run_fuel : forall sf fuel r1 r2,
  (length r1 + length r2 <= fuel)%nat ->
  merge_run fuel sf r1 r2 = merge_run (length r1 + length r2) sf r1 r2.
Proof.
  intros sf fuel. induction fuel as [|f IH]; intros r1 r2 Hf.
  - replace (length r1 + length r2)%nat with O by lia. reflexivity.
  - cbn [merge_run]. destruct (merge_step sf r1 r2) as [[[[o v] r1'] r2']|] eqn:Hs.
    + pose proof (merge_step_length _ _ _ _ _ _ _ Hs) as Hl.
      rewrite Hl. cbn [merge_run]. rewrite Hs. f_equal. apply IH. lia.
    + apply merge_step_none in Hs. destruct Hs as [-> ->]. reflexivity.
Qed.

(* each input's own order is kept: filtering the tagged output by origin gives
   the inputs back *)
Lemma merge_run_keeps_order : forall sf fuel r1 r2,
  (length r1 + length r2 <= fuel)%nat ->
  from_origin O1 (merge_run fuel sf r1 r2) = r1 /\
  from_origin O2 (merge_run fuel sf r1 r2) = r2.
Proof.
  intros sf fuel. induction fuel as [|f IH]; intros r1 r2 Hf.
  - destruct r1, r2; cbn in Hf; try lia. split; reflexivity.
  - cbn [merge_run]. pose proof (merge_choice sf r1 r2) as Hc.
    destruct (merge_step sf r1 r2) as [[[[[|] v] r1'] r2']|] eqn:Hs.
    + destruct Hc as (-> & -> & _). cbn [length] in Hf.
      destruct (IH r1' r2 ltac:(lia)) as [H1 H2].
      unfold from_origin in *. cbn. rewrite H1, H2. split; reflexivity.
    + destruct Hc as (-> & -> & _). cbn [length] in Hf.
      destruct (IH r1 r2' ltac:(lia)) as [H1 H2].
      unfold from_origin in *. cbn. rewrite H1, H2. split; reflexivity.
    + destruct Hc as [-> ->]. split; reflexivity.
Qed.

(* every element of both inputs exactly once *)
Lemma merge_run_perm : forall sf fuel r1 r2,
  (length r1 + length r2 <= fuel)%nat ->
  Permutation (map snd (merge_run fuel sf r1 r2)) (r1 ++ r2).
Proof.
  intros sf fuel. induction fuel as [|f IH]; intros r1 r2 Hf.
  - destruct r1, r2; cbn in Hf; try lia. constructor.
  - cbn [merge_run]. pose proof (merge_choice sf r1 r2) as Hc.
    destruct (merge_step sf r1 r2) as [[[[[|] v] r1'] r2']|] eqn:Hs.
    + destruct Hc as (-> & -> & _). cbn [length] in Hf.
      cbn. constructor. apply IH. lia.
    + destruct Hc as (-> & -> & _). cbn [length] in Hf.
      cbn [map snd]. apply Permutation_cons_app. apply IH. lia.
    + destruct Hc as [-> ->]. constructor.
Qed.

(** * Sortedness *)

Section Sorted.
  Variable leq : Z -> Z -> Prop.
  Variable sf : Z -> Z -> bool.
  (* the selector decides by the order: it may prefer the first head only when
     it is not larger, the second only when that one is not larger (ties may
     go either way: [<] and [<=] both qualify for the usual order) *)
  Hypothesis sf_true : forall x y, sf x y = true -> leq x y.
  Hypothesis sf_false : forall x y, sf x y = false -> leq y x.

  Lemma merge_run_hdrel : forall fuel r1 r2 a,
    HdRel leq a r1 -> HdRel leq a r2 -> HdRel leq a (map snd (merge_run fuel sf r1 r2)).
  Proof.
    intros [|f] r1 r2 a H1 H2; [constructor|].
    cbn [merge_run]. pose proof (merge_choice sf r1 r2) as Hc.
    destruct (merge_step sf r1 r2) as [[[[[|] v] r1'] r2']|]; cbn.
    - destruct Hc as (-> & _). constructor. inversion H1; assumption.
    - destruct Hc as (-> & _). constructor. inversion H2; assumption.
    - constructor.
  Qed.

  Lemma merge_run_sorted : forall fuel r1 r2,
    Sorted leq r1 -> Sorted leq r2 -> Sorted leq (map snd (merge_run fuel sf r1 r2)).
  Proof.
    induction fuel as [|f IH]; intros r1 r2 H1 H2; [constructor|].
    cbn [merge_run]. pose proof (merge_choice sf r1 r2) as Hc.
    destruct (merge_step sf r1 r2) as [[[[[|] v] r1'] r2']|]; cbn.
    - destruct Hc as (-> & -> & Hc). inversion H1 as [|? ? Hs1 Hh1]; subst.
      constructor; [apply IH; assumption|].
      apply merge_run_hdrel; [exact Hh1|].
      destruct Hc as [-> | (y & t2 & -> & Hsf)]; constructor.
      apply sf_true. exact Hsf.
    - destruct Hc as (-> & -> & Hc). inversion H2 as [|? ? Hs2 Hh2]; subst.
      constructor; [apply IH; assumption|].
      apply merge_run_hdrel; [|exact Hh2].
      destruct Hc as [-> | (x & t1 & -> & Hsf)]; constructor.
      apply sf_false. exact Hsf.
    - constructor.
  Qed.
End Sorted.

(* every consecutive pair of the merged output is in order *)
Lemma merge_sorted : forall (leq : Z -> Z -> Prop) (sf : Z -> Z -> bool) (l1 l2 : list Z),
  (forall x y, sf x y = true -> leq x y) ->
  (forall x y, sf x y = false -> leq y x) ->
  Sorted leq l1 -> Sorted leq l2 -> Sorted leq (merge_out sf l1 l2).
Proof.
  intros leq sf l1 l2 Ht Hf H1 H2. unfold merge_out, merge_tagged.
  apply merge_run_sorted; assumption.
Qed.

(* with a transitive order: every pair of the merged output is in order *)
Lemma merge_strongly_sorted : forall (leq : Z -> Z -> Prop) (sf : Z -> Z -> bool) (l1 l2 : list Z),
  (forall x y z, leq x y -> leq y z -> leq x z) ->
  (forall x y, sf x y = true -> leq x y) ->
  (forall x y, sf x y = false -> leq y x) ->
  StronglySorted leq l1 -> StronglySorted leq l2 -> StronglySorted leq (merge_out sf l1 l2).
Proof.
  intros leq sf l1 l2 Htr Ht Hf H1 H2.
  apply Sorted_StronglySorted; [exact Htr|].
  apply merge_sorted; try assumption; apply StronglySorted_Sorted; assumption.
Qed.

(* the selector itself is the [<=] of a total preorder *)
Lemma merge_sorted_total_preorder : forall (sf : Z -> Z -> bool) (l1 l2 : list Z),
  (forall x y, sf x y = true \/ sf y x = true) ->
  (forall x y z, sf x y = true -> sf y z = true -> sf x z = true) ->
  StronglySorted (fun a b => sf a b = true) l1 ->
  StronglySorted (fun a b => sf a b = true) l2 ->
  StronglySorted (fun a b => sf a b = true) (merge_out sf l1 l2).
Proof.
  intros sf l1 l2 Htot Htr H1 H2.
  apply merge_strongly_sorted; [exact Htr | | | exact H1 | exact H2].
  - intros x y H. exact H.
  - intros x y H. destruct (Htot x y) as [H'|H']; [congruence | exact H'].
Qed.

(* the selectors of the harness and the order each of them merges by *)
Definition sel_order (s : sel) (a b : Z) : Prop :=
  match s with
  | SelLt | SelLe => a <= b
  | SelGt | SelGe => b <= a
  | SelLtK | SelLeK => Z.shiftr a 1 <= Z.shiftr b 1
  | SelAlways1 | SelAlways2 => True
  end.

Lemma merge_sorted_sel : forall (s : sel) (l1 l2 : list Z),
  StronglySorted (sel_order s) l1 -> StronglySorted (sel_order s) l2 ->
  StronglySorted (sel_order s) (merge_out (sel_fn s) l1 l2).
Proof.
  intros s l1 l2. apply merge_strongly_sorted.
  - destruct s; cbn [sel_order]; intros; try exact I; lia.
  - destruct s; cbn [sel_order sel_fn]; intros x y H; try exact I; try discriminate; lia.
  - destruct s; cbn [sel_order sel_fn]; intros x y H; try exact I; try discriminate; lia.
Qed.

(** * The specification as an iterator: HasNext / Next / Reset *)

Lemma spec_has_next_pure : forall sf s, fst (spec_step sf s CHasNext) = s.
Proof. reflexivity. Qed.

Lemma spec_has_next_idem : forall sf s,
  spec_step sf (fst (spec_step sf s CHasNext)) CHasNext = spec_step sf s CHasNext.
Proof. reflexivity. Qed.

(* HasNext = true iff the following Next yields an element, and then the
   element [merge_step] names; HasNext = false iff Next yields (0, false) *)
Lemma spec_has_next_agrees_next : forall sf s,
  match snd (spec_step sf s CHasNext) with
  | OHas true => exists o v r1' r2',
      merge_step sf (sp_r1 s) (sp_r2 s) = Some (o, v, r1', r2') /\
      spec_step sf s CNext = (mkSpec (sp_l1 s) (sp_l2 s) r1' r2', ONext v true)
  | OHas false => spec_step sf s CNext = (s, ONext 0 false) /\ sp_r1 s = [] /\ sp_r2 s = []
  | _ => False
  end.
Proof.
  intros sf s. cbn [spec_step snd].
  destruct (merge_step sf (sp_r1 s) (sp_r2 s)) as [[[[o v] r1'] r2']|] eqn:Hs.
  - exists o, v, r1', r2'. split; reflexivity.
  - split; [reflexivity|]. apply merge_step_none in Hs. exact Hs.
Qed.

Lemma spec_reset_restarts : forall sf s cs,
  spec_run sf s (CReset :: cs) =
  (OReset ROk :: fst (spec_run sf (spec_init (sp_l1 s) (sp_l2 s)) cs),
   snd (spec_run sf (spec_init (sp_l1 s) (sp_l2 s)) cs)).
Proof.
  intros sf s cs. cbn [spec_run spec_step].
  destruct (spec_run sf (spec_init (sp_l1 s) (sp_l2 s)) cs). reflexivity.
Qed.

(* the inputs are never changed *)
Lemma spec_run_inputs : forall sf cs s,
  sp_l1 (snd (spec_run sf s cs)) = sp_l1 s /\ sp_l2 (snd (spec_run sf s cs)) = sp_l2 s.
Proof.
  intros sf cs. induction cs as [|c t IH]; intros s; [split; reflexivity|].
  cbn [spec_run]. destruct (spec_step sf s c) as [s' o] eqn:Hst.
  specialize (IH s'). destruct (spec_run sf s' t) as [os sf']. cbn [snd] in *.
  assert (sp_l1 s' = sp_l1 s /\ sp_l2 s' = sp_l2 s) as [E1 E2].
  { destruct c; cbn in Hst.
    - injection Hst as <- _. split; reflexivity.
    - destruct (merge_step sf (sp_r1 s) (sp_r2 s)) as [[[[o' v] r1'] r2']|];
        injection Hst as <- _; split; reflexivity.
    - injection Hst as <- _. split; reflexivity. }
  rewrite <- E1, <- E2. exact IH.
Qed.

Fixpoint count_next (cs : list call) : nat :=
  match cs with
  | [] => O
  | CNext :: t => S (count_next t)
  | _ :: t => count_next t
  end.

(* under any pattern of HasNext / Next calls the elements obtained are the
   first [count_next] elements of the merge: HasNext never consumes, Next never
   skips or repeats, whatever the interleaving *)
Lemma spec_run_next_vals : forall sf cs s,
  ~ In CReset cs ->
  next_vals (fst (spec_run sf s cs)) =
  firstn (count_next cs)
         (map snd (merge_run (length (sp_r1 s) + length (sp_r2 s)) sf (sp_r1 s) (sp_r2 s))).
Proof.
  intros sf cs. induction cs as [|c t IH]; intros s Hn; [reflexivity|].
  assert (Hn' : ~ In CReset t) by (intros Hin; apply Hn; right; exact Hin).
  destruct c.
  - cbn [spec_run spec_step count_next].
    specialize (IH s Hn'). destruct (spec_run sf s t) as [os sf']. cbn [fst next_vals] in *.
    exact IH.
  - cbn [spec_run spec_step count_next].
    destruct (merge_step sf (sp_r1 s) (sp_r2 s)) as [[[[o v] r1'] r2']|] eqn:Hs.
    + pose proof (merge_step_length _ _ _ _ _ _ _ Hs) as Hl.
      specialize (IH (mkSpec (sp_l1 s) (sp_l2 s) r1' r2') Hn').
      destruct (spec_run sf (mkSpec (sp_l1 s) (sp_l2 s) r1' r2') t) as [os sf'].
      cbn [fst next_vals sp_r1 sp_r2] in *.
      rewrite Hl. cbn [merge_run]. rewrite Hs. cbn [map snd firstn]. f_equal. exact IH.
    + specialize (IH s Hn'). destruct (spec_run sf s t) as [os sf']. cbn [fst next_vals] in *.
      rewrite IH. apply merge_step_none in Hs. destruct Hs as [-> ->]. cbn.
      rewrite !firstn_nil. reflexivity.
  - exfalso. apply Hn. left. reflexivity.
Qed.

Lemma count_next_repeat : forall n, count_next (repeat CNext n) = n.
Proof. induction n as [|n IH]; [reflexivity | cbn; f_equal; exact IH]. Qed.

Lemma not_reset_repeat_next : forall n, ~ In CReset (repeat CNext n).
Proof. intros n Hin. apply repeat_spec in Hin. discriminate. Qed.

(* calling Next often enough drains exactly the merge *)
Lemma spec_drain : forall sf l1 l2 n,
  (length l1 + length l2 <= n)%nat ->
  next_vals (fst (spec_run sf (spec_init l1 l2) (repeat CNext n))) = merge_out sf l1 l2.
Proof.
  intros sf l1 l2 n Hn.
  rewrite spec_run_next_vals by apply not_reset_repeat_next.
  rewrite count_next_repeat. cbn [spec_init sp_r1 sp_r2].
  unfold merge_out, merge_tagged. apply firstn_all2.
  rewrite map_length, merge_run_length by lia. exact Hn.
Qed.

(** * The statements about the whole merge, in their final form *)

Lemma merge_perm : forall sf l1 l2, Permutation (merge_out sf l1 l2) (l1 ++ l2).
Proof. intros sf l1 l2. unfold merge_out, merge_tagged. apply merge_run_perm. lia. Qed.

Lemma merge_length : forall sf l1 l2,
  length (merge_tagged sf l1 l2) = (length l1 + length l2)%nat.
Proof. intros sf l1 l2. unfold merge_tagged. apply merge_run_length. lia. Qed.

Lemma merge_keeps_order : forall sf l1 l2,
  from_origin O1 (merge_tagged sf l1 l2) = l1 /\
  from_origin O2 (merge_tagged sf l1 l2) = l2.
Proof. intros sf l1 l2. unfold merge_tagged. apply merge_run_keeps_order. lia. Qed.

(* the merge is [merge_step] iterated: its first element and what follows *)
Lemma merge_tagged_unfold : forall sf l1 l2,
  merge_tagged sf l1 l2 =
  match merge_step sf l1 l2 with
  | None => []
  | Some (o, v, r1, r2) => (o, v) :: merge_tagged sf r1 r2
  end.
Proof.
  intros sf l1 l2. unfold merge_tagged.
  destruct (merge_step sf l1 l2) as [[[[o v] r1] r2]|] eqn:Hs.
  - rewrite (merge_step_length _ _ _ _ _ _ _ Hs). cbn [merge_run]. rewrite Hs. reflexivity.
  - apply merge_step_none in Hs. destruct Hs as [-> ->]. reflexivity.
Qed.
