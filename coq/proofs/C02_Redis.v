(** C02, Redis client: every concurrent history of the command-interleaved LTS
    (model/RedisConc.v over model/RedisKV.v and model/RedisSrv.v) is
    linearizable w.r.t. the contract with free fresh versions.

    Linearisation points
      Get / GetMany / Put / Delete / ListKeys / PutMany (MSET)   their one command
      Create        the SETNX that succeeds, or the GET that finds the record (ErrExist);
                    a SETNX that fails followed by a GET that finds nothing: again
      CasByVersion  the EXEC that is not refused; the GET for ErrNotExist / ErrConflict;
                    a refused EXEC (the watched key was written): again
      GetMany [] / PutMany []  (no command at all)  the start of the method body
    Everything else (NewID, WATCH, UNWATCH, failed attempts) is silent.

    Proof: a forward simulation from the LTS to the system of lib/Lin.v extended
    with silent steps ([LinSim.xstep]); [zsim] is the simulation relation, with
    one clause per program point of each method ([tshape]). *)
From Coq Require Import List ZArith NArith Arith Bool Lia Permutation.
From GL Require Import lib.Lin lib.LinSim spec.KV spec.KVRel model.RedisSrv model.RedisKV model.RedisConc
                       proofs.C03_KV proofs.C02_Contract proofs.C02_RedisSrv.
Import ListNotations.

(** ** premises on the operations of a run *)

(* expirations that have not passed on the client's clock; PutMany without expirations (its MSET branch:
   with an expiring record PutMany is, in the Go code, a loop of Put calls -- see [putmany_is_puts]) *)
Definition op_live (now : Z) (o : op) : Prop :=
  match o with
  | Create _ _ e | Put _ _ e | CasByVersion _ _ e _ => alive now e
  | PutMany rs => Forall (fun r : key * value * option Z => snd r = None) rs
  | _ => True
  end.

Definition op_ok (now : Z) (o : op) : Prop := op_clean o /\ op_live now o.

(** ** program points *)

Definition create_get (f : nat) (k : key) (pl : payload) (e : option Z) : prog :=
  get_prog k (fun g => match g with
                       | Some (_, _, v, _) => Ret (OExist v)
                       | None => create_loop f k pl e
                       end).

Definition put_set (k : key) (v : value) (e : option Z) (n : nat) : prog :=
  Cmd (fun now => SETC (rKey k) (mkPl k v n e) (expiration e now)) (fun _ => Ret (ORec (k, v, n, e))).

Definition pm_k (rs : list (key * value * option Z)) : option (list (skey * payload)) -> prog :=
  fun a => match a with
           | Some (x :: l) => Cmd (fun _ => MSET (x :: l)) (fun _ => Ret OOk)
           | _ => puts_prog rs
           end.

Definition pm_newid (rs : list (key * value * option Z)) (k : key) (v : value)
                    (suf : list (key * value * option Z)) (acc : list (skey * payload)) : prog :=
  NewID (fun n => mset_args suf ((rKey k, mkPl k v n None) :: acc) (pm_k rs)).

Definition pm_mset (kvs : list (skey * payload)) : prog := Cmd (fun _ => MSET kvs) (fun _ => Ret OOk).

Fixpoint mset_of (rs : list (key * value * option Z)) (ns : list nat) : list (skey * payload) :=
  match rs, ns with
  | (k, v, _) :: t, n :: nt => (rKey k, mkPl k v n None) :: mset_of t nt
  | _, _ => []
  end.

Definition cas_unwatch (f : nat) (k : key) (v : value) (e : option Z) (x n : nat) (xr : reply) : prog :=
  Cmd (fun _ => UNWATCH) (fun _ =>
    match xr with
    | RTxFailed => cas_loop f k v e x
    | _ => Ret (ORec (k, v, n, e))
    end).

Definition cas_exec (f : nat) (k : key) (v : value) (e : option Z) (x n : nat) : prog :=
  Cmd (fun now => EXEC_SET (rKey k) (mkPl k v n e) (expiration e now)) (fun xr => cas_unwatch f k v e x n xr).

Definition cas_newid (f : nat) (k : key) (v : value) (e : option Z) (x : nat) : prog :=
  NewID (fun n => cas_exec f k v e x n).

Definition cas_fail (r : out) : prog := Cmd (fun _ => UNWATCH) (fun _ => Ret r).

Definition cas_get (f : nat) (k : key) (v : value) (e : option Z) (x : nat) : prog :=
  Cmd (fun _ => GETC (rKey k)) (fun r =>
    match r with
    | RVal (Some p) => if Nat.eqb (p_ver p) x then cas_newid f k v e x else cas_fail OConflict
    | _ => cas_fail ONotExist
    end).

Lemma create_loop_S : forall f k pl e, create_loop (S f) k pl e =
  Cmd (fun now => SETNX (rKey k) pl (expiration e now)) (fun r =>
    match r with
    | RBool true => Ret (OVer (p_ver pl))
    | _ => create_get f k pl e
    end).
Proof. reflexivity. Qed.

Lemma cas_loop_S : forall f k v e x, cas_loop (S f) k v e x = Cmd (fun _ => WATCH (rKey k)) (fun _ => cas_get f k v e x).
Proof. reflexivity. Qed.

Lemma rk_put_eq : forall k v e, rk_put k v e = NewID (fun n => put_set k v e n).
Proof. reflexivity. Qed.

Lemma rk_putmany_eq : forall rs, rk_putmany rs = mset_args rs [] (pm_k rs).
Proof. reflexivity. Qed.

(* with an expiring record PutMany is literally a chain of Put programs (after the NewID calls of the abandoned
   MSET preparation): per-key effects only, each Put covered on its own by [redis_linearizable] *)
Lemma puts_prog_cons : forall k v e t, puts_prog ((k, v, e) :: t) = put_prog k v e (fun _ => puts_prog t).
Proof. reflexivity. Qed.

Lemma mset_of_app : forall a b na nb, length na = length a ->
  mset_of (a ++ b) (na ++ nb) = mset_of a na ++ mset_of b nb.
Proof.
  induction a as [|[[k v] e] t IH]; intros b na nb Hl; destruct na as [|n nt]; try discriminate; cbn [app mset_of]; [reflexivity|].
  rewrite IH by (cbn in Hl; lia). reflexivity.
Qed.

Section Proof.
Variables now clk : Z.

Notation accF := kvf_acc_fuel.
Notation crel := (crel now clk).

(** ** one step of a program *)
Definition pstep (t : nat) (sv : srv) (nx : nat) (p : prog) : option (srv * nat * prog) :=
  match p with
  | NewID k => Some (sv, S nx, k nx)
  | Cmd x k => let '(sv', r) := srv_cmd clk t (x now) sv in Some (sv', nx, k r)
  | Ret _ => None
  end.

Lemma zstep_LStep : forall z t, zstep rk_prog now clk z (LStep t) =
  match z_thr z t with
  | TRun inv o p =>
      match pstep t (z_srv z) (z_nxt z) p with
      | Some (sv', nx', p') => Some (mkZ sv' nx' (zupd (z_thr z) t (TRun inv o p')) (S (z_clock z)) (z_done z))
      | None => None
      end
  | _ => None
  end.
Proof.
  intros z t. unfold zstep. destruct (z_thr z t) as [| |inv o p]; try reflexivity.
  destruct p; cbn [pstep]; try reflexivity. destruct (srv_cmd clk t (c now) (z_srv z)). reflexivity.
Qed.

Lemma pstep_frame : forall t sv nx p sv' nx' p' t', pstep t sv nx p = Some (sv', nx', p') -> t <> t' ->
  frame t' sv sv'.
Proof.
  intros t sv nx p sv' nx' p' t' H Hne. destruct p; cbn [pstep] in H; try discriminate.
  - injection H as <- _ _. apply frame_refl.
  - pose proof (frame_cmd t' clk t (c now) sv Hne) as Hf. destruct (srv_cmd clk t (c now) sv) as [s1 r1].
    injection H as <- _ _. exact Hf.
Qed.

(** ** where a thread is inside its method: program, whether it has taken effect (and with which result),
    the versions it has drawn and not yet written *)
Inductive tshape (sv : srv) (t : nat) : op -> prog -> option out -> list nat -> Prop :=
| sh_done : forall o r, tshape sv t o (Ret r) (Some r) []
| sh_cr0 : forall k v e, tshape sv t (Create k v e) (rk_create retry_fuel k v e) None []
| sh_cr1 : forall k v e f n, tshape sv t (Create k v e) (create_loop (S f) k (mkPl k v n e) e) None [n]
| sh_cr2 : forall k v e f n, tshape sv t (Create k v e) (create_get f k (mkPl k v n e) e) None [n]
| sh_get : forall k, tshape sv t (Get k) (rk_get k) None []
| sh_mget : forall k ks, tshape sv t (GetMany (k :: ks)) (mget_prog (k :: ks)) None []
| sh_put0 : forall k v e, tshape sv t (Put k v e) (rk_put k v e) None []
| sh_put1 : forall k v e n, tshape sv t (Put k v e) (put_set k v e n) None [n]
| sh_pm0 : forall rs pre k v suf ns, rs = pre ++ (k, v, None) :: suf -> length ns = length pre ->
    tshape sv t (PutMany rs) (pm_newid rs k v suf (rev (mset_of pre ns))) None ns
| sh_pm1 : forall rs ns x l, length ns = length rs -> mset_of rs ns = x :: l ->
    tshape sv t (PutMany rs) (pm_mset (x :: l)) None ns
| sh_cas0 : forall k v e x f, tshape sv t (CasByVersion k v e x) (cas_loop (S f) k v e x) None []
| sh_cas1 : forall k v e x f, guard0 t (rKey k) sv ->
    tshape sv t (CasByVersion k v e x) (cas_get f k v e x) None []
| sh_cas2 : forall k v e x f y, guard t (rKey k) (Some y) sv -> p_ver (e_pl y) = x ->
    tshape sv t (CasByVersion k v e x) (cas_newid f k v e x) None []
| sh_cas3 : forall k v e x f y n, guard t (rKey k) (Some y) sv -> p_ver (e_pl y) = x ->
    tshape sv t (CasByVersion k v e x) (cas_exec f k v e x n) None [n]
| sh_cas4f : forall k v e x f n,
    tshape sv t (CasByVersion k v e x) (cas_unwatch f k v e x n RTxFailed) None []
| sh_cas4k : forall k v e x f n,
    tshape sv t (CasByVersion k v e x) (cas_unwatch f k v e x n ROk) (Some (ORec (k, v, n, e))) []
| sh_cas5 : forall k v e x r,
    tshape sv t (CasByVersion k v e x) (cas_fail r) (Some r) []
| sh_del : forall k, tshape sv t (Delete k) (rk_delete k) None []
| sh_list : forall p, tshape sv t (ListKeys p) (rk_listkeys p) None [].

Lemma tshape_frame : forall sv sv' t o p st res, frame t sv sv' -> tshape sv t o p st res -> tshape sv' t o p st res.
Proof.
  intros sv sv' t o p st res Hf H. destruct H; try (constructor; assumption).
  - constructor. apply (Hf (rKey k)). assumption.
  - econstructor; [|eassumption]. apply (Hf (rKey k)). assumption.
  - econstructor; [|eassumption]. apply (Hf (rKey k)). assumption.
Qed.

Lemma tshape_ret : forall sv t o r st res, tshape sv t o (Ret r) st res -> st = Some r /\ res = [].
Proof. intros sv t o r st res H. inversion H; subst; auto. Qed.

(** ** the store and the contract state *)
Record ginv (A : fstate) (sv : srv) (nx : nat) : Prop := {
  g_rel : Forall2 crel (frecs A) (store sv);
  g_finv : finv A;
  g_used : forall n, In n (fused A) -> n < nx
}.

Lemma ginv_store : forall A sv sv' nx nx', ginv A sv nx -> store sv' = store sv -> nx <= nx' -> ginv A sv' nx'.
Proof.
  intros A sv sv' nx nx' [H1 H2 H3] Hs Hn. constructor; [rewrite Hs; exact H1|exact H2|].
  intros n Hin. specialize (H3 n Hin). lia.
Qed.

Lemma ginv_write : forall A sv nx k v e n, ginv A sv nx -> clean k -> alive now e -> n < nx -> ~ In n (fused A) ->
  ginv (fwrite k v e n A) (do_set clk (rKey k) (mkPl k v n e) (expiration e now) sv) nx.
Proof.
  intros A sv nx k v e n [H1 H2 H3] Hk Ha Hn Hf. constructor.
  - cbn [fwrite frecs do_set store]. rewrite set_aset. apply c_set_rel; [exact H1|exact Hk|].
    apply crel_write; assumption.
  - apply finv_fwrite; assumption.
  - cbn [fwrite fused]. intros m [<-|Hm]; [exact Hn|auto].
Qed.

Lemma ginv_mset : forall rs ns A sv nx, ginv A sv nx ->
  Forall (fun r : key * value * option Z => clean (fst (fst r))) rs ->
  Forall (fun r : key * value * option Z => snd r = None) rs ->
  NoDup ns -> (forall n, In n ns -> n < nx /\ ~ In n (fused A)) ->
  ginv (fput_many rs ns A) (do_mset clk (mset_of rs ns) sv) nx.
Proof.
  induction rs as [|[[k v] e] t IH]; intros ns A sv nx Hg Hc He Hnd Hf; cbn [fput_many mset_of do_mset]; [exact Hg|].
  destruct ns as [|n nt]; [exact Hg|]. cbn [do_mset].
  inversion Hc as [|? ? Hk Hct]; subst. inversion He as [|? ? He1 Het]; subst.
  inversion Hnd as [|? ? Hn Hnt]; subst. cbn [fst snd] in Hk, He1. subst e.
  destruct (Hf n (or_introl eq_refl)) as [Hlt Hfr].
  apply IH; [|exact Hct|exact Het|exact Hnt|].
  - apply (ginv_write A sv nx k v None n Hg Hk I Hlt Hfr).
  - intros m Hm. destruct (Hf m (or_intror Hm)) as [Hm1 Hm2]. split; [exact Hm1|].
    cbn [fwrite fused]. intros [<-|Hin]; [exact (Hn Hm)|exact (Hm2 Hin)].
Qed.


Lemma ginv_remove : forall A sv nx k, ginv A sv nx -> clean k ->
  ginv (mkF (remove k (frecs A)) (fused A)) (mkSrv (s_remove (rKey k) (store sv)) (touch (rKey k) (watches sv))) nx.
Proof.
  intros A sv nx k [H1 H2 H3] Hk. constructor; cbn [frecs fused store].
  - rewrite remove_aremove. apply c_remove_rel; assumption.
  - apply finv_remove. exact H2.
  - exact H3.
Qed.

(** ** contract steps *)
Lemma acc_read : forall A o r, wants o = 0 -> fstep A now [] o = (A, r) -> accF (A, now) o r (A, now).
Proof.
  intros A o r Hw He. left. split; [cbn; lia|]. exists []. split; [|exact He].
  split; [cbn; auto|]. split; [constructor|intros n []].
Qed.

Lemma acc_one : forall A A' o r n, wants o = 1 -> ~ In n (fused A) -> fstep A now [n] o = (A', r) ->
  accF (A, now) o r (A', now).
Proof.
  intros A A' o r n Hw Hn He. left. split; [cbn; lia|]. exists [n]. split; [|exact He].
  split; [cbn; auto|]. split; [constructor; [intros []|constructor]|]. intros m [<-|[]]. exact Hn.
Qed.

Lemma fresh_nx : forall A sv nx, ginv A sv nx -> ~ In nx (fused A).
Proof. intros A sv nx Hg Hin. pose proof (g_used _ _ _ Hg nx Hin). lia. Qed.

(** ** the start of a method body *)
Lemma begin_shape : forall sv t o, op_ok now o ->
  (exists r, rk_prog o = Ret r /\ wants o = 0 /\ forall A, fstep A now [] o = (A, r)) \/
  tshape sv t o (rk_prog o) None [].
Proof.
  intros sv t o [Hc Hl]. destruct o; cbn [rk_prog].
  - right. constructor.
  - right. constructor.
  - destruct ks as [|k ks]; [left|right; constructor].
    exists (ORecs []). repeat split.
  - right. constructor.
  - destruct rs as [|[[k v] e] rs]; [left; exists OOk; repeat split|right].
    cbn [op_live] in Hl. inversion Hl as [|? ? He Ht]; subst. cbn [snd] in He. subst e.
    apply (sh_pm0 sv t ((k, v, None) :: rs) [] k v rs []); reflexivity.
  - right. apply sh_cas0.
  - right. constructor.
  - right. constructor.
Qed.

(** ** what one step of a thread does *)
Inductive outcome (A : fstate) (o : op) (st : option out) : fstate -> option out -> Prop :=
| oc_tau : outcome A o st A st
| oc_lin : forall r A', st = None -> accF (A, now) o r (A', now) -> outcome A o st A' (Some r).

Record step_ok (A : fstate) (sv : srv) (nx : nat) (t : nat) (o : op) (st : option out) (res : list nat)
               (sv' : srv) (nx' : nat) (p' : prog) (A' : fstate) (st' : option out) (res' : list nat) : Prop := {
  so_out : outcome A o st A' st';
  so_shape : tshape sv' t o p' st' res';
  so_ginv : ginv A' sv' nx';
  so_nx : nx <= nx';
  so_res : forall n, In n res' -> In n res \/ (n = nx /\ nx' = S nx);
  so_nodup : NoDup res';
  so_fresh : forall n, In n res' -> ~ In n (fused A');
  so_used : forall n, In n (fused A') -> In n (fused A) \/ In n res
}.


Lemma pstep_newid : forall t sv nx k sv' nx' p', pstep t sv nx (NewID k) = Some (sv', nx', p') ->
  sv' = sv /\ nx' = S nx /\ p' = k nx.
Proof. intros t sv nx k sv' nx' p' H. cbn [pstep] in H. injection H as <- <- <-. auto. Qed.

Lemma pstep_cmd : forall t sv nx x k sv' nx' p', pstep t sv nx (Cmd x k) = Some (sv', nx', p') ->
  sv' = fst (srv_cmd clk t (x now) sv) /\ nx' = nx /\ p' = k (snd (srv_cmd clk t (x now) sv)).
Proof.
  intros t sv nx x k sv' nx' p' H. cbn [pstep] in H. destruct (srv_cmd clk t (x now) sv) as [s1 r1].
  injection H as <- <- <-. auto.
Qed.

Ltac newid_step Hp := apply pstep_newid in Hp; destruct Hp as [-> [-> ->]].
Ltac cmd_step Hp Esv Ep := apply pstep_cmd in Hp; destruct Hp as [Esv [-> Ep]]; cbn [srv_cmd] in Esv, Ep.
Ltac cmd_done Esv Ep := cbn [fst snd option_map] in Esv, Ep;
  match type of Esv with ?a = _ => subst a end; match type of Ep with ?a = _ => subst a end.


Lemma local_step : forall A sv nx t o p st res sv' nx' p',
  ginv A sv nx -> op_ok now o -> tshape sv t o p st res ->
  (forall n, In n res -> n < nx /\ ~ In n (fused A)) -> NoDup res ->
  pstep t sv nx p = Some (sv', nx', p') ->
  exists A' st' res', step_ok A sv nx t o st res sv' nx' p' A' st' res'.
Proof.
  intros A sv nx t o p st res sv' nx' p' Hg [Hc Hl] Hsh Hres Hnd Hp.
  destruct Hsh.
  - (* done *) discriminate.
  - (* Create: NewID *)
    unfold rk_create in Hp. newid_step Hp.
    exists A, None, [nx]. constructor.
    + apply oc_tau.
    + apply (sh_cr1 sv t k v e 7 nx).
    + eapply ginv_store; [exact Hg|reflexivity|lia].
    + lia.
    + intros n [<-|[]]. right. auto.
    + constructor; [intros []|constructor].
    + intros n [<-|[]]. eapply fresh_nx; eauto.
    + auto.
  - (* Create: SETNX *)
    rewrite create_loop_S in Hp. cmd_step Hp Esv Ep.
    cbn [op_clean op_live] in Hc, Hl.
    pose proof (c_find_rel now clk A sv k (g_rel _ _ _ Hg) Hc) as Hf.
    destruct (Hres n (or_introl eq_refl)) as [Hn1 Hn2].
    destruct (s_find clk (rKey k) sv) as [y|] eqn:Ef.
    + (* the key exists: read it *)
      cmd_done Esv Ep. exists A, None, [n]. constructor.
      * apply oc_tau.
      * apply sh_cr2.
      * exact Hg.
      * lia.
      * auto.
      * exact Hnd.
      * intros m Hm. apply Hres. exact Hm.
      * auto.
    + (* created *)
      cmd_done Esv Ep. destruct (ffind now k A) as [r0|] eqn:EA; [contradiction|].
      exists (fwrite k v e n A), (Some (OVer n)), []. constructor.
      * apply oc_lin; [reflexivity|]. eapply (acc_one A _ _ _ n); [reflexivity|exact Hn2|]. cbn [fstep hd]. rewrite EA. reflexivity.
      * apply sh_done.
      * apply ginv_write; assumption.
      * lia.
      * intros m [].
      * constructor.
      * intros m [].
      * cbn [fwrite fused]. intros m [<-|Hm]; [right; left; reflexivity|left; exact Hm].
  - (* Create: GET after a failed SETNX *)
    unfold create_get, get_prog in Hp. cmd_step Hp Esv Ep.
    cbn [op_clean op_live] in Hc, Hl.
    pose proof (c_find_rel now clk A sv k (g_rel _ _ _ Hg) Hc) as Hf.
    destruct (Hres n (or_introl eq_refl)) as [Hn1 Hn2].
    destruct (s_find clk (rKey k) sv) as [y|] eqn:Ef.
    + cmd_done Esv Ep. destruct (ffind now k A) as [r0|] eqn:EA; [|contradiction].
      destruct Hf as [_ Hpl]. rewrite Hpl. cbn [pl_orec p_val p_ver p_exp].
      exists A, (Some (OExist (ver r0))), []. constructor.
      * apply oc_lin; [reflexivity|]. eapply (acc_one A _ _ _ n); [reflexivity|exact Hn2|]. cbn [fstep]. rewrite EA. reflexivity.
      * apply sh_done.
      * exact Hg.
      * lia.
      * intros m [].
      * constructor.
      * intros m [].
      * auto.
    + cmd_done Esv Ep. destruct f as [|f].
      * (* out of fuel *)
        exists A, (Some OFuel), []. constructor.
        -- apply oc_lin; [reflexivity|]. right. auto.
        -- apply sh_done.
        -- exact Hg.
        -- lia.
        -- intros m [].
        -- constructor.
        -- intros m [].
        -- auto.
      * exists A, None, [n]. constructor.
        -- apply oc_tau.
        -- apply sh_cr1.
        -- exact Hg.
        -- lia.
        -- auto.
        -- exact Hnd.
        -- intros m Hm. apply Hres. exact Hm.
        -- auto.
  - (* Get *)
    unfold rk_get, get_prog in Hp. cmd_step Hp Esv Ep. cbn [op_clean] in Hc.
    pose proof (c_find_rel now clk A sv k (g_rel _ _ _ Hg) Hc) as Hf.
    destruct (s_find clk (rKey k) sv) as [y|] eqn:Ef; cmd_done Esv Ep;
      destruct (ffind now k A) as [r0|] eqn:EA; try contradiction.
    + destruct Hf as [_ Hpl]. rewrite Hpl. cbn [pl_orec p_val p_ver p_exp].
      exists A, (Some (ORec (as_orec k r0))), []. constructor.
      * apply oc_lin; [reflexivity|]. apply acc_read; [reflexivity|]. cbn [fstep]. rewrite EA. reflexivity.
      * apply sh_done.
      * exact Hg.
      * lia.
      * intros m [].
      * constructor.
      * intros m [].
      * auto.
    + exists A, (Some ONotExist), []. constructor.
      * apply oc_lin; [reflexivity|]. apply acc_read; [reflexivity|]. cbn [fstep]. rewrite EA. reflexivity.
      * apply sh_done.
      * exact Hg.
      * lia.
      * intros m [].
      * constructor.
      * intros m [].
      * auto.
  - (* GetMany *)
    unfold mget_prog in Hp. apply pstep_cmd in Hp. destruct Hp as [Esv [-> Ep]].
    change (map rKey (k :: ks)) with (rKey k :: map rKey ks) in Esv, Ep.
    cbn [srv_cmd] in Esv, Ep. cmd_done Esv Ep. cbn [op_clean] in Hc.
    change (rKey k :: map rKey ks) with (map rKey (k :: ks)).
    rewrite (c_zip_rel now clk A sv (k :: ks) (g_rel _ _ _ Hg) Hc).
    eexists A, (Some _), []. constructor.
    + apply oc_lin; [reflexivity|]. apply acc_read; [reflexivity|]. cbn [fstep]. reflexivity.
    + apply sh_done.
    + exact Hg.
    + lia.
    + intros m [].
    + constructor.
    + intros m [].
    + auto.
  - (* Put: NewID *)
    rewrite rk_put_eq in Hp. newid_step Hp.
    exists A, None, [nx]. constructor.
    + apply oc_tau.
    + apply sh_put1.
    + eapply ginv_store; [exact Hg|reflexivity|lia].
    + lia.
    + intros n [<-|[]]. right. auto.
    + constructor; [intros []|constructor].
    + intros n [<-|[]]. eapply fresh_nx; eauto.
    + auto.
  - (* Put: SET *)
    unfold put_set in Hp. cmd_step Hp Esv Ep. cmd_done Esv Ep.
    cbn [op_clean op_live] in Hc, Hl. destruct (Hres n (or_introl eq_refl)) as [Hn1 Hn2].
    exists (fwrite k v e n A), (Some (ORec (k, v, n, e))), []. constructor.
    + apply oc_lin; [reflexivity|]. eapply (acc_one A _ _ _ n); [reflexivity|exact Hn2|]. reflexivity.
    + apply sh_done.
    + apply ginv_write; assumption.
    + lia.
    + intros m [].
    + constructor.
    + intros m [].
    + cbn [fwrite fused]. intros m [<-|Hm]; [right; left; reflexivity|left; exact Hm].
  - (* PutMany: NewID *)
    unfold pm_newid in Hp. newid_step Hp.
    assert (Hacc : (rKey k, mkPl k v nx None) :: rev (mset_of pre ns) = rev (mset_of (pre ++ [(k, v, None)]) (ns ++ [nx]))).
    { rewrite mset_of_app by assumption. cbn [mset_of]. rewrite rev_app_distr. reflexivity. }
    assert (Hnd' : NoDup (ns ++ [nx])).
    { clear -Hnd Hres. induction ns as [|a t IH]; cbn [app]; [constructor; [intros []|constructor]|].
      inversion Hnd as [|? ? Ha Ht]; subst. constructor.
      - intros Hin. apply in_app_or in Hin. destruct Hin as [Hin|[E|[]]]; [auto|].
        destruct (Hres a (or_introl eq_refl)). lia.
      - apply IH; [|exact Ht]. intros n Hn. apply Hres. right. exact Hn. }
    assert (Hres' : forall n, In n (ns ++ [nx]) -> In n ns \/ n = nx /\ S nx = S nx).
    { intros n Hn. apply in_app_or in Hn. destruct Hn as [Hn|[<-|[]]]; auto. }
    assert (Hfr : forall n, In n (ns ++ [nx]) -> ~ In n (fused A)).
    { intros n Hn. apply in_app_or in Hn. destruct Hn as [Hn|[<-|[]]]; [apply Hres; exact Hn|eapply fresh_nx; eauto]. }
    assert (Hg' : ginv A sv (S nx)) by (eapply ginv_store; [exact Hg|reflexivity|lia]).
    assert (Hrs : rs = (pre ++ [(k, v, None)]) ++ suf) by (rewrite <- app_assoc; assumption).
    assert (Hlen : length (ns ++ [nx]) = length (pre ++ [(k, v, None)])) by (rewrite !app_length; cbn; lia).
    rewrite Hacc. destruct suf as [|[[k2 v2] e2] suf2].
    + (* all versions drawn: MSET comes next *)
      cbn [mset_args]. rewrite rev_involutive. rewrite app_nil_r in Hrs. rewrite <- Hrs in *.
      destruct (mset_of rs (ns ++ [nx])) as [|x l] eqn:Em.
      { exfalso. rewrite Hrs in Em. rewrite mset_of_app in Em by assumption. cbn [mset_of] in Em.
        destruct (mset_of pre ns); discriminate. }
      exists A, None, (ns ++ [nx]). constructor.
      * apply oc_tau.
      * cbn [pm_k]. apply (sh_pm1 sv t rs (ns ++ [nx]) x l Hlen Em).
      * exact Hg'.
      * lia.
      * exact Hres'.
      * exact Hnd'.
      * exact Hfr.
      * auto.
    + (* the next record: it has no expiration either *)
      assert (He2 : e2 = None).
      { cbn [op_live] in Hl. rewrite Hrs in Hl. apply Forall_app in Hl. destruct Hl as [_ Hl].
        inversion Hl as [|? ? Hnone _]. exact Hnone. }
      subst e2. cbn [mset_args].
      exists A, None, (ns ++ [nx]). constructor.
      * apply oc_tau.
      * apply (sh_pm0 sv t rs (pre ++ [(k, v, None)]) k2 v2 suf2 (ns ++ [nx]) Hrs Hlen).
      * exact Hg'.
      * lia.
      * exact Hres'.
      * exact Hnd'.
      * exact Hfr.
      * auto.
  - (* PutMany: MSET *)
    unfold pm_mset in Hp. cmd_step Hp Esv Ep. cmd_done Esv Ep.
    cbn [op_clean op_live] in Hc, Hl. rewrite <- H0.
    exists (fput_many rs ns A), (Some OOk), []. constructor.
    + apply oc_lin; [reflexivity|]. left. split; [cbn; lia|]. exists ns. split; [|reflexivity].
      split; [exact H|]. split; [exact Hnd|]. intros n Hn. apply Hres. exact Hn.
    + apply sh_done.
    + apply ginv_mset; assumption.
    + lia.
    + intros m [].
    + constructor.
    + intros m [].
    + rewrite fused_fput_many by exact H. intros m Hm. apply in_app_or in Hm.
      destruct Hm as [Hm|Hm]; [right; apply in_rev; exact Hm|left; exact Hm].
  - (* CasByVersion: WATCH *)
    rewrite cas_loop_S in Hp. cmd_step Hp Esv Ep. cmd_done Esv Ep.
    exists A, None, []. constructor.
    + apply oc_tau.
    + apply sh_cas1. right. cbn [watches]. apply watching_add_same.
    + eapply ginv_store; [exact Hg|reflexivity|lia].
    + lia.
    + intros m [].
    + constructor.
    + intros m [].
    + auto.
  - (* CasByVersion: GET *)
    unfold cas_get in Hp. cmd_step Hp Esv Ep. cmd_done Esv Ep.
    cbn [op_clean op_live] in Hc, Hl.
    pose proof (c_find_rel now clk A sv k (g_rel _ _ _ Hg) Hc) as Hf.
    destruct (s_find clk (rKey k) sv) as [y|] eqn:Ef; cbn [option_map];
      destruct (ffind now k A) as [r0|] eqn:EA; try contradiction.
    + destruct Hf as [Hlk Hpl].
      destruct (Nat.eqb (p_ver (e_pl y)) x) eqn:Ev.
      * apply Nat.eqb_eq in Ev. exists A, None, []. constructor.
        -- apply oc_tau.
        -- apply (sh_cas2 sv t k v e x f y); [|exact Ev]. destruct H as [H|H]; [left; exact H|right; auto].
        -- exact Hg.
        -- lia.
        -- intros m [].
        -- constructor.
        -- intros m [].
        -- auto.
      * exists A, (Some OConflict), []. constructor.
        -- apply oc_lin; [reflexivity|]. eapply (acc_one A _ _ _ nx); [reflexivity|exact (fresh_nx _ _ _ Hg)|].
           cbn [fstep]. rewrite EA. rewrite Hpl in Ev. cbn [p_ver] in Ev. rewrite Ev. reflexivity.
        -- apply sh_cas5.
        -- exact Hg.
        -- lia.
        -- intros m [].
        -- constructor.
        -- intros m [].
        -- auto.
    + exists A, (Some ONotExist), []. constructor.
      * apply oc_lin; [reflexivity|]. eapply (acc_one A _ _ _ nx); [reflexivity|exact (fresh_nx _ _ _ Hg)|].
        cbn [fstep]. rewrite EA. reflexivity.
      * apply sh_cas5.
      * exact Hg.
      * lia.
      * intros m [].
      * constructor.
      * intros m [].
      * auto.
  - (* CasByVersion: NewID *)
    unfold cas_newid in Hp. newid_step Hp.
    exists A, None, [nx]. constructor.
    + apply oc_tau.
    + apply (sh_cas3 sv t k v e x f y nx); assumption.
    + eapply ginv_store; [exact Hg|reflexivity|lia].
    + lia.
    + intros m [<-|[]]. right. auto.
    + constructor; [intros []|constructor].
    + intros m [<-|[]]. eapply fresh_nx; eauto.
    + auto.
  - (* CasByVersion: EXEC *)
    unfold cas_exec in Hp. cmd_step Hp Esv Ep.
    cbn [op_clean op_live] in Hc, Hl. destruct (Hres n (or_introl eq_refl)) as [Hn1 Hn2].
    destruct (conn_dirty t (watches sv)) eqn:Ed.
    + (* refused *)
      cmd_done Esv Ep. exists A, None, []. constructor.
      * apply oc_tau.
      * apply sh_cas4f.
      * eapply ginv_store; [exact Hg|reflexivity|lia].
      * lia.
      * intros m [].
      * constructor.
      * intros m [].
      * auto.
    + (* executed: the entry read by GET is still the stored one *)
      cmd_done Esv Ep. destruct H as [H|[_ Hlk]]; [congruence|].
      pose proof (c_find_rel now clk A sv k (g_rel _ _ _ Hg) Hc) as Hf. unfold s_find in Hf. rewrite Hlk in Hf.
      destruct (ffind now k A) as [r0|] eqn:EA; [|destruct (dead clk y); [discriminate|contradiction]].
      destruct (dead clk y); [contradiction|]. destruct Hf as [_ Hpl].
      assert (Hv : ver r0 = x) by (rewrite Hpl in H0; exact H0).
      exists (fwrite k v e n A), (Some (ORec (k, v, n, e))), []. constructor.
      * apply oc_lin; [reflexivity|]. eapply (acc_one A _ _ _ n); [reflexivity|exact Hn2|].
        cbn [fstep hd]. rewrite EA, Hv, Nat.eqb_refl. reflexivity.
      * apply sh_cas4k.
      * eapply ginv_store; [apply (ginv_write A sv nx k v e n Hg Hc Hl Hn1 Hn2)|reflexivity|lia].
      * lia.
      * intros m [].
      * constructor.
      * intros m [].
      * cbn [fwrite fused]. intros m [<-|Hm]; [right; left; reflexivity|left; exact Hm].
  - (* CasByVersion: UNWATCH after a refused EXEC *)
    unfold cas_unwatch in Hp. cmd_step Hp Esv Ep. cmd_done Esv Ep.
    destruct f as [|f].
    + exists A, (Some OFuel), []. constructor.
      * apply oc_lin; [reflexivity|]. right. auto.
      * apply sh_done.
      * eapply ginv_store; [exact Hg|reflexivity|lia].
      * lia.
      * intros m [].
      * constructor.
      * intros m [].
      * auto.
    + exists A, None, []. constructor.
      * apply oc_tau.
      * apply sh_cas0.
      * eapply ginv_store; [exact Hg|reflexivity|lia].
      * lia.
      * intros m [].
      * constructor.
      * intros m [].
      * auto.
  - (* CasByVersion: UNWATCH after the EXEC that took effect *)
    unfold cas_unwatch in Hp. cmd_step Hp Esv Ep. cmd_done Esv Ep.
    exists A, (Some (ORec (k, v, n, e))), []. constructor.
    + apply oc_tau.
    + apply sh_done.
    + eapply ginv_store; [exact Hg|reflexivity|lia].
    + lia.
    + intros m [].
    + constructor.
    + intros m [].
    + auto.
  - (* CasByVersion: UNWATCH after ErrNotExist / ErrConflict *)
    unfold cas_fail in Hp. cmd_step Hp Esv Ep. cmd_done Esv Ep.
    exists A, (Some r), []. constructor.
    + apply oc_tau.
    + apply sh_done.
    + eapply ginv_store; [exact Hg|reflexivity|lia].
    + lia.
    + intros m [].
    + constructor.
    + intros m [].
    + auto.
  - (* Delete *)
    unfold rk_delete in Hp. cmd_step Hp Esv Ep. cbn [op_clean] in Hc.
    pose proof (c_find_rel now clk A sv k (g_rel _ _ _ Hg) Hc) as Hf.
    destruct (s_find clk (rKey k) sv) as [y|] eqn:Ef; cmd_done Esv Ep;
      destruct (ffind now k A) as [r0|] eqn:EA; try contradiction.
    + exists (mkF (remove k (frecs A)) (fused A)), (Some OOk), []. constructor.
      * apply oc_lin; [reflexivity|]. left. split; [cbn; lia|]. exists []. split.
        -- split; [reflexivity|]. split; [constructor|intros m []].
        -- cbn [fstep fst snd]. rewrite EA. reflexivity.
      * apply sh_done.
      * apply ginv_remove; assumption.
      * lia.
      * intros m [].
      * constructor.
      * intros m [].
      * auto.
    + exists A, (Some ONotExist), []. constructor.
      * apply oc_lin; [reflexivity|]. apply acc_read; [reflexivity|]. cbn [fstep]. rewrite EA. reflexivity.
      * apply sh_done.
      * exact Hg.
      * lia.
      * intros m [].
      * constructor.
      * intros m [].
      * auto.
  - (* ListKeys *)
    unfold rk_listkeys in Hp. cmd_step Hp Esv Ep. cmd_done Esv Ep. cbn [op_clean] in Hc.
    cbn beta iota. pose proof (c_scan_rel now clk _ _ p (g_rel _ _ _ Hg) Hc) as Hsc.
    match goal with |- context [OKeys ?X] =>
      replace X with (map fst (filter (fun kr => negb (expired now (snd kr)) && matches p (fst kr)) (frecs A)))
        by (symmetry; exact Hsc) end.
    eexists A, (Some _), []. constructor.
    + apply oc_lin; [reflexivity|]. apply acc_read; [reflexivity|]. cbn [fstep]. reflexivity.
    + apply sh_done.
    + exact Hg.
    + lia.
    + intros m [].
    + constructor.
    + intros m [].
    + auto.
Qed.


(** ** the simulation *)
Notation asys := (sys (fstate * Z) op out).

Inductive tsim (sv : srv) (t : nat) (res : list nat) : rth -> tstate op out -> Prop :=
| ts_idle : res = [] -> tsim sv t res TIdle Idle
| ts_start : forall inv o, res = [] -> op_ok now o -> tsim sv t res (TStart inv o) (Invoked inv o)
| ts_run0 : forall inv o p, op_ok now o -> tshape sv t o p None res ->
    tsim sv t res (TRun inv o p) (Invoked inv o)
| ts_run1 : forall inv o p r id, op_ok now o -> tshape sv t o p (Some r) res ->
    tsim sv t res (TRun inv o p) (Took id inv o r).

Lemma tsim_frame : forall sv sv' t res a b, frame t sv sv' -> tsim sv t res a b -> tsim sv' t res a b.
Proof.
  intros sv sv' t res a b Hf H. destruct H.
  - apply ts_idle; assumption.
  - apply ts_start; assumption.
  - apply ts_run0; [assumption|]. eapply tshape_frame; eauto.
  - apply ts_run1; [assumption|]. eapply tshape_frame; eauto.
Qed.

Record zinv (z : rsys) (y : asys) (rs : nat -> list nat) : Prop := {
  zi_clock : z_clock z = clock y;
  zi_done : z_done z = done y;
  zi_time : snd (shared y) = now;
  zi_ginv : ginv (fst (shared y)) (z_srv z) (z_nxt z);
  zi_thr : forall t, tsim (z_srv z) t (rs t) (z_thr z t) (threads y t);
  zi_res : forall t n, In n (rs t) -> n < z_nxt z /\ ~ In n (fused (fst (shared y)));
  zi_nodup : forall t, NoDup (rs t);
  zi_disj : forall t t' n, t <> t' -> In n (rs t) -> In n (rs t') -> False
}.

Definition zsim (z : rsys) (y : asys) : Prop := exists rs, zinv z y rs.

Lemma zsim_init : zsim z_init (sys_init (finit, now)).
Proof.
  exists (fun _ => []). constructor; cbn; auto.
  - constructor; cbn; [constructor|apply finv_init|intros n []].
  - intros t. apply ts_idle. reflexivity.
  - intros t n [].
  - intros t. constructor.
Qed.

Definition label_ok (l : rlabel) : Prop :=
  match l with LInv _ o => op_ok now o | _ => True end.

Lemma shared_eta : forall (y : asys), snd (shared y) = now -> shared y = (fst (shared y), now).
Proof. intros y H. rewrite <- H. destruct (shared y); reflexivity. Qed.

Lemma zsim_step : forall z y l z', zsim z y -> label_ok l -> zstep rk_prog now clk z l = Some z' ->
  exists e y', xstep accF y e y' /\ zsim z' y'.
Proof.
  intros z y l z' [rs Hz] Hl Hs. pose proof Hz as [Hck Hdn Htm Hg Hth Hrs Hnd Hdj].
  destruct l as [t o|t|t|t].
  - (* invocation *)
    cbn [zstep] in Hs. pose proof (Hth t) as Ht. destruct (z_thr z t) eqn:Et; try discriminate.
    injection Hs as <-. inversion Ht as [Hr Hy| | |]; subst.
    exists (XE (EInv t o)). eexists. split; [apply x_base; apply s_inv; symmetry; eassumption|].
    exists rs. constructor; cbn [z_clock z_done z_srv z_nxt z_thr clock done shared threads]; auto.
    + intros u. unfold zupd, upd. destruct (Nat.eqb_spec u t) as [->|Hne]; [|apply Hth].
      rewrite Hck. apply ts_start; [exact Hr|exact Hl].
  - (* the method body starts *)
    cbn [zstep] in Hs. pose proof (Hth t) as Ht. destruct (z_thr z t) as [|inv o|] eqn:Et; try discriminate.
    injection Hs as <-. inversion Ht as [|? ? Hr Hok Hy| |]; subst.
    destruct (begin_shape (z_srv z) t o Hok) as [[r [Hp [Hw Hf]]]|Hsh].
    + (* no command at all: it takes effect here *)
      exists (XE (EAtom t r)). eexists. split.
      * apply x_base. eapply s_atom; [symmetry; eassumption|].
        rewrite (shared_eta y Htm). apply acc_read; [exact Hw|apply Hf].
      * exists rs. constructor; cbn [z_clock z_done z_srv z_nxt z_thr clock done shared threads fst snd]; auto.
        intros u. unfold zupd, upd. destruct (Nat.eqb_spec u t) as [->|Hne]; [|apply Hth].
        rewrite Hp, Hr. apply ts_run1; [exact Hok|apply sh_done].
    + exists XTau, (tick y). split; [apply x_tau|].
      exists rs. constructor; cbn [tick z_clock z_done z_srv z_nxt z_thr clock done shared threads]; auto.
      intros u. unfold zupd. destruct (Nat.eqb_spec u t) as [->|Hne]; [|apply Hth].
      rewrite <- H0. rewrite Hr. apply ts_run0; assumption.
  - (* a NewID / a server command *)
    rewrite zstep_LStep in Hs. pose proof (Hth t) as Ht. destruct (z_thr z t) as [| |inv o p] eqn:Et; try discriminate.
    destruct (pstep t (z_srv z) (z_nxt z) p) as [[[sv' nx'] p']|] eqn:Ep; [|discriminate]. injection Hs as <-.
    assert (Hfr : forall u, u <> t -> tsim sv' u (rs u) (z_thr z u) (threads y u)).
    { intros u Hne. eapply tsim_frame; [|apply Hth]. eapply pstep_frame; eauto. }
    assert (Hstep : forall st, op_ok now o -> tshape (z_srv z) t o p st (rs t) ->
              exists A' st' res', step_ok (fst (shared y)) (z_srv z) (z_nxt z) t o st (rs t) sv' nx' p' A' st' res').
    { intros st Hok Hsh. eapply local_step; eauto. }
    assert (Hfin : forall A' st st' res' (y' : asys),
              step_ok (fst (shared y)) (z_srv z) (z_nxt z) t o st (rs t) sv' nx' p' A' st' res' ->
              clock y' = S (clock y) -> done y' = done y -> shared y' = (A', now) ->
              (forall u, u <> t -> threads y' u = threads y u) ->
              tsim sv' t res' (TRun inv o p') (threads y' t) ->
              zsim (mkZ sv' nx' (zupd (z_thr z) t (TRun inv o p')) (S (z_clock z)) (z_done z)) y').
    { intros A' st st' res' y' [_ _ So3 So4 So5 So6 So7 So8] Hc' Hd' Hs' Hu' Ht'.
      exists (fun u => if Nat.eqb u t then res' else rs u).
      constructor; cbn [z_clock z_done z_srv z_nxt z_thr]; try rewrite Hs'; cbn [fst snd]; auto; try congruence.
      - intros u. unfold zupd. destruct (Nat.eqb_spec u t) as [->|Hne]; [exact Ht'|].
        rewrite (Hu' u Hne). apply Hfr. exact Hne.
      - intros u n Hn. destruct (Nat.eqb_spec u t) as [->|Hne].
        + split; [|apply So7; exact Hn]. destruct (So5 n Hn) as [Hin|[-> ->]]; [|lia].
          destruct (Hrs t n Hin). lia.
        + destruct (Hrs u n Hn) as [H1 H2]. split; [lia|]. intros Hin.
          destruct (So8 n Hin) as [Hin'|Hin']; [exact (H2 Hin')|exact (Hdj u t n Hne Hn Hin')].
      - intros u. destruct (Nat.eqb u t); [exact So6|apply Hnd].
      - intros u u' n Hne Hn Hn'.
        destruct (Nat.eqb_spec u t) as [->|Hv], (Nat.eqb_spec u' t) as [->|Hv']; try contradiction.
        + destruct (So5 n Hn) as [Hin|[-> _]]; [exact (Hdj t u' n Hne Hin Hn')|].
          destruct (Hrs u' _ Hn'). lia.
        + destruct (So5 n Hn') as [Hin|[-> _]]; [exact (Hdj u t n Hne Hn Hin)|].
          destruct (Hrs u _ Hn). lia.
        + exact (Hdj u u' n Hne Hn Hn'). }
    inversion Ht as [| |? ? ? Hok Hsh|? ? ? r id Hok Hsh]; subst;
      match goal with H : _ = threads y t |- _ => rename H into Hy end.
    + (* not linearised yet *)
      destruct (Hstep None Hok Hsh) as [A' [st' [res' So]]]. pose proof So as [So1 So2 _ _ _ _ _ _].
      inversion So1 as [|r A'' _ Hacc]; subst.
      * exists XTau, (tick y). split; [apply x_tau|].
        apply (Hfin _ _ _ _ _ So); cbn [tick clock done shared threads]; auto.
        -- apply shared_eta. exact Htm.
        -- rewrite <- Hy. apply ts_run0; assumption.
      * exists (XE (EAtom t r)). eexists. split.
        -- apply x_base. eapply s_atom; [symmetry; eassumption|]. rewrite (shared_eta y Htm). exact Hacc.
        -- apply (Hfin _ _ _ _ _ So); cbn [clock done shared threads]; auto.
           ++ intros u Hne. unfold upd. apply Nat.eqb_neq in Hne. rewrite Hne. reflexivity.
           ++ unfold upd. rewrite Nat.eqb_refl. apply ts_run1; assumption.
    + (* already linearised: only silent steps are left *)
      destruct (Hstep (Some r) Hok Hsh) as [A' [st' [res' So]]]. pose proof So as [So1 So2 _ _ _ _ _ _].
      inversion So1 as [|r' A'' Hn _]; subst; [|discriminate].
      exists XTau, (tick y). split; [apply x_tau|].
      apply (Hfin _ _ _ _ _ So); cbn [tick clock done shared threads]; auto.
      * apply shared_eta. exact Htm.
      * rewrite <- Hy. apply ts_run1; assumption.
  - (* response *)
    cbn [zstep] in Hs. pose proof (Hth t) as Ht. destruct (z_thr z t) as [| |inv o p] eqn:Et; try discriminate.
    destruct p as [r| |]; try discriminate. injection Hs as <-.
    inversion Ht as [| |? ? ? Hok Hsh|? ? ? r0 id Hok Hsh]; subst;
      match goal with H : _ = threads y t |- _ => rename H into Hy end.
    + destruct (tshape_ret _ _ _ _ _ _ Hsh) as [Hn _]. discriminate.
    + destruct (tshape_ret _ _ _ _ _ _ Hsh) as [Hr0 Hres0]. injection Hr0 as ->.
      exists (XE (ERet t)). eexists. split; [apply x_base; eapply s_ret; symmetry; eassumption|].
      exists rs. constructor; cbn [z_clock z_done z_srv z_nxt z_thr clock done shared threads]; auto.
      * rewrite Hck, Hdn. reflexivity.
      * intros u. unfold zupd, upd. destruct (Nat.eqb_spec u t) as [->|Hne]; [|apply Hth].
        apply ts_idle. exact Hres0.
Qed.

Lemma zrun_sim : forall tr z y0 xtr y z', xreach accF y0 xtr y -> zsim z y -> Forall label_ok tr ->
  zrun rk_prog now clk z tr = Some z' ->
  exists xtr' y', xreach accF y0 xtr' y' /\ zsim z' y'.
Proof.
  induction tr as [|l tr IH]; intros z y0 xtr y z' Hx Hz Hl Hr; cbn [zrun] in Hr.
  - injection Hr as <-. eauto.
  - inversion Hl as [|? ? Hl1 Hl2]; subst.
    destruct (zstep rk_prog now clk z l) as [z1|] eqn:Es; [|discriminate].
    destruct (zsim_step z y l z1 Hz Hl1 Es) as [e [y1 [Hxs Hz1]]].
    eapply IH; [eapply xreach_snoc; eauto|exact Hz1|exact Hl2|exact Hr].
Qed.

Theorem redis_linearizable_fuel : forall tr z,
  zrun rk_prog now clk z_init tr = Some z -> Forall label_ok tr -> zquiescent z ->
  linearizable accF (finit, now) (z_done z).
Proof.
  intros tr z Hr Hl Hq.
  destruct (zrun_sim tr z_init _ [] _ z (xreach_nil accF _) zsim_init Hl Hr) as [xtr [y [Hx [rs Hz]]]].
  assert (Hqy : quiescent y).
  { intros t. pose proof (zi_thr _ _ _ Hz t) as Ht. rewrite (Hq t) in Ht. inversion Ht. reflexivity. }
  destruct (x_linearizable accF _ _ _ Hx Hqy) as [l [Hp [Hrt Hleg]]].
  rewrite (zi_done _ _ _ Hz). exists l, (shared y). auto.
Qed.

End Proof.

(** ** the statement without [OFuel] *)
Theorem redis_linearizable : forall now clk tr z,
  zrun rk_prog now clk z_init tr = Some z -> Forall (label_ok now) tr -> zquiescent z ->
  (forall x, In x (z_done z) -> o_res x <> OFuel) ->
  linearizable kvf_acc (finit, now) (z_done z).
Proof.
  intros now clk tr z Hr Hl Hq Hf.
  apply (linearizable_restrict kvf_acc_fuel (fun x => o_res x <> OFuel) kvf_acc).
  - intros s x s' Hg [H|[H _]]; [exact H|contradiction].
  - exact Hf.
  - eapply redis_linearizable_fuel; eauto.
Qed.

(** the consequences for the Redis client, through linearizability *)
Corollary redis_cas_once : forall now clk tr z n,
  zrun rk_prog now clk z_init tr = Some z -> Forall (label_ok now) tr -> zquiescent z ->
  (forall x, In x (z_done z) -> o_res x <> OFuel) ->
  length (filter (cas_ok n) (z_done z)) <= 1.
Proof.
  intros now clk tr z n Hr Hl Hq Hf.
  apply (concurrent_cas_once (finit, now)); [apply finv_init|]. eapply redis_linearizable; eauto.
Qed.

(** ** a checkable form of quiescence: the threads a trace mentions are idle at its end *)
Lemma zstep_other : forall prog_of now clk z l z' u, zstep prog_of now clk z l = Some z' ->
  u <> label_thread l -> z_thr z' u = z_thr z u.
Proof.
  intros prog_of now clk z l z' u H Hne.
  assert (Hu : forall x, zupd (z_thr z) (label_thread l) x u = z_thr z u).
  { intros x. unfold zupd. apply Nat.eqb_neq in Hne. rewrite Hne. reflexivity. }
  destruct l as [t o|t|t|t]; cbn [zstep label_thread] in *.
  - destruct (z_thr z t); try discriminate. injection H as <-. apply Hu.
  - destruct (z_thr z t); try discriminate. injection H as <-. apply Hu.
  - destruct (z_thr z t) as [| |inv o p]; try discriminate. destruct p; try discriminate.
    + injection H as <-. apply Hu.
    + destruct (srv_cmd clk t (c now) (z_srv z)). injection H as <-. apply Hu.
  - destruct (z_thr z t) as [| |inv o p]; try discriminate. destruct p; try discriminate.
    injection H as <-. apply Hu.
Qed.

Lemma zrun_other : forall prog_of now clk tr z z' u, zrun prog_of now clk z tr = Some z' ->
  (forall l, In l tr -> u <> label_thread l) -> z_thr z' u = z_thr z u.
Proof.
  induction tr as [|l tr IH]; intros z z' u H Hu; cbn [zrun] in H.
  - injection H as <-. reflexivity.
  - destruct (zstep prog_of now clk z l) as [z1|] eqn:E; [|discriminate].
    rewrite (IH z1 z' u H (fun l' Hl' => Hu l' (or_intror Hl'))).
    eapply zstep_other; [exact E|]. apply Hu. left. reflexivity.
Qed.

Lemma zquiet_ok : forall prog_of now clk tr z, zrun prog_of now clk z_init tr = Some z ->
  zquiet tr z = true -> zquiescent z.
Proof.
  intros prog_of now clk tr z Hr Hq u. unfold zquiet in Hq. rewrite forallb_forall in Hq.
  destruct (in_dec Nat.eq_dec u (map label_thread tr)) as [Hin|Hnin].
  - apply in_map_iff in Hin. destruct Hin as [l [<- Hl]]. specialize (Hq l Hl).
    destruct (z_thr z (label_thread l)); [reflexivity|discriminate|discriminate].
  - rewrite (zrun_other prog_of now clk tr z_init z u Hr); [reflexivity|].
    intros l Hl E. apply Hnin. apply in_map_iff. exists l. auto.
Qed.

(** ** PutMany with an expiring record: per-key effects only *)

(* [n] NewID steps of a program *)
Fixpoint burn (n nx : nat) (p : prog) : prog :=
  match n with
  | O => p
  | S m => match p with NewID k => burn m (S nx) (k nx) | _ => p end
  end.

Lemma mset_args_burn : forall pre k v x suf acc ret nx,
  Forall (fun r : key * value * option Z => snd r = None) pre ->
  burn (length pre) nx (mset_args (pre ++ (k, v, Some x) :: suf) acc ret) = ret None.
Proof.
  induction pre as [|[[k1 v1] e1] t IH]; intros k v x suf acc ret nx H; cbn [app length burn mset_args]; [reflexivity|].
  inversion H as [|? ? He Ht]; subst. cbn [snd] in He. subst e1. cbn [burn]. apply IH. exact Ht.
Qed.

(* after the NewID calls of its abandoned MSET preparation (one per record in front of the first expiring one)
   the program of such a PutMany IS the chain of the Put programs of its records, in order ([puts_prog_cons]) *)
Lemma putmany_is_puts : forall pre k v x suf nx,
  Forall (fun r : key * value * option Z => snd r = None) pre ->
  burn (length pre) nx (rk_putmany (pre ++ (k, v, Some x) :: suf)) = puts_prog (pre ++ (k, v, Some x) :: suf).
Proof. intros. unfold rk_putmany. rewrite mset_args_burn by assumption. reflexivity. Qed.
