(** C07: what a passing correspondence check means.  If [run_mem keys steps]
    accepts the observations of a scripted run, then the labels the validator
    fired (script labels + inferred internal labels) form a trace of the LTS from
    [init] to the validator's final state, every quiescent point it compared the
    implementation with is a state in which no call can move, and therefore all
    the theorems about reachable states apply to the observed run. *)
From Coq Require Import List ZArith NArith Bool Arith Lia.
From GL Require Import model.WaitLTS run.Run_C07 proofs.C07_Wait.
Import ListNotations.

Lemma first_enabled_none : forall s ts, first_enabled s ts = None ->
  forall t, In t ts -> enabled_of s t = [].
Proof.
  intros s. induction ts as [|t0 tl IH]; intros H t Hin; [destruct Hin|].
  cbn [first_enabled] in H. destruct (enabled_of s t0) as [|l ls] eqn:E; [|discriminate].
  destruct Hin as [<-|Hin]; [exact E|]. apply IH; assumption.
Qed.

Lemma first_enabled_some : forall s ts l, first_enabled s ts = Some l ->
  exists t, In l (enabled_of s t).
Proof.
  intros s. induction ts as [|t0 tl IH]; intros l H; [discriminate|].
  cbn [first_enabled] in H. destruct (enabled_of s t0) as [|l0 ls] eqn:E.
  - apply IH. exact H.
  - injection H as <-. exists t0. rewrite E. left. reflexivity.
Qed.

Lemma enabled_of_out_of_range : forall s t, length (thr s) <= t -> enabled_of s t = [].
Proof.
  intros s t H. unfold enabled_of, pc_of. apply nth_error_None in H. rewrite H. reflexivity.
Qed.

(** saturation only fires steps of the calls themselves, follows the LTS, and stops
    in a state in which no call can move *)
Theorem saturate_sound : forall fuel s acc s' ls,
  saturate fuel s acc = Some (s', ls) ->
  exists ls', ls = rev acc ++ ls' /\ run s ls' = Some s' /\
              Forall (fun l => thread_of l <> None) ls' /\
              forall t, enabled_of s' t = [].
Proof.
  induction fuel as [|f IH]; intros s acc s' ls H; cbn [saturate] in H.
  - destruct (first_enabled s (seq 0 (length (thr s)))) as [l|] eqn:E; [discriminate|].
    injection H as <- <-. exists []. rewrite app_nil_r. repeat split; auto.
    intros t. destruct (Nat.lt_ge_cases t (length (thr s))) as [Hlt|Hge].
    + eapply first_enabled_none; eauto. apply in_seq. lia.
    + apply enabled_of_out_of_range. exact Hge.
  - destruct (first_enabled s (seq 0 (length (thr s)))) as [l|] eqn:E.
    + destruct (step s l) as [s1|] eqn:Hs; [|discriminate].
      destruct (IH _ _ _ _ H) as (ls' & -> & Hrun & Hown & Hq).
      exists (l :: ls'). cbn [rev]. rewrite <- app_assoc. cbn [app]. split; [reflexivity|].
      split; [cbn [run]; rewrite Hs; exact Hrun|]. split; [|exact Hq].
      constructor; [|exact Hown].
      destruct (first_enabled_some _ _ _ E) as (t & Hin).
      destruct (enabled_of_sound _ _ _ Hin) as [-> _]. discriminate.
    + injection H as <- <-. exists []. rewrite app_nil_r. repeat split; auto.
      intros t. destruct (Nat.lt_ge_cases t (length (thr s))) as [Hlt|Hge].
      * eapply first_enabled_none; eauto. apply in_seq. lia.
      * apply enabled_of_out_of_range. exact Hge.
Qed.

Lemma apply_sop_run : forall s vb o s1 vb1 ls1,
  apply_sop s vb o = Some (s1, vb1, ls1) -> run s ls1 = Some s1.
Proof.
  intros s vb o s1 vb1 ls1 H. destruct o as [k vtag pre|t|o out|dt]; cbn [apply_sop] in H.
  - destruct (tr vb vtag) as [v|]; [|discriminate].
    destruct (step s (Start (length (thr s)) k v)) as [s0|] eqn:E1; [|discriminate].
    destruct pre.
    + destruct (step s0 (CtxDone (length (thr s)))) as [s2|] eqn:E2; [|discriminate].
      injection H as <- <- <-. cbn [run]. rewrite E1, E2. reflexivity.
    + injection H as <- <- <-. cbn [run]. rewrite E1. reflexivity.
  - destruct (step s (CtxDone t)) as [s0|] eqn:E1; [|discriminate].
    injection H as <- <- <-. cbn [run]. rewrite E1. reflexivity.
  - destruct (tr_mop vb o) as [o'|]; [|discriminate].
    destruct (step s (Mut o')) as [s0|] eqn:E1; [|discriminate].
    destruct (out_match vb (snd (mut_step s o')) out) as [vb'|]; [|discriminate].
    injection H as <- <- <-. cbn [run]. rewrite E1. reflexivity.
  - destruct (step s (Tick dt)) as [s0|] eqn:E1; [|discriminate].
    injection H as <- <- <-. cbn [run]. rewrite E1. reflexivity.
Qed.

(** one validated script step: the model moves from one quiescent state to the
    next along LTS labels, and the observed "blocked in select" set is the set of
    calls the model has parked there, none of which (nor any other call) can move *)
Theorem check_step_sound : forall keys v x v',
  check_step keys v x = Some v' ->
  exists ls, v_trace v' = v_trace v ++ ls /\ run (v_st v) ls = Some (v_st v') /\
             (forall t, enabled_of (v_st v') t = []) /\
             parked_list (thr (v_st v')) 0 = o_parked (s_obs x) /\
             dblclose (v_st v') = false.
Proof.
  intros keys v x v' H. unfold check_step in H.
  destruct (apply_sop (v_st v) (v_vb v) (s_op x)) as [[[s1 vb1] ls1]|] eqn:E1; [|discriminate].
  destruct (saturate sat_fuel s1 []) as [[s2 ls2]|] eqn:E2; [|discriminate].
  match type of H with (if ?c then _ else _) = _ => destruct c eqn:Ec; [|discriminate] end.
  destruct (tbl_match s2 (v_cb v) keys (o_tbl (s_obs x))) as [cb'|]; [|discriminate].
  destruct (store_match s2 vb1 keys (o_store (s_obs x))) as [vb'|]; [|discriminate].
  injection H as <-. cbn [v_trace v_st].
  destruct (saturate_sound _ _ _ _ _ E2) as (ls' & -> & Hrun & _ & Hq). cbn [rev app] in *.
  exists (ls1 ++ ls'). split; [reflexivity|]. split.
  - rewrite run_app. rewrite (apply_sop_run _ _ _ _ _ _ E1). exact Hrun.
  - split; [exact Hq|].
    repeat (apply andb_true_iff in Ec as [Ec ?]). split.
    + clear - H2. revert H2. generalize (parked_list (thr s2) 0) (o_parked (s_obs x)).
      induction l as [|a l IH]; intros [|b l0] H; cbn in H; try discriminate; [reflexivity|].
      apply andb_true_iff in H as [H1 H2]. apply Nat.eqb_eq in H1. subst. f_equal. apply IH. exact H2.
    + apply negb_true_iff. assumption.
Qed.

Lemma check_steps_sound : forall keys l v v',
  check_steps keys v l = Some v' ->
  exists ls, v_trace v' = v_trace v ++ ls /\ run (v_st v) ls = Some (v_st v').
Proof.
  intros keys. induction l as [|x tl IH]; intros v v' H; cbn [check_steps] in H.
  - injection H as <-. exists []. rewrite app_nil_r. auto.
  - destruct (check_step keys v x) as [v1|] eqn:E; [|discriminate].
    destruct (check_step_sound _ _ _ _ E) as (ls1 & Ht1 & Hr1 & _).
    destruct (IH _ _ H) as (ls2 & Ht2 & Hr2).
    exists (ls1 ++ ls2). split.
    + rewrite Ht2, Ht1, app_assoc. reflexivity.
    + rewrite run_app, Hr1. exact Hr2.
Qed.

(** an accepted case is a trace of the LTS: its final state is reachable, so it
    satisfies the invariant and everything that follows from it *)
Theorem run_mem_sound : forall keys steps v,
  run_mem keys steps = Some v ->
  run init (v_trace v) = Some (v_st v) /\ reachable (v_st v) /\ Inv (v_st v).
Proof.
  intros keys steps v H. unfold run_mem in H.
  destruct (check_steps keys vinit steps) as [v0|] eqn:E; [|discriminate].
  destruct (run init (v_trace v0)); [|discriminate].
  destruct (final_ok keys (v_st v0)); [|discriminate]. injection H as <-.
  destruct (check_steps_sound _ _ _ _ E) as (ls & Ht & Hr). cbn in Ht, Hr.
  assert (R : run init (v_trace v0) = Some (v_st v0)) by (rewrite Ht; exact Hr).
  split; [exact R|]. split; [exists (v_trace v0); exact R|].
  apply reachable_Inv. exists (v_trace v0). exact R.
Qed.
