(** C07: what a passing correspondence check means.  If [run_mem keys steps]
    accepts the observations of a scripted run, then the labels the validator
    fired (script labels + inferred internal labels) form a trace of the LTS from
    [init] to the validator's final state, every quiescent point it compared the
    implementation with is a state in which no call can move, and therefore all
    the theorems about reachable states apply to the observed run. *)
From Coq Require Import List ZArith NArith Bool Arith Lia.
From GL Require Import model.WaitLTS run.Run_C07 proofs.C07_Wait.
Import ListNotations.

Lemma first_enabled_none : forall s ts, first_enabled s ts = None ->
  forall t, In t ts -> enabled_of s t = [].
Proof.
  intros s. induction ts as [|t0 tl IH]; intros H t Hin; [destruct Hin|].
  cbn [first_enabled] in H. destruct (enabled_of s t0) as [|l ls] eqn:E; [|discriminate].
  destruct Hin as [<-|Hin]; [exact E|]. apply IH; assumption.
Qed.

Lemma first_enabled_some : forall s ts l, first_enabled s ts = Some l ->
  exists t, In l (enabled_of s t).
Proof.
  intros s. induction ts as [|t0 tl IH]; intros l H; [discriminate|].
  cbn [first_enabled] in H. destruct (enabled_of s t0) as [|l0 ls] eqn:E.
  - apply IH. exact H.
  - injection H as <-. exists t0. rewrite E. left. reflexivity.
Qed.

Lemma enabled_of_out_of_range : forall s t, length (thr s) <= t -> enabled_of s t = [].
Proof.
  intros s t H. unfold enabled_of, pc_of. apply nth_error_None in H. rewrite H. reflexivity.
Qed.

(** saturation only fires steps of the calls themselves, follows the LTS, and stops
    in a state in which no call can move *)
Theorem saturate_sound : forall fuel s acc s' ls,
  saturate fuel s acc = Some (s', ls) ->
  exists ls', ls = rev acc ++ ls' /\ run s ls' = Some s' /\
              Forall (fun l => thread_of l <> None) ls' /\
              forall t, enabled_of s' t = [].
Proof.
  induction fuel as [|f IH]; intros s acc s' ls H; cbn [saturate] in H.
  - destruct (first_enabled s (seq 0 (length (thr s)))) as [l|] eqn:E; [discriminate|].
    injection H as <- <-. exists []. rewrite app_nil_r. repeat split; auto.
    intros t. destruct (Nat.lt_ge_cases t (length (thr s))) as [Hlt|Hge].
    + eapply first_enabled_none; eauto. apply in_seq. lia.
    + apply enabled_of_out_of_range. exact Hge.
  - destruct (first_enabled s (seq 0 (length (thr s)))) as [l|] eqn:E.
    + destruct (step s l) as [s1|] eqn:Hs; [|discriminate].
      destruct (IH _ _ _ _ H) as (ls' & -> & Hrun & Hown & Hq).
      exists (l :: ls'). cbn [rev]. rewrite <- app_assoc. cbn [app]. split; [reflexivity|].
      split; [cbn [run]; rewrite Hs; exact Hrun|]. split; [|exact Hq].
      constructor; [|exact Hown].
      destruct (first_enabled_some _ _ _ E) as (t & Hin).
      destruct (enabled_of_sound _ _ _ Hin) as [-> _]. discriminate.
    + injection H as <- <-. exists []. rewrite app_nil_r. repeat split; auto.
      intros t. destruct (Nat.lt_ge_cases t (length (thr s))) as [Hlt|Hge].
      * eapply first_enabled_none; eauto. apply in_seq. lia.
      * apply enabled_of_out_of_range. exact Hge.
Qed.

Lemma apply_sop_run : forall s vb o s1 vb1 ls1,
  apply_sop s vb o = Some (s1, vb1, ls1) -> run s ls1 = Some s1.
Proof.
  intros s vb o s1 vb1 ls1 H. destruct o as [k vtag pre|t|o out|dt]; cbn [apply_sop] in H.
  - destruct (tr vb vtag) as [v|]; [|discriminate].
    destruct (step s (Start (length (thr s)) k v)) as [s0|] eqn:E1; [|discriminate].
    destruct pre.
    + destruct (step s0 (CtxDone (length (thr s)))) as [s2|] eqn:E2; [|discriminate].
      injection H as <- <- <-. cbn [run]. rewrite E1, E2. reflexivity.
    + injection H as <- <- <-. cbn [run]. rewrite E1. reflexivity.
  - destruct (step s (CtxDone t)) as [s0|] eqn:E1; [|discriminate].
    injection H as <- <- <-. cbn [run]. rewrite E1. reflexivity.
  - destruct (tr_mop vb o) as [o'|]; [|discriminate].
    destruct (step s (Mut o')) as [s0|] eqn:E1; [|discriminate].
    destruct (out_match vb (snd (mut_step s o')) out) as [vb'|]; [|discriminate].
    injection H as <- <- <-. cbn [run]. rewrite E1. reflexivity.
  - destruct (step s (Tick dt)) as [s0|] eqn:E1; [|discriminate].
    injection H as <- <- <-. cbn [run]. rewrite E1. reflexivity.
Qed.

Lemma nats_eqb_eq : forall a b, nats_eqb a b = true -> a = b.
Proof.
  induction a as [|x a IH]; intros [|y b] H; cbn in H; try discriminate; [reflexivity|].
  apply andb_true_iff in H as [H1 H2]. apply Nat.eqb_eq in H1. subst. f_equal. apply IH. exact H2.
Qed.

(** what an accepted comparison with an observation contains *)
Lemma obs_match_sound : forall keys s s2 vb1 cb o r,
  obs_match keys s s2 vb1 cb o = Some r ->
  parked_list (thr s2) 0 = o_parked o /\ dblclose s2 = false.
Proof.
  intros keys s s2 vb1 cb o r H. unfold obs_match in H.
  match type of H with (if ?c then _ else _) = _ => destruct c eqn:Ec; [|discriminate] end.
  repeat (apply andb_true_iff in Ec as [Ec ?]). split.
  - apply nats_eqb_eq. assumption.
  - apply negb_true_iff. assumption.
Qed.

Lemma all_enabled_nil : forall s, all_enabled s = [] -> forall t, enabled_of s t = [].
Proof.
  intros s H t. destruct (Nat.lt_ge_cases t (length (thr s))) as [Hlt|Hge].
  - unfold all_enabled in H.
    destruct (enabled_of s t) as [|l ls] eqn:E; [reflexivity|].
    assert (Hin : In l (flat_map (enabled_of s) (seq 0 (length (thr s))))).
    { apply in_flat_map. exists t. split; [apply in_seq; lia|]. rewrite E. left. reflexivity. }
    rewrite H in Hin. destruct Hin.
  - apply enabled_of_out_of_range. exact Hge.
Qed.

Lemma first_some_some : forall {A B} (f : A -> option B) l y,
  first_some f l = Some y -> exists x, In x l /\ f x = Some y.
Proof.
  intros A B f. induction l as [|x tl IH]; intros y H; cbn [first_some] in H; [discriminate|].
  destruct (f x) as [y0|] eqn:E.
  - injection H as <-. exists x. split; [left; reflexivity|exact E].
  - destruct (IH _ H) as (x0 & Hin & Hf). exists x0. split; [right; exact Hin|exact Hf].
Qed.

(** the search over the interleavings of a burst only ever follows the LTS: what it
    returns is a run of the model from the state before the burst to a state in which
    no call can move and which the acceptance test accepted *)
Theorem search_sound : forall {X} fuel mac ordered alive (accept : st -> bij -> option X) s vb pend acc s' x ls,
  search fuel mac ordered alive accept s vb pend acc = Some (s', x, ls) ->
  exists ls' vb', ls = rev acc ++ ls' /\ run s ls' = Some s' /\
                  (forall t, enabled_of s' t = []) /\ accept s' vb' = Some x.
Proof.
  intros X. induction fuel as [|f IH]; intros mac ordered alive accept s vb pend acc s' x ls H;
    cbn [search] in H; [discriminate|].
  destruct (alive s); [|discriminate].
  assert (Hmove :
    match first_some (fun p =>
             match apply_sop s vb (fst p) with
             | Some (s1, vb1, ls1) => search f mac ordered alive accept s1 vb1 (snd p) (rev_append ls1 acc)
             | None => None
             end) (picks ordered pend) with
    | Some r => Some r
    | None =>
        first_some (fun l =>
             let m := mac l in
             match run s m with
             | Some s1 => search f mac ordered alive accept s1 vb pend (rev_append m acc)
             | None => None
             end) (all_enabled s)
    end = Some (s', x, ls) ->
    exists ls' vb', ls = rev acc ++ ls' /\ run s ls' = Some s' /\
                    (forall t, enabled_of s' t = []) /\ accept s' vb' = Some x).
  { clear H. intros H.
    match type of H with match ?a with _ => _ end = _ => destruct a as [r|] eqn:E1 end.
    - injection H as ->. destruct (first_some_some _ _ _ E1) as (p & _ & Hp).
      destruct (apply_sop s vb (fst p)) as [[[s1 vb1] ls1]|] eqn:Ea; [|discriminate].
      destruct (IH _ _ _ _ _ _ _ _ _ _ _ Hp) as (ls' & vb' & -> & Hrun & Hq & Hacc).
      exists (ls1 ++ ls'), vb'. rewrite rev_append_rev, rev_app_distr, rev_involutive, <- app_assoc.
      split; [reflexivity|]. split; [|split; assumption].
      rewrite run_app, (apply_sop_run _ _ _ _ _ _ Ea). exact Hrun.
    - destruct (first_some_some _ _ _ H) as (l & _ & Hl). cbv zeta in Hl.
      destruct (run s (mac l)) as [s1|] eqn:Er; [|discriminate].
      destruct (IH _ _ _ _ _ _ _ _ _ _ _ Hl) as (ls' & vb' & -> & Hrun & Hq & Hacc).
      exists (mac l ++ ls'), vb'. rewrite rev_append_rev, rev_app_distr, rev_involutive, <- app_assoc.
      split; [reflexivity|]. split; [|split; assumption].
      rewrite run_app, Er. exact Hrun. }
  destruct pend as [|a pend'].
  - destruct (all_enabled s) as [|l en] eqn:Een.
    + destruct (accept s vb) as [x0|] eqn:Ea; [|discriminate]. injection H as <- <- <-.
      exists [], vb. rewrite app_nil_r. repeat split; auto. apply all_enabled_nil. exact Een.
    + apply Hmove. exact H.
  - apply Hmove. destruct (all_enabled s); exact H.
Qed.

Lemma explain_burst_gen_some : forall {X} f1 f2 ordered alive (accept : st -> bij -> option X) s vb acts r,
  explain_burst_gen f1 f2 ordered alive accept s vb acts = Some r ->
  exists fuel mac, search fuel mac ordered alive accept s vb acts [] = Some r.
Proof.
  intros X f1 f2 ordered alive accept s vb acts r H. unfold explain_burst_gen in H.
  destruct (search f1 macro_of ordered alive accept s vb acts []) as [r0|] eqn:Ef.
  - injection H as ->. exists f1, macro_of. exact Ef.
  - exists f2, single. exact H.
Qed.

(** one validated script step (single action or burst): the model moves from one
    quiescent state to the next along LTS labels, and the observed "blocked in select"
    set is the set of calls the model has parked there, none of which (nor any other
    call) can move *)
Lemma check_step_gen_sound : forall f1 f2 keys v x v',
  check_step_gen f1 f2 keys v x = Some v' ->
  exists ls, v_trace v' = v_trace v ++ ls /\ run (v_st v) ls = Some (v_st v') /\
             (forall t, enabled_of (v_st v') t = []) /\
             parked_list (thr (v_st v')) 0 = o_parked (s_obs x) /\
             dblclose (v_st v') = false.
Proof.
  intros f1 f2 keys v x v' H. unfold check_step_gen in H. destruct x as [op o|ordered acts o]; cbn [s_obs].
  - destruct (apply_sop (v_st v) (v_vb v) op) as [[[s1 vb1] ls1]|] eqn:E1; [|discriminate].
    destruct (saturate sat_fuel s1 []) as [[s2 ls2]|] eqn:E2; [|discriminate].
    destruct (obs_match keys (v_st v) s2 vb1 (v_cb v) o) as [[vb' cb']|] eqn:E3; [|discriminate].
    injection H as <-. cbn [v_trace v_st].
    destruct (saturate_sound _ _ _ _ _ E2) as (ls' & -> & Hrun & _ & Hq). cbn [rev app] in *.
    exists (ls1 ++ ls'). split; [reflexivity|]. split.
    + rewrite run_app. rewrite (apply_sop_run _ _ _ _ _ _ E1). exact Hrun.
    + split; [exact Hq|]. eapply obs_match_sound. exact E3.
  - match type of H with match ?a with _ => _ end = _ => destruct a as [[[s2 [vb' cb']] ls]|] eqn:E1; [|discriminate] end.
    injection H as <-. cbn [v_trace v_st].
    apply explain_burst_gen_some in E1 as E2.
    destruct E2 as (fuel & mac & E2).
    destruct (search_sound _ _ _ _ _ _ _ _ _ _ _ _ E2) as (ls' & vb1 & -> & Hrun & Hq & Hacc).
    cbn [rev app] in *. exists ls'. split; [reflexivity|]. split; [exact Hrun|].
    split; [exact Hq|]. eapply obs_match_sound. exact Hacc.
Qed.

Theorem check_step_sound : forall keys v x v',
  check_step keys v x = Some v' ->
  exists ls, v_trace v' = v_trace v ++ ls /\ run (v_st v) ls = Some (v_st v') /\
             (forall t, enabled_of (v_st v') t = []) /\
             parked_list (thr (v_st v')) 0 = o_parked (s_obs x) /\
             dblclose (v_st v') = false.
Proof. intros keys v x v'. unfold check_step. apply check_step_gen_sound. Qed.

Lemma check_steps_sound : forall keys l v v',
  check_steps keys v l = Some v' ->
  exists ls, v_trace v' = v_trace v ++ ls /\ run (v_st v) ls = Some (v_st v').
Proof.
  intros keys. induction l as [|x tl IH]; intros v v' H; cbn [check_steps] in H.
  - injection H as <-. exists []. rewrite app_nil_r. auto.
  - destruct (check_step keys v x) as [v1|] eqn:E; [|discriminate].
    destruct (check_step_sound _ _ _ _ E) as (ls1 & Ht1 & Hr1 & _).
    destruct (IH _ _ H) as (ls2 & Ht2 & Hr2).
    exists (ls1 ++ ls2). split.
    + rewrite Ht2, Ht1, app_assoc. reflexivity.
    + rewrite run_app, Hr1. exact Hr2.
Qed.

(** an accepted case is a trace of the LTS: its final state is reachable, so it
    satisfies the invariant and everything that follows from it *)
Theorem run_mem_sound : forall keys steps v,
  run_mem keys steps = Some v ->
  run init (v_trace v) = Some (v_st v) /\ reachable (v_st v) /\ Inv (v_st v).
Proof.
  intros keys steps v H. unfold run_mem in H.
  destruct (check_steps keys vinit steps) as [v0|] eqn:E; [|discriminate].
  destruct (run init (v_trace v0)); [|discriminate].
  destruct (final_ok keys (v_st v0)); [|discriminate]. injection H as <-.
  destruct (check_steps_sound _ _ _ _ E) as (ls & Ht & Hr). cbn in Ht, Hr.
  assert (R : run init (v_trace v0) = Some (v_st v0)) by (rewrite Ht; exact Hr).
  split; [exact R|]. split; [exists (v_trace v0); exact R|].
  apply reachable_Inv. exists (v_trace v0). exact R.
Qed.

(** * the search over a burst misses nothing

    [explains d s vb pend]: from model state [s] (version bijection [vb], actions
    [pend] not yet applied) there is an interleaving of at most [d] nodes --
    at every node either one of the pending actions that may come next
    ([picks]: the first one if one goroutine issued them, otherwise any, starts in issue
    order) with its observed result, or one label that some call can take ([all_enabled]
    = the [enabled_of] of every call) -- that ends with nothing pending, no call able to
    move, and the acceptance test (the comparison with the observation) passed; along it no
    call returned anything the observation does not contain ([alive]; results are final,
    [C07_wait_done_final], so such a branch could not end in agreement anyway). *)
Inductive explains {X} (ordered : bool) (alive : st -> bool) (accept : st -> bij -> option X)
  : nat -> st -> bij -> list sop -> Prop :=
| ex_done : forall s vb x,
    alive s = true -> all_enabled s = [] -> accept s vb = Some x ->
    explains ordered alive accept 1 s vb []
| ex_act : forall d s vb pend a rest s1 vb1 ls1,
    alive s = true -> In (a, rest) (picks ordered pend) -> apply_sop s vb a = Some (s1, vb1, ls1) ->
    explains ordered alive accept d s1 vb1 rest ->
    explains ordered alive accept (S d) s vb pend
| ex_int : forall d s vb pend l s1,
    alive s = true -> In l (all_enabled s) -> step s l = Some s1 ->
    explains ordered alive accept d s1 vb pend ->
    explains ordered alive accept (S d) s vb pend.

Lemma first_some_in : forall {A B} (f : A -> option B) l x y,
  In x l -> f x = Some y -> exists y', first_some f l = Some y'.
Proof.
  intros A B f. induction l as [|x0 tl IH]; intros x y Hin Hf; [destruct Hin|].
  cbn [first_some]. destruct (f x0) as [y0|] eqn:E; [eauto|].
  destruct Hin as [->|Hin]; [rewrite Hf in E; discriminate|]. eapply IH; eauto.
Qed.

Lemma picks_nil : forall ordered, picks ordered [] = [].
Proof. intros [|]; reflexivity. Qed.

(** whatever explanation exists within the depth bound, the label-by-label search returns one *)
Theorem search_complete : forall {X} ordered alive (accept : st -> bij -> option X) d s vb pend,
  explains ordered alive accept d s vb pend ->
  forall fuel acc, d <= fuel -> exists r, search fuel single ordered alive accept s vb pend acc = Some r.
Proof.
  intros X ordered alive accept d s vb pend E.
  induction E as [s vb x Hal Hen Hacc|d s vb pend a rest s1 vb1 ls1 Hal Hin Hap _ IH|d s vb pend l s1 Hal Hin Hst _ IH];
    intros fuel acc Hle; (destruct fuel as [|f]; [lia|]); cbn [search]; rewrite Hal.
  - rewrite Hen, Hacc. eauto.
  - assert (Hp : exists r, first_some (fun p =>
             match apply_sop s vb (fst p) with
             | Some (s1, vb1, ls1) => search f single ordered alive accept s1 vb1 (snd p) (rev_append ls1 acc)
             | None => None
             end) (picks ordered pend) = Some r).
    { destruct (IH f (rev_append ls1 acc)) as [r Hr]; [lia|].
      eapply first_some_in; [exact Hin|]. cbn [fst snd]. rewrite Hap. exact Hr. }
    destruct Hp as [r Hp].
    destruct pend as [|a0 p0]; [rewrite picks_nil in Hin; destruct Hin|].
    rewrite Hp. destruct (all_enabled s); eauto.
  - assert (Hp : exists r, first_some (fun l =>
             match run s (single l) with
             | Some s1 => search f single ordered alive accept s1 vb pend (rev_append (single l) acc)
             | None => None
             end) (all_enabled s) = Some r).
    { destruct (IH f (rev_append (single l) acc)) as [r Hr]; [lia|].
      eapply first_some_in; [exact Hin|]. unfold single at 1. cbn [run]. rewrite Hst. exact Hr. }
    destruct Hp as [r Hp]. cbv zeta.
    destruct (all_enabled s) as [|l0 en] eqn:Een; [destruct Hin|].
    match goal with |- exists r0, match ?p with [] => _ | _ :: _ => ?B end = Some r0 =>
      assert (Hb : exists r0, B = Some r0) end.
    { match goal with |- exists r0, match ?a with Some r1 => Some r1 | None => _ end = Some r0 =>
        destruct a as [r1|]; [eauto|] end. rewrite Hp. eauto. }
    destruct pend; exact Hb.
Qed.

(** so a burst is rejected only if it has no explanation (of depth up to the second fuel) *)
Lemma check_step_gen_burst_complete : forall f1 f2 keys v ordered acts o d,
  check_step_gen f1 f2 keys v (mkBurst ordered acts o) = None -> d <= f2 ->
  ~ explains ordered (fun s2 => rets_possible (v_st v) s2 o)
             (fun s2 vb1 => obs_match keys (v_st v) s2 vb1 (v_cb v) o) d (v_st v) (v_vb v) acts.
Proof.
  intros f1 f2 keys v ordered acts o d H Hd E. unfold check_step_gen, explain_burst_gen in H.
  destruct (search_complete _ _ _ _ _ _ _ E f2 [] Hd) as [[[s2 [vb' cb']] ls] Hr].
  rewrite Hr in H.
  destruct (search f1 macro_of ordered (fun s2 => rets_possible (v_st v) s2 o)
              (fun s2 vb1 => obs_match keys (v_st v) s2 vb1 (v_cb v) o) (v_st v) (v_vb v) acts [])
    as [[[s3 [vb3 cb3]] ls3]|]; discriminate.
Qed.

Theorem check_step_burst_complete : forall keys v ordered acts o d,
  check_step keys v (mkBurst ordered acts o) = None -> d <= 2 * burst_fuel ->
  ~ explains ordered (fun s2 => rets_possible (v_st v) s2 o)
             (fun s2 vb1 => obs_match keys (v_st v) s2 vb1 (v_cb v) o) d (v_st v) (v_vb v) acts.
Proof. intros keys v ordered acts o d. unfold check_step. apply check_step_gen_burst_complete. Qed.

(** and conversely what the label-by-label search returns is such an explanation *)
Theorem search_explains : forall {X} ordered alive (accept : st -> bij -> option X) fuel s vb pend acc r,
  search fuel single ordered alive accept s vb pend acc = Some r ->
  exists d, d <= fuel /\ explains ordered alive accept d s vb pend.
Proof.
  intros X ordered alive accept. induction fuel as [|f IH]; intros s vb pend acc r H;
    cbn [search] in H; [discriminate|].
  destruct (alive s) eqn:Hal; [|discriminate]. cbv zeta in H.
  assert (Hmove :
    match first_some (fun p =>
             match apply_sop s vb (fst p) with
             | Some (s1, vb1, ls1) => search f single ordered alive accept s1 vb1 (snd p) (rev_append ls1 acc)
             | None => None
             end) (picks ordered pend) with
    | Some r => Some r
    | None =>
        first_some (fun l =>
             match run s (single l) with
             | Some s1 => search f single ordered alive accept s1 vb pend (rev_append (single l) acc)
             | None => None
             end) (all_enabled s)
    end = Some r -> exists d, d <= S f /\ explains ordered alive accept d s vb pend).
  { clear H. intros H.
    match type of H with match ?a with _ => _ end = _ => destruct a as [r0|] eqn:E1 end.
    - destruct (first_some_some _ _ _ E1) as ([a rest] & Hin & Hp). cbn [fst snd] in Hp.
      destruct (apply_sop s vb a) as [[[s1 vb1] ls1]|] eqn:Ea; [|discriminate].
      destruct (IH _ _ _ _ _ Hp) as (d & Hd & He).
      exists (S d). split; [lia|]. eapply ex_act; eauto.
    - destruct (first_some_some _ _ _ H) as (l & Hin & Hl).
      unfold single at 1 in Hl. cbn [run] in Hl.
      destruct (step s l) as [s1|] eqn:Es; [|discriminate].
      destruct (IH _ _ _ _ _ Hl) as (d & Hd & He).
      exists (S d). split; [lia|]. eapply ex_int; eauto. }
  destruct pend as [|a pend'].
  - destruct (all_enabled s) as [|l en] eqn:Een.
    + destruct (accept s vb) as [x0|] eqn:Ea; [|discriminate].
      exists 1. split; [lia|]. eapply ex_done; eauto.
    + apply Hmove. exact H.
  - apply Hmove. destruct (all_enabled s); exact H.
Qed.
