(** The Redis client refines the contract (sequential runs, synchronised clocks):
    for every operation sequence that stays inside the documented premises the
    results of model/RedisKV.v over model/RedisSrv.v equal the results of
    spec/KV.v up to a renaming of versions (the client burns version ids the
    contract never hands out: a failing Create, the abandoned MSET preparation
    of PutMany). *)
From Coq Require Import List ZArith NArith Arith Bool Lia.
From GL Require Import spec.KV model.RedisSrv model.RedisKV proofs.C03_KV proofs.C06_Expiry.
Import ListNotations.

(** ** renaming versions *)
Definition ren_orec (f : nat -> nat) (r : orec) : orec :=
  let '(k, v, n, e) := r in (k, v, f n, e).

Definition ren_out (f : nat -> nat) (o : out) : out :=
  match o with
  | OVer n => OVer (f n)
  | OExist n => OExist (f n)
  | ORec r => ORec (ren_orec f r)
  | ORecs rs => ORecs (map (option_map (ren_orec f)) rs)
  | _ => o
  end.

Definition ren_op (f : nat -> nat) (o : op) : op :=
  match o with
  | CasByVersion k v e n => CasByVersion k v e (f n)
  | _ => o
  end.

(** ** keys and patterns inside the common dialect *)

(* no leading slash (D10) *)
Definition clean (k : list N) : Prop := strip_slashes k = k.

Definition cleanb (k : list N) : bool :=
  match k with 47%N :: _ => false | _ => true end.

Lemma cleanb_clean : forall k, cleanb k = true -> clean k.
Proof.
  intros [|c t]; [reflexivity|]. unfold clean, cleanb. cbn [strip_slashes].
  destruct c as [|p]; [reflexivity|].
  do 6 (destruct p as [p|p|]; try reflexivity). discriminate.
Qed.

Lemma rKey_clean : forall k, clean k -> rKey k = kvs_prefix ++ k.
Proof. intros k H. unfold rKey. rewrite H. reflexivity. Qed.

Lemma rKey_eqb : forall k k', clean k -> clean k' -> key_eqb (rKey k) (rKey k') = key_eqb k k'.
Proof. intros k k' H H'. rewrite !rKey_clean by assumption. reflexivity. Qed.

Lemma unKey_rKey : forall k, clean k -> unKey (rKey k) = k.
Proof. intros k H. rewrite rKey_clean by assumption. reflexivity. Qed.

(* the pattern reads the same in both dialects (no class that starts with ! or ^) and has no leading slash *)
Definition pat_ok (p : list N) : Prop :=
  clean p /\ parse_pat 94 (length p) p = parse_pat 33 (length p) p.

Lemma glob_prefix : forall p k, pat_ok p -> clean k -> glob 94 (rKey p) (rKey k) = matches p k.
Proof.
  intros p k [Hc Hp] Hk. rewrite !rKey_clean by assumption.
  unfold matches, glob. rewrite <- Hp. reflexivity.
Qed.

(** ** the relation between the contract's records and the server's keyspace *)

(* server deadline [d] and expiration [e] give the same verdict at every instant from [lo] on *)
Definition dl_ok (lo : Z) (e d : option Z) : Prop :=
  match e, d with
  | None, None => True
  | Some e, Some d => forall t, (lo <= t)%Z -> Z.ltb d t = Z.ltb e t
  | _, _ => False
  end.

Definition erel (f : nat -> nat) (lo : Z) (x : key * rec) (y : skey * entry) : Prop :=
  clean (fst x) /\ fst y = rKey (fst x) /\
  e_pl (snd y) = mkPl (fst x) (val (snd x)) (f (ver (snd x))) (exp (snd x)) /\
  dl_ok lo (exp (snd x)) (e_dl (snd y)).

Lemma dl_ok_mono : forall lo lo' e d, (lo <= lo')%Z -> dl_ok lo e d -> dl_ok lo' e d.
Proof.
  intros lo lo' [e|] [d|] Hle H; cbn in *; auto. intros t Ht. apply H. lia.
Qed.

Lemma dl_ok_dead : forall lo e d t x y, dl_ok lo (exp x) (e_dl y) -> (lo <= t)%Z ->
  e = exp x -> d = e_dl y -> dead t y = expired t x.
Proof.
  intros lo e d t x y H Ht -> ->. unfold dead, expired.
  destruct (exp x) as [e|], (e_dl y) as [d|]; cbn in H; try contradiction; auto.
Qed.

Lemma erel_dead : forall f lo x y t, erel f lo x y -> (lo <= t)%Z -> dead t (snd y) = expired t (snd x).
Proof. intros f lo x y t [_ [_ [_ H]]] Ht. eapply dl_ok_dead; eauto. Qed.

Lemma s_lookup_rel : forall f lo l1 l2 k, Forall2 (erel f lo) l1 l2 -> clean k ->
  match alookup k l1, s_lookup (rKey k) l2 with
  | None, None => True
  | Some r, Some y => erel f lo (k, r) (rKey k, y)
  | _, _ => False
  end.
Proof.
  intros f lo l1 l2 k H Hk. induction H as [|[k1 r1] [sk y] l1 l2 Hx H IH]; cbn [alookup s_lookup]; [exact I|].
  destruct Hx as [Hc [Hs [Hp Hd]]]. cbn [fst snd] in *. subst sk.
  rewrite (rKey_eqb k k1 Hk Hc). destruct (key_eqb k k1) eqn:E; [|exact IH].
  apply key_eqb_eq in E. subst k1. repeat split; assumption.
Qed.

Lemma s_remove_rel : forall f lo l1 l2 k, Forall2 (erel f lo) l1 l2 -> clean k ->
  Forall2 (erel f lo) (aremove k l1) (s_remove (rKey k) l2).
Proof.
  intros f lo l1 l2 k H Hk. induction H as [|[k1 r1] [sk y] l1 l2 Hx H IH]; cbn [aremove s_remove filter fst]; [constructor|].
  pose proof Hx as [Hc [Hs _]]. cbn [fst snd] in *. subst sk.
  rewrite (rKey_eqb k k1 Hk Hc). destruct (key_eqb k k1); cbn [negb]; [exact IH|constructor; assumption].
Qed.

Lemma s_set_rel : forall f lo l1 l2 k r y, Forall2 (erel f lo) l1 l2 -> clean k ->
  erel f lo (k, r) (rKey k, y) ->
  Forall2 (erel f lo) (aset k r l1) (s_set (rKey k) y l2).
Proof.
  intros. unfold aset, s_set. apply Forall2_app; [apply s_remove_rel; assumption|].
  constructor; [assumption|constructor].
Qed.

Lemma erel_weaken : forall f f' lo lo' x y, (lo <= lo')%Z -> f' (ver (snd x)) = f (ver (snd x)) ->
  erel f lo x y -> erel f' lo' x y.
Proof.
  intros f f' lo lo' x y Hle Hf [H1 [H2 [H3 H4]]]. repeat split; auto.
  - rewrite Hf. exact H3.
  - eapply dl_ok_mono; eauto.
Qed.

Lemma Forall2_erel_weaken : forall f f' lo lo' l1 l2, (lo <= lo')%Z ->
  (forall k r, In (k, r) l1 -> f' (ver r) = f (ver r)) ->
  Forall2 (erel f lo) l1 l2 -> Forall2 (erel f' lo') l1 l2.
Proof.
  intros f f' lo lo' l1 l2 Hle Hf H. induction H as [|x y l1 l2 Hx H IH]; constructor.
  - destruct x as [k r]. apply (erel_weaken f f' lo lo'); [exact Hle| |exact Hx].
    apply (Hf k r). left. reflexivity.
  - apply IH. intros k r Hin. apply (Hf k r). right. exact Hin.
Qed.

(* SCAN against ListKeys *)
Lemma scan_rel : forall f lo l1 l2 t p, Forall2 (erel f lo) l1 l2 -> (lo <= t)%Z -> pat_ok p ->
  map unKey (map fst (filter (fun kr : skey * entry => negb (dead t (snd kr)) && glob 94 (rKey p) (fst kr)) l2)) =
  map fst (filter (fun kr => negb (expired t (snd kr)) && matches p (fst kr)) l1).
Proof.
  intros f lo l1 l2 t p H Ht Hp. induction H as [|x y l1 l2 Hx H IH]; cbn [filter map]; [reflexivity|].
  rewrite (erel_dead f lo x y t Hx Ht). destruct Hx as [Hc [Hs _]]. rewrite Hs.
  rewrite (glob_prefix p (fst x) Hp Hc).
  destruct (negb (expired t (snd x)) && matches p (fst x)); cbn [map fst]; [|exact IH].
  rewrite Hs, (unKey_rKey _ Hc), IH. reflexivity.
Qed.

(** ** the invariant between two operations *)
Record rinv (f : nat -> nat) (lo : Z) (sp : state) (sv : srv) (bound : nat) : Prop := {
  ri_wf : wf sp;
  ri_fresh : fresh sp;
  ri_watch : watches sv = [];
  ri_store : Forall2 (erel f lo) (recs sp) (store sv);
  ri_f0 : f 0 = 0;
  ri_bpos : 0 < bound;
  ri_range : forall v, 0 < v < next sp -> 0 < f v < bound;
  ri_inj : forall v v', 0 < v < next sp -> 0 < v' < next sp -> f v = f v' -> v = v'
}.

Lemma rinv_init : forall lo, rinv (fun v => v) lo init srv_init 1.
Proof.
  intros lo. constructor; try reflexivity.
  - apply wf_init.
  - apply fresh_init.
  - constructor.
  - lia.
  - cbn. intros v H. lia.
  - auto.
Qed.

Lemma rinv_mono : forall f lo lo' sp sv b b', (lo <= lo')%Z -> b <= b' -> rinv f lo sp sv b -> rinv f lo' sp sv b'.
Proof.
  intros f lo lo' sp sv b b' Hle Hb [H1 H2 H3 H4 H5 Hb0 H6 H7]. constructor; auto.
  - eapply Forall2_erel_weaken; [exact Hle| |exact H4]. reflexivity.
  - lia.
  - intros v Hv. specialize (H6 v Hv). lia.
Qed.

(* look-up: the client's GET against the contract's [find] *)
Lemma find_rel : forall f lo sp sv b t k, rinv f lo sp sv b -> (lo <= t)%Z -> clean k ->
  match find t k sp, s_find t (rKey k) sv with
  | None, None => True
  | Some r, Some y => e_pl y = mkPl k (val r) (f (ver r)) (exp r)
  | _, _ => False
  end.
Proof.
  intros f lo sp sv b t k Hi Ht Hk. unfold find, s_find. rewrite lookup_alookup.
  pose proof (s_lookup_rel f lo _ _ k (ri_store _ _ _ _ _ Hi) Hk) as H.
  destruct (alookup k (recs sp)) as [r|], (s_lookup (rKey k) (store sv)) as [y|]; try contradiction; [|exact I].
  pose proof (erel_dead f lo (k, r) (rKey k, y) t H Ht) as Hd. cbn [snd] in Hd. rewrite Hd.
  destruct (expired t r); [exact I|]. apply H.
Qed.

(* the function [f] extended at the version the contract hands out next *)
Definition ext (f : nat -> nat) (n m : nat) : nat -> nat := fun v => if Nat.eqb v n then m else f v.

(* the instant from which a record written at [now] with expiration [e] is judged alike by both *)
Definition floor_after (now : Z) (e : option Z) : Z :=
  match e with
  | Some t => if Z.ltb (t - now) 1000000 then (now + 1000000 + 1)%Z else now
  | None => now
  end.

Lemma floor_after_ge : forall now e, (now <= floor_after now e)%Z.
Proof. intros now [t|]; cbn; [destruct (Z.ltb (t - now) 1000000)|]; lia. Qed.

Lemma dl_ok_write : forall now e,
  dl_ok (floor_after now e) e (deadline now (expiration e now)).
Proof.
  intros now [t|]; cbn; [|exact I]. intros x Hx.
  destruct (Z.ltb (t - now) 1000000) eqn:E.
  - apply Z.ltb_lt in E. rewrite Z.max_r by lia.
    assert (H1 : Z.ltb (now + 1000000) x = true) by (apply Z.ltb_lt; lia).
    assert (H2 : Z.ltb t x = true) by (apply Z.ltb_lt; lia). rewrite H1, H2. reflexivity.
  - apply Z.ltb_ge in E. rewrite Z.max_l by lia. f_equal. lia.
Qed.

(* one server-side SET of a payload with a version id [m] nobody used yet, against the contract's [write] *)
Lemma set_rel : forall f lo sp sv b now k v e m, rinv f lo sp sv b -> clean k -> b <= m ->
  let f' := ext f (next sp) m in
  let sv' := mkSrv (s_set (rKey k) (mkEnt (mkPl k v m e) (deadline now (expiration e now))) (store sv)) [] in
  rinv f' (Z.max lo (floor_after now e)) (fst (write k v e sp)) sv' (S m) /\
  (forall x, x < next sp -> f' x = f x).
Proof.
  intros f lo sp sv b now k v e m Hi Hk Hm f' sv'.
  assert (Hagree : forall x, x < next sp -> f' x = f x).
  { intros x Hx. unfold f', ext. destruct (Nat.eqb x (next sp)) eqn:E; [apply Nat.eqb_eq in E; lia|reflexivity]. }
  split; [|exact Hagree].
  destruct Hi as [H1 H2 H3 H4 H5 Hb0 H6 H7]. pose proof H2 as [Hpos Hver].
  constructor.
  - apply wf_write. exact H1.
  - apply fresh_write. exact H2.
  - reflexivity.
  - unfold write, sv'. cbn [fst recs store]. rewrite set_aset. apply s_set_rel; [| exact Hk |].
    + eapply Forall2_erel_weaken; [apply Z.le_max_l| |exact H4].
      intros k' r Hin. apply Hagree. specialize (Hver _ _ Hin). lia.
    + repeat split; cbn [fst snd val ver exp e_pl e_dl]; [exact Hk| |].
      * unfold f', ext. rewrite Nat.eqb_refl. reflexivity.
      * eapply dl_ok_mono; [apply Z.le_max_r|apply dl_ok_write].
  - unfold f', ext. destruct (Nat.eqb 0 (next sp)) eqn:E; [apply Nat.eqb_eq in E; lia|exact H5].
  - lia.
  - unfold write. cbn [fst next]. intros x Hx. unfold f', ext. destruct (Nat.eqb x (next sp)) eqn:E.
    + lia.
    + apply Nat.eqb_neq in E. assert (Hx' : 0 < x < next sp) by lia. specialize (H6 x Hx'). lia.
  - unfold write. cbn [fst next]. intros x y Hx Hy. unfold f', ext.
    destruct (Nat.eqb_spec x (next sp)) as [Ex|Ex], (Nat.eqb_spec y (next sp)) as [Ey|Ey].
    + intros _. lia.
    + intros E. assert (Hy' : 0 < y < next sp) by lia. specialize (H6 y Hy'). lia.
    + intros E. assert (Hx' : 0 < x < next sp) by lia. specialize (H6 x Hx'). lia.
    + apply H7; lia.
Qed.

(** ** one operation *)

(* keys without leading slash, patterns inside the common dialect *)
Definition op_clean (o : op) : Prop :=
  match o with
  | Create k _ _ | Get k | Put k _ _ | CasByVersion k _ _ _ | Delete k => clean k
  | GetMany ks => Forall clean ks
  | PutMany rs => Forall (fun r => clean (fst (fst r))) rs
  | ListKeys p => pat_ok p
  end.

(* a version passed to CasByVersion is 0 (a string the storage never issued) or was handed out before *)
Definition cas_issued (nx : nat) (o : op) : Prop :=
  match o with
  | CasByVersion _ _ _ n => n < nx
  | _ => True
  end.

(* the instant from which on everything this operation may have written is judged alike *)
Definition op_floor (now : Z) (o : op) : Z :=
  match o with
  | Create _ _ e | Put _ _ e | CasByVersion _ _ e _ => floor_after now e
  | PutMany rs => fold_right (fun r a => Z.max (floor_after now (snd r)) a) now rs
  | _ => now
  end.

Lemma op_floor_ge : forall now o, (now <= op_floor now o)%Z.
Proof.
  intros now o. destruct o; cbn [op_floor]; try apply floor_after_ge; try lia.
  induction rs as [|r t IH]; cbn [fold_right]; lia.
Qed.

Definition step_ok (f : nat -> nat) (lo : Z) (sp : state) (rs : rstate) (now : Z) (o : op) : Prop :=
  exists f', (forall x, x < next sp -> f' x = f x) /\
    snd (rk_step rs now now (ren_op f o)) = ren_out f' (snd (step sp now o)) /\
    rinv f' (Z.max lo (op_floor now o)) (fst (step sp now o))
         (r_srv (fst (rk_step rs now now (ren_op f o)))) (r_nxt (fst (rk_step rs now now (ren_op f o)))).

Lemma touch_nil : forall k, touch k [] = [].
Proof. reflexivity. Qed.

Lemma s_find_store : forall t k st ws ws', s_find t k (mkSrv st ws) = s_find t k (mkSrv st ws').
Proof. reflexivity. Qed.

Lemma srv_eta : forall sv, watches sv = [] -> sv = mkSrv (store sv) [].
Proof. intros [st ws] H. cbn in H. subst. reflexivity. Qed.

Lemma max_floor : forall lo now, (lo <= now)%Z -> Z.max lo now = now.
Proof. intros. lia. Qed.

Lemma get_ok : forall f lo sp rs now k, rinv f lo sp (r_srv rs) (r_nxt rs) -> (lo <= now)%Z -> clean k ->
  step_ok f lo sp rs now (Get k).
Proof.
  intros f lo sp rs now k Hi Hlo Hk. exists f. split; [auto|].
  unfold rk_step, rk_prog, rk_get, get_prog. cbn [ren_op run_prog srv_cmd step op_floor].
  pose proof (find_rel f lo sp _ _ now k Hi Hlo Hk) as H.
  destruct (find now k sp) as [r|], (s_find now (rKey k) (r_srv rs)) as [y|]; try contradiction;
    cbn [option_map run_prog fst snd r_srv r_nxt ren_out].
  - rewrite H. split; [reflexivity|]. rewrite max_floor by exact Hlo. eapply rinv_mono; [exact Hlo|apply Nat.le_refl|exact Hi].
  - split; [reflexivity|]. rewrite max_floor by exact Hlo. eapply rinv_mono; [exact Hlo|apply Nat.le_refl|exact Hi].
Qed.

Lemma delete_ok : forall f lo sp rs now k, rinv f lo sp (r_srv rs) (r_nxt rs) -> (lo <= now)%Z -> clean k ->
  step_ok f lo sp rs now (Delete k).
Proof.
  intros f lo sp rs now k Hi Hlo Hk. exists f. split; [auto|].
  unfold rk_step, rk_prog, rk_delete. cbn [ren_op run_prog srv_cmd step op_floor].
  pose proof (find_rel f lo sp _ _ now k Hi Hlo Hk) as H.
  destruct (find now k sp) as [r|], (s_find now (rKey k) (r_srv rs)) as [y|]; try contradiction;
    cbn [run_prog fst snd r_srv r_nxt ren_out]; (split; [reflexivity|]); rewrite max_floor by exact Hlo.
  - destruct Hi as [H1 H2 H3 H4 H5 Hb H6 H7]. constructor; cbn [recs next store watches]; auto.
    + unfold wf. cbn [recs]. apply NoDup_remove. exact H1.
    + destruct H2 as [Hp Hv]. split; [exact Hp|]. cbn [recs next]. intros k' r' Hin. apply in_remove in Hin. eauto.
    + rewrite H3. reflexivity.
    + rewrite remove_aremove. apply s_remove_rel; [|exact Hk].
      eapply Forall2_erel_weaken; [exact Hlo| |exact H4]. reflexivity.
  - eapply rinv_mono; [exact Hlo|apply Nat.le_refl|exact Hi].
Qed.

Lemma listkeys_ok : forall f lo sp rs now p, rinv f lo sp (r_srv rs) (r_nxt rs) -> (lo <= now)%Z -> pat_ok p ->
  step_ok f lo sp rs now (ListKeys p).
Proof.
  intros f lo sp rs now p Hi Hlo Hp. exists f. split; [auto|].
  unfold rk_step, rk_prog, rk_listkeys. cbn [ren_op run_prog srv_cmd step op_floor fst snd r_srv r_nxt ren_out].
  split.
  - f_equal. apply (scan_rel f lo _ _ now p (ri_store _ _ _ _ _ Hi) Hlo Hp).
  - rewrite max_floor by exact Hlo. eapply rinv_mono; [exact Hlo|apply Nat.le_refl|exact Hi].
Qed.

Lemma zip_recs_rel : forall f lo sp sv b now ks, rinv f lo sp sv b -> (lo <= now)%Z -> Forall clean ks ->
  zip_recs ks (map (fun k => option_map e_pl (s_find now k sv)) (map rKey ks)) =
  map (option_map (ren_orec f)) (map (fun k => option_map (as_orec k) (find now k sp)) ks).
Proof.
  intros f lo sp sv b now ks Hi Hlo Hks. induction Hks as [|k t Hk Ht IH]; cbn [map zip_recs]; [reflexivity|].
  rewrite IH. f_equal.
  pose proof (find_rel f lo sp sv b now k Hi Hlo Hk) as H.
  destruct (find now k sp) as [r|], (s_find now (rKey k) sv) as [y|]; try contradiction; cbn [option_map]; [|reflexivity].
  rewrite H. reflexivity.
Qed.

Lemma getmany_ok : forall f lo sp rs now ks, rinv f lo sp (r_srv rs) (r_nxt rs) -> (lo <= now)%Z -> Forall clean ks ->
  step_ok f lo sp rs now (GetMany ks).
Proof.
  intros f lo sp rs now ks Hi Hlo Hks. exists f. split; [auto|].
  assert (Hr : rinv f (Z.max lo (op_floor now (GetMany ks))) sp (r_srv rs) (r_nxt rs)).
  { cbn [op_floor]. rewrite max_floor by exact Hlo. eapply rinv_mono; [exact Hlo|apply Nat.le_refl|exact Hi]. }
  unfold rk_step, rk_prog, rk_getmany. cbn [ren_op step fst snd ren_out].
  destruct ks as [|k t]; [cbn [run_prog map fst snd]; auto|].
  unfold mget_prog. cbn [run_prog]. change (map rKey (k :: t)) with (rKey k :: map rKey t).
  cbn [srv_cmd run_prog fst snd r_srv r_nxt]. split; [|exact Hr].
  f_equal. apply (zip_recs_rel f lo sp (r_srv rs) (r_nxt rs) now (k :: t) Hi Hlo Hks).
Qed.

Lemma do_set_clean : forall now k pl ttl sv, watches sv = [] ->
  do_set now k pl ttl sv = mkSrv (s_set k (mkEnt pl (deadline now ttl)) (store sv)) [].
Proof. intros now k pl ttl sv H. unfold do_set. rewrite H. reflexivity. Qed.

Lemma put_ok : forall f lo sp rs now k v e, rinv f lo sp (r_srv rs) (r_nxt rs) -> (lo <= now)%Z -> clean k ->
  step_ok f lo sp rs now (Put k v e).
Proof.
  intros f lo sp rs now k v e Hi Hlo Hk.
  destruct (set_rel f lo sp (r_srv rs) (r_nxt rs) now k v e (r_nxt rs) Hi Hk (Nat.le_refl _)) as [Hr Ha].
  exists (ext f (next sp) (r_nxt rs)). split; [exact Ha|].
  unfold rk_step, rk_prog, rk_put, put_prog. cbn [ren_op run_prog srv_cmd step op_floor r_srv r_nxt].
  rewrite (do_set_clean _ _ _ _ _ (ri_watch _ _ _ _ _ Hi)).
  unfold write in *. cbn [fst snd run_prog r_srv r_nxt ren_out ren_orec] in *. split.
  - unfold ext. rewrite Nat.eqb_refl. reflexivity.
  - exact Hr.
Qed.

(* one unfolding of the retry loops (the fuel is never run down in a sequential run: the first
   round decides) *)
Lemma create_loop_S : forall fuel k pl e,
  create_loop (S fuel) k pl e =
  Cmd (fun now => SETNX (rKey k) pl (expiration e now)) (fun r =>
    match r with
    | RBool true => Ret (OVer (p_ver pl))
    | _ => get_prog k (fun g =>
             match g with
             | Some (_, _, v, _) => Ret (OExist v)
             | None => create_loop fuel k pl e
             end)
    end).
Proof. reflexivity. Qed.

Lemma create_run_present : forall fuel now k pl e sv nx y,
  s_find now (rKey k) sv = Some y ->
  run_prog now now 0 (create_loop (S fuel) k pl e) (mkR sv nx) = (mkR sv nx, OExist (p_ver (e_pl y))).
Proof.
  intros fuel now k pl e sv nx y Hs. rewrite create_loop_S.
  cbn [run_prog srv_cmd r_srv r_nxt]. rewrite Hs. unfold get_prog.
  cbn [run_prog srv_cmd r_srv r_nxt]. rewrite Hs. cbn [option_map run_prog pl_orec]. reflexivity.
Qed.

Lemma create_run_absent : forall fuel now k pl e sv nx,
  s_find now (rKey k) sv = None ->
  run_prog now now 0 (create_loop (S fuel) k pl e) (mkR sv nx) =
  (mkR (do_set now (rKey k) pl (expiration e now) sv) nx, OVer (p_ver pl)).
Proof.
  intros fuel now k pl e sv nx Hs. rewrite create_loop_S.
  cbn [run_prog srv_cmd r_srv r_nxt]. rewrite Hs. cbn [run_prog r_srv r_nxt]. reflexivity.
Qed.

(* the whole Create, for any positive fuel: one SETNX, and one GET when it fails *)
Lemma rk_create_gen : forall fuel now k v e sv nx,
  run_prog now now 0 (rk_create (S fuel) k v e) (mkR sv nx) =
  match s_find now (rKey k) sv with
  | Some y => (mkR sv (S nx), OExist (p_ver (e_pl y)))
  | None => (mkR (do_set now (rKey k) (mkPl k v nx e) (expiration e now) sv) (S nx), OVer nx)
  end.
Proof.
  intros. unfold rk_create. cbn [run_prog r_srv r_nxt].
  destruct (s_find now (rKey k) sv) as [y|] eqn:Es.
  - apply create_run_present. exact Es.
  - apply create_run_absent. exact Es.
Qed.

Lemma rk_create_run : forall now k v e sv nx,
  rk_step (mkR sv nx) now now (Create k v e) =
  match s_find now (rKey k) sv with
  | Some y => (mkR sv (S nx), OExist (p_ver (e_pl y)))
  | None => (mkR (do_set now (rKey k) (mkPl k v nx e) (expiration e now) sv) (S nx), OVer nx)
  end.
Proof. intros. exact (rk_create_gen 7 now k v e sv nx). Qed.

Lemma create_ok : forall f lo sp rs now k v e, rinv f lo sp (r_srv rs) (r_nxt rs) -> (lo <= now)%Z -> clean k ->
  step_ok f lo sp rs now (Create k v e).
Proof.
  intros f lo sp [sv nx] now k v e Hi Hlo Hk. cbn [r_srv r_nxt] in Hi.
  unfold step_ok. cbn [ren_op step op_floor]. rewrite rk_create_run.
  pose proof (find_rel f lo sp _ _ now k Hi Hlo Hk) as H.
  destruct (find now k sp) as [r|] eqn:Ef.
  - (* the key is there: SETNX fails, GET reads the stored version *)
    exists f. split; [auto|].
    destruct (s_find now (rKey k) sv) as [y|] eqn:Es; [|contradiction].
    cbn [fst snd r_srv r_nxt ren_out]. rewrite H. cbn [p_ver]. split; [reflexivity|].
    eapply rinv_mono; [apply Z.le_max_l|apply Nat.le_succ_diag_r|exact Hi].
  - destruct (s_find now (rKey k) sv) as [y|] eqn:Es; [contradiction|].
    destruct (set_rel f lo sp sv nx now k v e nx Hi Hk (Nat.le_refl _)) as [Hr Ha].
    exists (ext f (next sp) nx). split; [exact Ha|].
    rewrite (do_set_clean _ _ _ _ _ (ri_watch _ _ _ _ _ Hi)).
    unfold write in *. cbn [fst snd r_srv r_nxt ren_out] in *. split.
    + unfold ext. rewrite Nat.eqb_refl. reflexivity.
    + exact Hr.
Qed.

Lemma f_eqb : forall f lo sp sv b a n, rinv f lo sp sv b -> 0 < a < next sp -> n < next sp ->
  Nat.eqb (f a) (f n) = Nat.eqb a n.
Proof.
  intros f lo sp sv b a n Hi Ha Hn.
  destruct (Nat.eqb_spec a n) as [->|Hne]; [apply Nat.eqb_refl|].
  apply Nat.eqb_neq. intros E. apply Hne.
  destruct (Nat.eq_dec n 0) as [->|Hn0].
  - rewrite (ri_f0 _ _ _ _ _ Hi) in E. pose proof (ri_range _ _ _ _ _ Hi a Ha). lia.
  - apply (ri_inj _ _ _ _ _ Hi); [exact Ha|lia|exact E].
Qed.

Lemma unwatch_touch_single : forall k c ks d, unwatch c (touch k [mkW c ks d]) = [].
Proof.
  intros. cbn. destruct (mem_key k ks); cbn; rewrite Nat.eqb_refl; reflexivity.
Qed.

Lemma find_ver_range : forall sp now k r, fresh sp -> find now k sp = Some r -> 0 < ver r < next sp.
Proof.
  intros sp now k r [_ Hf] H. unfold find in H. destruct (lookup k (recs sp)) as [r0|] eqn:E; [|discriminate].
  destruct (expired now r0); [discriminate|]. injection H as <-.
  rewrite lookup_alookup in E. apply alookup_In in E. eauto.
Qed.

Lemma cas_loop_S : forall fuel k v e expected,
  cas_loop (S fuel) k v e expected =
  Cmd (fun _ => WATCH (rKey k)) (fun _ =>
  Cmd (fun _ => GETC (rKey k)) (fun r =>
    match r with
    | RVal (Some p) =>
        if Nat.eqb (p_ver p) expected then
          NewID (fun n =>
          Cmd (fun now => EXEC_SET (rKey k) (mkPl k v n e) (expiration e now)) (fun x =>
          Cmd (fun _ => UNWATCH) (fun _ =>
            match x with
            | RTxFailed => cas_loop fuel k v e expected
            | _ => Ret (ORec (k, v, n, e))
            end)))
        else Cmd (fun _ => UNWATCH) (fun _ => Ret OConflict)
    | _ => Cmd (fun _ => UNWATCH) (fun _ => Ret ONotExist)
    end)).
Proof. reflexivity. Qed.

(* the whole CasByVersion on a server nobody else talks to, for any positive fuel: WATCH, GET, and
   (version equal) MULTI/SET/EXEC, which cannot be aborted; the connection ends un-watched *)
Lemma rk_cas_gen : forall fuel now k v e n st nx,
  run_prog now now 0 (cas_loop (S fuel) k v e n) (mkR (mkSrv st []) nx) =
  match s_find now (rKey k) (mkSrv st []) with
  | Some y =>
      if Nat.eqb (p_ver (e_pl y)) n
      then (mkR (mkSrv (s_set (rKey k) (mkEnt (mkPl k v nx e) (deadline now (expiration e now))) st) []) (S nx),
            ORec (k, v, nx, e))
      else (mkR (mkSrv st []) nx, OConflict)
  | None => (mkR (mkSrv st []) nx, ONotExist)
  end.
Proof.
  intros. rewrite cas_loop_S.
  cbn [run_prog srv_cmd r_srv r_nxt store watches]. unfold add_watch.
  rewrite (s_find_store now (rKey k) st _ []).
  destruct (s_find now (rKey k) (mkSrv st [])) as [y|]; cbn [option_map].
  - destruct (Nat.eqb (p_ver (e_pl y)) n).
    + cbn [run_prog srv_cmd r_srv r_nxt store watches]. unfold add_watch.
      cbn [conn_dirty w_conn w_dirty Nat.eqb andb orb]. unfold do_set. cbn [store watches]. rewrite unwatch_touch_single.
      cbn [run_prog srv_cmd r_srv r_nxt store watches unwatch filter]. reflexivity.
    + cbn [run_prog srv_cmd r_srv r_nxt store watches unwatch filter w_conn Nat.eqb negb]. reflexivity.
  - cbn [run_prog srv_cmd r_srv r_nxt store watches unwatch filter w_conn Nat.eqb negb]. reflexivity.
Qed.

Lemma rk_cas_run : forall now k v e n st nx,
  rk_step (mkR (mkSrv st []) nx) now now (CasByVersion k v e n) =
  match s_find now (rKey k) (mkSrv st []) with
  | Some y =>
      if Nat.eqb (p_ver (e_pl y)) n
      then (mkR (mkSrv (s_set (rKey k) (mkEnt (mkPl k v nx e) (deadline now (expiration e now))) st) []) (S nx),
            ORec (k, v, nx, e))
      else (mkR (mkSrv st []) nx, OConflict)
  | None => (mkR (mkSrv st []) nx, ONotExist)
  end.
Proof. intros. exact (rk_cas_gen 7 now k v e n st nx). Qed.

Lemma cas_ok : forall f lo sp rs now k v e n, rinv f lo sp (r_srv rs) (r_nxt rs) -> (lo <= now)%Z -> clean k ->
  n < next sp -> step_ok f lo sp rs now (CasByVersion k v e n).
Proof.
  intros f lo sp [[st ws] nx] now k v e n Hi Hlo Hk Hn. cbn [r_srv r_nxt] in Hi.
  pose proof (ri_watch _ _ _ _ _ Hi) as Hw. cbn [watches] in Hw. subst ws.
  unfold step_ok. cbn [ren_op step op_floor]. rewrite rk_cas_run.
  pose proof (find_rel f lo sp _ _ now k Hi Hlo Hk) as H.
  destruct (find now k sp) as [r|] eqn:Ef.
  - destruct (s_find now (rKey k) (mkSrv st [])) as [y|] eqn:Es; [|contradiction].
    rewrite H. cbn [p_ver].
    rewrite (f_eqb f lo sp _ _ (ver r) n Hi (find_ver_range sp now k r (ri_fresh _ _ _ _ _ Hi) Ef) Hn).
    destruct (Nat.eqb (ver r) n) eqn:Ev.
    + (* the version matches: EXEC succeeds (nobody touched the key since WATCH) *)
      destruct (set_rel f lo sp (mkSrv st []) nx now k v e nx Hi Hk (Nat.le_refl _)) as [Hr Ha].
      exists (ext f (next sp) nx). split; [exact Ha|].
      unfold write in *. cbn [fst snd r_srv r_nxt ren_out ren_orec store] in *. split.
      * unfold ext. rewrite Nat.eqb_refl. reflexivity.
      * exact Hr.
    + exists f. split; [auto|]. cbn [fst snd r_srv r_nxt ren_out].
      split; [reflexivity|]. eapply rinv_mono; [apply Z.le_max_l|apply Nat.le_refl|exact Hi].
  - destruct (s_find now (rKey k) (mkSrv st [])) as [y|] eqn:Es; [contradiction|].
    exists f. split; [auto|]. cbn [fst snd r_srv r_nxt ren_out].
    split; [reflexivity|]. eapply rinv_mono; [apply Z.le_max_l|apply Nat.le_refl|exact Hi].
Qed.

(** PutMany *)
Definition noexp (r : key * value * option Z) : bool := match snd r with None => true | Some _ => false end.

(* the records before the first one that has an expiration *)
Fixpoint prefix_len (rs : list (key * value * option Z)) : nat :=
  match rs with
  | r :: t => if noexp r then S (prefix_len t) else 0
  | [] => 0
  end.

Fixpoint mset_list (rs : list (key * value * option Z)) (n : nat) : list (skey * payload) :=
  match rs with
  | (k, v, None) :: t => (rKey k, mkPl k v n None) :: mset_list t (S n)
  | _ => []
  end.

Lemma mset_args_run : forall now clk c rs acc ret sv nx,
  run_prog now clk c (mset_args rs acc ret) (mkR sv nx) =
  run_prog now clk c (ret (if forallb noexp rs then Some (rev acc ++ mset_list rs nx) else None))
           (mkR sv (nx + prefix_len rs)).
Proof.
  induction rs as [|[[k v] [e|]] t IH]; intros acc ret sv nx; cbn [mset_args forallb noexp snd prefix_len mset_list andb].
  - rewrite app_nil_r, Nat.add_0_r. reflexivity.
  - rewrite Nat.add_0_r. reflexivity.
  - cbn [run_prog r_nxt r_srv]. rewrite IH. cbn [rev]. rewrite <- app_assoc. cbn [app].
    rewrite Nat.add_succ_r. reflexivity.
Qed.

(* the server-side effect of writing the records one after the other with version ids m, m+1, ... *)
Fixpoint sets (now : Z) (rs : list (key * value * option Z)) (m : nat) (sv : srv) : srv :=
  match rs with
  | [] => sv
  | (k, v, e) :: t => sets now t (S m) (do_set now (rKey k) (mkPl k v m e) (expiration e now) sv)
  end.

Definition rs_floor (now : Z) (rs : list (key * value * option Z)) : Z :=
  fold_right (fun r a => Z.max (floor_after now (snd r)) a) now rs.

Lemma sets_rel : forall now rs f lo sp st b m, rinv f lo sp (mkSrv st []) b -> b <= m ->
  Forall (fun r => clean (fst (fst r))) rs ->
  exists f', (forall x, x < next sp -> f' x = f x) /\
    rinv f' (Z.max lo (rs_floor now rs)) (put_many rs sp) (sets now rs m (mkSrv st [])) (m + length rs).
Proof.
  induction rs as [|[[k v] e] t IH]; intros f lo sp st b m Hi Hm Hc.
  - cbn [put_many sets length rs_floor fold_right].
    exists f. split; [auto|]. rewrite Nat.add_0_r. eapply rinv_mono; [apply Z.le_max_l|exact Hm|exact Hi].
  - inversion Hc as [|? ? Hk Ht]; subst. cbn [fst] in Hk.
    destruct (set_rel f lo sp (mkSrv st []) b now k v e m Hi Hk Hm) as [Hr Ha].
    cbn [put_many sets length].
    rewrite (do_set_clean now (rKey k) (mkPl k v m e) (expiration e now) (mkSrv st []) eq_refl).
    cbn [store] in Hr |- *.
    destruct (IH (ext f (next sp) m) (Z.max lo (floor_after now e)) (fst (write k v e sp)) _ (S m) (S m)
                 Hr (Nat.le_refl _) Ht) as [f' [Ha' Hr']].
    exists f'. split.
    + intros x Hx. rewrite Ha'; [apply Ha; exact Hx|]. unfold write. cbn [fst next]. lia.
    + rewrite Nat.add_succ_r.
      eapply rinv_mono; [|apply Nat.le_refl|exact Hr'].
      unfold rs_floor. cbn [fold_right snd]. lia.
Qed.

Lemma prefix_len_all : forall rs, forallb noexp rs = true -> prefix_len rs = length rs.
Proof.
  induction rs as [|r t IH]; intros H; cbn [forallb prefix_len length] in *; [reflexivity|].
  apply andb_prop in H. destruct H as [H1 H2]. rewrite H1, (IH H2). reflexivity.
Qed.

(* MSET of the prepared arguments = the records written one after the other (none has an expiration) *)
Lemma do_mset_sets : forall now rs nx sv, forallb noexp rs = true ->
  do_mset now (mset_list rs nx) sv = sets now rs nx sv.
Proof.
  induction rs as [|[[k v] [e|]] t IH]; intros nx sv H; cbn [forallb noexp snd andb] in H; try discriminate;
    cbn [mset_list do_mset sets expiration]; [reflexivity|].
  apply IH. exact H.
Qed.

Lemma puts_run : forall now rs sv nx,
  run_prog now now 0 (puts_prog rs) (mkR sv nx) = (mkR (sets now rs nx sv) (nx + length rs), OOk).
Proof.
  induction rs as [|[[k v] e] t IH]; intros sv nx; cbn [puts_prog put_prog run_prog srv_cmd sets length r_srv r_nxt].
  - rewrite Nat.add_0_r. reflexivity.
  - rewrite IH, Nat.add_succ_r. reflexivity.
Qed.

(* the whole PutMany: the records are written one after the other with consecutive new version ids
   m, m+1, ... (m is past the ids the abandoned MSET preparation may have used up) *)
Lemma rk_putmany_run : forall now rs sv nx, exists m, nx <= m /\
  rk_step (mkR sv nx) now now (PutMany rs) = (mkR (sets now rs m sv) (m + length rs), OOk).
Proof.
  intros now rs sv nx. unfold rk_step, rk_prog, rk_putmany. rewrite mset_args_run. cbn [rev app].
  destruct (forallb noexp rs) eqn:E.
  - destruct rs as [|[[k v] e] t].
    + exists nx. split; [apply Nat.le_refl|]. cbn [mset_list puts_prog run_prog prefix_len sets length].
      rewrite Nat.add_0_r. reflexivity.
    + exists nx. split; [apply Nat.le_refl|].
      rewrite (prefix_len_all _ E). rewrite <- (do_mset_sets now _ nx sv E).
      cbn [forallb noexp snd andb] in E. destruct e as [e|]; [discriminate|].
      cbn [mset_list run_prog srv_cmd r_srv r_nxt]. reflexivity.
  - exists (nx + prefix_len rs). split; [apply Nat.le_add_r|]. apply puts_run.
Qed.

Lemma putmany_ok : forall f lo sp rs now l, rinv f lo sp (r_srv rs) (r_nxt rs) -> (lo <= now)%Z ->
  Forall (fun r => clean (fst (fst r))) l -> step_ok f lo sp rs now (PutMany l).
Proof.
  intros f lo sp [[st ws] nx] now l Hi Hlo Hc. cbn [r_srv r_nxt] in Hi.
  pose proof (ri_watch _ _ _ _ _ Hi) as Hw. cbn [watches] in Hw. subst ws.
  destruct (rk_putmany_run now l (mkSrv st []) nx) as [m [Hm Hrun]].
  destruct (sets_rel now l f lo sp st nx m Hi Hm Hc) as [f' [Ha Hr]].
  exists f'. split; [exact Ha|]. cbn [ren_op step op_floor]. rewrite Hrun.
  cbn [fst snd r_srv r_nxt ren_out]. split; [reflexivity|exact Hr].
Qed.

(** every operation *)
Lemma op_ok : forall f lo sp rs now o, rinv f lo sp (r_srv rs) (r_nxt rs) -> (lo <= now)%Z ->
  op_clean o -> cas_issued (next sp) o -> step_ok f lo sp rs now o.
Proof.
  intros f lo sp rs now o Hi Hlo Hc Hv. destruct o; cbn [op_clean cas_issued] in Hc, Hv.
  - apply create_ok; assumption.
  - apply get_ok; assumption.
  - apply getmany_ok; assumption.
  - apply put_ok; assumption.
  - apply putmany_ok; assumption.
  - apply cas_ok; assumption.
  - apply delete_ok; assumption.
  - apply listkeys_ok; assumption.
Qed.

(** ** the versions that occur in a result *)
Definition orec_ver (r : orec) : nat := let '(_, _, n, _) := r in n.

Definition out_vers (o : out) : list nat :=
  match o with
  | OVer n | OExist n => [n]
  | ORec r => [orec_ver r]
  | ORecs rs => flat_map (fun x => match x with Some r => [orec_ver r] | None => [] end) rs
  | _ => []
  end.

Lemma ren_out_ext : forall f g o, (forall n, In n (out_vers o) -> g n = f n) -> ren_out g o = ren_out f o.
Proof.
  intros f g o H. destruct o; cbn [ren_out out_vers] in *; try reflexivity.
  - rewrite H by (left; reflexivity). reflexivity.
  - rewrite H by (left; reflexivity). reflexivity.
  - destruct r as [[[k v] n] e]. cbn [ren_orec orec_ver] in *. rewrite H by (left; reflexivity). reflexivity.
  - f_equal. induction rs as [|[r|] t IH]; cbn [map option_map flat_map] in *; [reflexivity| |].
    + destruct r as [[[k v] n] e]. cbn [ren_orec orec_ver app] in *. rewrite (H n) by (left; reflexivity).
      f_equal. apply IH. intros n' Hn. apply H. right. exact Hn.
    + f_equal. apply IH. intros n' Hn. apply H. exact Hn.
Qed.

Lemma next_step_le : forall s now o, next s <= next (fst (step s now o)).
Proof.
  intros s now o. destruct o; cbn [step].
  - destruct (find now k s); cbn; lia.
  - destruct (find now k s); cbn; lia.
  - cbn; lia.
  - cbn; lia.
  - cbn [fst]. rewrite next_put_many. lia.
  - destruct (find now k s) as [r|]; [|cbn; lia]. destruct (Nat.eqb (ver r) expected); cbn; lia.
  - destruct (find now k s); cbn; lia.
  - cbn; lia.
Qed.

(* every version in a result was handed out by the time the operation is over *)
Lemma out_vers_bound : forall s now o n, fresh s -> In n (out_vers (snd (step s now o))) ->
  n < next (fst (step s now o)).
Proof.
  intros s now o n Hf. destruct o; cbn [step]; unfold write.
  - destruct (find now k s) as [r|] eqn:E; cbn [fst snd out_vers next].
    + intros [<-|[]]. apply (find_ver_range s now k r Hf E).
    + intros [<-|[]]. lia.
  - destruct (find now k s) as [r|] eqn:E; cbn [fst snd out_vers as_orec orec_ver]; [|intros []].
    intros [<-|[]]. apply (find_ver_range s now k r Hf E).
  - cbn [fst snd out_vers]. induction ks as [|k t IH]; cbn [map flat_map]; [intros []|].
    intros Hin. apply in_app_or in Hin. destruct Hin as [Hin|Hin]; [|auto].
    destruct (find now k s) as [r|] eqn:E; cbn [option_map as_orec orec_ver] in Hin; [|destruct Hin].
    destruct Hin as [<-|[]]. apply (find_ver_range s now k r Hf E).
  - cbn [fst snd out_vers orec_ver next]. intros [<-|[]]. lia.
  - cbn [snd out_vers]. intros [].
  - destruct (find now k s) as [r|] eqn:E; cbn [fst snd out_vers]; [|intros []].
    destruct (Nat.eqb (ver r) expected); cbn [fst snd out_vers orec_ver next]; [|intros []].
    intros [<-|[]]. lia.
  - destruct (find now k s); cbn [snd out_vers]; intros [].
  - cbn [snd out_vers]. intros [].
Qed.

(** ** whole runs *)

(* The premises under which the Redis client is compared with the contract, for a run that starts
   in contract state [s] with every earlier write judged alike from instant [lo] on:
   - the instants do not decrease, and no operation takes place inside the minimum-TTL window of an
     earlier write: a record written at [t] whose ExpiresAt is less than 1 ms after [t] (in particular:
     already past) lives on the server until t + 1 ms (expiration() never passes less than one
     millisecond), although the contract says it is gone at ExpiresAt; the next operation comes
     after t + 1 ms ([floor_after], [op_floor]);
   - keys have no leading slash and patterns are in the common glob dialect (D10) ([op_clean]);
   - a version passed to CasByVersion was handed out before, or is 0 = a string the storage never
     issued ([cas_issued]). *)
Fixpoint redis_ok (lo : Z) (s : state) (ops : list (Z * op)) : Prop :=
  match ops with
  | [] => True
  | (now, o) :: t =>
      (lo <= now)%Z /\ op_clean o /\ cas_issued (next s) o /\
      redis_ok (Z.max lo (op_floor now o)) (fst (step s now o)) t
  end.

Lemma redis_ok_mono : forall ops lo s, redis_ok lo s ops -> mono lo ops.
Proof.
  induction ops as [|[now o] t IH]; intros lo s H; cbn [redis_ok mono] in *; [exact I|].
  destruct H as [H1 [_ [_ H4]]]. split; [exact H1|].
  apply IH in H4. clear IH. pose proof (op_floor_ge now o) as Hge.
  destruct t as [|[now' o'] t']; cbn [mono] in *; [exact I|]. destruct H4 as [H5 H6]. split; [lia|exact H6].
Qed.

Definition ren_ops (g : nat -> nat) (ops : list (Z * op)) : list (Z * Z * op) :=
  map (fun no => (fst no, fst no, ren_op g (snd no))) ops.

Definition inj_below (g : nat -> nat) (n : nat) : Prop :=
  forall v v', 0 < v < n -> 0 < v' < n -> g v = g v' -> v = v'.

Lemma rk_run_sim : forall ops f lo sp rs, rinv f lo sp (r_srv rs) (r_nxt rs) -> redis_ok lo sp ops ->
  exists g, (forall x, x < next sp -> g x = f x) /\ g 0 = 0 /\
    inj_below g (next (snd (run sp ops))) /\
    fst (rk_run rs (ren_ops g ops)) = map (ren_out g) (fst (run sp ops)).
Proof.
  induction ops as [|[now o] t IH]; intros f lo sp rs Hi Hok; cbn [redis_ok] in Hok.
  - exists f. cbn [ren_ops map rk_run run fst snd]. split; [auto|]. split; [apply (ri_f0 _ _ _ _ _ Hi)|].
    split; [exact (ri_inj _ _ _ _ _ Hi)|reflexivity].
  - destruct Hok as [Hlo [Hc [Hv Hok]]].
    destruct (op_ok f lo sp rs now o Hi Hlo Hc Hv) as [f' [Ha [Ho Hi']]].
    pose proof (next_step_le sp now o) as Hle.
    pose proof (out_vers_bound sp now o) as Hb. specialize (fun n => Hb n (ri_fresh _ _ _ _ _ Hi)).
    destruct (IH f' _ (fst (step sp now o)) (fst (rk_step rs now now (ren_op f o))) Hi' Hok) as [g [Hg [Hg0 [Hinj Hrun]]]].
    exists g. split; [|split; [exact Hg0|]].
    + intros x Hx. rewrite Hg by lia. apply Ha. exact Hx.
    + assert (Hop : ren_op g o = ren_op f o).
      { destruct o; cbn [ren_op cas_issued] in *; try reflexivity. rewrite Hg by lia. rewrite Ha by exact Hv. reflexivity. }
      cbn [ren_ops map fst snd rk_run run]. fold (ren_ops g t). rewrite Hop.
      destruct (rk_step rs now now (ren_op f o)) as [rs' x] eqn:Er.
      destruct (step sp now o) as [sp' y] eqn:Es. cbn [fst snd] in *.
      destruct (rk_run rs' (ren_ops g t)) as [xs rf]. destruct (run sp' t) as [ys sf]. cbn [fst snd map] in *.
      split; [exact Hinj|]. rewrite Hrun, Ho. f_equal. symmetry. apply ren_out_ext.
      intros n Hn. apply Hg. apply Hb. exact Hn.
Qed.

(** For every operation sequence inside the premises [redis_ok] the Redis client, run sequentially
    against the command processor with synchronised clocks, returns exactly what the contract
    prescribes, up to a renaming [g] of the contract's versions that is injective on the versions
    handed out (and keeps 0, the never-issued version). *)
Theorem redis_refines_kv : forall ops t0, redis_ok t0 init ops ->
  exists g, g 0 = 0 /\ inj_below g (next (snd (run init ops))) /\
    fst (rk_run_sync rk_new (map (fun no => (fst no, ren_op g (snd no))) ops)) = map (ren_out g) (fst (run init ops)).
Proof.
  intros ops t0 Hok.
  destruct (rk_run_sim ops (fun v => v) t0 init rk_new (rinv_init t0) Hok) as [g [_ [Hg0 [Hinj Hrun]]]].
  exists g. split; [exact Hg0|]. split; [exact Hinj|].
  unfold rk_run_sync. rewrite map_map. exact Hrun.
Qed.
