(** C01: mutual exclusion of the distributed lock model (model/LockLTS.v).
    Inductive invariant over ALL traces (every interleaving, any number of threads, Lockers and
    providers, every fault placement, cancellations anywhere), under the two premises of the
    property: leases of live holders do not run out ([lease_ok]) and Unlock is only called on a
    held Locker ([wf_ok]). *)
From Coq Require Import List Arith Bool NArith Lia.
From GL Require Import model.LockLTS.
Import ListNotations.

(** ** generic helpers *)

Lemma upd_same : forall A (f : nat -> A) i v, upd f i v i = v.
Proof. intros. unfold upd. rewrite Nat.eqb_refl. reflexivity. Qed.

Lemma upd_other : forall A (f : nat -> A) i j v, j <> i -> upd f i v j = f j.
Proof. intros A f i j v Hne. unfold upd. destruct (Nat.eqb_spec j i); [contradiction|reflexivity]. Qed.

(** split on every [upd f i v j] in sight *)
Ltac upd_split :=
  repeat match goal with
  | H : context [upd _ ?i _ ?j] |- _ =>
      unfold upd in H; destruct (Nat.eqb_spec j i); subst
  | |- context [upd _ ?i _ ?j] =>
      unfold upd; destruct (Nat.eqb_spec j i); subst
  end.

(** unfold one [step] into its branches; every surviving branch has [s'] substituted *)
Ltac step_inv H :=
  unfold step, acquire_entry in H; cbv zeta in H;
  repeat match type of H with
  | context [match ?x with _ => _ end] => destruct x eqn:?; try discriminate H
  end;
  inversion H; subst; clear H.

(** the claim structure: who claims the stored record *)
Record uinv (s : state) : Prop := {
  u_held : forall L tn, held (lk s L) = Some tn -> exists v, rec s = Some (v, tn);
  u_unl : forall t L tn, pc_of s t = Unl1 L (Some tn) -> exists v, rec s = Some (v, tn);
  u_one_held : forall L1 L2, held (lk s L1) <> None -> held (lk s L2) <> None -> L1 = L2;
  u_one_unl : forall t1 t2 L1 L2 tn1 tn2,
      pc_of s t1 = Unl1 L1 (Some tn1) -> pc_of s t2 = Unl1 L2 (Some tn2) -> t1 = t2;
  u_excl : forall L t L' tn, held (lk s L) <> None -> pc_of s t = Unl1 L' (Some tn) -> False;
  u_nomisuse : forall t L, pc_of s t <> Unl1 L None
}.

Lemma uinv_init : forall lp, uinv (init lp).
Proof.
  intros lp. constructor; cbn; intros; try discriminate; try congruence.
Qed.

Lemma cancel_timer_lk : forall s id, lk (cancel_timer s id) = lk s.
Proof. intros. unfold cancel_timer. destruct (tm_st (timers s id)); reflexivity. Qed.
Lemma cancel_timer_th : forall s id, th (cancel_timer s id) = th s.
Proof. intros. unfold cancel_timer. destruct (tm_st (timers s id)); reflexivity. Qed.
Lemma cancel_timer_rec : forall s id, rec (cancel_timer s id) = rec s.
Proof. intros. unfold cancel_timer. destruct (tm_st (timers s id)); reflexivity. Qed.
Lemma cancel_timer_pc : forall s id t, pc_of (cancel_timer s id) t = pc_of s t.
Proof. intros. unfold pc_of. rewrite cancel_timer_th. reflexivity. Qed.

(** ** the claim invariant is inductive *)

Definition owner (s : state) : option tenure := option_map snd (rec s).

Definition frame (s s' : state) : Prop :=
  owner s' = owner s /\
  (forall L, held (lk s' L) = held (lk s L)) /\
  (forall t L o, pc_of s' t = Unl1 L o -> pc_of s t = Unl1 L o).

Lemma owner_some : forall s tn, owner s = Some tn <-> exists v, rec s = Some (v, tn).
Proof.
  intros s tn. unfold owner. destruct (rec s) as [[v o]|]; cbn; split.
  - intros [= ->]. eauto.
  - intros [v' [= -> ->]]. reflexivity.
  - discriminate.
  - intros [v' Hv]. discriminate.
Qed.

Lemma frame_uinv : forall s s', uinv s -> frame s s' -> uinv s'.
Proof.
  intros s s' I (Ho & Hh & Hp).
  constructor.
  - intros L tn H. rewrite Hh in H. apply owner_some. rewrite Ho. apply owner_some. eapply u_held; eauto.
  - intros t L tn H. apply Hp in H. apply owner_some. rewrite Ho. apply owner_some. eapply u_unl; eauto.
  - intros L1 L2 H1 H2. rewrite Hh in H1, H2. eapply u_one_held; eauto.
  - intros t1 t2 L1 L2 tn1 tn2 H1 H2. apply Hp in H1, H2. eapply u_one_unl; eauto.
  - intros L t L' tn H1 H2. rewrite Hh in H1. apply Hp in H2. eapply u_excl; eauto.
  - intros t L H. apply Hp in H. eapply u_nomisuse; eauto.
Qed.

Ltac frame_tac I :=
  apply (frame_uinv _ _ I); unfold frame, owner, pc_of, set_pc, cancel_timer; cbn;
  repeat split; intros; upd_split; cbn in *; try congruence; auto.


Lemma no_claim_when_absent : forall s, uinv s -> rec s = None ->
  (forall L, held (lk s L) = None) /\ (forall t L tn, pc_of s t <> Unl1 L (Some tn)).
Proof.
  intros s I Hr. split.
  - intros L. destruct (held (lk s L)) as [tn|] eqn:Hh; [|reflexivity].
    destruct (u_held s I L tn Hh) as [v Hv]. congruence.
  - intros t L tn Hp. destruct (u_unl s I t L tn Hp) as [v Hv]. congruence.
Qed.


Lemma unl1_sole_claimant : forall s t L o, uinv s -> pc_of s t = Unl1 L o ->
  (forall L', held (lk s L') = None) /\
  (forall t' L' tn', t' <> t -> pc_of s t' <> Unl1 L' (Some tn')).
Proof.
  intros s t L o I Hp.
  destruct o as [tn|]; [|exfalso; exact (u_nomisuse s I t L Hp)].
  split.
  - intros L'. destruct (held (lk s L')) eqn:Hh'; [|reflexivity]. exfalso.
    apply (u_excl s I L' t L tn); congruence.
  - intros t' L' tn' Hne Hp'. apply Hne. exact (u_one_unl s I t' t L' L tn' tn Hp' Hp).
Qed.

Lemma cas_hit_some : forall s tm o, cas_hit s tm = Some o ->
  rec s = Some (tm_ver tm, o).
Proof.
  intros s tm o H. unfold cas_hit in H. destruct (rec s) as [[v o']|]; [|discriminate].
  destruct (N.eqb_spec v (tm_ver tm)); [|discriminate]. congruence.
Qed.

Ltac leaf s I :=
  rewrite ?Nat.eqb_refl in *; cbn in *; try congruence; eauto;
  try (repeat match goal with H : Some _ = Some _ |- _ => injection H as ?; subst end; eexists; reflexivity);
  try (exfalso; match goal with
       | Hn : forall t' L' tn', pc_of s t' <> Unl1 L' (Some tn'), H : t_pc (th s ?t) = Unl1 ?L (Some ?tn) |- _ =>
           exact (Hn t L tn H) end);
  try (match goal with
       | Hn : forall L', L' <> ?L -> held (lk s L') = None, H : context [held (lk s ?L2)] |- _ =>
           rewrite (Hn L2) in H by assumption; congruence end);
  try (exfalso; match goal with
       | Hn : forall t' L' tn', t' <> ?t1 -> pc_of s t' <> Unl1 L' (Some tn'),
         H : t_pc (th s ?t) = Unl1 ?L (Some ?tn), Hne : ?t <> ?t1 |- _ =>
           exact (Hn t L tn Hne H) end);
  try (match goal with
       | Hn : forall L', held (lk s L') = None, H : context [held (lk s ?L2)] |- _ =>
           rewrite (Hn L2) in H; congruence end);
  try (match goal with
       | H : t_pc (th s ?t) = Unl1 ?L None |- _ => exfalso; exact (u_nomisuse s I t L H) end);
  try (apply (u_nomisuse s I));
  try (match goal with H : Unl1 _ _ = Unl1 _ _ |- _ => injection H as ? ?; subst end;
       first [ eapply (u_held s I); eassumption | congruence ]).

Lemma uinv_step : forall s l s', uinv s -> lease_ok s l -> wf_ok s l -> step s l = Some s' -> uinv s'.
Proof.
  intros s l s' I HL HW H.
  destruct l; step_inv H; try (frame_tac I; fail).
  - (* Invoke Unlock, the Locker is held *)
    cbn in HW. destruct (held (lk s L)) as [tn|] eqn:Hh; [clear HW|congruence].
    assert (Hnoheld : forall L', L' <> L -> held (lk s L') = None).
    { intros L' Hne. destruct (held (lk s L')) eqn:Hh'; [|reflexivity].
      exfalso. apply Hne. apply (u_one_held s I); congruence. }
    assert (Hnounl : forall t' L' tn', pc_of s t' <> Unl1 L' (Some tn')).
    { intros t' L' tn' Hp. apply (u_excl s I L t' L' tn'); congruence. }
    constructor; intros *; rewrite ?cancel_timer_lk, ?cancel_timer_pc, ?cancel_timer_rec;
      unfold pc_of; cbn; intros; upd_split; leaf s I.
  - (* StCreate FOk on an absent record *)
    destruct (no_claim_when_absent s I Heqo) as [Hnh Hnu].
    constructor; unfold pc_of, set_pc, arm_first; cbn; intros; upd_split; leaf s I.
  - (* StCreate FReplyLost on an absent record: an orphan *)
    destruct (no_claim_when_absent s I Heqo) as [Hnh Hnu].
    constructor; unfold pc_of, set_pc; cbn; intros; upd_split; leaf s I.
  - (* StDelete FOk *)
    destruct (unl1_sole_claimant s t L tn I Heqp) as [Hnh Hnu].
    constructor; unfold pc_of, set_pc; cbn; intros; upd_split; leaf s I.
  - (* StDelete FReplyLost *)
    destruct (unl1_sole_claimant s t L tn I Heqp) as [Hnh Hnu].
    constructor; unfold pc_of, set_pc; cbn; intros; upd_split; leaf s I.
  - (* StCas FOk, version matches: only the version changes *)
    apply cas_hit_some in Heqo.
    apply (frame_uinv _ _ I). unfold frame, owner. cbn. rewrite Heqo. cbn.
    repeat split; auto.
  - (* StCas FReplyLost, version matches *)
    apply cas_hit_some in Heqo.
    apply (frame_uinv _ _ I). unfold frame, owner. cbn. rewrite Heqo. cbn.
    repeat split; auto.
  - (* Expire: nobody claims the record *)
    destruct p as [v tn]. cbn in HL. specialize (HL v tn Heqo).
    assert (Hnh : forall L', held (lk s L') = None).
    { intros L'. destruct (held (lk s L')) as [tn'|] eqn:Hh'; [|reflexivity]. exfalso.
      destruct (u_held s I L' tn' Hh') as [v' Hv']. apply HL. left. exists L'. congruence. }
    assert (Hnu : forall t' L' tn', pc_of s t' <> Unl1 L' (Some tn')).
    { intros t' L' tn' Hp. destruct (u_unl s I t' L' tn' Hp) as [v' Hv'].
      apply HL. right. exists t', L'. congruence. }
    constructor; unfold pc_of; cbn; intros; upd_split; leaf s I.
Qed.

(** ** traces *)

Lemma uinv_run : forall tr s s',
  uinv s -> respects lease_ok s tr -> respects wf_ok s tr -> run s tr = Some s' -> uinv s'.
Proof.
  induction tr as [|l tr IH]; intros s s' I HL HW Hr; cbn in *.
  - injection Hr as <-. exact I.
  - destruct HL as [HL1 HL2]. destruct HW as [HW1 HW2].
    destruct (step s l) as [s1|] eqn:Hs; [|discriminate].
    apply (IH s1 s'); auto. eapply uinv_step; eauto.
Qed.

Lemma uinv_reachable : forall lp tr s,
  run (init lp) tr = Some s -> leases_respected lp tr -> wf_programs lp tr -> uinv s.
Proof.
  intros lp tr s Hr HL HW. eapply uinv_run; eauto using uinv_init.
Qed.

Lemma at_most_one_counted : forall (f : nat -> bool) (Ls : list nat),
  NoDup Ls -> (forall a b, f a = true -> f b = true -> a = b) -> length (filter f Ls) <= 1.
Proof.
  intros f Ls Hnd Huniq. induction Hnd as [|x l Hnin Hnd IH]; cbn.
  - lia.
  - destruct (f x) eqn:Hx; [|exact IH]. cbn.
    assert (Hnone : filter f l = []).
    { destruct (filter f l) as [|y r] eqn:Hf; [reflexivity|]. exfalso.
      assert (Hy : In y (filter f l)) by (rewrite Hf; left; reflexivity).
      apply filter_In in Hy. destruct Hy as [Hin Hfy].
      apply Hnin. rewrite (Huniq x y Hx Hfy). exact Hin. }
    rewrite Hnone. cbn. lia.
Qed.

(** C01, first form: no two distinct Lockers are held *)
Lemma mutual_exclusion_pair : forall lp tr s,
  run (init lp) tr = Some s -> leases_respected lp tr -> wf_programs lp tr ->
  forall L1 L2, held (lk s L1) <> None -> held (lk s L2) <> None -> L1 = L2.
Proof.
  intros lp tr s Hr HL HW. exact (u_one_held s (uinv_reachable lp tr s Hr HL HW)).
Qed.

(** C01, counting form: among any duplicate-free set of Lockers at most one is held *)
Lemma mutual_exclusion : forall lp tr s,
  run (init lp) tr = Some s -> leases_respected lp tr -> wf_programs lp tr ->
  forall Ls, NoDup Ls -> holders_in s Ls <= 1.
Proof.
  intros lp tr s Hr HL HW Ls Hnd. unfold holders_in.
  apply at_most_one_counted; [exact Hnd|].
  intros a b Ha Hb. apply (mutual_exclusion_pair lp tr s Hr HL HW); unfold is_held in *.
  - destruct (held (lk s a)); congruence.
  - destruct (held (lk s b)); congruence.
Qed.

(** the holder owns the stored record: the record exists and its ghost owner is the holder's tenure *)
Lemma holder_owns_record : forall lp tr s,
  run (init lp) tr = Some s -> leases_respected lp tr -> wf_programs lp tr ->
  forall L tn, held (lk s L) = Some tn -> exists v, rec s = Some (v, tn).
Proof.
  intros lp tr s Hr HL HW. exact (u_held s (uinv_reachable lp tr s Hr HL HW)).
Qed.

(** a second acquisition can only succeed when nobody holds: a successful Create finds no record *)
Lemma acquire_needs_no_holder : forall lp tr s t s',
  run (init lp) tr = Some s -> leases_respected lp tr -> wf_programs lp tr ->
  step s (StCreate t FOk) = Some s' ->
  (exists L k, pc_of s' t = Done (ok_result k) /\ held (lk s' L) <> None) ->
  forall L, held (lk s L) = None.
Proof.
  intros lp tr s t s' Hr HL HW Hs (L0 & k0 & Hpc & Hheld) L.
  pose proof (uinv_reachable lp tr s Hr HL HW) as I.
  destruct (rec s) as [[v o]|] eqn:Hrec.
  - exfalso. unfold step in Hs. destruct (pc_of s t) eqn:Hp; try discriminate.
    rewrite Hrec in Hs. destruct k; injection Hs as <-; unfold pc_of, set_pc in Hpc; cbn in Hpc;
      rewrite upd_same in Hpc; cbn in Hpc; destruct k0; discriminate.
  - apply (no_claim_when_absent s I Hrec).
Qed.

(** a trace without [Expire] trivially respects the leases *)
Lemma no_expire_respected : forall tr s, ~ In Expire tr -> respects lease_ok s tr.
Proof.
  induction tr as [|l tr IH]; intros s Hn; cbn; [exact I|].
  split.
  - destruct l; cbn; auto. exfalso. apply Hn. left. reflexivity.
  - destruct (step s l); [|exact I]. apply IH. intros Hin. apply Hn. right. exact Hin.
Qed.

(** ** boolean checkers for the decidable trace premises (used by the examples) *)

Definition wf_okb (s : state) (l : label) : bool :=
  match l with
  | Invoke _ (OUnlock L) => is_held (lk s L)
  | _ => true
  end.

Definition fault_freeb (s : state) (l : label) : bool :=
  match l with
  | StCreate _ f | StDelete _ f | StCas _ f => negb (faulty f)
  | _ => true
  end.

Fixpoint respectsb (g : state -> label -> bool) (s : state) (tr : list label) : bool :=
  match tr with
  | [] => true
  | l :: tr' => g s l && match step s l with Some s' => respectsb g s' tr' | None => true end
  end.

Lemma respectsb_sound : forall (g : state -> label -> Prop) (gb : state -> label -> bool),
  (forall s l, gb s l = true -> g s l) ->
  forall tr s, respectsb gb s tr = true -> respects g s tr.
Proof.
  intros g gb Hg. induction tr as [|l tr IH]; intros s H; cbn in *; [exact I|].
  apply andb_true_iff in H. destruct H as [H1 H2]. split; [apply Hg; exact H1|].
  destruct (step s l); [apply IH; exact H2|exact I].
Qed.

Lemma wf_okb_sound : forall s l, wf_okb s l = true -> wf_ok s l.
Proof.
  intros s l H. destruct l; cbn in *; auto. destruct o; auto.
  unfold is_held in H. destruct (held (lk s L)); congruence.
Qed.

Lemma fault_freeb_sound : forall s l, fault_freeb s l = true -> fault_free s l.
Proof. intros s l H. destruct l; cbn in *; auto; destruct (faulty f); cbn in H; congruence. Qed.

Lemma wf_programs_b : forall lp tr, respectsb wf_okb (init lp) tr = true -> wf_programs lp tr.
Proof. intros lp tr. apply respectsb_sound. exact wf_okb_sound. Qed.

Lemma no_faults_b : forall lp tr, respectsb fault_freeb (init lp) tr = true -> no_faults lp tr.
Proof. intros lp tr. apply respectsb_sound. exact fault_freeb_sound. Qed.

Lemma respectsb_complete_wf : forall tr s, respects wf_ok s tr -> respectsb wf_okb s tr = true.
Proof.
  induction tr as [|l tr IH]; intros s H; cbn in *; [reflexivity|].
  destruct H as [H1 H2]. apply andb_true_iff. split.
  - destruct l; cbn in *; auto. destruct o; auto. unfold is_held. destruct (held (lk s L)); congruence.
  - destruct (step s l); [apply IH; exact H2|reflexivity].
Qed.

Lemma respects_app : forall g tr1 tr2 s,
  respects g s (tr1 ++ tr2) ->
  respects g s tr1 /\ forall s1, run s tr1 = Some s1 -> respects g s1 tr2.
Proof.
  induction tr1 as [|l tr1 IH]; intros tr2 s H; cbn in *.
  - split; [exact I|]. intros s1 [= <-]. exact H.
  - destruct H as [H1 H2]. destruct (step s l) as [s0|] eqn:Hs.
    + destruct (IH tr2 s0 H2) as [A B]. split; [split; assumption|]. exact B.
    + split; [split; [assumption|exact I]|]. intros s1 Hc. discriminate.
Qed.

Lemma run_app : forall tr1 tr2 s s',
  run s (tr1 ++ tr2) = Some s' -> exists s1, run s tr1 = Some s1 /\ run s1 tr2 = Some s'.
Proof.
  induction tr1 as [|l tr1 IH]; intros tr2 s s' H; cbn in *.
  - exists s. split; [reflexivity|exact H].
  - destruct (step s l) as [s0|]; [|discriminate]. apply IH. exact H.
Qed.

Lemma respects_app_intro : forall g tr1 tr2 s,
  respects g s tr1 -> (forall s1, run s tr1 = Some s1 -> respects g s1 tr2) ->
  respects g s (tr1 ++ tr2).
Proof.
  induction tr1 as [|l tr1 IH]; intros tr2 s H1 H2; cbn in *.
  - apply H2. reflexivity.
  - destruct H1 as [Ha Hb]. split; [exact Ha|].
    destruct (step s l) as [s0|]; [|exact I]. apply IH; [exact Hb|exact H2].
Qed.

(** ** why [wf_programs] is needed: Unlock on a Locker that is still acquiring deletes a foreign record *)

Definition misuse_trace : list label :=
  [ (* goroutine 1 acquires and releases through Locker 1 once (so that l.future is set) *)
    Invoke 1 (OLock 1); TakeToken 1; CheckCtx 1; StCreate 1 FOk; Return 1 RUnit;
    Invoke 1 (OUnlock 1); StDelete 1 FOk; PutToken 1; Return 1 RUnit;
    (* goroutine 0 acquires through Locker 0 and holds *)
    Invoke 0 (OLock 0); TakeToken 0; CheckCtx 0; StCreate 0 FOk; Return 0 RUnit;
    (* goroutine 1 starts acquiring through Locker 1 and waits for the record to change *)
    Invoke 1 (OLock 1); TakeToken 1; CheckCtx 1; StCreate 1 FOk;
    (* misuse: goroutine 2 calls Unlock on Locker 1, which is not held: Locker 0's record is deleted *)
    Invoke 2 (OUnlock 1); StDelete 2 FOk;
    (* goroutine 1 is woken, creates the record and holds as well *)
    StWaitRet 1 WChanged; CheckCtx 1; StCreate 1 FOk; Return 1 RUnit ].

Lemma misuse_unlock_breaks_exclusion :
  exists s, run (init (fun _ => 0)) misuse_trace = Some s
            /\ leases_respected (fun _ => 0) misuse_trace
            /\ ~ wf_programs (fun _ => 0) misuse_trace
            /\ holders_in s [0; 1] = 2.
Proof.
  destruct (run (init (fun _ => 0)) misuse_trace) as [s|] eqn:Hr; [|vm_compute in Hr; discriminate].
  exists s. split; [reflexivity|]. split; [|split].
  - apply no_expire_respected. unfold misuse_trace. cbn.
    intros H. repeat (destruct H as [H|H]; [discriminate H|]). exact H.
  - intros HW. apply respectsb_complete_wf in HW. vm_compute in HW. discriminate.
  - vm_compute in Hr. injection Hr as <-. vm_compute. reflexivity.
Qed.

(** ** why the lease premise must cover an Unlock in progress

    Unlock deletes the record by key, not by version.  If the lease of the record runs out after
    Unlock has reset the counter but before its Delete reaches the storage (a delayed Delete), the
    Delete removes the record of whoever acquired in between.  [lease_held_only] is the weaker
    reading of the premise (only held Lockers protect their record); under it exclusion fails. *)

Definition lease_held_only (s : state) (l : label) : Prop :=
  match l with
  | Expire => forall v tn, rec s = Some (v, tn) -> ~ exists L, held (lk s L) = Some tn
  | _ => True
  end.

Definition late_delete_trace : list label :=
  [ Invoke 0 (OLock 0); TakeToken 0; CheckCtx 0; StCreate 0 FOk; Return 0 RUnit;
    Invoke 0 (OUnlock 0);                 (* counter reset, timer cancelled, Delete not yet applied *)
    Expire;                               (* the lease of tenure 1 runs out *)
    Invoke 1 (OLock 1); TakeToken 1; CheckCtx 1; StCreate 1 FOk; Return 1 RUnit;   (* Locker 1 holds *)
    StDelete 0 FOk;                       (* the late Delete removes Locker 1's record *)
    Invoke 2 (OLock 2); TakeToken 2; CheckCtx 2; StCreate 2 FOk; Return 2 RUnit ]. (* Locker 2 holds too *)

Lemma late_delete_breaks_exclusion :
  exists s, run (init (fun _ => 0)) late_delete_trace = Some s
            /\ wf_programs (fun _ => 0) late_delete_trace
            /\ respects lease_held_only (init (fun _ => 0)) late_delete_trace
            /\ ~ leases_respected (fun _ => 0) late_delete_trace
            /\ holders_in s [0; 1; 2] = 2.
Proof.
  destruct (run (init (fun _ => 0)) late_delete_trace) as [s|] eqn:Hr; [|vm_compute in Hr; discriminate].
  exists s. split; [reflexivity|]. split; [|split; [|split]].
  - apply wf_programs_b. vm_compute. reflexivity.
  - change late_delete_trace with
      ([Invoke 0 (OLock 0); TakeToken 0; CheckCtx 0; StCreate 0 FOk; Return 0 RUnit; Invoke 0 (OUnlock 0)]
       ++ Expire :: [Invoke 1 (OLock 1); TakeToken 1; CheckCtx 1; StCreate 1 FOk; Return 1 RUnit;
                     StDelete 0 FOk;
                     Invoke 2 (OLock 2); TakeToken 2; CheckCtx 2; StCreate 2 FOk; Return 2 RUnit]).
    apply respects_app_intro.
    + cbn. repeat split.
    + intros s1 Hs1. vm_compute in Hs1. injection Hs1 as <-. cbn [respects]. split.
      * cbn [lease_held_only]. intros v tn Hrec [L H].
        vm_compute in H. destruct L as [|L]; discriminate.
      * match goal with |- match ?x with _ => _ end => destruct x as [s2|]; [|exact I] end.
        cbn. repeat match goal with |- context [match ?x with _ => _ end] => destruct x end; repeat split.
  - intros HL. unfold leases_respected in HL.
    change late_delete_trace with
      ([Invoke 0 (OLock 0); TakeToken 0; CheckCtx 0; StCreate 0 FOk; Return 0 RUnit; Invoke 0 (OUnlock 0)]
       ++ Expire :: [Invoke 1 (OLock 1); TakeToken 1; CheckCtx 1; StCreate 1 FOk; Return 1 RUnit;
                     StDelete 0 FOk;
                     Invoke 2 (OLock 2); TakeToken 2; CheckCtx 2; StCreate 2 FOk; Return 2 RUnit]) in HL.
    apply respects_app in HL. destruct HL as [_ HL].
    match type of HL with forall s1, run ?s0 ?tr1 = Some s1 -> _ =>
      destruct (run s0 tr1) as [s1|] eqn:Hr1; [|vm_compute in Hr1; discriminate] end.
    specialize (HL s1 eq_refl). vm_compute in Hr1. injection Hr1 as <-.
    cbn [respects] in HL. destruct HL as [HL _]. cbn [lease_ok] in HL.
    apply (HL 1%N 1%N); [vm_compute; reflexivity|].
    right. exists 0, 0. vm_compute. reflexivity.
  - vm_compute in Hr. injection Hr as <-. vm_compute. reflexivity.
Qed.
