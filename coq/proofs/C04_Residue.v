(** C04: hand-off, cancellation and shutdown leave no residue (model/LockLTS.v).
    Fault-free traces of well-formed programs.  Invariants: the claim structure (C01_Exclusion),
    the token accounting (C01_Tokens) and "every stored record is claimed" below. *)
From Coq Require Import List Arith Bool NArith Lia.
From GL Require Import model.LockLTS proofs.C01_Exclusion proofs.C01_Tokens.
Import ListNotations.

(** without faults every stored record is claimed: by the Locker that is held with it, or by the
    Unlock that is about to delete it *)
Definition rinv (s : state) : Prop := forall v tn, rec s = Some (v, tn) -> claimed s tn.

Lemma rinv_init : forall lp, rinv (init lp).
Proof. intros lp v tn H. cbn in H. discriminate. Qed.

Definition cframe (s s' : state) : Prop :=
  owner s' = owner s /\ forall tn, claimed s tn -> claimed s' tn.

Lemma cframe_rinv : forall s s', rinv s -> cframe s s' -> rinv s'.
Proof.
  intros s s' I [Ho Hc] v tn Hr. apply Hc.
  assert (Ho' : owner s' = Some tn) by (apply owner_some; eauto).
  rewrite Ho in Ho'. apply owner_some in Ho'. destruct Ho' as [v' Hv']. eapply I; eauto.
Qed.

Ltac claim_keep :=
  let L0 := fresh "L0" in let t0 := fresh "t0" in let H0 := fresh "H0" in
  intros ? [[L0 H0]|[t0 [L0 H0]]];
  [ left; exists L0 | right; exists t0, L0 ];
  unfold pc_of, set_pc, cancel_timer, arm_first in *; cbn in *;
  repeat match goal with |- context [match ?x with _ => _ end] => destruct x; cbn end;
  upd_split; rewrite ?Nat.eqb_refl in *; cbn in *; try congruence; auto.

Ltac cframe_tac I :=
  apply (cframe_rinv _ _ I); split;
  [ unfold owner, set_pc, cancel_timer; cbn;
    repeat match goal with |- context [match ?x with _ => _ end] => destruct x; cbn end; reflexivity
  | claim_keep ].

Lemma rinv_step : forall s l s', rinv s -> fault_free s l -> step s l = Some s' -> rinv s'.
Proof.
  intros s l s' I HF H.
  destruct l; step_inv H; try (cframe_tac I; fail).
  - (* Invoke Unlock: the claim moves from the Locker to the unlocking thread *)
    intros v0 tn0 Hr. rewrite cancel_timer_rec in Hr. cbn in Hr.
    destruct (I v0 tn0 Hr) as [[L0 H0]|[t0 [L0 H0]]].
    + destruct (Nat.eq_dec L0 L) as [->|Hne].
      * right. exists t, L. rewrite cancel_timer_pc. unfold pc_of. cbn. unfold upd.
        rewrite Nat.eqb_refl. cbn. congruence.
      * left. exists L0. rewrite cancel_timer_lk. cbn. unfold upd.
        destruct (Nat.eqb_spec L0 L); [contradiction|exact H0].
    + right. exists t0, L0. rewrite cancel_timer_pc. unfold pc_of in *. cbn. unfold upd.
      destruct (Nat.eqb_spec t0 t); [subst; congruence|exact H0].
  - (* StCreate FOk succeeds: the new record is claimed by the Locker *)
    intros v0 tn0 Hr. unfold set_pc, arm_first in Hr. cbn in Hr. injection Hr as <- <-.
    left. exists L. unfold set_pc, arm_first. cbn. unfold upd. rewrite !Nat.eqb_refl. cbn.
    rewrite ?Nat.eqb_refl. reflexivity.
  - (* reply lost: excluded *)
    cbn in HF. discriminate.
  - intros v0 tn0 Hr. cbn in Hr. discriminate.
  - cbn in HF. discriminate.
  - apply cas_hit_some in Heqo. apply (cframe_rinv _ _ I). split.
    + unfold owner. cbn. rewrite Heqo. reflexivity.
    + claim_keep.
  - cbn in HF. discriminate.
  - intros v0 tn0 Hr. cbn in Hr. discriminate.
Qed.

Lemma rinv_run : forall tr s s',
  rinv s -> respects fault_free s tr -> run s tr = Some s' -> rinv s'.
Proof.
  induction tr as [|l tr IH]; intros s s' I HF Hr; cbn in *.
  - injection Hr as <-. exact I.
  - destruct HF as [HF1 HF2].
    destruct (step s l) as [s1|] eqn:Hs; [|discriminate].
    apply (IH s1 s'); auto. eapply rinv_step; eauto.
Qed.

Lemma rinv_reachable : forall lp tr s,
  run (init lp) tr = Some s -> no_faults lp tr -> rinv s.
Proof. intros lp tr s Hr HF. eapply rinv_run; eauto using rinv_init. Qed.

(** ** no residue at quiescence *)

Definition quiescent (s : state) : Prop :=
  forall t, pc_of s t = Idle \/ exists r, pc_of s t = Done r.

Lemma quiescent_clean : forall lp tr s,
  run (init lp) tr = Some s -> no_faults lp tr -> wf_programs lp tr ->
  quiescent s -> (forall L, held (lk s L) = None) ->
  rec s = None /\
  (forall L, cntr (lk s L) = false) /\
  (forall L, down s (lprov s L) = false -> token (lk s L) = true).
Proof.
  intros lp tr s Hr HF HW Hq Hnh.
  pose proof (tinv_reachable lp tr s Hr HW) as IT.
  pose proof (rinv_reachable lp tr s Hr HF) as IR.
  assert (Hnu : forall t L, userb (pc_of s t) L = false).
  { intros t L. destruct (Hq t) as [->|[r ->]]; reflexivity. }
  split; [|split].
  - destruct (rec s) as [[v tn]|] eqn:Hrec; [|reflexivity]. exfalso.
    destruct (IR v tn Hrec) as [[L H]|[t [L H]]].
    + rewrite Hnh in H. discriminate.
    + destruct (Hq t) as [Hi|[r Hd]]; congruence.
  - intros L. apply (t_cntr0 s IT L); auto.
    intros t. destruct (userb_false _ _ (Hnu t L)) as [Ha _]. exact Ha.
  - intros L Hd. apply (t_tok1 s IT L); auto.
Qed.

(** ** no deadlock, no lost wake-up *)

Lemma res_eqb_refl : forall r, res_eqb r r = true.
Proof. intros [| | | |[]|]; reflexivity. Qed.

(** a thread that is neither idle nor in one of the two waits always has an internal step *)
Lemma running_thread_enabled : forall s t, tinv s ->
  match pc_of s t with
  | Idle | LocalWait _ _ | WaitVer _ _ _ => True
  | _ => exists l, internal l = true /\ step s l <> None
  end.
Proof.
  intros s t IT. destruct (pc_of s t) eqn:Hp; try exact I.
  - exists (CheckCtx t). split; [reflexivity|]. cbn. rewrite Hp.
    destruct (kind_eqb k KCtx && ctx_of s t); discriminate.
  - exists (StCreate t FOk). split; [reflexivity|]. cbn. rewrite Hp.
    destruct (rec s) as [[v o]|]; [destruct k|]; discriminate.
  - exists (StDelete t FOk). split; [reflexivity|]. cbn. rewrite Hp. discriminate.
  - exists (PutToken t). split; [reflexivity|]. cbn. rewrite Hp.
    rewrite (user_token_false s IT t L); [discriminate|].
    rewrite Hp. unfold userb, acqb, unlb. rewrite Nat.eqb_refl. reflexivity.
  - exists (PutToken t). split; [reflexivity|]. cbn. rewrite Hp.
    rewrite (user_token_false s IT t L); [discriminate|].
    rewrite Hp. unfold userb, acqb, unlb. rewrite Nat.eqb_refl. reflexivity.
  - exists (Return t r). split; [reflexivity|]. cbn. rewrite Hp, res_eqb_refl. discriminate.
Qed.

(** a thread in the local wait can move iff the token is there, the provider is down or (for
    LockWithCtx) its context is done; TryLock never waits *)
Lemma localwait_enabled_iff : forall s t L k, pc_of s t = LocalWait L k ->
  ((exists l, In l [TakeToken t; TryFail t; Bail t BCtx; Bail t BClosed] /\ step s l <> None)
   <-> blockedb s t = false).
Proof.
  intros s t L k Hp. unfold blockedb. rewrite Hp. split.
  - intros (l & Hin & Hs). cbn in Hin.
    destruct Hin as [<-|[<-|[<-|[<-|[]]]]]; cbn in Hs; rewrite Hp in Hs.
    + destruct k; auto; destruct (token (lk s L)); cbn; auto; congruence.
    + destruct k; auto; congruence.
    + destruct k; auto; cbn in *; try congruence.
      destruct (ctx_of s t); cbn; [rewrite !orb_true_r; reflexivity|congruence].
    + destruct k; auto; destruct (down s (lprov s L)); cbn; try congruence; rewrite orb_true_r; reflexivity.
  - intros Hb. destruct (token (lk s L)) eqn:Ht.
    + exists (TakeToken t). split; [cbn; auto|]. cbn. rewrite Hp, Ht.
      destruct (down s (lprov s L)); [discriminate|]. destruct (cntr (lk s L)); discriminate.
    + destruct (down s (lprov s L)) eqn:Hd.
      * exists (Bail t BClosed). split; [cbn; auto|]. cbn. rewrite Hp, Hd. discriminate.
      * destruct k.
        -- cbn in Hb. discriminate.
        -- exists (TryFail t). split; [cbn; auto|]. cbn. rewrite Hp, Ht, Hd. discriminate.
        -- cbn in Hb. destruct (ctx_of s t) eqn:Hc; [|discriminate].
           exists (Bail t BCtx). split; [cbn; auto|]. cbn. rewrite Hp, Hc. discriminate.
Qed.

(** a thread in the storage wait can return iff the record is gone, has another version, or
    its context is done (the storage-side half is C07's wait_no_lost_wakeup) *)
Lemma waitver_enabled_iff : forall s t L k v, pc_of s t = WaitVer L k v ->
  ((exists w, step s (StWaitRet t w) <> None)
   <-> (rec s = None \/ (exists v' o, rec s = Some (v', o) /\ v' <> v) \/ ctx_of s t = true)).
Proof.
  intros s t L k v Hp. split.
  - intros [w Hs]. cbn in Hs. rewrite Hp in Hs. destruct w.
    + destruct (rec s) as [[v' o]|]; [|left; reflexivity].
      destruct (N.eqb_spec v' v); cbn in Hs; [congruence|]. right. left. eauto.
    + destruct (ctx_of s t); [right; right; reflexivity|congruence].
  - intros [Hr|[(v' & o & Hr & Hne)|Hc]].
    + exists WChanged. cbn. rewrite Hp, Hr. discriminate.
    + exists WChanged. cbn. rewrite Hp, Hr. destruct (N.eqb_spec v' v); [contradiction|]. cbn. discriminate.
    + exists WCtx. cbn. rewrite Hp, Hc. discriminate.
Qed.

Lemma waitver_blocked_iff : forall s t L k v, pc_of s t = WaitVer L k v ->
  ((exists w, step s (StWaitRet t w) <> None) <-> blockedb s t = false).
Proof.
  intros s t L k v Hp. rewrite (waitver_enabled_iff s t L k v Hp). unfold blockedb. rewrite Hp.
  destruct (rec s) as [[v' o]|] eqn:Hr.
  - destruct (N.eqb_spec v' v) as [->|Hne]; cbn.
    + destruct (ctx_of s t); cbn; split; auto.
      intros [H|[(v'' & o' & H & Hne)|H]]; try discriminate. injection H as <- <-. contradiction.
    + split; [intros _; reflexivity|]. intros _. right. left. exists v', o. auto.
  - cbn. split; auto.
Qed.

Definition stuck (s : state) : Prop := forall l, internal l = true -> step s l = None.

(** If no internal step is enabled anywhere and no Locker is held, then no work remains: every
    thread is idle.  (Contrapositive, in a logic without excluded middle over the infinitely many
    threads: if work remains and nobody holds, some internal step is enabled.) *)
Lemma no_deadlock : forall lp tr s,
  run (init lp) tr = Some s -> no_faults lp tr -> wf_programs lp tr ->
  stuck s -> (forall L, held (lk s L) = None) ->
  forall t, pc_of s t = Idle.
Proof.
  intros lp tr s Hr HF HW Hst Hnh.
  pose proof (tinv_reachable lp tr s Hr HW) as IT.
  pose proof (rinv_reachable lp tr s Hr HF) as IR.
  (* A: every thread is idle or in one of the two waits *)
  assert (HA : forall t, match pc_of s t with Idle | LocalWait _ _ | WaitVer _ _ _ => True | _ => False end).
  { intros t. pose proof (running_thread_enabled s t IT) as He.
    destruct (pc_of s t); try exact I; destruct He as (l & Hi & Hs); apply Hs; apply Hst; exact Hi. }
  (* B: nobody is in the storage wait *)
  assert (HB : forall t L k v, pc_of s t <> WaitVer L k v).
  { intros t L k v Hp.
    assert (Hs := Hst (StWaitRet t WChanged) eq_refl). cbn in Hs. rewrite Hp in Hs.
    destruct (rec s) as [[v' o]|] eqn:Hrec; [|discriminate].
    destruct (IR v' o Hrec) as [[L' H]|[t' [L' H]]].
    - rewrite Hnh in H. discriminate.
    - specialize (HA t'). rewrite H in HA. exact HA. }
  assert (Hnu : forall t L, userb (pc_of s t) L = false).
  { intros t L. specialize (HA t). specialize (HB t). destruct (pc_of s t); try reflexivity; try contradiction.
    exfalso. eapply HB. reflexivity. }
  intros t. specialize (HA t). pose proof (HB t) as HBt.
  destruct (pc_of s t) eqn:Hp; try reflexivity; try contradiction.
  - exfalso.
    assert (Hs1 := Hst (TakeToken t) eq_refl). cbn in Hs1. rewrite Hp in Hs1.
    assert (Hs2 := Hst (Bail t BClosed) eq_refl). cbn in Hs2. rewrite Hp in Hs2.
    destruct (down s (lprov s L)) eqn:Hd; [discriminate|].
    rewrite (t_tok1 s IT L (fun t0 => Hnu t0 L) (Hnh L) Hd) in Hs1.
    destruct (cntr (lk s L)); discriminate.
  - exfalso. eapply HBt. reflexivity.
Qed.
