(** C12, part 2: the dispatcher LTS (model/TPool.v).

    State invariant [pool_ok]; effect of every label on the pending set, the stored fire
    times and the worker pcs; then, for every accepted trace: [never_early],
    [at_most_once], [cancel_effective], and for every Cancel step [cancel_precise]. *)
From Coq Require Import List ZArith NArith Bool Lia Permutation.
From GL Require Import model.THeap model.TPool proofs.C12_THeap.
Import ListNotations.
Open Scope Z_scope.

(** * the state invariant *)

Record pool_ok (p : pool) : Prop := mkPoolOk {
  po_idx : idx_ok (hp p);
  po_bad : bad (hp p) = false;
  po_pend : forall x, In x (arr (hp p)) -> was_called p x = true /\ live (get (hs (hp p)) x) = true
}.

Lemma was_called_In : forall p x, was_called p x = true <-> In x (called p).
Proof.
  intros p x. unfold was_called. rewrite existsb_exists. split.
  - intros [y [HI E]]. apply N.eqb_eq in E. subst y. exact HI.
  - intros HI. exists x. split; [exact HI|apply N.eqb_refl].
Qed.

Lemma pool_ok_init : forall i m c t, pool_ok (init_pool i m c t).
Proof.
  intros. constructor; cbn.
  - apply idx_ok_empty.
  - reflexivity.
  - intros x [].
Qed.

(** ** heap-level wrappers *)

(* Call: a fresh future record, then heap.Push *)
Lemma new_fut_idx_ok : forall h x f, idx_ok h -> ~ In x (arr h) -> idx f = -1 ->
  idx_ok (mkHeap (arr h) (set (hs h) x f) (bad h)).
Proof.
  intros h x f [Hin Hout] Hx Hf. split; cbn [arr hs].
  - intros k Hk. rewrite get_set_other; [apply Hin; exact Hk|].
    intros ->. apply Hx. apply nth_In. exact Hk.
  - intros y Hy. rewrite get_set. destruct (N.eqb_spec x y) as [_|_]; [exact Hf|apply Hout; exact Hy].
Qed.

Lemma set_live_idx_ok : forall h x b, idx_ok h -> idx_ok (mkHeap (arr h) (set_live (hs h) x b) (bad h)).
Proof.
  intros h x b [Hin Hout]. split; cbn [arr hs].
  - intros k Hk. rewrite idx_set_live. apply Hin. exact Hk.
  - intros y Hy. rewrite idx_set_live. apply Hout. exact Hy.
Qed.

(** * effect of the steps *)

(* what a step may do to the pending set and the stored data *)
Record step_facts (p p' : pool) (l : label) : Prop := mkFacts {
  sf_ok : pool_ok p';
  (* a future enters the pending set only by its own Call with a function *)
  sf_enter : forall y, In y (arr (hp p')) -> In y (arr (hp p)) \/
               exists d tc t, l = LCall y d tc true t /\ was_called p y = false;
  (* ids are never forgotten *)
  sf_called : forall y, In y (called p) -> In y (called p');
  (* a Call records its id and fire time *)
  sf_call : forall y d tc nn t, l = LCall y d tc nn t ->
               In y (called p') /\ was_called p y = false /\ fireT (get (hs (hp p')) y) = tc + d;
  (* the fire time of a future that was created before never changes *)
  sf_fire : forall y, In y (called p) -> fireT (get (hs (hp p')) y) = fireT (get (hs (hp p)) y);
  (* a callback is started only for the head, strictly after its fire time, and leaves the set *)
  sf_start : forall x, starts p l = Some x ->
               In x (arr (hp p)) /\ ~ In x (arr (hp p')) /\ fireT (get (hs (hp p)) x) < label_time l;
  (* Cancel x leaves x not pending *)
  sf_cancel : forall x t, l = LCancel x t -> ~ In x (arr (hp p'));
  sf_now : now p <= label_time l /\ now p' = label_time l
}.

Lemma with_now_ok : forall p t, pool_ok p -> pool_ok (with_now p t).
Proof. intros p t [A B C]. constructor; assumption. Qed.

Lemma notify_hp : forall p, hp (notify p) = hp p. Proof. reflexivity. Qed.
Lemma spawn_hp : forall p, hp (spawn p) = hp p. Proof. reflexivity. Qed.
Lemma with_pc_hp : forall p w c, hp (with_pc p w c) = hp p. Proof. reflexivity. Qed.
Lemma exit_hp : forall p w, hp (exit_worker p w) = hp p. Proof. reflexivity. Qed.

(* pool_ok only looks at the heap and the called list *)
Lemma pool_ok_same : forall p q, hp q = hp p -> called q = called p -> pool_ok p -> pool_ok q.
Proof.
  intros p q Hh Hc [A B C]. constructor; rewrite ?Hh; try assumption.
  intros x Hx. destruct (C x Hx) as [C1 C2]. split; [|exact C2].
  apply was_called_In. rewrite Hc. apply was_called_In. exact C1.
Qed.

(** ** Call *)

Lemma do_call_facts : forall p x d tc nn p',
  pool_ok p -> do_call p x d tc nn = Some p' ->
  was_called p x = false /\
  pool_ok p' /\
  (forall y, In y (called p') <-> y = x \/ In y (called p)) /\
  (forall y, In y (arr (hp p')) <-> In y (arr (hp p)) \/ (nn = true /\ y = x)) /\
  fireT (get (hs (hp p')) x) = tc + d /\
  (forall y, y <> x -> fireT (get (hs (hp p')) y) = fireT (get (hs (hp p)) y) /\
                       live (get (hs (hp p')) y) = live (get (hs (hp p)) y)) /\
  now p' = now p.
Proof.
  intros p x d tc nn p' Hok H. unfold do_call in H.
  destruct (was_called p x) eqn:Hc; [discriminate|].
  split; [reflexivity|].
  assert (Hx : ~ In x (arr (hp p))).
  { intros HI. destruct (po_pend p Hok x HI) as [A _]. congruence. }
  set (h0 := hp p) in *.
  set (h1 := mkHeap (arr h0) (set (hs h0) x (mkFut (tc + d) (-1) nn)) (bad h0)) in *.
  assert (Hok1 : idx_ok h1) by (apply new_fut_idx_ok; [apply (po_idx p Hok)|exact Hx|reflexivity]).
  cbn [add_called hp] in H. fold h0 in H. fold h1 in H.
  destruct nn.
  - (* pushed *)
    destruct (push_exact h1 x Hok1 Hx) as [PI PL PD PB PO].
    set (p1 := with_heap (add_called p x) (heap_push h1 x)) in *.
    assert (Hp' : hp p' = heap_push h1 x /\ called p' = x :: called p /\ now p' = now p).
    { destruct (watchers p1 =? 0); injection H as <-; repeat split. }
    destruct Hp' as [Hh [Hcl Hn]].
    assert (Hd : forall y, fireT (get (hs (hp p')) y) = fireT (get (hs h1) y) /\
                           live (get (hs (hp p')) y) = live (get (hs h1) y)).
    { intros y. rewrite Hh. apply PD. }
    split.
    { constructor.
      - rewrite Hh. exact PO.
      - rewrite Hh, PB. apply (po_bad p Hok).
      - intros y Hy. rewrite Hh in Hy. apply PI in Hy. unfold h1 in Hy; cbn [arr] in Hy. split.
        + apply was_called_In. rewrite Hcl.
          destruct Hy as [Hy| ->]; [right; apply was_called_In; apply (po_pend p Hok y Hy)|left; reflexivity].
        + destruct (Hd y) as [_ Hl]. rewrite Hl. unfold h1; cbn [hs]. rewrite get_set.
          destruct (N.eqb_spec x y) as [E|E]; [reflexivity|].
          destruct Hy as [Hy|Hy]; [apply (po_pend p Hok y Hy)|congruence]. }
    split.
    { intros y. rewrite Hcl. cbn [In]. intuition. }
    split.
    { intros y. rewrite Hh, PI. unfold h1; cbn [arr]. intuition. }
    split.
    { destruct (Hd x) as [A _]. rewrite A. unfold h1; cbn [hs]. rewrite get_set_same. reflexivity. }
    split; [|exact Hn].
    intros y Hy. destruct (Hd y) as [A B]. rewrite A, B. unfold h1; cbn [hs].
    rewrite get_set_other by congruence. split; reflexivity.
  - injection H as <-. cbn [with_heap add_called hp called now].
    split.
    { constructor; cbn [hp].
      - exact Hok1.
      - apply (po_bad p Hok).
      - intros y Hy. unfold h1 in Hy; cbn [arr] in Hy. destruct (po_pend p Hok y Hy) as [A B]. split.
        + apply was_called_In. cbn [called]. right. apply was_called_In. exact A.
        + cbn [with_heap hp]. unfold h1; cbn [hs]. rewrite get_set_other; [exact B|]. intros ->. contradiction. }
    split.
    { intros y. cbn [In]. intuition. }
    split.
    { intros y. unfold h1; cbn [arr]. intuition. discriminate. }
    split.
    { unfold h1; cbn [hs]. rewrite get_set_same. reflexivity. }
    split; [|reflexivity].
    intros y Hy. unfold h1; cbn [hs]. rewrite get_set_other by congruence. split; reflexivity.
Qed.

(** ** Cancel *)

Lemma do_cancel_facts : forall p x p',
  pool_ok p -> do_cancel p x = Some p' ->
  was_called p x = true /\
  pool_ok p' /\ called p' = called p /\ workers p' = workers p /\ watchers p' = watchers p /\
  now p' = now p /\
  (forall y, In y (arr (hp p')) <-> In y (arr (hp p)) /\ y <> x) /\
  (forall y, fireT (get (hs (hp p')) y) = fireT (get (hs (hp p)) y)) /\
  (forall y, y <> x -> live (get (hs (hp p')) y) = live (get (hs (hp p)) y)) /\
  (~ In x (arr (hp p)) -> hp p' = hp p /\ tokens p' = tokens p).
Proof.
  intros p x p' Hok H. unfold do_cancel in H.
  destruct (was_called p x) eqn:Hc; [|discriminate]. cbn [negb] in H.
  split; [reflexivity|].
  destruct (idx (get (hs (hp p)) x) <? 0) eqn:Hi.
  - injection H as <-.
    assert (Hx : ~ In x (arr (hp p))).
    { intros HI. rewrite (pending_idx _ _ (po_idx p Hok) HI) in Hi. discriminate. }
    split; [exact Hok|]. split; [reflexivity|]. split; [reflexivity|]. split; [reflexivity|].
    split; [reflexivity|].
    split.
    { intros y. split; [intros HI; split; [exact HI|intros ->; contradiction]|intros [HI _]; exact HI]. }
    split; [reflexivity|]. split; [reflexivity|]. intros _. split; reflexivity.
  - assert (Hx : In x (arr (hp p))).
    { destruct (in_dec N.eq_dec x (arr (hp p))) as [HI|HI]; [exact HI|].
      rewrite (not_pending_idx _ _ (po_idx p Hok) HI) in Hi. discriminate. }
    set (h0 := hp p) in *.
    set (h1 := mkHeap (arr h0) (set_live (hs h0) x false) (bad h0)) in *.
    assert (Hok1 : idx_ok h1) by (apply set_live_idx_ok; apply (po_idx p Hok)).
    assert (Hidx : idx (get (hs h0) x) = idx (get (hs h1) x)).
    { unfold h1; cbn [hs]. rewrite idx_set_live. reflexivity. }
    rewrite Hidx in H.
    destruct (remove_exact h1 x Hok1 Hx) as [[RI RL RD RB RO RX] _].
    set (h2 := fst (heap_remove h1 (idx (get (hs h1) x)))) in *.
    assert (Hp' : hp p' = h2 /\ called p' = called p /\ workers p' = workers p /\
                  watchers p' = watchers p /\ now p' = now p).
    { destruct (watchers (with_heap p h2) >? 0); injection H as <-; repeat split. }
    destruct Hp' as [Hh [Hcl [Hw [Hwa Hn]]]].
    split.
    { constructor.
      - rewrite Hh. exact RO.
      - rewrite Hh, RB. apply (po_bad p Hok).
      - intros y Hy. rewrite Hh in Hy. apply RI in Hy. destruct Hy as [Hy Hne]. unfold h1 in Hy; cbn [arr] in Hy.
        destruct (po_pend p Hok y Hy) as [A B]. split.
        + apply was_called_In. rewrite Hcl. apply was_called_In. exact A.
        + rewrite Hh. destruct (RD y) as [_ L]. rewrite L. unfold h1; cbn [hs]. rewrite live_set_live.
          destruct (N.eqb_spec x y) as [E|E]; [congruence|exact B]. }
    split; [exact Hcl|]. split; [exact Hw|]. split; [exact Hwa|]. split; [exact Hn|].
    split.
    { intros y. rewrite Hh. apply RI. }
    split.
    { intros y. rewrite Hh. destruct (RD y) as [F _]. rewrite F. unfold h1; cbn [hs]. apply fireT_set_live. }
    split.
    { intros y Hy. rewrite Hh. destruct (RD y) as [_ L]. rewrite L. unfold h1; cbn [hs]. rewrite live_set_live.
      destruct (N.eqb_spec x y) as [E|E]; [congruence|reflexivity]. }
    intros Hnx. contradiction.
Qed.

(** ** Decide *)

Lemma head_fire_anth : forall h, head_fire h = fireT (get (hs h) (anth (arr h) 0)).
Proof. reflexivity. Qed.

(* the pop branch of do_decide, as a function of the state *)
Definition pops (p : pool) (t : Z) : bool :=
  negb (f_len (hp p) =? 0) && (t >? head_fire (hp p)).

Lemma do_decide_nopop : forall p w mis t, pops p t = false ->
  let p' := do_decide p w mis t in
  hp p' = hp p /\ called p' = called p /\ now p' = now p.
Proof.
  intros p w mis t Hp. unfold do_decide, pops in *.
  destruct (f_len (hp p) =? 0) eqn:E0.
  { destruct (mis >? 1); repeat split. }
  cbn [negb andb] in Hp. rewrite Hp.
  destruct (watchers p >? 1); [destruct (mis >? 1)|]; repeat split.
Qed.

Lemma set_pc_nth : forall (l : list pc) w c, (w < length l)%nat -> nth w (set_pc_list l w c) Gone = c.
Proof.
  induction l as [|a l IH]; intros [|w'] c Hl; cbn in *; auto; try lia. apply IH; lia.
Qed.

Lemma do_decide_pop : forall p w mis t,
  pool_ok p -> (w < length (workers p))%nat -> pops p t = true ->
  let p' := do_decide p w mis t in
  let x := anth (arr (hp p)) 0 in
  pool_ok p' /\ called p' = called p /\ now p' = now p /\
  In x (arr (hp p)) /\ fireT (get (hs (hp p)) x) < t /\
  (forall y, In y (arr (hp p')) <-> In y (arr (hp p)) /\ y <> x) /\
  same_data (hp p) (hp p') /\
  heap_pop (hp p) = (hp p', x) /\
  pc_of p' w = Running x.
Proof.
  intros p w mis t Hok Hw Hp. unfold do_decide. unfold pops in Hp.
  apply andb_prop in Hp. destruct Hp as [E0 Et]. apply negb_true_iff in E0. rewrite E0, Et.
  assert (Hne : arr (hp p) <> []).
  { intros E. unfold f_len in E0. rewrite E in E0. cbn in E0. discriminate. }
  destruct (pop_head (hp p) (po_idx p Hok) Hne) as [[RI RL RD RB RO RX] Hx].
  destruct (heap_pop (hp p)) as [h1 x] eqn:HP. cbn [fst snd] in *. subst x.
  set (x := anth (arr (hp p)) 0) in *.
  set (p1 := with_heap p h1).
  set (p2 := if (f_len h1 >? 0) && (t >? head_fire h1) && (watchers p1 <? maxw p1) then spawn p1 else p1).
  assert (H2 : hp p2 = h1 /\ called p2 = called p /\ now p2 = now p /\
               (forall c, pc_of (with_pc p2 w c) w = c)).
  { unfold p2. destruct ((f_len h1 >? 0) && (t >? head_fire h1) && (watchers p1 <? maxw p1)).
    - repeat split. intros c. unfold pc_of. cbn [with_pc workers spawn p1 with_heap].
      apply set_pc_nth. rewrite app_length. cbn [length]. lia.
    - repeat split. intros c. unfold pc_of. cbn [with_pc workers p1 with_heap]. apply set_pc_nth. exact Hw. }
  destruct H2 as [Hh2 [Hc2 [Hn2 Hpcw]]].
  assert (Hxin : In x (arr (hp p))).
  { unfold x, anth. apply nth_In. destruct (arr (hp p)); [contradiction|cbn; lia]. }
  cbv zeta.
  split.
  { constructor; cbn [with_pc hp]; rewrite Hh2.
    - exact RO.
    - rewrite RB. apply (po_bad p Hok).
    - intros y Hy. apply RI in Hy. destruct Hy as [Hy _]. destruct (po_pend p Hok y Hy) as [A B].
      split.
      + apply was_called_In. cbn [with_pc called]. rewrite Hc2. apply was_called_In. exact A.
      + destruct (RD y) as [_ L]. rewrite L. exact B. }
  cbn [with_pc hp called now]. rewrite Hh2, Hc2, Hn2.
  split; [reflexivity|]. split; [reflexivity|].
  split; [exact Hxin|]. split.
  { rewrite head_fire_anth in Et. fold x in Et. apply Z.gtb_lt in Et. exact Et. }
  split; [exact RI|]. split; [exact RD|]. split; [reflexivity|].
  destruct (po_pend p Hok x Hxin) as [_ Hl]. destruct (RD x) as [_ L]. rewrite L, Hl. apply Hpcw.
Qed.

Lemma pc_of_lt : forall p w, pc_of p w <> Gone -> (w < length (workers p))%nat.
Proof.
  intros p w H. destruct (Nat.lt_ge_cases w (length (workers p))) as [L|L]; [exact L|].
  exfalso. apply H. unfold pc_of. apply nth_overflow. exact L.
Qed.

(* facts for a step that leaves heap and called list alone *)
Lemma facts_same : forall p p' l,
  pool_ok p -> hp p' = hp p -> called p' = called p ->
  now p <= label_time l -> now p' = label_time l ->
  starts p l = None -> (forall y d tc nn t, l <> LCall y d tc nn t) -> (forall x t, l <> LCancel x t) ->
  step_facts p p' l.
Proof.
  intros p p' l Hok Hh Hc Hn1 Hn2 Hs Hnc Hncn. constructor.
  - eapply pool_ok_same; eauto.
  - intros y Hy. left. rewrite Hh in Hy. exact Hy.
  - intros y Hy. rewrite Hc. exact Hy.
  - intros y d tc nn t E. exfalso. eapply Hnc; eauto.
  - intros y _. rewrite Hh. reflexivity.
  - intros x E. congruence.
  - intros x t E. exfalso. eapply Hncn; eauto.
  - split; assumption.
Qed.

Lemma starts_decide : forall p w t mis, pc_of p w = Deciding mis -> now p <= t ->
  starts p (LDecide w t) =
    if pops p t then (let '(h1, x) := heap_pop (hp p) in if live (get (hs h1) x) then Some x else None)
    else None.
Proof.
  intros p w t mis Hpc Hn. unfold starts, pops. rewrite Hpc.
  assert (E : (now p >? t) = false) by (rewrite Z.gtb_ltb; apply Z.ltb_ge; lia).
  rewrite E. cbn [negb andb]. reflexivity.
Qed.

Theorem step_facts_hold : forall p l p', pool_ok p -> step p l = Some p' -> step_facts p p' l.
Proof.
  intros p l p' Hok Hs. unfold step in Hs.
  destruct (label_time l <? now p) eqn:Ht; [discriminate|]. apply Z.ltb_ge in Ht.
  set (p0 := with_now p (label_time l)) in *.
  assert (Hok0 : pool_ok p0) by (apply with_now_ok; exact Hok).
  destruct l as [x d tc nn t|x t|w t|w t|w t|w t]; cbn [label_time] in *.
  - (* Call *)
    destruct (tc >? t); [discriminate|].
    destruct (do_call_facts p0 x d tc nn p' Hok0 Hs) as [Hc [Hok' [Hcl [Hin [Hf [Hd Hn]]]]]].
    constructor.
    + exact Hok'.
    + intros y Hy. apply Hin in Hy. destruct Hy as [Hy|[-> ->]]; [left; exact Hy|].
      right. exists d, tc, t. split; [reflexivity|exact Hc].
    + intros y Hy. apply Hcl. right. exact Hy.
    + intros y d' tc' nn' t' E. injection E as <- <- <- <- <-.
      split; [apply Hcl; left; reflexivity|]. split; [exact Hc|exact Hf].
    + intros y Hy. apply Hd. intros ->. apply was_called_In in Hy.
      change (was_called p0 x) with (was_called p x) in Hc. congruence.
    + intros y E. cbn in E. discriminate.
    + intros y t' E. discriminate.
    + split; [exact Ht|]. rewrite Hn. reflexivity.
  - (* Cancel *)
    destruct (do_cancel_facts p0 x p' Hok0 Hs) as [Hc [Hok' [Hcl [Hw [Hwa [Hn [Hin [Hf [Hl Hnp]]]]]]]]].
    constructor.
    + exact Hok'.
    + intros y Hy. apply Hin in Hy. left. apply Hy.
    + intros y Hy. rewrite Hcl. exact Hy.
    + intros y d tc nn t' E. discriminate.
    + intros y _. apply Hf.
    + intros y E. cbn in E. discriminate.
    + intros y t' E. injection E as <- <-. intros HI. apply Hin in HI. destruct HI as [_ HI]. congruence.
    + split; [exact Ht|]. rewrite Hn. reflexivity.
  - (* Decide *)
    destruct (pc_of p0 w) as [mis| | |] eqn:Hpc; try discriminate. injection Hs as <-.
    assert (Hw : (w < length (workers p0))%nat) by (apply pc_of_lt; rewrite Hpc; discriminate).
    assert (Hpc' : pc_of p w = Deciding mis) by exact Hpc.
    pose proof (starts_decide p w t mis Hpc' Ht) as Hst.
    change (pops p t) with (pops p0 t) in Hst.
    destruct (pops p0 t) eqn:Hp.
    + destruct (do_decide_pop p0 w mis t Hok0 Hw Hp) as [Hok' [Hc [Hn [Hx [Hlt [Hin [Hd [Hpop Hrun]]]]]]]].
      change (hp p0) with (hp p) in *. rewrite Hpop in Hst.
      destruct (Hd (anth (arr (hp p)) 0)) as [_ Hlive].
      destruct (po_pend p Hok _ Hx) as [_ Hl]. rewrite Hlive, Hl in Hst.
      constructor.
      * exact Hok'.
      * intros y Hy. apply Hin in Hy. left. apply Hy.
      * intros y Hy. rewrite Hc. exact Hy.
      * intros y d tc nn t' E. discriminate.
      * intros y _. apply Hd.
      * intros x E. rewrite Hst in E. injection E as <-.
        split; [exact Hx|]. split; [|exact Hlt].
        intros HI. apply Hin in HI. destruct HI as [_ HI]. congruence.
      * intros y t' E. discriminate.
      * split; [exact Ht|]. rewrite Hn. reflexivity.
    + destruct (do_decide_nopop p0 w mis t Hp) as [Hh [Hc Hn]].
      apply facts_same; auto; try discriminate.
  - (* WakeTimer *)
    destruct (pc_of p0 w) as [|mis u| |] eqn:Hpc; try discriminate.
    destruct (t <? u); [discriminate|]. injection Hs as <-.
    apply facts_same; auto; try discriminate.
  - (* WakeToken *)
    destruct (pc_of p0 w) as [|mis u| |] eqn:Hpc; try discriminate.
    destruct (tokens p0 >? 0); [|discriminate]. injection Hs as <-.
    apply facts_same; auto; try discriminate.
  - (* CbEnd *)
    destruct (pc_of p0 w) as [| |x|] eqn:Hpc; try discriminate. injection Hs as <-.
    apply facts_same; auto; try discriminate.
Qed.

(** * traces *)

Lemma run_app : forall a b p,
  run p (a ++ b) = match run p a with Some p' => run p' b | None => None end.
Proof.
  induction a as [|l a IH]; intros b p; cbn [app run]; [reflexivity|].
  destruct (step p l) as [p'|]; [apply IH|reflexivity].
Qed.

Lemma trace_starts_app : forall a b p,
  trace_starts p (a ++ b) =
  trace_starts p a ++ match run p a with Some p' => trace_starts p' b | None => [] end.
Proof.
  induction a as [|l a IH]; intros b p; cbn [app run trace_starts]; [reflexivity|].
  destruct (step p l) as [p'|]; [|reflexivity].
  destruct (starts p l); rewrite IH; reflexivity.
Qed.

Lemma NoDup_snoc : forall (l : list fid) x, NoDup l -> ~ In x l -> NoDup (l ++ [x]).
Proof.
  induction l as [|a l IH]; intros x Hnd Hx; cbn [app].
  - constructor; [intros []|constructor].
  - inversion Hnd as [|a' l' Ha Hl]; subst. constructor.
    + rewrite in_app_iff. intros [H|[H|[]]]; [contradiction|]. subst. apply Hx. left. reflexivity.
    + apply IH; [exact Hl|]. intros H. apply Hx. right. exact H.
Qed.

Lemma run_ok : forall tr p p', pool_ok p -> run p tr = Some p' -> pool_ok p'.
Proof.
  induction tr as [|l tr IH]; intros p p' Hok H; cbn [run] in H.
  - injection H as <-. exact Hok.
  - destruct (step p l) as [p1|] eqn:E; [|discriminate].
    eapply IH; [|exact H]. apply (sf_ok _ _ _ (step_facts_hold p l p1 Hok E)).
Qed.

(* the history invariant of a state reached by trace [tr] from a state with an empty heap *)
Record hist_inv (p0 : pool) (tr : list label) (p : pool) : Prop := mkHist {
  hi_ok : pool_ok p;
  (* a pending future was created by a Call in the trace, with a function, and has its fire time *)
  hi_pend : forall x, In x (arr (hp p)) ->
     exists d tc t, In (LCall x d tc true t) tr /\ fireT (get (hs (hp p)) x) = tc + d;
  (* created futures keep the fire time their Call computed *)
  hi_fire : forall x d tc nn t, In (LCall x d tc nn t) tr -> ~ In x (called p0) ->
     fireT (get (hs (hp p)) x) = tc + d /\ In x (called p);
  (* a pending future has not been started *)
  hi_fresh : forall x, In x (arr (hp p)) -> ~ In x (map fst (trace_starts p0 tr));
  (* at most once *)
  hi_once : NoDup (map fst (trace_starts p0 tr));
  (* never early *)
  hi_early : forall x t, In (x, t) (trace_starts p0 tr) ->
     exists d tc tl, In (LCall x d tc true tl) tr /\ tc + d < t;
  (* started or cancelled futures are known ids *)
  hi_known : forall x, In x (map fst (trace_starts p0 tr)) -> In x (called p);
  hi_called0 : forall x, In x (called p0) -> In x (called p)
}.

Lemma hist_inv_init : forall p0, pool_ok p0 -> arr (hp p0) = [] -> hist_inv p0 [] p0.
Proof.
  intros p0 Hok He. constructor; cbn [trace_starts map]; auto.
  - intros x Hx. rewrite He in Hx. destruct Hx.
  - intros x d tc nn t [].
  - constructor.
  - intros x t [].
  - intros x [].
Qed.

Lemma hist_inv_step : forall p0 tr p l p',
  hist_inv p0 tr p -> run p0 tr = Some p -> step p l = Some p' -> hist_inv p0 (tr ++ [l]) p'.
Proof.
  intros p0 tr p l p' [Hok Hpend Hfire Hfresh Honce Hearly Hknown Hc0] Hrun Hstep.
  pose proof (step_facts_hold p l p' Hok Hstep) as [Fok Fenter Fcalled Fcall Ffire Fstart Fcancel Fnow].
  assert (Hts : trace_starts p0 (tr ++ [l]) =
                trace_starts p0 tr ++ match starts p l with Some x => [(x, label_time l)] | None => [] end).
  { rewrite trace_starts_app, Hrun. cbn [trace_starts]. rewrite Hstep. destruct (starts p l); reflexivity. }
  constructor.
  - exact Fok.
  - intros x Hx. destruct (Fenter x Hx) as [Hin|[d [tc [t [-> Hnc]]]]].
    + destruct (Hpend x Hin) as [d [tc [t [HI Hf]]]]. exists d, tc, t. split.
      * apply in_or_app. left. exact HI.
      * rewrite Ffire; [exact Hf|]. apply was_called_In. apply (po_pend p Hok x Hin).
    + exists d, tc, t. split; [apply in_or_app; right; left; reflexivity|].
      apply (Fcall x d tc true t eq_refl).
  - intros x d tc nn t HI Hn0. apply in_app_or in HI. destruct HI as [HI|[E|[]]].
    + destruct (Hfire x d tc nn t HI Hn0) as [A B]. split; [|apply Fcalled; exact B].
      rewrite Ffire; [exact A|exact B].
    + destruct (Fcall x d tc nn t E) as [A [_ B]]. split; assumption.
  - intros x Hx. rewrite Hts, map_app, in_app_iff. intros [HI|HI].
    + destruct (Fenter x Hx) as [Hin|[d [tc [t [-> Hnc]]]]].
      * apply (Hfresh x Hin HI).
      * apply Hknown in HI. apply was_called_In in HI. congruence.
    + destruct (starts p l) as [y|] eqn:Es; [|destruct HI].
      destruct HI as [<-|[]]. cbn [fst] in Hx. destruct (Fstart y eq_refl) as [_ [Hn _]]. contradiction.
  - rewrite Hts, map_app. destruct (starts p l) as [y|] eqn:Es.
    + cbn [map fst]. apply NoDup_snoc; [exact Honce|].
      apply Hfresh. apply (Fstart y eq_refl).
    + cbn [map]. rewrite app_nil_r. exact Honce.
  - intros x t HI. rewrite Hts in HI. apply in_app_or in HI. destruct HI as [HI|HI].
    + destruct (Hearly x t HI) as [d [tc [tl [A B]]]]. exists d, tc, tl. split; [|exact B].
      apply in_or_app. left. exact A.
    + destruct (starts p l) as [y|] eqn:Es; [|destruct HI].
      destruct HI as [E|[]]. injection E as <- <-.
      destruct (Fstart y eq_refl) as [Hin [_ Hlt]].
      destruct (Hpend y Hin) as [d [tc [tl [A B]]]]. exists d, tc, tl. split.
      * apply in_or_app. left. exact A.
      * lia.
  - intros x HI. rewrite Hts, map_app, in_app_iff in HI. destruct HI as [HI|HI].
    + apply Fcalled. apply Hknown. exact HI.
    + destruct (starts p l) as [y|] eqn:Es; [|destruct HI].
      destruct HI as [<-|[]]. cbn [fst]. apply Fcalled. apply was_called_In.
      apply (po_pend p Hok y). apply (Fstart y eq_refl).
  - intros x HI. apply Fcalled. apply Hc0. exact HI.
Qed.

Lemma hist_inv_run : forall tr p0 p,
  pool_ok p0 -> arr (hp p0) = [] -> run p0 tr = Some p -> hist_inv p0 tr p.
Proof.
  intros tr p0. induction tr as [|l tr IH] using rev_ind; intros p Hok He Hr.
  - cbn in Hr. injection Hr as <-. apply hist_inv_init; assumption.
  - rewrite run_app in Hr. destruct (run p0 tr) as [p1|] eqn:E; [|discriminate].
    cbn [run] in Hr. destruct (step p1 l) as [p2|] eqn:Es; [|discriminate]. injection Hr as <-.
    eapply hist_inv_step; eauto.
Qed.

(** ** never early, at most once *)

Theorem never_early : forall i m c k tr p x t,
  run (init_pool i m c k) tr = Some p ->
  In (x, t) (trace_starts (init_pool i m c k) tr) ->
  exists d tc tl, In (LCall x d tc true tl) tr /\ tc + d < t.
Proof.
  intros i m c k tr p x t Hr HI.
  apply (hi_early _ _ _ (hist_inv_run tr _ p (pool_ok_init i m c k) eq_refl Hr) x t HI).
Qed.

Theorem at_most_once : forall i m c k tr p,
  run (init_pool i m c k) tr = Some p ->
  NoDup (map fst (trace_starts (init_pool i m c k) tr)).
Proof.
  intros i m c k tr p Hr.
  apply (hi_once _ _ _ (hist_inv_run tr _ p (pool_ok_init i m c k) eq_refl Hr)).
Qed.

(* every Call of the same id in an accepted trace is the same Call: ids are fresh *)
Theorem call_unique_fire : forall i m c k tr p x d tc nn t d' tc' nn' t',
  run (init_pool i m c k) tr = Some p ->
  In (LCall x d tc nn t) tr -> In (LCall x d' tc' nn' t') tr -> tc + d = tc' + d'.
Proof.
  intros i m c k tr p x d tc nn t d' tc' nn' t' Hr H1 H2.
  pose proof (hist_inv_run tr _ p (pool_ok_init i m c k) eq_refl Hr) as HI.
  destruct (hi_fire _ _ _ HI x d tc nn t H1) as [A _]; [intros []|].
  destruct (hi_fire _ _ _ HI x d' tc' nn' t' H2) as [B _]; [intros []|]. lia.
Qed.

(** ** Cancel is effective *)

Lemma never_pending_again : forall tr p x,
  pool_ok p -> In x (called p) -> ~ In x (arr (hp p)) -> ~ In x (map fst (trace_starts p tr)).
Proof.
  induction tr as [|l tr IH]; intros p x Hok Hc Hn; cbn [trace_starts]; [intros []|].
  destruct (step p l) as [p'|] eqn:Es; [|intros []].
  pose proof (step_facts_hold p l p' Hok Es) as [Fok Fenter Fcalled Fcall Ffire Fstart Fcancel Fnow].
  assert (Hrest : ~ In x (map fst (trace_starts p' tr))).
  { apply IH; [exact Fok|apply Fcalled; exact Hc|].
    intros HI. destruct (Fenter x HI) as [HI'|[d [tc [t [_ Hw]]]]]; [contradiction|].
    apply was_called_In in Hc. congruence. }
  destruct (starts p l) as [y|] eqn:E; [|exact Hrest].
  cbn [map fst]. intros [<-|HI]; [|contradiction].
  apply Hn. apply (Fstart y eq_refl).
Qed.

Lemma starts_cancel : forall p x t, starts p (LCancel x t) = None.
Proof. reflexivity. Qed.

Theorem cancel_effective : forall i m c k tr1 x t tr2 p,
  run (init_pool i m c k) (tr1 ++ LCancel x t :: tr2) = Some p ->
  ~ In x (map fst (trace_starts (init_pool i m c k) tr1)) ->
  ~ In x (map fst (trace_starts (init_pool i m c k) (tr1 ++ LCancel x t :: tr2))).
Proof.
  intros i m c k tr1 x t tr2 p Hr Hn.
  set (p0 := init_pool i m c k) in *.
  rewrite run_app in Hr. destruct (run p0 tr1) as [p1|] eqn:E1; [|discriminate].
  cbn [run] in Hr. destruct (step p1 (LCancel x t)) as [p2|] eqn:E2; [|discriminate].
  rewrite trace_starts_app, E1. cbn [trace_starts]. rewrite E2, starts_cancel.
  rewrite map_app, in_app_iff. intros [HI|HI]; [contradiction|].
  assert (Hok1 : pool_ok p1) by (eapply run_ok; [apply pool_ok_init|exact E1]).
  pose proof (step_facts_hold p1 _ p2 Hok1 E2) as F.
  revert HI. apply never_pending_again.
  - apply (sf_ok _ _ _ F).
  - apply (sf_called _ _ _ F).
    unfold step in E2. destruct (label_time (LCancel x t) <? now p1); [discriminate|].
    unfold do_cancel in E2.
    destruct (was_called (with_now p1 (label_time (LCancel x t))) x) eqn:Ec; [|discriminate].
    apply was_called_In in Ec. exact Ec.
  - apply (sf_cancel _ _ _ F x t eq_refl).
Qed.

(* times along an accepted trace *)
Lemma run_times : forall tr p p', run p tr = Some p' ->
  now p <= now p' /\ forall l, In l tr -> now p <= label_time l <= now p'.
Proof.
  induction tr as [|l tr IH]; intros p p' Hr; cbn [run] in Hr.
  - injection Hr as <-. split; [lia|intros l []].
  - destruct (step p l) as [p1|] eqn:Es; [|discriminate].
    destruct (IH p1 p' Hr) as [A B].
    assert (T : now p <= label_time l /\ now p1 = label_time l).
    { unfold step in Es. destruct (label_time l <? now p) eqn:Ht; [discriminate|].
      apply Z.ltb_ge in Ht. split; [exact Ht|].
      set (q := with_now p (label_time l)) in *.
      assert (Hq : now q = label_time l) by reflexivity.
      destruct l as [x d tc nn t|x t|w t|w t|w t|w t]; cbn [label_time] in *.
      - destruct (tc >? t); [discriminate|]. unfold do_call in Es.
        destruct (was_called q x); [discriminate|].
        destruct nn; [|injection Es as <-; reflexivity].
        match type of Es with Some (if ?c then _ else _) = _ => destruct c end; injection Es as <-; reflexivity.
      - unfold do_cancel in Es. destruct (negb (was_called q x)); [discriminate|].
        destruct (idx (get (hs (hp q)) x) <? 0); [injection Es as <-; reflexivity|].
        match type of Es with Some (if ?c then _ else _) = _ => destruct c end; injection Es as <-; reflexivity.
      - destruct (pc_of q w) as [mis| | |]; try discriminate. injection Es as <-.
        unfold do_decide.
        destruct (f_len (hp q) =? 0); [destruct (mis >? 1); reflexivity|].
        destruct (t >? head_fire (hp q)).
        + destruct (heap_pop (hp q)) as [h1 y].
          match goal with |- now (with_pc (if ?c then _ else _) _ _) = _ => destruct c end; reflexivity.
        + destruct (watchers q >? 1); [destruct (mis >? 1)|]; reflexivity.
      - destruct (pc_of q w); try discriminate. destruct (t <? until); [discriminate|].
        injection Es as <-. reflexivity.
      - destruct (pc_of q w); try discriminate. destruct (tokens q >? 0); [|discriminate].
        injection Es as <-. reflexivity.
      - destruct (pc_of q w); try discriminate. injection Es as <-. reflexivity. }
    destruct T as [T1 T2]. split; [lia|].
    intros l' [<-|HI]; [lia|]. destruct (B l' HI). lia.
Qed.

Lemma trace_starts_times : forall tr p x t, In (x, t) (trace_starts p tr) ->
  exists l, In l tr /\ label_time l = t.
Proof.
  induction tr as [|l tr IH]; intros p x t HI; cbn [trace_starts] in HI; [destruct HI|].
  destruct (step p l) as [p'|]; [|destruct HI].
  destruct (starts p l).
  - destruct HI as [E|HI].
    + injection E as <- <-. exists l. split; [left; reflexivity|reflexivity].
    + destruct (IH _ _ _ HI) as [l' [A B]]. exists l'. split; [right; exact A|exact B].
  - destruct (IH _ _ _ HI) as [l' [A B]]. exists l'. split; [right; exact A|exact B].
Qed.

(* the timed form: a Cancel that happens no later than the fire time prevents the start *)
Theorem cancel_in_time : forall i m c k tr1 x t tr2 p d tc nn tl,
  run (init_pool i m c k) (tr1 ++ LCancel x t :: tr2) = Some p ->
  In (LCall x d tc nn tl) tr1 -> t <= tc + d ->
  ~ In x (map fst (trace_starts (init_pool i m c k) (tr1 ++ LCancel x t :: tr2))).
Proof.
  intros i m c k tr1 x t tr2 p d tc nn tl Hr Hcall Ht.
  eapply cancel_effective; [exact Hr|].
  set (p0 := init_pool i m c k) in *.
  pose proof Hr as Hr'. rewrite run_app in Hr'.
  destruct (run p0 tr1) as [p1|] eqn:E1; [|discriminate].
  cbn [run] in Hr'. destruct (step p1 (LCancel x t)) as [p2|] eqn:E2; [|discriminate].
  intros HI. apply in_map_iff in HI. destruct HI as [[y t'] [Ey HI]]. cbn [fst] in Ey. subst y.
  destruct (never_early i m c k tr1 p1 x t' E1 HI) as [d' [tc' [tl' [Hc' Hlt]]]].
  pose proof (call_unique_fire i m c k tr1 p1 x d tc nn tl d' tc' true tl' E1 Hcall Hc') as Heq.
  destruct (trace_starts_times _ _ _ _ HI) as [l [Hl Htl]].
  destruct (run_times tr1 p0 p1 E1) as [_ B]. destruct (B l Hl) as [_ Hle].
  assert (now p1 <= t).
  { unfold step in E2. destruct (label_time (LCancel x t) <? now p1) eqn:Hc; [discriminate|].
    apply Z.ltb_ge in Hc. exact Hc. }
  lia.
Qed.

(** ** Cancel is precise *)

Theorem cancel_precise : forall p x t p',
  pool_ok p -> step p (LCancel x t) = Some p' ->
  (forall y, y <> x -> (In y (pending p') <-> In y (pending p))) /\
  ~ In x (pending p') /\
  workers p' = workers p /\ watchers p' = watchers p /\ called p' = called p /\
  (forall y, fireT (get (hs (hp p')) y) = fireT (get (hs (hp p)) y)) /\
  (forall y, y <> x -> live (get (hs (hp p')) y) = live (get (hs (hp p)) y)) /\
  (~ In x (pending p) -> hp p' = hp p /\ tokens p' = tokens p).
Proof.
  intros p x t p' Hok Hs. unfold step in Hs.
  destruct (label_time (LCancel x t) <? now p); [discriminate|].
  set (q := with_now p (label_time (LCancel x t))) in *.
  destruct (do_cancel_facts q x p' (with_now_ok p _ Hok) Hs)
    as [Hc [Hok' [Hcl [Hw [Hwa [Hn [Hin [Hf [Hl Hnp]]]]]]]]].
  unfold pending. change (hp q) with (hp p) in *.
  split.
  { intros y Hy. rewrite Hin. split; [intros [A _]; exact A|intros A; split; assumption]. }
  split.
  { intros HI. apply Hin in HI. destruct HI as [_ HI]. congruence. }
  split; [exact Hw|]. split; [exact Hwa|]. split; [exact Hcl|].
  split; [exact Hf|]. split; [exact Hl|exact Hnp].
Qed.

Lemma pool_ok_reachable : forall (i m c k : Z) (tr : list label) (p : pool),
  run (init_pool i m c k) tr = Some p -> pool_ok p.
Proof. intros i m c k tr p H. eapply run_ok; [apply pool_ok_init|exact H]. Qed.
