(** C10, layer L2 <-> specification, part 3: the simulation relation [R2]
    between a chain and an abstract map, and the lemmas about its components
    ([vals_from], parked counts [cnt], the body/last decomposition). *)
From Coq Require Import List ZArith Arith Bool Lia.
From GL Require Import lib.IMapBase model.Chain spec.OMap
  proofs.C10_Assoc proofs.C10_Cells proofs.C10_Next.
Import ListNotations.
Open Scope Z_scope.

(** * Parked counts *)

Definition cnt (its : list (Z * nat)) (j : nat) : Z :=
  Z.of_nat (length (filter (fun p => Nat.eqb (snd p) j) its)).

Lemma cnt_nonneg its j : 0 <= cnt its j.
Proof. unfold cnt. lia. Qed.

Lemma cnt_cons i s its j : cnt ((i, s) :: its) j = bump (cnt its) s 1 j.
Proof.
  unfold cnt, bump. cbn [filter snd]. rewrite (Nat.eqb_sym j s).
  destruct (Nat.eqb s j); cbn [length]; lia.
Qed.

Lemma cnt_in i s its : In (i, s) its -> 1 <= cnt its s.
Proof.
  unfold cnt. induction its as [|[i' s'] t IH]; cbn [In filter snd]; [tauto|].
  intros [[= -> ->]|H].
  - rewrite Nat.eqb_refl. cbn [length]. lia.
  - specialize (IH H). destruct (Nat.eqb s' s); cbn [length]; lia.
Qed.

Lemma cnt_aremove i s its j :
  NoDup (map fst its) -> alookup i its = Some s -> cnt (aremove i its) j = bump (cnt its) s (-1) j.
Proof.
  unfold cnt, bump. induction its as [|[i' s'] t IH]; cbn [alookup]; [discriminate|].
  intros Hnd H. cbn [map fst] in Hnd. inversion Hnd as [|? ? Hni Hnd']; subst.
  cbn [aremove filter fst snd]. destruct (Z.eqb_spec i' i) as [->|Hne]; cbn [negb].
  - injection H as ->. fold (aremove i t). rewrite aremove_notin by exact Hni.
    rewrite (Nat.eqb_sym j s). destruct (Nat.eqb s j); cbn [length]; lia.
  - cbn [filter snd]. fold (aremove i t). specialize (IH Hnd' H).
    destruct (Nat.eqb s' j); cbn [length]; destruct (Nat.eqb j s); lia.
Qed.

Lemma cnt_aset i s s' its j :
  NoDup (map fst its) -> alookup i its = Some s -> cnt (aset i s' its) j = move (cnt its) s s' j.
Proof.
  unfold cnt, move, bump. induction its as [|[i' s0] t IH]; cbn [alookup]; [discriminate|].
  intros Hnd H. cbn [map fst] in Hnd. inversion Hnd as [|? ? Hni Hnd']; subst.
  cbn [aset map fst]. destruct (Z.eqb_spec i' i) as [->|Hne].
  - injection H as ->. fold (aset i s' t). rewrite aset_notin by exact Hni.
    cbn [filter snd]. rewrite (Nat.eqb_sym j s'), (Nat.eqb_sym j s).
    destruct (Nat.eqb s' j), (Nat.eqb s j); cbn [length]; lia.
  - fold (aset i s' t). cbn [filter snd]. specialize (IH Hnd' H).
    destruct (Nat.eqb s0 j); cbn [length]; destruct (Nat.eqb j s'), (Nat.eqb j s); lia.
Qed.

Lemma cnt_zero its j : (forall i s, In (i, s) its -> s <> j) -> cnt its j = 0.
Proof.
  unfold cnt. induction its as [|[i' s'] t IH]; intros H; [reflexivity|]. cbn [filter snd].
  destruct (Nat.eqb_spec s' j) as [->|Hne].
  - exfalso. apply (H i' j); [left; reflexivity|reflexivity].
  - apply IH. intros i s Hin. apply (H i s). right. exact Hin.
Qed.

(** * Body / last decomposition of [cells_from] *)

Fixpoint body_from (r : nat -> Z) (i : nat) (es : list entry) : list cell :=
  match es with
  | [] => []
  | e :: t => cell_at r i e ++ body_from r (S i) t
  end.

Lemma cells_from_body r es : forall i,
  cells_from r i es = body_from r i es ++ [last_cell r (i + length es)].
Proof.
  induction es as [|e t IH]; intros i; cbn [cells_from body_from length app].
  - replace (i + 0)%nat with i by lia. reflexivity.
  - rewrite IH, <- app_assoc. replace (S i + length t)%nat with (i + S (length t))%nat by lia. reflexivity.
Qed.

Lemma body_from_stamps r es : forall i,
  Forall (fun c => (i <= c_stamp c < i + length es)%nat) (body_from r i es).
Proof.
  induction es as [|e t IH]; intros i; cbn [body_from length]; [constructor|].
  apply Forall_app. split.
  - eapply Forall_impl; [|apply cell_at_stamp]. cbn. intros c Hc. lia.
  - eapply Forall_impl; [|apply IH]. cbn. intros c Hc. lia.
Qed.

Lemma body_from_app r es1 es2 : forall i,
  body_from r i (es1 ++ es2) = body_from r i es1 ++ body_from r (i + length es1) es2.
Proof.
  induction es1 as [|e t IH]; intros i; cbn [app body_from length].
  - replace (i + 0)%nat with i by lia. reflexivity.
  - rewrite IH, <- app_assoc. replace (S i + length t)%nat with (i + S (length t))%nat by lia. reflexivity.
Qed.

Lemma clast_app l c : clast (l ++ [c]) = Ok c.
Proof.
  unfold clast. rewrite map_app. cbn [map]. rewrite last_last. reflexivity.
Qed.

Lemma cells_from_ref r es : forall i, Forall (fun c => c_ref c = r (c_stamp c)) (cells_from r i es).
Proof.
  induction es as [|e t IH]; intros i; cbn [cells_from].
  - repeat constructor.
  - apply Forall_app. split; [|apply IH]. unfold cell_at.
    destruct (e_live e); [repeat constructor|]. destruct (0 <? r i); repeat constructor.
Qed.

(** * The Go map [vals] as a function of the entries *)

Fixpoint vals_from (i : nat) (es : list entry) : list (Z * nat) :=
  match es with
  | [] => []
  | e :: t => (if e_live e then [(e_key e, i)] else []) ++ vals_from (S i) t
  end.

Lemma vals_from_app es1 es2 : forall i,
  vals_from i (es1 ++ es2) = vals_from i es1 ++ vals_from (i + length es1) es2.
Proof.
  induction es1 as [|e t IH]; intros i; cbn [app vals_from length].
  - replace (i + 0)%nat with i by lia. reflexivity.
  - rewrite IH, <- app_assoc. replace (S i + length t)%nat with (i + S (length t))%nat by lia. reflexivity.
Qed.

Lemma vals_from_length es : forall i, length (vals_from i es) = o_len es.
Proof.
  unfold o_len. induction es as [|e t IH]; intros i; cbn [vals_from filter]; [reflexivity|].
  rewrite app_length, IH. destruct (e_live e); reflexivity.
Qed.

Lemma vals_from_in es : forall i k s,
  In (k, s) (vals_from i es) <->
  (i <= s)%nat /\ exists e, nth_error es (s - i) = Some e /\ e_live e = true /\ e_key e = k.
Proof.
  induction es as [|e t IH]; intros i k s; cbn [vals_from].
  - split; [intros []|]. intros (_ & e & He & _). destruct (s - i)%nat; discriminate.
  - rewrite in_app_iff, IH. split.
    + intros [H|(Hi & e' & He' & Hl & Hk)].
      * destruct (e_live e) eqn:El; [|destruct H]. destruct H as [[= <- <-]|[]].
        split; [lia|]. exists e. rewrite Nat.sub_diag. auto.
      * split; [lia|]. exists e'. replace (s - i)%nat with (S (s - S i)) by lia. auto.
    + intros (Hi & e' & He' & Hl & Hk). destruct (Nat.eq_dec s i) as [->|Hne].
      * rewrite Nat.sub_diag in He'. injection He' as <-. left. rewrite Hl. left. congruence.
      * right. split; [lia|]. exists e'. replace (s - i)%nat with (S (s - S i)) in He' by lia. auto.
Qed.

Lemma live_with_iff k e : live_with k e = true <-> e_live e = true /\ e_key e = k.
Proof. unfold live_with. rewrite andb_true_iff, Z.eqb_eq. tauto. Qed.

(* filtering a key out of [vals] = killing it in the entries *)
Lemma vals_from_kill k es : forall i,
  aremove k (vals_from i es) = vals_from i (map (kill k) es).
Proof.
  unfold aremove. induction es as [|e t IH]; intros i; cbn [vals_from map]; [reflexivity|].
  rewrite filter_app, IH. f_equal. unfold kill, live_with.
  destruct (e_live e) eqn:El; cbn [andb].
  - cbn [filter fst]. destruct (Z.eqb_spec (e_key e) k); cbn [negb e_live]; [reflexivity|]. rewrite El. reflexivity.
  - rewrite El. reflexivity.
Qed.

Lemma nodup_fst_filter {V} (p : Z * V -> bool) (l : list (Z * V)) :
  NoDup (map fst l) -> NoDup (map fst (filter p l)).
Proof.
  induction l as [|x t IH]; cbn [map filter]; [auto|]. intros H. inversion H as [|? ? Hni Hnd]; subst.
  destruct (p x); cbn [map]; [|auto]. constructor; [|auto].
  intros Hin. apply Hni. apply in_map_iff in Hin. destruct Hin as (y & Hy & Hin).
  apply filter_In in Hin. rewrite <- Hy. apply in_map. tauto.
Qed.

Lemma kill_length k es : length (map (kill k) es) = length es.
Proof. apply map_length. Qed.

Lemma kill_live k e : e_live (kill k e) = true -> e_live e = true.
Proof. unfold kill. destruct (live_with k e) eqn:E; cbn; [discriminate|auto]. Qed.

Lemma kill_none k es : (forall e, In e es -> live_with k e = false) -> map (kill k) es = es.
Proof.
  intros H. rewrite <- (map_id es) at 2. apply map_ext_in. intros e He. unfold kill. rewrite (H e He). reflexivity.
Qed.

(** * The relation *)

Definition irel (es : list entry) (s p : nat) : Prop :=
  (p <= s <= length es)%nat /\ dead_range es p s.

Record R2 (c : chain) (o : omap) : Prop := mkR2 {
  r2_cells : cells c = cells_from (cnt (citers c)) 0 (entries o);
  r2_vals : cvals c = rev (vals_from 0 (entries o));
  r2_nodup : NoDup (map fst (vals_from 0 (entries o)));
  r2_names : NoDup (map fst (citers c));
  r2_iters : trel (irel (entries o)) (citers c) (opos o)
}.

Lemma R2_init : R2 c_new o_new.
Proof. constructor; cbn; try constructor. Qed.

Lemma irel_stamp_le es its ops i s :
  trel (irel es) its ops -> In (i, s) its -> (s <= length es)%nat.
Proof.
  induction 1 as [|[ka va] [kb vb] ta tb [H HR] _ IH]; cbn [In]; [tauto|].
  intros [[= -> ->]|Hin]; [destruct HR as [HR _]; cbn in HR; lia|auto].
Qed.
