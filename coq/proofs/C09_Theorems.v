(** C09: the safety and no-lost-wake-up theorems read off the inductive
    invariant (proofs/C09_Invariants.v). *)
From Coq Require Import List ZArith NArith Arith Bool Lia Permutation.
From GL Require Import spec.LRU model.ECache model.ECacheConc
                       proofs.C08_ECache proofs.C08_LRU proofs.C09_Invariants.
Import ListNotations.

Section Theorems.
Context {PK K V : Type}.
Context (keqb : K -> K -> bool).
Context (keqb_spec : forall a b, reflect (a = b) (keqb a b)).
Context (kmap : PK -> K).

Notation state := (cstate PK K V).
Notation reach := (reachable keqb kmap).

(* the values resident in the cache *)
Definition resident_values (s : state) : list (PK * V) :=
  map (fun e : ent K (PK * V) => e_val e) (om_ents (cs_items s)).

Lemma resident_values_abs : forall s : state, resident (resident_of s) = resident_values s.
Proof.
  intros s. unfold resident, resident_of, om_abs, abs_ents, resident_values.
  rewrite map_map. reflexivity.
Qed.

(* at most one thread is creating (or about to insert) a value for one key *)
Theorem single_flight : forall cap (s : state), reach cap s ->
  forall t1 t2 pk1 ch1 pk2 ch2,
    owner_of (cs_pc s t1) = Some (pk1, ch1) -> owner_of (cs_pc s t2) = Some (pk2, ch2) ->
    kmap pk1 = kmap pk2 -> t1 = t2.
Proof.
  intros cap s Hr. apply (ci_single _ _ _ _ _ (inv_ctl _ _ _ _ (reachable_inv keqb keqb_spec kmap cap s Hr))).
Qed.

(* the in-flight table is exactly the set of creations in progress: one entry per
   key, each entry has an owner, every owner is registered *)
Theorem inflight_table_exact : forall cap (s : state), reach cap s ->
  NoDup (map fst (cs_inflight s)) /\
  (forall t pk ch, owner_of (cs_pc s t) = Some (pk, ch) -> In (kmap pk, ch) (cs_inflight s)) /\
  (forall k ch, In (k, ch) (cs_inflight s) ->
     exists t pk, owner_of (cs_pc s t) = Some (pk, ch) /\ kmap pk = k).
Proof.
  intros cap s Hr.
  destruct (inv_ctl _ _ _ _ (reachable_inv keqb keqb_spec kmap cap s Hr)) as [H1 H2 H3 H4 H5 H6 H7 H8].
  auto.
Qed.

Theorem inflight_not_resident : forall cap (s : state), reach cap s ->
  (forall k ch, In (k, ch) (cs_inflight s) -> om_get keqb (cs_items s) k = None) /\
  (forall t pk ch, owner_of (cs_pc s t) = Some (pk, ch) -> om_get keqb (cs_items s) (kmap pk) = None).
Proof.
  intros cap s Hr. pose proof (reachable_inv keqb keqb_spec kmap cap s Hr) as Hi.
  assert (H : forall k ch, In (k, ch) (cs_inflight s) -> om_get keqb (cs_items s) k = None).
  { intros k ch Hin. rewrite get_abs. eapply (inv_not_resident _ _ _ _ Hi). exact Hin. }
  split; [exact H|]. intros t pk ch Ho. eapply H.
  eapply (ci_owner_reg _ _ _ _ _ (inv_ctl _ _ _ _ Hi)). exact Ho.
Qed.

Theorem capacity_inv : forall cap (s : state), reach cap s ->
  cs_cap s = cap /\ om_len (cs_items s) <= cap.
Proof.
  intros cap s Hr. pose proof (reachable_inv keqb keqb_spec kmap cap s Hr) as Hi.
  split; [apply (inv_cap _ _ _ _ Hi)|]. rewrite len_abs. apply (inv_lru _ _ _ _ Hi).
Qed.

(* every successfully created value is exactly one of: deleted, resident, pending *)
Theorem accounting : forall cap (s : state), reach cap s ->
  Permutation (cs_created s) (cs_deleted s ++ resident_values s ++ pending s) /\
  (NoDup (cs_created s) ->
     NoDup (cs_deleted s) /\
     (forall x, In x (cs_deleted s) -> ~ In x (resident_values s) /\ ~ In x (pending s))).
Proof.
  intros cap s Hr. pose proof (reachable_inv keqb keqb_spec kmap cap s Hr) as Hi.
  pose proof (inv_account _ _ _ _ Hi) as Hp. rewrite resident_values_abs in Hp.
  split; [exact Hp|]. intros Hnd. pose proof (Permutation_NoDup Hp Hnd) as Hnd'.
  split; [apply (nodup_app_parts _ _ Hnd')|].
  intros x Hx. pose proof (nodup_app_disjoint _ _ x Hnd' Hx) as Hn.
  rewrite in_app_iff in Hn. tauto.
Qed.

Lemma pending_nil : forall s : state,
  (forall t, pending_of (cs_pc s t) = []) -> pending s = [].
Proof.
  intros s H. unfold pending. induction (cs_threads s) as [|a r IH]; cbn [flat_map]; [reflexivity|].
  rewrite H, IH. reflexivity.
Qed.

(* after a Clear, if no successfully created value is waiting to be inserted,
   every created value has been passed to the delete callback, exactly once *)
Theorem cleared_balanced : forall cap (s : state) t s' ev, reach cap s ->
  step keqb kmap s (LSecClear t) = Some (s', ev) ->
  (forall t0, pending_of (cs_pc s' t0) = []) ->
  Permutation (cs_created s') (cs_deleted s') /\
  (NoDup (cs_created s') -> NoDup (cs_deleted s')).
Proof.
  intros cap s t s' ev Hr Hs Hp.
  assert (Hr' : reach cap s') by (eapply reach_step; eassumption).
  destruct (accounting cap s' Hr') as [Hacc _].
  assert (Hres : resident_values s' = []).
  { pose proof (reachable_inv keqb keqb_spec kmap cap s Hr) as Hi.
    unfold step in Hs. destruct (cs_pc s t) as [|[| |]| | | |]; try discriminate Hs.
    destruct (sec_clear keqb (cs_items s)) as [[[it' n] d] oof] eqn:Hc.
    destruct (clear_facts_c keqb keqb_spec cap (cs_items s) it' n d oof (inv_wf _ _ _ _ Hi) Hc)
      as [-> [_ [_ [Hempty _]]]].
    injection Hs as <- _. unfold resident_values. cbn [cs_items].
    unfold om_abs, abs_ents in Hempty. destruct (om_ents it'); [reflexivity|discriminate Hempty]. }
  rewrite Hres, (pending_nil s' Hp) in Hacc. cbn [app] in Hacc. rewrite app_nil_r in Hacc.
  split; [exact Hacc|]. intros Hnd. eapply Permutation_NoDup; eassumption.
Qed.

(** ** no lost wake-up, progress *)

(* [can_move] is exactly "some step of the thread is enabled" *)
Theorem can_move_enabled : forall cap (s : state) t, reach cap s ->
  can_move s t = true ->
  exists l s' ev, step keqb kmap s l = Some (s', ev) /\
    l = match cs_pc s t with
        | PPend (CGet _) => LSecA t
        | PPend (CRemove _) => LSecRemove t
        | PPend CClear => LSecClear t
        | PWait _ _ => LWake t
        | PInB _ _ _ => LSecB t
        | _ => LReturn t
        end.
Proof.
  intros cap s t Hr Hc. pose proof (reachable_inv keqb keqb_spec kmap cap s Hr) as Hi.
  unfold can_move in Hc.
  destruct (cs_pc s t) as [|[pk|pk|]|pk ch|pk ch|pk ch res|r] eqn:Hpc; try discriminate Hc.
  - exists (LSecA t). unfold step. rewrite Hpc.
    destruct (sec_lookup keqb kmap (cs_items s) pk) as [[v it']|];
      [eexists _, _; split; reflexivity|].
    destruct (inflight_get keqb (kmap pk) (cs_inflight s)); eexists _, _; split; reflexivity.
  - exists (LSecRemove t). unfold step. rewrite Hpc.
    destruct (sec_remove keqb kmap (cs_items s) pk) as [[it' b] d]. eexists _, _; split; reflexivity.
  - destruct (sec_clear keqb (cs_items s)) as [[[it' n] d] oof] eqn:Hcl.
    destruct (clear_facts_c keqb keqb_spec cap (cs_items s) it' n d oof (inv_wf _ _ _ _ Hi) Hcl) as [-> _].
    exists (LSecClear t). unfold step. rewrite Hpc, Hcl. eexists _, _; split; reflexivity.
  - exists (LWake t). unfold step. rewrite Hpc, Hc. eexists _, _; split; reflexivity.
  - exists (LSecB t). unfold step. rewrite Hpc. destruct res as [v|].
    + destruct (sec_insert keqb kmap (cs_cap s) (cs_items s) pk v) as [it' d].
      eexists _, _; split; reflexivity.
    + eexists _, _; split; reflexivity.
  - exists (LReturn t). unfold step. rewrite Hpc. eexists _, _; split; reflexivity.
Qed.

(* a thread parked on a channel either can wake up (the channel is closed) or the
   channel's owner is still creating / about to run its second section - which
   it can always do, and which closes the channel *)
Theorem waiters_covered : forall cap (s : state) t pk ch, reach cap s ->
  cs_pc s t = PWait pk ch ->
  can_move s t = true \/
  exists t' pk', owner_of (cs_pc s t') = Some (pk', ch) /\ kmap pk' = kmap pk /\
    ((exists res, cs_pc s t' = PInB pk' ch res /\
        exists s' ev, step keqb kmap s (LSecB t') = Some (s', ev) /\ chan_closed s' ch = true)
     \/ (cs_pc s t' = PCreating pk' ch /\
         forall res, exists s' ev, step keqb kmap s (LCreateRet t' res) = Some (s', ev))).
Proof.
  intros cap s t pk ch Hr Hpc. pose proof (reachable_inv keqb keqb_spec kmap cap s Hr) as Hi.
  destruct (ci_wait _ _ _ _ _ (inv_ctl _ _ _ _ Hi) _ _ _ Hpc) as [Hc|Hin].
  - left. unfold can_move. rewrite Hpc. apply chan_closed_in. exact Hc.
  - right. destruct (ci_reg_owner _ _ _ _ _ (inv_ctl _ _ _ _ Hi) _ _ Hin) as [t' [pk' [Ho Hk]]].
    exists t', pk'. split; [exact Ho|]. split; [exact Hk|].
    destruct (cs_pc s t') as [| | |pk0 ch0|pk0 ch0 res|] eqn:Hpc'; try discriminate Ho;
      cbn [owner_of] in Ho; injection Ho as -> ->.
    + right. split; [reflexivity|]. intros res. unfold step. rewrite Hpc'. eexists _, _. reflexivity.
    + left. exists res. split; [reflexivity|]. unfold step. rewrite Hpc'. destruct res as [v|].
      * destruct (sec_insert keqb kmap (cs_cap s) (cs_items s) pk' v) as [it' d].
        eexists _, _. split; [reflexivity|]. unfold chan_closed. cbn [cs_closed existsb].
        rewrite Nat.eqb_refl. reflexivity.
      * eexists _, _. split; [reflexivity|]. unfold chan_closed. cbn [cs_closed existsb].
        rewrite Nat.eqb_refl. reflexivity.
Qed.

End Theorems.
