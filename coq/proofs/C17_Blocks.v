(** C17, part 5: the allocator model refines the set specification; the
    headline lemmas (stated in Properties/C17.v). *)
From Coq Require Import List ZArith NArith Bool Lia.
From GL Require Import model.Blocks model.legacy.BlocksLegacy spec.AllocSet
  proofs.C17_Bytes proofs.C17_Geometry proofs.C17_Count proofs.C17_Inv proofs.C17_Grow.
Import ListNotations.
Open Scope Z_scope.

(** * The abstraction *)

Lemma count_abs : forall page fit b, inv page fit b ->
  sp_count (abs b) = blocks_count b /\ blocks_count b = segments b * (8 * blkSize b) /\ 0 < blocks_count b.
Proof.
  intros page fit b I. unfold sp_count, abs, blocks_count. cbn [sp_segs sp_bs].
  rewrite (inv_bis _ _ _ I). pose proof (inv_bs_pos _ _ _ I). pose proof (inv_segs _ _ _ I).
  split; [reflexivity|]. split; [reflexivity|]. nia.
Qed.

Lemma card_abs : forall page fit b, inv page fit b ->
  as_card (alloc_list b) = blocks_count b - available b.
Proof.
  intros page fit b I. destruct (count_abs _ _ _ I) as [_ [Hc _]].
  unfold as_card, alloc_list. rewrite alloc_count.
  - rewrite Hc, (inv_avail _ _ _ I). reflexivity.
  - exact (inv_bs_pos _ _ _ I).
  - pose proof (inv_segs _ _ _ I). lia.
Qed.

Lemma available_range : forall page fit b, inv page fit b -> 0 <= available b <= blocks_count b.
Proof.
  intros page fit b I. destruct (count_abs _ _ _ I) as [_ [Hc _]].
  rewrite (inv_avail _ _ _ I), Hc. unfold free_count.
  pose proof (sum_segs_nonneg (Z.to_nat (segments b)) (bts b) (blkSize b) 0 (inv_bs_pos _ _ _ I)) as H.
  pose proof (inv_segs _ _ _ I). rewrite Z2Nat.id in H by lia. lia.
Qed.

Lemma mem_abs : forall page fit b i, inv page fit b -> 0 <= i < blocks_count b ->
  as_mem i (alloc_list b) = is_alloc b i.
Proof.
  intros page fit b i I Hi. destruct (count_abs _ _ _ I) as [_ [Hc _]].
  unfold alloc_list, alloc_of_bytes. rewrite as_mem_filter.
  rewrite Hc in Hi. rewrite Z2Nat.id by lia.
  destruct (Z.leb_spec 0 i); [|lia]. destruct (Z.ltb_spec i (0 + segments b * (8 * blkSize b))); [|lia].
  reflexivity.
Qed.

Lemma alloc_list_add : forall page fit b b' i, inv page fit b ->
  blkSize b' = blkSize b -> segments b' = segments b ->
  0 <= i < blocks_count b -> is_alloc b i = false ->
  (forall k, 0 <= k -> is_alloc b' k = if k =? i then true else is_alloc b k) ->
  alloc_list b' = as_add i (alloc_list b).
Proof.
  intros page fit b b' i I Hbs Hsegs Hi Hf Hg. destruct (count_abs _ _ _ I) as [_ [Hc _]].
  unfold alloc_list, alloc_of_bytes. rewrite Hbs, Hsegs. rewrite Hc in Hi.
  apply as_add_filter.
  - rewrite Z2Nat.id by lia. lia.
  - exact Hf.
  - pose proof (Hg i ltac:(lia)) as H. rewrite Z.eqb_refl in H. unfold is_alloc in H. rewrite Hbs in H. exact H.
  - intros x Hx Hne. pose proof (Hg x ltac:(lia)) as H.
    destruct (Z.eqb_spec x i); [contradiction|]. unfold is_alloc in H. rewrite Hbs in H. exact H.
Qed.

Lemma alloc_list_remove : forall page fit b b' i, inv page fit b ->
  blkSize b' = blkSize b -> segments b' = segments b ->
  0 <= i < blocks_count b -> is_alloc b i = true ->
  (forall k, 0 <= k -> is_alloc b' k = if k =? i then false else is_alloc b k) ->
  alloc_list b' = as_remove i (alloc_list b).
Proof.
  intros page fit b b' i I Hbs Hsegs Hi Hf Hg. destruct (count_abs _ _ _ I) as [_ [Hc _]].
  unfold alloc_list, alloc_of_bytes. rewrite Hbs, Hsegs. rewrite Hc in Hi.
  apply as_remove_filter.
  - rewrite Z2Nat.id by lia. lia.
  - exact Hf.
  - pose proof (Hg i ltac:(lia)) as H. rewrite Z.eqb_refl in H. unfold is_alloc in H. rewrite Hbs in H. exact H.
  - intros x Hx Hne. pose proof (Hg x ltac:(lia)) as H.
    destruct (Z.eqb_spec x i); [contradiction|]. unfold is_alloc in H. rewrite Hbs in H. exact H.
Qed.

Lemma lowest_free_abs : forall page fit b i, inv page fit b ->
  0 <= i < blocks_count b -> is_alloc b i = false -> (forall k, 0 <= k < i -> is_alloc b k = true) ->
  lowest_free 0 (alloc_list b) = i.
Proof.
  intros page fit b i I Hi Hf Hlow. destruct (count_abs _ _ _ I) as [_ [Hc _]].
  unfold alloc_list, alloc_of_bytes. rewrite Hc in Hi. apply lowest_free_filter.
  - rewrite Z2Nat.id by lia. lia.
  - exact Hf.
  - exact Hlow.
Qed.

(** * One step *)

Lemma step_refines : forall page fit b o, inv page fit b ->
  inv page fit (fst (step page fit b o)) /\
  sp_step fit (abs b) o = (abs (fst (step page fit b o)), snd (step page fit b o)).
Proof.
  intros page fit b o I.
  pose proof (inv_bs_pos _ _ _ I) as Hbs. pose proof (inv_bis _ _ _ I) as Hbis.
  destruct (count_abs _ _ _ I) as [Hsc [Hc Hcpos]].
  destruct o as [|idx|idx|idx v|idx k v| | | | |n]; cbn [step sp_step];
    change (sp_alloc (abs b)) with (alloc_list b).
  - (* ArrangeBlock *)
    destruct (arrange_spec _ _ _ I) as [[s1 [p1 [j [Hs1 [Hp1 [Hbefore [Hn [Hj Hres]]]]]]]]|[f' [Hf0 [Hf [Hall Hres]]]]];
      cbv zeta in *; rewrite Hres; cbn [fst snd].
    + destruct (arranged_inv_abs _ _ _ s1 p1 j I Hs1 Hp1 Hbefore Hj) as [I' [Hi [Hfree [Hlow [Hflip Hav]]]]].
      cbv zeta in *. fold (idx_of (blkSize b) s1 p1 j). set (i := idx_of (blkSize b) s1 p1 j) in *.
      split; [exact I'|].
      pose proof (available_range _ _ _ I') as Hr'. rewrite Hav in Hr'.
      rewrite (card_abs _ _ _ I), Hsc.
      destruct (Z.eqb_spec (blocks_count b - available b) (blocks_count b)) as [?|_]; [lia|].
      cbn [abs sp_alloc]. rewrite (lowest_free_abs _ _ _ i I Hi Hfree Hlow).
      unfold sp_with, abs. cbn [sp_bs sp_segs sp_alloc sp_size sp_hidden].
      rewrite (alloc_list_add _ _ b (arranged b s1 p1 j) i I) by (try reflexivity; assumption).
      rewrite (hidden_list_flip _ _ b (arranged b s1 p1 j) i true I) by (try reflexivity; assumption).
      reflexivity.
    + destruct (with_free_inv_abs _ _ _ f' I Hf0 Hf Hall) as [I' Habs].
      split; [exact I'|]. rewrite Habs.
      rewrite (card_abs _ _ _ I), Hsc.
      assert (Hav : available b = 0).
      { rewrite (inv_avail _ _ _ I). unfold free_count. apply sum_segs_zero; [exact Hbs|].
        intros s' p' Hs' Hp'. apply Hall; [|exact Hp']. pose proof (inv_segs _ _ _ I).
        rewrite Z2Nat.id in Hs' by lia. lia. }
      rewrite Hav, Z.sub_0_r, Z.eqb_refl. reflexivity.
  - (* FreeBlock *)
    rewrite (free_spec _ _ _ idx I). unfold sp_valid. rewrite Hsc.
    destruct (Z.leb_spec 0 idx) as [Hge|Hneg]; cbn [andb negb fst snd].
    2:{ split; [exact I|reflexivity]. }
    destruct (Z.ltb_spec idx (blocks_count b)) as [Hlt|Hnlt]; cbn [negb fst snd].
    2:{ split; [exact I|reflexivity]. }
    cbn [abs sp_alloc]. rewrite (mem_abs _ _ _ idx I) by lia.
    destruct (is_alloc b idx) eqn:Hal; cbn [fst snd].
    + destruct (freed_inv_abs _ _ _ idx I ltac:(lia) Hal) as [I' [Hflip Hav]].
      split; [exact I'|].
      unfold sp_with, abs. cbn [sp_bs sp_segs sp_alloc sp_size sp_hidden].
      rewrite (alloc_list_remove _ _ b (freed b idx) idx I) by (try reflexivity; try assumption; lia).
      rewrite (hidden_list_flip _ _ b (freed b idx) idx false I) by (try reflexivity; try assumption; lia).
      reflexivity.
    + split; [exact I|reflexivity].
  - (* Block *)
    cbn [fst snd]. split; [exact I|].
    rewrite (block_spec _ _ _ idx I). unfold sp_valid. rewrite Hsc.
    destruct ((0 <=? idx) && (idx <? blocks_count b)); reflexivity.
  - (* filling a block *)
    unfold write_block. rewrite (block_spec _ _ _ idx I). unfold sp_valid. rewrite Hsc.
    destruct (Z.leb_spec 0 idx) as [Hge|Hneg]; cbn [andb fst snd].
    2:{ split; [exact I|reflexivity]. }
    destruct (Z.ltb_spec idx (blocks_count b)) as [Hlt|Hnlt]; cbn [fst snd].
    2:{ split; [exact I|reflexivity]. }
    destruct (data_write_inv _ _ b (fill (Z.to_nat (blkSize b)) (bts b) (boff (blkSize b) idx) v) I)
      as [I' Habs].
    + apply bsize_fill.
    + intros n0. apply fill_same_headers; assumption.
    + split; [exact I'|]. unfold with_bts in Habs. rewrite Habs. reflexivity.
  - (* writing one byte of a block *)
    unfold poke_block. rewrite (block_spec _ _ _ idx I). unfold sp_valid. rewrite Hsc.
    destruct (Z.leb_spec 0 idx) as [Hge|Hneg]; cbn [andb fst snd].
    2:{ split; [exact I|reflexivity]. }
    destruct (Z.ltb_spec idx (blocks_count b)) as [Hlt|Hnlt]; cbn [fst snd].
    2:{ split; [exact I|reflexivity]. }
    cbn [abs sp_bs].
    destruct (Z.ltb_spec k 0) as [Hk0|Hk0]; cbn [orb fst snd].
    { split; [exact I|reflexivity]. }
    destruct (Z.leb_spec (blkSize b) k) as [Hk1|Hk1]; cbn [fst snd].
    { split; [exact I|reflexivity]. }
    destruct (data_write_inv _ _ b (bset (bts b) (boff (blkSize b) idx + k) v) I) as [I' Habs].
    + apply bsize_bset.
    + intros n0. apply bset_same_headers; try assumption; lia.
    + split; [exact I'|]. unfold with_bts in Habs. rewrite Habs. reflexivity.
  - (* reopening: NewBlocks on the storage as it is now *)
    pose proof (ssz_pos _ Hbs) as Hss. pose proof (inv_segs _ _ _ I) as Hsegs.
    pose proof (inv_segs_fit _ _ _ I) as Hfit.
    assert (Hsz : ssz (blkSize b) <= bsize (bts b)) by nia.
    unfold sp_reopen. change (sp_ssz (abs b)) with (ssz (blkSize b)).
    change (sp_size (abs b)) with (bsize (bts b)). change (sp_bs (abs b)) with (blkSize b).
    change (sp_hidden (abs b)) with (hidden_list b).
    destruct (new_blocks_spec page (blkSize b) (bts b) fit (inv_page _ _ _ I) ltac:(lia))
      as [[Hv [_ [Hf E]]]|[Hbad E]]; rewrite E; cbn [fst snd].
    + assert (Hfc : fit && negb (bsize (bts b) mod ssz (blkSize b) =? 0) = false).
      { destruct fit; [|reflexivity]. rewrite Hf by reflexivity. reflexivity. }
      rewrite Hfc. split; [apply opened_inv; [exact (inv_page _ _ _ I)|exact Hv|exact Hsz|exact Hf]|].
      destruct (reopen_split (blkSize b) (segments b) (bts b) Hbs ltac:(lia) Hfit) as [H1 H2].
      cbv zeta in H1, H2.
      unfold abs, opened, alloc_list, hidden_list. cbn [blkSize segments bts].
      rewrite H1, H2. reflexivity.
    + destruct Hbad as [Hn|[Hlt|[Hft Hm]]]; [exfalso; exact (Hn (inv_bs _ _ _ I))|lia|].
      subst fit. destruct (Z.eqb_spec (bsize (bts b) mod ssz (blkSize b)) 0) as [?|_]; [contradiction|].
      cbn [andb negb]. split; [exact I|reflexivity].
  - (* Available *)
    cbn [fst snd]. split; [exact I|]. rewrite Hsc. cbn [abs sp_alloc].
    rewrite (card_abs _ _ _ I). do 2 f_equal. lia.
  - (* Count *)
    cbn [fst snd]. split; [exact I|]. rewrite Hsc. reflexivity.
  - (* Segments *)
    cbn [fst snd]. split; [exact I|]. reflexivity.
  - (* Grow of the storage under the live allocator *)
    change (sp_size (abs b)) with (bsize (bts b)).
    destruct (Z.ltb_spec n (bsize (bts b))) as [Hlt|Hge]; cbn [fst snd].
    + split; [exact I|reflexivity].
    + destruct (grown_inv_abs _ _ b n I Hge) as [I' Habs]. unfold grown in I', Habs.
      split; [exact I'|]. rewrite Habs. reflexivity.
Qed.

(** * Sequences *)

Lemma run_refines : forall page fit ops b, inv page fit b ->
  fst (run page fit b ops) = fst (sp_run fit (abs b) ops) /\
  abs (snd (run page fit b ops)) = snd (sp_run fit (abs b) ops) /\
  inv page fit (snd (run page fit b ops)).
Proof.
  intros page fit. induction ops as [|o t IH]; intros b I; cbn [run sp_run].
  - cbn [fst snd]. auto.
  - destruct (step_refines page fit b o I) as [I' Hs].
    destruct (step page fit b o) as [b' x] eqn:Est. cbn [fst snd] in I', Hs. rewrite Hs.
    destruct (IH b' I') as [H1 [H2 H3]].
    destruct (run page fit b' t) as [xs bf]. destruct (sp_run fit (abs b') t) as [ys sf].
    cbn [fst snd] in *. subst. auto.
Qed.

(** * Reachable states *)

(** the states an allocator can be in: opened on some storage by NewBlocks, then
    any sequence of operations (ArrangeBlock, FreeBlock, Block, user writes into
    blocks, reopening, counters) *)
Definition reachable (page : Z) (fit : bool) (b : blocks) : Prop :=
  exists bs buf b0 ops,
    0 < page /\ 0 <= bsize buf /\ new_blocks page bs buf fit = CtorOk b0 /\
    b = snd (run page fit b0 ops).

Lemma new_blocks_inv : forall page bs buf fit b0,
  0 < page -> 0 <= bsize buf -> new_blocks page bs buf fit = CtorOk b0 ->
  b0 = opened bs buf /\ inv page fit b0.
Proof.
  intros page bs buf fit b0 Hp Hsz Hnew.
  destruct (new_blocks_spec page bs buf fit Hp Hsz) as [[Hv [Hs [Hf E]]]|[_ E]];
    rewrite E in Hnew; [|discriminate].
  injection Hnew as <-. split; [reflexivity|]. apply opened_inv; assumption.
Qed.

Lemma reachable_inv : forall page fit b, reachable page fit b -> inv page fit b.
Proof.
  intros page fit b [bs [buf [b0 [ops [Hp [Hsz [Hnew ->]]]]]]].
  destruct (new_blocks_inv _ _ _ _ _ Hp Hsz Hnew) as [_ I0].
  apply (run_refines page fit ops b0 I0).
Qed.

Lemma run_app : forall page fit ops1 ops2 b,
  snd (run page fit b (ops1 ++ ops2)) = snd (run page fit (snd (run page fit b ops1)) ops2).
Proof.
  intros page fit. induction ops1 as [|o t IH]; intros ops2 b; cbn [app run].
  - reflexivity.
  - destruct (step page fit b o) as [b' x]. specialize (IH ops2 b').
    destruct (run page fit b' (t ++ ops2)) as [xs bf].
    destruct (run page fit b' t) as [ys bm]. cbn [snd] in *. exact IH.
Qed.

Lemma reachable_run : forall page fit b ops,
  reachable page fit b -> reachable page fit (snd (run page fit b ops)).
Proof.
  intros page fit b ops [bs [buf [b0 [ops0 [Hp [Hsz [Hnew ->]]]]]]].
  exists bs, buf, b0, (ops0 ++ ops). repeat split; try assumption.
  symmetry. apply run_app.
Qed.

Lemma reachable_step : forall page fit b o,
  reachable page fit b -> reachable page fit (fst (step page fit b o)).
Proof.
  intros page fit b o R. pose proof (reachable_run page fit b [o] R) as H.
  cbn [run] in H. destruct (step page fit b o) as [b' x]. exact H.
Qed.

Lemma reachable_new : forall page bs buf fit b0,
  0 < page -> 0 <= bsize buf -> new_blocks page bs buf fit = CtorOk b0 -> reachable page fit b0.
Proof. intros page bs buf fit b0 Hp Hsz Hnew. exists bs, buf, b0, []. auto. Qed.

(** membership in the allocated set *)
Lemma in_alloc_list : forall page fit b i, inv page fit b ->
  (In i (alloc_list b) <-> 0 <= i < blocks_count b /\ is_alloc b i = true).
Proof.
  intros page fit b i I. destruct (count_abs _ _ _ I) as [_ [Hc Hpos]].
  unfold alloc_list, alloc_of_bytes. rewrite filter_In, in_zrange.
  rewrite Hc in *. rewrite Z2Nat.id by lia. unfold is_alloc. split; intros [H1 H2]; split; auto; lia.
Qed.

Lemma in_as_add : forall i l k, In k (as_add i l) <-> k = i \/ In k l.
Proof.
  intros i. induction l as [|x t IH]; intros k; cbn [as_add].
  - cbn [In]. split; intros [H|H]; auto.
  - destruct (Z.ltb_spec i x) as [Hlt|Hge].
    + cbn [In]. split; intros [H|H]; auto.
    + destruct (Z.eqb_spec i x) as [->|Hne].
      * cbn [In]. split; [auto|]. intros [->|H]; auto.
      * cbn [In]. rewrite IH. split; [intros [H|[H|H]]|intros [H|[H|H]]]; auto.
Qed.

(** * ArrangeBlock *)

Lemma arrange_outcome : forall page fit b, inv page fit b ->
  (exists i b', arrange b = (b', ArrIdx i) /\ inv page fit b' /\
      0 <= i < blocks_count b /\ is_alloc b i = false /\
      (forall k, 0 <= k < i -> is_alloc b k = true) /\
      (forall k, 0 <= k -> is_alloc b' k = if k =? i then true else is_alloc b k) /\
      available b' = available b - 1 /\ blkSize b' = blkSize b /\ segments b' = segments b /\
      blocks_count b' = blocks_count b)
  \/
  (exists b', arrange b = (b', ArrErr EExhausted) /\ inv page fit b' /\ abs b' = abs b /\
      available b = 0 /\ forall k, 0 <= k < blocks_count b -> is_alloc b k = true).
Proof.
  intros page fit b I. pose proof (inv_bs_pos _ _ _ I) as Hbs.
  destruct (arrange_spec _ _ _ I) as [[s1 [p1 [j [Hs1 [Hp1 [Hbefore [Hn [Hj Hres]]]]]]]]|[f' [Hf0 [Hf [Hall Hres]]]]];
    cbv zeta in *.
  - left. destruct (arranged_inv_abs _ _ _ s1 p1 j I Hs1 Hp1 Hbefore Hj) as [I' [Hi [Hfree [Hlow [Hflip Hav]]]]].
    cbv zeta in *. exists (idx_of (blkSize b) s1 p1 j), (arranged b s1 p1 j).
    split; [exact Hres|]. split; [exact I'|]. split; [exact Hi|]. split; [exact Hfree|].
    split; [exact Hlow|]. split; [exact Hflip|]. split; [exact Hav|].
    split; [reflexivity|]. split; reflexivity.
  - right. destruct (with_free_inv_abs _ _ _ f' I Hf0 Hf Hall) as [I' Habs].
    exists (with_free b f'). split; [exact Hres|]. split; [exact I'|]. split; [exact Habs|]. split.
    + rewrite (inv_avail _ _ _ I). unfold free_count. apply sum_segs_zero; [exact Hbs|].
      intros s' p' Hs' Hp'. apply Hall; [|exact Hp']. pose proof (inv_segs _ _ _ I).
      rewrite Z2Nat.id in Hs' by lia. lia.
    + intros k Hk. destruct (count_abs _ _ _ I) as [_ [Hc _]]. rewrite Hc in Hk.
      destruct (idx_decompose (blkSize b) k Hbs ltac:(lia)) as [E [Hsk [Hpk Hjk]]]. cbv zeta in E, Hsk, Hpk, Hjk.
      unfold is_alloc. rewrite E. rewrite is_alloc_bytes_at by assumption.
      rewrite Hall; try assumption.
      * rewrite (proj1 (byte_255_bits 255%N ltac:(reflexivity)) eq_refl) by lia. reflexivity.
      * split; [exact Hsk|]. apply idx_segment_lt; lia.
Qed.

(** the index handed out was not allocated; it is the least free one; it is the
    only change of the allocated set *)
Lemma arrange_fresh : forall page fit b b' i, reachable page fit b ->
  arrange b = (b', ArrIdx i) ->
  0 <= i < blocks_count b /\ ~ In i (alloc_list b) /\
  (forall k, 0 <= k < i -> In k (alloc_list b)) /\
  (forall k, In k (alloc_list b') <-> k = i \/ In k (alloc_list b)) /\
  alloc_list b' = as_add i (alloc_list b) /\
  available b' = available b - 1.
Proof.
  intros page fit b b' i R Harr. pose proof (reachable_inv _ _ _ R) as I.
  destruct (arrange_outcome _ _ _ I) as [[i0 [b0 [E [I' [Hi [Hfree [Hlow [Hflip [Hav [Hbs [Hsegs Hcnt]]]]]]]]]]]|[b0 [E _]]];
    rewrite E in Harr; [|discriminate].
  injection Harr as <- <-.
  assert (Hadd : alloc_list b0 = as_add i0 (alloc_list b)) by (apply (alloc_list_add page fit); assumption).
  split; [exact Hi|]. split.
  { rewrite (in_alloc_list _ _ _ i0 I). intros [_ H]. rewrite Hfree in H. discriminate. }
  split.
  { intros k Hk. apply (in_alloc_list _ _ _ k I). split; [lia|]. apply Hlow. exact Hk. }
  split; [|split; [exact Hadd|exact Hav]].
  intros k. rewrite Hadd. apply in_as_add.
Qed.

(** ArrangeBlock gives an index or ErrExhausted, nothing else; ErrExhausted iff
    every index is allocated iff Available() = 0 *)
Lemma arrange_exhausted_iff_full : forall page fit b, reachable page fit b ->
  ((exists i, snd (arrange b) = ArrIdx i) \/ snd (arrange b) = ArrErr EExhausted) /\
  (snd (arrange b) = ArrErr EExhausted <-> (forall k, 0 <= k < blocks_count b -> In k (alloc_list b))) /\
  (snd (arrange b) = ArrErr EExhausted <-> available b = 0).
Proof.
  intros page fit b R. pose proof (reachable_inv _ _ _ R) as I.
  destruct (arrange_outcome _ _ _ I) as [[i0 [b0 [E [I' [Hi [Hfree [Hlow [Hflip [Hav _]]]]]]]]]|[b0 [E [I' [Habs [Hav0 Hall]]]]]];
    rewrite E; cbn [snd].
  - split; [left; exists i0; reflexivity|]. split; split; intros H; try discriminate.
    + exfalso. specialize (H i0 Hi). apply (in_alloc_list _ _ _ i0 I) in H. destruct H as [_ H].
      rewrite Hfree in H. discriminate.
    + exfalso. pose proof (available_range _ _ _ I') as Hr. lia.
  - split; [right; reflexivity|]. split; split; intros _; try reflexivity.
    + intros k Hk. apply (in_alloc_list _ _ _ k I). split; [exact Hk|]. apply Hall. exact Hk.
    + exact Hav0.
Qed.

(** * FreeBlock *)

Lemma in_as_remove_filter : forall page fit b b' idx, inv page fit b -> inv page fit b' ->
  blocks_count b' = blocks_count b ->
  (forall k, 0 <= k -> is_alloc b' k = if k =? idx then false else is_alloc b k) ->
  forall k, In k (alloc_list b') <-> In k (alloc_list b) /\ k <> idx.
Proof.
  intros page fit b b' idx I I' Hcnt Hflip k.
  rewrite (in_alloc_list _ _ _ k I), (in_alloc_list _ _ _ k I'), Hcnt. split.
  - intros [Hr Ha]. rewrite Hflip in Ha by lia. destruct (Z.eqb_spec k idx); [discriminate|]. auto.
  - intros [[Hr Ha] Hne]. split; [exact Hr|]. rewrite Hflip by lia.
    destruct (Z.eqb_spec k idx); [contradiction|exact Ha].
Qed.

Lemma free_exact : forall page fit b idx, reachable page fit b ->
  (~ (0 <= idx < blocks_count b) -> free b idx = (b, FreeErr EInvalid)) /\
  (0 <= idx < blocks_count b -> ~ In idx (alloc_list b) -> free b idx = (b, FreeErr ENotExist)) /\
  (In idx (alloc_list b) ->
     exists b', free b idx = (b', FreeOk) /\
       (forall k, In k (alloc_list b') <-> In k (alloc_list b) /\ k <> idx) /\
       alloc_list b' = as_remove idx (alloc_list b) /\
       available b' = available b + 1).
Proof.
  intros page fit b idx R. pose proof (reachable_inv _ _ _ R) as I.
  rewrite (free_spec _ _ _ idx I). split; [|split].
  - intros Hout. destruct (Z.leb_spec 0 idx); destruct (Z.ltb_spec idx (blocks_count b)); cbn [andb negb];
      try reflexivity. lia.
  - intros Hin Hna. destruct (Z.leb_spec 0 idx); [|lia]. destruct (Z.ltb_spec idx (blocks_count b)); [|lia].
    cbn [andb negb]. destruct (is_alloc b idx) eqn:Hal; [|reflexivity].
    exfalso. apply Hna. apply (in_alloc_list _ _ _ idx I). auto.
  - intros Hin. apply (in_alloc_list _ _ _ idx I) in Hin. destruct Hin as [Hr Hal].
    destruct (Z.leb_spec 0 idx); [|lia]. destruct (Z.ltb_spec idx (blocks_count b)); [|lia].
    cbn [andb negb]. rewrite Hal.
    destruct (freed_inv_abs _ _ _ idx I Hr Hal) as [I' [Hflip Hav]].
    exists (freed b idx). split; [reflexivity|]. split; [|split; [|exact Hav]].
    + apply (in_as_remove_filter page fit b (freed b idx) idx I I'); [|exact Hflip].
      unfold blocks_count, freed. reflexivity.
    + apply (alloc_list_remove page fit); try assumption; reflexivity.
Qed.

(** * Available *)

Lemma available_eq : forall page fit b, reachable page fit b ->
  available b = blocks_count b - Z.of_nat (length (alloc_list b)).
Proof.
  intros page fit b R. pose proof (card_abs _ _ _ (reachable_inv _ _ _ R)) as H.
  unfold as_card in H. lia.
Qed.

(** the invariant the proofs rest on, for every reachable state *)
Lemma reachable_invariant : forall page fit b, reachable page fit b ->
  let bs := blkSize b in
  valid_bs page bs /\ blksInSegm b = 8 * bs /\ 1 <= segments b /\
  segments b * ssz bs <= bsize (bts b) /\
  0 <= freeIdx b /\
  (segments b * ssz bs <= freeIdx b \/ freeIdx b mod ssz bs < bs) /\
  (forall s p, 0 <= s < segments b -> 0 <= p < bs -> hdr_addr bs s p < freeIdx b ->
     bget (bts b) (hdr_addr bs s p) = 255%N).
Proof.
  intros page fit b R bs. pose proof (reachable_inv _ _ _ R) as I.
  destruct I as [I1 I2 I3 I4 I5 [I7a I7b] I8 I9].
  split; [exact I2|]. split; [exact I3|]. split; [exact I4|]. split; [exact I5|].
  split; [exact I7a|]. split; [exact I7b|]. exact I8.
Qed.

(** * The allocator covers the whole storage ([tight]) until the storage is grown *)

Definition is_grow (o : op) : bool := match o with OGrow _ => true | _ => false end.

(* histories without a Grow of the storage under the live allocator *)
Definition no_grow (ops : list op) : bool := forallb (fun o => negb (is_grow o)) ops.

Lemma step_tight : forall page fit b o, inv page fit b -> tight fit b -> is_grow o = false ->
  tight fit (fst (step page fit b o)).
Proof.
  intros page fit b o I T Hg. pose proof (inv_bs_pos _ _ _ I) as Hbs.
  destruct o as [|idx|idx|idx v|idx k v| | | | |n]; cbn [step is_grow] in *; try exact T; try discriminate.
  - destruct (arrange_spec _ _ _ I) as [[s1 [p1 [j [_ [_ [_ [_ [_ E]]]]]]]]|[f' [_ [_ [_ E]]]]];
      cbv zeta in E; rewrite E; exact T.
  - rewrite (free_spec _ _ _ idx I).
    destruct (negb ((0 <=? idx) && (idx <? blocks_count b))); [exact T|].
    destruct (is_alloc b idx); exact T.
  - unfold write_block. destruct (block b idx); try exact T.
    unfold tight. cbn [fst blkSize segments bts]. rewrite bsize_fill. exact T.
  - unfold poke_block. destruct (block b idx); try exact T.
    destruct ((k <? 0) || (len <=? k)); exact T.
  - pose proof (inv_segs _ _ _ I) as Hsegs. pose proof (inv_segs_fit _ _ _ I) as Hfit.
    pose proof (ssz_pos _ Hbs) as Hss.
    destruct (new_blocks_spec page (blkSize b) (bts b) fit (inv_page _ _ _ I) ltac:(nia))
      as [[_ [_ [Hf E]]]|[_ E]]; rewrite E; cbn [fst]; [apply opened_tight; exact Hf|exact T].
Qed.

Lemma run_tight : forall page fit ops b, inv page fit b -> tight fit b -> no_grow ops = true ->
  tight fit (snd (run page fit b ops)).
Proof.
  intros page fit. induction ops as [|o t IH]; intros b I T Hn; cbn [run].
  - exact T.
  - cbn [no_grow forallb] in Hn. apply andb_true_iff in Hn. destruct Hn as [Ho Ht].
    apply negb_true_iff in Ho.
    pose proof (step_tight page fit b o I T Ho) as T'.
    destruct (step_refines page fit b o I) as [I' _].
    destruct (step page fit b o) as [b' x]. cbn [fst] in *.
    specialize (IH b' I' T' Ht). destruct (run page fit b' t) as [xs bf]. exact IH.
Qed.

Lemma no_grow_firstn : forall n ops, no_grow ops = true -> no_grow (firstn n ops) = true.
Proof.
  induction n as [|n IH]; intros [|o t] H; cbn [firstn no_grow forallb] in *; try reflexivity.
  apply andb_true_iff in H. destruct H as [H1 H2]. rewrite H1. exact (IH t H2).
Qed.

Lemma new_blocks_tight : forall page bs buf fit b0,
  0 < page -> 0 <= bsize buf -> new_blocks page bs buf fit = CtorOk b0 -> tight fit b0.
Proof.
  intros page bs buf fit b0 Hp Hsz Hnew.
  destruct (new_blocks_spec page bs buf fit Hp Hsz) as [[Hv [Hs [Hf E]]]|[_ E]];
    rewrite E in Hnew; [|discriminate].
  injection Hnew as <-. apply opened_tight. exact Hf.
Qed.

(** * The constructor *)

Lemma ctor_rejects_invalid : forall page bs buf fit, 0 < page -> 0 <= bsize buf ->
  (new_blocks page bs buf fit = CtorErr EInvalid <->
     ~ valid_bs page bs \/ bsize buf < ssz bs \/ (fit = true /\ bsize buf mod ssz bs <> 0)) /\
  (new_blocks page bs buf fit = CtorErr EInvalid \/
   exists b, new_blocks page bs buf fit = CtorOk b /\ reachable page fit b /\
             blkSize b = bs /\ bts b = buf /\ segments b = bsize buf / ssz bs /\ 1 <= segments b /\
             blocks_count b = segments b * (8 * bs)).
Proof.
  intros page bs buf fit Hp Hsz.
  destruct (new_blocks_spec page bs buf fit Hp Hsz) as [[Hv [Hs [Hf E]]]|[Hbad E]].
  - split.
    + rewrite E. split; [discriminate|]. intros [Hn|[Hlt|[Hft Hm]]]; [contradiction|lia|].
      exfalso. apply Hm. apply Hf. exact Hft.
    + right. exists (opened bs buf). split; [exact E|]. split; [exact (reachable_new _ _ _ _ _ Hp Hsz E)|].
      pose proof (opened_inv page bs buf fit Hp Hv Hs Hf) as I.
      split; [reflexivity|]. split; [reflexivity|]. split; [reflexivity|]. split; [exact (inv_segs _ _ _ I)|].
      reflexivity.
  - split; [|left; exact E]. rewrite E. split; auto.
Qed.

(** the constructor before the fix (defect D4): an unacceptable block size gives
    an allocator with a negative number of segments, block size 0 divides by zero *)
Lemma legacy_ctor_refuted :
  (exists b, ~ valid_bs 4096 3 /\ legacy_new_blocks 4096 3 (zero_buffer 1000) false = CtorOk b /\ segments b < 0) /\
  (~ valid_bs 4096 0 /\ legacy_new_blocks 4096 0 (zero_buffer 1000) false = CtorPanic) /\
  (~ valid_bs 4096 0 /\ legacy_new_blocks 4096 0 (zero_buffer 1000) true = CtorPanic) /\
  new_blocks 4096 3 (zero_buffer 1000) false = CtorErr EInvalid /\
  new_blocks 4096 0 (zero_buffer 1000) false = CtorErr EInvalid.
Proof.
  assert (H3 : ~ valid_bs 4096 3).
  { intros [_ [H _]]. destruct (H ltac:(lia)) as [k [Hk E]].
    assert (k < 2) by (apply (Z.pow_lt_mono_r_iff 2); lia).
    assert (Hc : k = 0 \/ k = 1) by lia. destruct Hc as [-> | ->]; cbn in E; lia. }
  assert (H0 : ~ valid_bs 4096 0) by (intros [H _]; lia).
  split; [|split; [|split; [|split]]].
  - eexists. split; [exact H3|]. split; [vm_compute; reflexivity|]. cbn. lia.
  - split; [exact H0|]. vm_compute. reflexivity.
  - split; [exact H0|]. vm_compute. reflexivity.
  - vm_compute. reflexivity.
  - vm_compute. reflexivity.
Qed.

(** * Where blocks live *)

Lemma block_off_boff : forall page fit b i, inv page fit b -> 0 <= i ->
  block_off b i = boff (blkSize b) i.
Proof.
  intros page fit b i I Hi. unfold block_off, boff. rewrite (inv_bis _ _ _ I).
  pose proof (inv_bs_pos _ _ _ I). rewrite Z.quot_div_nonneg by lia. reflexivity.
Qed.

Lemma block_valid : forall page fit b i, reachable page fit b ->
  (0 <= i < blocks_count b -> block b i = SliceOk (block_off b i) (blkSize b)) /\
  (~ (0 <= i < blocks_count b) -> block b i = SliceErr EInvalid).
Proof.
  intros page fit b i R. pose proof (reachable_inv _ _ _ R) as I.
  rewrite (block_spec _ _ _ i I). split; intros H.
  - destruct (Z.leb_spec 0 i); [|lia]. destruct (Z.ltb_spec i (blocks_count b)); [|lia].
    cbn [andb]. rewrite (block_off_boff _ _ _ i I) by lia. reflexivity.
  - destruct (Z.leb_spec 0 i); destruct (Z.ltb_spec i (blocks_count b)); cbn [andb]; try reflexivity. lia.
Qed.

Lemma blocks_disjoint : forall page fit b i j, reachable page fit b ->
  0 <= i < blocks_count b -> 0 <= j < blocks_count b -> i <> j ->
  block_off b i + blkSize b <= block_off b j \/ block_off b j + blkSize b <= block_off b i.
Proof.
  intros page fit b i j R Hi Hj Hne. pose proof (reachable_inv _ _ _ R) as I.
  pose proof (inv_bs_pos _ _ _ I) as Hbs.
  rewrite !(block_off_boff _ _ _ _ I) by lia.
  destruct (Z.lt_trichotomy i j) as [Hlt|[?|Hgt]]; [left|contradiction|right];
    apply boff_disjoint; lia.
Qed.

Lemma blocks_avoid_headers : forall page fit b i s p k, reachable page fit b ->
  0 <= i < blocks_count b -> 0 <= p < blkSize b -> 0 <= k < blkSize b ->
  block_off b i + k <> hdr_addr (blkSize b) s p.
Proof.
  intros page fit b i s p k R Hi Hp Hk. pose proof (reachable_inv _ _ _ R) as I.
  rewrite (block_off_boff _ _ _ _ I) by lia.
  apply boff_avoids_headers; try assumption; [exact (inv_bs_pos _ _ _ I)|lia].
Qed.

Lemma blocks_inside_buffer : forall page fit b i, reachable page fit b ->
  0 <= i < blocks_count b ->
  blkSize b <= block_off b i /\ block_off b i + blkSize b <= segments b * ssz (blkSize b) /\
  segments b * ssz (blkSize b) <= bsize (bts b).
Proof.
  intros page fit b i R Hi. pose proof (reachable_inv _ _ _ R) as I.
  destruct (count_abs _ _ _ I) as [_ [Hc _]]. rewrite Hc in Hi.
  rewrite (block_off_boff _ _ _ _ I) by lia.
  destruct (boff_inside (blkSize b) (segments b) i (inv_bs_pos _ _ _ I) Hi) as [H1 H2].
  split; [exact H1|]. split; [exact H2|]. exact (inv_segs_fit _ _ _ I).
Qed.

(** * The state lives in the bytes *)

(** reopening the bytes of a reachable state whose allocator covers the storage
    (no Grow since it was opened) gives an allocator with the same allocated
    set and the same counters (only the hint restarts at 0) *)
Lemma reopen_same : forall page fit b, reachable page fit b -> tight fit b ->
  exists b0, new_blocks page (blkSize b) (bts b) fit = CtorOk b0 /\
    reachable page fit b0 /\
    alloc_list b0 = alloc_list b /\ available b0 = available b /\
    blocks_count b0 = blocks_count b /\ segments b0 = segments b /\
    blkSize b0 = blkSize b /\ bts b0 = bts b /\ abs b0 = abs b.
Proof.
  intros page fit b R [Tsegs Tfit]. pose proof (reachable_inv _ _ _ R) as I.
  pose proof (reachable_step page fit b OReopen R) as R'. cbn [step] in R'.
  pose proof (inv_bs_pos _ _ _ I) as Hbs. pose proof (ssz_pos _ Hbs) as Hss.
  assert (Hsz : ssz (blkSize b) <= bsize (bts b)).
  { pose proof (inv_segs_fit _ _ _ I). pose proof (inv_segs _ _ _ I). nia. }
  pose proof (new_blocks_ok page (blkSize b) (bts b) fit (inv_page _ _ _ I) (inv_bs _ _ _ I) Hsz Tfit) as E.
  rewrite E in R'. cbn [fst] in R'.
  exists (opened (blkSize b) (bts b)). split; [exact E|]. split; [exact R'|].
  assert (Hsegs : segments (opened (blkSize b) (bts b)) = segments b).
  { unfold opened. cbn [segments]. symmetry. exact Tsegs. }
  assert (Hal : alloc_list (opened (blkSize b) (bts b)) = alloc_list b).
  { unfold alloc_list. rewrite Hsegs. reflexivity. }
  split; [exact Hal|]. split.
  { rewrite (inv_avail _ _ _ I). unfold opened. cbn [available].
    rewrite <- Tsegs. reflexivity. }
  split.
  { unfold blocks_count. rewrite Hsegs. unfold opened. cbn [blksInSegm]. rewrite (inv_bis _ _ _ I). reflexivity. }
  split; [exact Hsegs|]. split; [reflexivity|]. split; [reflexivity|].
  unfold abs, alloc_list, hidden_list. rewrite Hsegs. reflexivity.
Qed.

Lemma in_hidden_ge : forall bs segs buf i, In i (hidden_of_bytes bs segs buf) -> segs * (8 * bs) <= i.
Proof.
  intros bs segs buf i H. unfold hidden_of_bytes in H. apply filter_In in H. destruct H as [H _].
  apply in_zrange in H. lia.
Qed.

(** reopening the bytes of ANY reachable state, also with room behind the live
    segments (the storage was grown under the live allocator): NewBlocks fails
    only under fit, when the size is not a whole number of segments; otherwise
    the new allocator has size/ssz >= segments b segments, every live index
    keeps its state (the allocated set of the live allocator is exactly the
    part of the new set below the live count), and what is new are the marks
    recorded behind the live segments *)
Lemma reopen_grown : forall page fit b, reachable page fit b ->
  (fit = true /\ bsize (bts b) mod ssz (blkSize b) <> 0 /\
   new_blocks page (blkSize b) (bts b) fit = CtorErr EInvalid)
  \/
  exists b0, new_blocks page (blkSize b) (bts b) fit = CtorOk b0 /\
    reachable page fit b0 /\ tight fit b0 /\
    blkSize b0 = blkSize b /\ bts b0 = bts b /\
    segments b0 = bsize (bts b) / ssz (blkSize b) /\ segments b <= segments b0 /\
    blocks_count b <= blocks_count b0 /\
    alloc_list b0 = alloc_list b ++ filter (fun i => i <? blocks_count b0) (hidden_list b) /\
    (forall i, i < blocks_count b -> (In i (alloc_list b0) <-> In i (alloc_list b))) /\
    abs b0 = fst (sp_step fit (abs b) OReopen).
Proof.
  intros page fit b R. pose proof (reachable_inv _ _ _ R) as I.
  pose proof (reachable_step page fit b OReopen R) as R'.
  destruct (step_refines page fit b OReopen I) as [_ Hs]. cbn [step] in R', Hs.
  pose proof (inv_bs_pos _ _ _ I) as Hbs. pose proof (ssz_pos _ Hbs) as Hss.
  pose proof (inv_segs _ _ _ I) as Hsegs. pose proof (inv_segs_fit _ _ _ I) as Hfit.
  destruct (new_blocks_spec page (blkSize b) (bts b) fit (inv_page _ _ _ I) ltac:(nia))
    as [[Hv [Hsz [Hf E]]]|[Hbad E]]; rewrite E in *; cbn [fst snd] in *.
  - right. exists (opened (blkSize b) (bts b)). split; [reflexivity|]. split; [exact R'|].
    split; [apply opened_tight; exact Hf|]. split; [reflexivity|]. split; [reflexivity|].
    split; [reflexivity|].
    assert (HS : segments b <= bsize (bts b) / ssz (blkSize b)) by (apply Z.div_le_lower_bound; lia).
    split; [exact HS|].
    assert (Hcnt : blocks_count b <= blocks_count (opened (blkSize b) (bts b))).
    { unfold blocks_count, opened. cbn [segments blksInSegm]. rewrite (inv_bis _ _ _ I).
      apply Z.mul_le_mono_nonneg_r; lia. }
    split; [exact Hcnt|].
    destruct (reopen_split (blkSize b) (segments b) (bts b) Hbs ltac:(lia) Hfit) as [H1 _]. cbv zeta in H1.
    assert (Hal : alloc_list (opened (blkSize b) (bts b)) =
                  alloc_list b ++ filter (fun i => i <? blocks_count (opened (blkSize b) (bts b))) (hidden_list b)).
    { unfold alloc_list at 1. unfold opened at 1 2 3. cbn [blkSize segments bts]. rewrite H1.
      unfold blocks_count, opened. cbn [segments blksInSegm]. reflexivity. }
    split; [exact Hal|]. split; [|apply (f_equal fst) in Hs; symmetry; exact Hs].
    intros i Hi. rewrite Hal, in_app_iff. split; [|auto]. intros [H|H]; [exact H|exfalso].
    apply filter_In in H. destruct H as [H _]. apply in_hidden_ge in H.
    unfold blocks_count in Hi. rewrite (inv_bis _ _ _ I) in Hi. lia.
  - left. destruct Hbad as [Hn|[Hlt|[Hft Hm]]]; [exfalso; exact (Hn (inv_bs _ _ _ I))|nia|].
    split; [exact Hft|]. split; [exact Hm|reflexivity].
Qed.

(** everything observable about a reachable state whose allocator covers the
    storage is a function of its block size and bytes: the geometry, the
    counters and the result of every future sequence of calls *)
Lemma state_in_bytes : forall page fit b, reachable page fit b -> tight fit b ->
  let bs := blkSize b in let segs := bsize (bts b) / ssz bs in
  segments b = segs /\
  alloc_list b = alloc_of_bytes bs segs (bts b) /\
  blocks_count b = segs * (8 * bs) /\
  available b = segs * (8 * bs) - Z.of_nat (length (alloc_of_bytes bs segs (bts b))) /\
  forall ops, fst (run page fit b ops) = fst (sp_run fit (spec_of_bytes bs (bts b)) ops).
Proof.
  intros page fit b R [Hsegs _] bs segs. pose proof (reachable_inv _ _ _ R) as I.
  fold bs in Hsegs. fold segs in Hsegs.
  destruct (count_abs _ _ _ I) as [_ [Hc _]].
  split; [exact Hsegs|]. split; [unfold alloc_list; rewrite Hsegs; reflexivity|].
  split; [rewrite Hc, Hsegs; reflexivity|]. split.
  - rewrite (available_eq _ _ _ R), Hc. unfold alloc_list. rewrite Hsegs. reflexivity.
  - intros ops. destruct (run_refines page fit ops b I) as [H _]. rewrite H.
    unfold abs, spec_of_bytes, alloc_list, hidden_list. cbv zeta.
    change ((8 * bs + 1) * bs) with (ssz bs). fold segs. rewrite Hsegs. reflexivity.
Qed.

(** in general (room behind the live segments: non-fit, or after Grow) the one
    piece of state that is not in the bytes is the number of segments the
    allocator was opened with: everything observable is a function of block
    size, segment count and bytes - the hint and the counter are not state *)
Lemma state_in_bytes_and_segments : forall page fit b, reachable page fit b ->
  let bs := blkSize b in let segs := segments b in
  segs * ssz bs <= bsize (bts b) /\
  alloc_list b = alloc_of_bytes bs segs (bts b) /\
  blocks_count b = segs * (8 * bs) /\
  available b = segs * (8 * bs) - Z.of_nat (length (alloc_of_bytes bs segs (bts b))) /\
  forall ops, fst (run page fit b ops) =
              fst (sp_run fit (mkSpec bs segs (alloc_of_bytes bs segs (bts b)) (bsize (bts b))
                                 (hidden_of_bytes bs segs (bts b))) ops).
Proof.
  intros page fit b R bs segs. pose proof (reachable_inv _ _ _ R) as I.
  destruct (count_abs _ _ _ I) as [_ [Hc _]].
  split; [exact (inv_segs_fit _ _ _ I)|]. split; [reflexivity|]. split; [exact Hc|]. split.
  - rewrite (available_eq _ _ _ R), Hc. reflexivity.
  - intros ops. destruct (run_refines page fit ops b I) as [H _]. exact H.
Qed.

(** * User writes *)

Lemma user_writes_preserve_alloc : forall page fit b idx k v, reachable page fit b ->
  0 <= idx < blocks_count b -> 0 <= k < blkSize b ->
  let b' := fst (poke_block b idx k v) in
  snd (poke_block b idx k v) = SliceOk (block_off b idx) (blkSize b) /\
  bts b' = bset (bts b) (block_off b idx + k) v /\
  alloc_list b' = alloc_list b /\ available b' = available b /\ freeIdx b' = freeIdx b /\
  reachable page fit b'.
Proof.
  intros page fit b idx k v R Hidx Hk b'. pose proof (reachable_inv _ _ _ R) as I.
  pose proof (reachable_step page fit b (OPoke idx k v) R) as R'.
  pose proof (step_refines page fit b (OPoke idx k v) I) as [_ Hs].
  cbn [step sp_step] in R', Hs. subst b'.
  unfold poke_block in *. rewrite (proj1 (block_valid _ _ _ idx R) Hidx) in *.
  destruct (Z.ltb_spec k 0) as [?|_]; [lia|]. destruct (Z.leb_spec (blkSize b) k) as [?|_]; [lia|].
  cbn [orb fst snd] in *.
  split; [reflexivity|]. split; [reflexivity|].
  assert (Habs : abs (mkBlocks (blkSize b) (blksInSegm b) (segments b) (freeIdx b) (available b)
                        (bset (bts b) (block_off b idx + k) v)) = abs b).
  { unfold sp_valid in Hs. destruct (count_abs _ _ _ I) as [Hsc _]. rewrite Hsc in Hs.
    destruct (Z.leb_spec 0 idx); [|lia]. destruct (Z.ltb_spec idx (blocks_count b)); [|lia].
    cbn [andb] in Hs. apply (f_equal fst) in Hs. cbn [fst] in Hs. symmetry. exact Hs. }
  split; [exact (f_equal sp_alloc Habs)|]. split; [reflexivity|]. split; [reflexivity|]. exact R'.
Qed.

Lemma fill_preserves_alloc : forall page fit b idx v, reachable page fit b ->
  0 <= idx < blocks_count b ->
  let b' := fst (write_block b idx v) in
  alloc_list b' = alloc_list b /\ available b' = available b /\ freeIdx b' = freeIdx b /\
  reachable page fit b' /\
  forall k, 0 <= k < blkSize b -> bget (bts b') (block_off b idx + k) = N.land v 255.
Proof.
  intros page fit b idx v R Hidx b'. pose proof (reachable_inv _ _ _ R) as I.
  pose proof (reachable_step page fit b (OWrite idx v) R) as R'.
  pose proof (step_refines page fit b (OWrite idx v) I) as [_ Hs].
  cbn [step sp_step] in R', Hs. subst b'.
  unfold write_block in *. rewrite (proj1 (block_valid _ _ _ idx R) Hidx) in *.
  cbn [fst snd] in *.
  assert (Habs : abs (mkBlocks (blkSize b) (blksInSegm b) (segments b) (freeIdx b) (available b)
                        (fill (Z.to_nat (blkSize b)) (bts b) (block_off b idx) v)) = abs b).
  { unfold sp_valid in Hs. destruct (count_abs _ _ _ I) as [Hsc _]. rewrite Hsc in Hs.
    destruct (Z.leb_spec 0 idx); [|lia]. destruct (Z.ltb_spec idx (blocks_count b)); [|lia].
    cbn [andb] in Hs. apply (f_equal fst) in Hs. cbn [fst] in Hs. symmetry. exact Hs. }
  split; [exact (f_equal sp_alloc Habs)|]. split; [reflexivity|]. split; [reflexivity|]. split; [exact R'|].
  intros k Hk. cbn [bts]. apply bget_fill_inside. pose proof (inv_bs_pos _ _ _ I). rewrite Z2Nat.id by lia. lia.
Qed.

(** * Refinement, from the constructor on *)

Lemma blocks_refine_allocset : forall page bs buf fit b0 ops,
  0 < page -> 0 <= bsize buf -> new_blocks page bs buf fit = CtorOk b0 ->
  fst (run page fit b0 ops) = fst (sp_run fit (abs b0) ops) /\
  abs (snd (run page fit b0 ops)) = snd (sp_run fit (abs b0) ops).
Proof.
  intros page bs buf fit b0 ops Hp Hsz Hnew.
  destruct (new_blocks_inv _ _ _ _ _ Hp Hsz Hnew) as [_ I0].
  destruct (run_refines page fit ops b0 I0) as [H1 [H2 _]]. auto.
Qed.

(** the model never runs out of fuel and panics only where Go would (a byte
    index outside the block in a user write) *)
Definition poke_in_range (bs : Z) (o : op) : Prop :=
  match o with OPoke _ k _ => 0 <= k < bs | _ => True end.

Lemma sp_step_bs : forall fit s o, sp_bs (fst (sp_step fit s o)) = sp_bs s.
Proof.
  intros fit s o. destruct o; cbn [sp_step]; unfold sp_reopen;
    repeat match goal with |- context [if ?c then _ else _] => destruct c end; reflexivity.
Qed.

Lemma sp_run_no_panic : forall fit ops s,
  (forall o, In o ops -> poke_in_range (sp_bs s) o) ->
  ~ In OutPanic (fst (sp_run fit s ops)) /\ ~ In OutOfFuel (fst (sp_run fit s ops)).
Proof.
  intros fit. induction ops as [|o t IH]; intros s Hops; cbn [sp_run].
  - cbn. tauto.
  - pose proof (sp_step_bs fit s o) as Hbs.
    destruct (sp_step fit s o) as [s' x] eqn:Est. cbn [fst] in Hbs.
    assert (Hx : x <> OutPanic /\ x <> OutOfFuel).
    { pose proof (Hops o (or_introl eq_refl)) as Hr.
      destruct o; cbn [sp_step poke_in_range] in Est, Hr; unfold sp_reopen in Est;
        repeat match type of Est with context [if ?c then _ else _] => destruct c eqn:? end;
        injection Est as _ <-; split; try discriminate.
      exfalso. destruct (Z.ltb_spec k 0); destruct (Z.leb_spec (sp_bs s) k); cbn [orb] in *; try discriminate; lia. }
    destruct (IH s') as [H1 H2].
    { intros o' Ho'. rewrite Hbs. apply Hops. right. exact Ho'. }
    destruct (sp_run fit s' t) as [xs sf]. cbn [fst] in *.
    split; intros [E|Hin]; try tauto; destruct Hx; congruence.
Qed.

Lemma run_no_panic : forall page bs buf fit b0 ops,
  0 < page -> 0 <= bsize buf -> new_blocks page bs buf fit = CtorOk b0 ->
  (forall o, In o ops -> poke_in_range bs o) ->
  ~ In OutPanic (fst (run page fit b0 ops)) /\ ~ In OutOfFuel (fst (run page fit b0 ops)).
Proof.
  intros page bs buf fit b0 ops Hp Hsz Hnew Hops.
  destruct (blocks_refine_allocset page bs buf fit b0 ops Hp Hsz Hnew) as [H _]. rewrite H.
  apply sp_run_no_panic. destruct (new_blocks_inv _ _ _ _ _ Hp Hsz Hnew) as [-> _].
  cbn [abs opened blkSize sp_bs]. exact Hops.
Qed.

(** * Concurrent callers *)

(** every method of Blocks that touches the state runs as one critical section
    (modelled: the mutex makes the method body atomic).  A concurrent execution
    of per-thread programs is then some interleaving of their calls, each call
    applied atomically: a sequential history.  Everything proved for all
    sequences holds for all interleavings. *)
Inductive interleaving {A : Type} : list (list A) -> list A -> Prop :=
| il_done : forall ps, (forall p, In p ps -> p = []) -> interleaving ps []
| il_step : forall ps1 a p ps2 tr,
    interleaving (ps1 ++ p :: ps2) tr -> interleaving (ps1 ++ (a :: p) :: ps2) (a :: tr).

Lemma atomic_interleavings_sequential : forall page bs buf fit b0 (progs : list (list op)) tr,
  0 < page -> 0 <= bsize buf -> new_blocks page bs buf fit = CtorOk b0 ->
  interleaving progs tr ->
  fst (run page fit b0 tr) = fst (sp_run fit (abs b0) tr) /\
  reachable page fit (snd (run page fit b0 tr)).
Proof.
  intros page bs buf fit b0 progs tr Hp Hsz Hnew _. split.
  - apply (blocks_refine_allocset page bs buf fit b0 tr Hp Hsz Hnew).
  - apply reachable_run. exact (reachable_new _ _ _ _ _ Hp Hsz Hnew).
Qed.

(** reopening works after every single operation of any sequence without a
    Grow of the storage, and gives the same set and counters *)
Lemma reopen_after_every_prefix : forall page bs buf fit b0 ops n,
  0 < page -> 0 <= bsize buf -> new_blocks page bs buf fit = CtorOk b0 ->
  no_grow ops = true ->
  let b := snd (run page fit b0 (firstn n ops)) in
  exists b1, new_blocks page (blkSize b) (bts b) fit = CtorOk b1 /\
    alloc_list b1 = alloc_list b /\ available b1 = available b /\ blocks_count b1 = blocks_count b.
Proof.
  intros page bs buf fit b0 ops n Hp Hsz Hnew Hng b.
  assert (R : reachable page fit b).
  { apply reachable_run. exact (reachable_new _ _ _ _ _ Hp Hsz Hnew). }
  assert (T : tight fit b).
  { destruct (new_blocks_inv _ _ _ _ _ Hp Hsz Hnew) as [_ I0].
    apply run_tight; [exact I0|exact (new_blocks_tight _ _ _ _ _ Hp Hsz Hnew)|apply no_grow_firstn; exact Hng]. }
  destruct (reopen_same page fit b R T) as [b1 [E [_ [H1 [H2 [H3 _]]]]]].
  exists b1. auto.
Qed.

(** ... and after every single operation of ANY sequence, with Grow of the
    storage under the live allocator: the reopen fails only under fit with a
    size that is not a whole number of segments; otherwise every index of the
    live allocator has the same state in the reopened one *)
Lemma reopen_after_every_prefix_grown : forall page bs buf fit b0 ops n,
  0 < page -> 0 <= bsize buf -> new_blocks page bs buf fit = CtorOk b0 ->
  let b := snd (run page fit b0 (firstn n ops)) in
  (fit = true /\ bsize (bts b) mod ssz (blkSize b) <> 0 /\
   new_blocks page (blkSize b) (bts b) fit = CtorErr EInvalid)
  \/
  exists b1, new_blocks page (blkSize b) (bts b) fit = CtorOk b1 /\
    blocks_count b <= blocks_count b1 /\
    (forall i, i < blocks_count b -> (In i (alloc_list b1) <-> In i (alloc_list b))) /\
    available b1 = blocks_count b1 - Z.of_nat (length (alloc_list b1)).
Proof.
  intros page bs buf fit b0 ops n Hp Hsz Hnew b.
  assert (R : reachable page fit b).
  { apply reachable_run. exact (reachable_new _ _ _ _ _ Hp Hsz Hnew). }
  destruct (reopen_grown page fit b R) as [H|[b1 [E [R1 [_ [_ [_ [_ [_ [Hc [_ [Hin _]]]]]]]]]]]]; [left; exact H|].
  right. exists b1. split; [exact E|]. split; [exact Hc|]. split; [exact Hin|]. exact (available_eq _ _ _ R1).
Qed.
