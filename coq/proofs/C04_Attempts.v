(** C04: what a failed attempt returns and leaves behind; attempts after Shutdown. *)
From Coq Require Import List Arith Bool NArith Lia.
From GL Require Import model.LockLTS proofs.C01_Exclusion proofs.C01_Tokens.
Import ListNotations.

Definition fail_ok (s : state) (t : thread) (k : kind) (r : res) : Prop :=
  match k with
  | KTry => r = RFalse
  | KCtx => r = RErr ECtx /\ ctx_of s t = true
  | KLock => False
  end.

Definition done_ok (s : state) (t : thread) (L : lockerId) (k : kind) (r : res) : Prop :=
  match k with
  | KTry => r = RTrue \/ r = RFalse
  | KCtx => r = RNil \/ (r = RErr ECtx /\ ctx_of s t = true)
            \/ (r = RErr EClosed /\ down s (lprov s L) = true)
  | KLock => r = RUnit \/ (r = RPanic /\ down s (lprov s L) = true)
  end.

(** thread t is inside an attempt of kind k on Locker L that started with Invoke, and what it is
    about to return is consistent with why it fails *)
Definition att_ok (s : state) (t : thread) (L : lockerId) (k : kind) : Prop :=
  (k = KLock -> ctx_of s t = false) /\
  match pc_of s t with
  | LocalWait L' k' | HasToken L' k' | CreateIssued L' k' => L' = L /\ k' = k
  | WaitVer L' k' _ => L' = L /\ k' = k /\ k <> KTry
  | Failing L' r => L' = L /\ fail_ok s t k r
  | Done r => done_ok s t L k r
  | _ => False
  end.

Lemma att_step : forall s l s' t L k,
  tinv s -> att_ok s t L k -> fault_free s l -> step s l = Some s' ->
  (forall r, l <> Return t r) -> att_ok s' t L k.
Proof.
  intros s l s' t L k IT [Hc Ha] HF H Hnr.
  destruct l; step_inv H; unfold att_ok, fail_ok, done_ok, pc_of, ctx_of, set_pc, cancel_timer, arm_first in *; cbn in *;
    repeat match goal with |- context [match tm_st ?x with _ => _ end] => destruct (tm_st x); cbn end;
    upd_split; rewrite ?Nat.eqb_refl in *; cbn in *;
    repeat match goal with H : t_pc (th _ _) = _ |- _ => rewrite H in *; cbn in * end;
    try (split; [assumption|]); try assumption; try contradiction; try discriminate.
  all: try (match goal with Ht : token (lk ?s0 ?L0) = true, Hc1 : cntr (lk ?s0 ?L0) = true |- _ =>
              destruct (t_tok s0 IT L0 Ht) as (_ & Hx & _); congruence end).
  all: try (destruct Ha as [? ?]; subst); try (destruct Ha as (? & ? & Hk); subst).
  all: try (destruct k; cbn in *; intuition (try congruence; try discriminate); fail).
  all: try (intuition (try congruence; try discriminate); fail).
  - destruct H0 as [-> Hk]. destruct k; cbn in *; intuition (try congruence; try discriminate).
  - exact (Hnr r eq_refl).
  - destruct (t_pc (th s t)); destruct k; intuition (try congruence; try discriminate).
Qed.

(** ** traces *)

Definition no_return (t : thread) (tr : list label) : Prop := forall r, ~ In (Return t r) tr.

Lemma att_run : forall tr s s' t L k,
  tinv s -> att_ok s t L k -> respects fault_free s tr -> respects wf_ok s tr ->
  run s tr = Some s' -> no_return t tr -> att_ok s' t L k.
Proof.
  induction tr as [|l tr IH]; intros s s' t L k IT Ha HF HW Hr Hn; cbn in *.
  - injection Hr as <-. exact Ha.
  - destruct HF as [HF1 HF2]. destruct HW as [HW1 HW2].
    destruct (step s l) as [s1|] eqn:Hs; [|discriminate].
    apply (IH s1 s' t L k); auto.
    + eapply tinv_step; eauto.
    + eapply att_step; eauto. intros r ->. apply (Hn r). left. reflexivity.
    + intros r Hin. apply (Hn r). right. exact Hin.
Qed.

Definition op_acquire (o : op) : option (lockerId * kind) :=
  match o with
  | OLock L => Some (L, KLock)
  | OTry L => Some (L, KTry)
  | OCtx L => Some (L, KCtx)
  | OUnlock _ => None
  end.

Lemma att_invoke : forall s t o L k s',
  op_acquire o = Some (L, k) -> step s (Invoke t o) = Some s' -> att_ok s' t L k.
Proof.
  intros s t o L k s' Ho Hs. cbn in Hs. destruct (pc_of s t); try discriminate.
  destruct o; cbn in Ho; try discriminate; injection Ho as <- <-;
    unfold acquire_entry in Hs; cbn in Hs; injection Hs as <-;
    unfold att_ok, pc_of, ctx_of; cbn; rewrite upd_same; cbn; auto.
Qed.

(** the outcome of an attempt: in a fault-free run of well-formed programs, from the Invoke of an
    acquisition of kind k on Locker L by thread t up to (not including) its Return, the thread is
    inside that attempt and what it is about to return is explained by the state *)
Lemma attempt_outcome : forall lp tr0 t o L k tr s',
  op_acquire o = Some (L, k) ->
  run (init lp) (tr0 ++ Invoke t o :: tr) = Some s' ->
  no_faults lp (tr0 ++ Invoke t o :: tr) -> wf_programs lp (tr0 ++ Invoke t o :: tr) ->
  no_return t tr ->
  att_ok s' t L k.
Proof.
  intros lp tr0 t o L k tr s' Ho Hr HF HW Hn.
  destruct (run_app _ _ _ _ Hr) as (s0 & Hr0 & Hr1).
  destruct (respects_app _ _ _ _ HF) as [HF0 HF1]. specialize (HF1 s0 Hr0).
  destruct (respects_app _ _ _ _ HW) as [HW0 HW1]. specialize (HW1 s0 Hr0).
  cbn [run respects] in Hr1, HF1, HW1. destruct (step s0 (Invoke t o)) as [s1|] eqn:Hs; [|discriminate].
  destruct HF1 as [_ HF1]. destruct HW1 as [HWi HW1].
  assert (IT0 : tinv s0) by (eapply tinv_run; eauto using tinv_init).
  assert (IT1 : tinv s1) by (eapply tinv_step; eauto).
  eapply (att_run tr s1 s'); eauto. eapply att_invoke; eauto.
Qed.

(** a LockWithCtx that does not acquire returns the error of its context, and only when that
    context is done (or ErrClosed after a shutdown) *)
Lemma cancel_returns_ctx_err : forall lp tr0 t L tr s' r,
  run (init lp) (tr0 ++ Invoke t (OCtx L) :: tr) = Some s' ->
  no_faults lp (tr0 ++ Invoke t (OCtx L) :: tr) -> wf_programs lp (tr0 ++ Invoke t (OCtx L) :: tr) ->
  no_return t tr ->
  pc_of s' t = Done r ->
  r = RNil \/ (r = RErr ECtx /\ ctx_of s' t = true) \/ (r = RErr EClosed /\ down s' (lprov s' L) = true).
Proof.
  intros lp tr0 t L tr s' r Hr HF HW Hn Hp.
  destruct (attempt_outcome lp tr0 t (OCtx L) L KCtx tr s' eq_refl Hr HF HW Hn) as [_ Ha].
  rewrite Hp in Ha. exact Ha.
Qed.

(** TryLock returns true or false, never anything else (no panic, no error) *)
Lemma trylock_fail_returns_false : forall lp tr0 t L tr s' r,
  run (init lp) (tr0 ++ Invoke t (OTry L) :: tr) = Some s' ->
  no_faults lp (tr0 ++ Invoke t (OTry L) :: tr) -> wf_programs lp (tr0 ++ Invoke t (OTry L) :: tr) ->
  no_return t tr ->
  pc_of s' t = Done r -> r = RTrue \/ r = RFalse.
Proof.
  intros lp tr0 t L tr s' r Hr HF HW Hn Hp.
  destruct (attempt_outcome lp tr0 t (OTry L) L KTry tr s' eq_refl Hr HF HW Hn) as [_ Ha].
  rewrite Hp in Ha. exact Ha.
Qed.

(** Lock returns normally, or panics only after a shutdown *)
Lemma lock_returns_unit : forall lp tr0 t L tr s' r,
  run (init lp) (tr0 ++ Invoke t (OLock L) :: tr) = Some s' ->
  no_faults lp (tr0 ++ Invoke t (OLock L) :: tr) -> wf_programs lp (tr0 ++ Invoke t (OLock L) :: tr) ->
  no_return t tr ->
  pc_of s' t = Done r -> r = RUnit \/ (r = RPanic /\ down s' (lprov s' L) = true).
Proof.
  intros lp tr0 t L tr s' r Hr HF HW Hn Hp.
  destruct (attempt_outcome lp tr0 t (OLock L) L KLock tr s' eq_refl Hr HF HW Hn) as [_ Ha].
  rewrite Hp in Ha. exact Ha.
Qed.

(** ** a failing attempt leaves nothing behind *)

(** the failure exit (counter reset + token returned): afterwards the Locker is exactly as a
    fresh one - token present, counter 0, not held, nobody inside - and the record is untouched *)
Lemma failure_exit_restores : forall s t L r s',
  tinv s -> pc_of s t = Failing L r -> step s (PutToken t) = Some s' ->
  pc_of s' t = Done r /\ rec s' = rec s /\
  token (lk s' L) = true /\ cntr (lk s' L) = false /\ held (lk s' L) = None /\
  forall t0, userb (pc_of s' t0) L = false.
Proof.
  intros s t L r s' IT Hp Hs.
  pose proof (tinv_step s (PutToken t) s' IT I Hs) as IT'.
  cbn in Hs. rewrite Hp in Hs.
  destruct (token (lk s L)); [discriminate|]. injection Hs as <-.
  assert (Htok : token (lk (set_pc (set_lk s L (set_token (set_cntr (lk s L) false) true)) t (Done r)) L) = true).
  { cbn. rewrite upd_same. reflexivity. }
  destruct (t_tok _ IT' L Htok) as (Hh & Hc & Hu).
  repeat split; auto. unfold pc_of. cbn. rewrite upd_same. reflexivity.
Qed.

(** the exits out of the select (ctx done, provider down, TryLock without token) touch nothing *)
Lemma local_exit_untouched : forall s t L k l s',
  pc_of s t = LocalWait L k -> In l [TryFail t; Bail t BCtx; Bail t BClosed] ->
  step s l = Some s' -> lk s' = lk s /\ rec s' = rec s /\ exists r, pc_of s' t = Done r.
Proof.
  intros s t L k l s' Hp Hin Hs. cbn in Hin.
  destruct Hin as [<-|[<-|[<-|[]]]]; cbn in Hs; rewrite Hp in Hs.
  - destruct k; try discriminate. destruct (token (lk s L) || down s (lprov s L)); [discriminate|].
    injection Hs as <-. repeat split. eexists. unfold pc_of. cbn. rewrite upd_same. reflexivity.
  - destruct (kind_eqb k KCtx && ctx_of s t); [|discriminate].
    injection Hs as <-. repeat split. eexists. unfold pc_of. cbn. rewrite upd_same. reflexivity.
  - destruct (down s (lprov s L)); [|discriminate].
    injection Hs as <-. repeat split. eexists. unfold pc_of. cbn. rewrite upd_same. reflexivity.
Qed.

(** ** after Shutdown *)

(** thread t waits in the select of an attempt on L (kind k) or has left it without the token *)
Definition closed_out (L : lockerId) (k : kind) (p : pc) : Prop :=
  p = LocalWait L k \/ p = Done (fail_result k EClosed) \/ p = Done (RErr ECtx) \/ p = Done RPanic.

Lemma shutdown_step : forall s l s' t L k,
  down s (lprov s L) = true -> closed_out L k (pc_of s t) ->
  step s l = Some s' -> (forall r, l <> Return t r) ->
  down s' (lprov s' L) = true /\ closed_out L k (pc_of s' t).
Proof.
  intros s l s' t L k Hd Hc Hs Hnr. unfold closed_out in *.
  destruct l; step_inv Hs; unfold pc_of, set_pc, cancel_timer, arm_first in *; cbn in *;
    repeat match goal with |- context [match tm_st ?x with _ => _ end] => destruct (tm_st x); cbn end;
    upd_split; rewrite ?Nat.eqb_refl in *; cbn in *;
    try (split; [assumption|]); try assumption;
    repeat match goal with H : t_pc (th _ _) = _ |- _ => rewrite H in *; cbn in * end;
    try (intuition (try congruence; try discriminate); fail).
  all: try (destruct Hc as [Hc|[Hc|[Hc|Hc]]]; try discriminate; injection Hc as ? ?; subst).
  all: try (intuition (try congruence; try discriminate); fail).
  all: try (exfalso; eapply Hnr; reflexivity).
  all: try (split; [reflexivity|assumption]).
Qed.

(** after Shutdown of its provider an attempt that is still in the select (in particular every
    attempt invoked afterwards, and every attempt parked in the local wait at the shutdown) never
    gets past it: it never issues a Create, never acquires, and returns ErrClosed (Lock: panics;
    TryLock: false) or, if its context is done as well, possibly the context error *)
Lemma after_shutdown_no_acquire : forall tr s s' t L k,
  down s (lprov s L) = true -> pc_of s t = LocalWait L k ->
  run s tr = Some s' -> no_return t tr ->
  closed_out L k (pc_of s' t).
Proof.
  intros tr s s' t L k Hd Hp. 
  assert (Hc : closed_out L k (pc_of s t)) by (left; exact Hp). clear Hp.
  revert s Hd Hc. induction tr as [|l tr IH]; intros s Hd Hc Hr Hn; cbn in Hr.
  - injection Hr as <-. exact Hc.
  - destruct (step s l) as [s1|] eqn:Hs; [|discriminate].
    destruct (shutdown_step s l s1 t L k Hd Hc Hs) as [Hd1 Hc1].
    + intros r ->. apply (Hn r). left. reflexivity.
    + apply (IH s1 Hd1 Hc1 Hr). intros r Hin. apply (Hn r). right. exact Hin.
Qed.

Lemma invoked_after_shutdown : forall s t o L k s1 tr s',
  down s (lprov s L) = true -> op_acquire o = Some (L, k) ->
  step s (Invoke t o) = Some s1 -> run s1 tr = Some s' -> no_return t tr ->
  closed_out L k (pc_of s' t).
Proof.
  intros s t o L k s1 tr s' Hd Ho Hs Hr Hn.
  apply (after_shutdown_no_acquire tr s1 s' t L k); auto.
  - cbn in Hs. destruct (pc_of s t); try discriminate.
    destruct o; cbn in Ho; try discriminate; injection Ho as <- <-;
      unfold acquire_entry in Hs; cbn in Hs; injection Hs as <-; exact Hd.
  - cbn in Hs. destruct (pc_of s t); try discriminate.
    destruct o; cbn in Ho; try discriminate; injection Ho as <- <-;
      unfold acquire_entry in Hs; cbn in Hs; injection Hs as <-; unfold pc_of; cbn; rewrite upd_same; reflexivity.
Qed.

(** the interpretation of DESIGN section 4: an attempt that has passed the select before the
    Shutdown may still acquire *)
Definition inflight_trace : list label :=
  [ Invoke 0 (OLock 0); TakeToken 0; Shutdown 0; CheckCtx 0; StCreate 0 FOk; Return 0 RUnit ].

Lemma shutdown_inflight_may_acquire :
  exists s, run (init (fun _ => 0)) inflight_trace = Some s /\
            down s 0 = true /\ held (lk s 0) = Some 1%N.
Proof.
  destruct (run (init (fun _ => 0)) inflight_trace) as [s|] eqn:Hr; [|vm_compute in Hr; discriminate].
  exists s. split; [reflexivity|]. vm_compute in Hr. injection Hr as <-. vm_compute. split; reflexivity.
Qed.
