(** C08: consequences proved on the reference LRU (spec/LRU.v): the accounting
    of the delete callback (every successfully created value is either resident
    or has been passed to the delete callback, exactly once), the capacity
    bound, and that a resident entry is never deleted. *)
From Coq Require Import List ZArith NArith Arith Bool Lia Permutation.
From GL Require Import spec.LRU.
Import ListNotations.

Section LRUFacts.
Context {PK K V : Type}.
Context (keqb : K -> K -> bool).
Context (keqb_spec : forall a b, reflect (a = b) (keqb a b)).
Context (kmap : PK -> K).
Context (expires : V -> Z).

Notation st := (lru_state PK K V).

Lemma lru_find_none : forall k (l : st), lru_find keqb k l = None <-> ~ In k (map fst l).
Proof.
  intros k l. induction l as [|[k' x] t IH]; cbn [lru_find map In fst].
  - split; [intros _ []|reflexivity].
  - destruct (keqb_spec k k') as [He|Hn].
    + split; [discriminate|]. intros Hc. exfalso. apply Hc. left. congruence.
    + rewrite IH. split.
      * intros H [Hc|Hc]; [congruence|exact (H Hc)].
      * intros H Hc. apply H. right. exact Hc.
Qed.

Lemma lru_del_notin : forall k (l : st), ~ In k (map fst l) -> lru_del keqb k l = l.
Proof.
  intros k l. unfold lru_del. induction l as [|[k' x] t IH]; cbn [filter map In fst]; intros Hn.
  - reflexivity.
  - destruct (keqb_spec k k') as [He|Hne]; cbn [negb].
    + exfalso. apply Hn. left. congruence.
    + f_equal. apply IH. intros Hc. apply Hn. right. exact Hc.
Qed.

Lemma lru_del_keys_incl : forall k (l : st) x, In x (map fst (lru_del keqb k l)) -> In x (map fst l).
Proof.
  intros k l x. unfold lru_del. rewrite !in_map_iff. intros [e [He Hi]].
  apply filter_In in Hi. exists e. tauto.
Qed.

Lemma lru_del_not_key : forall k (l : st), ~ In k (map fst (lru_del keqb k l)).
Proof.
  intros k l. unfold lru_del. rewrite in_map_iff. intros [e [He Hi]].
  apply filter_In in Hi. destruct Hi as [_ Hi]. subst k.
  destruct (keqb_spec (fst e) (fst e)) as [_|Hn]; [discriminate Hi|congruence].
Qed.

Lemma lru_del_nodup : forall k (l : st), NoDup (map fst l) -> NoDup (map fst (lru_del keqb k l)).
Proof.
  intros k l. unfold lru_del. induction l as [|e t IH]; cbn [filter map]; intros Hnd.
  - constructor.
  - inversion Hnd as [|? ? Hni Hnd']; subst. destruct (negb (keqb k (fst e))).
    + cbn [map]. constructor; [|apply IH; exact Hnd'].
      intros Hc. apply Hni. eapply lru_del_keys_incl. exact Hc.
    + apply IH. exact Hnd'.
Qed.

(* a resident key occurs once: deleting it removes exactly its entry *)
Lemma lru_find_split : forall k x (l : st),
  NoDup (map fst l) -> lru_find keqb k l = Some x ->
  Permutation l ((k, x) :: lru_del keqb k l).
Proof.
  intros k x l. induction l as [|[k' y] t IH]; cbn [lru_find map fst]; intros Hnd Hf.
  - discriminate.
  - inversion Hnd as [|? ? Hni Hnd']; subst. unfold lru_del. cbn [filter fst].
    destruct (keqb_spec k k') as [He|Hne]; cbn [negb].
    + injection Hf as <-. subst k'. fold (lru_del keqb k t). rewrite lru_del_notin by exact Hni.
      apply Permutation_refl.
    + fold (lru_del keqb k t). eapply perm_trans; [apply perm_skip, IH; assumption|apply perm_swap].
Qed.

Lemma created_ok_app : forall a b : list (lru_ev PK V),
  created_ok (a ++ b) = created_ok a ++ created_ok b.
Proof.
  induction a as [|[pk [v|]|pk v] t IH]; intros b; cbn [app created_ok]; rewrite ?IH; reflexivity.
Qed.

Lemma deleted_app : forall a b : list (lru_ev PK V), deleted (a ++ b) = deleted a ++ deleted b.
Proof.
  induction a as [|[pk r|pk v] t IH]; intros b; cbn [app deleted]; rewrite ?IH; reflexivity.
Qed.

(** ** one operation: invariant and accounting *)

Definition lru_inv (cap : nat) (l : st) : Prop := NoDup (map fst l) /\ length l <= cap.

Definition balanced (l : st) (evs : list (lru_ev PK V)) (l' : st) : Prop :=
  Permutation (resident l ++ created_ok evs) (deleted evs ++ resident l').

Lemma get_facts : forall cap (l : st) pk res,
  lru_inv cap l ->
  let '(l', (_, evs)) := lru_get keqb kmap cap l pk res in
  lru_inv cap l' /\ balanced l evs l'.
Proof.
  intros cap l pk res [Hnd Hlen]. unfold lru_get, balanced, lru_inv, resident.
  destruct (lru_find keqb (kmap pk) l) as [[pk0 v0]|] eqn:Hf.
  - pose proof (lru_find_split _ _ _ Hnd Hf) as Hp.
    cbn [created_ok deleted app]. rewrite app_nil_r. split; [split|].
    + rewrite map_app. cbn [map fst].
      apply Permutation_NoDup with (l := kmap pk :: map fst (lru_del keqb (kmap pk) l)).
      * apply Permutation_cons_append.
      * constructor; [apply lru_del_not_key|apply lru_del_nodup; exact Hnd].
    + apply Permutation_length in Hp. cbn [length] in Hp. rewrite app_length. cbn [length]. lia.
    + eapply perm_trans; [apply Permutation_map; exact Hp|].
      cbn [map snd]. rewrite map_app. cbn [map snd]. apply Permutation_cons_append.
  - destruct res as [v|].
    + assert (Hni : ~ In (kmap pk) (map fst l)) by (apply lru_find_none; exact Hf).
      assert (Hnd' : NoDup (map fst (l ++ [(kmap pk, (pk, v))]))).
      { rewrite map_app. cbn [map fst].
        apply Permutation_NoDup with (l := kmap pk :: map fst l);
          [apply Permutation_cons_append|constructor; assumption]. }
      destruct (cap <? length (l ++ [(kmap pk, (pk, v))]))%nat eqn:Hc.
      * destruct (l ++ [(kmap pk, (pk, v))]) as [|[kd [pkd vd]] t] eqn:Hl.
        { destruct l; discriminate Hl. }
        cbn [created_ok deleted app]. split; [split|].
        -- cbn [map] in Hnd'. inversion Hnd'; assumption.
        -- assert (Hlen' : length (l ++ [(kmap pk, (pk, v))]) = S (length t)) by (rewrite Hl; reflexivity).
           rewrite app_length in Hlen'. cbn [length] in Hlen'. lia.
        -- change [(pk, v)] with (map snd [(kmap pk, (pk, v))]). rewrite <- map_app, Hl.
           cbn [map snd]. apply Permutation_refl.
      * cbn [created_ok deleted app]. apply Nat.ltb_ge in Hc. split; [split; assumption|].
        rewrite map_app. cbn [map snd]. apply Permutation_refl.
    + cbn [created_ok deleted app]. rewrite app_nil_r. split; [split; assumption|apply Permutation_refl].
Qed.

Lemma remove_facts : forall cap (l : st) pk,
  lru_inv cap l ->
  let '(l', (_, evs)) := lru_remove keqb kmap l pk in
  lru_inv cap l' /\ balanced l evs l'.
Proof.
  intros cap l pk [Hnd Hlen]. unfold lru_remove, balanced, lru_inv, resident.
  destruct (lru_find keqb (kmap pk) l) as [[pk0 v0]|] eqn:Hf.
  - pose proof (lru_find_split _ _ _ Hnd Hf) as Hp.
    cbn [created_ok deleted app]. rewrite app_nil_r. split; [split|].
    + apply lru_del_nodup. exact Hnd.
    + apply Permutation_length in Hp. cbn [length] in Hp. lia.
    + eapply perm_trans; [apply Permutation_map; exact Hp|]. cbn [map snd]. apply Permutation_refl.
  - cbn [created_ok deleted app]. rewrite app_nil_r. split; [split; assumption|apply Permutation_refl].
Qed.

Lemma deleted_clear_events : forall l : st,
  deleted (map (fun e : K * (PK * V) => EvDelete (fst (snd e)) (snd (snd e))) l) = map snd l.
Proof.
  induction l as [|[k [pk v]] t IH]; cbn [map deleted fst snd]; [reflexivity|]. rewrite IH. reflexivity.
Qed.

Lemma created_clear_events : forall l : st,
  created_ok (map (fun e : K * (PK * V) => EvDelete (fst (snd e)) (snd (snd e))) l) = [].
Proof. induction l as [|e t IH]; cbn [map created_ok]; [reflexivity|exact IH]. Qed.

Lemma clear_facts : forall cap (l : st),
  lru_inv cap l ->
  let '(l', (_, evs)) := lru_clear l in
  lru_inv cap l' /\ balanced l evs l'.
Proof.
  intros cap l [Hnd Hlen]. unfold lru_clear, balanced, lru_inv, resident.
  rewrite deleted_clear_events, created_clear_events. cbn [map length]. rewrite !app_nil_r.
  split; [split; [constructor|lia]|apply Permutation_refl].
Qed.

Lemma balanced_trans : forall (l1 l2 l3 : st) e1 e2,
  balanced l1 e1 l2 -> balanced l2 e2 l3 -> balanced l1 (e1 ++ e2) l3.
Proof.
  unfold balanced. intros l1 l2 l3 e1 e2 H1 H2. rewrite created_ok_app, deleted_app.
  rewrite app_assoc. eapply perm_trans; [apply Permutation_app_tail; exact H1|].
  rewrite <- !app_assoc. apply Permutation_app_head. exact H2.
Qed.

Lemma eget_facts : forall cap (l : st) pk now r1 r2,
  lru_inv cap l ->
  let '(l', (_, evs)) := lru_eget keqb kmap expires cap l pk now r1 r2 in
  lru_inv cap l' /\ balanced l evs l'.
Proof.
  intros cap l pk now r1 r2 Hinv. unfold lru_eget.
  pose proof (get_facts cap l pk r1 Hinv) as H1.
  destruct (lru_get keqb kmap cap l pk r1) as [l1 [res1 e1]]. destruct H1 as [I1 B1].
  destruct res1 as [v| | |]; auto.
  destruct (expires v <? now)%Z; auto.
  pose proof (remove_facts cap l1 pk I1) as H2.
  destruct (lru_remove keqb kmap l1 pk) as [l2 [res2 e2]]. destruct H2 as [I2 B2].
  set (r' := match e1 with [] => r1 | _ :: _ => r2 end).
  pose proof (get_facts cap l2 pk r' I2) as H3.
  destruct (lru_get keqb kmap cap l2 pk r') as [l3 [res3 e3]]. destruct H3 as [I3 B3].
  split; [exact I3|]. eapply balanced_trans; [exact B1|]. eapply balanced_trans; eassumption.
Qed.

Lemma step_facts : forall cap (l : st) o,
  lru_inv cap l ->
  let '(l', (_, evs)) := lru_step keqb kmap expires cap l o in
  lru_inv cap l' /\ balanced l evs l'.
Proof.
  intros cap l [pk res|pk| |pk now r1 r2] Hinv; cbn [lru_step].
  - apply get_facts. exact Hinv.
  - apply remove_facts. exact Hinv.
  - apply clear_facts. exact Hinv.
  - apply eget_facts. exact Hinv.
Qed.

Lemma run_facts : forall cap ops (l : st),
  lru_inv cap l ->
  let '(outs, l') := lru_run keqb kmap expires cap l ops in
  lru_inv cap l' /\ balanced l (all_events outs) l'.
Proof.
  intros cap ops. induction ops as [|o t IH]; intros l Hinv; cbn [lru_run].
  - split; [exact Hinv|]. unfold balanced, all_events. cbn. rewrite app_nil_r. apply Permutation_refl.
  - pose proof (step_facts cap l o Hinv) as Hs.
    destruct (lru_step keqb kmap expires cap l o) as [l1 [r1 e1]]. destruct Hs as [I1 B1].
    pose proof (IH l1 I1) as Hr.
    destruct (lru_run keqb kmap expires cap l1 t) as [xs lf]. destruct Hr as [I2 B2].
    split; [exact I2|]. unfold all_events. cbn [map concat snd].
    eapply balanced_trans; eassumption.
Qed.

(** ** the theorems *)

Theorem delete_exactly_once : forall (cap : nat) (ops : list (lru_op PK V)),
  let '(outs, s) := lru_run keqb kmap expires cap [] ops in
  Permutation (created_ok (all_events outs)) (deleted (all_events outs) ++ resident s).
Proof.
  intros cap ops. pose proof (run_facts cap ops [] (conj (NoDup_nil _) (Nat.le_0_l _))) as H.
  destruct (lru_run keqb kmap expires cap [] ops) as [outs s]. destruct H as [_ H].
  exact H.
Qed.

Theorem resident_le_cap : forall (cap : nat) (ops : list (lru_op PK V)),
  length (resident (snd (lru_run keqb kmap expires cap [] ops))) <= cap.
Proof.
  intros cap ops. pose proof (run_facts cap ops [] (conj (NoDup_nil _) (Nat.le_0_l _))) as H.
  destruct (lru_run keqb kmap expires cap [] ops) as [outs s]. destruct H as [[_ H] _].
  cbn [snd]. unfold resident. rewrite map_length. exact H.
Qed.

Theorem resident_keys_distinct : forall (cap : nat) (ops : list (lru_op PK V)),
  NoDup (map fst (snd (lru_run keqb kmap expires cap [] ops))).
Proof.
  intros cap ops. pose proof (run_facts cap ops [] (conj (NoDup_nil _) (Nat.le_0_l _))) as H.
  destruct (lru_run keqb kmap expires cap [] ops) as [outs s]. destruct H as [[H _] _]. exact H.
Qed.

Lemma nodup_app_disjoint : forall {A} (a b : list A) x, NoDup (a ++ b) -> In x a -> ~ In x b.
Proof.
  intros A a b x. induction a as [|y t IH]; cbn [app In]; intros Hnd Hin.
  - destruct Hin.
  - inversion Hnd as [|? ? Hni Hnd']; subst. destruct Hin as [->|Hin].
    + intros Hc. apply Hni. apply in_or_app. right. exact Hc.
    + apply IH; assumption.
Qed.

Lemma nodup_app_parts : forall {A} (a b : list A), NoDup (a ++ b) -> NoDup a /\ NoDup b.
Proof.
  intros A a b. induction a as [|y t IH]; cbn [app]; intros Hnd.
  - split; [constructor|exact Hnd].
  - inversion Hnd as [|? ? Hni Hnd']; subst. destruct (IH Hnd') as [Ha Hb].
    split; [|exact Hb]. constructor; [|exact Ha].
    intros Hc. apply Hni. apply in_or_app. left. exact Hc.
Qed.

(* with values that identify their creation (ghost-unique): no value is deleted
   twice, and a value that has been deleted is not resident.  As the statement
   holds for every call sequence, it holds after every prefix: at no moment has
   the delete callback been run for an entry that is still in the cache. *)
Theorem never_delete_resident : forall (cap : nat) (ops : list (lru_op PK V)),
  let '(outs, s) := lru_run keqb kmap expires cap [] ops in
  NoDup (created_ok (all_events outs)) ->
  NoDup (deleted (all_events outs)) /\
  NoDup (resident s) /\
  forall x, In x (deleted (all_events outs)) -> ~ In x (resident s).
Proof.
  intros cap ops. pose proof (delete_exactly_once cap ops) as H.
  destruct (lru_run keqb kmap expires cap [] ops) as [outs s]. intros Hnd.
  pose proof (Permutation_NoDup H Hnd) as Hnd'.
  destruct (nodup_app_parts _ _ Hnd') as [Ha Hb].
  split; [exact Ha|]. split; [exact Hb|].
  intros x. apply nodup_app_disjoint. exact Hnd'.
Qed.

(** the reference LRU, case by case (what "behaves like an LRU" means) *)
Theorem lru_get_hit : forall cap (l : st) pk res pk0 v0,
  lru_find keqb (kmap pk) l = Some (pk0, v0) ->
  lru_get keqb kmap cap l pk res = (lru_del keqb (kmap pk) l ++ [(kmap pk, (pk0, v0))], (RVal v0, [])).
Proof. intros cap l pk res pk0 v0 Hf. unfold lru_get. rewrite Hf. reflexivity. Qed.

Theorem lru_get_miss_failed : forall cap (l : st) pk,
  lru_find keqb (kmap pk) l = None ->
  lru_get keqb kmap cap l pk None = (l, (RErr, [EvCreate pk None])).
Proof. intros cap l pk Hf. unfold lru_get. rewrite Hf. reflexivity. Qed.

Theorem lru_get_miss_room : forall cap (l : st) pk v,
  lru_find keqb (kmap pk) l = None -> length l < cap ->
  lru_get keqb kmap cap l pk (Some v) = (l ++ [(kmap pk, (pk, v))], (RVal v, [EvCreate pk (Some v)])).
Proof.
  intros cap l pk v Hf Hl. unfold lru_get. rewrite Hf.
  replace (cap <? length (l ++ [(kmap pk, (pk, v))]))%nat with false; [reflexivity|].
  symmetry. apply Nat.ltb_ge. rewrite app_length. cbn [length]. lia.
Qed.

Theorem lru_get_miss_evict : forall cap kd pkd vd (t : st) pk v,
  lru_find keqb (kmap pk) ((kd, (pkd, vd)) :: t) = None -> length ((kd, (pkd, vd)) :: t) = cap ->
  lru_get keqb kmap cap ((kd, (pkd, vd)) :: t) pk (Some v)
    = (t ++ [(kmap pk, (pk, v))], (RVal v, [EvCreate pk (Some v); EvDelete pkd vd])).
Proof.
  intros cap kd pkd vd t pk v Hf Hl. unfold lru_get. rewrite Hf.
  replace (cap <? length (((kd, (pkd, vd)) :: t) ++ [(kmap pk, (pk, v))]))%nat with true; [reflexivity|].
  symmetry. apply Nat.ltb_lt. rewrite app_length. cbn [length] in *. lia.
Qed.

End LRUFacts.
