(** Lemmas about the contract (spec/KV.v): association-list facts, the invariants
    [wf] (no repeated key) and [fresh] (every stored version was handed out
    before), and the contract-level statements of C03. *)
From Coq Require Import List ZArith NArith Arith Bool Lia.
From GL Require Import spec.KV.
Import ListNotations.

(** ** keys *)

Lemma key_eqb_eq : forall a b, key_eqb a b = true <-> a = b.
Proof.
  induction a as [|x a IH]; intros [|y b]; cbn [key_eqb]; split; intros H;
    try reflexivity; try discriminate.
  - apply andb_prop in H. destruct H as [H1 H2]. apply N.eqb_eq in H1. apply IH in H2. congruence.
  - injection H as -> ->. rewrite N.eqb_refl. cbn. apply IH. reflexivity.
Qed.

Lemma key_eqb_refl : forall a, key_eqb a a = true.
Proof. intros a. apply key_eqb_eq. reflexivity. Qed.

Lemma key_eqb_neq : forall a b, key_eqb a b = false <-> a <> b.
Proof.
  intros a b. split; intros H.
  - intros E. apply key_eqb_eq in E. congruence.
  - destruct (key_eqb a b) eqn:E; [|reflexivity]. apply key_eqb_eq in E. contradiction.
Qed.

Lemma key_eqb_sym : forall a b, key_eqb a b = key_eqb b a.
Proof.
  intros a b. destruct (key_eqb a b) eqn:E.
  - apply key_eqb_eq in E. subst. symmetry. apply key_eqb_refl.
  - symmetry. apply key_eqb_neq. apply key_eqb_neq in E. congruence.
Qed.

Lemma key_eq_dec : forall a b : key, {a = b} + {a <> b}.
Proof.
  intros a b. destruct (key_eqb a b) eqn:E.
  - left. apply key_eqb_eq. exact E.
  - right. apply key_eqb_neq. exact E.
Qed.

(** ** association lists (generic in the stored type) *)

Section Assoc.
Context {A : Type}.
Implicit Types (l : list (key * A)).

Fixpoint alookup (k : key) l : option A :=
  match l with
  | [] => None
  | (k', r) :: t => if key_eqb k k' then Some r else alookup k t
  end.

Definition aremove (k : key) l : list (key * A) :=
  filter (fun kr => negb (key_eqb k (fst kr))) l.

Definition aset (k : key) (r : A) l : list (key * A) := aremove k l ++ [(k, r)].

Definition akeys l : list key := map fst l.

Lemma alookup_app : forall k l1 l2,
  alookup k (l1 ++ l2) = match alookup k l1 with Some r => Some r | None => alookup k l2 end.
Proof.
  induction l1 as [|[k' r] t IH]; intros l2; cbn [app alookup]; [reflexivity|].
  destruct (key_eqb k k'); [reflexivity|apply IH].
Qed.

Lemma alookup_remove_same : forall k l, alookup k (aremove k l) = None.
Proof.
  induction l as [|[k' r] t IH]; cbn [aremove filter fst alookup]; [reflexivity|].
  destruct (key_eqb k k') eqn:E; cbn [negb].
  - exact IH.
  - cbn [alookup]. rewrite E. exact IH.
Qed.

Lemma alookup_remove_other : forall k k' l, k <> k' -> alookup k' (aremove k l) = alookup k' l.
Proof.
  induction l as [|[k2 r] t IH]; intros Hne; cbn [aremove filter fst alookup]; [reflexivity|].
  destruct (key_eqb k k2) eqn:E; cbn [negb].
  - apply key_eqb_eq in E. subst k2.
    assert (E' : key_eqb k' k = false) by (apply key_eqb_neq; congruence).
    rewrite E'. apply IH. exact Hne.
  - cbn [alookup]. destruct (key_eqb k' k2); [reflexivity|]. apply IH. exact Hne.
Qed.

Lemma alookup_set_same : forall k r l, alookup k (aset k r l) = Some r.
Proof.
  intros k r l. unfold aset. rewrite alookup_app, alookup_remove_same. cbn. rewrite key_eqb_refl. reflexivity.
Qed.

Lemma alookup_set_other : forall k k' r l, k <> k' -> alookup k' (aset k r l) = alookup k' l.
Proof.
  intros k k' r l Hne. unfold aset. rewrite alookup_app, alookup_remove_other by exact Hne.
  destruct (alookup k' l); [reflexivity|]. cbn.
  assert (E : key_eqb k' k = false) by (apply key_eqb_neq; congruence). rewrite E. reflexivity.
Qed.

Lemma akeys_remove : forall k l, akeys (aremove k l) = filter (fun k' => negb (key_eqb k k')) (akeys l).
Proof.
  induction l as [|[k' r] t IH]; cbn [aremove akeys filter map fst]; [reflexivity|].
  destruct (key_eqb k k'); cbn [negb map fst]; [exact IH|f_equal; exact IH].
Qed.

Lemma in_akeys_remove : forall k k' l, In k' (akeys (aremove k l)) <-> In k' (akeys l) /\ k <> k'.
Proof.
  intros k k' l. rewrite akeys_remove, filter_In, negb_true_iff, key_eqb_neq. tauto.
Qed.

Lemma NoDup_remove : forall k l, NoDup (akeys l) -> NoDup (akeys (aremove k l)).
Proof.
  intros k l H. rewrite akeys_remove. apply NoDup_filter. exact H.
Qed.

Lemma NoDup_snoc : forall (l : list key) x, NoDup l -> ~ In x l -> NoDup (l ++ [x]).
Proof.
  induction l as [|a t IH]; intros x Hnd Hx; cbn.
  - constructor; [intros []|constructor].
  - inversion Hnd as [|? ? Ha Ht]; subst. constructor.
    + intros Hin. apply in_app_or in Hin. destruct Hin as [Hin|[<-|[]]]; [auto|].
      apply Hx. left. reflexivity.
    + apply IH; [exact Ht|]. intros Hin. apply Hx. right. exact Hin.
Qed.

Lemma NoDup_set : forall k r l, NoDup (akeys l) -> NoDup (akeys (aset k r l)).
Proof.
  intros k r l H. unfold aset, akeys. rewrite map_app. cbn [map fst].
  apply NoDup_snoc; [apply NoDup_remove; exact H|].
  intros Hin. apply in_akeys_remove in Hin. destruct Hin as [_ Hne]. congruence.
Qed.

Lemma alookup_None_notin : forall k l, alookup k l = None <-> ~ In k (akeys l).
Proof.
  induction l as [|[k' r] t IH]; cbn [alookup akeys map fst In]; [tauto|].
  destruct (key_eqb k k') eqn:E.
  - apply key_eqb_eq in E. subst. split; [discriminate|]. intros H. exfalso. apply H. left. reflexivity.
  - apply key_eqb_neq in E. rewrite IH. split; intros H; [intros [H1|H1]; [congruence|auto]|tauto].
Qed.

Lemma alookup_In : forall k r l, alookup k l = Some r -> In (k, r) l.
Proof.
  induction l as [|[k' r'] t IH]; cbn [alookup]; [discriminate|].
  destruct (key_eqb k k') eqn:E; intros H.
  - apply key_eqb_eq in E. injection H as <-. subst. left. reflexivity.
  - right. apply IH. exact H.
Qed.

Lemma In_alookup : forall k r l, NoDup (akeys l) -> In (k, r) l -> alookup k l = Some r.
Proof.
  induction l as [|[k' r'] t IH]; intros Hnd Hin; [destruct Hin|].
  cbn [akeys map fst] in Hnd. inversion Hnd as [|? ? Hn Ht]; subst.
  cbn [alookup]. destruct Hin as [Heq|Hin].
  - injection Heq as -> ->. rewrite key_eqb_refl. reflexivity.
  - destruct (key_eqb k k') eqn:E.
    + apply key_eqb_eq in E. subst k'. exfalso. apply Hn. apply (in_map fst) in Hin. exact Hin.
    + apply IH; assumption.
Qed.

Lemma aremove_absent : forall k l, ~ In k (akeys l) -> aremove k l = l.
Proof.
  induction l as [|[k' r] t IH]; intros H; cbn [aremove filter fst]; [reflexivity|].
  cbn [akeys map fst In] in H.
  assert (E : key_eqb k k' = false) by (apply key_eqb_neq; intros ->; apply H; left; reflexivity).
  rewrite E. cbn [negb]. f_equal. apply IH. intros Hin. apply H. right. exact Hin.
Qed.

Lemma aremove_comm : forall k k' l, aremove k (aremove k' l) = aremove k' (aremove k l).
Proof.
  induction l as [|[k2 r] t IH]; cbn [aremove filter fst]; [reflexivity|].
  destruct (key_eqb k' k2) eqn:E1, (key_eqb k k2) eqn:E2; cbn [negb filter fst];
    rewrite ?E1, ?E2; cbn [negb]; try exact IH. f_equal. exact IH.
Qed.

Lemma aremove_idem : forall k l, aremove k (aremove k l) = aremove k l.
Proof.
  intros k l. apply aremove_absent. intros H. apply in_akeys_remove in H. destruct H as [_ H]. congruence.
Qed.

(* a filter that rejects every entry of key [k] does not see whether they are there *)
Lemma filter_remove_dead : forall (f : key * A -> bool) k l,
  (forall kr, In kr l -> fst kr = k -> f kr = false) ->
  filter f (aremove k l) = filter f l.
Proof.
  induction l as [|[k' r] t IH]; intros H; cbn [aremove filter fst]; [reflexivity|].
  destruct (key_eqb k k') eqn:E; cbn [negb].
  - apply key_eqb_eq in E. subst k'. rewrite (H (k, r)); [|left; reflexivity|reflexivity].
    apply IH. intros kr Hin. apply H. right. exact Hin.
  - cbn [filter]. destruct (f (k', r)); [f_equal|]; apply IH; intros kr Hin; apply H; right; exact Hin.
Qed.

End Assoc.

(** the contract's own functions are these *)
Lemma lookup_alookup : forall k l, lookup k l = alookup k l.
Proof. induction l as [|[k' r] t IH]; cbn; [reflexivity|]. rewrite IH. reflexivity. Qed.

Lemma remove_aremove : forall k l, remove k l = aremove k l.
Proof. reflexivity. Qed.

Lemma set_aset : forall k r l, set k r l = aset k r l.
Proof. reflexivity. Qed.

(** ** invariants of the contract state *)

Definition wf (s : state) : Prop := NoDup (akeys (recs s)).

(* every stored version is positive and was handed out before *)
Definition fresh (s : state) : Prop :=
  0 < next s /\ forall k r, In (k, r) (recs s) -> 0 < ver r < next s.

Lemma wf_init : wf init.
Proof. constructor. Qed.

Lemma fresh_init : fresh init.
Proof. split; [cbn; lia|intros k r []]. Qed.

Lemma wf_write : forall k v e s, wf s -> wf (fst (write k v e s)).
Proof. intros k v e s H. unfold wf, write. cbn [fst recs]. apply NoDup_set. exact H. Qed.

Lemma in_remove : forall k kr (l : list (key * rec)), In kr (remove k l) -> In kr l.
Proof. intros k kr l H. apply filter_In in H. tauto. Qed.

Lemma fresh_write : forall k v e s, fresh s -> fresh (fst (write k v e s)).
Proof.
  intros k v e s [Hp H]. unfold write. cbn [fst]. split; cbn [next recs]; [lia|].
  intros k' r Hin. apply in_app_or in Hin. destruct Hin as [Hin|[Heq|[]]].
  - apply in_remove in Hin. specialize (H _ _ Hin). lia.
  - injection Heq as <- <-. cbn. lia.
Qed.

Lemma wf_put_many : forall rs s, wf s -> wf (put_many rs s).
Proof.
  induction rs as [|[[k v] e] t IH]; intros s H; cbn [put_many]; [exact H|].
  apply IH. apply wf_write. exact H.
Qed.

Lemma fresh_put_many : forall rs s, fresh s -> fresh (put_many rs s).
Proof.
  induction rs as [|[[k v] e] t IH]; intros s H; cbn [put_many]; [exact H|].
  apply IH. apply fresh_write. exact H.
Qed.

Lemma next_put_many : forall rs s, next (put_many rs s) = length rs + next s.
Proof.
  induction rs as [|[[k v] e] t IH]; intros s; cbn [put_many length]; [reflexivity|].
  rewrite IH. cbn. lia.
Qed.

Lemma step_wf : forall s now o, wf s -> wf (fst (step s now o)).
Proof.
  intros s now o H. destruct o; cbn [step].
  - destruct (find now k s); cbn [fst]; [exact H|]. apply (wf_write k v e s H).
  - destruct (find now k s); exact H.
  - exact H.
  - apply (wf_write k v e s H).
  - cbn [fst]. apply wf_put_many. exact H.
  - destruct (find now k s) as [r|]; [|exact H].
    destruct (Nat.eqb (ver r) expected); [|exact H]. apply (wf_write k v e s H).
  - destruct (find now k s); [|exact H]. cbn [fst]. unfold wf. cbn [recs]. apply NoDup_remove. exact H.
  - exact H.
Qed.

Lemma step_fresh : forall s now o, fresh s -> fresh (fst (step s now o)).
Proof.
  intros s now o H. destruct o; cbn [step].
  - destruct (find now k s); cbn [fst]; [exact H|]. apply (fresh_write k v e s H).
  - destruct (find now k s); exact H.
  - exact H.
  - apply (fresh_write k v e s H).
  - cbn [fst]. apply fresh_put_many. exact H.
  - destruct (find now k s) as [r|]; [|exact H].
    destruct (Nat.eqb (ver r) expected); [|exact H]. apply (fresh_write k v e s H).
  - destruct (find now k s) as [r0|]; [|exact H]. cbn [fst]. destruct H as [Hp H]. split; [exact Hp|].
    cbn [recs next]. intros k' r Hin. apply in_remove in Hin. eauto.
  - exact H.
Qed.

Lemma run_app : forall a b s, run s (a ++ b) =
  let '(xs, s1) := run s a in let '(ys, s2) := run s1 b in (xs ++ ys, s2).
Proof.
  induction a as [|[now o] t IH]; intros b s; cbn [app run].
  - destruct (run s b). reflexivity.
  - destruct (step s now o) as [s' x]. rewrite IH. destruct (run s' t) as [xs s1].
    destruct (run s1 b) as [ys s2]. reflexivity.
Qed.

Lemma run_wf_fresh : forall ops s, wf s -> fresh s -> wf (snd (run s ops)) /\ fresh (snd (run s ops)).
Proof.
  induction ops as [|[now o] t IH]; intros s Hw Hf; cbn [run]; [auto|].
  pose proof (step_wf s now o Hw) as Hw'. pose proof (step_fresh s now o Hf) as Hf'.
  destruct (step s now o) as [s' x]. cbn [fst] in *.
  specialize (IH s' Hw' Hf'). destruct (run s' t) as [xs sf]. exact IH.
Qed.

(** ** the contract-level statements of C03 *)

Definition present (s : state) (now : Z) (k : key) : Prop := find now k s <> None.

(* Create on a present key fails with ErrExist and reports the stored version, nothing changes;
   on an absent (or expired) key it succeeds with a version never handed out before *)
Lemma create_exist_reports_version : forall s now k v e,
  (forall r, find now k s = Some r -> step s now (Create k v e) = (s, OExist (ver r))) /\
  (find now k s = None ->
     step s now (Create k v e) = (mkSt (set k (mkRec v (next s) e) (recs s)) (S (next s)), OVer (next s))).
Proof.
  intros s now k v e. split.
  - intros r H. cbn [step]. rewrite H. reflexivity.
  - intros H. cbn [step]. rewrite H. reflexivity.
Qed.

Lemma find_write_same : forall s now k v e,
  find now k (fst (write k v e s)) =
  if expired now (mkRec v (next s) e) then None else Some (mkRec v (next s) e).
Proof.
  intros. unfold find, write. cbn [fst recs]. rewrite lookup_alookup, set_aset, alookup_set_same. reflexivity.
Qed.

Lemma find_write_other : forall s now k k' v e, k <> k' ->
  find now k' (fst (write k v e s)) = find now k' s.
Proof.
  intros. unfold find, write. cbn [fst recs].
  rewrite !lookup_alookup, set_aset, alookup_set_other by assumption. reflexivity.
Qed.

(* the keys an operation may modify *)
Definition touches (o : op) (k : key) : bool :=
  match o with
  | Create k' _ _ | Put k' _ _ | CasByVersion k' _ _ _ | Delete k' => key_eqb k' k
  | PutMany rs => existsb (fun r => key_eqb (fst (fst r)) k) rs
  | Get _ | GetMany _ | ListKeys _ => false
  end.

Lemma lookup_write_other : forall s k k' v e, k <> k' ->
  lookup k' (recs (fst (write k v e s))) = lookup k' (recs s).
Proof.
  intros. unfold write. cbn [fst recs]. rewrite !lookup_alookup, set_aset, alookup_set_other by assumption.
  reflexivity.
Qed.

Lemma lookup_put_many_other : forall rs s k,
  existsb (fun r => key_eqb (fst (fst r)) k) rs = false ->
  lookup k (recs (put_many rs s)) = lookup k (recs s).
Proof.
  induction rs as [|[[k' v] e] t IH]; intros s k H; cbn [put_many]; [reflexivity|].
  cbn [existsb fst] in H. apply orb_false_elim in H. destruct H as [H1 H2].
  rewrite IH by exact H2. apply lookup_write_other. apply key_eqb_neq. exact H1.
Qed.

(* frame: an operation that does not touch [k] leaves the record of [k] alone -- whether or not
   it has an expiration, and whatever the clock says *)
Lemma step_frame : forall s now o k, touches o k = false ->
  lookup k (recs (fst (step s now o))) = lookup k (recs s).
Proof.
  intros s now o k H. destruct o; cbn [touches] in H; cbn [step].
  - destruct (find now k0 s); [reflexivity|]. apply (lookup_write_other s k0 k v e). apply key_eqb_neq. exact H.
  - destruct (find now k0 s); reflexivity.
  - reflexivity.
  - apply (lookup_write_other s k0 k v e). apply key_eqb_neq. exact H.
  - cbn [fst]. apply lookup_put_many_other. exact H.
  - destruct (find now k0 s) as [r|]; [|reflexivity].
    destruct (Nat.eqb (ver r) expected); [|reflexivity].
    apply (lookup_write_other s k0 k v e). apply key_eqb_neq. exact H.
  - destruct (find now k0 s); [|reflexivity]. cbn [fst recs].
    rewrite !lookup_alookup, remove_aremove. apply alookup_remove_other. apply key_eqb_neq. exact H.
  - reflexivity.
Qed.

Lemma run_frame : forall ops s k, (forall no, In no ops -> touches (snd no) k = false) ->
  lookup k (recs (snd (run s ops))) = lookup k (recs s).
Proof.
  induction ops as [|[now o] t IH]; intros s k H; cbn [run]; [reflexivity|].
  pose proof (step_frame s now o k (H (now, o) (or_introl eq_refl))) as Hf.
  destruct (step s now o) as [s' x]. cbn [fst] in Hf.
  specialize (IH s' k (fun no Hin => H no (or_intror Hin))).
  destruct (run s' t) as [xs sf]. cbn [snd] in *. congruence.
Qed.

(* Get returns the last written key, value, version and expiry: after a Put of [k] and any
   operations that do not touch [k], a Get at an instant at which the record has not expired
   returns exactly what was put, under the version the Put announced *)
Lemma get_returns_last_write : forall s now k v e ops now',
  (forall no, In no ops -> touches (snd no) k = false) ->
  (match e with Some t => (now' <= t)%Z | None => True end) ->
  let '(s1, o1) := step s now (Put k v e) in
  o1 = ORec (k, v, next s, e) /\
  snd (step (snd (run s1 ops)) now' (Get k)) = ORec (k, v, next s, e).
Proof.
  intros s now k v e ops now' Hops He. cbn [step].
  destruct (write k v e s) as [s1 n] eqn:Ew. unfold write in Ew. injection Ew as <- <-.
  split; [reflexivity|].
  set (s1 := mkSt _ _).
  pose proof (run_frame ops s1 k Hops) as Hf.
  unfold find. rewrite Hf. unfold s1. cbn [recs].
  rewrite lookup_alookup, set_aset, alookup_set_same.
  unfold expired. cbn [exp]. destruct e as [t|]; [|reflexivity].
  assert (E : Z.ltb t now' = false) by (apply Z.ltb_ge; exact He). rewrite E. reflexivity.
Qed.

(* the same for a successful Create and a successful CasByVersion: they store through [write] too *)
Lemma write_then_get : forall s now' k v e ops,
  (forall no, In no ops -> touches (snd no) k = false) ->
  (match e with Some t => (now' <= t)%Z | None => True end) ->
  snd (step (snd (run (fst (write k v e s)) ops)) now' (Get k)) = ORec (k, v, next s, e).
Proof.
  intros s now' k v e ops Hops He.
  pose proof (run_frame ops (fst (write k v e s)) k Hops) as Hf.
  cbn [step]. unfold find. rewrite Hf. unfold write. cbn [fst recs].
  rewrite lookup_alookup, set_aset, alookup_set_same.
  unfold expired. cbn [exp]. destruct e as [t|]; [|reflexivity].
  assert (E : Z.ltb t now' = false) by (apply Z.ltb_ge; exact He). rewrite E. reflexivity.
Qed.

(* every successful write stores a version that was never handed out before; nothing else changes
   a version; the counter never decreases *)
Lemma writes_get_new_version : forall s now o, fresh s ->
  let s' := fst (step s now o) in
  fresh s' /\ next s <= next s' /\
  forall k r, In (k, r) (recs s') -> In (k, r) (recs s) \/ next s <= ver r < next s'.
Proof.
  intros s now o Hf. cbn zeta. split; [apply step_fresh; exact Hf|].
  assert (Hw : forall k v e, next s <= next (fst (write k v e s)) /\
             forall k' r, In (k', r) (recs (fst (write k v e s))) -> In (k', r) (recs s) \/ next s <= ver r < next (fst (write k v e s))).
  { intros k v e. unfold write. cbn [fst next recs]. split; [lia|].
    intros k' r Hin. apply in_app_or in Hin. destruct Hin as [Hin|[Heq|[]]].
    - left. eapply in_remove. exact Hin.
    - right. injection Heq as <- <-. cbn. lia. }
  destruct o; cbn [step].
  - destruct (find now k s); cbn [fst]; [split; [lia|auto]|]. apply (Hw k v e).
  - destruct (find now k s); cbn [fst]; split; auto.
  - cbn [fst]. split; auto.
  - apply (Hw k v e).
  - cbn [fst]. rewrite next_put_many. split; [lia|].
    clear Hw. revert s Hf. induction rs as [|[[k v] e] t IH]; intros s Hf k' r Hin; cbn [put_many] in Hin; [auto|].
    apply IH in Hin; [|apply fresh_write; exact Hf].
    cbn [length]. unfold write in Hin. cbn [fst next recs] in Hin.
    destruct Hin as [Hin|Hin]; [|right; lia].
    apply in_app_or in Hin. destruct Hin as [Hin|[Heq|[]]].
    + left. eapply in_remove. exact Hin.
    + right. injection Heq as <- <-. cbn. lia.
  - destruct (find now k s) as [r|]; [|cbn [fst]; split; auto].
    destruct (Nat.eqb (ver r) expected); [|cbn [fst]; split; auto]. apply (Hw k v e).
  - destruct (find now k s) as [r0|]; cbn [fst]; [|split; auto]. cbn [next recs]. split; [lia|].
    intros k' r Hin. left. eapply in_remove. exact Hin.
  - cbn [fst]. split; auto.
Qed.

(* CasByVersion distinguishes the three cases *)
Lemma cas_distinguishes_notexist_conflict : forall s now k v e n,
  (snd (step s now (CasByVersion k v e n)) = ONotExist <-> find now k s = None) /\
  (snd (step s now (CasByVersion k v e n)) = OConflict <-> exists r, find now k s = Some r /\ ver r <> n) /\
  (snd (step s now (CasByVersion k v e n)) = ORec (k, v, next s, e) <-> exists r, find now k s = Some r /\ ver r = n) /\
  (snd (step s now (CasByVersion k v e n)) <> ORec (k, v, next s, e) -> fst (step s now (CasByVersion k v e n)) = s).
Proof.
  intros s now k v e n. cbn [step]. destruct (find now k s) as [r|].
  - destruct (Nat.eqb (ver r) n) eqn:E; cbn [snd fst].
    + apply Nat.eqb_eq in E.
      split; [split; discriminate|].
      split; [split; [discriminate|intros [r' [H1 H2]]; injection H1 as <-; contradiction]|].
      split; [split; [intros _; exists r; auto|reflexivity]|intros H; contradiction].
    + apply Nat.eqb_neq in E.
      split; [split; discriminate|].
      split; [split; [intros _; exists r; auto|reflexivity]|].
      split; [split; [discriminate|intros [r' [H1 H2]]; injection H1 as <-; contradiction]|reflexivity].
  - cbn [snd fst].
    split; [split; reflexivity|].
    split; [split; [discriminate|intros [r [H _]]; discriminate]|].
    split; [split; [discriminate|intros [r [H _]]; discriminate]|reflexivity].
Qed.

(* Delete reports ErrNotExist exactly for a missing (or expired) key; otherwise the key is gone *)
Lemma delete_missing_notexist : forall s now k,
  (snd (step s now (Delete k)) = ONotExist <-> find now k s = None) /\
  (snd (step s now (Delete k)) = OOk <-> find now k s <> None) /\
  (snd (step s now (Delete k)) = OOk -> forall now', find now' k (fst (step s now (Delete k))) = None).
Proof.
  intros s now k. cbn [step]. destruct (find now k s) as [r|]; cbn [snd fst].
  - split; [split; discriminate|]. split; [split; [discriminate|reflexivity]|].
    intros _ now'. unfold find. cbn [recs]. rewrite lookup_alookup, remove_aremove, alookup_remove_same. reflexivity.
  - split; [split; reflexivity|]. split; [split; [discriminate|intros H; contradiction]|discriminate].
Qed.

(* ListKeys returns exactly the present keys that match the pattern (each once) *)
Lemma listkeys_exact : forall s now p, wf s ->
  exists ks, step s now (ListKeys p) = (s, OKeys ks) /\ NoDup ks /\
    forall k, In k ks <-> (present s now k /\ matches p k = true).
Proof.
  intros s now p Hw. cbn [step]. eexists. split; [reflexivity|]. split.
  - unfold wf, akeys in Hw. revert Hw. generalize (recs s). induction l as [|[k r] t IH]; intros Hnd; cbn; [constructor|].
    inversion Hnd as [|? ? Hn Ht]; subst.
    destruct (negb (expired now r) && matches p k); cbn; [|auto].
    constructor; [|auto]. intros Hin. apply Hn. apply in_map_iff in Hin.
    destruct Hin as [[k' r'] [Heq Hin]]. cbn in Heq. subst k'. apply filter_In in Hin.
    destruct Hin as [Hin _]. apply (in_map fst) in Hin. exact Hin.
  - intros k. rewrite in_map_iff. unfold present, find. split.
    + intros [[k' r] [Heq Hin]]. cbn in Heq. subst k'. apply filter_In in Hin. destruct Hin as [Hin Hf].
      cbn [fst snd] in Hf. apply andb_prop in Hf. destruct Hf as [H1 H2].
      rewrite lookup_alookup, (In_alookup k r _ Hw Hin).
      apply negb_true_iff in H1. rewrite H1. split; [discriminate|exact H2].
    + intros [H1 H2]. rewrite lookup_alookup in H1. destruct (alookup k (recs s)) as [r|] eqn:E; [|contradiction].
      destruct (expired now r) eqn:Ex; [contradiction|].
      exists (k, r). split; [reflexivity|]. apply filter_In. split; [apply alookup_In; exact E|].
      cbn [fst snd]. rewrite Ex, H2. reflexivity.
Qed.

(* GetMany answers every position like a Get of that key (repeated keys included) and changes
   nothing; PutMany is the sequence of its Puts (so of two records with the same key the later
   one stays, and every record gets its own new version) *)
Lemma getmany_putmany_repeated_keys : forall s now,
  (forall ks, step s now (GetMany ks) =
     (s, ORecs (map (fun k => match snd (step s now (Get k)) with ORec r => Some r | _ => None end) ks))) /\
  (forall rs, fst (step s now (PutMany rs)) =
     fold_left (fun s r => fst (step s now (Put (fst (fst r)) (snd (fst r)) (snd r)))) rs s) /\
  (forall rs, snd (step s now (PutMany rs)) = OOk /\ next (fst (step s now (PutMany rs))) = length rs + next s).
Proof.
  intros s now. split; [|split].
  - intros ks. cbn [step]. f_equal. f_equal. apply map_ext. intros k.
    destruct (find now k s); reflexivity.
  - intros rs. cbn [step fst]. revert s. induction rs as [|[[k v] e] t IH]; intros s; cbn [put_many fold_left]; [reflexivity|].
    rewrite IH. reflexivity.
  - intros rs. cbn [step fst snd]. split; [reflexivity|apply next_put_many].
Qed.
