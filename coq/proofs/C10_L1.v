(** C10, layer L1 <-> L2, part 2: the list-walking code of the pointer model
    ([n_delete], [i_next], [i_getvalue], [i_release]) simulates the chain
    functions ([c_delete], [c_next], ...) on the represented list. *)
From Coq Require Import List ZArith Arith Bool Lia.
From GL Require Import lib.IMapBase model.IMap model.Chain
  proofs.C10_Assoc proofs.C10_Cells proofs.C10_Next proofs.C10_Heap.
Import ListNotations.
Open Scope Z_scope.

Ltac nthupd :=
  repeat first [ rewrite upd_length
               | rewrite nth_upd_other by congruence
               | erewrite nth_upd_same; [|solve [nthupd; first [eassumption | reflexivity]]] ].

(** * The chain primitives on a split list *)

Lemma cupd_cons s f c t : cupd s f (c :: t) = (if at_stamp s c then f c else c) :: cupd s f t.
Proof. reflexivity. Qed.

Lemma cdel_cons s c t : cdel s (c :: t) = if negb (at_stamp s c) then c :: cdel s t else cdel s t.
Proof. reflexivity. Qed.

Lemma at_stamp_refl c : at_stamp (c_stamp c) c = true.
Proof. apply Nat.eqb_refl. Qed.

Section Split.
Variables (z1 z2 : list (nat * cell)) (x : nat) (cl : cell).
Hypothesis Hnd : NoDup (stamps_of (z1 ++ (x, cl) :: z2)).

Lemma split_ne1 : Forall (fun c => c_stamp c <> c_stamp cl) (map snd z1).
Proof.
  rewrite stamps_app in Hnd. cbn [stamps_of map snd] in Hnd. apply NoDup_remove_2 in Hnd.
  apply Forall_forall. intros c Hc Heq. apply Hnd. rewrite in_app_iff. left.
  apply in_map_iff in Hc. destruct Hc as (z & <- & Hz). rewrite <- Heq.
  apply (in_map (fun z => c_stamp (snd z))). exact Hz.
Qed.

Lemma split_ne2 : Forall (fun c => c_stamp c <> c_stamp cl) (map snd z2).
Proof.
  rewrite stamps_app in Hnd. cbn [stamps_of map snd] in Hnd. apply NoDup_remove_2 in Hnd.
  apply Forall_forall. intros c Hc Heq. apply Hnd. rewrite in_app_iff. right.
  apply in_map_iff in Hc. destruct Hc as (z & <- & Hz). rewrite <- Heq.
  apply (in_map (fun z => c_stamp (snd z))). exact Hz.
Qed.

Lemma cfind_split : cfind (c_stamp cl) (map snd (z1 ++ (x, cl) :: z2)) = Ok cl.
Proof.
  unfold cfind. rewrite map_app, find_app, (find_stamp_none _ _ split_ne1). cbn [map snd find].
  rewrite at_stamp_refl. reflexivity.
Qed.

Lemma cupd_split f : c_stamp (f cl) = c_stamp cl ->
  cupd (c_stamp cl) f (map snd (z1 ++ (x, cl) :: z2)) = map snd (z1 ++ (x, f cl) :: z2).
Proof.
  intros _. rewrite !map_app, cupd_app, (cupd_none _ _ _ split_ne1). cbn [map snd].
  rewrite cupd_cons, at_stamp_refl, (cupd_none _ _ _ split_ne2). reflexivity.
Qed.

Lemma cdel_split : cdel (c_stamp cl) (map snd (z1 ++ (x, cl) :: z2)) = map snd (z1 ++ z2).
Proof.
  rewrite !map_app, cdel_app, (cdel_none _ _ split_ne1). cbn [map snd].
  rewrite cdel_cons, at_stamp_refl. cbn [negb]. rewrite (cdel_none _ _ split_ne2). reflexivity.
Qed.

Lemma csucc_split :
  csucc (c_stamp cl) (map snd (z1 ++ (x, cl) :: z2)) = option_map (fun z => c_stamp (snd z)) (hd_error z2).
Proof.
  rewrite map_app. pose proof split_ne1 as H1. induction (map snd z1) as [|c t IH]; cbn [app csucc].
  - cbn [map snd csucc]. rewrite at_stamp_refl. destruct z2; reflexivity.
  - inversion H1 as [|? ? Hc Ht]; subst. apply at_stamp_false in Hc. rewrite Hc. apply IH. exact Ht.
Qed.

End Split.

(** * stamp -> id pairs: what survives keeps its node *)

Definition sid (zs : list (nat * cell)) : list (nat * nat) := map (fun z => (c_stamp (snd z), fst z)) zs.

Lemma sid_app z1 z2 : sid (z1 ++ z2) = sid z1 ++ sid z2.
Proof. apply map_app. Qed.

Lemma sid_fst zs : map fst (sid zs) = stamps_of zs.
Proof. unfold sid, stamps_of. rewrite map_map. reflexivity. Qed.

Lemma sid_in zs st y : In (st, y) (sid zs) <-> exists cl, In (y, cl) zs /\ c_stamp cl = st.
Proof.
  unfold sid. rewrite in_map_iff. split.
  - intros ([y' cl] & [= <- <-] & Hin). eauto.
  - intros (cl & Hin & <-). exists (y, cl). auto.
Qed.

(** * [rlItem.delete] *)

Lemma ids_cons z t : ids_of (z :: t) = fst z :: ids_of t.
Proof. reflexivity. Qed.

Definition mark (c : cell) : cell := cset_st StDeleted (cset_val 0 c).

Lemma upd_upd_same h : forall x f g, upd (upd h x f) x g = upd h x (fun n => g (f n)).
Proof. induction h as [|n t IH]; intros [|x] f g; cbn; auto. f_equal. apply IH. Qed.

Lemma last_app_cons {A} (l1 : list A) a l2 d : List.last (l1 ++ a :: l2) d = List.last (a :: l2) d.
Proof.
  induction l1 as [|b t IH]; [reflexivity|]. cbn [app]. rewrite <- IH.
  destruct (t ++ a :: l2) eqn:E; [destruct t; discriminate|reflexivity].
Qed.

Definition n_delete_body (h : heap) (x : nat) (n : node) : res (heap * option nat) :=
  let h := upd h x (set_val 0) in
  if n_ref n =? 0 then
    match n_prev n with
    | Some p =>
        h <- wr h p (set_next (n_next n)) ;;
        nx <- deref (n_next n) ;;
        h <- wr h nx (set_prev (Some p)) ;;
        let h := upd h x (fun n => set_prev None (set_next None n)) in
        Ok (h, None)
    | None =>
        nx <- deref (n_next n) ;;
        h <- wr h nx (set_prev None) ;;
        let h := upd h x (set_next None) in
        Ok (h, Some nx)
    end
  else Ok (upd h x (set_st StDeleted), None).

Lemma n_delete_nonlast h x n : nth_error h x = Some n -> n_st n <> StLast ->
  n_delete h x = n_delete_body h x n.
Proof.
  intros Hn Hst. unfold n_delete. rewrite (get_ok _ _ _ Hn). cbn [bind].
  destruct (n_st n); [congruence|reflexivity|reflexivity].
Qed.

Lemma c_delete_nonlast cs s c : cfind s cs = Ok c -> c_st c <> StLast ->
  c_delete cs s = (if c_ref c =? 0 then _ <- deref (csucc s cs) ;; Ok (cdel s cs)
                   else Ok (cupd s (fun c => cset_st StDeleted (cset_val 0 c)) cs)).
Proof.
  intros Hc Hst. unfold c_delete. rewrite Hc. cbn [bind].
  destruct (c_st c); [congruence|reflexivity|reflexivity].
Qed.

Lemma nodup_mid_l {A} (l1 l2 : list A) a w : NoDup (l1 ++ a :: l2) -> In w l1 -> w <> a.
Proof. intros H Hw ->. apply NoDup_remove_2 in H. apply H. apply in_app_iff. left. exact Hw. Qed.

Lemma nodup_mid_r {A} (l1 l2 : list A) a w : NoDup (l1 ++ a :: l2) -> In w l2 -> w <> a.
Proof. intros H Hw ->. apply NoDup_remove_2 in H. apply H. apply in_app_iff. right. exact Hw. Qed.

Lemma unlink_sim h z1 x cl y cly z2 n :
  core h (z1 ++ (x, cl) :: (y, cly) :: z2) -> nth_error h x = Some n -> n_ref n = 0 ->
  exists h' nh,
    n_delete_body h x n = Ok (h', nh) /\ core h' (z1 ++ (y, cly) :: z2) /\ length h' = length h /\
    (forall w, ~ In w (ids_of (z1 ++ (x, cl) :: (y, cly) :: z2)) -> nth_error h' w = nth_error h w) /\
    nh = (match z1 with [] => Some y | _ => None end) /\
    (exists n', nth_error h' x = Some n' /\ n_ref n' = 0).
Proof.
  intros Hcore Hn Hr.
  pose proof (co_ids _ _ Hcore) as Hids. rewrite ids_app, !ids_cons in Hids. cbn [fst] in Hids.
  pose proof (co_dseg _ _ Hcore) as Hd. rewrite ids_app, !ids_cons in Hd. cbn [fst] in Hd.
  apply dseg_app in Hd. destruct Hd as [Hda Hdb]. cbn [head_or] in Hda.
  cbn [dseg] in Hdb. destruct Hdb as (m & Hm & Hmp & Hmx & (ny & Hny & Hyp & Hyx & Hdt)).
  assert (m = n) by congruence. subst m.
  assert (Hxy : x <> y).
  { intros ->. apply NoDup_remove_2 in Hids. apply Hids. apply in_app_iff. right. left. reflexivity. }
  assert (Hz2x : forall w, In w (ids_of z2) -> w <> x).
  { intros w Hw. apply (nodup_mid_r _ _ _ _ Hids). right. exact Hw. }
  assert (Hz1x : forall w, In w (ids_of z1) -> w <> x).
  { intros w Hw. apply (nodup_mid_l _ _ _ _ Hids). exact Hw. }
  pose proof Hids as Hids'. apply NoDup_remove_1 in Hids'.
  assert (Hz2y : forall w, In w (ids_of z2) -> w <> y).
  { intros w Hw. apply (nodup_mid_r _ _ _ _ Hids'). exact Hw. }
  assert (Hz1y : forall w, In w (ids_of z1) -> w <> y).
  { intros w Hw. apply (nodup_mid_l _ _ _ _ Hids'). exact Hw. }
  unfold n_delete_body. cbn zeta. rewrite Hr. cbn [Z.eqb].
  destruct (list_snoc_cases z1) as [->|(z1' & [p clp] & ->)].
  - (* x is the head *)
    cbn [ids_of map last_or] in Hmp. rewrite Hmp, Hmx. cbn [deref bind].
    erewrite wr_ok by (nthupd; exact Hny). cbn [bind app] in *.
    eexists. eexists. split; [reflexivity|].
    split.
    { eapply (core_relink_head h _ x cl y cly z2 ny (set_prev None ny)); try reflexivity; try exact Hcore; try exact Hny.
      - intros w Hw. pose proof (Hz2x w Hw). pose proof (Hz2y w Hw). nthupd. reflexivity.
      - nthupd. reflexivity.
      - repeat split. }
    split; [nthupd; reflexivity|].
    split.
    { intros w Hw. rewrite !ids_cons in Hw. cbn [fst In] in Hw.
      assert (w <> x) by (intros ->; tauto). assert (w <> y) by (intros ->; tauto). nthupd. reflexivity. }
    split; [reflexivity|].
    eexists. split; [nthupd; reflexivity|]. cbn. exact Hr.
  - (* x has a predecessor p *)
    rewrite ids_app, ids_cons in Hmp, Hda, Hz1x, Hz1y. cbn [fst ids_of map] in Hmp, Hda, Hz1x, Hz1y.
    rewrite last_or_snoc in Hmp. rewrite Hmp, Hmx. cbn [deref bind].
    assert (Hpx : p <> x) by (apply Hz1x; apply in_app_iff; right; left; reflexivity).
    assert (Hpy : p <> y) by (apply Hz1y; apply in_app_iff; right; left; reflexivity).
    destruct (dseg_in_valid _ _ _ _ p Hda) as (np & Hnp); [apply in_app_iff; right; left; reflexivity|].
    erewrite wr_ok by (nthupd; exact Hnp). cbn [bind].
    erewrite wr_ok by (nthupd; exact Hny). cbn [bind].
    eexists. eexists. split; [reflexivity|].
    assert (Hz1p : forall w, In w (ids_of z1') -> w <> p).
    { intros w Hw. rewrite ids_app, ids_cons in Hids. cbn [fst ids_of map] in Hids. rewrite <- app_assoc in Hids.
      cbn [app] in Hids. apply (nodup_mid_l _ _ _ _ Hids). exact Hw. }
    assert (Hz2p : forall w, In w (ids_of z2) -> w <> p).
    { intros w Hw. rewrite ids_app, ids_cons in Hids. cbn [fst ids_of map] in Hids. rewrite <- app_assoc in Hids.
      cbn [app] in Hids. apply (nodup_mid_r _ _ _ _ Hids). right. right. exact Hw. }
    split.
    { rewrite <- app_assoc. cbn [app].
      eapply (core_relink_mid h _ z1' p clp x cl y cly z2 np (set_next (Some y) np) ny (set_prev (Some p) ny));
        try reflexivity; try exact Hnp; try exact Hny.
      - rewrite <- app_assoc in Hcore. exact Hcore.
      - intros w [Hw|Hw].
        + pose proof (Hz1p w Hw). assert (w <> x) by (apply Hz1x; apply in_app_iff; left; exact Hw).
          assert (w <> y) by (apply Hz1y; apply in_app_iff; left; exact Hw). nthupd. reflexivity.
        + pose proof (Hz2p w Hw). pose proof (Hz2x w Hw). pose proof (Hz2y w Hw). nthupd. reflexivity.
      - nthupd. reflexivity.
      - repeat split.
      - nthupd. reflexivity.
      - repeat split. }
    split; [nthupd; reflexivity|].
    split.
    { intros w Hw. rewrite !ids_app, !ids_cons in Hw. cbn [fst ids_of map] in Hw. rewrite !in_app_iff in Hw. cbn [In] in Hw.
      assert (w <> p) by (intros ->; tauto). assert (w <> x) by (intros ->; tauto). assert (w <> y) by (intros ->; tauto).
      nthupd. reflexivity. }
    split; [destruct z1'; reflexivity|].
    eexists. split; [nthupd; reflexivity|]. cbn. exact Hr.
Qed.

Lemma delete_sim h zs x cl cs' :
  core h zs -> In (x, cl) zs -> c_delete (map snd zs) (c_stamp cl) = Ok cs' ->
  exists h' nh zs',
    n_delete h x = Ok (h', nh) /\ cs' = map snd zs' /\ core h' zs' /\
    length h' = length h /\
    (forall w, ~ In w (ids_of zs) -> nth_error h' w = nth_error h w) /\
    incl (sid zs') (sid zs) /\
    (forall hd, hd_error (ids_of zs) = Some hd -> hd_error (ids_of zs') = Some (retarget hd nh)) /\
    (forall d, List.last (ids_of zs') d = List.last (ids_of zs) d) /\
    (exists n', nth_error h' x = Some n' /\ n_ref n' = c_ref cl) /\
    (c_st cl <> StLast -> c_ref cl = 0 -> ~ In x (ids_of zs')) /\
    (forall y c', In (y, c') zs' -> exists c0, In (y, c0) zs /\ c_ref c' = c_ref c0).
Proof.
  intros Hcore Hin Hdel. apply in_split in Hin. destruct Hin as (z1 & z2 & ->).
  pose proof (co_stamps _ _ Hcore) as Hnd.
  pose proof (co_pay _ _ Hcore) as Hpay. apply Forall_app in Hpay. destruct Hpay as [_ Hpay].
  inversion Hpay as [|? ? (n & Hn & Hst & Hrf & Hkv) _]; subst. cbn [fst snd] in *.
  destruct (nstate_eqb (c_st cl) StLast) eqn:Elast.
  - (* the sentinel: nothing happens *)
    assert (Ecl : c_st cl = StLast) by (destruct (c_st cl); try discriminate; reflexivity).
    unfold c_delete in Hdel. rewrite (cfind_split _ _ _ _ Hnd) in Hdel. cbn [bind] in Hdel. rewrite Ecl in Hdel.
    injection Hdel as <-.
    unfold n_delete. rewrite (get_ok _ _ _ Hn). cbn [bind]. rewrite Hst, Ecl.
    exists h, None, (z1 ++ (x, cl) :: z2).
    split; [reflexivity|]. split; [reflexivity|]. split; [exact Hcore|]. split; [reflexivity|].
    split; [reflexivity|]. split; [apply incl_refl|]. split; [intros hd Hhd; exact Hhd|].
    split; [reflexivity|]. split; [exists n; auto|]. split; [congruence|].
    intros y c' Hy. exists c'. auto.
  - assert (Ecl : c_st cl <> StLast) by (intros E; rewrite E in Elast; discriminate).
    rewrite (c_delete_nonlast _ _ cl (cfind_split _ _ _ _ Hnd) Ecl) in Hdel.
    rewrite (n_delete_nonlast h x n Hn) by congruence.
    pose proof (co_ids _ _ Hcore) as Hids. rewrite ids_app, ids_cons in Hids. cbn [fst] in Hids.
    assert (Hx1 : ~ In x (ids_of z1)) by (apply NoDup_remove_2 in Hids; rewrite in_app_iff in Hids; tauto).
    assert (Hx2 : ~ In x (ids_of z2)) by (apply NoDup_remove_2 in Hids; rewrite in_app_iff in Hids; tauto).
    destruct (Z.eqb_spec (c_ref cl) 0) as [Hz|Hnz].
    + (* unlink *)
      rewrite (csucc_split _ _ _ _ Hnd) in Hdel.
      destruct z2 as [|[y cly] z2]; [discriminate|]. cbn [hd_error option_map deref bind] in Hdel.
      injection Hdel as <-. rewrite (cdel_split _ _ _ _ Hnd).
      assert (Hr0 : n_ref n = 0) by congruence.
      destruct (unlink_sim h z1 x cl y cly z2 n Hcore Hn Hr0) as (h' & nh & Hdelb & Hcore' & Hlen & Hfr & Hnh & Hxr).
      rewrite ids_cons in Hx2. cbn [fst In] in Hx2.
      exists h', nh, (z1 ++ (y, cly) :: z2).
      split; [exact Hdelb|]. split; [reflexivity|]. split; [exact Hcore'|]. split; [exact Hlen|]. split; [exact Hfr|].
      split. { rewrite !sid_app. apply incl_app; [apply incl_appl, incl_refl|apply incl_appr, incl_tl, incl_refl]. }
      split. { intros hd Hhd. subst nh. destruct z1 as [|[a ca] z1]; cbn in *; [injection Hhd as <-; reflexivity|exact Hhd]. }
      split. { intros d. rewrite !ids_app, !ids_cons. cbn [fst]. rewrite !last_app_cons. reflexivity. }
      split. { destruct Hxr as (n' & Hn' & Hr'). exists n'. split; [exact Hn'|congruence]. }
      split. { intros _ _. rewrite ids_app, ids_cons, in_app_iff. cbn [fst In]. intros [H|[H|H]]; [exact (Hx1 H)| |]; apply Hx2; [left; exact H|right; exact H]. }
      intros w c' Hw. exists c'. split; [|reflexivity]. apply in_app_iff in Hw. apply in_app_iff.
      destruct Hw as [Hw|Hw]; [left; exact Hw|right; right; exact Hw].
    + (* mark *)
      injection Hdel as <-. rewrite (cupd_split _ _ _ _ Hnd) by reflexivity.
      unfold n_delete_body. cbn zeta. rewrite Hrf. destruct (Z.eqb_spec (c_ref cl) 0) as [|_]; [contradiction|].
      rewrite upd_upd_same. fold (mark cl).
      exists (upd h x (fun n0 => set_st StDeleted (set_val 0 n0))), None, (z1 ++ (x, mark cl) :: z2).
      split; [reflexivity|]. split; [reflexivity|]. split.
      { apply (core_update h z1 x cl (mark cl) z2 _ n Hcore Hn); try reflexivity.
        unfold pay. cbn [fst snd]. eexists. split; [nthupd; reflexivity|].
        cbn. split; [reflexivity|]. split; [exact Hrf|]. intros _. destruct (Hkv Ecl) as [Hk _]. split; [exact Hk|reflexivity]. }
      split; [apply upd_length|].
      split. { intros w Hw. apply nth_upd_other. intros ->. apply Hw. rewrite ids_app, in_app_iff. right. left. reflexivity. }
      split. { rewrite !sid_app. cbn [sid map fst snd]. apply incl_refl. }
      split. { intros hd. rewrite !ids_app. cbn [ids_of map fst]. auto. }
      split. { intros d. rewrite !ids_app. reflexivity. }
      split. { eexists. split; [nthupd; reflexivity|]. cbn. exact Hrf. }
      split. { intros _ Hz. contradiction. }
      intros w c' Hw. apply in_app_iff in Hw. destruct Hw as [Hw|[[= <- <-]|Hw]].
      * exists c'. split; [apply in_app_iff; left; exact Hw|reflexivity].
      * exists cl. split; [apply in_app_iff; right; left; reflexivity|reflexivity].
      * exists c'. split; [apply in_app_iff; right; right; exact Hw|reflexivity].
Qed.

(** * The pool *)

Definition poolok (h : heap) (zs : list (nat * cell)) (pl : list nat) : Prop :=
  NoDup pl /\ Forall (fun p => ~ In p (ids_of zs) /\ exists n, nth_error h p = Some n /\ n_ref n = 0) pl.

Lemma incl_sid_ids zs' zs : incl (sid zs') (sid zs) -> incl (ids_of zs') (ids_of zs).
Proof.
  intros H y Hy. apply in_map_iff in Hy. destruct Hy as ([y' c] & <- & Hin). cbn [fst].
  assert (Hs : In (c_stamp c, y') (sid zs')) by (apply sid_in; eauto).
  apply H, sid_in in Hs. destruct Hs as (c0 & Hin0 & _). apply (in_map fst) in Hin0. exact Hin0.
Qed.

Lemma poolok_step h h' zs zs' pl :
  poolok h zs pl -> (forall w, ~ In w (ids_of zs) -> nth_error h' w = nth_error h w) ->
  incl (ids_of zs') (ids_of zs) -> poolok h' zs' pl.
Proof.
  intros [Hnd Hf] Hfr Hincl. split; [exact Hnd|]. apply Forall_forall. intros p Hp.
  destruct (proj1 (Forall_forall _ _) Hf p Hp) as (Hni & n & Hn & Hr). split.
  - intros Hin. apply Hni. apply Hincl. exact Hin.
  - exists n. rewrite Hfr by exact Hni. auto.
Qed.

Lemma poolok_notin h zs pl x : poolok h zs pl -> In x (ids_of zs) -> ~ In x pl.
Proof.
  intros [_ Hf] Hx Hin. destruct (proj1 (Forall_forall _ _) Hf x Hin) as (Hni & _). contradiction.
Qed.

Lemma poolok_put h zs pl x n :
  poolok h zs pl -> ~ In x pl -> ~ In x (ids_of zs) -> nth_error h x = Some n -> n_ref n = 0 ->
  poolok h zs (x :: pl).
Proof.
  intros [Hnd Hf] Hni Hx Hn Hr. split; [constructor; assumption|]. constructor; [|exact Hf]. split; [exact Hx|eauto].
Qed.

(** * Changing the reference counter of one node *)

Lemma ref_update h zs p cl r :
  core h zs -> In (p, cl) zs ->
  exists n z1 z2,
    zs = z1 ++ (p, cl) :: z2 /\ nth_error h p = Some n /\ n_st n = c_st cl /\ n_ref n = c_ref cl /\
    (c_st cl <> StLast -> n_key n = c_key cl /\ n_val n = c_val cl) /\
    core (upd h p (set_ref r)) (z1 ++ (p, cset_ref r cl) :: z2).
Proof.
  intros Hcore Hin. apply in_split in Hin. destruct Hin as (z1 & z2 & ->).
  pose proof (co_pay _ _ Hcore) as Hpay. apply Forall_app in Hpay. destruct Hpay as [_ Hpay].
  inversion Hpay as [|? ? (n & Hn & Hst & Hrf & Hkv) _]; subst. cbn [fst snd] in *.
  exists n, z1, z2. split; [reflexivity|]. split; [exact Hn|]. split; [exact Hst|]. split; [exact Hrf|]. split; [exact Hkv|].
  apply (core_update h z1 p cl (cset_ref r cl) z2 (set_ref r) n Hcore Hn); try reflexivity.
  unfold pay. cbn [fst snd]. eexists. split; [apply nth_upd_same; exact Hn|]. cbn. split; [exact Hst|]. split; [reflexivity|]. exact Hkv.
Qed.

Lemma sid_update z1 p cl cl' z2 : c_stamp cl' = c_stamp cl ->
  sid (z1 ++ (p, cl') :: z2) = sid (z1 ++ (p, cl) :: z2).
Proof. intros H. rewrite !sid_app. cbn [sid map fst snd]. rewrite H. reflexivity. Qed.

Lemma ids_update z1 p cl cl' z2 : ids_of (z1 ++ (p, cl') :: z2) = ids_of (z1 ++ (p, cl) :: z2).
Proof. rewrite !ids_app. reflexivity. Qed.

Lemma nodup_fst_fun {A B} (l : list (A * B)) a b b' :
  NoDup (map fst l) -> In (a, b) l -> In (a, b') l -> b = b'.
Proof.
  induction l as [|[a0 b0] t IH]; intros Hnd H1 H2; [destruct H1|].
  cbn [map fst] in Hnd. inversion Hnd as [|? ? Hni Hnd']; subst.
  destruct H1 as [E1|H1], H2 as [E2|H2].
  - congruence.
  - injection E1 as -> ->. exfalso. apply Hni. apply (in_map fst) in H2. exact H2.
  - injection E2 as -> ->. exfalso. apply Hni. apply (in_map fst) in H1. exact H1.
  - eauto.
Qed.

Lemma stamp_unique zs st y y' :
  NoDup (stamps_of zs) -> In (st, y) (sid zs) -> In (st, y') (sid zs) -> y = y'.
Proof. intros Hnd. rewrite <- sid_fst in Hnd. apply nodup_fst_fun. exact Hnd. Qed.

(** * Walking state and its transitions *)

Definition refs_nonneg (zs : list (nat * cell)) : Prop := forall y c, In (y, c) zs -> 0 <= c_ref c.

Record wst (h : heap) (hd : nat) (pl : list nat) (zs : list (nat * cell)) : Prop := mkWst {
  ws_core : core h zs;
  ws_pool : poolok h zs pl;
  ws_head : hd_error (ids_of zs) = Some hd;
  ws_refs : refs_nonneg zs
}.

Record wtr (h : heap) (zs : list (nat * cell)) (h' : heap) (zs' : list (nat * cell)) : Prop := mkWtr {
  wt_len : length h' = length h;
  wt_sid : incl (sid zs') (sid zs);
  wt_last : forall d, List.last (ids_of zs') d = List.last (ids_of zs) d
}.

Lemma wtr_refl h zs : wtr h zs h zs.
Proof. constructor; auto using incl_refl. Qed.

Lemma wtr_trans h1 z1 h2 z2 h3 z3 : wtr h1 z1 h2 z2 -> wtr h2 z2 h3 z3 -> wtr h1 z1 h3 z3.
Proof.
  intros [A1 A2 A3] [B1 B2 B3]. constructor; [congruence|eapply incl_tran; eauto|intros d; rewrite B3; apply A3].
Qed.

(** * One iteration of [Map.next] *)

Definition i_next_step (h : heap) (hd : nat) (pl : list nat) (p : nat) (n : node) : res (IMap.core * nat) :=
  let r := n_ref n - 1 in
  let h := upd h p (set_ref r) in
  if nstate_eqb (n_st n) StDeleted && (r <=? 0) then
    let np := n_next n in
    '(h, nh) <- n_delete h p ;;
    let hd := retarget hd nh in
    let pl := p :: pl in
    p' <- deref np ;;
    n' <- get h p' ;;
    Ok ((upd h p' (set_ref (n_ref n' + 1)), hd, pl), p')
  else
    p' <- deref (n_next n) ;;
    n' <- get h p' ;;
    Ok ((upd h p' (set_ref (n_ref n' + 1)), hd, pl), p').

Lemma i_next_unfold f h hd pl p n :
  nth_error h p = Some n -> n_st n <> StLast ->
  i_next (S f) (h, hd, pl) p =
  ('(c', p') <- i_next_step h hd pl p n ;;
   n'' <- get (fst (fst c')) p' ;;
   if nstate_eqb (n_st n'') StDeleted then i_next f c' p' else Ok (c', p')).
Proof.
  intros Hn Hst. cbn [i_next]. rewrite (get_ok _ _ _ Hn). cbn [bind]. unfold i_next_step.
  destruct (n_st n); [congruence|reflexivity|reflexivity].
Qed.

Lemma in_zs_pay h zs y c : core h zs -> In (y, c) zs -> pay h (y, c).
Proof. intros Hc Hin. exact (proj1 (Forall_forall _ _) (co_pay _ _ Hc) _ Hin). Qed.

(* parking on the node reached: refCnt++ *)
Lemma park_sim h hd pl zs y c :
  wst h hd pl zs -> In (y, c) zs ->
  exists n zs',
    nth_error h y = Some n /\ n_ref n = c_ref c /\ n_st n = c_st c /\
    cupd (c_stamp c) (cset_ref (c_ref c + 1)) (map snd zs) = map snd zs' /\
    wst (upd h y (set_ref (n_ref n + 1))) hd pl zs' /\
    wtr h zs (upd h y (set_ref (n_ref n + 1))) zs' /\
    In (y, cset_ref (c_ref c + 1) c) zs'.
Proof.
  intros [Hcore Hpool Hhd Hrefs] Hin.
  destruct (ref_update h zs y c (c_ref c + 1) Hcore Hin) as (n & z1 & z2 & -> & Hn & Hst & Hrf & Hkv & Hcore').
  exists n, (z1 ++ (y, cset_ref (c_ref c + 1) c) :: z2).
  split; [exact Hn|]. split; [exact Hrf|]. split; [exact Hst|].
  split; [apply (cupd_split _ _ _ _ (co_stamps _ _ Hcore)); reflexivity|].
  rewrite Hrf. split; [|split].
  - constructor.
    + exact Hcore'.
    + eapply poolok_step; [exact Hpool| |rewrite (ids_update z1 y c); apply incl_refl].
      intros w Hw. apply nth_upd_other. intros ->. apply Hw. rewrite ids_app, in_app_iff. right. left. reflexivity.
    + rewrite (ids_update z1 y c). exact Hhd.
    + intros w c' Hw. apply in_app_iff in Hw. destruct Hw as [Hw|[[= <- <-]|Hw]].
      * apply (Hrefs w c'). apply in_app_iff. left. exact Hw.
      * cbn. specialize (Hrefs y c). assert (0 <= c_ref c) by (apply Hrefs; apply in_app_iff; right; left; reflexivity). lia.
      * apply (Hrefs w c'). apply in_app_iff. right. right. exact Hw.
  - constructor; [apply upd_length|rewrite (sid_update z1 y c) by reflexivity; apply incl_refl|intros d; rewrite (ids_update z1 y c); reflexivity].
  - apply in_app_iff. right. left. reflexivity.
Qed.

(** * [delete] on a walking state *)

Lemma delete_wst h hd pl zs p cl cs2 :
  wst h hd pl zs -> In (p, cl) zs -> c_delete (map snd zs) (c_stamp cl) = Ok cs2 ->
  exists h2 nh zs2 n',
    n_delete h p = Ok (h2, nh) /\ cs2 = map snd zs2 /\
    wst h2 (retarget hd nh) pl zs2 /\ wtr h zs h2 zs2 /\
    nth_error h2 p = Some n' /\ n_ref n' = c_ref cl /\
    (c_st cl <> StLast -> c_ref cl = 0 -> wst h2 (retarget hd nh) (p :: pl) zs2).
Proof.
  intros [Hcore Hpool Hhd Hrefs] Hin Hdel.
  destruct (delete_sim h zs p cl cs2 Hcore Hin Hdel)
    as (h2 & nh & zs2 & Hnd & Hcs & Hcore2 & Hlen & Hfr & Hsid & Hhd2 & Hlast & (n' & Hn' & Hr') & Hout & Hrf).
  assert (Hpool2 : poolok h2 zs2 pl).
  { eapply poolok_step; [exact Hpool|exact Hfr|apply incl_sid_ids; exact Hsid]. }
  assert (Hrefs2 : refs_nonneg zs2).
  { intros y c Hy. destruct (Hrf y c Hy) as (c0 & Hc0 & ->). apply (Hrefs y c0 Hc0). }
  assert (Hw : wst h2 (retarget hd nh) pl zs2) by (constructor; auto).
  exists h2, nh, zs2, n'. split; [exact Hnd|]. split; [exact Hcs|]. split; [exact Hw|].
  split; [constructor; assumption|]. split; [exact Hn'|]. split; [exact Hr'|].
  intros Hst Hz. constructor; auto.
  apply (poolok_put h2 zs2 pl p n'); auto.
  - eapply poolok_notin; [exact Hpool|]. apply (in_map fst) in Hin. exact Hin.
  - congruence.
Qed.

(** * One iteration of [next], both levels *)

Lemma next_step_sim h hd pl zs p cl np cs2 c' :
  wst h hd pl zs -> In (p, cl) zs -> 1 <= c_ref cl -> c_st cl <> StLast ->
  csucc (c_stamp cl) (map snd zs) = Some np ->
  (if nstate_eqb (c_st cl) StDeleted && (c_ref cl - 1 <=? 0)
   then c_delete (cupd (c_stamp cl) (cset_ref (c_ref cl - 1)) (map snd zs)) (c_stamp cl)
   else Ok (cupd (c_stamp cl) (cset_ref (c_ref cl - 1)) (map snd zs))) = Ok cs2 ->
  cfind np cs2 = Ok c' ->
  exists n h3 hd3 pl3 y zs3,
    nth_error h p = Some n /\ n_st n = c_st cl /\
    i_next_step h hd pl p n = Ok ((h3, hd3, pl3), y) /\
    cupd np (cset_ref (c_ref c' + 1)) cs2 = map snd zs3 /\
    wst h3 hd3 pl3 zs3 /\ wtr h zs h3 zs3 /\
    In (y, cset_ref (c_ref c' + 1) c') zs3 /\ c_stamp c' = np /\ 0 <= c_ref c'.
Proof.
  intros Hw Hin Hr1 Hst Hsucc Hbr Hfind.
  pose proof (ws_core _ _ _ _ Hw) as Hcore.
  destruct (ref_update h zs p cl (c_ref cl - 1) Hcore Hin) as (n & z1 & z2 & -> & Hn & Hnst & Hnrf & Hkv & Hcore1).
  pose proof (co_stamps _ _ Hcore) as Hnd.
  rewrite (csucc_split _ _ _ _ Hnd) in Hsucc.
  destruct z2 as [|[y cly] z2]; [discriminate|]. cbn in Hsucc. injection Hsucc as Hnp.
  (* the successor pointer of the node *)
  assert (Hnext : n_next n = Some y).
  { pose proof (co_dseg _ _ Hcore) as Hd. rewrite ids_app, !ids_cons in Hd. cbn [fst] in Hd.
    apply dseg_app in Hd. destruct Hd as [_ Hd]. cbn [dseg] in Hd. destruct Hd as (m & Hm & _ & Hx & _). congruence. }
  rewrite (cupd_split _ _ _ _ Hnd) in Hbr by reflexivity.
  set (r := c_ref cl - 1) in *.
  set (zs1 := z1 ++ (p, cset_ref r cl) :: (y, cly) :: z2) in *.
  set (h1 := upd h p (set_ref r)) in *.
  assert (Hw1 : wst h1 hd pl zs1).
  { destruct Hw as [_ Hpool Hhd Hrefs]. constructor.
    - exact Hcore1.
    - eapply poolok_step; [exact Hpool| |unfold zs1; rewrite (ids_update z1 p cl); apply incl_refl].
      intros w Hw. apply nth_upd_other. intros ->. apply Hw. rewrite ids_app, in_app_iff. right. left. reflexivity.
    - unfold zs1. rewrite (ids_update z1 p cl). exact Hhd.
    - intros w c Hwc. apply in_app_iff in Hwc. destruct Hwc as [Hwc|[[= <- <-]|Hwc]].
      + apply (Hrefs w c). apply in_app_iff. left. exact Hwc.
      + cbn. unfold r. lia.
      + apply (Hrefs w c). apply in_app_iff. right. right. exact Hwc. }
  assert (Ht1 : wtr h (z1 ++ (p, cl) :: (y, cly) :: z2) h1 zs1).
  { constructor; [apply upd_length|unfold zs1; rewrite (sid_update z1 p cl) by reflexivity; apply incl_refl|
                  intros d; unfold zs1; rewrite (ids_update z1 p cl); reflexivity]. }
  assert (Hin1 : In (p, cset_ref r cl) zs1) by (apply in_app_iff; right; left; reflexivity).
  (* state after leaving p *)
  assert (Hmid : exists h2 hd2 pl2 zs2,
     cs2 = map snd zs2 /\ wst h2 hd2 pl2 zs2 /\ wtr h1 zs1 h2 zs2 /\
     i_next_step h hd pl p n =
       (n' <- get h2 y ;; Ok ((upd h2 y (set_ref (n_ref n' + 1)), hd2, pl2), y))).
  { unfold i_next_step. cbn zeta. rewrite Hnst, Hnrf. fold r. fold h1. rewrite Hnext.
    destruct (nstate_eqb (c_st cl) StDeleted && (r <=? 0)) eqn:Eb.
    - apply andb_true_iff in Eb. destruct Eb as [Ed Er]. apply Z.leb_le in Er.
      assert (Hr0 : c_ref (cset_ref r cl) = 0) by (cbn; unfold r in *; lia).
      change (c_stamp cl) with (c_stamp (cset_ref r cl)) in Hbr.
      destruct (delete_wst h1 hd pl zs1 p (cset_ref r cl) cs2 Hw1 Hin1 Hbr)
        as (h2 & nh & zs2 & n' & Hdel & Hcs & _ & Ht2 & _ & _ & Hput).
      exists h2, (retarget hd nh), (p :: pl), zs2.
      split; [exact Hcs|]. split; [apply Hput; [exact Hst|exact Hr0]|]. split; [exact Ht2|].
      rewrite Hdel. reflexivity.
    - injection Hbr as <-. exists h1, hd, pl, zs1.
      split; [reflexivity|]. split; [exact Hw1|]. split; [apply wtr_refl|reflexivity]. }
  destruct Hmid as (h2 & hd2 & pl2 & zs2 & Hcs2 & Hw2 & Ht2 & Hstep).
  (* the cell we arrive at is y's *)
  subst cs2.
  assert (Hyin : In (y, c') zs2 /\ c_stamp c' = np).
  { unfold cfind in Hfind. destruct (find (at_stamp np) (map snd zs2)) as [c0|] eqn:Ef; [|discriminate].
    injection Hfind as ->. apply find_some in Ef. destruct Ef as [Hc Hs]. apply at_stamp_true in Hs.
    apply in_map_iff in Hc. destruct Hc as ([y' c0] & Heq & Hin2). cbn in Heq. subst c0.
    split; [|exact Hs].
    assert (H1 : In (np, y') (sid zs1)) by (apply (wt_sid _ _ _ _ Ht2); apply sid_in; eauto).
    assert (H2 : In (np, y) (sid zs1)).
    { apply sid_in. exists cly. split; [|exact Hnp]. unfold zs1. apply in_app_iff. right. right. left. reflexivity. }
    rewrite (stamp_unique zs1 np y' y (co_stamps _ _ (ws_core _ _ _ _ Hw1)) H1 H2) in Hin2. exact Hin2. }
  destruct Hyin as [Hyin Hcst].
  destruct (park_sim h2 hd2 pl2 zs2 y c' Hw2 Hyin) as (n2 & zs3 & Hn2 & Hr2 & Hst2 & Hcupd & Hw3 & Ht3 & Hin3).
  exists n, (upd h2 y (set_ref (n_ref n2 + 1))), hd2, pl2, y, zs3.
  split; [exact Hn|]. split; [exact Hnst|].
  split; [rewrite Hstep, (get_ok _ _ _ Hn2); reflexivity|].
  split; [rewrite <- Hcst; exact Hcupd|].
  split; [exact Hw3|]. split; [eapply wtr_trans; [exact Ht1|]; eapply wtr_trans; eassumption|].
  split; [exact Hin3|]. split; [exact Hcst|]. exact (ws_refs _ _ _ _ Hw2 y c' Hyin).
Qed.

(** * The loop of [Map.next] *)

Lemma next_sim : forall f2 f1 h hd pl zs p cl cs' st',
  (f2 <= f1)%nat -> wst h hd pl zs -> In (p, cl) zs -> 1 <= c_ref cl ->
  c_next f2 (map snd zs) (c_stamp cl) = Ok (cs', st') ->
  exists h' hd' pl' p' zs',
    i_next f1 (h, hd, pl) p = Ok ((h', hd', pl'), p') /\ cs' = map snd zs' /\
    wst h' hd' pl' zs' /\ wtr h zs h' zs' /\
    (exists c2, In (p', c2) zs' /\ c_stamp c2 = st' /\ 1 <= c_ref c2).
Proof.
  induction f2 as [|f2 IH]; intros f1 h hd pl zs p cl cs' st' Hf Hw Hin Hr1 Hnext; [discriminate|].
  destruct f1 as [|f1]; [lia|].
  pose proof (ws_core _ _ _ _ Hw) as Hcore.
  pose proof (in_zs_pay _ _ _ _ Hcore Hin) as (n & Hn & Hnst & Hnrf & _). cbn [fst snd] in *.
  assert (Hfind : cfind (c_stamp cl) (map snd zs) = Ok cl).
  { pose proof Hin as Hin'. apply in_split in Hin'. destruct Hin' as (z1 & z2 & ->).
    apply cfind_split. exact (co_stamps _ _ Hcore). }
  destruct (nstate_eqb (c_st cl) StLast) eqn:Elast.
  - (* already at the sentinel *)
    assert (Ecl : c_st cl = StLast) by (destruct (c_st cl); try discriminate; reflexivity).
    cbn [c_next] in Hnext. rewrite Hfind in Hnext. cbn [bind] in Hnext. rewrite Ecl in Hnext.
    injection Hnext as <- <-.
    cbn [i_next]. rewrite (get_ok _ _ _ Hn). cbn [bind]. rewrite Hnst, Ecl.
    exists h, hd, pl, p, zs. split; [reflexivity|]. split; [reflexivity|]. split; [exact Hw|].
    split; [apply wtr_refl|]. exists cl. auto.
  - assert (Ecl : c_st cl <> StLast) by (intros E; rewrite E in Elast; discriminate).
    rewrite (c_next_unfold f2 _ _ cl Hfind Ecl) in Hnext.
    destruct (csucc (c_stamp cl) (map snd zs)) as [np|] eqn:Esucc; [|discriminate].
    cbn [deref bind] in Hnext.
    match type of Hnext with bind ?X _ = _ => destruct X as [cs2| |] eqn:Ebr; [|discriminate|discriminate] end.
    cbn [bind] in Hnext.
    destruct (cfind np cs2) as [c'| |] eqn:Ef; [|discriminate|discriminate]. cbn [bind] in Hnext.
    destruct (next_step_sim h hd pl zs p cl np cs2 c' Hw Hin Hr1 Ecl Esucc Ebr Ef)
      as (n0 & h3 & hd3 & pl3 & y & zs3 & Hn0 & Hst0 & Hstep & Hcupd & Hw3 & Ht3 & Hin3 & Hcst & Hc0).
    assert (n0 = n) by congruence. subst n0.
    pose proof (in_zs_pay _ _ _ _ (ws_core _ _ _ _ Hw3) Hin3) as (n3 & Hn3 & Hnst3 & _). cbn [fst snd] in *.
    assert (Hi : i_next (S f1) (h, hd, pl) p =
                 (if nstate_eqb (c_st c') StDeleted then i_next f1 (h3, hd3, pl3) y else Ok ((h3, hd3, pl3), y))).
    { etransitivity; [apply (i_next_unfold f1 h hd pl p n Hn); congruence|].
      rewrite Hstep. cbn [bind fst]. rewrite (get_ok _ _ _ Hn3). cbn [bind]. rewrite Hnst3. reflexivity. }
    rewrite Hcupd in Hnext.
    destruct (nstate_eqb (c_st c') StDeleted) eqn:Edel.
    + (* a pinned removed entry: continue *)
      replace np with (c_stamp (cset_ref (c_ref c' + 1) c')) in Hnext by (cbn; exact Hcst).
      destruct (IH f1 h3 hd3 pl3 zs3 y (cset_ref (c_ref c' + 1) c') cs' st') as (h' & hd' & pl' & p' & zs' & Hi' & Hcs & Hw' & Ht' & Hin');
        [lia|exact Hw3|exact Hin3| |exact Hnext|].
      * cbn. lia.
      * exists h', hd', pl', p', zs'. split; [rewrite Hi; exact Hi'|]. split; [exact Hcs|]. split; [exact Hw'|].
        split; [eapply wtr_trans; eassumption|exact Hin'].
    + injection Hnext as <- <-.
      exists h3, hd3, pl3, y, zs3. split; [exact Hi|]. split; [reflexivity|]. split; [exact Hw3|].
      split; [exact Ht3|]. exists (cset_ref (c_ref c' + 1) c'). split; [exact Hin3|]. split; [cbn; exact Hcst|cbn; lia].
Qed.

(** * [getValue] and [release] *)

Lemma fuel_ok h zs : core h zs -> (cfuel (map snd zs) <= fuel_of h)%nat.
Proof.
  intros Hcore. unfold cfuel, fuel_of. rewrite map_length.
  assert (Hle : (length (ids_of zs) <= length (seq 0 (length h)))%nat).
  { apply NoDup_incl_length; [exact (co_ids _ _ Hcore)|].
    intros y Hy. apply in_seq. split; [lia|]. cbn.
    destruct (dseg_in_valid _ _ _ _ y (co_dseg _ _ Hcore) Hy) as (m & Hm).
    apply nth_error_Some. congruence. }
  rewrite seq_length in Hle. unfold ids_of in Hle. rewrite map_length in Hle. lia.
Qed.

Lemma getvalue_sim h hd pl zs p cl cs' st' :
  wst h hd pl zs -> In (p, cl) zs -> 1 <= c_ref cl ->
  c_getvalue (map snd zs) (c_stamp cl) = Ok (cs', st') ->
  exists h' hd' pl' p' zs',
    i_getvalue (h, hd, pl) p = Ok ((h', hd', pl'), p') /\ cs' = map snd zs' /\
    wst h' hd' pl' zs' /\ wtr h zs h' zs' /\
    (exists c2, In (p', c2) zs' /\ c_stamp c2 = st' /\ 1 <= c_ref c2).
Proof.
  intros Hw Hin Hr1 Hgv.
  pose proof (ws_core _ _ _ _ Hw) as Hcore.
  pose proof (in_zs_pay _ _ _ _ Hcore Hin) as (n & Hn & Hnst & Hnrf & _). cbn [fst snd] in *.
  assert (Hfind : cfind (c_stamp cl) (map snd zs) = Ok cl).
  { pose proof Hin as Hin'. apply in_split in Hin'. destruct Hin' as (z1 & z2 & ->).
    apply cfind_split. exact (co_stamps _ _ Hcore). }
  unfold c_getvalue in Hgv. rewrite Hfind in Hgv. cbn [bind] in Hgv.
  unfold i_getvalue. cbn [fst]. rewrite (get_ok _ _ _ Hn). cbn [bind]. rewrite Hnst.
  destruct (nstate_eqb (c_st cl) StDeleted).
  - apply (next_sim (cfuel (map snd zs)) (fuel_of h) h hd pl zs p cl cs' st'); auto.
    apply fuel_ok. exact Hcore.
  - injection Hgv as <- <-. exists h, hd, pl, p, zs. split; [reflexivity|]. split; [reflexivity|].
    split; [exact Hw|]. split; [apply wtr_refl|]. exists cl. auto.
Qed.

Lemma release_sim h hd pl zs p cl cs' :
  wst h hd pl zs -> In (p, cl) zs -> 1 <= c_ref cl ->
  c_release (map snd zs) (c_stamp cl) = Ok cs' ->
  exists h' hd' pl' zs',
    i_release (h, hd, pl) p = Ok (h', hd', pl') /\ cs' = map snd zs' /\
    wst h' hd' pl' zs' /\ wtr h zs h' zs'.
Proof.
  intros Hw Hin Hr1 Hrel.
  pose proof (ws_core _ _ _ _ Hw) as Hcore.
  destruct (ref_update h zs p cl (c_ref cl - 1) Hcore Hin) as (n & z1 & z2 & -> & Hn & Hnst & Hnrf & Hkv & Hcore1).
  pose proof (co_stamps _ _ Hcore) as Hnd.
  unfold c_release in Hrel. rewrite (cfind_split _ _ _ _ Hnd) in Hrel. cbn [bind] in Hrel.
  rewrite (cupd_split _ _ _ _ Hnd) in Hrel by reflexivity.
  set (r := c_ref cl - 1) in *.
  set (zs1 := z1 ++ (p, cset_ref r cl) :: z2) in *.
  set (h1 := upd h p (set_ref r)) in *.
  assert (Hw1 : wst h1 hd pl zs1).
  { destruct Hw as [_ Hpool Hhd Hrefs]. constructor.
    - exact Hcore1.
    - eapply poolok_step; [exact Hpool| |unfold zs1; rewrite (ids_update z1 p cl); apply incl_refl].
      intros w Hw. apply nth_upd_other. intros ->. apply Hw. rewrite ids_app, in_app_iff. right. left. reflexivity.
    - unfold zs1. rewrite (ids_update z1 p cl). exact Hhd.
    - intros w c Hwc. apply in_app_iff in Hwc. destruct Hwc as [Hwc|[[= <- <-]|Hwc]].
      + apply (Hrefs w c). apply in_app_iff. left. exact Hwc.
      + cbn. unfold r. lia.
      + apply (Hrefs w c). apply in_app_iff. right. right. exact Hwc. }
  assert (Ht1 : wtr h (z1 ++ (p, cl) :: z2) h1 zs1).
  { constructor; [apply upd_length|unfold zs1; rewrite (sid_update z1 p cl) by reflexivity; apply incl_refl|
                  intros d; unfold zs1; rewrite (ids_update z1 p cl); reflexivity]. }
  assert (Hin1 : In (p, cset_ref r cl) zs1) by (apply in_app_iff; right; left; reflexivity).
  unfold i_release. rewrite (get_ok _ _ _ Hn). cbn [bind]. rewrite Hnst, Hnrf. fold r h1.
  destruct (nstate_eqb (c_st cl) StDeleted) eqn:Ed.
  - change (c_stamp cl) with (c_stamp (cset_ref r cl)) in Hrel.
    destruct (delete_wst h1 hd pl zs1 p (cset_ref r cl) cs' Hw1 Hin1 Hrel)
      as (h2 & nh & zs2 & n' & Hdel & Hcs & Hw2 & Ht2 & Hn' & Hr' & Hput).
    rewrite Hdel. cbn [bind]. rewrite (get_ok _ _ _ Hn'). cbn [bind]. rewrite Hr'. cbn [cset_ref c_ref].
    destruct (Z.eqb_spec r 0) as [Hz|Hnz].
    + exists h2, (retarget hd nh), (p :: pl), zs2. split; [reflexivity|]. split; [exact Hcs|].
      split; [apply Hput; [cbn; destruct (c_st cl); discriminate || congruence|exact Hz]|].
      eapply wtr_trans; eassumption.
    + exists h2, (retarget hd nh), pl, zs2. split; [reflexivity|]. split; [exact Hcs|].
      split; [exact Hw2|]. eapply wtr_trans; eassumption.
  - injection Hrel as <-. exists h1, hd, pl, zs1. split; [reflexivity|]. split; [reflexivity|].
    split; [exact Hw1|exact Ht1].
Qed.
