(** C10, layer L1 <-> L2, part 2: the list-walking code of the pointer model
    ([n_delete], [i_next], [i_getvalue], [i_release]) simulates the chain
    functions ([c_delete], [c_next], ...) on the represented list. *)
From Coq Require Import List ZArith Arith Bool Lia.
From GL Require Import lib.IMapBase model.IMap model.Chain
  proofs.C10_Assoc proofs.C10_Cells proofs.C10_Next proofs.C10_Heap.
Import ListNotations.
Open Scope Z_scope.

Ltac nthupd :=
  repeat first [ rewrite upd_length
               | rewrite nth_upd_other by congruence
               | erewrite nth_upd_same; [|solve [nthupd; first [eassumption | reflexivity]]] ].

(** * The chain primitives on a split list *)

Lemma cupd_cons s f c t : cupd s f (c :: t) = (if at_stamp s c then f c else c) :: cupd s f t.
Proof. reflexivity. Qed.

Lemma cdel_cons s c t : cdel s (c :: t) = if negb (at_stamp s c) then c :: cdel s t else cdel s t.
Proof. reflexivity. Qed.

Lemma at_stamp_refl c : at_stamp (c_stamp c) c = true.
Proof. apply Nat.eqb_refl. Qed.

Section Split.
Variables (z1 z2 : list (nat * cell)) (x : nat) (cl : cell).
Hypothesis Hnd : NoDup (stamps_of (z1 ++ (x, cl) :: z2)).

Lemma split_ne1 : Forall (fun c => c_stamp c <> c_stamp cl) (map snd z1).
Proof.
  rewrite stamps_app in Hnd. cbn [stamps_of map snd] in Hnd. apply NoDup_remove_2 in Hnd.
  apply Forall_forall. intros c Hc Heq. apply Hnd. rewrite in_app_iff. left.
  apply in_map_iff in Hc. destruct Hc as (z & <- & Hz). rewrite <- Heq.
  apply (in_map (fun z => c_stamp (snd z))). exact Hz.
Qed.

Lemma split_ne2 : Forall (fun c => c_stamp c <> c_stamp cl) (map snd z2).
Proof.
  rewrite stamps_app in Hnd. cbn [stamps_of map snd] in Hnd. apply NoDup_remove_2 in Hnd.
  apply Forall_forall. intros c Hc Heq. apply Hnd. rewrite in_app_iff. right.
  apply in_map_iff in Hc. destruct Hc as (z & <- & Hz). rewrite <- Heq.
  apply (in_map (fun z => c_stamp (snd z))). exact Hz.
Qed.

Lemma cfind_split : cfind (c_stamp cl) (map snd (z1 ++ (x, cl) :: z2)) = Ok cl.
Proof.
  unfold cfind. rewrite map_app, find_app, (find_stamp_none _ _ split_ne1). cbn [map snd find].
  rewrite at_stamp_refl. reflexivity.
Qed.

Lemma cupd_split f : c_stamp (f cl) = c_stamp cl ->
  cupd (c_stamp cl) f (map snd (z1 ++ (x, cl) :: z2)) = map snd (z1 ++ (x, f cl) :: z2).
Proof.
  intros _. rewrite !map_app, cupd_app, (cupd_none _ _ _ split_ne1). cbn [map snd].
  rewrite cupd_cons, at_stamp_refl, (cupd_none _ _ _ split_ne2). reflexivity.
Qed.

Lemma cdel_split : cdel (c_stamp cl) (map snd (z1 ++ (x, cl) :: z2)) = map snd (z1 ++ z2).
Proof.
  rewrite !map_app, cdel_app, (cdel_none _ _ split_ne1). cbn [map snd].
  rewrite cdel_cons, at_stamp_refl. cbn [negb]. rewrite (cdel_none _ _ split_ne2). reflexivity.
Qed.

Lemma csucc_split :
  csucc (c_stamp cl) (map snd (z1 ++ (x, cl) :: z2)) = option_map (fun z => c_stamp (snd z)) (hd_error z2).
Proof.
  rewrite map_app. pose proof split_ne1 as H1. induction (map snd z1) as [|c t IH]; cbn [app csucc].
  - cbn [map snd csucc]. rewrite at_stamp_refl. destruct z2; reflexivity.
  - inversion H1 as [|? ? Hc Ht]; subst. apply at_stamp_false in Hc. rewrite Hc. apply IH. exact Ht.
Qed.

End Split.

(** * stamp -> id pairs: what survives keeps its node *)

Definition sid (zs : list (nat * cell)) : list (nat * nat) := map (fun z => (c_stamp (snd z), fst z)) zs.

Lemma sid_app z1 z2 : sid (z1 ++ z2) = sid z1 ++ sid z2.
Proof. apply map_app. Qed.

Lemma sid_fst zs : map fst (sid zs) = stamps_of zs.
Proof. unfold sid, stamps_of. rewrite map_map. reflexivity. Qed.

Lemma sid_in zs st y : In (st, y) (sid zs) <-> exists cl, In (y, cl) zs /\ c_stamp cl = st.
Proof.
  unfold sid. rewrite in_map_iff. split.
  - intros ([y' cl] & [= <- <-] & Hin). eauto.
  - intros (cl & Hin & <-). exists (y, cl). auto.
Qed.

(** * [rlItem.delete] *)

Lemma ids_cons z t : ids_of (z :: t) = fst z :: ids_of t.
Proof. reflexivity. Qed.

Definition mark (c : cell) : cell := cset_st StDeleted (cset_val 0 c).

Lemma upd_upd_same h : forall x f g, upd (upd h x f) x g = upd h x (fun n => g (f n)).
Proof. induction h as [|n t IH]; intros [|x] f g; cbn; auto. f_equal. apply IH. Qed.

Lemma last_app_cons {A} (l1 : list A) a l2 d : List.last (l1 ++ a :: l2) d = List.last (a :: l2) d.
Proof.
  induction l1 as [|b t IH]; [reflexivity|]. cbn [app]. rewrite <- IH.
  destruct (t ++ a :: l2) eqn:E; [destruct t; discriminate|reflexivity].
Qed.

Definition n_delete_body (h : heap) (x : nat) (n : node) : res (heap * option nat) :=
  let h := upd h x (set_val 0) in
  if n_ref n =? 0 then
    match n_prev n with
    | Some p =>
        h <- wr h p (set_next (n_next n)) ;;
        nx <- deref (n_next n) ;;
        h <- wr h nx (set_prev (Some p)) ;;
        let h := upd h x (fun n => set_prev None (set_next None n)) in
        Ok (h, None)
    | None =>
        nx <- deref (n_next n) ;;
        h <- wr h nx (set_prev None) ;;
        let h := upd h x (set_next None) in
        Ok (h, Some nx)
    end
  else Ok (upd h x (set_st StDeleted), None).

Lemma n_delete_nonlast h x n : nth_error h x = Some n -> n_st n <> StLast ->
  n_delete h x = n_delete_body h x n.
Proof.
  intros Hn Hst. unfold n_delete. rewrite (get_ok _ _ _ Hn). cbn [bind].
  destruct (n_st n); [congruence|reflexivity|reflexivity].
Qed.

Lemma c_delete_nonlast cs s c : cfind s cs = Ok c -> c_st c <> StLast ->
  c_delete cs s = (if c_ref c =? 0 then _ <- deref (csucc s cs) ;; Ok (cdel s cs)
                   else Ok (cupd s (fun c => cset_st StDeleted (cset_val 0 c)) cs)).
Proof.
  intros Hc Hst. unfold c_delete. rewrite Hc. cbn [bind].
  destruct (c_st c); [congruence|reflexivity|reflexivity].
Qed.

Lemma nodup_mid_l {A} (l1 l2 : list A) a w : NoDup (l1 ++ a :: l2) -> In w l1 -> w <> a.
Proof. intros H Hw ->. apply NoDup_remove_2 in H. apply H. apply in_app_iff. left. exact Hw. Qed.

Lemma nodup_mid_r {A} (l1 l2 : list A) a w : NoDup (l1 ++ a :: l2) -> In w l2 -> w <> a.
Proof. intros H Hw ->. apply NoDup_remove_2 in H. apply H. apply in_app_iff. right. exact Hw. Qed.

Lemma unlink_sim h z1 x cl y cly z2 n :
  core h (z1 ++ (x, cl) :: (y, cly) :: z2) -> nth_error h x = Some n -> n_ref n = 0 ->
  exists h' nh,
    n_delete_body h x n = Ok (h', nh) /\ core h' (z1 ++ (y, cly) :: z2) /\ length h' = length h /\
    (forall w, ~ In w (ids_of (z1 ++ (x, cl) :: (y, cly) :: z2)) -> nth_error h' w = nth_error h w) /\
    nh = (match z1 with [] => Some y | _ => None end) /\
    (exists n', nth_error h' x = Some n' /\ n_ref n' = 0).
Proof.
  intros Hcore Hn Hr.
  pose proof (co_ids _ _ Hcore) as Hids. rewrite ids_app, !ids_cons in Hids. cbn [fst] in Hids.
  pose proof (co_dseg _ _ Hcore) as Hd. rewrite ids_app, !ids_cons in Hd. cbn [fst] in Hd.
  apply dseg_app in Hd. destruct Hd as [Hda Hdb]. cbn [head_or] in Hda.
  cbn [dseg] in Hdb. destruct Hdb as (m & Hm & Hmp & Hmx & (ny & Hny & Hyp & Hyx & Hdt)).
  assert (m = n) by congruence. subst m.
  assert (Hxy : x <> y).
  { intros ->. apply NoDup_remove_2 in Hids. apply Hids. apply in_app_iff. right. left. reflexivity. }
  assert (Hz2x : forall w, In w (ids_of z2) -> w <> x).
  { intros w Hw. apply (nodup_mid_r _ _ _ _ Hids). right. exact Hw. }
  assert (Hz1x : forall w, In w (ids_of z1) -> w <> x).
  { intros w Hw. apply (nodup_mid_l _ _ _ _ Hids). exact Hw. }
  pose proof Hids as Hids'. apply NoDup_remove_1 in Hids'.
  assert (Hz2y : forall w, In w (ids_of z2) -> w <> y).
  { intros w Hw. apply (nodup_mid_r _ _ _ _ Hids'). exact Hw. }
  assert (Hz1y : forall w, In w (ids_of z1) -> w <> y).
  { intros w Hw. apply (nodup_mid_l _ _ _ _ Hids'). exact Hw. }
  unfold n_delete_body. cbn zeta. rewrite Hr. cbn [Z.eqb].
  destruct (list_snoc_cases z1) as [->|(z1' & [p clp] & ->)].
  - (* x is the head *)
    cbn [ids_of map last_or] in Hmp. rewrite Hmp, Hmx. cbn [deref bind].
    erewrite wr_ok by (nthupd; exact Hny). cbn [bind app] in *.
    eexists. eexists. split; [reflexivity|].
    split.
    { eapply (core_relink_head h _ x cl y cly z2 ny (set_prev None ny)); try reflexivity; try exact Hcore; try exact Hny.
      - intros w Hw. pose proof (Hz2x w Hw). pose proof (Hz2y w Hw). nthupd. reflexivity.
      - nthupd. reflexivity.
      - repeat split. }
    split; [nthupd; reflexivity|].
    split.
    { intros w Hw. rewrite !ids_cons in Hw. cbn [fst In] in Hw.
      assert (w <> x) by (intros ->; tauto). assert (w <> y) by (intros ->; tauto). nthupd. reflexivity. }
    split; [reflexivity|].
    eexists. split; [nthupd; reflexivity|]. cbn. exact Hr.
  - (* x has a predecessor p *)
    rewrite ids_app, ids_cons in Hmp, Hda, Hz1x, Hz1y. cbn [fst ids_of map] in Hmp, Hda, Hz1x, Hz1y.
    rewrite last_or_snoc in Hmp. rewrite Hmp, Hmx. cbn [deref bind].
    assert (Hpx : p <> x) by (apply Hz1x; apply in_app_iff; right; left; reflexivity).
    assert (Hpy : p <> y) by (apply Hz1y; apply in_app_iff; right; left; reflexivity).
    destruct (dseg_in_valid _ _ _ _ p Hda) as (np & Hnp); [apply in_app_iff; right; left; reflexivity|].
    erewrite wr_ok by (nthupd; exact Hnp). cbn [bind].
    erewrite wr_ok by (nthupd; exact Hny). cbn [bind].
    eexists. eexists. split; [reflexivity|].
    assert (Hz1p : forall w, In w (ids_of z1') -> w <> p).
    { intros w Hw. rewrite ids_app, ids_cons in Hids. cbn [fst ids_of map] in Hids. rewrite <- app_assoc in Hids.
      cbn [app] in Hids. apply (nodup_mid_l _ _ _ _ Hids). exact Hw. }
    assert (Hz2p : forall w, In w (ids_of z2) -> w <> p).
    { intros w Hw. rewrite ids_app, ids_cons in Hids. cbn [fst ids_of map] in Hids. rewrite <- app_assoc in Hids.
      cbn [app] in Hids. apply (nodup_mid_r _ _ _ _ Hids). right. right. exact Hw. }
    split.
    { rewrite <- app_assoc. cbn [app].
      eapply (core_relink_mid h _ z1' p clp x cl y cly z2 np (set_next (Some y) np) ny (set_prev (Some p) ny));
        try reflexivity; try exact Hnp; try exact Hny.
      - rewrite <- app_assoc in Hcore. exact Hcore.
      - intros w [Hw|Hw].
        + pose proof (Hz1p w Hw). assert (w <> x) by (apply Hz1x; apply in_app_iff; left; exact Hw).
          assert (w <> y) by (apply Hz1y; apply in_app_iff; left; exact Hw). nthupd. reflexivity.
        + pose proof (Hz2p w Hw). pose proof (Hz2x w Hw). pose proof (Hz2y w Hw). nthupd. reflexivity.
      - nthupd. reflexivity.
      - repeat split.
      - nthupd. reflexivity.
      - repeat split. }
    split; [nthupd; reflexivity|].
    split.
    { intros w Hw. rewrite !ids_app, !ids_cons in Hw. cbn [fst ids_of map] in Hw. rewrite !in_app_iff in Hw. cbn [In] in Hw.
      assert (w <> p) by (intros ->; tauto). assert (w <> x) by (intros ->; tauto). assert (w <> y) by (intros ->; tauto).
      nthupd. reflexivity. }
    split; [destruct z1'; reflexivity|].
    eexists. split; [nthupd; reflexivity|]. cbn. exact Hr.
Qed.

Lemma delete_sim h zs x cl cs' :
  core h zs -> In (x, cl) zs -> c_delete (map snd zs) (c_stamp cl) = Ok cs' ->
  exists h' nh zs',
    n_delete h x = Ok (h', nh) /\ cs' = map snd zs' /\ core h' zs' /\
    length h' = length h /\
    (forall w, ~ In w (ids_of zs) -> nth_error h' w = nth_error h w) /\
    incl (sid zs') (sid zs) /\
    (forall hd, hd_error (ids_of zs) = Some hd -> hd_error (ids_of zs') = Some (retarget hd nh)) /\
    (forall d, List.last (ids_of zs') d = List.last (ids_of zs) d) /\
    (exists n', nth_error h' x = Some n' /\ n_ref n' = c_ref cl) /\
    (c_st cl <> StLast -> c_ref cl = 0 -> ~ In x (ids_of zs')) /\
    (forall y c', In (y, c') zs' -> exists c0, In (y, c0) zs /\ c_ref c' = c_ref c0).
Proof.
  intros Hcore Hin Hdel. apply in_split in Hin. destruct Hin as (z1 & z2 & ->).
  pose proof (co_stamps _ _ Hcore) as Hnd.
  pose proof (co_pay _ _ Hcore) as Hpay. apply Forall_app in Hpay. destruct Hpay as [_ Hpay].
  inversion Hpay as [|? ? (n & Hn & Hst & Hrf & Hkv) _]; subst. cbn [fst snd] in *.
  destruct (nstate_eqb (c_st cl) StLast) eqn:Elast.
  - (* the sentinel: nothing happens *)
    assert (Ecl : c_st cl = StLast) by (destruct (c_st cl); try discriminate; reflexivity).
    unfold c_delete in Hdel. rewrite (cfind_split _ _ _ _ Hnd) in Hdel. cbn [bind] in Hdel. rewrite Ecl in Hdel.
    injection Hdel as <-.
    unfold n_delete. rewrite (get_ok _ _ _ Hn). cbn [bind]. rewrite Hst, Ecl.
    exists h, None, (z1 ++ (x, cl) :: z2).
    split; [reflexivity|]. split; [reflexivity|]. split; [exact Hcore|]. split; [reflexivity|].
    split; [reflexivity|]. split; [apply incl_refl|]. split; [intros hd Hhd; exact Hhd|].
    split; [reflexivity|]. split; [exists n; auto|]. split; [congruence|].
    intros y c' Hy. exists c'. auto.
  - assert (Ecl : c_st cl <> StLast) by (intros E; rewrite E in Elast; discriminate).
    rewrite (c_delete_nonlast _ _ cl (cfind_split _ _ _ _ Hnd) Ecl) in Hdel.
    rewrite (n_delete_nonlast h x n Hn) by congruence.
    pose proof (co_ids _ _ Hcore) as Hids. rewrite ids_app, ids_cons in Hids. cbn [fst] in Hids.
    assert (Hx1 : ~ In x (ids_of z1)) by (apply NoDup_remove_2 in Hids; rewrite in_app_iff in Hids; tauto).
    assert (Hx2 : ~ In x (ids_of z2)) by (apply NoDup_remove_2 in Hids; rewrite in_app_iff in Hids; tauto).
    destruct (Z.eqb_spec (c_ref cl) 0) as [Hz|Hnz].
    + (* unlink *)
      rewrite (csucc_split _ _ _ _ Hnd) in Hdel.
      destruct z2 as [|[y cly] z2]; [discriminate|]. cbn [hd_error option_map deref bind] in Hdel.
      injection Hdel as <-. rewrite (cdel_split _ _ _ _ Hnd).
      assert (Hr0 : n_ref n = 0) by congruence.
      destruct (unlink_sim h z1 x cl y cly z2 n Hcore Hn Hr0) as (h' & nh & Hdelb & Hcore' & Hlen & Hfr & Hnh & Hxr).
      rewrite ids_cons in Hx2. cbn [fst In] in Hx2.
      exists h', nh, (z1 ++ (y, cly) :: z2).
      split; [exact Hdelb|]. split; [reflexivity|]. split; [exact Hcore'|]. split; [exact Hlen|]. split; [exact Hfr|].
      split. { rewrite !sid_app. apply incl_app; [apply incl_appl, incl_refl|apply incl_appr, incl_tl, incl_refl]. }
      split. { intros hd Hhd. subst nh. destruct z1 as [|[a ca] z1]; cbn in *; [injection Hhd as <-; reflexivity|exact Hhd]. }
      split. { intros d. rewrite !ids_app, !ids_cons. cbn [fst]. rewrite !last_app_cons. reflexivity. }
      split. { destruct Hxr as (n' & Hn' & Hr'). exists n'. split; [exact Hn'|congruence]. }
      split. { intros _ _. rewrite ids_app, ids_cons, in_app_iff. cbn [fst In]. intros [H|[H|H]]; [exact (Hx1 H)| |]; apply Hx2; [left; exact H|right; exact H]. }
      intros w c' Hw. exists c'. split; [|reflexivity]. apply in_app_iff in Hw. apply in_app_iff.
      destruct Hw as [Hw|Hw]; [left; exact Hw|right; right; exact Hw].
    + (* mark *)
      injection Hdel as <-. rewrite (cupd_split _ _ _ _ Hnd) by reflexivity.
      unfold n_delete_body. cbn zeta. rewrite Hrf. destruct (Z.eqb_spec (c_ref cl) 0) as [|_]; [contradiction|].
      rewrite upd_upd_same. fold (mark cl).
      exists (upd h x (fun n0 => set_st StDeleted (set_val 0 n0))), None, (z1 ++ (x, mark cl) :: z2).
      split; [reflexivity|]. split; [reflexivity|]. split.
      { apply (core_update h z1 x cl (mark cl) z2 _ n Hcore Hn); try reflexivity.
        unfold pay. cbn [fst snd]. eexists. split; [nthupd; reflexivity|].
        cbn. repeat split; auto. discriminate. }
      split; [apply upd_length|].
      split. { intros w Hw. apply nth_upd_other. intros ->. apply Hw. rewrite ids_app, in_app_iff. right. left. reflexivity. }
      split. { rewrite !sid_app. cbn [sid map fst snd]. apply incl_refl. }
      split. { intros hd. rewrite !ids_app. cbn [ids_of map fst]. auto. }
      split. { intros d. rewrite !ids_app. reflexivity. }
      split. { eexists. split; [nthupd; reflexivity|]. cbn. exact Hrf. }
      split. { intros _ Hz. contradiction. }
      intros w c' Hw. apply in_app_iff in Hw. destruct Hw as [Hw|[[= <- <-]|Hw]].
      * exists c'. split; [apply in_app_iff; left; exact Hw|reflexivity].
      * exists cl. split; [apply in_app_iff; right; left; reflexivity|reflexivity].
      * exists c'. split; [apply in_app_iff; right; right; exact Hw|reflexivity].
Qed.
