(** C12, part 1: the [futures] slice and container/heap (model/THeap.v).

    - [idx_inv]: whatever sequence of Swap/Push/Pop/Less/Len calls is made on a
      [futures] value, every future in the slice has [idx] = its position and
      every other future has [idx] = -1;
    - [shuffle]: what up/down/Push/Pop/Remove/Fix may change (only the order of a
      prefix of the slice and idx fields), fuel is always sufficient;
    - [remove_exact], [pop_head], [heap_perm_*]. *)
From Coq Require Import List ZArith NArith Bool Lia Permutation.
From GL Require Import model.THeap.
Import ListNotations.
Open Scope Z_scope.

(** * store *)

Lemma get_set : forall s i f j, get (set s i f) j = if N.eqb i j then f else get s j.
Proof. intros s i f j. reflexivity. Qed.

Lemma get_set_same : forall s i f, get (set s i f) i = f.
Proof. intros s i f. rewrite get_set, N.eqb_refl. reflexivity. Qed.

Lemma get_set_other : forall s i f j, i <> j -> get (set s i f) j = get s j.
Proof.
  intros s i f j Hij. rewrite get_set.
  destruct (N.eqb_spec i j) as [E|E]; [contradiction|reflexivity].
Qed.

Lemma idx_set_idx : forall s i v j,
  idx (get (set_idx s i v) j) = if N.eqb i j then v else idx (get s j).
Proof.
  intros s i v j. unfold set_idx. rewrite get_set.
  destruct (N.eqb i j); reflexivity.
Qed.

Lemma fireT_set_idx : forall s i v j, fireT (get (set_idx s i v) j) = fireT (get s j).
Proof.
  intros s i v j. unfold set_idx. rewrite get_set.
  destruct (N.eqb_spec i j) as [->|E]; reflexivity.
Qed.

Lemma live_set_idx : forall s i v j, live (get (set_idx s i v) j) = live (get s j).
Proof.
  intros s i v j. unfold set_idx. rewrite get_set.
  destruct (N.eqb_spec i j) as [->|E]; reflexivity.
Qed.

Lemma idx_set_live : forall s i b j, idx (get (set_live s i b) j) = idx (get s j).
Proof.
  intros s i b j. unfold set_live. rewrite get_set.
  destruct (N.eqb_spec i j) as [->|E]; reflexivity.
Qed.

Lemma fireT_set_live : forall s i b j, fireT (get (set_live s i b) j) = fireT (get s j).
Proof.
  intros s i b j. unfold set_live. rewrite get_set.
  destruct (N.eqb_spec i j) as [->|E]; reflexivity.
Qed.

Lemma live_set_live : forall s i b j,
  live (get (set_live s i b) j) = if N.eqb i j then b else live (get s j).
Proof.
  intros s i b j. unfold set_live. rewrite get_set.
  destruct (N.eqb i j); reflexivity.
Qed.

(** * arrays *)

Lemma aset_nat_length : forall l i v, length (aset_nat l i v) = length l.
Proof.
  induction l as [|x t IH]; intros [|i] v; cbn [aset_nat length]; auto.
Qed.

Lemma nth_aset_nat : forall l i v k d,
  nth k (aset_nat l i v) d = if Nat.eqb k i && Nat.ltb i (length l) then v else nth k l d.
Proof.
  induction l as [|x t IH]; intros i v k d.
  - destruct i; cbn [aset_nat nth length]; rewrite andb_false_r; reflexivity.
  - destruct i as [|i], k as [|k]; cbn [aset_nat nth length Nat.eqb andb]; try reflexivity.
    rewrite IH. reflexivity.
Qed.

Definition anth (l : list fid) (k : nat) : fid := nth k l 0%N.

Lemma aget_anth : forall l i, aget l i = anth l (Z.to_nat i).
Proof. reflexivity. Qed.

Lemma In_anth : forall l x, In x l <-> exists k, (k < length l)%nat /\ anth l k = x.
Proof.
  intros l x. split.
  - intros H. destruct (In_nth l x 0%N H) as [k [Hk E]]. exists k. auto.
  - intros [k [Hk E]]. subst x. apply nth_In. exact Hk.
Qed.

(** * the index invariant *)

Definition idx_ok (h : fheap) : Prop :=
  (forall k, (k < length (arr h))%nat -> idx (get (hs h) (anth (arr h) k)) = Z.of_nat k) /\
  (forall x, ~ In x (arr h) -> idx (get (hs h) x) = -1).

Lemma idx_ok_inj : forall h k1 k2, idx_ok h ->
  (k1 < length (arr h))%nat -> (k2 < length (arr h))%nat ->
  anth (arr h) k1 = anth (arr h) k2 -> k1 = k2.
Proof.
  intros h k1 k2 [Hin _] H1 H2 E.
  pose proof (Hin k1 H1) as A. pose proof (Hin k2 H2) as B. rewrite E in A. lia.
Qed.

Lemma NoDup_anth : forall l,
  (forall k1 k2, (k1 < length l)%nat -> (k2 < length l)%nat -> anth l k1 = anth l k2 -> k1 = k2) ->
  NoDup l.
Proof.
  intros l H. apply (proj2 (NoDup_nth l 0%N)). intros i j Hi Hj E. apply H; assumption.
Qed.

Lemma idx_ok_nodup : forall h, idx_ok h -> NoDup (arr h).
Proof.
  intros h H. apply NoDup_anth. intros k1 k2 H1 H2 E. eapply idx_ok_inj; eauto.
Qed.

Lemma idx_ok_empty : idx_ok empty_heap.
Proof. split; [cbn; intros; lia | reflexivity]. Qed.

Lemma idx_ok_mark_bad : forall h, idx_ok h -> idx_ok (mark_bad h).
Proof. intros h H. exact H. Qed.

(* an in-range index as a nat *)
Lemma in_range_nat : forall h i, in_range h i = true ->
  0 <= i /\ (Z.to_nat i < length (arr h))%nat /\ Z.of_nat (Z.to_nat i) = i.
Proof.
  intros h i H. unfold in_range, f_len in H.
  apply andb_prop in H. destruct H as [A B].
  apply Z.leb_le in A. apply Z.ltb_lt in B. lia.
Qed.

(** the array after an in-range Swap *)
Lemma swap_arr : forall h i j, in_range h i = true -> in_range h j = true ->
  let a' := arr (f_swap h i j) in
  length a' = length (arr h) /\
  forall k, anth a' k =
    if Nat.eqb k (Z.to_nat j) then anth (arr h) (Z.to_nat i)
    else if Nat.eqb k (Z.to_nat i) then anth (arr h) (Z.to_nat j)
    else anth (arr h) k.
Proof.
  intros h i j Hi Hj. unfold f_swap. rewrite Hi, Hj. cbn [andb arr].
  destruct (in_range_nat _ _ Hi) as [_ [Li _]].
  destruct (in_range_nat _ _ Hj) as [_ [Lj _]].
  unfold aset. split.
  - rewrite !aset_nat_length. reflexivity.
  - intros k. unfold anth. rewrite !nth_aset_nat, aset_nat_length.
    rewrite !aget_anth. unfold anth.
    apply Nat.ltb_lt in Li. apply Nat.ltb_lt in Lj. rewrite Li, Lj, !andb_true_r.
    destruct (Nat.eqb k (Z.to_nat j)); reflexivity.
Qed.

Lemma swap_store : forall h i j, in_range h i = true -> in_range h j = true ->
  hs (f_swap h i j) =
    set_idx (set_idx (hs h) (anth (arr (f_swap h i j)) (Z.to_nat i)) i)
            (anth (arr (f_swap h i j)) (Z.to_nat j)) j.
Proof.
  intros h i j Hi Hj. unfold f_swap. rewrite Hi, Hj. reflexivity.
Qed.

(* the future now at position i is the one that was at j (or at i when i = j) *)
Lemma swap_at_i : forall h i j, in_range h i = true -> in_range h j = true ->
  anth (arr (f_swap h i j)) (Z.to_nat i) = anth (arr h) (Z.to_nat j).
Proof.
  intros h i j Hi Hj. pose proof (swap_arr h i j Hi Hj) as [_ Hn]. rewrite Hn.
  destruct (Nat.eqb_spec (Z.to_nat i) (Z.to_nat j)) as [E|E].
  - rewrite E. reflexivity.
  - rewrite Nat.eqb_refl. reflexivity.
Qed.

Lemma swap_at_j : forall h i j, in_range h i = true -> in_range h j = true ->
  anth (arr (f_swap h i j)) (Z.to_nat j) = anth (arr h) (Z.to_nat i).
Proof.
  intros h i j Hi Hj. pose proof (swap_arr h i j Hi Hj) as [_ Hn]. rewrite Hn.
  rewrite Nat.eqb_refl. reflexivity.
Qed.

Lemma swap_at_other : forall h i j k, in_range h i = true -> in_range h j = true ->
  k <> Z.to_nat i -> k <> Z.to_nat j ->
  anth (arr (f_swap h i j)) k = anth (arr h) k.
Proof.
  intros h i j k Hi Hj Ni Nj. pose proof (swap_arr h i j Hi Hj) as [_ Hn]. rewrite Hn.
  destruct (Nat.eqb_spec k (Z.to_nat j)); [contradiction|].
  destruct (Nat.eqb_spec k (Z.to_nat i)); [contradiction|]. reflexivity.
Qed.

Lemma swap_length : forall h i j, length (arr (f_swap h i j)) = length (arr h).
Proof.
  intros h i j. destruct (in_range h i && in_range h j) eqn:R.
  - apply andb_prop in R. destruct R as [Hi Hj]. apply (swap_arr h i j Hi Hj).
  - unfold f_swap. rewrite R. reflexivity.
Qed.

Lemma swap_In : forall h i j x, In x (arr (f_swap h i j)) <-> In x (arr h).
Proof.
  intros h i j x. destruct (in_range h i && in_range h j) eqn:R.
  2:{ unfold f_swap. rewrite R. reflexivity. }
  apply andb_prop in R. destruct R as [Hi Hj].
  destruct (in_range_nat _ _ Hi) as [_ [Li _]].
  destruct (in_range_nat _ _ Hj) as [_ [Lj _]].
  rewrite !In_anth, swap_length. split; intros [k [Hk E]].
  - destruct (Nat.eq_dec k (Z.to_nat j)) as [Ej|Nj].
    + subst k. rewrite swap_at_j in E by assumption. eauto.
    + destruct (Nat.eq_dec k (Z.to_nat i)) as [Ei|Ni].
      * subst k. rewrite swap_at_i in E by assumption. eauto.
      * rewrite swap_at_other in E by assumption. eauto.
  - destruct (Nat.eq_dec k (Z.to_nat j)) as [Ej|Nj].
    + subst k. exists (Z.to_nat i). split; [exact Li|]. rewrite swap_at_i by assumption. exact E.
    + destruct (Nat.eq_dec k (Z.to_nat i)) as [Ei|Ni].
      * subst k. exists (Z.to_nat j). split; [exact Lj|]. rewrite swap_at_j by assumption. exact E.
      * exists k. split; [exact Hk|]. rewrite swap_at_other by assumption. exact E.
Qed.

Lemma swap_idx_ok : forall h i j, idx_ok h -> idx_ok (f_swap h i j).
Proof.
  intros h i j Hok.
  destruct (in_range h i && in_range h j) eqn:R.
  2:{ unfold f_swap. rewrite R. exact Hok. }
  apply andb_prop in R. destruct R as [Hi Hj].
  pose proof (swap_arr h i j Hi Hj) as [Hlen Hn].
  pose proof (swap_store h i j Hi Hj) as Hst.
  destruct (in_range_nat _ _ Hi) as [_ [Li Ei]].
  destruct (in_range_nat _ _ Hj) as [_ [Lj Ej]].
  destruct Hok as [Hin Hout].
  assert (Hinj : forall k1 k2, (k1 < length (arr h))%nat -> (k2 < length (arr h))%nat ->
            anth (arr h) k1 = anth (arr h) k2 -> k1 = k2).
  { intros k1 k2 H1 H2 E. eapply idx_ok_inj; eauto. split; assumption. }
  split.
  - intros k Hk. rewrite Hlen in Hk. rewrite Hst.
    rewrite (swap_at_i h i j Hi Hj).
    rewrite (Hn (Z.to_nat j)), Nat.eqb_refl.
    rewrite !idx_set_idx. rewrite (Hn k).
    destruct (Nat.eqb_spec k (Z.to_nat j)) as [Ekj|Nkj].
    + rewrite N.eqb_refl. lia.
    + destruct (Nat.eqb_spec k (Z.to_nat i)) as [Eki|Nki].
      * destruct (N.eqb_spec (anth (arr h) (Z.to_nat i)) (anth (arr h) (Z.to_nat j))) as [E|E].
        { apply Hinj in E; try assumption. lia. }
        rewrite N.eqb_refl. lia.
      * destruct (N.eqb_spec (anth (arr h) (Z.to_nat i)) (anth (arr h) k)) as [E|E].
        { apply Hinj in E; try assumption. lia. }
        destruct (N.eqb_spec (anth (arr h) (Z.to_nat j)) (anth (arr h) k)) as [E'|E'].
        { apply Hinj in E'; try assumption. lia. }
        apply Hin. exact Hk.
  - intros x Hx.
    assert (Hx' : ~ In x (arr h)) by (rewrite <- (swap_In h i j x); exact Hx).
    rewrite Hst, (swap_at_i h i j Hi Hj), (Hn (Z.to_nat j)), Nat.eqb_refl, !idx_set_idx.
    destruct (N.eqb_spec (anth (arr h) (Z.to_nat i)) x) as [E|E].
    { exfalso. apply Hx'. rewrite <- E. apply nth_In. exact Li. }
    destruct (N.eqb_spec (anth (arr h) (Z.to_nat j)) x) as [E'|E'].
    { exfalso. apply Hx'. rewrite <- E'. apply nth_In. exact Lj. }
    apply Hout. exact Hx'.
Qed.

Lemma push_idx_ok : forall h x, idx_ok h -> ~ In x (arr h) -> idx_ok (f_push h x).
Proof.
  intros h x [Hin Hout] Hx. unfold f_push, f_len. split; cbn [arr hs].
  - intros k Hk. rewrite app_length in Hk. cbn [length] in Hk.
    rewrite idx_set_idx. unfold anth.
    destruct (Nat.eq_dec k (length (arr h))) as [E|E].
    + subst k. rewrite app_nth2 by lia. rewrite Nat.sub_diag. cbn [nth].
      rewrite N.eqb_refl. reflexivity.
    + rewrite app_nth1 by lia.
      destruct (N.eqb_spec x (nth k (arr h) 0%N)) as [E'|E'].
      * exfalso. apply Hx. rewrite E'. apply nth_In. lia.
      * apply Hin. lia.
  - intros y Hy. rewrite idx_set_idx.
    destruct (N.eqb_spec x y) as [E|E].
    + exfalso. apply Hy. apply in_or_app. right. left. exact E.
    + apply Hout. intros HI. apply Hy. apply in_or_app. left. exact HI.
Qed.

Lemma removelast_length : forall (l : list fid), length (removelast l) = (length l - 1)%nat.
Proof.
  induction l as [|x t IH]; [reflexivity|].
  destruct t as [|y t']; [reflexivity|].
  change (removelast (x :: y :: t')) with (x :: removelast (y :: t')).
  cbn [length] in *. rewrite IH. lia.
Qed.

Lemma nth_removelast : forall (l : list fid) k d, (k < length l - 1)%nat ->
  nth k (removelast l) d = nth k l d.
Proof.
  induction l as [|x t IH]; intros k d Hk; [reflexivity|].
  destruct t as [|y t']; [cbn [length] in Hk; lia|].
  change (removelast (x :: y :: t')) with (x :: removelast (y :: t')).
  destruct k as [|k]; [reflexivity|]. cbn [nth]. apply IH. cbn [length] in *. lia.
Qed.

Lemma anth_removelast : forall (l : list fid) k, (k < length l - 1)%nat ->
  anth (removelast l) k = anth l k.
Proof. intros l k Hk. apply nth_removelast. exact Hk. Qed.

Lemma removelast_split : forall (l : list fid), l <> [] ->
  l = removelast l ++ [anth l (length l - 1)].
Proof.
  intros l Hl. rewrite (app_removelast_last 0%N Hl) at 1. f_equal. f_equal.
  unfold anth. destruct l as [|x t]; [contradiction|].
  cbn [length]. rewrite Nat.sub_succ, Nat.sub_0_r.
  clear Hl. revert x. induction t as [|y t IH]; intros x; [reflexivity|].
  cbn [length]. change (last (x :: y :: t) 0%N) with (last (y :: t) 0%N).
  rewrite IH. reflexivity.
Qed.

Lemma pop_spec : forall h, arr h <> [] ->
  let last := anth (arr h) (length (arr h) - 1) in
  f_pop h = (mkHeap (removelast (arr h)) (set_idx (hs h) last (-1)) (bad h), last).
Proof.
  intros h Hne. unfold f_pop. destruct (arr h) as [|x t] eqn:E; [contradiction|].
  cbv zeta. f_equal.
  - f_equal. f_equal. rewrite aget_anth. unfold f_len. rewrite E. f_equal. lia.
  - rewrite aget_anth. unfold f_len. rewrite E. f_equal. lia.
Qed.

Lemma pop_idx_ok : forall h, idx_ok h -> idx_ok (fst (f_pop h)).
Proof.
  intros h Hok.
  destruct (arr h) as [|x0 t0] eqn:E.
  { unfold f_pop. rewrite E. exact Hok. }
  assert (Hne : arr h <> []) by (rewrite E; discriminate).
  rewrite (pop_spec h Hne). cbn [fst].
  pose proof (idx_ok_nodup h Hok) as Hnd.
  destruct Hok as [Hin Hout].
  set (n := (length (arr h) - 1)%nat).
  assert (Hlen : (0 < length (arr h))%nat) by (rewrite E; cbn; lia).
  split; cbn [arr hs].
  - intros k Hk. rewrite removelast_length in Hk. fold n in Hk.
    rewrite idx_set_idx. rewrite anth_removelast by (fold n; lia).
    destruct (N.eqb_spec (anth (arr h) n) (anth (arr h) k)) as [E'|E'].
    + exfalso. assert (n = k).
      { eapply idx_ok_inj; [split; eassumption| | |exact E']; unfold n; lia. }
      lia.
    + apply Hin. lia.
  - intros y Hy. rewrite idx_set_idx.
    destruct (N.eqb_spec (anth (arr h) n) y) as [E'|E']; [reflexivity|].
    apply Hout. intros HI. apply Hy.
    rewrite (removelast_split (arr h) Hne) in HI. apply in_app_or in HI.
    destruct HI as [HI|[HI|[]]]; [exact HI|]. fold n in HI. contradiction.
Qed.

(** ** idx_inv: any sequence of calls on the futures type keeps the invariant *)

Lemma prim_step_idx_ok : forall h p h', idx_ok h -> prim_step h p = Some h' -> idx_ok h'.
Proof.
  intros h p h' Hok Hs. destruct p as [i j|x| |i j|]; cbn [prim_step] in Hs.
  - destruct (in_range h i && in_range h j); [|discriminate].
    injection Hs as <-. apply swap_idx_ok. exact Hok.
  - destruct (existsb (N.eqb x) (arr h)) eqn:E; [discriminate|].
    injection Hs as <-. apply push_idx_ok; [exact Hok|].
    intros HI. assert (existsb (N.eqb x) (arr h) = true).
    { apply existsb_exists. exists x. split; [exact HI|apply N.eqb_refl]. }
    congruence.
  - destruct (arr h) eqn:E; [discriminate|]. injection Hs as <-.
    apply pop_idx_ok. exact Hok.
  - destruct (in_range h i && in_range h j); [|discriminate]. injection Hs as <-. exact Hok.
  - injection Hs as <-. exact Hok.
Qed.

Theorem idx_inv : forall ps h h', idx_ok h -> prim_run h ps = Some h' -> idx_ok h'.
Proof.
  induction ps as [|p t IH]; intros h h' Hok Hr; cbn [prim_run] in Hr.
  - injection Hr as <-. exact Hok.
  - destruct (prim_step h p) as [h1|] eqn:E; [|discriminate].
    eapply IH; [|exact Hr]. eapply prim_step_idx_ok; eauto.
Qed.

(** * what the heap algorithms may change *)

Definition same_data (h h' : fheap) : Prop :=
  forall x, fireT (get (hs h') x) = fireT (get (hs h) x) /\ live (get (hs h') x) = live (get (hs h) x).

Lemma same_data_refl : forall h, same_data h h.
Proof. intros h x. split; reflexivity. Qed.

Lemma same_data_trans : forall a b c, same_data a b -> same_data b c -> same_data a c.
Proof.
  intros a b c H1 H2 x. destruct (H1 x) as [A B]. destruct (H2 x) as [C D].
  split; congruence.
Qed.

(* h' differs from h only by a rearrangement of the slots below n and by idx fields *)
Record shuffle (n : nat) (h h' : fheap) : Prop := mkShuffle {
  sh_len : length (arr h') = length (arr h);
  sh_tail : forall k, (n <= k)%nat -> anth (arr h') k = anth (arr h) k;
  sh_in : forall x, In x (arr h') <-> In x (arr h);
  sh_data : same_data h h';
  sh_bad : bad h' = bad h
}.

Lemma shuffle_refl : forall n h, shuffle n h h.
Proof.
  intros n h. constructor; try reflexivity. apply same_data_refl.
Qed.

Lemma shuffle_trans : forall n a b c, shuffle n a b -> shuffle n b c -> shuffle n a c.
Proof.
  intros n a b c [L1 T1 I1 D1 B1] [L2 T2 I2 D2 B2]. constructor.
  - congruence.
  - intros k Hk. rewrite T2, T1 by exact Hk. reflexivity.
  - intros x. rewrite I2. apply I1.
  - eapply same_data_trans; eauto.
  - congruence.
Qed.

Lemma shuffle_mono : forall n m h h', (n <= m)%nat -> shuffle n h h' -> shuffle m h h'.
Proof.
  intros n m h h' Hnm [L T I D B]. constructor; auto. intros k Hk. apply T. lia.
Qed.

Lemma swap_bad : forall h i j, in_range h i = true -> in_range h j = true ->
  bad (f_swap h i j) = bad h.
Proof. intros h i j Hi Hj. unfold f_swap. rewrite Hi, Hj. reflexivity. Qed.

Lemma swap_same_data : forall h i j, same_data h (f_swap h i j).
Proof.
  intros h i j. destruct (in_range h i && in_range h j) eqn:R.
  - apply andb_prop in R. destruct R as [Hi Hj]. intros x.
    rewrite (swap_store h i j Hi Hj), !fireT_set_idx, !live_set_idx. split; reflexivity.
  - unfold f_swap. rewrite R. intros x. split; reflexivity.
Qed.

Lemma swap_shuffle : forall n h i j, in_range h i = true -> in_range h j = true ->
  (Z.to_nat i < n)%nat -> (Z.to_nat j < n)%nat -> shuffle n h (f_swap h i j).
Proof.
  intros n h i j Hi Hj Li Lj. constructor.
  - apply swap_length.
  - intros k Hk. apply swap_at_other; try assumption; lia.
  - intros x. apply swap_In.
  - apply swap_same_data.
  - apply swap_bad; assumption.
Qed.

Lemma in_range_intro : forall h i, 0 <= i -> i < f_len h -> in_range h i = true.
Proof.
  intros h i A B. unfold in_range. apply andb_true_intro. split; [apply Z.leb_le|apply Z.ltb_lt]; lia.
Qed.

Lemma swap_f_len : forall h i j, f_len (f_swap h i j) = f_len h.
Proof. intros h i j. unfold f_len. rewrite swap_length. reflexivity. Qed.

(** ** up *)

Lemma up_idx_ok : forall fuel h j, idx_ok h -> idx_ok (up fuel h j).
Proof.
  induction fuel as [|f IH]; intros h j Hok; cbn [up].
  - exact Hok.
  - destruct ((Z.quot (j - 1) 2 =? j) || negb (f_less h j (Z.quot (j - 1) 2))); [exact Hok|].
    apply IH. apply swap_idx_ok. exact Hok.
Qed.

Lemma parent_lt : forall j, 1 <= j -> 0 <= Z.quot (j - 1) 2 < j.
Proof.
  intros j Hj. pose proof (Z.quot_pos (j - 1) 2 ltac:(lia) ltac:(lia)).
  pose proof (Z.quot_rem' (j - 1) 2). pose proof (Z.rem_bound_pos (j - 1) 2 ltac:(lia) ltac:(lia)).
  lia.
Qed.

Lemma parent_zero : Z.quot (0 - 1) 2 = 0.
Proof. reflexivity. Qed.

Lemma up_shuffle : forall fuel h j n,
  0 <= j -> (Z.to_nat j < n)%nat -> (n <= length (arr h))%nat -> (Z.to_nat j < fuel)%nat ->
  shuffle n h (up fuel h j).
Proof.
  induction fuel as [|f IH]; intros h j n Hj Hjn Hn Hf; [lia|].
  cbn [up].
  destruct ((Z.quot (j - 1) 2 =? j) || negb (f_less h j (Z.quot (j - 1) 2))) eqn:C.
  - apply shuffle_refl.
  - apply orb_false_elim in C. destruct C as [C _]. apply Z.eqb_neq in C.
    assert (Hj1 : 1 <= j).
    { destruct (Z.eq_dec j 0) as [->|]; [rewrite parent_zero in C; lia|lia]. }
    pose proof (parent_lt j Hj1) as Hp.
    set (i := Z.quot (j - 1) 2) in *.
    assert (Ri : in_range h i = true) by (apply in_range_intro; unfold f_len; lia).
    assert (Rj : in_range h j = true) by (apply in_range_intro; unfold f_len; lia).
    eapply shuffle_trans.
    + apply (swap_shuffle n h i j Ri Rj); lia.
    + apply IH; try lia. rewrite swap_length. exact Hn.
Qed.

(** ** down *)

Lemma down_loop_idx_ok : forall fuel h i n, idx_ok h -> idx_ok (fst (down_loop fuel h i n)).
Proof.
  induction fuel as [|f IH]; intros h i n Hok; cbn [down_loop].
  - exact Hok.
  - destruct ((2 * i + 1 >=? n) || (2 * i + 1 <? 0)); [exact Hok|].
    match goal with |- context [negb (f_less h ?j i)] => destruct (negb (f_less h j i)); [exact Hok|] end.
    apply IH. apply swap_idx_ok. exact Hok.
Qed.

Lemma down_loop_shuffle : forall fuel h i n,
  0 <= i -> n <= f_len h -> (Z.to_nat (n - i) < fuel)%nat ->
  shuffle (Z.to_nat n) h (fst (down_loop fuel h i n)) /\ i <= snd (down_loop fuel h i n).
Proof.
  induction fuel as [|f IH]; intros h i n Hi Hn Hf; [lia|].
  cbn [down_loop].
  destruct ((2 * i + 1 >=? n) || (2 * i + 1 <? 0)) eqn:C.
  { cbn [fst snd]. split; [apply shuffle_refl|lia]. }
  apply orb_false_elim in C. destruct C as [C1 C2].
  rewrite Z.geb_leb in C1. apply Z.leb_gt in C1. apply Z.ltb_ge in C2.
  set (j := if (2 * i + 1 + 1 <? n) && f_less h (2 * i + 1 + 1) (2 * i + 1)
            then 2 * i + 1 + 1 else 2 * i + 1).
  assert (Hjr : i < j < n).
  { unfold j. destruct (2 * i + 1 + 1 <? n) eqn:J2; cbn [andb].
    - apply Z.ltb_lt in J2. destruct (f_less h (2 * i + 1 + 1) (2 * i + 1)); lia.
    - lia. }
  destruct (negb (f_less h j i)).
  { cbn [fst snd]. split; [apply shuffle_refl|lia]. }
  assert (Ri : in_range h i = true) by (apply in_range_intro; lia).
  assert (Rj : in_range h j = true) by (apply in_range_intro; lia).
  destruct (IH (f_swap h i j) j n) as [Sh L]; try lia.
  { rewrite swap_f_len. exact Hn. }
  split; [|lia].
  eapply shuffle_trans; [|exact Sh].
  apply (swap_shuffle (Z.to_nat n) h i j Ri Rj); lia.
Qed.

Lemma down_shuffle : forall h i n, 0 <= i -> 0 <= n <= f_len h ->
  shuffle (Z.to_nat n) h (fst (down h i n)).
Proof.
  intros h i n Hi Hn. unfold down.
  destruct (down_loop (fuel_of h) h i n) as [h' i'] eqn:E. cbn [fst].
  pose proof (down_loop_shuffle (fuel_of h) h i n Hi ltac:(lia)) as H.
  rewrite E in H. cbn [fst snd] in H. apply H.
  unfold fuel_of, f_len in *. lia.
Qed.

Lemma down_idx_ok : forall h i n, idx_ok h -> idx_ok (fst (down h i n)).
Proof.
  intros h i n Hok. unfold down.
  pose proof (down_loop_idx_ok (fuel_of h) h i n Hok) as H.
  destruct (down_loop (fuel_of h) h i n) as [h' i']. exact H.
Qed.

(** ** Pop of the last slot after a shuffle of the others *)

Lemma In_removelast_nodup : forall (l : list fid) y, l <> [] -> NoDup l ->
  (In y (removelast l) <-> In y l /\ y <> anth l (length l - 1)).
Proof.
  intros l y Hne Hnd. pose proof (removelast_split l Hne) as Hs.
  set (x := anth l (length l - 1)) in *. rewrite Hs in Hnd.
  apply NoDup_remove_2 in Hnd. rewrite app_nil_r in Hnd.
  split.
  - intros HI. split; [rewrite Hs; apply in_or_app; left; exact HI|].
    intros ->. contradiction.
  - intros [HI Hy]. rewrite Hs in HI. apply in_app_or in HI.
    destruct HI as [HI|[HI|[]]]; [exact HI|congruence].
Qed.

Record removed (h h' : fheap) (x : fid) : Prop := mkRemoved {
  rm_in : forall y, In y (arr h') <-> In y (arr h) /\ y <> x;
  rm_len : S (length (arr h')) = length (arr h);
  rm_data : same_data h h';
  rm_bad : bad h' = bad h;
  rm_ok : idx_ok h';
  rm_idx : idx (get (hs h') x) = -1
}.

Lemma pop_after_shuffle : forall h1 h2 n,
  idx_ok h2 -> length (arr h1) = S n -> shuffle n h1 h2 ->
  removed h1 (fst (f_pop h2)) (anth (arr h1) n) /\ snd (f_pop h2) = anth (arr h1) n.
Proof.
  intros h1 h2 n Hok Hlen [L T I D B].
  assert (Hne : arr h2 <> []).
  { intros E. rewrite E in L. cbn in L. lia. }
  rewrite (pop_spec h2 Hne). cbn [fst snd].
  assert (Hlast : anth (arr h2) (length (arr h2) - 1) = anth (arr h1) n).
  { rewrite L, Hlen. replace (S n - 1)%nat with n by lia. apply T. lia. }
  rewrite Hlast. split; [|reflexivity].
  pose proof (pop_idx_ok h2 Hok) as Hok'. rewrite (pop_spec h2 Hne), Hlast in Hok'. cbn [fst] in Hok'.
  constructor; cbn [arr hs bad].
  - intros y. rewrite (In_removelast_nodup (arr h2) y Hne (idx_ok_nodup h2 Hok)).
    rewrite Hlast, I. reflexivity.
  - rewrite removelast_length, L, Hlen. lia.
  - intros y. destruct (D y) as [A C]. cbn [hs]. rewrite fireT_set_idx, live_set_idx. split; assumption.
  - exact B.
  - exact Hok'.
  - rewrite idx_set_idx, N.eqb_refl. reflexivity.
Qed.

(** ** heap.Pop returns the head and removes exactly it *)

Theorem pop_head : forall h, idx_ok h -> arr h <> [] ->
  removed h (fst (heap_pop h)) (anth (arr h) 0) /\ snd (heap_pop h) = anth (arr h) 0.
Proof.
  intros h Hok Hne. unfold heap_pop.
  assert (Hlen : (0 < length (arr h))%nat) by (destruct (arr h); [contradiction|cbn; lia]).
  set (n := f_len h - 1).
  assert (Hn : 0 <= n) by (unfold n, f_len; lia).
  assert (R0 : in_range h 0 = true) by (apply in_range_intro; unfold f_len; lia).
  assert (Rn : in_range h n = true) by (apply in_range_intro; unfold n, f_len; lia).
  set (h1 := f_swap h 0 n).
  pose proof (down_shuffle h1 0 n ltac:(lia)) as Sh.
  pose proof (down_idx_ok h1 0 n (swap_idx_ok h 0 n Hok)) as Hok2.
  destruct (down h1 0 n) as [h2 mv]. cbn [fst] in *.
  assert (Hlen1 : length (arr h1) = S (Z.to_nat n)).
  { unfold h1. rewrite swap_length. unfold n, f_len. lia. }
  destruct (pop_after_shuffle h1 h2 (Z.to_nat n) Hok2 Hlen1) as [Rm Eq].
  { apply Sh. unfold h1. rewrite swap_f_len. unfold n. lia. }
  assert (Hx : anth (arr h1) (Z.to_nat n) = anth (arr h) 0).
  { unfold h1. rewrite swap_at_j by assumption. reflexivity. }
  rewrite Hx in Rm, Eq. split; [|exact Eq].
  destruct Rm as [I L D B O X]. constructor; auto.
  - intros y. rewrite I. unfold h1. rewrite swap_In. reflexivity.
  - rewrite L. unfold h1. apply swap_length.
  - eapply same_data_trans; [apply (swap_same_data h 0 n)|exact D].
  - rewrite B. unfold h1. apply swap_bad; assumption.
Qed.

(** ** heap.Remove h i removes the future at slot i and only it *)

Theorem remove_at_exact : forall h i, idx_ok h -> in_range h i = true ->
  removed h (fst (heap_remove h i)) (anth (arr h) (Z.to_nat i)) /\
  snd (heap_remove h i) = anth (arr h) (Z.to_nat i).
Proof.
  intros h i Hok Ri. unfold heap_remove.
  destruct (in_range_nat _ _ Ri) as [Hi0 [Li Ei]].
  set (n := f_len h - 1).
  assert (Hn : 0 <= n) by (unfold n, f_len; lia).
  assert (Rn : in_range h n = true) by (apply in_range_intro; unfold n, f_len; lia).
  destruct (negb (n =? i)) eqn:C.
  - apply negb_true_iff, Z.eqb_neq in C.
    assert (Hin : i < n) by (unfold n, f_len in *; lia).
    set (h1 := f_swap h i n).
    assert (Hf1 : f_len h1 = f_len h) by apply swap_f_len.
    pose proof (down_shuffle h1 i n Hi0 ltac:(lia)) as Sh.
    pose proof (down_idx_ok h1 i n (swap_idx_ok h i n Hok)) as Hok2.
    destruct (down h1 i n) as [h2 mv]. cbn [fst] in *.
    assert (Hlen1 : length (arr h1) = S (Z.to_nat n)).
    { unfold h1. rewrite swap_length. unfold n, f_len. lia. }
    assert (S3 : shuffle (Z.to_nat n) h1 (if negb mv then up (fuel_of h2) h2 i else h2) /\
                 idx_ok (if negb mv then up (fuel_of h2) h2 i else h2)).
    { destruct (negb mv).
      - split; [|apply up_idx_ok; exact Hok2].
        eapply shuffle_trans; [exact Sh|].
        apply up_shuffle; try lia.
        + rewrite (sh_len _ _ _ Sh), Hlen1. lia.
        + unfold fuel_of. rewrite (sh_len _ _ _ Sh), Hlen1. lia.
      - split; assumption. }
    destruct S3 as [S3 Hok3].
    destruct (pop_after_shuffle h1 _ (Z.to_nat n) Hok3 Hlen1 S3) as [Rm Eq].
    assert (Hx : anth (arr h1) (Z.to_nat n) = anth (arr h) (Z.to_nat i)).
    { unfold h1. rewrite swap_at_j by assumption. reflexivity. }
    rewrite Hx in Rm, Eq. split; [|exact Eq].
    destruct Rm as [I L D B O X]. constructor; auto.
    + intros y. rewrite I. unfold h1. rewrite swap_In. reflexivity.
    + rewrite L. unfold h1. apply swap_length.
    + eapply same_data_trans; [apply (swap_same_data h i n)|exact D].
    + rewrite B. unfold h1. apply swap_bad; assumption.
  - apply negb_false_iff, Z.eqb_eq in C.
    assert (Hlen1 : length (arr h) = S (Z.to_nat n)) by (unfold n, f_len in *; lia).
    destruct (pop_after_shuffle h h (Z.to_nat n) Hok Hlen1 (shuffle_refl _ _)) as [Rm Eq].
    rewrite C in Rm, Eq. split; assumption.
Qed.

(* the form used by cancel(): remove by the future's own idx *)
Theorem remove_exact : forall h x, idx_ok h -> In x (arr h) ->
  removed h (fst (heap_remove h (idx (get (hs h) x)))) x /\
  snd (heap_remove h (idx (get (hs h) x))) = x.
Proof.
  intros h x Hok HI. apply In_anth in HI. destruct HI as [k [Hk E]].
  assert (Hidx : idx (get (hs h) x) = Z.of_nat k).
  { rewrite <- E. apply (proj1 Hok). exact Hk. }
  rewrite Hidx.
  assert (R : in_range h (Z.of_nat k) = true) by (apply in_range_intro; unfold f_len; lia).
  pose proof (remove_at_exact h (Z.of_nat k) Hok R) as H.
  rewrite Nat2Z.id, E in H. exact H.
Qed.

(* a future that is not pending has idx = -1: cancel() does nothing *)
Lemma not_pending_idx : forall h x, idx_ok h -> ~ In x (arr h) -> idx (get (hs h) x) <? 0 = true.
Proof. intros h x [_ Hout] Hx. rewrite (Hout x Hx). reflexivity. Qed.

Lemma pending_idx : forall h x, idx_ok h -> In x (arr h) -> idx (get (hs h) x) <? 0 = false.
Proof.
  intros h x Hok HI. apply In_anth in HI. destruct HI as [k [Hk E]].
  rewrite <- E, (proj1 Hok k Hk). apply Z.ltb_ge. lia.
Qed.

(** ** heap.Push *)

Record pushed (h h' : fheap) (x : fid) : Prop := mkPushed {
  pu_in : forall y, In y (arr h') <-> In y (arr h) \/ y = x;
  pu_len : length (arr h') = S (length (arr h));
  pu_data : same_data h h';
  pu_bad : bad h' = bad h;
  pu_ok : idx_ok h'
}.

Theorem push_exact : forall h x, idx_ok h -> ~ In x (arr h) -> pushed h (heap_push h x) x.
Proof.
  intros h x Hok Hx. unfold heap_push.
  set (h1 := f_push h x).
  assert (Hok1 : idx_ok h1) by (apply push_idx_ok; assumption).
  assert (Hlen1 : length (arr h1) = S (length (arr h))).
  { unfold h1, f_push. cbn [arr]. rewrite app_length. cbn. lia. }
  assert (Sh : shuffle (length (arr h1)) h1 (up (fuel_of h1) h1 (f_len h1 - 1))).
  { apply up_shuffle; unfold f_len, fuel_of; lia. }
  destruct Sh as [L T I D B]. constructor.
  - intros y. rewrite I. unfold h1, f_push. cbn [arr]. rewrite in_app_iff. cbn [In]. intuition.
  - rewrite L. exact Hlen1.
  - intros y. destruct (D y) as [A C]. unfold h1, f_push in A, C. cbn [hs] in A, C.
    rewrite fireT_set_idx in A. rewrite live_set_idx in C. split; assumption.
  - rewrite B. reflexivity.
  - apply up_idx_ok. exact Hok1.
Qed.

(** ** permutation forms *)

Lemma perm_of_in : forall (l l' : list fid), NoDup l -> NoDup l' ->
  (forall y, In y l <-> In y l') -> Permutation l l'.
Proof. intros l l' A B C. apply NoDup_Permutation; assumption. Qed.

Theorem heap_perm_push : forall h x, idx_ok h -> ~ In x (arr h) ->
  Permutation (arr (heap_push h x)) (x :: arr h).
Proof.
  intros h x Hok Hx. destruct (push_exact h x Hok Hx) as [I _ _ _ O].
  apply perm_of_in.
  - apply idx_ok_nodup. exact O.
  - constructor; [exact Hx|apply idx_ok_nodup; exact Hok].
  - intros y. rewrite I. cbn [In]. intuition.
Qed.

Lemma removed_perm : forall h h' x, idx_ok h -> In x (arr h) -> removed h h' x ->
  Permutation (x :: arr h') (arr h).
Proof.
  intros h h' x Hok HI [I _ _ _ O _]. apply perm_of_in.
  - constructor; [rewrite I; intuition | apply idx_ok_nodup; exact O].
  - apply idx_ok_nodup. exact Hok.
  - intros y. cbn [In]. rewrite I. destruct (N.eq_dec x y) as [->|]; intuition.
Qed.

Theorem heap_perm_pop : forall h, idx_ok h -> arr h <> [] ->
  Permutation (snd (heap_pop h) :: arr (fst (heap_pop h))) (arr h).
Proof.
  intros h Hok Hne. destruct (pop_head h Hok Hne) as [R E]. rewrite E.
  eapply removed_perm; eauto. destruct (arr h); [contradiction|left; reflexivity].
Qed.

Theorem heap_perm_remove : forall h x, idx_ok h -> In x (arr h) ->
  Permutation (x :: arr (fst (heap_remove h (idx (get (hs h) x))))) (arr h).
Proof.
  intros h x Hok HI. destruct (remove_exact h x Hok HI) as [R _].
  eapply removed_perm; eauto.
Qed.

(** * unfolded statements (for Properties/C12.v) *)

Lemma idx_inv_unfolded : forall (ps : list prim) (h' : fheap),
  prim_run empty_heap ps = Some h' ->
  (forall k, (k < length (arr h'))%nat -> idx (get (hs h') (nth k (arr h') 0%N)) = Z.of_nat k) /\
  (forall x, ~ In x (arr h') -> idx (get (hs h') x) = -1).
Proof. intros ps h' H. exact (idx_inv ps empty_heap h' idx_ok_empty H). Qed.

Lemma remove_exact_unfolded : forall (h : fheap) (x : fid),
  idx_ok h -> In x (arr h) ->
  let r := heap_remove h (idx (get (hs h) x)) in
  snd r = x /\
  (forall y, In y (arr (fst r)) <-> In y (arr h) /\ y <> x) /\
  S (length (arr (fst r))) = length (arr h) /\
  (forall y, fireT (get (hs (fst r)) y) = fireT (get (hs h) y) /\
             live (get (hs (fst r)) y) = live (get (hs h) y)) /\
  bad (fst r) = bad h /\ idx_ok (fst r) /\ idx (get (hs (fst r)) x) = -1.
Proof.
  intros h x Hok HI. destruct (remove_exact h x Hok HI) as [[A B C D E F] G].
  cbv zeta. split; [exact G|]. split; [exact A|]. split; [exact B|]. split; [exact C|].
  split; [exact D|]. split; [exact E|exact F].
Qed.

Lemma pop_head_unfolded : forall (h : fheap),
  idx_ok h -> arr h <> [] ->
  let r := heap_pop h in
  snd r = nth 0 (arr h) 0%N /\
  (forall y, In y (arr (fst r)) <-> In y (arr h) /\ y <> snd r) /\
  bad (fst r) = bad h /\ idx_ok (fst r) /\ idx (get (hs (fst r)) (snd r)) = -1.
Proof.
  intros h Hok Hne. destruct (pop_head h Hok Hne) as [[A B C D E F] G].
  cbv zeta. rewrite G. split; [reflexivity|]. split; [exact A|]. split; [exact D|].
  split; [exact E|exact F].
Qed.

Lemma push_exact_unfolded : forall (h : fheap) (x : fid),
  idx_ok h -> ~ In x (arr h) ->
  let h' := heap_push h x in
  (forall y, In y (arr h') <-> In y (arr h) \/ y = x) /\ bad h' = bad h /\ idx_ok h'.
Proof.
  intros h x Hok Hx. destruct (push_exact h x Hok Hx) as [A B C D E]. cbv zeta. auto.
Qed.
