(** C11, part 2: the cache code of model/IMapLRU.v (and its pre-fix Clear) is
    written over an arbitrary map machine.  If a machine [s1] follows a
    machine [s2] step by step (same outputs, related states) on the calls
    the cache makes, every cache operation that succeeds over [s2] succeeds
    over [s1] with the same result and related states.

    Instantiated with (pointer model, specification, [R]) and with (pointer
    model, chain, representation) in C11_LRU.v. *)
From Coq Require Import List ZArith Arith Bool Lia.
From GL Require Import lib.IMapBase model.IMapLRU model.legacy.IMapLRULegacy.
Import ListNotations.
Open Scope Z_scope.

Section CacheSim.
Context {M1 M2 : Type} (s1 : M1 -> op -> M1 * out) (s2 : M2 -> op -> M2 * out).
Variable Rel : M1 -> M2 -> Prop.
Variable it : Z.                       (* the name [Clear] gives its iterator *)
Variable fresh : M2 -> Prop.           (* [it] names no open iterator *)

(* the calls the cache code makes, except the creation of [it] *)
Definition basic (x : op) : Prop :=
  match x with
  | OAdd _ _ | ORemove _ | OGet _ | OLen | OFirst => True
  | OHasNext i | ONext i | OClose i => i = it
  | ONewIter _ => False
  end.

Hypothesis Hstep : forall m1 m2 x m2' y, basic x -> Rel m1 m2 -> mstep s2 m2 x = Ok (m2', y) ->
  exists m1', mstep s1 m1 x = Ok (m1', y) /\ Rel m1' m2'.
Hypothesis Hnew : forall m1 m2 m2' y, fresh m2 -> Rel m1 m2 -> mstep s2 m2 (ONewIter it) = Ok (m2', y) ->
  exists m1', mstep s1 m1 (ONewIter it) = Ok (m1', y) /\ Rel m1' m2'.

Ltac sim_go HRel :=
  lazymatch goal with
  | H : bind (mstep s2 ?m ?x) _ = Ok _ |- _ =>
      let E := fresh "E" in let m' := fresh "m" in let y := fresh "y" in
      destruct (mstep s2 m x) as [[m' y]| |] eqn:E; [|discriminate H|discriminate H];
      cbn [bind] in H;
      let n1 := fresh "n" in let F := fresh "F" in let HR' := fresh "HR" in
      destruct (Hstep _ _ x _ _ ltac:(first [exact I|reflexivity]) HRel E) as (n1 & F & HR');
      rewrite F; cbn [bind]; sim_go HR'
  | H : match ?y with _ => _ end = Ok _ |- _ =>
      revert H; destruct y; intros H; cbn [bind] in H |- *; try discriminate H; sim_go HRel
  | H : Ok _ = Ok _ |- _ => injection H as <- <-; eexists; split; [reflexivity|exact HRel]
  | _ => idtac
  end.

Lemma getorcreate_sim cap m1 m2 k v ok m2' out :
  Rel m1 m2 -> lc_getorcreate s2 cap m2 k v ok = Ok (m2', out) ->
  exists m1', lc_getorcreate s1 cap m1 k v ok = Ok (m1', out) /\ Rel m1' m2'.
Proof. intros HR H. unfold lc_getorcreate in *. sim_go HR. Qed.

Lemma remove_sim m1 m2 k m2' out :
  Rel m1 m2 -> lc_remove s2 m2 k = Ok (m2', out) ->
  exists m1', lc_remove s1 m1 k = Ok (m1', out) /\ Rel m1' m2'.
Proof. intros HR H. unfold lc_remove in *. sim_go HR. Qed.

Lemma clear_loop_sim : forall fuel m1 m2 removed m2' n,
  Rel m1 m2 -> lc_clear_loop s2 fuel m2 it removed = Ok (m2', n) ->
  exists m1', lc_clear_loop s1 fuel m1 it removed = Ok (m1', n) /\ Rel m1' m2'.
Proof.
  induction fuel as [|f IH]; intros m1 m2 removed m2' n HR H; [discriminate|].
  cbn [lc_clear_loop] in *. sim_go HR.
  all: match goal with
       | HR' : Rel ?a ?b, H' : lc_clear_loop s2 _ ?b it ?r = Ok _ |- _ => exact (IH a b r _ _ HR' H')
       end.
Qed.

Lemma clear_fuel_sim m1 m2 : Rel m1 m2 -> clear_fuel s2 m2 <> O -> clear_fuel s1 m1 = clear_fuel s2 m2.
Proof.
  intros HR Hf. unfold clear_fuel in *.
  destruct (s2 m2 OLen) as [m2' y] eqn:E2. cbn [snd] in *.
  destruct y as [| | |n| | | | |]; try congruence.
  assert (Hm : mstep s2 m2 OLen = Ok (m2', OutLen n)) by (unfold mstep; rewrite E2; reflexivity).
  destruct (Hstep m1 m2 OLen _ _ I HR Hm) as (m1' & F & _). unfold mstep in F.
  destruct (s1 m1 OLen) as [m1'' y1]. cbn [snd].
  destruct y1; try discriminate F; congruence.
Qed.

Lemma clear_sim m1 m2 m2' out :
  fresh m2 -> Rel m1 m2 -> lc_clear s2 m2 it = Ok (m2', out) ->
  exists m1', lc_clear s1 m1 it = Ok (m1', out) /\ Rel m1' m2'.
Proof.
  intros Hf HR H. unfold lc_clear in *.
  assert (Hfuel : clear_fuel s2 m2 <> O).
  { intros E. rewrite E in H. destruct (mstep s2 m2 (ONewIter it)) as [[? ?]| |]; discriminate H. }
  rewrite (clear_fuel_sim _ _ HR Hfuel).
  destruct (mstep s2 m2 (ONewIter it)) as [[ma ya]| |] eqn:Ea; [|discriminate H|discriminate H]. cbn [bind] in H.
  destruct (Hnew _ _ _ _ Hf HR Ea) as (na & Fa & HRa). rewrite Fa. cbn [bind].
  destruct (lc_clear_loop s2 (clear_fuel s2 m2) ma it 0) as [[mb nb]| |] eqn:Eb; [|discriminate H|discriminate H].
  cbn [bind] in H.
  destruct (clear_loop_sim _ _ _ _ _ _ HRa Eb) as (n_b & Fb & HRb). rewrite Fb. cbn [bind].
  sim_go HRb.
Qed.

Lemma clear_legacy_sim m1 m2 m2' out :
  fresh m2 -> Rel m1 m2 -> lc_clear_legacy s2 m2 it = Ok (m2', out) ->
  exists m1', lc_clear_legacy s1 m1 it = Ok (m1', out) /\ Rel m1' m2'.
Proof.
  intros Hf HR H. unfold lc_clear_legacy in *.
  assert (Hfuel : clear_fuel s2 m2 <> O).
  { intros E. rewrite E in H. destruct (mstep s2 m2 (ONewIter it)) as [[? ?]| |]; discriminate H. }
  rewrite (clear_fuel_sim _ _ HR Hfuel).
  destruct (mstep s2 m2 (ONewIter it)) as [[ma ya]| |] eqn:Ea; [|discriminate H|discriminate H]. cbn [bind] in H.
  destruct (Hnew _ _ _ _ Hf HR Ea) as (na & Fa & HRa). rewrite Fa. cbn [bind].
  destruct (lc_clear_loop s2 (clear_fuel s2 m2) ma it 0) as [[mb nb]| |] eqn:Eb; [|discriminate H|discriminate H].
  cbn [bind] in H.
  destruct (clear_loop_sim _ _ _ _ _ _ HRa Eb) as (n_b & Fb & HRb). rewrite Fb. cbn [bind].
  sim_go HRb.
Qed.

End CacheSim.
