(** Version freshness in model/LockLTS.v (invariant I3 of DESIGN 5.4) and its two consequences:
    a stale renewal CAS can never match a newer record, and a wake-up of a storage waiter is
    never lost (a version never comes back).  Holds for ALL traces, no premise. *)
From Coq Require Import List Arith Bool NArith Lia.
From GL Require Import model.LockLTS proofs.C01_Exclusion.
Import ListNotations.

Record vinv (s : state) : Prop := {
  v_rec : forall v tn, rec s = Some (v, tn) -> (v < nextver s)%N;
  v_tm : forall id, (tm_ver (timers s id) < nextver s)%N;
  v_cas : forall id ld v', tm_st (timers s id) = TCasDone ld (CRenewed v') -> (v' < nextver s)%N;
  v_wait : forall t L k v, pc_of s t = WaitVer L k v -> (v < nextver s)%N;
  v_own : forall id v o, rec s = Some (v, o) -> v = tm_ver (timers s id) -> o = tm_tn (timers s id);
  v_own2 : forall id ld v' o, tm_st (timers s id) = TCasDone ld (CRenewed v') ->
             rec s = Some (v', o) -> o = tm_tn (timers s id)
}.

Lemma vinv_init : forall lp, vinv (init lp).
Proof. intros lp. constructor; cbn; intros; try discriminate; try lia. Qed.

Ltac vauto s I :=
    (constructor; unfold pc_of, set_pc, arm_first in *; cbn in *; intros;
     upd_split; rewrite ?Nat.eqb_refl in *; cbn in *;
     repeat match goal with
     | H : context [if (?a =? ?b)%nat then _ else _] |- _ => destruct (Nat.eqb_spec a b); subst; cbn in H
     | |- context [if (?a =? ?b)%nat then _ else _] => destruct (Nat.eqb_spec a b); subst; cbn
     end;
     try discriminate;
     repeat match goal with
     | H : Some _ = Some _ |- _ => injection H as ? ?; subst
     | H : WaitVer _ _ _ = WaitVer _ _ _ |- _ => injection H as ? ? ?; subst
     | H : TCasDone _ _ = TCasDone _ _ |- _ => injection H as ? ?; subst
     | H : CRenewed _ = CRenewed _ |- _ => injection H as ?; subst
     end;
     try congruence;
     try (first [ eapply (v_own s I); [eassumption|reflexivity] | eapply (v_own s I); eassumption
                | eapply (v_own2 s I); eassumption ]);
     try (match goal with
          | H : rec s = Some (?v, _) |- _ => pose proof (v_rec s I _ _ H) end);
     try (match goal with
          | H : t_pc (th s ?t) = WaitVer _ _ ?v |- _ => pose proof (v_wait s I t _ _ _ H) end);
     try (match goal with
          | H : tm_st (timers s ?id) = TCasDone _ (CRenewed ?v) |- _ => pose proof (v_cas s I id _ _ H) end);
     repeat (match goal with
          | |- context [tm_ver (timers s ?id)] =>
              lazymatch goal with
              | Hx : (tm_ver (timers s id) < nextver s)%N |- _ => fail
              | _ => pose proof (v_tm s I id)
              end
          | H : context [tm_ver (timers s ?id)] |- _ =>
              lazymatch goal with
              | Hx : (tm_ver (timers s id) < nextver s)%N |- _ => fail
              | _ => pose proof (v_tm s I id)
              end
          end);
     try lia).

Lemma vinv_cancel : forall s id, vinv s -> vinv (cancel_timer s id).
Proof.
  intros s id I. unfold cancel_timer. destruct (tm_st (timers s id)) eqn:Hst; try exact I.
  vauto s I.
Qed.

Lemma vinv_step : forall s l s', vinv s -> step s l = Some s' -> vinv s'.
Proof.
  intros s l s' I H.
  destruct l; step_inv H;
    try match goal with Hh : cas_hit _ _ = Some _ |- _ => apply cas_hit_some in Hh end;
    try (vauto s I; fail).
  apply vinv_cancel. vauto s I.
Qed.

Lemma vinv_run : forall tr s s', vinv s -> run s tr = Some s' -> vinv s'.
Proof.
  induction tr as [|l tr IH]; intros s s' I Hr; cbn in *.
  - injection Hr as <-. exact I.
  - destruct (step s l) as [s1|] eqn:Hs; [|discriminate].
    apply (IH s1 s'); auto. eapply vinv_step; eauto.
Qed.

Lemma vinv_reachable : forall lp tr s, run (init lp) tr = Some s -> vinv s.
Proof. intros lp tr s Hr. eapply vinv_run; eauto using vinv_init. Qed.

(** a renewal CAS only ever matches the record of the tenure whose chain it belongs to: a stale
    timer of a previous tenure can never touch a newer record.  No premise on the trace at all. *)
Lemma stale_renewal_never_matches : forall lp tr s id o,
  run (init lp) tr = Some s ->
  cas_hit s (timers s id) = Some o -> o = tm_tn (timers s id).
Proof.
  intros lp tr s id o Hr Hh. apply cas_hit_some in Hh.
  eapply (v_own s (vinv_reachable lp tr s Hr)); [exact Hh|reflexivity].
Qed.

(** every version in the record, in timers and in storage waits is below the fresh-version counter *)
Lemma versions_below_counter : forall lp tr s,
  run (init lp) tr = Some s ->
  (forall v tn, rec s = Some (v, tn) -> (v < nextver s)%N) /\
  (forall id, (tm_ver (timers s id) < nextver s)%N) /\
  (forall t L k v, pc_of s t = WaitVer L k v -> (v < nextver s)%N).
Proof.
  intros lp tr s Hr. pose proof (vinv_reachable lp tr s Hr) as I.
  repeat split; [apply (v_rec s I)|apply (v_tm s I)|apply (v_wait s I)].
Qed.

(** no lost wake-up, persistent form: once the record a thread waits on has changed (or is gone),
    the thread stays able to return from the storage wait whatever happens next - a version never
    comes back *)
Lemma wakeup_persistent : forall lp tr s t L k v l s',
  run (init lp) tr = Some s ->
  pc_of s t = WaitVer L k v ->
  step s (StWaitRet t WChanged) <> None ->
  step s l = Some s' -> (forall w, l <> StWaitRet t w) ->
  pc_of s' t = WaitVer L k v /\ step s' (StWaitRet t WChanged) <> None.
Proof.
  intros lp tr s t L k v l s' Hr Hp Hen Hs Hnl.
  pose proof (vinv_reachable lp tr s Hr) as I.
  pose proof (v_wait s I t L k v Hp) as Hlt.
  assert (Hrec : forall o, rec s <> Some (v, o)).
  { intros o Hc. apply Hen. cbn. rewrite Hp, Hc. rewrite N.eqb_refl. reflexivity. }
  assert (Hgoal : pc_of s' t = WaitVer L k v /\ forall o, rec s' <> Some (v, o)).
  { destruct l; step_inv Hs;
      try match goal with Hh : cas_hit _ _ = Some _ |- _ => apply cas_hit_some in Hh end;
      unfold pc_of, set_pc, cancel_timer, arm_first in *; cbn in *;
      repeat match goal with |- context [match tm_st ?x with _ => _ end] => destruct (tm_st x); cbn end;
      upd_split; rewrite ?Nat.eqb_refl in *; cbn in *;
      try congruence;
      try (split; [assumption + congruence|]; intros o' Hc; try (eapply Hrec; eassumption);
           try discriminate; injection Hc as Hc1 Hc2; lia).
    all: try (exfalso; eapply Hnl; reflexivity).
    all: try (split; [congruence|]; intros o' Hc; try (eapply Hrec; eassumption); try discriminate).
    all: try (match goal with H1 : rec ?s0 = Some _, H2 : rec ?s0 = Some _ |- _ =>
                rewrite H1 in H2; exfalso; eapply Hrec; eassumption end).
  }
  destruct Hgoal as [Hp' Hrec']. split; [exact Hp'|].
  cbn. rewrite Hp'. destruct (rec s') as [[v' o']|] eqn:Hr'; [|discriminate].
  destruct (N.eqb_spec v' v) as [->|Hne]; [exfalso; eapply Hrec'; reflexivity|]. cbn. discriminate.
Qed.

