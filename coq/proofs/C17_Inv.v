(** C17, part 4: the invariant of the allocator model and what every
    operation does to a state that satisfies it. *)
From Coq Require Import List ZArith NArith Bool Lia.
From GL Require Import model.Blocks spec.AllocSet
  proofs.C17_Bytes proofs.C17_Geometry proofs.C17_Count.
Import ListNotations.
Open Scope Z_scope.

(** * The invariant *)

Record inv (page : Z) (fit : bool) (b : blocks) : Prop := mkInv {
  inv_page : 0 < page;
  inv_bs : valid_bs page (blkSize b);
  inv_bis : blksInSegm b = 8 * blkSize b;
  inv_segs : 1 <= segments b;
  (* the segments lie inside the storage; the storage may be larger (non-fit,
     or grown under the live allocator) *)
  inv_segs_fit : segments b * ssz (blkSize b) <= bsize (bts b);
  (* the hint is a header byte, or lies behind the last segment *)
  inv_hint : 0 <= freeIdx b /\
             (segments b * ssz (blkSize b) <= freeIdx b \/ freeIdx b mod ssz (blkSize b) < blkSize b);
  (* every header byte before the hint, in scan order, is full *)
  inv_full : forall s p, 0 <= s < segments b -> 0 <= p < blkSize b ->
             hdr_addr (blkSize b) s p < freeIdx b -> bget (bts b) (hdr_addr (blkSize b) s p) = 255%N;
  (* the counter is the number of zero header bits *)
  inv_avail : available b = free_count (blkSize b) (segments b) (bts b)
}.

(** the allocator covers the whole storage: what NewBlocks establishes and what
    holds until the storage is grown under the live allocator *)
Definition tight (fit : bool) (b : blocks) : Prop :=
  segments b = bsize (bts b) / ssz (blkSize b) /\
  (fit = true -> bsize (bts b) mod ssz (blkSize b) = 0).

Lemma segm_size_ssz : forall b, blksInSegm b = 8 * blkSize b -> segm_size b = ssz (blkSize b).
Proof. intros b H. unfold segm_size, ssz. rewrite H. reflexivity. Qed.

Lemma inv_bs_pos : forall page fit b, inv page fit b -> 0 < blkSize b.
Proof. intros page fit b I. destruct (inv_bs _ _ _ I) as [H _]. exact H. Qed.

Lemma hdr_in_buffer : forall bs segs size s p, 0 < bs -> segs * ssz bs <= size ->
  0 <= s < segs -> 0 <= p < bs -> 0 <= hdr_addr bs s p /\ hdr_addr bs s p < size /\
  hdr_addr bs s 0 + bs <= size.
Proof.
  intros bs segs size s p Hbs Hsz Hs Hp. unfold hdr_addr.
  pose proof (ssz_pos bs Hbs) as Hss. pose proof (bs_le_ssz bs Hbs) as Hle.
  assert (ssz bs * (s + 1) <= ssz bs * segs) by (apply Z.mul_le_mono_nonneg_l; lia).
  assert (0 <= ssz bs * s) by (apply Z.mul_nonneg_nonneg; lia). lia.
Qed.

(** * NewBlocks *)

Definition opened (bs : Z) (buf : buffer) : blocks :=
  mkBlocks bs (8 * bs) (bsize buf / ssz bs) 0 (free_count bs (bsize buf / ssz bs) buf) buf.

Lemma new_blocks_ok : forall page bs buf fit,
  0 < page -> valid_bs page bs -> ssz bs <= bsize buf ->
  (fit = true -> bsize buf mod ssz bs = 0) ->
  new_blocks page bs buf fit = CtorOk (opened bs buf).
Proof.
  intros page bs buf fit Hp Hv Hsz Hfit.
  assert (Hbs : 0 < bs) by (destruct Hv as [H _]; exact H).
  pose proof (ssz_pos bs Hbs) as Hss.
  unfold new_blocks.
  destruct (get_blocks_in_segment_spec page bs Hp) as [[_ E]|[Hn _]]; [|contradiction].
  rewrite E.
  destruct (Z.ltb_spec (bs * 8 + 1) 0) as [?|_]; [lia|].
  replace ((bs * 8 + 1) * bs) with (ssz bs) by (unfold ssz; ring).
  destruct (Z.eqb_spec (ssz bs) 0) as [?|_]; [lia|].
  destruct (Z.ltb_spec (bsize buf) (ssz bs)) as [?|_]; [lia|]. cbn [orb].
  rewrite Z.rem_mod_nonneg by lia.
  assert (Hf : fit && negb (bsize buf mod ssz bs =? 0) = false).
  { destruct fit; [|reflexivity]. rewrite Hfit by reflexivity. reflexivity. }
  rewrite Hf.
  rewrite Z.quot_div_nonneg by lia.
  unfold init_available. cbn [segments bts blkSize blksInSegm freeIdx].
  replace (segm_size (mkBlocks bs (bs * 8 + 1 - 1) (bsize buf / ssz bs) 0 0 buf)) with (ssz bs)
    by (unfold segm_size, ssz; cbn [blksInSegm blkSize]; ring).
  assert (Hsegs : 0 <= bsize buf / ssz bs) by (apply Z.div_pos; lia).
  rewrite init_loop_ok.
  - unfold opened, free_count. do 2 f_equal. lia.
  - exact Hbs.
  - lia.
  - rewrite Z2Nat.id by lia. rewrite Z.add_0_l, Z.mul_comm. apply Z.mul_div_le. exact Hss.
Qed.

(** the result of NewBlocks, for all arguments: an allocator or ErrInvalid *)
Lemma new_blocks_spec : forall page bs buf fit, 0 < page -> 0 <= bsize buf ->
  (valid_bs page bs /\ ssz bs <= bsize buf /\ (fit = true -> bsize buf mod ssz bs = 0) /\
   new_blocks page bs buf fit = CtorOk (opened bs buf))
  \/
  ((~ valid_bs page bs \/ bsize buf < ssz bs \/ (fit = true /\ bsize buf mod ssz bs <> 0)) /\
   new_blocks page bs buf fit = CtorErr EInvalid).
Proof.
  intros page bs buf fit Hp Hsize.
  destruct (get_blocks_in_segment_spec page bs Hp) as [[Hv E]|[Hn E]].
  - assert (Hbs : 0 < bs) by (destruct Hv as [H _]; exact H).
    pose proof (ssz_pos bs Hbs) as Hss.
    destruct (Z.lt_ge_cases (bsize buf) (ssz bs)) as [Hlt|Hge].
    + right. split; [right; left; exact Hlt|].
      unfold new_blocks. rewrite E.
      destruct (Z.ltb_spec (bs * 8 + 1) 0) as [?|_]; [lia|].
      replace ((bs * 8 + 1) * bs) with (ssz bs) by (unfold ssz; ring).
      destruct (Z.eqb_spec (ssz bs) 0) as [?|_]; [lia|].
      destruct (Z.ltb_spec (bsize buf) (ssz bs)) as [_|?]; [|lia]. reflexivity.
    + destruct fit.
      * destruct (Z.eq_dec (bsize buf mod ssz bs) 0) as [Em|Hm].
        -- left. split; [exact Hv|]. split; [lia|]. split; [intros _; exact Em|].
           apply new_blocks_ok; try assumption; try lia.
        -- right. split; [right; right; split; [reflexivity|exact Hm]|].
           unfold new_blocks. rewrite E.
           destruct (Z.ltb_spec (bs * 8 + 1) 0) as [?|_]; [lia|].
           replace ((bs * 8 + 1) * bs) with (ssz bs) by (unfold ssz; ring).
           destruct (Z.eqb_spec (ssz bs) 0) as [?|_]; [lia|].
           destruct (Z.ltb_spec (bsize buf) (ssz bs)) as [?|_]; [lia|]. cbn [orb andb].
           rewrite Z.rem_mod_nonneg by lia.
           destruct (Z.eqb_spec (bsize buf mod ssz bs) 0) as [?|_]; [contradiction|]. reflexivity.
      * left. split; [exact Hv|]. split; [lia|]. split; [discriminate|].
        apply new_blocks_ok; try assumption; try lia; try discriminate.
  - right. split; [left; exact Hn|]. unfold new_blocks. rewrite E. reflexivity.
Qed.

Lemma opened_inv : forall page bs buf fit,
  0 < page -> valid_bs page bs -> ssz bs <= bsize buf ->
  (fit = true -> bsize buf mod ssz bs = 0) ->
  inv page fit (opened bs buf).
Proof.
  intros page bs buf fit Hp Hv Hsz Hfit.
  assert (Hbs : 0 < bs) by (destruct Hv as [H _]; exact H).
  pose proof (ssz_pos bs Hbs) as Hss.
  constructor; unfold opened; cbn [blkSize blksInSegm segments freeIdx available bts]; try assumption.
  - reflexivity.
  - apply Z.div_le_lower_bound; lia.
  - rewrite Z.mul_comm. apply Z.mul_div_le. exact Hss.
  - split; [lia|]. right. rewrite Z.mod_0_l by lia. exact Hbs.
  - intros s p Hs Hp' Hlt. pose proof (hdr_addr_nonneg bs s p Hbs ltac:(lia) ltac:(lia)). lia.
  - reflexivity.
Qed.

Lemma opened_tight : forall bs buf fit,
  (fit = true -> bsize buf mod ssz bs = 0) -> tight fit (opened bs buf).
Proof. intros bs buf fit Hfit. split; [reflexivity|exact Hfit]. Qed.

(** * Block *)

Lemma block_spec : forall page fit b idx, inv page fit b ->
  block b idx = if (0 <=? idx) && (idx <? blocks_count b)
                then SliceOk (boff (blkSize b) idx) (blkSize b) else SliceErr EInvalid.
Proof.
  intros page fit b idx I. pose proof (inv_bs_pos _ _ _ I) as Hbs.
  pose proof (inv_bis _ _ _ I) as Hbis. pose proof (inv_segs_fit _ _ _ I) as Hfit.
  unfold block, blocks_count. rewrite Hbis.
  destruct (Z.eqb_spec (8 * blkSize b) 0) as [?|_]; [lia|].
  destruct (Z.leb_spec 0 idx) as [Hge|Hneg]; cbn [andb].
  - rewrite Z.quot_div_nonneg by lia.
    destruct (Z.ltb_spec idx 0) as [?|_]; [lia|]. rewrite orb_false_r.
    destruct (Z.leb_spec (segments b) (idx / (8 * blkSize b))) as [Hout|Hin];
      destruct (Z.ltb_spec idx (segments b * (8 * blkSize b))) as [Hlt|Hnlt]; try reflexivity.
    + exfalso. apply (idx_segment_lt (blkSize b) (segments b) idx Hbs Hge) in Hlt. lia.
    + destruct (boff_inside (blkSize b) (segments b) idx Hbs ltac:(lia)) as [H1 H2].
      unfold block_off. rewrite Hbis. rewrite Z.quot_div_nonneg by lia.
      fold (boff (blkSize b) idx). rewrite buf_slice_inside by lia. reflexivity.
    + exfalso. apply (idx_segment_lt (blkSize b) (segments b) idx Hbs Hge) in Hin. lia.
  - destruct (Z.ltb_spec idx 0) as [_|?]; [|lia]. rewrite orb_true_r. reflexivity.
Qed.

(** * Changing the storage *)

(** header bytes of valid segments are untouched *)
Definition same_headers (bs segs : Z) (buf buf' : buffer) : Prop :=
  forall s p, 0 <= s < segs -> 0 <= p < bs -> bget buf' (hdr_addr bs s p) = bget buf (hdr_addr bs s p).

Lemma free_count_ext : forall bs segs buf buf', 0 < bs -> same_headers bs segs buf buf' ->
  free_count bs segs buf' = free_count bs segs buf.
Proof.
  intros bs segs buf buf' Hbs H. unfold free_count. apply sum_segs_ext; [exact Hbs|].
  intros s p Hs Hp. apply H; lia.
Qed.

Lemma alloc_of_bytes_ext : forall bs segs buf buf', 0 < bs -> same_headers bs segs buf buf' ->
  alloc_of_bytes bs segs buf' = alloc_of_bytes bs segs buf.
Proof.
  intros bs segs buf buf' Hbs H. unfold alloc_of_bytes. apply filter_ext_zrange.
  intros x Hx.
  assert (Hr : 0 <= x < segs * (8 * bs)) by lia. clear Hx.
  destruct (idx_decompose bs x Hbs ltac:(lia)) as [E [Hs [Hp Hj]]]. cbv zeta in E, Hs, Hp, Hj.
  rewrite E. rewrite !is_alloc_bytes_at by assumption. rewrite H; [reflexivity| |exact Hp].
  split; [exact Hs|]. apply idx_segment_lt; lia.
Qed.

Definition with_bts (b : blocks) (buf : buffer) : blocks :=
  mkBlocks (blkSize b) (blksInSegm b) (segments b) (freeIdx b) (available b) buf.

(** writes that leave the headers alone change nothing the allocator knows *)
Lemma hidden_of_bytes_ext : forall bs segs buf buf', 0 < bs -> 0 <= segs ->
  bsize buf' = bsize buf -> (forall n, same_headers bs n buf buf') ->
  hidden_of_bytes bs segs buf' = hidden_of_bytes bs segs buf.
Proof.
  intros bs segs buf buf' Hbs Hsegs Hsz H. unfold hidden_of_bytes. rewrite Hsz.
  apply filter_ext_zrange. intros x Hx.
  assert (Hx0 : 0 <= x) by (assert (0 <= segs * (8 * bs)) by (apply Z.mul_nonneg_nonneg; lia); lia).
  clear Hx. unfold is_hidden. rewrite Hsz. f_equal.
  destruct (idx_decompose bs x Hbs Hx0) as [E [Hs [Hp Hj]]]. cbv zeta in E, Hs, Hp, Hj.
  rewrite E. rewrite !is_alloc_bytes_at by assumption.
  rewrite (H (x / (8 * bs) + 1)); [reflexivity|lia|exact Hp].
Qed.

Lemma data_write_inv : forall page fit b buf',
  inv page fit b -> bsize buf' = bsize (bts b) ->
  (forall n, same_headers (blkSize b) n (bts b) buf') ->
  inv page fit (with_bts b buf') /\ abs (with_bts b buf') = abs b.
Proof.
  intros page fit b buf' I Hsz Hsame. pose proof (inv_bs_pos _ _ _ I) as Hbs. split.
  - destruct I as [I1 I2 I3 I4 I5 I7 I8 I9].
    constructor; unfold with_bts; cbn [blkSize blksInSegm segments freeIdx available bts]; try assumption.
    + rewrite Hsz. exact I5.
    + intros s p Hs Hp Hlt. rewrite (Hsame (segments b)) by assumption. apply I8; assumption.
    + rewrite I9. symmetry. apply free_count_ext; [assumption|apply Hsame].
  - unfold abs, alloc_list, hidden_list, with_bts. cbn [blkSize segments bts].
    rewrite (alloc_of_bytes_ext _ _ (bts b) buf') by (try assumption; apply Hsame).
    rewrite (hidden_of_bytes_ext _ _ (bts b) buf') by (try assumption; pose proof (inv_segs _ _ _ I); lia).
    rewrite Hsz. reflexivity.
Qed.

Lemma fill_same_headers : forall bs segs buf i v, 0 < bs -> 0 <= i ->
  same_headers bs segs buf (fill (Z.to_nat bs) buf (boff bs i) v).
Proof.
  intros bs segs buf i v Hbs Hi s p Hs Hp.
  assert (Hb : bs <= boff bs i).
  { destruct (boff_bounds bs i Hbs Hi) as [Hlo _]. cbv zeta in Hlo.
    assert (0 <= i / (8 * bs)) by (apply Z.div_pos; lia).
    pose proof (ssz_pos bs Hbs). assert (0 <= i / (8 * bs) * ssz bs) by (apply Z.mul_nonneg_nonneg; lia). lia. }
  destruct (Z.lt_ge_cases (hdr_addr bs s p) (boff bs i)) as [Hlt|Hge].
  - apply bget_fill_outside; lia.
  - destruct (Z.lt_ge_cases (hdr_addr bs s p) (boff bs i + bs)) as [Hin|Hout].
    + exfalso. apply (boff_avoids_headers bs i s p (hdr_addr bs s p - boff bs i) Hbs Hi Hp); lia.
    + apply bget_fill_outside. rewrite Z2Nat.id by lia. lia.
Qed.

Lemma bset_same_headers : forall bs segs buf i k v, 0 < bs -> 0 <= i -> 0 <= k < bs ->
  same_headers bs segs buf (bset buf (boff bs i + k) v).
Proof.
  intros bs segs buf i k v Hbs Hi Hk s p Hs Hp.
  assert (Hb : bs <= boff bs i).
  { destruct (boff_bounds bs i Hbs Hi) as [Hlo _]. cbv zeta in Hlo.
    assert (0 <= i / (8 * bs)) by (apply Z.div_pos; lia).
    pose proof (ssz_pos bs Hbs). assert (0 <= i / (8 * bs) * ssz bs) by (apply Z.mul_nonneg_nonneg; lia). lia. }
  apply bget_bset_other. apply boff_avoids_headers; assumption.
Qed.

(** * Flipping one header bit *)

Lemma is_alloc_flip : forall bs buf s1 p1 j v' k,
  0 < bs -> 0 <= s1 -> 0 <= p1 < bs -> 0 <= j < 8 -> 0 <= k ->
  N.land v' 255 = v' ->
  (forall i, (i < 8)%N ->
     bit_is_clear v' i = if (i =? Z.to_N j)%N then negb (bit_is_clear (bget buf (hdr_addr bs s1 p1)) (Z.to_N j))
                         else bit_is_clear (bget buf (hdr_addr bs s1 p1)) i) ->
  is_alloc_bytes bs (bset buf (hdr_addr bs s1 p1) v') k =
  if k =? s1 * (8 * bs) + p1 * 8 + j
  then negb (is_alloc_bytes bs buf k) else is_alloc_bytes bs buf k.
Proof.
  intros bs buf s1 p1 j v' k Hbs Hs1 Hp1 Hj Hk Hv' Hbits.
  destruct (idx_decompose bs k Hbs Hk) as [E [Hs [Hp Hjk]]]. cbv zeta in E, Hs, Hp, Hjk.
  set (sk := k / (8 * bs)) in *. set (pk := (k mod (8 * bs)) / 8) in *. set (jk := (k mod (8 * bs)) mod 8) in *.
  assert (Hd : forall buf0, is_alloc_bytes bs buf0 k =
                 negb (bit_is_clear (bget buf0 (hdr_addr bs sk pk)) (Z.to_N jk))) by (intros; reflexivity).
  rewrite !Hd.
  destruct (Z.eq_dec (hdr_addr bs sk pk) (hdr_addr bs s1 p1)) as [Ea|Hna].
  - destruct (hdr_addr_inj bs sk pk s1 p1 Hbs Hp Hp1 Ea) as [Es Ep].
    rewrite Ea, bget_bset_same, Hv'. rewrite Hbits by lia.
    destruct (Z.eq_dec jk j) as [Ej|Hnj].
    + rewrite Ej, N.eqb_refl. replace (k =? s1 * (8 * bs) + p1 * 8 + j) with true by (symmetry; apply Z.eqb_eq; lia).
      reflexivity.
    + destruct (N.eqb_spec (Z.to_N jk) (Z.to_N j)) as [En|_]; [lia|].
      replace (k =? s1 * (8 * bs) + p1 * 8 + j) with false by (symmetry; apply Z.eqb_neq; lia).
      reflexivity.
  - rewrite bget_bset_other by auto.
    replace (k =? s1 * (8 * bs) + p1 * 8 + j) with false; [reflexivity|].
    symmetry. apply Z.eqb_neq. intros Ek. apply Hna.
    destruct (idx_compose bs s1 p1 j Hbs Hp1 Hj) as [H1 [H2 _]]. cbv zeta in H1, H2.
    rewrite <- Ek in H1, H2. unfold sk, pk. rewrite H1, H2. reflexivity.
Qed.

Lemma free_count_flip : forall bs segs buf s1 p1 v' d,
  0 < bs -> 0 <= s1 < segs -> 0 <= p1 < bs ->
  N.land v' 255 = v' ->
  zero_bits 8 0 v' = zero_bits 8 0 (bget buf (hdr_addr bs s1 p1)) + d ->
  free_count bs segs (bset buf (hdr_addr bs s1 p1) v') = free_count bs segs buf + d.
Proof.
  intros bs segs buf s1 p1 v' d Hbs Hs1 Hp1 Hv' Hz. unfold free_count.
  rewrite (sum_segs_update _ buf _ bs 0 s1 p1 d Hbs Hp1).
  - rewrite Z2Nat.id by lia.
    destruct (Z.leb_spec 0 s1); [|lia]. destruct (Z.ltb_spec s1 (0 + segs)); [|lia]. reflexivity.
  - intros o Ho. apply bget_bset_other. auto.
  - rewrite bget_bset_same, Hv'. exact Hz.
Qed.

(** * ArrangeBlock *)

Lemma scan_hdr_spec : forall fuel buf base len pos fidx,
  0 <= pos <= len -> len - pos <= Z.of_nat fuel ->
  (exists p j,
      scan_hdr fuel buf base len pos fidx = ScanFound p j (fidx + (p - pos)) /\
      pos <= p < len /\
      (forall q, pos <= q < p -> bget buf (base + q) = 255%N) /\
      bget buf (base + p) <> 255%N /\
      find_zero_bit 8 0 (bget buf (base + p)) = Some j)
  \/
  (scan_hdr fuel buf base len pos fidx = ScanEnd (fidx + (len - pos)) /\
   forall q, pos <= q < len -> bget buf (base + q) = 255%N).
Proof.
  induction fuel as [|f IH]; intros buf base len pos fidx Hpos Hfuel.
  - assert (pos = len) by lia. subst pos. right. cbn [scan_hdr].
    destruct (Z.ltb_spec len len); [lia|]. split; [f_equal; lia|]. intros q Hq. lia.
  - cbn [scan_hdr]. destruct (Z.ltb_spec pos len) as [Hlt|Hge].
    + destruct (N.eqb_spec (bget buf (base + pos)) 255) as [E|Hne].
      * destruct (IH buf base len (pos + 1) (fidx + 1) ltac:(lia) ltac:(lia))
          as [[p [j [Hs [Hp [Hq [Hn Hj]]]]]]|[Hs Hq]].
        -- left. exists p, j. split; [rewrite Hs; f_equal; lia|]. split; [lia|]. split; [|auto].
           intros q Hq'. destruct (Z.eq_dec q pos) as [->|?]; [exact E|apply Hq; lia].
        -- right. split; [rewrite Hs; f_equal; lia|].
           intros q Hq'. destruct (Z.eq_dec q pos) as [->|?]; [exact E|apply Hq; lia].
      * destruct (find_zero_bit_some _ (bget_lt_256 buf (base + pos)) Hne) as [j Hj].
        rewrite Hj. left. exists pos, j. split; [f_equal; lia|]. split; [lia|].
        split; [intros q Hq; lia|]. split; assumption.
    + assert (pos = len) by lia. subst pos. right. split; [f_equal; lia|]. intros q Hq. lia.
Qed.

Lemma arrange_loop_done : forall fuel b s fidx, segments b <= s ->
  arrange_loop fuel b s fidx = (with_free b fidx, ArrErr EExhausted).
Proof.
  intros [|f] b s fidx H; cbn [arrange_loop];
    destruct (Z.ltb_spec s (segments b)); try lia; reflexivity.
Qed.

(** the state after a successful ArrangeBlock that found bit j of header byte (s,p) *)
Definition arranged (b : blocks) (s p : Z) (j : N) : blocks :=
  mkBlocks (blkSize b) (blksInSegm b) (segments b) (hdr_addr (blkSize b) s p) (available b - 1)
    (bset (bts b) (hdr_addr (blkSize b) s p) (set_bit (bget (bts b) (hdr_addr (blkSize b) s p)) j)).

Section ArrangeLoop.
Variable b : blocks.
Let bs := blkSize b.
Hypothesis Hbs : 0 < bs.
Hypothesis Hbis : blksInSegm b = 8 * bs.
Hypothesis Hfit : segments b * ssz bs <= bsize (bts b).

Lemma arrange_loop_spec : forall fuel s p,
  0 <= s < segments b -> 0 <= p < bs -> segments b - s <= Z.of_nat fuel ->
  (exists s1 p1 j,
      s <= s1 < segments b /\ 0 <= p1 < bs /\
      (forall s' p', 0 <= s' < segments b -> 0 <= p' < bs ->
         hdr_addr bs s p <= hdr_addr bs s' p' < hdr_addr bs s1 p1 -> bget (bts b) (hdr_addr bs s' p') = 255%N) /\
      hdr_addr bs s p <= hdr_addr bs s1 p1 /\
      bget (bts b) (hdr_addr bs s1 p1) <> 255%N /\
      find_zero_bit 8 0 (bget (bts b) (hdr_addr bs s1 p1)) = Some j /\
      arrange_loop fuel b s (hdr_addr bs s p) =
        (arranged b s1 p1 j, ArrIdx (s1 * (8 * bs) + p1 * 8 + Z.of_N j)))
  \/
  ((forall s' p', 0 <= s' < segments b -> 0 <= p' < bs ->
      hdr_addr bs s p <= hdr_addr bs s' p' -> bget (bts b) (hdr_addr bs s' p') = 255%N) /\
   arrange_loop fuel b s (hdr_addr bs s p) = (with_free b (segments b * ssz bs), ArrErr EExhausted)).
Proof.
  induction fuel as [|f IH]; intros s p Hs Hp Hfuel; [lia|].
  cbn [arrange_loop]. fold bs.
  destruct (Z.ltb_spec s (segments b)) as [_|?]; [|lia].
  destruct (Z.eqb_spec bs 0) as [?|_]; [lia|].
  rewrite Z.rem_mod_nonneg by (try apply hdr_addr_nonneg; lia).
  rewrite hdr_addr_mod_bs by assumption.
  replace (hdr_addr bs s p - p) with (hdr_addr bs s 0) by (unfold hdr_addr; lia).
  destruct (hdr_in_buffer bs (segments b) (bsize (bts b)) s p Hbs Hfit Hs Hp) as [Hnn [_ Hin]].
  assert (Hnn0 : 0 <= hdr_addr bs s 0) by (apply hdr_addr_nonneg; lia).
  rewrite buf_slice_inside by lia.
  destruct (scan_hdr_spec (Z.to_nat bs) (bts b) (hdr_addr bs s 0) bs p (hdr_addr bs s p) ltac:(lia) ltac:(lia))
    as [[p1 [j [Hsc [Hp1 [Hq [Hn Hj]]]]]]|[Hsc Hq]]; rewrite Hsc.
  - (* a free bit in this header *)
    left. exists s, p1, j.
    replace (hdr_addr bs s 0 + p1) with (hdr_addr bs s p1) in * by (unfold hdr_addr; lia).
    split; [lia|]. split; [lia|]. split.
    { intros s' p' Hs' Hp' [Hlo Hhi].
      apply hdr_addr_lt in Hhi; try assumption; try lia.
      destruct Hhi as [Hlt|[-> Hlt]].
      - exfalso. assert (hdr_addr bs s' p' < hdr_addr bs s p) by (apply hdr_addr_lt; lia). lia.
      - replace (hdr_addr bs s p') with (hdr_addr bs s 0 + p') by (unfold hdr_addr; lia).
        apply Hq. unfold hdr_addr in Hlo. lia. }
    split; [unfold hdr_addr; lia|]. split; [exact Hn|]. split; [exact Hj|].
    unfold arranged, set_bit. fold bs. rewrite Hbis.
    replace (hdr_addr bs s p + (p1 - p)) with (hdr_addr bs s p1) by (unfold hdr_addr; lia).
    reflexivity.
  - (* this header is full from p on: next segment *)
    assert (Hthis : forall p', p <= p' < bs -> bget (bts b) (hdr_addr bs s p') = 255%N).
    { intros p' Hp'. replace (hdr_addr bs s p') with (hdr_addr bs s 0 + p') by (unfold hdr_addr; lia).
      apply Hq. lia. }
    rewrite (segm_size_ssz b Hbis). fold bs.
    destruct (Z.eq_dec (s + 1) (segments b)) as [Elast|Hmore].
    + right. split.
      * intros s' p' Hs' Hp' Hlo.
        assert (s' = s).
        { destruct (Z.eq_dec s' s) as [?|Hne]; [assumption|exfalso].
          assert (hdr_addr bs s' p' < hdr_addr bs s p) by (apply hdr_addr_lt; lia). lia. }
        subst s'. apply Hthis. unfold hdr_addr in Hlo. lia.
      * rewrite arrange_loop_done by lia. rewrite Elast. reflexivity.
    + replace ((s + 1) * ssz bs) with (hdr_addr bs (s + 1) 0) by (unfold hdr_addr; lia).
      destruct (IH (s + 1) 0 ltac:(lia) ltac:(lia) ltac:(lia))
        as [[s1 [p1 [j [Hs1 [Hp1 [Hbetween [Hle [Hn [Hj Hres]]]]]]]]]|[Hall Hres]].
      * left. exists s1, p1, j. split; [lia|]. split; [exact Hp1|]. split.
        { intros s' p' Hs' Hp' [Hlo Hhi].
          destruct (Z.lt_trichotomy s' s) as [Hlt|[->|Hgt]].
          - exfalso. assert (hdr_addr bs s' p' < hdr_addr bs s p) by (apply hdr_addr_lt; lia). lia.
          - apply Hthis. unfold hdr_addr in Hlo. lia.
          - apply Hbetween; try assumption. split; [|exact Hhi].
            destruct (Z.eq_dec s' (s + 1)) as [->|?].
            + unfold hdr_addr. lia.
            + assert (hdr_addr bs (s + 1) 0 < hdr_addr bs s' p') by (apply hdr_addr_lt; lia). lia. }
        split.
        { assert (hdr_addr bs s p < hdr_addr bs (s + 1) 0) by (apply hdr_addr_lt; lia). lia. }
        split; [exact Hn|]. split; [exact Hj|]. exact Hres.
      * right. split; [|exact Hres].
        intros s' p' Hs' Hp' Hlo.
        destruct (Z.lt_trichotomy s' s) as [Hlt|[->|Hgt]].
        -- exfalso. assert (hdr_addr bs s' p' < hdr_addr bs s p) by (apply hdr_addr_lt; lia). lia.
        -- apply Hthis. unfold hdr_addr in Hlo. lia.
        -- apply Hall; try assumption.
           destruct (Z.eq_dec s' (s + 1)) as [->|?].
           ++ unfold hdr_addr. lia.
           ++ assert (hdr_addr bs (s + 1) 0 < hdr_addr bs s' p') by (apply hdr_addr_lt; lia). lia.
Qed.
End ArrangeLoop.

(** what ArrangeBlock does in a state that satisfies the invariant *)
Lemma arrange_spec : forall page fit b, inv page fit b ->
  let bs := blkSize b in
  (exists s1 p1 j,
      0 <= s1 < segments b /\ 0 <= p1 < bs /\
      (forall s' p', 0 <= s' < segments b -> 0 <= p' < bs ->
         hdr_addr bs s' p' < hdr_addr bs s1 p1 -> bget (bts b) (hdr_addr bs s' p') = 255%N) /\
      bget (bts b) (hdr_addr bs s1 p1) <> 255%N /\
      find_zero_bit 8 0 (bget (bts b) (hdr_addr bs s1 p1)) = Some j /\
      arrange b = (arranged b s1 p1 j, ArrIdx (s1 * (8 * bs) + p1 * 8 + Z.of_N j)))
  \/
  (exists f', 0 <= f' /\ segments b * ssz bs <= f' /\
     (forall s' p', 0 <= s' < segments b -> 0 <= p' < bs -> bget (bts b) (hdr_addr bs s' p') = 255%N) /\
     arrange b = (with_free b f', ArrErr EExhausted)).
Proof.
  intros page fit b I bs.
  pose proof (inv_bs_pos _ _ _ I) as Hbs. fold bs in Hbs.
  pose proof (inv_bis _ _ _ I) as Hbis. fold bs in Hbis.
  pose proof (inv_segs_fit _ _ _ I) as Hfit. fold bs in Hfit.
  pose proof (ssz_pos bs Hbs) as Hss.
  destruct (inv_hint _ _ _ I) as [Hf0 Hhint]. fold bs in Hhint.
  pose proof (inv_full _ _ _ I) as Hfull. fold bs in Hfull.
  unfold arrange. rewrite (segm_size_ssz b Hbis). fold bs.
  destruct (Z.eqb_spec (ssz bs) 0) as [?|_]; [lia|].
  rewrite Z.quot_div_nonneg by lia.
  destruct (Z.le_gt_cases (segments b * ssz bs) (freeIdx b)) as [Hend|Hin].
  - (* the hint is behind the last segment: everything is full *)
    right. exists (freeIdx b). split; [exact Hf0|]. split; [exact Hend|]. split.
    + intros s' p' Hs' Hp'. apply Hfull; try assumption.
      destruct (hdr_in_buffer bs (segments b) (segments b * ssz bs) s' p' Hbs ltac:(lia) Hs' Hp') as [_ [Hlt _]].
      lia.
    + apply arrange_loop_done. apply Z.div_le_lower_bound; lia.
  - destruct Hhint as [?|Hmod]; [lia|].
    set (s := freeIdx b / ssz bs). set (p := freeIdx b mod ssz bs).
    assert (Hfi : freeIdx b = hdr_addr bs s p).
    { unfold hdr_addr, s, p. pose proof (Z.div_mod (freeIdx b) (ssz bs) ltac:(lia)). lia. }
    assert (Hs : 0 <= s < segments b).
    { split; [apply Z.div_pos; lia|apply Z.div_lt_upper_bound; lia]. }
    assert (Hp : 0 <= p < bs).
    { split; [apply Z.mod_pos_bound; lia|exact Hmod]. }
    rewrite Hfi.
    destruct (arrange_loop_spec b Hbs Hbis Hfit (Z.to_nat (segments b)) s p Hs Hp ltac:(lia))
      as [[s1 [p1 [j [Hs1 [Hp1 [Hbetween [Hle [Hn [Hj Hres]]]]]]]]]|[Hall Hres]].
    + change (blkSize b) with bs in Hp1, Hbetween, Hle, Hn, Hj, Hres.
      left. exists s1, p1, j. split; [lia|]. split; [exact Hp1|]. split.
      { intros s' p' Hs' Hp' Hlt.
        destruct (Z.lt_ge_cases (hdr_addr bs s' p') (hdr_addr bs s p)) as [Hbefore|Hafter].
        - apply Hfull; try assumption. lia.
        - apply Hbetween; try assumption. lia. }
      split; [exact Hn|]. split; [exact Hj|]. exact Hres.
    + change (blkSize b) with bs in Hall, Hres.
      right. exists (segments b * ssz bs). split; [nia|]. split; [lia|]. split; [|exact Hres].
      intros s' p' Hs' Hp'.
      destruct (Z.lt_ge_cases (hdr_addr bs s' p') (hdr_addr bs s p)) as [Hbefore|Hafter].
      * apply Hfull; try assumption. lia.
      * apply Hall; assumption.
Qed.

Lemma with_free_inv_abs : forall page fit b f',
  inv page fit b -> 0 <= f' -> segments b * ssz (blkSize b) <= f' ->
  (forall s' p', 0 <= s' < segments b -> 0 <= p' < blkSize b ->
     bget (bts b) (hdr_addr (blkSize b) s' p') = 255%N) ->
  inv page fit (with_free b f') /\ abs (with_free b f') = abs b.
Proof.
  intros page fit b f' I Hf0 Hf Hall. split; [|reflexivity].
  destruct I as [I1 I2 I3 I4 I5 I7 I8 I9].
  constructor; unfold with_free; cbn [blkSize blksInSegm segments freeIdx available bts]; try assumption.
  - split; [exact Hf0|left; exact Hf].
  - intros s p Hs Hp _. apply Hall; assumption.
Qed.

(** the index (s,p,j) *)
Definition idx_of (bs s p : Z) (j : N) : Z := s * (8 * bs) + p * 8 + Z.of_N j.

Lemma arranged_inv_abs : forall page fit b s1 p1 j,
  inv page fit b ->
  0 <= s1 < segments b -> 0 <= p1 < blkSize b ->
  (forall s' p', 0 <= s' < segments b -> 0 <= p' < blkSize b ->
     hdr_addr (blkSize b) s' p' < hdr_addr (blkSize b) s1 p1 ->
     bget (bts b) (hdr_addr (blkSize b) s' p') = 255%N) ->
  find_zero_bit 8 0 (bget (bts b) (hdr_addr (blkSize b) s1 p1)) = Some j ->
  let i := idx_of (blkSize b) s1 p1 j in
  inv page fit (arranged b s1 p1 j) /\
  0 <= i < blocks_count b /\
  is_alloc b i = false /\
  (forall k, 0 <= k < i -> is_alloc b k = true) /\
  (forall k, 0 <= k -> is_alloc (arranged b s1 p1 j) k = if k =? i then true else is_alloc b k) /\
  available (arranged b s1 p1 j) = available b - 1.
Proof.
  intros page fit b s1 p1 j I Hs1 Hp1 Hbefore Hj i.
  pose proof (inv_bs_pos _ _ _ I) as Hbs. pose proof (inv_bis _ _ _ I) as Hbis.
  set (bs := blkSize b) in *. set (a := hdr_addr bs s1 p1) in *.
  set (v := bget (bts b) a) in *.
  assert (Hv : (v < 256)%N) by apply bget_lt_256.
  destruct (find_zero_bit_spec v j Hv Hj) as [Hj8 [Hclear Hlow]].
  destruct (set_bit_spec v j Hv Hj8 Hclear) as [Hland [Hzb Hbits]].
  assert (HjZ : 0 <= Z.of_N j < 8) by lia.
  assert (Hflip : forall k, 0 <= k ->
            is_alloc_bytes bs (bset (bts b) a (set_bit v j)) k =
            if k =? i then negb (is_alloc_bytes bs (bts b) k) else is_alloc_bytes bs (bts b) k).
  { intros k Hk. unfold a, i, idx_of. apply is_alloc_flip; try assumption; try lia.
    intros i0 Hi0. fold a. fold v. rewrite N2Z.id. rewrite Hbits by exact Hi0.
    destruct (N.eqb_spec i0 j) as [->|_]; [rewrite Hclear; reflexivity|reflexivity]. }
  assert (Hi_alloc : is_alloc b i = false).
  { unfold is_alloc, i, idx_of. fold bs. rewrite is_alloc_bytes_at by (try assumption; lia).
    fold a. fold v. rewrite N2Z.id, Hclear. reflexivity. }
  assert (Hi_range : 0 <= i < blocks_count b).
  { unfold blocks_count, i, idx_of. rewrite Hbis. fold bs.
    assert ((8 * bs) * (s1 + 1) <= (8 * bs) * segments b) by (apply Z.mul_le_mono_nonneg_l; lia).
    assert (0 <= (8 * bs) * s1) by (apply Z.mul_nonneg_nonneg; lia). lia. }
  split; [|split; [exact Hi_range|split; [exact Hi_alloc|split; [|split]]]].
  - (* invariant *)
    destruct I as [I1 I2 I3 I4 I5 I7 I8 I9].
    constructor; unfold arranged; cbn [blkSize blksInSegm segments freeIdx available bts];
      fold bs; fold a; fold v; try assumption.
    + split; [apply hdr_addr_nonneg; lia|]. right. unfold a. rewrite hdr_addr_mod by assumption. lia.
    + intros s p Hs Hp Hlt. rewrite bget_bset_other by lia. apply Hbefore; assumption.
    + rewrite I9. fold bs. unfold a. symmetry.
      rewrite (free_count_flip bs (segments b) (bts b) s1 p1 (set_bit v j) (-1)); try assumption. lia.
  - (* everything below i is allocated *)
    intros k Hk. unfold is_alloc. fold bs.
    destruct (idx_decompose bs k Hbs ltac:(lia)) as [E [Hsk [Hpk Hjk]]]. cbv zeta in E, Hsk, Hpk, Hjk.
    set (sk := k / (8 * bs)) in *. set (pk := (k mod (8 * bs)) / 8) in *. set (jk := (k mod (8 * bs)) mod 8) in *.
    rewrite E. rewrite is_alloc_bytes_at by assumption.
    assert (Hsk_lt : sk < segments b).
    { unfold sk. apply idx_segment_lt; try assumption; [lia|]. unfold blocks_count in Hi_range. rewrite Hbis in Hi_range. lia. }
    destruct (Z.lt_trichotomy (hdr_addr bs sk pk) a) as [Hlt|[Ea|Hgt]].
    + rewrite Hbefore by (try assumption; lia).
      rewrite (proj1 (byte_255_bits 255%N ltac:(reflexivity)) eq_refl) by lia. reflexivity.
    + destruct (hdr_addr_inj bs sk pk s1 p1 Hbs Hpk Hp1 Ea) as [Es Ep].
      rewrite Ea. fold v. rewrite Hlow; [reflexivity|].
      unfold i, idx_of in Hk. rewrite E in Hk. subst sk pk. rewrite Es, Ep in Hk. lia.
    + exfalso. apply hdr_addr_lt in Hgt; try assumption.
      unfold i, idx_of in Hk. rewrite E in Hk.
      destruct Hgt as [Hlt|[Es Hlt]].
      * assert ((8 * bs) * (s1 + 1) <= (8 * bs) * sk) by (apply Z.mul_le_mono_nonneg_l; lia). lia.
      * rewrite Es in Hk. lia.
  - (* exactly i becomes allocated *)
    intros k Hk. unfold is_alloc, arranged. cbn [blkSize bts]. fold bs. fold a. fold v.
    rewrite Hflip by exact Hk.
    destruct (Z.eqb_spec k i) as [->|_]; [|reflexivity].
    unfold is_alloc in Hi_alloc. fold bs in Hi_alloc. rewrite Hi_alloc. reflexivity.
  - reflexivity.
Qed.

(** * FreeBlock *)

Definition freed (b : blocks) (idx : Z) : blocks :=
  let bs := blkSize b in
  let a := hdr_addr bs (idx / (8 * bs)) ((idx mod (8 * bs)) / 8) in
  let j := Z.to_N ((idx mod (8 * bs)) mod 8) in
  mkBlocks bs (blksInSegm b) (segments b) (if a <? freeIdx b then a else freeIdx b) (available b + 1)
    (bset (bts b) a (clear_bit (bget (bts b) a) j)).

Lemma free_spec : forall page fit b idx, inv page fit b ->
  free b idx =
  if negb ((0 <=? idx) && (idx <? blocks_count b)) then (b, FreeErr EInvalid)
  else if is_alloc b idx then (freed b idx, FreeOk) else (b, FreeErr ENotExist).
Proof.
  intros page fit b idx I.
  pose proof (inv_bs_pos _ _ _ I) as Hbs. pose proof (inv_bis _ _ _ I) as Hbis.
  pose proof (inv_segs_fit _ _ _ I) as Hfit.
  unfold free, get_block_idx_in_hdr, blocks_count. rewrite (segm_size_ssz b Hbis), Hbis.
  set (bs := blkSize b) in *.
  destruct (Z.eqb_spec (8 * bs) 0) as [?|_]; [lia|].
  destruct (Z.leb_spec 0 idx) as [Hge|Hneg]; cbn [andb].
  2:{ destruct (Z.ltb_spec idx 0) as [_|?]; [|lia]. rewrite orb_true_r. cbn [negb]. reflexivity. }
  destruct (Z.ltb_spec idx 0) as [?|_]; [lia|]. rewrite orb_false_r.
  rewrite Z.quot_div_nonneg by lia.
  destruct (Z.leb_spec (segments b) (idx / (8 * bs))) as [Hout|Hin].
  { destruct (Z.ltb_spec idx (segments b * (8 * bs))) as [Hlt|_]; [|reflexivity].
    exfalso. apply (idx_segment_lt bs (segments b) idx Hbs Hge) in Hlt. lia. }
  destruct (Z.ltb_spec idx (segments b * (8 * bs))) as [_|Hnlt].
  2:{ exfalso. apply (idx_segment_lt bs (segments b) idx Hbs Hge) in Hin. lia. }
  cbn [negb].
  destruct (idx_decompose bs idx Hbs Hge) as [E [Hs [Hp Hj]]]. cbv zeta in E, Hs, Hp, Hj.
  rewrite Z.rem_mod_nonneg by lia.
  rewrite Z.quot_div_nonneg by (try apply Z.mod_pos_bound; lia).
  rewrite Z.rem_mod_nonneg by (try apply Z.mod_pos_bound; lia).
  set (s := idx / (8 * bs)) in *. set (p := (idx mod (8 * bs)) / 8) in *.
  set (j := (idx mod (8 * bs)) mod 8) in *.
  destruct (hdr_in_buffer bs (segments b) (bsize (bts b)) s p Hbs Hfit ltac:(lia) Hp) as [Hnn [_ Hinb]].
  assert (Hnn0 : 0 <= s * ssz bs).
  { pose proof (hdr_addr_nonneg bs s 0 Hbs ltac:(lia) ltac:(lia)) as H. unfold hdr_addr in H. lia. }
  destruct (Z.ltb_spec (s * ssz bs) 0) as [?|_]; [lia|].
  rewrite buf_slice_inside by (unfold hdr_addr in Hinb; lia).
  destruct (Z.ltb_spec p 0) as [?|_]; [lia|]. destruct (Z.leb_spec bs p) as [?|_]; [lia|]. cbn [orb].
  change (s * ssz bs + p) with (hdr_addr bs s p).
  assert (Hal : is_alloc b idx = negb (bit_is_clear (bget (bts b) (hdr_addr bs s p)) (Z.to_N j)))
    by reflexivity.
  rewrite Hal.
  destruct (bit_is_clear (bget (bts b) (hdr_addr bs s p)) (Z.to_N j)); cbn [negb]; [reflexivity|].
  unfold freed, clear_bit. fold bs. rewrite Hbis. reflexivity.
Qed.

Lemma freed_inv_abs : forall page fit b idx,
  inv page fit b -> 0 <= idx < blocks_count b -> is_alloc b idx = true ->
  inv page fit (freed b idx) /\
  (forall k, 0 <= k -> is_alloc (freed b idx) k = if k =? idx then false else is_alloc b k) /\
  available (freed b idx) = available b + 1.
Proof.
  intros page fit b idx I Hidx Hal.
  pose proof (inv_bs_pos _ _ _ I) as Hbs. pose proof (inv_bis _ _ _ I) as Hbis.
  unfold blocks_count in Hidx. rewrite Hbis in Hidx.
  unfold freed. set (bs := blkSize b) in *.
  destruct (idx_decompose bs idx Hbs ltac:(lia)) as [E [Hs [Hp Hj]]]. cbv zeta in E, Hs, Hp, Hj.
  set (s := idx / (8 * bs)) in *. set (p := (idx mod (8 * bs)) / 8) in *.
  set (j := (idx mod (8 * bs)) mod 8) in *.
  assert (Hs_lt : s < segments b) by (apply idx_segment_lt; lia).
  set (a := hdr_addr bs s p) in *. set (v := bget (bts b) a) in *.
  assert (Hv : (v < 256)%N) by apply bget_lt_256.
  assert (Hnc : bit_is_clear v (Z.to_N j) = false).
  { assert (H : is_alloc b idx = negb (bit_is_clear v (Z.to_N j))) by reflexivity.
    rewrite Hal in H. destruct (bit_is_clear v (Z.to_N j)); [discriminate|reflexivity]. }
  destruct (clear_bit_spec v (Z.to_N j) Hv ltac:(lia) Hnc) as [Hland [Hzb Hbits]].
  assert (Hflip : forall k, 0 <= k ->
            is_alloc_bytes bs (bset (bts b) a (clear_bit v (Z.to_N j))) k =
            if k =? idx then negb (is_alloc_bytes bs (bts b) k) else is_alloc_bytes bs (bts b) k).
  { intros k Hk. replace (k =? idx) with (k =? s * (8 * bs) + p * 8 + j) by (rewrite <- E; reflexivity).
    unfold a. apply is_alloc_flip; try assumption; try lia.
    intros i0 Hi0. fold a. fold v. rewrite Hbits by exact Hi0.
    destruct (N.eqb_spec i0 (Z.to_N j)) as [->|_]; [rewrite Hnc; reflexivity|reflexivity]. }
  split; [|split].
  - destruct I as [I1 I2 I3 I4 I5 I7 I8 I9].
    constructor; cbn [blkSize blksInSegm segments freeIdx available bts]; fold bs; try assumption.
    + destruct I7 as [I7a I7b]. destruct (Z.ltb_spec a (freeIdx b)) as [Hlt|Hge].
      * split; [apply hdr_addr_nonneg; lia|]. right. unfold a. rewrite hdr_addr_mod by assumption. lia.
      * split; assumption.
    + intros s' p' Hs' Hp' Hlt.
      assert (hdr_addr bs s' p' < a /\ hdr_addr bs s' p' < freeIdx b) as [H1 H2]
        by (destruct (Z.ltb_spec a (freeIdx b)); lia).
      rewrite bget_bset_other by lia. apply I8; assumption.
    + rewrite I9. fold bs. unfold a. symmetry.
      rewrite (free_count_flip bs (segments b) (bts b) s p (clear_bit v (Z.to_N j)) 1); try assumption; lia.
  - intros k Hk. unfold is_alloc. cbn [blkSize bts]. fold bs.
    rewrite Hflip by exact Hk.
    destruct (Z.eqb_spec k idx) as [->|_]; [|reflexivity].
    unfold is_alloc in Hal. fold bs in Hal. rewrite Hal. reflexivity.
  - reflexivity.
Qed.
