(** Token accounting of model/LockLTS.v (invariant I1 of DESIGN 5.4), for ALL traces (faults
    included) of well-formed programs: the one-slot channel token of a Locker is absent exactly
    while one thread is between TakeToken and PutToken on it or the Locker is held (or the token was
    lost to a shutdown), the counter is 1 exactly while an acquisition is in progress or the Locker
    is held.  Used by C01 (invariant) and C04 (no residue, no deadlock). *)
From Coq Require Import List Arith Bool NArith Lia.
From GL Require Import model.LockLTS proofs.C01_Exclusion.
Import ListNotations.

(** thread with pc [p] is past TakeToken of Locker [L] in an acquisition *)
Definition acqb (p : pc) (L : lockerId) : bool :=
  match p with
  | HasToken L' _ | CreateIssued L' _ | WaitVer L' _ _ | Failing L' _ => Nat.eqb L' L
  | _ => false
  end.
(** thread with pc [p] is inside Unlock of Locker [L] *)
Definition unlb (p : pc) (L : lockerId) : bool :=
  match p with
  | Unl1 L' _ | Unl2 L' => Nat.eqb L' L
  | _ => false
  end.
Definition userb (p : pc) (L : lockerId) : bool := acqb p L || unlb p L.

Record tinv (s : state) : Prop := {
  t_tok : forall L, token (lk s L) = true ->
            held (lk s L) = None /\ cntr (lk s L) = false /\ forall t, userb (pc_of s t) L = false;
  t_one : forall t1 t2 L, userb (pc_of s t1) L = true -> userb (pc_of s t2) L = true -> t1 = t2;
  t_user : forall t L, userb (pc_of s t) L = true -> held (lk s L) = None;
  t_acq : forall t L, acqb (pc_of s t) L = true -> cntr (lk s L) = true;
  t_unl : forall t L, unlb (pc_of s t) L = true -> cntr (lk s L) = false;
  t_held : forall L, held (lk s L) <> None -> cntr (lk s L) = true /\ future (lk s L) <> None;
  t_cntr0 : forall L, (forall t, acqb (pc_of s t) L = false) -> held (lk s L) = None -> cntr (lk s L) = false;
  t_tok1 : forall L, (forall t, userb (pc_of s t) L = false) -> held (lk s L) = None ->
             down s (lprov s L) = false -> token (lk s L) = true
}.

Lemma tinv_init : forall lp, tinv (init lp).
Proof. intros lp. constructor; cbn; intros; try discriminate; try congruence; auto. Qed.


Definition tframe (s s' : state) : Prop :=
  (forall L, token (lk s' L) = token (lk s L) /\ cntr (lk s' L) = cntr (lk s L) /\ held (lk s' L) = held (lk s L)) /\
  (forall L, future (lk s L) <> None -> future (lk s' L) <> None) /\
  (forall t L, acqb (pc_of s' t) L = acqb (pc_of s t) L /\ unlb (pc_of s' t) L = unlb (pc_of s t) L) /\
  (forall L, down s' (lprov s' L) = false -> down s (lprov s L) = false).

Lemma tframe_user : forall s s', tframe s s' -> forall t L, userb (pc_of s' t) L = userb (pc_of s t) L.
Proof.
  intros s s' (_ & _ & Hp & _) t L. unfold userb. destruct (Hp t L) as [-> ->]. reflexivity.
Qed.

Lemma tframe_tinv : forall s s', tinv s -> tframe s s' -> tinv s'.
Proof.
  intros s s' I F. pose proof (tframe_user s s' F) as Hu.
  destruct F as (Hl & Hf & Hp & Hd).
  constructor.
  - intros L Ht. destruct (Hl L) as (Ht' & Hc' & Hh'). rewrite Ht' in Ht. rewrite Hh', Hc'.
    destruct (t_tok s I L Ht) as (A & B & C). repeat split; auto. intros t. rewrite Hu. apply C.
  - intros t1 t2 L H1 H2. rewrite Hu in H1, H2. eapply t_one; eauto.
  - intros t L H. rewrite Hu in H. destruct (Hl L) as (_ & _ & ->). eapply t_user; eauto.
  - intros t L H. destruct (Hp t L) as [Ha _]. rewrite Ha in H. destruct (Hl L) as (_ & -> & _). eapply t_acq; eauto.
  - intros t L H. destruct (Hp t L) as [_ Ha]. rewrite Ha in H. destruct (Hl L) as (_ & -> & _). eapply t_unl; eauto.
  - intros L H. destruct (Hl L) as (_ & Hc' & Hh'). rewrite Hh' in H. rewrite Hc'.
    destruct (t_held s I L H) as [A B]. split; auto.
  - intros L Hall Hh. destruct (Hl L) as (_ & Hc' & Hh'). rewrite Hh' in Hh. rewrite Hc'.
    apply (t_cntr0 s I L); auto. intros t. destruct (Hp t L) as [<- _]. apply Hall.
  - intros L Hall Hh Hdn. destruct (Hl L) as (Ht' & _ & Hh'). rewrite Hh' in Hh. rewrite Ht'.
    apply (t_tok1 s I L); auto. intros t. rewrite <- Hu. apply Hall.
Qed.

Ltac tframe_tac I :=
  apply (tframe_tinv _ _ I); unfold tframe, set_pc, cancel_timer; unfold pc_of in *; cbn;
  repeat split; intros; upd_split; rewrite ?Nat.eqb_refl in *; cbn in *;
  repeat match goal with H : t_pc _ = _ |- _ => rewrite H in * end; cbn in *; try congruence; auto.


Lemma held_no_users : forall s, tinv s -> forall L, held (lk s L) <> None ->
  token (lk s L) = false /\ forall t, userb (pc_of s t) L = false.
Proof.
  intros s I L Hh. split.
  - destruct (token (lk s L)) eqn:Ht; [|reflexivity].
    destruct (t_tok s I L Ht) as (A & _). congruence.
  - intros t. destruct (userb (pc_of s t) L) eqn:Hu; [|reflexivity].
    pose proof (t_user s I t L Hu). congruence.
Qed.

Lemma userb_false : forall p L, userb p L = false -> acqb p L = false /\ unlb p L = false.
Proof. intros p L H. unfold userb in H. apply orb_false_iff in H. exact H. Qed.

Lemma eqb_false_of_neq : forall a b : nat, a <> b -> Nat.eqb a b = false.
Proof. intros a b H. apply Nat.eqb_neq. exact H. Qed.

(** normalisation used in all special cases *)
Ltac tnorm :=
  unfold set_pc, arm_first, cancel_timer in *; unfold pc_of in *; cbn in *;
  upd_split; rewrite ?Nat.eqb_refl in *; cbn in *;
  repeat match goal with
  | H : t_pc (th _ ?t) = _ |- _ => rewrite H in *; cbn in *
  end.


Lemma tinv_cancel : forall s id, tinv s -> tinv (cancel_timer s id).
Proof.
  intros s id I. apply (tframe_tinv _ _ I). unfold tframe.
  repeat split; intros *; rewrite ?cancel_timer_lk, ?cancel_timer_pc; auto.
  unfold cancel_timer. destruct (tm_st (timers s id)); cbn; auto.
Qed.


Lemma acqb_userb : forall p L, acqb p L = true -> userb p L = true.
Proof. intros p L H. unfold userb. rewrite H. reflexivity. Qed.
Lemma unlb_userb : forall p L, unlb p L = true -> userb p L = true.
Proof. intros p L H. unfold userb. rewrite H. apply orb_true_r. Qed.

(** a step that touches one thread [t] and one Locker [L], where nobody else uses [L]:
    the invariant follows from conditions on the new Locker record and the new pc only *)
Lemma tinv_local : forall s s' t L,
  tinv s ->
  (forall t0, t0 <> t -> userb (pc_of s t0) L = false) ->
  (forall t0, t0 <> t -> pc_of s' t0 = pc_of s t0) ->
  (forall L0, L0 <> L -> lk s' L0 = lk s L0) ->
  (forall L0, L0 <> L -> userb (pc_of s t) L0 = false) ->
  (forall L0, L0 <> L -> userb (pc_of s' t) L0 = false) ->
  (forall L0, down s' (lprov s' L0) = false -> down s (lprov s L0) = false) ->
  (token (lk s' L) = true ->
     held (lk s' L) = None /\ cntr (lk s' L) = false /\ userb (pc_of s' t) L = false) ->
  (userb (pc_of s' t) L = true -> held (lk s' L) = None) ->
  (acqb (pc_of s' t) L = true -> cntr (lk s' L) = true) ->
  (unlb (pc_of s' t) L = true -> cntr (lk s' L) = false) ->
  (held (lk s' L) <> None -> cntr (lk s' L) = true /\ future (lk s' L) <> None) ->
  (acqb (pc_of s' t) L = false -> held (lk s' L) = None -> cntr (lk s' L) = false) ->
  (userb (pc_of s' t) L = false -> held (lk s' L) = None -> down s' (lprov s' L) = false ->
     token (lk s' L) = true) ->
  tinv s'.
Proof.
  intros s s' t L I Hnou Hpc Hlk Hold Hnew Hdn cA cC cD cE cF cG cH.
  (* users of another Locker are the same threads before and after *)
  assert (Huo : forall t0 L0, L0 <> L -> userb (pc_of s' t0) L0 = userb (pc_of s t0) L0).
  { intros t0 L0 Hne. destruct (Nat.eq_dec t0 t) as [->|Hnt].
    - rewrite Hold, Hnew by exact Hne. reflexivity.
    - rewrite Hpc by exact Hnt. reflexivity. }
  assert (Hao : forall t0 L0, L0 <> L -> acqb (pc_of s' t0) L0 = acqb (pc_of s t0) L0).
  { intros t0 L0 Hne. destruct (Nat.eq_dec t0 t) as [->|Hnt].
    - destruct (userb_false _ _ (Hold L0 Hne)) as [-> _].
      destruct (userb_false _ _ (Hnew L0 Hne)) as [-> _]. reflexivity.
    - rewrite Hpc by exact Hnt. reflexivity. }
  assert (Hno : forall t0 L0, L0 <> L -> unlb (pc_of s' t0) L0 = unlb (pc_of s t0) L0).
  { intros t0 L0 Hne. destruct (Nat.eq_dec t0 t) as [->|Hnt].
    - destruct (userb_false _ _ (Hold L0 Hne)) as [_ ->].
      destruct (userb_false _ _ (Hnew L0 Hne)) as [_ ->]. reflexivity.
    - rewrite Hpc by exact Hnt. reflexivity. }
  (* at L only t can be a user *)
  assert (HuL : forall t0, t0 <> t -> userb (pc_of s' t0) L = false).
  { intros t0 Hnt. rewrite Hpc by exact Hnt. apply Hnou. exact Hnt. }
  constructor.
  - intros L0 Ht. destruct (Nat.eq_dec L0 L) as [->|Hne].
    + destruct (cA Ht) as (A & B & C). repeat split; auto.
      intros t0. destruct (Nat.eq_dec t0 t) as [->|Hnt]; auto.
    + rewrite Hlk in * by exact Hne. destruct (t_tok s I L0 Ht) as (A & B & C).
      repeat split; auto. intros t0. rewrite Huo by exact Hne. apply C.
  - intros t1 t2 L0 H1 H2. destruct (Nat.eq_dec L0 L) as [->|Hne].
    + destruct (Nat.eq_dec t1 t) as [->|Hn1]; destruct (Nat.eq_dec t2 t) as [->|Hn2]; auto.
      * rewrite HuL in H2 by exact Hn2. discriminate.
      * rewrite HuL in H1 by exact Hn1. discriminate.
      * rewrite HuL in H1 by exact Hn1. discriminate.
    + rewrite Huo in H1, H2 by exact Hne. eapply t_one; eauto.
  - intros t0 L0 H. destruct (Nat.eq_dec L0 L) as [->|Hne].
    + destruct (Nat.eq_dec t0 t) as [->|Hnt]; auto. rewrite HuL in H by exact Hnt. discriminate.
    + rewrite Huo in H by exact Hne. rewrite Hlk by exact Hne. eapply t_user; eauto.
  - intros t0 L0 H. destruct (Nat.eq_dec L0 L) as [->|Hne].
    + destruct (Nat.eq_dec t0 t) as [->|Hnt]; auto.
      apply acqb_userb in H. rewrite HuL in H by exact Hnt. discriminate.
    + rewrite Hao in H by exact Hne. rewrite Hlk by exact Hne. eapply t_acq; eauto.
  - intros t0 L0 H. destruct (Nat.eq_dec L0 L) as [->|Hne].
    + destruct (Nat.eq_dec t0 t) as [->|Hnt]; auto.
      apply unlb_userb in H. rewrite HuL in H by exact Hnt. discriminate.
    + rewrite Hno in H by exact Hne. rewrite Hlk by exact Hne. eapply t_unl; eauto.
  - intros L0 H. destruct (Nat.eq_dec L0 L) as [->|Hne]; auto.
    rewrite Hlk in * by exact Hne. apply (t_held s I L0 H).
  - intros L0 Hall Hh. destruct (Nat.eq_dec L0 L) as [->|Hne]; auto.
    rewrite Hlk in * by exact Hne. apply (t_cntr0 s I L0); auto.
    intros t0. rewrite <- Hao by exact Hne. apply Hall.
  - intros L0 Hall Hh Hd. destruct (Nat.eq_dec L0 L) as [->|Hne]; auto.
    rewrite Hlk in * by exact Hne. apply (t_tok1 s I L0); auto.
    intros t0. rewrite <- Huo by exact Hne. apply Hall.
Qed.


Ltac tl_fin :=
  unfold pc_of, set_pc, arm_first in *; cbn in *; intros; upd_split;
  rewrite ?Nat.eqb_refl in *; cbn in *;
  repeat match goal with H : t_pc (th _ _) = _ |- _ => rewrite H in *; cbn in * end;
  unfold userb, acqb, unlb in *;
  rewrite ?Nat.eqb_refl in *; cbn in *; rewrite ?orb_false_r in *;
  auto; try congruence; try discriminate;
  try (apply Nat.eqb_neq; congruence);
  try (split; [assumption|discriminate]);
  try (match goal with |- context [fail_result ?k _] => destruct k; cbn in *; auto; congruence end);
  try (match goal with |- context [ok_result ?k] => destruct k; cbn in *; auto; congruence end).

Lemma user_sole : forall s, tinv s -> forall t L, userb (pc_of s t) L = true ->
  forall t0, t0 <> t -> userb (pc_of s t0) L = false.
Proof.
  intros s I t L Hu t0 Hne. destruct (userb (pc_of s t0) L) eqn:H0; [|reflexivity].
  exfalso. apply Hne. eapply t_one; eauto.
Qed.

Lemma user_token_false : forall s, tinv s -> forall t L, userb (pc_of s t) L = true ->
  token (lk s L) = false.
Proof.
  intros s I t L Hu. destruct (token (lk s L)) eqn:Ht; [|reflexivity].
  destruct (t_tok s I L Ht) as (_ & _ & Hn). rewrite Hn in Hu. discriminate.
Qed.

Lemma tinv_step : forall s l s', tinv s -> wf_ok s l -> step s l = Some s' -> tinv s'.
Proof.
  intros s l s' I HW H.
  destruct l; step_inv H; try (tframe_tac I; fail).
  - (* Invoke Unlock on a held Locker *)
    cbn in HW. destruct (held_no_users s I L HW) as [Htok Hnu].
    apply tinv_cancel.
    apply (tinv_local s _ t L I); tl_fin.
  - (* Invoke Unlock, counter 1 but no future: impossible on a held Locker *)
    cbn in HW. destruct (t_held s I L HW) as [_ Hf]. congruence.
  - (* TakeToken, provider down: the token is lost *)
    match goal with H : token (lk s L) = true |- _ => destruct (t_tok s I L H) as (Hh & Hc & Hnu) end.
    apply (tinv_local s _ t L I); tl_fin.
  - (* TakeToken with counter 1: impossible *)
    match goal with H : token (lk s L) = true |- _ => destruct (t_tok s I L H) as (Hh & Hc & Hnu) end. congruence.
  - (* TakeToken *)
    match goal with H : token (lk s L) = true |- _ => destruct (t_tok s I L H) as (Hh & Hc & Hnu) end.
    apply (tinv_local s _ t L I); tl_fin.
  - (* StCreate FOk succeeds *)
    assert (Hu : userb (pc_of s t) L = true) by (rewrite Heqp; unfold userb, acqb, unlb; rewrite Nat.eqb_refl; reflexivity).
    pose proof (user_sole s I t L Hu) as Hsole.
    pose proof (user_token_false s I t L Hu) as Htf.
    pose proof (t_acq s I t L) as Hc. rewrite Heqp in Hc. unfold acqb, unlb in Hc. rewrite Nat.eqb_refl in Hc.
    specialize (Hc eq_refl).
    apply (tinv_local s _ t L I); tl_fin.
  - (* PutToken at the end of Unlock *)
    assert (Hu : userb (pc_of s t) L = true) by (rewrite Heqp; unfold userb, acqb, unlb; rewrite Nat.eqb_refl; reflexivity).
    pose proof (user_sole s I t L Hu) as Hsole.
    pose proof (user_token_false s I t L Hu) as Htf.
    pose proof (t_user s I t L Hu) as Hh.
    pose proof (t_unl s I t L) as Hc. rewrite Heqp in Hc. unfold acqb, unlb in Hc. rewrite Nat.eqb_refl in Hc.
    specialize (Hc eq_refl).
    apply (tinv_local s _ t L I); tl_fin.
  - (* PutToken on a failure path *)
    assert (Hu : userb (pc_of s t) L = true) by (rewrite Heqp; unfold userb, acqb, unlb; rewrite Nat.eqb_refl; reflexivity).
    pose proof (user_sole s I t L Hu) as Hsole.
    pose proof (user_token_false s I t L Hu) as Htf.
    pose proof (t_user s I t L Hu) as Hh.
    apply (tinv_local s _ t L I); tl_fin.
Qed.

Lemma tinv_run : forall tr s s',
  tinv s -> respects wf_ok s tr -> run s tr = Some s' -> tinv s'.
Proof.
  induction tr as [|l tr IH]; intros s s' I HW Hr; cbn in *.
  - injection Hr as <-. exact I.
  - destruct HW as [HW1 HW2].
    destruct (step s l) as [s1|] eqn:Hs; [|discriminate].
    apply (IH s1 s'); auto. eapply tinv_step; eauto.
Qed.

Lemma tinv_reachable : forall lp tr s,
  run (init lp) tr = Some s -> wf_programs lp tr -> tinv s.
Proof. intros lp tr s Hr HW. eapply tinv_run; eauto using tinv_init. Qed.
