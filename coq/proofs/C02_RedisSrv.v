(** C02, Redis: facts about the server model (model/RedisSrv.v) under several
    connections.

    * The key lemma of optimistic transactions ([guard], [frame_cmd]): from the
      moment connection [t] has WATCHed a key, either the entry stored under the
      key is still the one [t] read, or [t]'s connection is marked -- whatever
      commands other connections execute in between.  So an EXEC that is not
      refused acts on exactly the entry its GET returned.
    * The relation between the contract's records and the server's keyspace
      ([crel]) at fixed clocks, and what SET / DEL / GET / MGET / SCAN do to it. *)
From Coq Require Import List ZArith NArith Arith Bool Lia.
From GL Require Import spec.KV spec.KVRel model.RedisSrv model.RedisKV
                       proofs.C03_KV proofs.C02_Contract.
Import ListNotations.

(** ** keys and patterns inside the common dialect (as in proofs/C03_Redis.v; repeated here so that
    C02 does not depend on that file) *)

(* no leading slash: rKey strips leading slashes, so "/s" and "s" are one Redis key (known finding D10) *)
Definition clean (k : list N) : Prop := strip_slashes k = k.

Lemma rKey_clean : forall k, clean k -> rKey k = kvs_prefix ++ k.
Proof. intros k H. unfold rKey. rewrite H. reflexivity. Qed.

Lemma rKey_eqb : forall k k', clean k -> clean k' -> key_eqb (rKey k) (rKey k') = key_eqb k k'.
Proof. intros k k' H H'. rewrite !rKey_clean by assumption. reflexivity. Qed.

Lemma unKey_rKey : forall k, clean k -> unKey (rKey k) = k.
Proof. intros k H. rewrite rKey_clean by assumption. reflexivity. Qed.

(* the pattern reads the same in both glob dialects (no class that starts with ! or ^), no leading slash *)
Definition pat_ok (p : list N) : Prop :=
  clean p /\ parse_pat 94 (length p) p = parse_pat 33 (length p) p.

Lemma glob_prefix : forall p k, pat_ok p -> clean k -> glob 94 (rKey p) (rKey k) = matches p k.
Proof.
  intros p k [Hc Hp] Hk. rewrite !rKey_clean by assumption.
  unfold matches, glob. rewrite <- Hp. reflexivity.
Qed.

Definition op_clean (o : op) : Prop :=
  match o with
  | Create k _ _ | Get k | Put k _ _ | CasByVersion k _ _ _ | Delete k => clean k
  | GetMany ks => Forall clean ks
  | PutMany rs => Forall (fun r : key * value * option Z => clean (fst (fst r))) rs
  | ListKeys p => pat_ok p
  end.

(** ** the keyspace as an association list *)
Lemma s_lookup_alookup : forall k l, s_lookup k l = alookup k l.
Proof. reflexivity. Qed.
Lemma s_remove_aremove : forall k l, s_remove k l = aremove k l.
Proof. reflexivity. Qed.
Lemma s_set_aset : forall k r l, s_set k r l = aset k r l.
Proof. reflexivity. Qed.

Lemma s_lookup_set_other : forall k k' r l, k <> k' -> s_lookup k' (s_set k r l) = s_lookup k' l.
Proof. intros. rewrite !s_lookup_alookup, s_set_aset. apply alookup_set_other. assumption. Qed.

Lemma s_lookup_remove_other : forall k k' l, k <> k' -> s_lookup k' (s_remove k l) = s_lookup k' l.
Proof. intros. rewrite !s_lookup_alookup, s_remove_aremove. apply alookup_remove_other. assumption. Qed.

(** ** WATCH bookkeeping *)

Definition watching (t : nat) (k : skey) (ws : list watch) : Prop :=
  exists w, In w ws /\ w_conn w = t /\ mem_key k (w_keys w) = true.

Lemma conn_dirty_true : forall t ws, conn_dirty t ws = true <->
  exists w, In w ws /\ w_conn w = t /\ w_dirty w = true.
Proof.
  intros t ws. induction ws as [|w r IH]; cbn [conn_dirty In].
  - split; [discriminate|intros [w [[] _]]].
  - rewrite orb_true_iff, andb_true_iff, Nat.eqb_eq, IH. split.
    + intros [[H1 H2]|[w' [H1 H2]]]; [exists w; auto|exists w'; auto].
    + intros [w' [[<-|H1] H2]]; [left; tauto|right; exists w'; auto].
Qed.

Lemma in_touch : forall k ws w, In w (touch k ws) ->
  exists w0, In w0 ws /\ w_conn w = w_conn w0 /\ w_keys w = w_keys w0 /\
             (w_dirty w0 = true \/ mem_key k (w_keys w0) = true -> w_dirty w = true).
Proof.
  intros k ws w H. unfold touch in H. apply in_map_iff in H. destruct H as [w0 [E Hin]].
  exists w0. split; [exact Hin|]. destruct (mem_key k (w_keys w0)) eqn:M; subst w; cbn; auto.
  repeat split; auto. intros [H|H]; [exact H|discriminate].
Qed.

Lemma touch_in : forall k ws w0, In w0 ws ->
  exists w, In w (touch k ws) /\ w_conn w = w_conn w0 /\ w_keys w = w_keys w0 /\
            (w_dirty w0 = true \/ mem_key k (w_keys w0) = true -> w_dirty w = true).
Proof.
  intros k ws w0 H. unfold touch.
  exists (if mem_key k (w_keys w0) then mkW (w_conn w0) (w_keys w0) true else w0).
  split; [apply in_map_iff; exists w0; auto|].
  destruct (mem_key k (w_keys w0)) eqn:M; cbn; auto.
  repeat split; auto. intros [H1|H1]; [exact H1|discriminate].
Qed.

Lemma dirty_touch : forall t k ws, conn_dirty t ws = true -> conn_dirty t (touch k ws) = true.
Proof.
  intros t k ws H. apply conn_dirty_true in H. destruct H as [w0 [Hin [Hc Hd]]].
  destruct (touch_in k ws w0 Hin) as [w [Hw [Hc' [_ Hd']]]].
  apply conn_dirty_true. exists w. split; [exact Hw|]. split; [congruence|auto].
Qed.

Lemma watching_touch : forall t key k ws, watching t key ws -> watching t key (touch k ws).
Proof.
  intros t key k ws [w0 [Hin [Hc Hm]]]. destruct (touch_in k ws w0 Hin) as [w [Hw [Hc' [Hk _]]]].
  exists w. split; [exact Hw|]. split; [congruence|]. rewrite Hk. exact Hm.
Qed.

Lemma watching_touch_same : forall t k ws, watching t k ws -> conn_dirty t (touch k ws) = true.
Proof.
  intros t k ws [w0 [Hin [Hc Hm]]]. destruct (touch_in k ws w0 Hin) as [w [Hw [Hc' [_ Hd]]]].
  apply conn_dirty_true. exists w. split; [exact Hw|]. split; [congruence|auto].
Qed.

Lemma dirty_unwatch : forall t c ws, c <> t -> conn_dirty t ws = true -> conn_dirty t (unwatch c ws) = true.
Proof.
  intros t c ws Hne H. apply conn_dirty_true in H. destruct H as [w [Hin [Hc Hd]]].
  apply conn_dirty_true. exists w. split; [|auto]. unfold unwatch. apply filter_In. split; [exact Hin|].
  apply negb_true_iff. apply Nat.eqb_neq. congruence.
Qed.

Lemma watching_unwatch : forall t c key ws, c <> t -> watching t key ws -> watching t key (unwatch c ws).
Proof.
  intros t c key ws Hne [w [Hin [Hc Hm]]]. exists w. split; [|auto]. unfold unwatch. apply filter_In.
  split; [exact Hin|]. apply negb_true_iff. apply Nat.eqb_neq. congruence.
Qed.

Lemma unwatch_clean : forall t ws, conn_dirty t (unwatch t ws) = false.
Proof.
  intros t ws. destruct (conn_dirty t (unwatch t ws)) eqn:E; [|reflexivity].
  apply conn_dirty_true in E. destruct E as [w [Hin [Hc _]]]. unfold unwatch in Hin. apply filter_In in Hin.
  destruct Hin as [_ Hn]. apply negb_true_iff in Hn. apply Nat.eqb_neq in Hn. contradiction.
Qed.

Lemma dirty_add : forall t c k ws, conn_dirty t ws = true -> conn_dirty t (add_watch c k ws) = true.
Proof. intros t c k ws H. unfold add_watch. cbn [conn_dirty w_conn w_dirty]. rewrite H. apply orb_true_r. Qed.

Lemma watching_add : forall t c key k ws, watching t key ws -> watching t key (add_watch c k ws).
Proof. intros t c key k ws [w [Hin H]]. exists w. split; [right; exact Hin|exact H]. Qed.

Lemma watching_add_same : forall t k ws, watching t k (add_watch t k ws).
Proof.
  intros t k ws. exists (mkW t [k] false). split; [left; reflexivity|]. split; [reflexivity|].
  cbn [w_keys mem_key]. rewrite key_eqb_refl. reflexivity.
Qed.

(** ** what connection [t] knows between its WATCH and its EXEC *)

(* after WATCH key *)
Definition guard0 (t : nat) (key : skey) (sv : srv) : Prop :=
  conn_dirty t (watches sv) = true \/ watching t key (watches sv).

(* after the GET that returned [ent] (None: the key was absent) *)
Definition guard (t : nat) (key : skey) (ent : option entry) (sv : srv) : Prop :=
  conn_dirty t (watches sv) = true \/ (watching t key (watches sv) /\ s_lookup key (store sv) = ent).

(* a server transition that connection [t] did not make itself *)
Definition frame (t : nat) (sv sv' : srv) : Prop :=
  forall key, (guard0 t key sv -> guard0 t key sv') /\ (forall ent, guard t key ent sv -> guard t key ent sv').

Lemma frame_refl : forall t sv, frame t sv sv.
Proof. intros t sv key. auto. Qed.

Lemma frame_trans : forall t a b c, frame t a b -> frame t b c -> frame t a c.
Proof.
  intros t a b c H1 H2 key. destruct (H1 key) as [A1 B1], (H2 key) as [A2 B2]. split; auto.
Qed.

Lemma frame_set : forall t clk k v ttl sv, frame t sv (do_set clk k v ttl sv).
Proof.
  intros t clk k v ttl sv key. unfold do_set, guard0, guard. cbn [store watches]. split.
  - intros [H|H]; [left; apply dirty_touch; exact H|right; apply watching_touch; exact H].
  - intros ent [H|[H1 H2]]; [left; apply dirty_touch; exact H|].
    destruct (key_eq_dec k key) as [->|Hne].
    + left. apply watching_touch_same. exact H1.
    + right. split; [apply watching_touch; exact H1|]. rewrite s_lookup_set_other by exact Hne. exact H2.
Qed.

Lemma frame_mset : forall t clk kvs sv, frame t sv (do_mset clk kvs sv).
Proof.
  intros t clk kvs. induction kvs as [|[k v] r IH]; intros sv; cbn [do_mset]; [apply frame_refl|].
  eapply frame_trans; [apply frame_set|apply IH].
Qed.

Lemma frame_del : forall t k sv, frame t sv (mkSrv (s_remove k (store sv)) (touch k (watches sv))).
Proof.
  intros t k sv key. unfold guard0, guard. cbn [store watches]. split.
  - intros [H|H]; [left; apply dirty_touch; exact H|right; apply watching_touch; exact H].
  - intros ent [H|[H1 H2]]; [left; apply dirty_touch; exact H|].
    destruct (key_eq_dec k key) as [->|Hne].
    + left. apply watching_touch_same. exact H1.
    + right. split; [apply watching_touch; exact H1|]. rewrite s_lookup_remove_other by exact Hne. exact H2.
Qed.

Lemma frame_unwatch : forall t c sv, c <> t -> frame t sv (mkSrv (store sv) (unwatch c (watches sv))).
Proof.
  intros t c sv Hne key. unfold guard0, guard. cbn [store watches]. split.
  - intros [H|H]; [left; apply dirty_unwatch; assumption|right; apply watching_unwatch; assumption].
  - intros ent [H|[H1 H2]]; [left; apply dirty_unwatch; assumption|].
    right. split; [apply watching_unwatch; assumption|exact H2].
Qed.

Lemma frame_add : forall t c k sv, frame t sv (mkSrv (store sv) (add_watch c k (watches sv))).
Proof.
  intros t c k sv key. unfold guard0, guard. cbn [store watches]. split.
  - intros [H|H]; [left; apply dirty_add; exact H|right; apply watching_add; exact H].
  - intros ent [H|[H1 H2]]; [left; apply dirty_add; exact H|].
    right. split; [apply watching_add; exact H1|exact H2].
Qed.

(* any command of another connection *)
Theorem frame_cmd : forall t clk c x sv, c <> t -> frame t sv (fst (srv_cmd clk c x sv)).
Proof.
  intros t clk c x sv Hne. destruct x; cbn [srv_cmd].
  - destruct (s_find clk k sv); cbn [fst]; [apply frame_refl|apply frame_set].
  - apply frame_refl.
  - destruct ks; apply frame_refl.
  - apply frame_set.
  - apply frame_mset.
  - destruct (s_find clk k sv); cbn [fst]; [apply frame_del|apply frame_refl].
  - apply frame_refl.
  - apply frame_add.
  - destruct (conn_dirty c (watches sv)); cbn [fst].
    + apply frame_unwatch. exact Hne.
    + eapply frame_trans; [apply (frame_set t clk k v ttl sv)|].
      apply (frame_unwatch t c (do_set clk k v ttl sv) Hne).
  - apply frame_unwatch. exact Hne.
Qed.

(** ** contract records vs. keyspace, at fixed clocks *)
Section Rel.
Variables now clk : Z.

Definition crel (x : key * rec) (y : skey * entry) : Prop :=
  clean (fst x) /\ fst y = rKey (fst x) /\
  e_pl (snd y) = mkPl (fst x) (val (snd x)) (ver (snd x)) (exp (snd x)) /\
  dead clk (snd y) = false /\ expired now (snd x) = false.

Lemma c_lookup_rel : forall l1 l2 k, Forall2 crel l1 l2 -> clean k ->
  match alookup k l1, s_lookup (rKey k) l2 with
  | None, None => True
  | Some r, Some y => crel (k, r) (rKey k, y)
  | _, _ => False
  end.
Proof.
  intros l1 l2 k H Hk. induction H as [|[k1 r1] [sk y] l1 l2 Hx H IH]; cbn [alookup s_lookup]; [exact I|].
  pose proof Hx as [Hc [Hs Hrest]]. cbn [fst snd] in *. subst sk.
  rewrite (rKey_eqb k k1 Hk Hc). destruct (key_eqb k k1) eqn:E; [|exact IH].
  apply key_eqb_eq in E. subst k1. exact Hx.
Qed.

Lemma c_remove_rel : forall l1 l2 k, Forall2 crel l1 l2 -> clean k ->
  Forall2 crel (aremove k l1) (s_remove (rKey k) l2).
Proof.
  intros l1 l2 k H Hk. induction H as [|[k1 r1] [sk y] l1 l2 Hx H IH]; cbn [aremove s_remove filter fst]; [constructor|].
  pose proof Hx as [Hc [Hs _]]. cbn [fst snd] in *. subst sk.
  rewrite (rKey_eqb k k1 Hk Hc). destruct (key_eqb k k1); cbn [negb]; [exact IH|constructor; assumption].
Qed.

Lemma c_set_rel : forall l1 l2 k r y, Forall2 crel l1 l2 -> clean k -> crel (k, r) (rKey k, y) ->
  Forall2 crel (aset k r l1) (s_set (rKey k) y l2).
Proof.
  intros. unfold aset, s_set. apply Forall2_app; [apply c_remove_rel; assumption|].
  constructor; [assumption|constructor].
Qed.

(* GET against the contract's look-up *)
Lemma c_find_rel : forall A sv k, Forall2 crel (frecs A) (store sv) -> clean k ->
  match ffind now k A, s_find clk (rKey k) sv with
  | None, None => s_lookup (rKey k) (store sv) = None
  | Some r, Some y => s_lookup (rKey k) (store sv) = Some y /\ e_pl y = mkPl k (val r) (ver r) (exp r)
  | _, _ => False
  end.
Proof.
  intros A sv k H Hk. rewrite ffind_lookup. unfold s_find.
  pose proof (c_lookup_rel _ _ k H Hk) as Hl.
  destruct (alookup k (frecs A)) as [r|], (s_lookup (rKey k) (store sv)) as [y|]; try contradiction; [|reflexivity].
  destruct Hl as [_ [_ [Hp [Hd He]]]]. cbn [fst snd] in *. rewrite Hd, He. auto.
Qed.

(* MGET *)
Lemma c_zip_rel : forall A sv ks, Forall2 crel (frecs A) (store sv) -> Forall clean ks ->
  zip_recs ks (map (fun k => option_map e_pl (s_find clk k sv)) (map rKey ks)) =
  map (fun k => option_map (as_orec k) (ffind now k A)) ks.
Proof.
  intros A sv ks H Hks. induction Hks as [|k t Hk Ht IH]; cbn [map zip_recs]; [reflexivity|].
  rewrite IH. f_equal. pose proof (c_find_rel A sv k H Hk) as Hf.
  destruct (ffind now k A) as [r|], (s_find clk (rKey k) sv) as [y|]; try contradiction; cbn [option_map]; [|reflexivity].
  destruct Hf as [_ Hp]. rewrite Hp. reflexivity.
Qed.

(* SCAN *)
Lemma c_scan_rel : forall l1 l2 p, Forall2 crel l1 l2 -> pat_ok p ->
  map unKey (map fst (filter (fun kr : skey * entry => negb (dead clk (snd kr)) && glob 94 (rKey p) (fst kr)) l2)) =
  map fst (filter (fun kr => negb (expired now (snd kr)) && matches p (fst kr)) l1).
Proof.
  intros l1 l2 p H Hp. induction H as [|x y l1 l2 Hx H IH]; cbn [filter map]; [reflexivity|].
  destruct Hx as [Hc [Hs [_ [Hd He]]]]. rewrite Hd, He, Hs. rewrite (glob_prefix p (fst x) Hp Hc). cbn [negb andb].
  destruct (matches p (fst x)); cbn [map fst]; [|exact IH].
  rewrite Hs, (unKey_rKey _ Hc), IH. reflexivity.
Qed.

(* an entry written now is alive on both sides when its expiration has not passed on the client's clock *)
Lemma crel_write : forall k v n e, clean k -> alive now e ->
  crel (k, mkRec v n e) (rKey k, mkEnt (mkPl k v n e) (deadline clk (expiration e now))).
Proof.
  intros k v n e Hk Ha. repeat split; cbn [fst snd val ver exp e_pl e_dl]; auto.
  - unfold dead, deadline, expiration. cbn [e_dl]. destruct e as [x|]; cbn [option_map]; [|reflexivity].
    apply Z.ltb_ge. lia.
  - unfold expired. cbn [exp]. destruct e as [x|]; [|reflexivity]. cbn in Ha. apply Z.ltb_ge. lia.
Qed.

End Rel.
