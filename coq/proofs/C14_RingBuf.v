(** C14: the ring buffer model refines the bounded FIFO queue specification. *)
From Coq Require Import List ZArith Arith Bool Lia ZifyBool.
From GL Require Import lib.ListUtil model.RingBuf spec.Queue.
Import ListNotations.
Local Open Scope nat_scope.

(** * Tactics *)

Ltac break_if :=
  repeat match goal with
  | |- context [if ?c then _ else _] => destruct c eqn:?
  | H : context [if ?c then _ else _] |- _ => destruct c eqn:?
  end.

(** * [set_nth] and [zero_range] *)

Lemma set_nth_length : forall l i v, length (set_nth l i v) = length l.
Proof.
  induction l as [|h t IH]; intros [|i] v; cbn [set_nth length]; auto.
Qed.

Lemma nth_set_nth_eq : forall l i v d, i < length l -> nth i (set_nth l i v) d = v.
Proof.
  induction l as [|h t IH]; intros [|i] v d Hi; cbn [set_nth length nth] in *;
    try lia; try reflexivity.
  apply IH. lia.
Qed.

Lemma nth_set_nth_neq : forall l i j v d, j <> i -> nth j (set_nth l i v) d = nth j l d.
Proof.
  induction l as [|h t IH]; intros [|i] [|j] v d Hne; cbn [set_nth nth];
    try reflexivity; try lia.
  apply IH. lia.
Qed.

Lemma zero_range_length : forall c l from, length (zero_range l from c) = length l.
Proof.
  induction c as [|c IH]; intros l from; cbn [zero_range].
  - reflexivity.
  - rewrite IH, set_nth_length. reflexivity.
Qed.

Lemma nth_zero_range_out : forall c l from j d,
  j < from \/ from + c <= j -> nth j (zero_range l from c) d = nth j l d.
Proof.
  induction c as [|c IH]; intros l from j d Hj; cbn [zero_range].
  - reflexivity.
  - rewrite IH by lia. apply nth_set_nth_neq. lia.
Qed.

Lemma nth_zero_range_in : forall c l from j,
  from <= j < from + c -> j < length l -> nth j (zero_range l from c) 0%Z = 0%Z.
Proof.
  induction c as [|c IH]; intros l from j Hj Hlen.
  - lia.
  - cbn [zero_range]. destruct (Nat.eq_dec j from) as [Heq|Hne].
    + subst j. rewrite nth_zero_range_out by lia. apply nth_set_nth_eq. exact Hlen.
    + apply IH; [lia|]. rewrite set_nth_length. exact Hlen.
Qed.

(** * The representation invariant *)

(** physical index of the [i]-th oldest element *)
Definition idx (n r i : nat) : nat := if r + i <? n then r + i else r + i - n.

(** slot [j] lies in the live window [rd, wr) (cyclically) *)
Definition in_window (b : rb) (j : nat) : Prop :=
  if rd b <=? wr b then rd b <= j < wr b else rd b <= j \/ j < wr b.

Definition zero_outside (b : rb) : Prop :=
  forall j, j < blen b -> ~ in_window b j -> nth j (buf b) 0%Z = 0%Z.

(** logical content of the ring buffer, oldest first *)
Definition rb_contents (b : rb) : list Z :=
  map (fun i => nth (idx (blen b) (rd b) i) (buf b) 0%Z) (seq 0 (rb_len b)).

Record Inv (b : rb) (q : queue) : Prop := mkInv {
  inv_blen : blen b = S (qcap q);
  inv_rd : rd b < blen b;
  inv_wr : wr b < blen b;
  inv_len : rb_len b = length (qitems q);
  inv_cap : length (qitems q) <= qcap q;
  inv_cont : forall i, i < length (qitems q) ->
             nth (idx (blen b) (rd b) i) (buf b) 0%Z = nth i (qitems q) 0%Z;
  inv_zero : zero_outside b }.

Lemma inv_init : forall size, Inv (new_rb size) (new_q size).
Proof.
  intros size. unfold new_rb, new_q.
  constructor; unfold rb_len, zero_outside, blen; cbn [buf rd wr qitems qcap length].
  - apply repeat_length.
  - rewrite repeat_length. lia.
  - rewrite repeat_length. lia.
  - reflexivity.
  - lia.
  - intros i Hi. lia.
  - intros j _ _. apply nth_repeat_any.
Qed.

Lemma inv_contents : forall b q, Inv b q -> rb_contents b = qitems q.
Proof.
  intros b q HI. destruct HI as [Hn Hrd Hwr HL Hcap Hcont Hzero].
  unfold rb_contents. rewrite HL.
  apply (list_eq_nth _ _ 0%Z).
  - rewrite map_length, seq_length. reflexivity.
  - intros i Hi. rewrite map_length, seq_length in Hi.
    rewrite <- (Hcont i Hi).
    rewrite (nth_indep _ 0%Z (nth (idx (blen b) (rd b) 0) (buf b) 0%Z))
      by (rewrite map_length, seq_length; exact Hi).
    rewrite (map_nth (fun k => nth (idx (blen b) (rd b) k) (buf b) 0%Z) _ 0 i).
    rewrite seq_nth by exact Hi. reflexivity.
Qed.

(** * Per-operation refinement *)

Definition step_ok (b : rb) (q : queue) (o : op) : Prop :=
  snd (rb_step b o) = snd (q_step q o) /\
  Inv (fst (rb_step b o)) (fst (q_step q o)).

Lemma write_refines : forall b q v, Inv b q -> step_ok b q (OWrite v).
Proof.
  intros [bf r w] [items cap] v HI. unfold step_ok.
  pose proof HI as [Hn Hrd Hwr HL Hcap Hcont Hzero].
  unfold rb_len, zero_outside, in_window, blen in *; cbn [buf rd wr qitems qcap] in *.
  cbn [rb_step q_step]. unfold rb_write, rb_cap, rb_len, blen, wrap.
  cbn [buf rd wr qitems qcap].
  rewrite HL. replace (length bf - 1) with cap by lia.
  destruct (length items =? cap) eqn:Hfull.
  - cbn [fst snd]. split; [reflexivity | exact HI].
  - cbn [fst snd]. split; [reflexivity|].
    apply Nat.eqb_neq in Hfull.
    assert (Hw : idx (length bf) r (length items) = w)
      by (unfold idx; break_if; lia).
    constructor; unfold rb_len, zero_outside, in_window, blen;
      cbn [buf rd wr qitems qcap]; rewrite ?set_nth_length, ?app_length;
      cbn [length].
    + exact Hn.
    + exact Hrd.
    + break_if; lia.
    + break_if; lia.
    + lia.
    + intros i Hi.
      destruct (Nat.eq_dec i (length items)) as [Heq|Hne].
      * subst i. rewrite Hw. rewrite nth_app_ge by lia.
        rewrite Nat.sub_diag. cbn [nth]. apply nth_set_nth_eq. exact Hwr.
      * rewrite nth_app_lt by lia. rewrite nth_set_nth_neq.
        -- apply Hcont. lia.
        -- unfold idx in *. break_if; lia.
    + intros j Hj Hout. rewrite nth_set_nth_neq.
      * apply Hzero; [exact Hj|]. break_if; lia.
      * break_if; lia.
Qed.

Lemma read_refines : forall b q, Inv b q -> step_ok b q ORead.
Proof.
  intros [bf r w] [items cap] HI. unfold step_ok.
  pose proof HI as [Hn Hrd Hwr HL Hcap Hcont Hzero].
  unfold rb_len, zero_outside, in_window, blen in *; cbn [buf rd wr qitems qcap] in *.
  cbn [rb_step q_step]. unfold rb_read, rb_len, blen, wrap.
  cbn [buf rd wr qitems qcap].
  rewrite HL.
  destruct items as [|x t].
  - cbn [length]. rewrite Nat.eqb_refl. cbn [fst snd].
    split; [reflexivity | exact HI].
  - replace (length (x :: t) =? 0) with false
      by (symmetry; apply Nat.eqb_neq; cbn [length]; lia).
    cbn [length fst snd] in *. split.
    + f_equal. pose proof (Hcont 0 ltac:(lia)) as H0.
      replace (idx (length bf) r 0) with r in H0 by (unfold idx; break_if; lia).
      exact H0.
    + constructor; unfold rb_len, zero_outside, in_window, blen;
        cbn [buf rd wr qitems qcap]; rewrite ?set_nth_length.
      * exact Hn.
      * break_if; lia.
      * exact Hwr.
      * break_if; lia.
      * lia.
      * intros i Hi.
        pose proof (Hcont (S i) ltac:(lia)) as HS. cbn [nth] in HS.
        rewrite <- HS. rewrite nth_set_nth_neq.
        -- f_equal. unfold idx. break_if; lia.
        -- unfold idx. break_if; lia.
      * intros j Hj Hout.
        destruct (Nat.eq_dec j r) as [Heq|Hne].
        -- subst j. apply nth_set_nth_eq. exact Hrd.
        -- rewrite nth_set_nth_neq by exact Hne.
           apply Hzero; [exact Hj|]. break_if; lia.
Qed.

(** Removing [c] elements from the front without crossing the end of the
    backing array: the shared core of [ReadN] and [Skip]. *)
Lemma inv_drop : forall b q c,
  Inv b q -> c <= length (qitems q) -> rd b + c <= blen b ->
  slice (buf b) (rd b) c = firstn c (qitems q) /\
  Inv (mkRb (zero_range (buf b) (rd b) c) (wrap b (rd b + c)) (wr b))
      (mkQ (skipn c (qitems q)) (qcap q)).
Proof.
  intros [bf r w] [items cap] c HI Hc Hfit.
  pose proof HI as [Hn Hrd Hwr HL Hcap Hcont Hzero].
  unfold rb_len, zero_outside, in_window, wrap, blen in *;
    cbn [buf rd wr qitems qcap] in *.
  split.
  - unfold slice. apply (list_eq_nth _ _ 0%Z).
    + rewrite !length_firstn, length_skipn. lia.
    + intros i Hi. rewrite length_firstn, length_skipn in Hi.
      rewrite !nth_firstn_lt by lia. rewrite nth_skipn_add.
      rewrite <- Hcont by lia. f_equal. unfold idx. break_if; lia.
  - constructor; unfold rb_len, zero_outside, in_window, blen;
      cbn [buf rd wr qitems qcap]; rewrite ?zero_range_length, ?length_skipn.
    + exact Hn.
    + break_if; lia.
    + exact Hwr.
    + break_if; lia.
    + lia.
    + intros i Hi. rewrite nth_skipn_add. rewrite <- Hcont by lia.
      assert (Hidx : idx (length bf) (if r + c =? length bf then 0 else r + c) i
                     = idx (length bf) r (c + i))
        by (unfold idx; break_if; lia).
      rewrite Hidx. apply nth_zero_range_out.
      unfold idx. break_if; lia.
    + intros j Hj Hout.
      destruct (Nat.lt_ge_cases j r) as [Hlt|Hge].
      * rewrite nth_zero_range_out by lia.
        apply Hzero; [exact Hj|]. break_if; lia.
      * destruct (Nat.lt_ge_cases j (r + c)) as [Hin|Hpast].
        -- apply nth_zero_range_in; lia.
        -- rewrite nth_zero_range_out by lia.
           apply Hzero; [exact Hj|]. break_if; lia.
Qed.

(** ** ReadN *)

(** iterations [ReadN] needs from state [b] with [k] free slots in [dst] *)
Definition readn_need (b : rb) (k : nat) : nat :=
  if (0 <? k) && (0 <? rb_len b) then
    if rd b <? wr b then 1 else if k <=? blen b - rd b then 1 else 2
  else 0.

Lemma readn_need_le2 : forall b k, readn_need b k <= 2.
Proof. intros b k. unfold readn_need. break_if; lia. Qed.

Lemma readn_done : forall b q k,
  Inv b q -> (0 <? k) && (0 <? rb_len b) = false ->
  firstn k (qitems q) = [] /\ skipn k (qitems q) = qitems q.
Proof.
  intros b q k HI Hc. rewrite (inv_len _ _ HI) in Hc.
  apply andb_false_iff in Hc. destruct Hc as [Hk|Hl].
  - apply Nat.ltb_ge in Hk. assert (k = 0) as -> by lia. split; reflexivity.
  - apply Nat.ltb_ge in Hl. destruct (qitems q) as [|x t].
    + split; [apply firstn_nil_any | apply skipn_nil_any].
    + cbn [length] in Hl. lia.
Qed.

Lemma readn_loop_spec : forall fuel b q k acc,
  Inv b q -> readn_need b k <= fuel ->
  exists b',
    rb_readn_loop fuel b k acc = (b', acc ++ firstn k (qitems q), false) /\
    Inv b' (mkQ (skipn k (qitems q)) (qcap q)).
Proof.
  induction fuel as [|f IH]; intros b q k acc HI Hfuel.
  - cbn [rb_readn_loop]. unfold readn_need in Hfuel.
    destruct ((0 <? k) && (0 <? rb_len b)) eqn:Hc.
    + exfalso. break_if; lia.
    + destruct (readn_done b q k HI Hc) as [Hf Hs].
      exists b. rewrite Hf, Hs, app_nil_r. split; [reflexivity|].
      destruct q as [items cap]. exact HI.
  - cbn [rb_readn_loop].
    destruct ((0 <? k) && (0 <? rb_len b)) eqn:Hc.
    + set (e := if rd b <? wr b then wr b else blen b).
      set (cnt := Nat.min k (e - rd b)).
      pose proof HI as [Hn Hrd Hwr HL Hcap _ _].
      apply andb_true_iff in Hc. destruct Hc as [Hk Hl].
      apply Nat.ltb_lt in Hk. apply Nat.ltb_lt in Hl.
      assert (Hcnt : cnt <= length (qitems q) /\ rd b + cnt <= blen b /\ cnt <= k).
      { subst cnt e. unfold rb_len in *. break_if; lia. }
      destruct Hcnt as (Hc1 & Hc2 & Hc3).
      destruct (inv_drop b q cnt HI Hc1 Hc2) as [Hvals HI1].
      rewrite Hvals.
      destruct (IH _ _ (k - cnt) (acc ++ firstn cnt (qitems q)) HI1) as [b' [Hrun HI']].
      { unfold readn_need in *. rewrite (inv_len _ _ HI1).
        unfold blen in *. cbn [buf rd wr qitems qcap].
        rewrite zero_range_length, length_skipn.
        unfold wrap, blen. subst cnt e. unfold rb_len, blen in *.
        break_if; lia. }
      exists b'. split.
      * rewrite Hrun. cbn [qitems]. rewrite <- app_assoc, firstn_skipn_add.
        replace (cnt + (k - cnt)) with k by lia. reflexivity.
      * cbn [qitems qcap] in HI'. rewrite skipn_skipn_add in HI'.
        replace (cnt + (k - cnt)) with k in HI' by lia. exact HI'.
    + destruct (readn_done b q k HI Hc) as [Hf Hs].
      exists b. rewrite Hf, Hs, app_nil_r. split; [reflexivity|].
      destruct q as [items cap]. exact HI.
Qed.

Lemma readn_refines : forall b q k, Inv b q -> step_ok b q (OReadN k).
Proof.
  intros b q k HI. unfold step_ok. cbn [rb_step q_step]. unfold rb_readn.
  destruct (readn_loop_spec 2 b q k [] HI (readn_need_le2 b k)) as [b' [Hrun HI']].
  rewrite Hrun. cbn [fst snd app]. split; [reflexivity | exact HI'].
Qed.

(** ** Skip and Clear *)

Definition skip_need (b : rb) (n : Z) : nat :=
  if (0 <? n)%Z && (0 <? rb_len b) then
    if rd b + Nat.min (Z.to_nat n) (rb_len b) <=? blen b then 1 else 2
  else 0.

Lemma skip_need_le2 : forall b n, skip_need b n <= 2.
Proof. intros b n. unfold skip_need. break_if; lia. Qed.

Lemma skip_done : forall b q n,
  Inv b q -> (0 <? n)%Z && (0 <? rb_len b) = false ->
  Nat.min (Z.to_nat n) (length (qitems q)) = 0.
Proof.
  intros b q n HI Hc. rewrite (inv_len _ _ HI) in Hc.
  apply andb_false_iff in Hc. destruct Hc as [Hn|Hl].
  - apply Z.ltb_ge in Hn. lia.
  - apply Nat.ltb_ge in Hl. lia.
Qed.

Lemma skip_loop_spec : forall fuel b q n res,
  Inv b q -> skip_need b n <= fuel ->
  exists b',
    rb_skip_loop fuel b n res =
      (b', res + Nat.min (Z.to_nat n) (length (qitems q)), false) /\
    Inv b' (mkQ (skipn (Nat.min (Z.to_nat n) (length (qitems q))) (qitems q)) (qcap q)).
Proof.
  induction fuel as [|f IH]; intros b q n res HI Hfuel.
  - cbn [rb_skip_loop]. unfold skip_need in Hfuel.
    destruct ((0 <? n)%Z && (0 <? rb_len b)) eqn:Hc.
    + exfalso. break_if; lia.
    + rewrite (skip_done b q n HI Hc). exists b. rewrite Nat.add_0_r.
      split; [reflexivity|]. destruct q as [items cap]. exact HI.
  - cbn [rb_skip_loop].
    destruct ((0 <? n)%Z && (0 <? rb_len b)) eqn:Hc.
    + pose proof HI as [Hn Hrd Hwr HL Hcap _ _].
      apply andb_true_iff in Hc. destruct Hc as [Hk Hl].
      apply Z.ltb_lt in Hk. apply Nat.ltb_lt in Hl.
      remember (Nat.min (Z.to_nat n) (length (qitems q))) as m eqn:Hm.
      assert (Hn1 : (if (Z.of_nat (rb_len b) <? n)%Z then rb_len b else Z.to_nat n) = m).
      { rewrite HL. break_if; lia. }
      rewrite Hn1.
      remember (Nat.min m (blen b - rd b)) as cnt eqn:Hcnt.
      assert (He : (if blen b <=? rd b + m then blen b else rd b + m) = rd b + cnt).
      { break_if; lia. }
      rewrite He. replace (rd b + cnt - rd b) with cnt by lia.
      destruct (inv_drop b q cnt HI ltac:(lia) ltac:(lia)) as [_ HI1].
      destruct (IH _ _ (Z.of_nat (m - cnt)) (res + cnt) HI1) as [b' [Hrun HI']].
      { unfold skip_need in *. rewrite (inv_len _ _ HI1). rewrite HL in Hfuel.
        unfold blen in *. cbn [buf rd wr qitems qcap].
        rewrite zero_range_length, length_skipn.
        unfold wrap, blen. clear HL Hn1 He IH HI HI1.
        break_if; lia. }
      cbn [qitems qcap] in Hrun, HI'. rewrite length_skipn in Hrun, HI'.
      exists b'. split.
      * rewrite Hrun. f_equal. f_equal. lia.
      * rewrite skipn_skipn_add in HI'.
        replace (cnt + Nat.min (Z.to_nat (Z.of_nat (m - cnt))) (length (qitems q) - cnt))
          with m in HI' by lia.
        exact HI'.
    + rewrite (skip_done b q n HI Hc). exists b. rewrite Nat.add_0_r.
      split; [reflexivity|]. destruct q as [items cap]. exact HI.
Qed.

(* the spec computes the number of skipped elements in Z (cheap for huge
   requests); it is min (max n 0) Len *)
Lemma skip_amount_eq : forall (n : Z) (l : nat),
  Z.to_nat (Z.min n (Z.of_nat l)) = Nat.min (Z.to_nat n) l.
Proof. intros n l. lia. Qed.

Lemma skip_refines : forall b q n, Inv b q -> step_ok b q (OSkip n).
Proof.
  intros b q n HI. unfold step_ok. cbn [rb_step q_step]. rewrite skip_amount_eq. unfold rb_skip.
  destruct (skip_loop_spec 2 b q n 0 HI (skip_need_le2 b n)) as [b' [Hrun HI']].
  rewrite Hrun. cbn [fst snd Nat.add]. split; [reflexivity | exact HI'].
Qed.

Lemma clear_refines : forall b q, Inv b q -> step_ok b q OClear.
Proof.
  intros b q HI. unfold step_ok. cbn [rb_step q_step]. unfold rb_clear, rb_skip.
  destruct (skip_loop_spec 2 b q (Z.of_nat (rb_len b)) 0 HI (skip_need_le2 b _))
    as [b' [Hrun HI']].
  rewrite Hrun. cbn [fst snd]. split; [reflexivity|].
  rewrite (inv_len _ _ HI) in HI'.
  replace (Nat.min (Z.to_nat (Z.of_nat (length (qitems q)))) (length (qitems q)))
    with (length (qitems q)) in HI' by lia.
  rewrite skipn_ge_nil in HI' by lia. exact HI'.
Qed.

(** ** At, Len, Cap *)

Lemma at_refines : forall b q i, Inv b q -> step_ok b q (OAt i).
Proof.
  intros b q i HI. unfold step_ok. cbn [rb_step q_step]. unfold rb_at.
  rewrite (inv_len _ _ HI).
  pose proof HI as [Hn Hrd Hwr HL Hcap Hcont _].
  destruct ((i <? 0)%Z || (Z.of_nat (length (qitems q)) <=? i)%Z) eqn:Hc.
  - cbn [fst snd]. split; [reflexivity | exact HI].
  - cbn [fst snd]. split; [|exact HI].
    apply orb_false_iff in Hc. destruct Hc as [Hlo Hhi].
    apply Z.ltb_ge in Hlo. apply Z.leb_gt in Hhi.
    f_equal. rewrite <- (Hcont (Z.to_nat i)) by lia.
    f_equal. unfold idx. break_if; lia.
Qed.

Lemma len_refines : forall b q, Inv b q -> step_ok b q OLen.
Proof.
  intros b q HI. unfold step_ok. cbn [rb_step q_step fst snd].
  rewrite (inv_len _ _ HI). split; [reflexivity | exact HI].
Qed.

Lemma cap_refines : forall b q, Inv b q -> step_ok b q OCap.
Proof.
  intros b q HI. unfold step_ok. cbn [rb_step q_step fst snd]. unfold rb_cap.
  rewrite (inv_blen _ _ HI). split; [f_equal; lia | exact HI].
Qed.

(** * Whole runs *)

Lemma step_refines : forall b q o, Inv b q -> step_ok b q o.
Proof.
  intros b q o HI. destruct o as [v| |k|n|i| | |].
  - apply write_refines; exact HI.
  - apply read_refines; exact HI.
  - apply readn_refines; exact HI.
  - apply skip_refines; exact HI.
  - apply at_refines; exact HI.
  - apply clear_refines; exact HI.
  - apply len_refines; exact HI.
  - apply cap_refines; exact HI.
Qed.

Lemma run_refines : forall ops b q,
  Inv b q ->
  fst (rb_run b ops) = fst (q_run q ops) /\
  Inv (snd (rb_run b ops)) (snd (q_run q ops)).
Proof.
  induction ops as [|o t IH]; intros b q HI.
  - cbn [rb_run q_run fst snd]. split; [reflexivity | exact HI].
  - cbn [rb_run q_run].
    destruct (step_refines b q o HI) as [Hout HI1].
    destruct (rb_step b o) as [b1 x]. destruct (q_step q o) as [q1 y].
    cbn [fst snd] in Hout, HI1.
    destruct (IH b1 q1 HI1) as [Houts HIf].
    destruct (rb_run b1 t) as [xs bfin]. destruct (q_run q1 t) as [ys qfin].
    cbn [fst snd] in *. subst y ys. split; [reflexivity | exact HIf].
Qed.

(** Headline 1: on every operation sequence and for every capacity the ring
    buffer returns exactly what the bounded FIFO queue returns (in particular
    [OutOfFuel] never occurs: the queue never outputs it). *)
Theorem rb_refines_queue : forall (size : nat) (ops : list op),
  fst (rb_run (new_rb size) ops) = fst (q_run (new_q size) ops).
Proof.
  intros size ops. apply (run_refines ops _ _ (inv_init size)).
Qed.

Theorem rb_run_inv : forall (size : nat) (ops : list op),
  Inv (snd (rb_run (new_rb size) ops)) (snd (q_run (new_q size) ops)).
Proof.
  intros size ops. apply (run_refines ops _ _ (inv_init size)).
Qed.

(** the final logical content of the ring buffer is the final queue content *)
Theorem rb_final_contents : forall (size : nat) (ops : list op),
  rb_contents (snd (rb_run (new_rb size) ops)) = qitems (snd (q_run (new_q size) ops)).
Proof. intros size ops. apply inv_contents. apply rb_run_inv. Qed.

Lemma out_of_fuel_not_spec : forall q o, snd (q_step q o) <> OutOfFuel.
Proof.
  intros q o. destruct o as [v| |k|n|i| | |]; cbn [q_step].
  - destruct (length (qitems q) =? qcap q); cbn [snd]; discriminate.
  - destruct (qitems q); cbn [snd]; discriminate.
  - cbn [snd]; discriminate.
  - cbn [snd]; discriminate.
  - destruct ((i <? 0)%Z || (Z.of_nat (length (qitems q)) <=? i)%Z); cbn [snd]; discriminate.
  - cbn [snd]; discriminate.
  - cbn [snd]; discriminate.
  - cbn [snd]; discriminate.
Qed.

Lemma q_run_no_oof : forall ops q, ~ In OutOfFuel (fst (q_run q ops)).
Proof.
  induction ops as [|o t IH]; intros q Hin.
  - cbn [q_run fst] in Hin. destruct Hin.
  - cbn [q_run] in Hin. pose proof (out_of_fuel_not_spec q o) as Hno.
    destruct (q_step q o) as [q1 y]. cbn [snd] in Hno.
    pose proof (IH q1) as IH1. destruct (q_run q1 t) as [ys qfin].
    cbn [fst] in *. destruct Hin as [Heq|Hin]; [congruence | exact (IH1 Hin)].
Qed.

(** fuel 2 always suffices *)
Theorem rb_never_out_of_fuel : forall (size : nat) (ops : list op),
  ~ In OutOfFuel (fst (rb_run (new_rb size) ops)).
Proof. intros size ops. rewrite rb_refines_queue. apply q_run_no_oof. Qed.

(** * Zeroing of released slots *)

(** Headline 2 (strong form): after any operation sequence every slot outside
    the live window holds the zero value, whatever was written. *)
Theorem rb_zero_outside_window : forall (size : nat) (ops : list op),
  zero_outside (snd (rb_run (new_rb size) ops)).
Proof. intros size ops. exact (inv_zero _ _ (rb_run_inv size ops)). Qed.

Definition nzb (x : Z) : bool := negb (x =? 0)%Z.

Lemma inv_nonzero_count : forall b q,
  Inv b q -> Forall (fun x => x <> 0%Z) (qitems q) -> nonzero_slots b = rb_len b.
Proof.
  intros [bf r w] [items cap] HI Hnz.
  pose proof HI as [Hn Hrd Hwr HL Hcap Hcont Hzero].
  unfold nonzero_slots. change (length (filter (fun x => negb (x =? 0)%Z) (buf (mkRb bf r w))))
    with (count nzb bf).
  rewrite HL.
  unfold rb_len, zero_outside, in_window, blen in *; cbn [buf rd wr qitems qcap] in *.
  assert (Hitems : forall i, i < length items -> nzb (nth (idx (length bf) r i) bf 0%Z) = true).
  { intros i Hi. rewrite Hcont by exact Hi. unfold nzb.
    apply negb_true_iff. apply Z.eqb_neq.
    apply (proj1 (Forall_nth _ items) Hnz i 0%Z Hi). }
  assert (Hz : forall j, j < length bf ->
             ~ (if r <=? w then r <= j < w else r <= j \/ j < w) ->
             nzb (nth j bf 0%Z) = false).
  { intros j Hj Hout. rewrite (Hzero j Hj Hout). reflexivity. }
  destruct (r <=? w) eqn:Hrw.
  - apply Nat.leb_le in Hrw.
    rewrite (count_split3 nzb bf r w Hrw).
    rewrite (count_none nzb (firstn r bf) 0%Z).
    2:{ intros i Hi. rewrite length_firstn in Hi. rewrite nth_firstn_lt by lia.
        apply Hz; lia. }
    rewrite (count_all nzb (firstn (w - r) (skipn r bf)) 0%Z).
    2:{ intros i Hi. rewrite length_firstn, length_skipn in Hi.
        rewrite nth_firstn_lt by lia. rewrite nth_skipn_add.
        replace (r + i) with (idx (length bf) r i) by (unfold idx; break_if; lia).
        apply Hitems. lia. }
    rewrite (count_none nzb (skipn w bf) 0%Z).
    2:{ intros i Hi. rewrite length_skipn in Hi. rewrite nth_skipn_add.
        apply Hz; lia. }
    rewrite length_firstn, length_skipn. lia.
  - apply Nat.leb_gt in Hrw.
    rewrite (count_split3 nzb bf w r ltac:(lia)).
    rewrite (count_all nzb (firstn w bf) 0%Z).
    2:{ intros i Hi. rewrite length_firstn in Hi. rewrite nth_firstn_lt by lia.
        replace i with (idx (length bf) r (length bf - r + i))
          by (unfold idx; break_if; lia).
        apply Hitems. lia. }
    rewrite (count_none nzb (firstn (r - w) (skipn w bf)) 0%Z).
    2:{ intros i Hi. rewrite length_firstn, length_skipn in Hi.
        rewrite nth_firstn_lt by lia. rewrite nth_skipn_add.
        apply Hz; lia. }
    rewrite (count_all nzb (skipn r bf) 0%Z).
    2:{ intros i Hi. rewrite length_skipn in Hi. rewrite nth_skipn_add.
        replace (r + i) with (idx (length bf) r i) by (unfold idx; break_if; lia).
        apply Hitems. lia. }
    rewrite length_firstn, length_skipn. lia.
Qed.

Lemma q_step_nonzero : forall q o,
  Forall (fun x => x <> 0%Z) (qitems q) ->
  (forall v, o = OWrite v -> v <> 0%Z) ->
  Forall (fun x => x <> 0%Z) (qitems (fst (q_step q o))).
Proof.
  intros q o Hq Ho. destruct o as [v| |k|n|i| | |]; cbn [q_step].
  - destruct (length (qitems q) =? qcap q); cbn [fst qitems].
    + exact Hq.
    + apply Forall_app. split; [exact Hq|].
      constructor; [apply Ho; reflexivity | constructor].
  - destruct (qitems q) as [|x t] eqn:Hitems; cbn [fst qitems].
    + rewrite Hitems. constructor.
    + inversion Hq; assumption.
  - cbn [fst qitems]. apply Forall_skipn. exact Hq.
  - cbn [fst qitems]. apply Forall_skipn. exact Hq.
  - destruct ((i <? 0)%Z || (Z.of_nat (length (qitems q)) <=? i)%Z); cbn [fst]; exact Hq.
  - cbn [fst qitems]. constructor.
  - cbn [fst]. exact Hq.
  - cbn [fst]. exact Hq.
Qed.

Lemma q_run_nonzero : forall ops q,
  Forall (fun x => x <> 0%Z) (qitems q) ->
  (forall v, In (OWrite v) ops -> v <> 0%Z) ->
  Forall (fun x => x <> 0%Z) (qitems (snd (q_run q ops))).
Proof.
  induction ops as [|o t IH]; intros q Hq Hops.
  - cbn [q_run snd]. exact Hq.
  - cbn [q_run].
    pose proof (q_step_nonzero q o Hq) as Hstep.
    destruct (q_step q o) as [q1 y]. cbn [fst] in Hstep.
    assert (H1 : Forall (fun x => x <> 0%Z) (qitems q1)).
    { apply Hstep. intros v Hv. apply Hops. left. exact Hv. }
    pose proof (IH q1 H1) as IH1.
    destruct (q_run q1 t) as [ys qfin]. cbn [snd] in *.
    apply IH1. intros v Hv. apply Hops. right. exact Hv.
Qed.

(** Headline 2 (counting form, the one the Go hook observes): if every written
    value is non-zero, the number of non-zero slots equals [Len]. *)
Theorem rb_zeroed : forall (size : nat) (ops : list op),
  (forall v, In (OWrite v) ops -> v <> 0%Z) ->
  let b := snd (rb_run (new_rb size) ops) in
  nonzero_slots b = rb_len b.
Proof.
  intros size ops Hops b. subst b.
  apply (inv_nonzero_count _ _ (rb_run_inv size ops)).
  apply q_run_nonzero; [constructor | exact Hops].
Qed.

(** * Specification-level properties of the bounded FIFO queue *)

(** ** Simple characterisations *)

Lemma write_fails_iff_full : forall q v,
  snd (q_step q (OWrite v)) = OutExhausted <-> length (qitems q) = qcap q.
Proof.
  intros q v. cbn [q_step].
  destruct (length (qitems q) =? qcap q) eqn:Hfull; cbn [snd].
  - apply Nat.eqb_eq in Hfull. split; [intros _; exact Hfull | reflexivity].
  - apply Nat.eqb_neq in Hfull. split; [discriminate | intros Heq; contradiction].
Qed.

Lemma write_step_effect : forall q v,
  q_step q (OWrite v) =
    if length (qitems q) =? qcap q then (q, OutExhausted)
    else (mkQ (qitems q ++ [v]) (qcap q), OutOk).
Proof. reflexivity. Qed.

Lemma read_eof_iff_empty : forall q,
  snd (q_step q ORead) = OutEOF <-> qitems q = [].
Proof.
  intros q. cbn [q_step]. destruct (qitems q) as [|x t]; cbn [snd].
  - split; reflexivity.
  - split; discriminate.
Qed.

Lemma read_returns_oldest : forall q x t,
  qitems q = x :: t -> q_step q ORead = (mkQ t (qcap q), OutVal x).
Proof. intros q x t Hq. cbn [q_step]. rewrite Hq. reflexivity. Qed.

Lemma at_panics_iff_out_of_range : forall q i,
  snd (q_step q (OAt i)) = OutPanic <->
  (i < 0 \/ Z.of_nat (length (qitems q)) <= i)%Z.
Proof.
  intros q i. cbn [q_step].
  destruct ((i <? 0)%Z || (Z.of_nat (length (qitems q)) <=? i)%Z) eqn:Hc; cbn [snd].
  - apply orb_true_iff in Hc. split; [intros _ | reflexivity].
    destruct Hc as [Hlo|Hhi].
    + left. apply Z.ltb_lt. exact Hlo.
    + right. apply Z.leb_le. exact Hhi.
  - apply orb_false_iff in Hc. destruct Hc as [Hlo Hhi].
    apply Z.ltb_ge in Hlo. apply Z.leb_gt in Hhi.
    split; [discriminate | intros [Hl|Hh]; lia].
Qed.

Lemma q_step_wf : forall q o,
  length (qitems q) <= qcap q ->
  length (qitems (fst (q_step q o))) <= qcap (fst (q_step q o)) /\
  qcap (fst (q_step q o)) = qcap q.
Proof.
  intros q o Hwf. destruct o as [v| |k|n|i| | |]; cbn [q_step].
  - destruct (length (qitems q) =? qcap q) eqn:Hfull; cbn [fst qitems qcap].
    + split; [exact Hwf | reflexivity].
    + apply Nat.eqb_neq in Hfull. rewrite app_length. cbn [length]. lia.
  - destruct (qitems q) as [|x t] eqn:Hitems; cbn [fst qitems qcap].
    + rewrite Hitems. cbn [length]. lia.
    + cbn [length] in Hwf. lia.
  - cbn [fst qitems qcap]. rewrite length_skipn. lia.
  - cbn [fst qitems qcap]. rewrite length_skipn. lia.
  - destruct ((i <? 0)%Z || (Z.of_nat (length (qitems q)) <=? i)%Z); cbn [fst];
      split; [exact Hwf | reflexivity | exact Hwf | reflexivity].
  - cbn [fst qitems qcap length]. lia.
  - cbn [fst]. split; [exact Hwf | reflexivity].
  - cbn [fst]. split; [exact Hwf | reflexivity].
Qed.

Lemma q_run_wf : forall ops q,
  length (qitems q) <= qcap q ->
  length (qitems (snd (q_run q ops))) <= qcap (snd (q_run q ops)) /\
  qcap (snd (q_run q ops)) = qcap q.
Proof.
  induction ops as [|o t IH]; intros q Hwf.
  - cbn [q_run snd]. split; [exact Hwf | reflexivity].
  - cbn [q_run]. destruct (q_step_wf q o Hwf) as [Hwf1 Hcap1].
    destruct (q_step q o) as [q1 y]. cbn [fst] in Hwf1, Hcap1.
    destruct (IH q1 Hwf1) as [Hwff Hcapf].
    destruct (q_run q1 t) as [ys qfin]. cbn [snd] in *.
    split; [exact Hwff | congruence].
Qed.

(** every reachable queue state respects its capacity, which never changes *)
Theorem len_le_cap : forall (size : nat) (ops : list op),
  let q := snd (q_run (new_q size) ops) in
  length (qitems q) <= qcap q /\ qcap q = size.
Proof.
  intros size ops q. subst q.
  apply (q_run_wf ops (new_q size)). cbn [new_q qitems qcap length]. lia.
Qed.

Theorem rb_len_le_cap : forall (size : nat) (ops : list op),
  let b := snd (rb_run (new_rb size) ops) in
  rb_len b <= rb_cap b /\ rb_cap b = size.
Proof.
  intros size ops b. subst b.
  pose proof (rb_run_inv size ops) as HI.
  pose proof HI as [Hn _ _ HL Hcap _ _].
  destruct (len_le_cap size ops) as [_ Hsize].
  unfold rb_cap. rewrite HL, Hn. lia.
Qed.

(** ** FIFO: no loss, no duplication, order preserved *)

(** elements operation [o] removes from the front of [q] (ghost information:
    [Skip] and [Clear] do not return the discarded values) *)
Definition q_removed (q : queue) (o : op) : list Z :=
  match o with
  | ORead => firstn 1 (qitems q)
  | OReadN k => firstn k (qitems q)
  | OSkip n => firstn (Z.to_nat (Z.min n (Z.of_nat (length (qitems q))))) (qitems q)
  | OClear => qitems q
  | _ => []
  end.

(** [q_run] instrumented with the per-step removed elements *)
Fixpoint q_run_ghost (q : queue) (ops : list op) : list out * list (list Z) * queue :=
  match ops with
  | [] => ([], [], q)
  | o :: t => let '(q', x) := q_step q o in
              let '(xs, rs, qf) := q_run_ghost q' t in
              (x :: xs, q_removed q o :: rs, qf)
  end.

Definition g_outs (g : list out * list (list Z) * queue) : list out := fst (fst g).
Definition g_removed (g : list out * list (list Z) * queue) : list (list Z) := snd (fst g).
Definition g_final (g : list out * list (list Z) * queue) : queue := snd g.

Lemma q_run_ghost_agrees : forall ops q,
  g_outs (q_run_ghost q ops) = fst (q_run q ops) /\
  g_final (q_run_ghost q ops) = snd (q_run q ops).
Proof.
  induction ops as [|o t IH]; intros q.
  - split; reflexivity.
  - cbn [q_run_ghost q_run]. destruct (q_step q o) as [q1 y].
    destruct (IH q1) as [Ho Hf].
    destruct (q_run_ghost q1 t) as [[xs rs] qf]. destruct (q_run q1 t) as [ys qfin].
    unfold g_outs, g_final in *. cbn [fst snd] in *. subst. split; reflexivity.
Qed.

Fixpoint zip_concat (f : op -> out -> list Z) (ops : list op) (outs : list out) : list Z :=
  match ops, outs with
  | o :: ops', x :: outs' => f o x ++ zip_concat f ops' outs'
  | _, _ => []
  end.

Definition accepted_one (o : op) (x : out) : list Z :=
  match o with
  | OWrite v => match x with OutOk => [v] | _ => [] end
  | _ => []
  end.

Definition consumed_one (o : op) (x : out) : list Z :=
  match o with
  | ORead => match x with OutVal v => [v] | _ => [] end
  | OReadN _ => match x with OutVals l => l | _ => [] end
  | _ => []
  end.

(** the values of the writes that were accepted, in order *)
Definition accepted_writes : list op -> list out -> list Z := zip_concat accepted_one.
(** the values handed out by [Read] / [ReadN], in order *)
Definition consumed : list op -> list out -> list Z := zip_concat consumed_one.

(** what the observable output of one step says about the removed elements *)
Definition removed_matches (o : op) (x : out) (r : list Z) : Prop :=
  match o with
  | ORead => match x with OutVal v => r = [v] | OutEOF => r = [] | _ => False end
  | OReadN k => x = OutVals r /\ length r <= k
  | OSkip n => x = OutN (length r) /\ (Z.of_nat (length r) <= Z.max 0 n)%Z
  | OClear => x = OutOk
  | _ => r = []
  end.

Fixpoint ghost_consistent (ops : list op) (outs : list out) (rs : list (list Z)) : Prop :=
  match ops, outs, rs with
  | [], [], [] => True
  | o :: ops', x :: outs', r :: rs' => removed_matches o x r /\ ghost_consistent ops' outs' rs'
  | _, _, _ => False
  end.

Lemma q_step_fifo : forall q o,
  qitems q ++ accepted_one o (snd (q_step q o)) =
  q_removed q o ++ qitems (fst (q_step q o)).
Proof.
  intros q o. destruct o as [v| |k|n|i| | |]; cbn [q_step q_removed accepted_one].
  - destruct (length (qitems q) =? qcap q); cbn [fst snd qitems app].
    + apply app_nil_r.
    + reflexivity.
  - destruct (qitems q) as [|x t] eqn:Hitems; cbn [fst snd qitems firstn app].
    + rewrite Hitems. reflexivity.
    + rewrite app_nil_r. reflexivity.
  - cbn [fst snd qitems]. rewrite app_nil_r, firstn_skipn. reflexivity.
  - cbn [fst snd qitems]. rewrite app_nil_r, firstn_skipn. reflexivity.
  - destruct ((i <? 0)%Z || (Z.of_nat (length (qitems q)) <=? i)%Z); cbn [fst app];
      apply app_nil_r.
  - cbn [fst snd qitems]. reflexivity.
  - cbn [fst app]. apply app_nil_r.
  - cbn [fst app]. apply app_nil_r.
Qed.

Lemma q_step_removed_matches : forall q o,
  removed_matches o (snd (q_step q o)) (q_removed q o).
Proof.
  intros q o. destruct o as [v| |k|n|i| | |]; cbn [q_step q_removed removed_matches].
  - reflexivity.
  - destruct (qitems q) as [|x t]; cbn [snd firstn]; reflexivity.
  - cbn [snd]. split; [reflexivity|]. rewrite length_firstn. lia.
  - cbn [snd]. rewrite length_firstn. split; [f_equal|]; lia.
  - reflexivity.
  - reflexivity.
  - reflexivity.
  - reflexivity.
Qed.

Lemma q_run_ghost_fifo : forall ops q,
  qitems q ++ accepted_writes ops (g_outs (q_run_ghost q ops)) =
  concat (g_removed (q_run_ghost q ops)) ++ qitems (g_final (q_run_ghost q ops)).
Proof.
  induction ops as [|o t IH]; intros q.
  - cbn. apply app_nil_r.
  - cbn [q_run_ghost]. pose proof (q_step_fifo q o) as Hstep.
    destruct (q_step q o) as [q1 y]. cbn [fst snd] in Hstep.
    pose proof (IH q1) as IH1.
    destruct (q_run_ghost q1 t) as [[xs rs] qf].
    unfold g_outs, g_removed, g_final, accepted_writes in *. cbn [fst snd] in *.
    cbn [zip_concat concat].
    rewrite app_assoc, Hstep, <- !app_assoc. f_equal. exact IH1.
Qed.

Lemma q_run_ghost_consistent : forall ops q,
  ghost_consistent ops (g_outs (q_run_ghost q ops)) (g_removed (q_run_ghost q ops)).
Proof.
  induction ops as [|o t IH]; intros q.
  - cbn. exact I.
  - cbn [q_run_ghost]. pose proof (q_step_removed_matches q o) as Hstep.
    destruct (q_step q o) as [q1 y]. cbn [snd] in Hstep.
    pose proof (IH q1) as IH1.
    destruct (q_run_ghost q1 t) as [[xs rs] qf].
    unfold g_outs, g_removed in *. cbn [fst snd] in *.
    cbn [ghost_consistent]. split; [exact Hstep | exact IH1].
Qed.

(** Headline 3: starting from the empty queue, the accepted writes are exactly
    the removed elements (read, skipped or cleared, in removal order) followed
    by the final content: nothing lost, nothing duplicated, order preserved;
    the ghost outputs are the specification's outputs; and each removed chunk
    is what the observable output of its step says it is. *)
Theorem queue_fifo : forall (size : nat) (ops : list op),
  let g := q_run_ghost (new_q size) ops in
  g_outs g = fst (q_run (new_q size) ops) /\
  g_final g = snd (q_run (new_q size) ops) /\
  ghost_consistent ops (g_outs g) (g_removed g) /\
  accepted_writes ops (g_outs g) = concat (g_removed g) ++ qitems (g_final g).
Proof.
  intros size ops g. subst g.
  destruct (q_run_ghost_agrees ops (new_q size)) as [Ho Hf].
  split; [exact Ho|]. split; [exact Hf|].
  split; [apply q_run_ghost_consistent|].
  exact (q_run_ghost_fifo ops (new_q size)).
Qed.

(** without [Skip]/[Clear] the statement needs no ghost state *)
Definition no_discard (o : op) : Prop :=
  match o with OSkip _ | OClear => False | _ => True end.

Lemma q_step_consumed : forall q o,
  no_discard o -> q_removed q o = consumed_one o (snd (q_step q o)).
Proof.
  intros q o Hnd. destruct o as [v| |k|n|i| | |];
    cbn [q_step q_removed consumed_one no_discard] in *; try reflexivity; try contradiction.
  destruct (qitems q) as [|x t]; reflexivity.
Qed.

Lemma q_run_fifo_observable : forall ops q,
  (forall o, In o ops -> no_discard o) ->
  qitems q ++ accepted_writes ops (fst (q_run q ops)) =
  consumed ops (fst (q_run q ops)) ++ qitems (snd (q_run q ops)).
Proof.
  induction ops as [|o t IH]; intros q Hnd.
  - cbn. apply app_nil_r.
  - cbn [q_run]. pose proof (q_step_fifo q o) as Hstep.
    pose proof (q_step_consumed q o (Hnd o (or_introl eq_refl))) as Hcons.
    destruct (q_step q o) as [q1 y]. cbn [fst snd] in Hstep, Hcons.
    pose proof (IH q1 (fun o' Hin => Hnd o' (or_intror Hin))) as IH1.
    destruct (q_run q1 t) as [ys qfin].
    unfold accepted_writes, consumed in *. cbn [fst snd] in *.
    cbn [zip_concat].
    rewrite app_assoc, Hstep, Hcons, <- !app_assoc. f_equal. exact IH1.
Qed.

Theorem queue_fifo_observable : forall (size : nat) (ops : list op),
  (forall o, In o ops -> no_discard o) ->
  accepted_writes ops (fst (q_run (new_q size) ops)) =
  consumed ops (fst (q_run (new_q size) ops)) ++ qitems (snd (q_run (new_q size) ops)).
Proof.
  intros size ops Hnd. exact (q_run_fifo_observable ops (new_q size) Hnd).
Qed.

(** ** The same at the level of the ring buffer *)

Theorem rb_fifo : forall (size : nat) (ops : list op),
  let r := rb_run (new_rb size) ops in
  let g := q_run_ghost (new_q size) ops in
  ghost_consistent ops (fst r) (g_removed g) /\
  accepted_writes ops (fst r) = concat (g_removed g) ++ rb_contents (snd r).
Proof.
  intros size ops r g. subst r g.
  destruct (queue_fifo size ops) as (Ho & Hf & Hcons & Hfifo).
  rewrite rb_refines_queue, rb_final_contents, <- Ho, <- Hf.
  split; [exact Hcons | exact Hfifo].
Qed.

Theorem rb_fifo_observable : forall (size : nat) (ops : list op),
  (forall o, In o ops -> no_discard o) ->
  let r := rb_run (new_rb size) ops in
  accepted_writes ops (fst r) = consumed ops (fst r) ++ rb_contents (snd r).
Proof.
  intros size ops Hnd r. subst r.
  rewrite rb_refines_queue, rb_final_contents.
  apply queue_fifo_observable. exact Hnd.
Qed.
