(** C09: linearizability of the concurrent cache LTS.

    [lin_replay]: for every accepted trace, the operations at the linearisation
    labels, replayed in trace order on the *sequential* cache model of C08,
    produce exactly the results the LTS leaves for the threads to return and
    exactly the delete callbacks of the run, and end in the same cache contents.
    [lin_shape]: in every accepted trace each thread's labels are a sequence of
    calls of the form  Invoke ; internal steps ; one linearisation label ;
    Return of the result left at the linearisation label  - so every call's
    linearisation point lies between its invocation and its response, and the
    order of the linearisation points respects the real-time order of calls. *)
From Coq Require Import List ZArith NArith Arith Bool Lia Permutation.
From GL Require Import spec.LRU model.ECache model.ECacheConc
                       proofs.C08_ECache proofs.C08_LRU proofs.C09_Invariants.
Import ListNotations.

Section Lin.
Context {PK K V : Type}.
Context (keqb : K -> K -> bool).
Context (keqb_spec : forall a b, reflect (a = b) (keqb a b)).
Context (kmap : PK -> K).
Context (expires : V -> Z).

Notation state := (cstate PK K V).

Definition seq_of (s : state) : ecache := mkEC (cs_items s) (cs_cap s).

Lemma deleted_dels_ev : forall d : list (PK * V), deleted (dels_ev d) = d.
Proof.
  induction d as [|[pk v] t IH]; cbn [dels_ev map deleted fst snd]; [reflexivity|].
  f_equal. exact IH.
Qed.

Lemma cdels_map : forall d : list (PK * V),
  cdels (map (fun x : PK * V => @CDel PK V (fst x) (snd x)) d) = d.
Proof.
  induction d as [|[pk v] t IH]; cbn [map cdels fst snd]; [reflexivity|]. f_equal. exact IH.
Qed.

Lemma cdels_app : forall a b : list (cev PK V), cdels (a ++ b) = cdels a ++ cdels b.
Proof.
  induction a as [|[t pk|pk v|t r] r' IH]; intros b; cbn [app cdels]; rewrite ?IH; reflexivity.
Qed.

(* one step against the sequential model *)
Lemma lin_step_sim : forall cap (s : state) l s' ev,
  inv keqb kmap cap s -> step keqb kmap s l = Some (s', ev) ->
  cs_cap s' = cs_cap s /\
  match lin_op keqb kmap s l with
  | Some (t, o) =>
      exists r evs, cs_pc s' t = PDone r /\ t = label_tid l /\
        ec_step keqb kmap expires (seq_of s) o = (seq_of s', (r, evs), false) /\
        deleted evs = cdels ev
  | None => cs_items s' = cs_items s /\ cdels ev = []
  end.
Proof.
  intros cap s l s' ev Hi Hs. unfold step in Hs. unfold lin_op, seq_of.
  destruct l as [t o|t|t res|t|t|t|t|t];
    destruct (cs_pc s t) as [|o'|pk ch|pk ch|pk ch r|r] eqn:Hpc; try discriminate Hs.
  - injection Hs as <- <-. cbn. auto.
  - destruct o' as [pk| |]; try discriminate Hs.
    destruct (sec_lookup keqb kmap (cs_items s) pk) as [[v it']|] eqn:Hl.
    + injection Hs as <- <-. cbn [cs_cap cs_items cs_pc]. split; [reflexivity|].
      exists (RVal v), []. rewrite upd_eq. split; [reflexivity|]. split; [reflexivity|].
      cbn [ec_step]. unfold ec_get. cbn [ec_items ec_cap]. rewrite Hl. auto.
    + destruct (inflight_get keqb (kmap pk) (cs_inflight s)); injection Hs as <- <-; cbn; auto.
  - injection Hs as <- <-. cbn. auto.
  - assert (Hmiss : sec_lookup keqb kmap (cs_items s) pk = None).
    { assert (Ho : owner_of (cs_pc s t) = Some (pk, ch)) by (rewrite Hpc; reflexivity).
      pose proof (ci_owner_reg _ _ _ _ _ (inv_ctl _ _ _ _ Hi) _ _ _ Ho) as Hin.
      pose proof (inv_not_resident _ _ _ _ Hi _ _ Hin) as Hnr.
      eapply lookup_miss. exact Hnr. }
    destruct r as [v|].
    + destruct (sec_insert keqb kmap (cs_cap s) (cs_items s) pk v) as [it' d] eqn:Hins.
      injection Hs as <- <-. cbn [cs_cap cs_items cs_pc]. split; [reflexivity|].
      exists (RVal v), (EvCreate pk (Some v) :: dels_ev d). rewrite upd_eq.
      split; [reflexivity|]. split; [reflexivity|].
      cbn [ec_step]. unfold ec_get. cbn [ec_items ec_cap]. rewrite Hmiss, Hins.
      split; [reflexivity|]. cbn [deleted]. rewrite deleted_dels_ev, cdels_map. reflexivity.
    + injection Hs as <- <-. cbn [cs_cap cs_items cs_pc]. split; [reflexivity|].
      exists RErr, [EvCreate pk None]. rewrite upd_eq.
      split; [reflexivity|]. split; [reflexivity|].
      cbn [ec_step]. unfold ec_get. cbn [ec_items ec_cap]. rewrite Hmiss. auto.
  - destruct (chan_closed s ch); [|discriminate Hs]. injection Hs as <- <-. cbn. auto.
  - destruct o' as [|pk|]; try discriminate Hs.
    destruct (sec_remove keqb kmap (cs_items s) pk) as [[it' b] d] eqn:Hr.
    injection Hs as <- <-. cbn [cs_cap cs_items cs_pc]. split; [reflexivity|].
    exists (RBool b), (dels_ev d). rewrite upd_eq. split; [reflexivity|]. split; [reflexivity|].
    cbn [ec_step]. unfold ec_remove. cbn [ec_items ec_cap]. rewrite Hr.
    split; [reflexivity|]. rewrite deleted_dels_ev, cdels_map. reflexivity.
  - destruct o' as [| |]; try discriminate Hs.
    destruct (sec_clear keqb (cs_items s)) as [[[it' n] d] oof] eqn:Hc.
    destruct oof; [discriminate Hs|]. injection Hs as <- <-.
    cbn [cs_cap cs_items cs_pc]. split; [reflexivity|].
    exists (RCount n), (dels_ev d). rewrite upd_eq. split; [reflexivity|]. split; [reflexivity|].
    cbn [ec_step]. unfold ec_clear. cbn [ec_items ec_cap]. rewrite Hc.
    split; [reflexivity|]. rewrite deleted_dels_ev, cdels_map. reflexivity.
  - injection Hs as <- <-. cbn. auto.
Qed.

Lemma tag_of_lin : forall (s s' : state) l t0 o r,
  lin_op keqb kmap s l = Some (t0, o) -> cs_pc s' t0 = PDone r ->
  tag_of keqb kmap s l s' = TLin o (Some r).
Proof.
  intros s s' l t0 o r Hlin Hpc. unfold tag_of.
  destruct l; try (rewrite Hlin, Hpc; reflexivity); unfold lin_op in Hlin; discriminate Hlin.
Qed.

Lemma tag_of_nonlin : forall (s s' : state) l t rest,
  lin_op keqb kmap s l = None ->
  lin_seq ((t, tag_of keqb kmap s l s') :: rest) = lin_seq rest.
Proof.
  intros s s' l t rest Hlin. unfold tag_of.
  destruct l; try (rewrite Hlin; reflexivity); cbn [lin_seq]; try reflexivity.
  destruct (cs_pc s t0); reflexivity.
Qed.

(* the replay theorem, from any state satisfying the invariant *)
Lemma lin_replay_from : forall cap tr (s s' : state) evs,
  inv keqb kmap cap s -> run_trace keqb kmap s tr = Some (s', evs) ->
  let L := lin_seq (tags keqb kmap s tr) in
  let '(outs, c, oof) := ec_run keqb kmap expires (seq_of s) (map (fun x => snd (fst x)) L) in
  map fst outs = map snd L /\
  deleted (all_events outs) = cdels evs /\
  c = seq_of s' /\ oof = false.
Proof.
  intros cap tr. induction tr as [|l t IH]; intros s s' evs Hi Hrun; cbn [run_trace tags] in *.
  - injection Hrun as <- <-. cbn. auto.
  - destruct (step keqb kmap s l) as [[s1 ev]|] eqn:Hs; [|discriminate].
    destruct (run_trace keqb kmap s1 t) as [[sf evs']|] eqn:Hrt; [|discriminate].
    injection Hrun as <- <-.
    pose proof (inv_step keqb keqb_spec kmap cap s l s1 ev Hi Hs) as Hi1.
    specialize (IH s1 sf evs' Hi1 Hrt). cbn zeta in IH.
    destruct (lin_step_sim cap s l s1 ev Hi Hs) as [Hcap Hl].
    destruct (lin_op keqb kmap s l) as [[t0 o]|] eqn:Hlin.
    + destruct Hl as [r [evo [Hpc1 [Ht0 [Hstep Hdel]]]]].
      rewrite (tag_of_lin s s1 l t0 o r Hlin Hpc1).
      cbn [lin_seq map fst snd ec_run]. rewrite Hstep.
      destruct (ec_run keqb kmap expires (seq_of s1)
                  (map (fun x => snd (fst x)) (lin_seq (tags keqb kmap s1 t)))) as [[xs cf] oof'].
      destruct IH as [H1 [H2 [H3 H4]]]. cbn [map fst snd orb].
      split; [f_equal; exact H1|]. split; [|auto].
      unfold all_events. cbn [map snd concat]. rewrite deleted_app, cdels_app.
      f_equal; [exact Hdel|exact H2].
    + destruct Hl as [Hitems Hdel].
      rewrite (tag_of_nonlin s s1 l (label_tid l) _ Hlin).
      assert (Hseq : seq_of s1 = seq_of s) by (unfold seq_of; rewrite Hitems, Hcap; reflexivity).
      rewrite <- Hseq.
      destruct (ec_run keqb kmap expires (seq_of s1)
                  (map (fun x => snd (fst x)) (lin_seq (tags keqb kmap s1 t)))) as [[xs cf] oof'].
      destruct IH as [H1 [H2 [H3 H4]]]. split; [exact H1|]. split; [|auto].
      rewrite cdels_app, Hdel. exact H2.
Qed.

Theorem lin_replay : forall cap tr (s' : state) evs,
  run_trace keqb kmap (cs_init cap) tr = Some (s', evs) ->
  let L := lin_seq (tags keqb kmap (cs_init cap) tr) in
  let '(outs, c, oof) := ec_run keqb kmap expires (ec_new cap) (map (fun x => snd (fst x)) L) in
  map fst outs = map snd L /\
  deleted (all_events outs) = cdels evs /\
  ec_items c = cs_items s' /\ oof = false.
Proof.
  intros cap tr s' evs Hrun.
  pose proof (lin_replay_from cap tr (cs_init cap) s' evs (inv_init keqb kmap cap) Hrun) as H.
  cbn zeta in *. change (seq_of (cs_init cap)) with (@ec_new PK K V cap) in H.
  destruct (ec_run keqb kmap expires (ec_new cap)
              (map (fun x => snd (fst x)) (lin_seq (tags keqb kmap (cs_init cap) tr)))) as [[outs c] oof].
  destruct H as [H1 [H2 [H3 H4]]]. subst c. auto.
Qed.

(** ** the shape of each thread's history *)

Lemma step_other : forall (s : state) l s' ev t,
  step keqb kmap s l = Some (s', ev) -> t <> label_tid l -> cs_pc s' t = cs_pc s t.
Proof.
  intros s l s' ev t Hs Hn. unfold step in Hs.
  destruct l as [t0 o|t0|t0 res|t0|t0|t0|t0|t0]; cbn [label_tid] in Hn;
    destruct (cs_pc s t0) as [|o'|pk ch|pk ch|pk ch r|r]; try discriminate Hs.
  - injection Hs as <- _. cbn [cs_pc]. apply upd_neq. exact Hn.
  - destruct o' as [pk| |]; try discriminate Hs.
    destruct (sec_lookup keqb kmap (cs_items s) pk) as [[v it']|].
    + injection Hs as <- _. cbn [cs_pc]. apply upd_neq. exact Hn.
    + destruct (inflight_get keqb (kmap pk) (cs_inflight s)); injection Hs as <- _;
        cbn [cs_pc set_pc]; apply upd_neq; exact Hn.
  - injection Hs as <- _. cbn [cs_pc]. apply upd_neq. exact Hn.
  - destruct r as [v|].
    + destruct (sec_insert keqb kmap (cs_cap s) (cs_items s) pk v) as [it' d].
      injection Hs as <- _. cbn [cs_pc]. apply upd_neq. exact Hn.
    + injection Hs as <- _. cbn [cs_pc]. apply upd_neq. exact Hn.
  - destruct (chan_closed s ch); [|discriminate Hs]. injection Hs as <- _.
    cbn [cs_pc set_pc]. apply upd_neq. exact Hn.
  - destruct o' as [|pk|]; try discriminate Hs.
    destruct (sec_remove keqb kmap (cs_items s) pk) as [[it' b] d].
    injection Hs as <- _. cbn [cs_pc]. apply upd_neq. exact Hn.
  - destruct o' as [| |]; try discriminate Hs.
    destruct (sec_clear keqb (cs_items s)) as [[[it' n] d] oof]. destruct oof; [discriminate Hs|].
    injection Hs as <- _. cbn [cs_pc]. apply upd_neq. exact Hn.
  - injection Hs as <- _. cbn [cs_pc set_pc]. apply upd_neq. exact Hn.
Qed.

(* what a step does to the phase of its own thread *)
Lemma step_phase : forall (s : state) l s' ev,
  step keqb kmap s l = Some (s', ev) ->
  let t := label_tid l in
  match tag_of keqb kmap s l s' with
  | TInv _ => phase_of (cs_pc s t) = PhOut /\ phase_of (cs_pc s' t) = PhIn
  | TInt => phase_of (cs_pc s t) = PhIn /\ phase_of (cs_pc s' t) = PhIn
  | TLin _ (Some x) => phase_of (cs_pc s t) = PhIn /\ phase_of (cs_pc s' t) = PhLin x
  | TLin _ None => False
  | TRet y => phase_of (cs_pc s t) = PhLin y /\ phase_of (cs_pc s' t) = PhOut
  end.
Proof.
  intros s l s' ev Hs. unfold step in Hs. unfold tag_of, lin_op.
  destruct l as [t0 o|t0|t0 res|t0|t0|t0|t0|t0]; cbn [label_tid];
    destruct (cs_pc s t0) as [|o'|pk ch|pk ch|pk ch r|r] eqn:Hpc; try discriminate Hs.
  - injection Hs as <- _. cbn [cs_pc]. rewrite upd_eq. cbn. auto.
  - destruct o' as [pk| |]; try discriminate Hs.
    destruct (sec_lookup keqb kmap (cs_items s) pk) as [[v it']|].
    + injection Hs as <- _. cbn [cs_pc]. rewrite upd_eq. cbn. auto.
    + destruct (inflight_get keqb (kmap pk) (cs_inflight s)); injection Hs as <- _;
        cbn [cs_pc set_pc]; rewrite upd_eq; cbn; auto.
  - injection Hs as <- _. cbn [cs_pc]. rewrite upd_eq. cbn. auto.
  - destruct r as [v|].
    + destruct (sec_insert keqb kmap (cs_cap s) (cs_items s) pk v) as [it' d].
      injection Hs as <- _. cbn [cs_pc]. rewrite upd_eq. cbn. auto.
    + injection Hs as <- _. cbn [cs_pc]. rewrite upd_eq. cbn. auto.
  - destruct (chan_closed s ch); [|discriminate Hs]. injection Hs as <- _.
    cbn [cs_pc set_pc]. rewrite upd_eq. cbn. auto.
  - destruct o' as [|pk|]; try discriminate Hs.
    destruct (sec_remove keqb kmap (cs_items s) pk) as [[it' b] d].
    injection Hs as <- _. cbn [cs_pc]. rewrite upd_eq. cbn. auto.
  - destruct o' as [| |]; try discriminate Hs.
    destruct (sec_clear keqb (cs_items s)) as [[[it' n] d] oof]. destruct oof; [discriminate Hs|].
    injection Hs as <- _. cbn [cs_pc]. rewrite upd_eq. cbn. auto.
  - injection Hs as <- _. cbn [cs_pc set_pc]. rewrite upd_eq. cbn. auto.
Qed.

Lemma lin_shape_from : forall tr (s s' : state) evs t,
  run_trace keqb kmap s tr = Some (s', evs) ->
  shape (phase_of (cs_pc s t)) (thread_tags t (tags keqb kmap s tr)).
Proof.
  induction tr as [|l r IH]; intros s s' evs t Hrun; cbn [run_trace tags] in *.
  - cbn. exact I.
  - destruct (step keqb kmap s l) as [[s1 ev]|] eqn:Hs; [|discriminate].
    destruct (run_trace keqb kmap s1 r) as [[sf evs']|] eqn:Hrt; [|discriminate].
    specialize (IH s1 sf evs' t Hrt).
    unfold thread_tags in *. cbn [filter fst].
    destruct (Nat.eqb_spec (label_tid l) t) as [He|Hn].
    + cbn [map snd shape]. pose proof (step_phase s l s1 ev Hs) as Hp. cbn zeta in Hp.
      rewrite He in Hp.
      destruct (tag_of keqb kmap s l s1) as [o|o [x|]|y|]; try contradiction;
        destruct Hp as [Hp1 Hp2]; rewrite Hp1; rewrite Hp2 in IH; auto.
    + rewrite <- (step_other s l s1 ev t Hs) by (intros Hc; apply Hn; symmetry; exact Hc). exact IH.
Qed.

Theorem lin_shape : forall cap tr (s' : state) evs t,
  run_trace keqb kmap (cs_init cap) tr = Some (s', evs) ->
  shape PhOut (thread_tags t (tags keqb kmap (cs_init cap) tr)).
Proof.
  intros cap tr s' evs t Hrun.
  apply (lin_shape_from tr (cs_init cap) s' evs t Hrun).
Qed.

(* what a Return label hands back is what the events say was returned *)
Lemma returns_are_events : forall tr (s s' : state) evs,
  run_trace keqb kmap s tr = Some (s', evs) ->
  flat_map (fun e => match e with CRet t r => [(t, r)] | _ => [] end) evs
  = flat_map (fun x => match snd x with TRet r => [(fst x, r)] | _ => [] end) (tags keqb kmap s tr).
Proof.
  induction tr as [|l r IH]; intros s s' evs Hrun; cbn [run_trace tags] in *.
  - injection Hrun as _ <-. reflexivity.
  - destruct (step keqb kmap s l) as [[s1 ev]|] eqn:Hs; [|discriminate].
    destruct (run_trace keqb kmap s1 r) as [[sf evs']|] eqn:Hrt; [|discriminate].
    injection Hrun as _ <-. rewrite flat_map_app. cbn [flat_map fst snd].
    rewrite (IH s1 sf evs' Hrt). f_equal.
    unfold step in Hs. unfold tag_of, lin_op.
    destruct l as [t0 o|t0|t0 res|t0|t0|t0|t0|t0]; cbn [label_tid];
      destruct (cs_pc s t0) as [|o'|pk ch|pk ch|pk ch r0|r0] eqn:Hpc; try discriminate Hs.
    + injection Hs as _ <-. reflexivity.
    + destruct o' as [pk| |]; try discriminate Hs.
      destruct (sec_lookup keqb kmap (cs_items s) pk) as [[v it']|].
      * injection Hs as _ <-. reflexivity.
      * destruct (inflight_get keqb (kmap pk) (cs_inflight s)); injection Hs as _ <-; reflexivity.
    + injection Hs as _ <-. reflexivity.
    + destruct r0 as [v|].
      * destruct (sec_insert keqb kmap (cs_cap s) (cs_items s) pk v) as [it' d].
        injection Hs as _ <-. clear. induction d as [|x d IH]; [reflexivity|exact IH].
      * injection Hs as _ <-. reflexivity.
    + destruct (chan_closed s ch); [|discriminate Hs]. injection Hs as _ <-. reflexivity.
    + destruct o' as [|pk|]; try discriminate Hs.
      destruct (sec_remove keqb kmap (cs_items s) pk) as [[it' b] d].
      injection Hs as _ <-. clear. induction d as [|x d IH]; [reflexivity|exact IH].
    + destruct o' as [| |]; try discriminate Hs.
      destruct (sec_clear keqb (cs_items s)) as [[[it' n] d] oof]. destruct oof; [discriminate Hs|].
      injection Hs as _ <-. clear. induction d as [|x d IH]; [reflexivity|exact IH].
    + injection Hs as _ <-. reflexivity.
Qed.

End Lin.
