(** C12, part 3: container/heap keeps the futures slice heap-ordered by fireT
    (the sift-up / sift-down arguments for the transcription in model/THeap.v);
    the head is a minimum. *)
From Coq Require Import List ZArith NArith Bool Lia Arith.
From Coq Require Import ZifyBool ZifyNat.
From GL Require Import model.THeap proofs.C12_THeap.
Import ListNotations.
Open Scope Z_scope.
Ltac Zify.zify_post_hook ::= Z.div_mod_to_equations.

(* fire time of the future in slot k *)
Definition ft (h : fheap) (k : nat) : Z := fireT (get (hs h) (anth (arr h) k)).

(* parent of slot k *)
Definition par (k : nat) : nat := ((k - 1) / 2)%nat.

Definition heap_ord (n : nat) (h : fheap) : Prop :=
  forall k, (0 < k < n)%nat -> ft h (par k) <= ft h k.

Lemma par_lt : forall k, (0 < k)%nat -> (par k < k)%nat.
Proof. intros k H. unfold par. lia. Qed.

Lemma par_children : forall k i, (0 < k)%nat -> (par k = i <-> k = 2 * i + 1 \/ k = 2 * i + 2)%nat.
Proof. intros k i H. unfold par. lia. Qed.

Lemma quot_par : forall j : nat, (0 < j)%nat -> Z.quot (Z.of_nat j - 1) 2 = Z.of_nat (par j).
Proof.
  intros j H. rewrite Z.quot_div_nonneg by lia. unfold par. lia.
Qed.

Lemma less_ft : forall h i j, f_less h i j = (ft h (Z.to_nat i) <? ft h (Z.to_nat j)).
Proof. reflexivity. Qed.

Lemma ft_swap : forall h i j k, in_range h i = true -> in_range h j = true ->
  ft (f_swap h i j) k =
    if Nat.eqb k (Z.to_nat j) then ft h (Z.to_nat i)
    else if Nat.eqb k (Z.to_nat i) then ft h (Z.to_nat j) else ft h k.
Proof.
  intros h i j k Hi Hj. unfold ft.
  destruct (swap_same_data h i j (anth (arr (f_swap h i j)) k)) as [E _]. rewrite E.
  destruct (swap_arr h i j Hi Hj) as [_ Hn]. rewrite Hn.
  destruct (Nat.eqb k (Z.to_nat j)); [reflexivity|].
  destruct (Nat.eqb k (Z.to_nat i)); reflexivity.
Qed.

(* nat-indexed form *)
Lemma ft_swap_nat : forall h (i j k : nat), (i < length (arr h))%nat -> (j < length (arr h))%nat ->
  ft (f_swap h (Z.of_nat i) (Z.of_nat j)) k =
    if Nat.eqb k j then ft h i else if Nat.eqb k i then ft h j else ft h k.
Proof.
  intros h i j k Hi Hj.
  rewrite ft_swap by (apply in_range_intro; unfold f_len; lia).
  rewrite !Nat2Z.id. reflexivity.
Qed.

(** * up *)

Definition up_inv (n : nat) (h : fheap) (j : nat) : Prop :=
  (forall k, (0 < k < n)%nat -> k <> j -> ft h (par k) <= ft h k) /\
  (forall k, (0 < k < n)%nat -> par k = j -> (0 < j)%nat -> ft h (par j) <= ft h k).

Lemma up_ord : forall fuel h (j n : nat),
  (j < n)%nat -> (n <= length (arr h))%nat -> (j < fuel)%nat ->
  up_inv n h j -> heap_ord n (up fuel h (Z.of_nat j)).
Proof.
  induction fuel as [|f IH]; intros h j n Hjn Hn Hf [I1 I2]; [lia|].
  cbn [up].
  destruct (Nat.eq_dec j 0) as [->|Hj0].
  { cbn. intros k Hk. apply I1; lia. }
  rewrite quot_par by lia.
  pose proof (par_lt j ltac:(lia)) as Hp.
  set (pj := par j) in *.
  destruct (Z.of_nat pj =? Z.of_nat j) eqn:E; [apply Z.eqb_eq in E; lia|]. cbn [orb].
  rewrite less_ft, !Nat2Z.id.
  destruct (ft h j <? ft h pj) eqn:L; cbn [negb].
  2:{ apply Z.ltb_ge in L. intros k Hk. destruct (Nat.eq_dec k j) as [->|Hne]; [exact L|apply I1; assumption]. }
  apply Z.ltb_lt in L.
  assert (Hsw : forall k, ft (f_swap h (Z.of_nat pj) (Z.of_nat j)) k =
                  if Nat.eqb k j then ft h pj else if Nat.eqb k pj then ft h j else ft h k).
  { intros k. apply ft_swap_nat; lia. }
  apply IH; try lia.
  { rewrite swap_length. exact Hn. }
  split.
  - intros k Hk Hne. rewrite !Hsw.
    destruct (Nat.eqb_spec k pj) as [->|_]; [contradiction|].
    destruct (Nat.eqb_spec k j) as [->|Hkj].
    + fold pj. destruct (Nat.eqb_spec pj j); [lia|]. rewrite Nat.eqb_refl. lia.
    + destruct (Nat.eqb_spec (par k) j) as [Epk|Npk].
      * apply (I2 k Hk Epk). lia.
      * destruct (Nat.eqb_spec (par k) pj) as [Epp|Npp].
        -- specialize (I1 k Hk Hkj). rewrite Epp in I1. lia.
        -- apply I1; assumption.
  - intros k Hk Epk Hpj0. rewrite !Hsw.
    pose proof (par_lt pj Hpj0) as Hpp.
    destruct (Nat.eqb_spec (par pj) j); [lia|]. destruct (Nat.eqb_spec (par pj) pj); [lia|].
    assert (A : ft h (par pj) <= ft h pj) by (apply I1; lia).
    destruct (Nat.eqb_spec k j) as [->|Hkj]; [exact A|].
    destruct (Nat.eqb_spec k pj) as [->|Hkp].
    + pose proof (par_lt pj Hpj0). lia.
    + specialize (I1 k Hk Hkj). rewrite Epk in I1. lia.
Qed.

(** * down *)

Definition down_inv (n : nat) (h : fheap) (i : nat) : Prop :=
  (forall k, (0 < k < n)%nat -> par k <> i -> ft h (par k) <= ft h k) /\
  (forall k, (0 < k < n)%nat -> par k = i -> (0 < i)%nat -> ft h (par i) <= ft h k).

(* the weaker precondition of Remove / Fix: nothing is known about (parent i, i) *)
Definition down_inv_weak (n : nat) (h : fheap) (i : nat) : Prop :=
  (forall k, (0 < k < n)%nat -> par k <> i -> k <> i -> ft h (par k) <= ft h k) /\
  (forall k, (0 < k < n)%nat -> par k = i -> (0 < i)%nat -> ft h (par i) <= ft h k).

(* one iteration: which child is chosen, and what the tests say *)
Lemma down_choice : forall h (i n : nat), (2 * i + 1 < n)%nat ->
  let j := if (Z.of_nat (2 * i + 1) + 1 <? Z.of_nat n) && f_less h (Z.of_nat (2 * i + 1) + 1) (Z.of_nat (2 * i + 1))
           then Z.of_nat (2 * i + 1) + 1 else Z.of_nat (2 * i + 1) in
  exists jn : nat, j = Z.of_nat jn /\ (jn = 2 * i + 1 \/ jn = 2 * i + 2)%nat /\ (jn < n)%nat /\
    (forall k, (0 < k < n)%nat -> par k = i -> ft h jn <= ft h k).
Proof.
  intros h i n H1. cbv zeta.
  destruct (Z.of_nat (2 * i + 1) + 1 <? Z.of_nat n) eqn:E2; cbn [andb].
  - apply Z.ltb_lt in E2.
    rewrite less_ft. replace (Z.to_nat (Z.of_nat (2 * i + 1) + 1)) with (2 * i + 2)%nat by lia.
    rewrite Nat2Z.id.
    destruct (ft h (2 * i + 2) <? ft h (2 * i + 1)) eqn:L.
    + apply Z.ltb_lt in L. exists (2 * i + 2)%nat. split; [lia|]. split; [lia|]. split; [lia|].
      intros k Hk Ep. apply par_children in Ep; [|lia]. destruct Ep as [->| ->]; lia.
    + apply Z.ltb_ge in L. exists (2 * i + 1)%nat. split; [lia|]. split; [lia|]. split; [lia|].
      intros k Hk Ep. apply par_children in Ep; [|lia]. destruct Ep as [->| ->]; lia.
  - apply Z.ltb_ge in E2. exists (2 * i + 1)%nat. split; [lia|]. split; [lia|]. split; [lia|].
    intros k Hk Ep. apply par_children in Ep; [|lia]. destruct Ep as [->| ->]; lia.
Qed.

(* after the swap with the smaller child the strong invariant holds one level down; only
   the weak invariant is needed before *)
Lemma down_swap_inv : forall h (i jn n : nat),
  (n <= length (arr h))%nat -> (jn < n)%nat -> (jn = 2 * i + 1 \/ jn = 2 * i + 2)%nat ->
  down_inv_weak n h i ->
  (forall k, (0 < k < n)%nat -> par k = i -> ft h jn <= ft h k) ->
  ft h jn < ft h i ->
  down_inv n (f_swap h (Z.of_nat i) (Z.of_nat jn)) jn.
Proof.
  intros h i jn n Hn Hj Hc [I1 I2] Hmin L.
  assert (Hpj : par jn = i) by (apply par_children; lia).
  assert (Hsw : forall k, ft (f_swap h (Z.of_nat i) (Z.of_nat jn)) k =
                  if Nat.eqb k jn then ft h i else if Nat.eqb k i then ft h jn else ft h k).
  { intros k. apply ft_swap_nat; lia. }
  split.
  - intros k Hk Hne. rewrite !Hsw.
    destruct (Nat.eqb_spec (par k) jn); [contradiction|].
    destruct (Nat.eqb_spec k jn) as [->|Hkj].
    + rewrite Hpj. destruct (Nat.eqb_spec i jn); [lia|]. rewrite Nat.eqb_refl. lia.
    + destruct (Nat.eqb_spec k i) as [->|Hki].
      * (* the new occupant of i against i's parent *)
        assert (Hi0 : (0 < i)%nat) by lia.
        pose proof (par_lt i Hi0).
        destruct (Nat.eqb_spec (par i) i); [lia|].
        apply (I2 jn); lia.
      * destruct (Nat.eqb_spec (par k) i) as [Epk|Npk].
        -- apply Hmin; assumption.
        -- apply I1; assumption.
  - intros k Hk Epk Hj0. rewrite !Hsw. rewrite Hpj.
    destruct (Nat.eqb_spec i jn); [lia|]. rewrite Nat.eqb_refl.
    pose proof (par_lt k ltac:(lia)).
    destruct (Nat.eqb_spec k jn); [lia|]. destruct (Nat.eqb_spec k i); [lia|].
    specialize (I1 k Hk ltac:(lia) ltac:(lia)). rewrite Epk in I1. exact I1.
Qed.

Lemma down_inv_weaken : forall n h i, down_inv n h i -> down_inv_weak n h i.
Proof. intros n h i [A B]. split; [intros k Hk H1 _; apply A; assumption|exact B]. Qed.

Lemma down_loop_ord : forall fuel h (i n : nat),
  (n <= length (arr h))%nat -> (n - i < fuel)%nat ->
  down_inv n h i -> heap_ord n (fst (down_loop fuel h (Z.of_nat i) (Z.of_nat n))).
Proof.
  induction fuel as [|f IH]; intros h i n Hn Hf Hinv; [lia|].
  cbn [down_loop].
  destruct ((2 * Z.of_nat i + 1 >=? Z.of_nat n) || (2 * Z.of_nat i + 1 <? 0)) eqn:C.
  { cbn [fst]. destruct Hinv as [I1 _]. intros k Hk. apply I1; [exact Hk|].
    intros Ep. apply par_children in Ep; lia. }
  assert (H1 : (2 * i + 1 < n)%nat) by lia.
  replace (2 * Z.of_nat i + 1) with (Z.of_nat (2 * i + 1)) by lia.
  destruct (down_choice h i n H1) as [jn [Ej [Hc [Hjn Hmin]]]]. cbv zeta in Ej. rewrite Ej.
  rewrite less_ft, !Nat2Z.id.
  destruct (ft h jn <? ft h i) eqn:L; cbn [negb].
  - apply Z.ltb_lt in L. apply IH.
    + rewrite swap_length. exact Hn.
    + lia.
    + apply down_swap_inv; auto. apply down_inv_weaken. exact Hinv.
  - apply Z.ltb_ge in L. cbn [fst]. destruct Hinv as [I1 _]. intros k Hk.
    destruct (Nat.eq_dec (par k) i) as [Ep|Np]; [|apply I1; assumption].
    rewrite Ep. specialize (Hmin k Hk Ep). lia.
Qed.

(* from the weak invariant: either nothing moved and i's children are fine, or the slice
   (below n) is a heap *)
Lemma down_loop_weak : forall fuel h (i n : nat),
  (n <= length (arr h))%nat -> (n - i < fuel)%nat -> down_inv_weak n h i ->
  let r := down_loop fuel h (Z.of_nat i) (Z.of_nat n) in
  (snd r = Z.of_nat i /\ fst r = h /\ forall k, (0 < k < n)%nat -> par k = i -> ft h i <= ft h k) \/
  (Z.of_nat i < snd r /\ heap_ord n (fst r)).
Proof.
  intros fuel h i n Hn Hf Hinv. destruct fuel as [|f]; [lia|].
  cbn [down_loop].
  destruct ((2 * Z.of_nat i + 1 >=? Z.of_nat n) || (2 * Z.of_nat i + 1 <? 0)) eqn:C.
  { left. cbn [fst snd]. repeat split. intros k Hk Ep. apply par_children in Ep; lia. }
  assert (H1 : (2 * i + 1 < n)%nat) by lia.
  replace (2 * Z.of_nat i + 1) with (Z.of_nat (2 * i + 1)) by lia.
  destruct (down_choice h i n H1) as [jn [Ej [Hc [Hjn Hmin]]]]. cbv zeta in Ej. rewrite Ej.
  rewrite less_ft, !Nat2Z.id.
  destruct (ft h jn <? ft h i) eqn:L; cbn [negb].
  - apply Z.ltb_lt in L. right.
    assert (Hs : down_inv n (f_swap h (Z.of_nat i) (Z.of_nat jn)) jn) by (apply down_swap_inv; auto).
    split.
    + destruct (down_loop_shuffle f (f_swap h (Z.of_nat i) (Z.of_nat jn)) (Z.of_nat jn) (Z.of_nat n)) as [_ Hle]; try lia.
      rewrite swap_f_len. unfold f_len. lia.
    + apply down_loop_ord; [rewrite swap_length; exact Hn|lia|exact Hs].
  - apply Z.ltb_ge in L. left. cbn [fst snd]. repeat split.
    intros k Hk Ep. specialize (Hmin k Hk Ep). lia.
Qed.

(** * f_pop and f_push keep the order of the remaining slots *)

Lemma ft_pop : forall h k, (k < length (arr h) - 1)%nat -> ft (fst (f_pop h)) k = ft h k.
Proof.
  intros h k Hk. assert (Hne : arr h <> []) by (destruct (arr h); [cbn in Hk; lia|discriminate]).
  rewrite (pop_spec h Hne). cbn [fst]. unfold ft. cbn [arr hs].
  rewrite anth_removelast by exact Hk. apply fireT_set_idx.
Qed.

Lemma heap_ord_pop : forall h n, length (arr h) = S n -> heap_ord n h -> heap_ord n (fst (f_pop h)).
Proof.
  intros h n Hl Ho k Hk. pose proof (par_lt k ltac:(lia)).
  rewrite !ft_pop by lia. apply Ho. exact Hk.
Qed.

Lemma ft_push : forall h x k, (k < length (arr h))%nat -> ft (f_push h x) k = ft h k.
Proof.
  intros h x k Hk. unfold ft, f_push. cbn [arr hs]. unfold anth. rewrite app_nth1 by exact Hk.
  apply fireT_set_idx.
Qed.

(** * the operations *)

Definition heap_ordered (h : fheap) : Prop := heap_ord (length (arr h)) h.

Theorem heap_ordered_push : forall h x, heap_ordered h -> heap_ordered (heap_push h x).
Proof.
  intros h x Ho. unfold heap_push, heap_ordered.
  set (h1 := f_push h x).
  assert (Hl1 : length (arr h1) = S (length (arr h))) by (unfold h1, f_push; cbn [arr]; rewrite app_length; cbn; lia).
  assert (Hlen : length (arr (up (fuel_of h1) h1 (f_len h1 - 1))) = length (arr h1)).
  { apply (sh_len (length (arr h1))). apply up_shuffle; unfold f_len, fuel_of; lia. }
  rewrite Hlen.
  replace (f_len h1 - 1) with (Z.of_nat (length (arr h))) by (unfold f_len; lia).
  apply up_ord; unfold fuel_of; try lia.
  split.
  - intros k Hk Hne. pose proof (par_lt k ltac:(lia)).
    unfold h1. rewrite !ft_push by lia. apply Ho. lia.
  - intros k Hk Ep H0. apply par_children in Ep; lia.
Qed.

Theorem heap_ordered_pop : forall h, arr h <> [] -> heap_ordered h -> heap_ordered (fst (heap_pop h)).
Proof.
  intros h Hne Ho. unfold heap_pop, heap_ordered.
  assert (Hlen : (0 < length (arr h))%nat) by (destruct (arr h); [contradiction|cbn; lia]).
  set (n := (length (arr h) - 1)%nat).
  replace (f_len h - 1) with (Z.of_nat n) by (unfold f_len, n; lia).
  set (h1 := f_swap h 0 (Z.of_nat n)).
  assert (Hl1 : length (arr h1) = S n) by (unfold h1; rewrite swap_length; unfold n; lia).
  assert (Hinv : down_inv n h1 0).
  { split; [|intros; lia]. intros k Hk Hp. pose proof (par_lt k ltac:(lia)).
    unfold h1. change 0 with (Z.of_nat 0). rewrite !ft_swap_nat by (unfold n in *; lia).
    destruct (Nat.eqb_spec (par k) n); [lia|]. destruct (Nat.eqb_spec (par k) 0); [lia|].
    destruct (Nat.eqb_spec k n); [lia|]. destruct (Nat.eqb_spec k 0); [lia|].
    apply Ho. unfold n in *. lia. }
  unfold down. change 0 with (Z.of_nat 0).
  pose proof (down_loop_ord (fuel_of h1) h1 0 n ltac:(lia) ltac:(unfold fuel_of; lia) Hinv) as Hord.
  pose proof (down_loop_shuffle (fuel_of h1) h1 (Z.of_nat 0) (Z.of_nat n) ltac:(lia)
                ltac:(unfold f_len; lia) ltac:(unfold fuel_of; lia)) as [Sh _].
  destruct (down_loop (fuel_of h1) h1 (Z.of_nat 0) (Z.of_nat n)) as [h2 i2]. cbn [fst] in *.
  assert (Hl2 : length (arr h2) = S n) by (rewrite (sh_len _ _ _ Sh); exact Hl1).
  assert (Hl3 : length (arr (fst (f_pop h2))) = n).
  { assert (Hne2 : arr h2 <> []) by (destruct (arr h2); [discriminate|discriminate]).
    rewrite (pop_spec h2 Hne2). cbn [fst arr]. rewrite removelast_length. lia. }
  rewrite Hl3. apply heap_ord_pop; assumption.
Qed.

Theorem heap_ordered_remove : forall h i, in_range h i = true -> heap_ordered h ->
  heap_ordered (fst (heap_remove h i)).
Proof.
  intros h i Ri Ho. unfold heap_remove, heap_ordered.
  destruct (in_range_nat _ _ Ri) as [Hi0 [Li Ei]].
  set (n := (length (arr h) - 1)%nat).
  replace (f_len h - 1) with (Z.of_nat n) by (unfold f_len, n; lia).
  set (inn := Z.to_nat i) in *. rewrite <- Ei.
  assert (Hpoplen : forall h', length (arr h') = S n -> length (arr (fst (f_pop h'))) = n).
  { intros h' Hl. assert (Hne2 : arr h' <> []) by (destruct (arr h'); [discriminate|discriminate]).
    rewrite (pop_spec h' Hne2). cbn [fst arr]. rewrite removelast_length. lia. }
  destruct (negb (Z.of_nat n =? Z.of_nat inn)) eqn:C.
  - apply negb_true_iff, Z.eqb_neq in C.
    assert (Hin : (inn < n)%nat) by (unfold n in *; lia).
    set (h1 := f_swap h (Z.of_nat inn) (Z.of_nat n)).
    assert (Hl1 : length (arr h1) = S n) by (unfold h1; rewrite swap_length; unfold n; lia).
    assert (Hsw : forall k, ft h1 k = if Nat.eqb k n then ft h inn else if Nat.eqb k inn then ft h n else ft h k).
    { intros k. unfold h1. apply ft_swap_nat; unfold n in *; lia. }
    assert (Hinv : down_inv_weak n h1 inn).
    { split.
      - intros k Hk Hp Hki. pose proof (par_lt k ltac:(lia)). rewrite !Hsw.
        destruct (Nat.eqb_spec (par k) n); [lia|]. destruct (Nat.eqb_spec (par k) inn); [lia|].
        destruct (Nat.eqb_spec k n); [lia|]. destruct (Nat.eqb_spec k inn); [lia|].
        apply Ho. unfold n in *. lia.
      - intros k Hk Ep H0. pose proof (par_lt k ltac:(lia)). pose proof (par_lt inn H0). rewrite !Hsw.
        destruct (Nat.eqb_spec (par inn) n); [lia|]. destruct (Nat.eqb_spec (par inn) inn); [lia|].
        destruct (Nat.eqb_spec k n); [lia|]. destruct (Nat.eqb_spec k inn); [lia|].
        assert (A : ft h (par inn) <= ft h inn) by (apply Ho; unfold n in *; lia).
        assert (B : ft h (par k) <= ft h k) by (apply Ho; unfold n in *; lia).
        rewrite Ep in B. lia. }
    unfold down.
    pose proof (down_loop_weak (fuel_of h1) h1 inn n ltac:(lia) ltac:(unfold fuel_of; lia) Hinv) as Hd.
    pose proof (down_loop_shuffle (fuel_of h1) h1 (Z.of_nat inn) (Z.of_nat n) ltac:(lia)
                  ltac:(unfold f_len; lia) ltac:(unfold fuel_of; lia)) as [Sh _].
    destruct (down_loop (fuel_of h1) h1 (Z.of_nat inn) (Z.of_nat n)) as [h2 i2]. cbn [fst snd] in *.
    assert (Hl2 : length (arr h2) = S n) by (rewrite (sh_len _ _ _ Sh); exact Hl1).
    destruct Hd as [[Ei2 [Eh2 Hch]]|[Hlt Hord]].
    + subst i2 h2. rewrite Z.ltb_irrefl. cbn [negb].
      assert (Hup : heap_ord n (up (fuel_of h1) h1 (Z.of_nat inn))).
      { apply up_ord; unfold fuel_of; try lia. destruct Hinv as [I1 I2]. split.
        - intros k Hk Hne. destruct (Nat.eq_dec (par k) inn) as [Ep|Np].
          + rewrite Ep. apply Hch; assumption.
          + apply I1; assumption.
        - exact I2. }
      assert (Hlu : length (arr (up (fuel_of h1) h1 (Z.of_nat inn))) = S n).
      { rewrite (sh_len (S n) h1); [exact Hl1|]. apply up_shuffle; unfold fuel_of; lia. }
      rewrite (Hpoplen _ Hlu). apply heap_ord_pop; assumption.
    + assert (E : (Z.of_nat inn <? i2) = true) by (apply Z.ltb_lt; exact Hlt).
      rewrite E. cbn [negb]. rewrite (Hpoplen _ Hl2). apply heap_ord_pop; assumption.
  - apply negb_false_iff, Z.eqb_eq in C.
    assert (Hl : length (arr h) = S n) by (unfold n in *; lia).
    rewrite (Hpoplen _ Hl). apply heap_ord_pop; [exact Hl|].
    intros k Hk. apply Ho. lia.
Qed.

(** * the head is a minimum *)

Theorem head_minimal : forall h, heap_ordered h ->
  forall k, (k < length (arr h))%nat -> ft h 0 <= ft h k.
Proof.
  intros h Ho k. induction k as [k IH] using lt_wf_ind. intros Hk.
  destruct (Nat.eq_dec k 0) as [->|Hne]; [lia|].
  pose proof (par_lt k ltac:(lia)) as Hp.
  specialize (IH (par k) Hp ltac:(lia)). specialize (Ho k ltac:(lia)). lia.
Qed.

Corollary head_fire_minimal : forall h x, heap_ordered h -> In x (arr h) ->
  fireT (get (hs h) (aget (arr h) 0)) <= fireT (get (hs h) x).
Proof.
  intros h x Ho HI. apply In_anth in HI. destruct HI as [k [Hk E]].
  pose proof (head_minimal h Ho k Hk) as H. unfold ft in H. rewrite E in H. exact H.
Qed.

Lemma heap_ordered_empty : heap_ordered empty_heap.
Proof. intros k Hk. cbn in Hk. lia. Qed.
