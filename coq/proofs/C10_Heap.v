(** C10, layer L1 <-> L2, part 1: the heap ([get]/[upd]), doubly linked
    segments [dseg] and the representation of a chain of cells by linked nodes
    ([core]): payload update, unlink (middle / head cell) and append. *)
From Coq Require Import List ZArith Arith Bool Lia.
From GL Require Import lib.IMapBase model.IMap model.Chain.
Import ListNotations.
Open Scope Z_scope.

(** * Heap *)

Lemma upd_length h : forall x f, length (upd h x f) = length h.
Proof. induction h as [|n t IH]; intros [|x] f; cbn; auto. Qed.

Lemma nth_upd_same h : forall x f n, nth_error h x = Some n -> nth_error (upd h x f) x = Some (f n).
Proof.
  induction h as [|m t IH]; intros [|x] f n H; cbn in *; try discriminate.
  - congruence.
  - apply IH. exact H.
Qed.

Lemma nth_upd_other h : forall x y f, x <> y -> nth_error (upd h x f) y = nth_error h y.
Proof.
  induction h as [|m t IH]; intros [|x] [|y] f H; cbn; auto; try congruence.
Qed.

Lemma get_ok h x n : nth_error h x = Some n -> get h x = Ok n.
Proof. unfold get. intros ->. reflexivity. Qed.

Lemma wr_ok h x f n : nth_error h x = Some n -> wr h x f = Ok (upd h x f).
Proof. unfold wr. intros H. rewrite (get_ok _ _ _ H). reflexivity. Qed.

Lemma nth_app_new (h : heap) n : nth_error (h ++ [n]) (length h) = Some n.
Proof. rewrite nth_error_app2 by lia. rewrite Nat.sub_diag. reflexivity. Qed.

Lemma nth_app_old (h : heap) n y m : nth_error h y = Some m -> nth_error (h ++ [n]) y = Some m.
Proof. intros H. rewrite nth_error_app1; [exact H|]. apply nth_error_Some. congruence. Qed.

(** * Doubly linked segments *)

Fixpoint dseg (h : heap) (prv : option id) (ids : list id) (nxt : option id) : Prop :=
  match ids with
  | [] => True
  | x :: t =>
      exists n, nth_error h x = Some n /\ n_prev n = prv /\
                n_next n = match t with [] => nxt | y :: _ => Some y end /\
                dseg h (Some x) t nxt
  end.

Lemma dseg_frame h h' ids : forall prv nxt,
  (forall y, In y ids -> nth_error h' y = nth_error h y) ->
  dseg h prv ids nxt -> dseg h' prv ids nxt.
Proof.
  induction ids as [|x t IH]; intros prv nxt Hf H; cbn [dseg] in *; [exact I|].
  destruct H as (n & Hn & Hp & Hx & Ht). exists n. rewrite Hf by (left; reflexivity).
  repeat split; auto. apply IH; [|exact Ht]. intros y Hy. apply Hf. right. exact Hy.
Qed.

Definition last_or (ids : list id) (d : option id) : option id :=
  match ids with [] => d | _ => Some (List.last ids 0%nat) end.

Definition head_or (ids : list id) (d : option id) : option id :=
  match ids with [] => d | x :: _ => Some x end.

Lemma dseg_app h l1 : forall l2 prv nxt,
  dseg h prv (l1 ++ l2) nxt <->
  dseg h prv l1 (head_or l2 nxt) /\ dseg h (last_or l1 prv) l2 nxt.
Proof.
  induction l1 as [|x t IH]; intros l2 prv nxt; cbn [app dseg last_or].
  - tauto.
  - split.
    + intros (n & Hn & Hp & Hx & Ht). apply IH in Ht. destruct Ht as [H1 H2]. split.
      * exists n. repeat split; auto. destruct t; [destruct l2; exact Hx|exact Hx].
      * destruct t as [|y t']; [exact H2|]. exact H2.
    + intros [(n & Hn & Hp & Hx & Ht) H2]. exists n. repeat split; auto.
      * destruct t; [destruct l2; exact Hx|exact Hx].
      * apply IH. split; [exact Ht|]. destruct t as [|y t']; exact H2.
Qed.

Lemma dseg_in_valid h ids : forall prv nxt x, dseg h prv ids nxt -> In x ids -> exists n, nth_error h x = Some n.
Proof.
  induction ids as [|y t IH]; intros prv nxt x H Hin; [destruct Hin|]. cbn [dseg] in H.
  destruct H as (n & Hn & _ & _ & Ht). destruct Hin as [->|Hin]; [eauto|]. eapply IH; eauto.
Qed.

(* changing the outgoing [next] of the last node of a segment *)
Lemma dseg_set_last_next h l x : forall prv nxt nxt' n,
  ~ In x l -> nth_error h x = Some n ->
  dseg h prv (l ++ [x]) nxt -> dseg (upd h x (set_next nxt')) prv (l ++ [x]) nxt'.
Proof.
  induction l as [|y t IH]; intros prv nxt nxt' n Hni Hn H; cbn [app dseg] in *.
  - destruct H as (m & Hm & Hp & _ & _). assert (m = n) by congruence. subst m.
    exists (set_next nxt' n). rewrite (nth_upd_same _ _ _ _ Hn). repeat split; auto.
  - destruct H as (m & Hm & Hp & Hx & Ht). exists m.
    rewrite nth_upd_other by (intros ->; apply Hni; left; reflexivity).
    repeat split; auto.
    + destruct t; exact Hx.
    + eapply IH; eauto. intros Hin. apply Hni. right. exact Hin.
Qed.

(* changing the incoming [prev] of the first node of a segment *)
Lemma dseg_set_first_prev h x l prv prv' nxt n :
  ~ In x l -> nth_error h x = Some n ->
  dseg h prv (x :: l) nxt -> dseg (upd h x (set_prev prv')) prv' (x :: l) nxt.
Proof.
  intros Hni Hn H. cbn [dseg] in *. destruct H as (m & Hm & Hp & Hx & Ht).
  assert (m = n) by congruence. subst m.
  exists (set_prev prv' n). rewrite (nth_upd_same _ _ _ _ Hn). repeat split; auto.
  eapply dseg_frame; [|exact Ht]. intros y Hy. apply nth_upd_other. intros ->. contradiction.
Qed.

(** * Payload and the core representation *)

Definition pay (h : heap) (z : id * cell) : Prop :=
  exists n, nth_error h (fst z) = Some n /\ n_st n = c_st (snd z) /\ n_ref n = c_ref (snd z) /\
            (c_st (snd z) <> StLast -> n_key n = c_key (snd z) /\ n_val n = c_val (snd z)).

Definition ids_of (zs : list (id * cell)) : list id := map fst zs.
Definition stamps_of (zs : list (id * cell)) : list nat := map (fun z => c_stamp (snd z)) zs.

Record core (h : heap) (zs : list (id * cell)) : Prop := mkCore {
  co_ids : NoDup (ids_of zs);
  co_stamps : NoDup (stamps_of zs);
  co_dseg : dseg h None (ids_of zs) None;
  co_pay : Forall (pay h) zs
}.

Lemma pay_frame h h' z : nth_error h' (fst z) = nth_error h (fst z) -> pay h z -> pay h' z.
Proof. intros Hf (n & Hn & H). unfold pay. exists n. rewrite Hf. auto. Qed.

Lemma core_frame h h' zs :
  (forall y, In y (ids_of zs) -> nth_error h' y = nth_error h y) -> core h zs -> core h' zs.
Proof.
  intros Hf [H1 H2 H3 H4]. constructor; auto.
  - eapply dseg_frame; eauto.
  - apply Forall_forall. intros z Hz. apply (pay_frame h); [|exact (proj1 (Forall_forall _ _) H4 z Hz)].
    apply Hf. apply in_map. exact Hz.
Qed.

Lemma ids_app z1 z2 : ids_of (z1 ++ z2) = ids_of z1 ++ ids_of z2.
Proof. apply map_app. Qed.

Lemma stamps_app z1 z2 : stamps_of (z1 ++ z2) = stamps_of z1 ++ stamps_of z2.
Proof. apply map_app. Qed.

(** ** Updating the payload of one node *)

Lemma core_update h z1 x cl cl' z2 f n :
  core h (z1 ++ (x, cl) :: z2) -> nth_error h x = Some n ->
  n_prev (f n) = n_prev n -> n_next (f n) = n_next n ->
  c_stamp cl' = c_stamp cl -> pay (upd h x f) (x, cl') ->
  core (upd h x f) (z1 ++ (x, cl') :: z2).
Proof.
  intros [H1 H2 H3 H4] Hn Hp Hx Hs Hpay.
  assert (Hnotin : ~ In x (ids_of z1) /\ ~ In x (ids_of z2)).
  { rewrite ids_app in H1. cbn [ids_of map fst] in H1. apply NoDup_remove_2 in H1.
    rewrite in_app_iff in H1. tauto. }
  constructor.
  - rewrite ids_app in *. exact H1.
  - rewrite stamps_app in *. cbn [stamps_of map snd] in *. rewrite Hs. exact H2.
  - rewrite ids_app in *. cbn [ids_of map fst] in *.
    apply dseg_app in H3. apply dseg_app. destruct H3 as [Ha Hb]. split.
    + eapply dseg_frame; [|exact Ha]. intros y Hy. apply nth_upd_other. intros ->. tauto.
    + cbn [dseg] in *. destruct Hb as (m & Hm & Hmp & Hmx & Ht). assert (m = n) by congruence. subst m.
      exists (f n). rewrite (nth_upd_same _ _ _ _ Hn). repeat split; try congruence.
      eapply dseg_frame; [|exact Ht]. intros y Hy. apply nth_upd_other. intros ->. tauto.
  - apply Forall_app in H4. destruct H4 as [Ha Hb]. inversion Hb as [|? ? _ Hc]; subst.
    apply Forall_app. split; [|constructor; [exact Hpay|]].
    + apply Forall_forall. intros z Hz. apply (pay_frame h); [|exact (proj1 (Forall_forall _ _) Ha z Hz)].
      apply nth_upd_other. intros Heq. apply (proj1 Hnotin). rewrite Heq. apply in_map. exact Hz.
    + apply Forall_forall. intros z Hz. apply (pay_frame h); [|exact (proj1 (Forall_forall _ _) Hc z Hz)].
      apply nth_upd_other. intros Heq. apply (proj2 Hnotin). rewrite Heq. apply in_map. exact Hz.
Qed.

(** ** Pointwise versions: the new heap is described by what it holds *)

Lemma dseg_relink_last h h' l p : forall prv nxt nxt' np np',
  ~ In p l -> (forall w, In w l -> nth_error h' w = nth_error h w) ->
  nth_error h p = Some np -> nth_error h' p = Some np' ->
  n_prev np' = n_prev np -> n_next np' = nxt' ->
  dseg h prv (l ++ [p]) nxt -> dseg h' prv (l ++ [p]) nxt'.
Proof.
  induction l as [|y t IH]; intros prv nxt nxt' np np' Hni Hf Hn Hn' Hp Hx H; cbn [app dseg] in *.
  - destruct H as (m & Hm & Hmp & _ & _). assert (m = np) by congruence. subst m.
    exists np'. repeat split; auto. congruence.
  - destruct H as (m & Hm & Hmp & Hmx & Ht). exists m.
    rewrite Hf by (left; reflexivity). repeat split; auto.
    + destruct t; exact Hmx.
    + apply (IH (Some y) nxt nxt' np np');
        [intros Hin; apply Hni; right; exact Hin | intros w Hw; apply Hf; right; exact Hw
        | exact Hn | exact Hn' | exact Hp | exact Hx | exact Ht].
Qed.

Lemma dseg_relink_first h h' x l prv prv' nxt n n' :
  ~ In x l -> (forall w, In w l -> nth_error h' w = nth_error h w) ->
  nth_error h x = Some n -> nth_error h' x = Some n' ->
  n_prev n' = prv' -> n_next n' = n_next n ->
  dseg h prv (x :: l) nxt -> dseg h' prv' (x :: l) nxt.
Proof.
  intros Hni Hf Hn Hn' Hp Hx H. cbn [dseg] in *. destruct H as (m & Hm & Hmp & Hmx & Ht).
  assert (m = n) by congruence. subst m. exists n'. repeat split; auto; try congruence.
  eapply dseg_frame; eauto.
Qed.

Lemma pay_pointwise h h' z n n' :
  nth_error h (fst z) = Some n -> nth_error h' (fst z) = Some n' ->
  n_st n' = n_st n -> n_ref n' = n_ref n -> n_key n' = n_key n -> n_val n' = n_val n ->
  pay h z -> pay h' z.
Proof.
  intros Hn Hn' H1 H2 H3 H4 (m & Hm & Hs & Hr & Hk). assert (m = n) by congruence. subst m.
  unfold pay. exists n'. repeat split; try congruence; destruct (Hk H) as [Ha Hb]; congruence.
Qed.

Lemma Forall_pay_frame h h' zs :
  (forall y, In y (ids_of zs) -> nth_error h' y = nth_error h y) -> Forall (pay h) zs -> Forall (pay h') zs.
Proof.
  intros Hf H. apply Forall_forall. intros z Hz. apply (pay_frame h); [|exact (proj1 (Forall_forall _ _) H z Hz)].
  apply Hf. apply in_map. exact Hz.
Qed.

Lemma last_or_snoc l p d : last_or (l ++ [p]) d = Some p.
Proof. unfold last_or. destruct (l ++ [p]) eqn:E; [destruct l; discriminate|]. rewrite <- E, last_last. reflexivity. Qed.

Lemma list_snoc_cases {A} (l : list A) : l = [] \/ exists l' a, l = l' ++ [a].
Proof.
  destruct l as [|x t]; [left; reflexivity|right]. destruct (exists_last (l := x :: t)) as (l' & a & ->); [discriminate|].
  eauto.
Qed.

(** ** Relinking around a removed node, stated pointwise *)

Definition same_payload (n n' : node) : Prop :=
  n_st n' = n_st n /\ n_ref n' = n_ref n /\ n_key n' = n_key n /\ n_val n' = n_val n.

Lemma pay_same h h' z n n' :
  nth_error h (fst z) = Some n -> nth_error h' (fst z) = Some n' -> same_payload n n' -> pay h z -> pay h' z.
Proof. intros Hn Hn' (H1 & H2 & H3 & H4). eapply pay_pointwise; eauto. Qed.

(* the head node x is dropped: y becomes the head *)
Lemma core_relink_head h h' x cl y cly z2 ny ny' :
  core h ((x, cl) :: (y, cly) :: z2) ->
  (forall w, In w (ids_of z2) -> nth_error h' w = nth_error h w) ->
  nth_error h y = Some ny -> nth_error h' y = Some ny' ->
  same_payload ny ny' -> n_prev ny' = None -> n_next ny' = n_next ny ->
  core h' ((y, cly) :: z2).
Proof.
  intros [H1 H2 H3 H4] Hf Hny Hny' Hsp Hp Hx.
  cbn [ids_of stamps_of map fst snd] in *. fold (ids_of z2) in *. fold (stamps_of z2) in *.
  inversion H1 as [|? ? Hx1 H1']; subst. inversion H2 as [|? ? _ H2']; subst.
  inversion H1' as [|? ? Hy2 _]; subst.
  inversion H4 as [|? ? _ P3]; subst. inversion P3 as [|? ? Py P4]; subst.
  cbn [dseg] in H3. destruct H3 as (n & Hn & _ & _ & Hd).
  constructor; cbn [ids_of stamps_of map fst snd]; fold (ids_of z2); fold (stamps_of z2); auto.
  - eapply (dseg_relink_first h h' y (ids_of z2) (Some x) None None ny ny'); eauto.
  - constructor.
    + eapply (pay_same h h' (y, cly)); eauto.
    + eapply Forall_pay_frame; eauto.
Qed.

(* a middle node x is dropped: its neighbours p and y are linked to each other *)
Lemma core_relink_mid h h' z1 p clp x cl y cly z2 np np' ny ny' :
  core h (z1 ++ (p, clp) :: (x, cl) :: (y, cly) :: z2) ->
  (forall w, In w (ids_of z1) \/ In w (ids_of z2) -> nth_error h' w = nth_error h w) ->
  nth_error h p = Some np -> nth_error h' p = Some np' ->
  same_payload np np' -> n_prev np' = n_prev np -> n_next np' = Some y ->
  nth_error h y = Some ny -> nth_error h' y = Some ny' ->
  same_payload ny ny' -> n_prev ny' = Some p -> n_next ny' = n_next ny ->
  core h' (z1 ++ (p, clp) :: (y, cly) :: z2).
Proof.
  intros [H1 H2 H3 H4] Hf Hnp Hnp' Hspp Hpp Hpx Hny Hny' Hspy Hyp Hyx.
  rewrite ids_app in H1, H3. rewrite stamps_app in H2.
  cbn [ids_of stamps_of map fst snd] in H1, H2, H3. fold (ids_of z2) in *. fold (stamps_of z2) in *.
  assert (H1' : NoDup (ids_of z1 ++ p :: y :: ids_of z2)).
  { replace (ids_of z1 ++ p :: x :: y :: ids_of z2) with ((ids_of z1 ++ [p]) ++ x :: y :: ids_of z2) in H1
      by (rewrite <- app_assoc; reflexivity).
    apply NoDup_remove_1 in H1. rewrite <- app_assoc in H1. exact H1. }
  assert (H2' : NoDup (stamps_of z1 ++ c_stamp clp :: c_stamp cly :: stamps_of z2)).
  { replace (stamps_of z1 ++ c_stamp clp :: c_stamp cl :: c_stamp cly :: stamps_of z2)
      with ((stamps_of z1 ++ [c_stamp clp]) ++ c_stamp cl :: c_stamp cly :: stamps_of z2) in H2
      by (rewrite <- app_assoc; reflexivity).
    apply NoDup_remove_1 in H2. rewrite <- app_assoc in H2. exact H2. }
  assert (Hp1 : ~ In p (ids_of z1)) by (apply NoDup_remove_2 in H1'; rewrite in_app_iff in H1'; tauto).
  assert (Hy2 : ~ In y (ids_of z2)).
  { pose proof H1' as Hq.
    replace (ids_of z1 ++ p :: y :: ids_of z2) with ((ids_of z1 ++ [p]) ++ y :: ids_of z2) in Hq
      by (rewrite <- app_assoc; reflexivity).
    apply NoDup_remove_2 in Hq. rewrite in_app_iff in Hq. tauto. }
  replace (ids_of z1 ++ p :: x :: y :: ids_of z2) with ((ids_of z1 ++ [p]) ++ x :: y :: ids_of z2) in H3
    by (rewrite <- app_assoc; reflexivity).
  apply dseg_app in H3. destruct H3 as [Ha Hb]. cbn [head_or] in Ha. rewrite last_or_snoc in Hb.
  cbn [dseg] in Hb. destruct Hb as (n & Hn & _ & _ & Hd).
  apply Forall_app in H4. destruct H4 as [P1 P2]. inversion P2 as [|? ? Pp P3]; subst.
  inversion P3 as [|? ? _ P4]; subst. inversion P4 as [|? ? Py P5]; subst.
  constructor.
  - rewrite ids_app. exact H1'.
  - rewrite stamps_app. exact H2'.
  - rewrite ids_app. cbn [ids_of map fst]. fold (ids_of z2).
    replace (ids_of z1 ++ p :: y :: ids_of z2) with ((ids_of z1 ++ [p]) ++ y :: ids_of z2)
      by (rewrite <- app_assoc; reflexivity).
    apply dseg_app. split.
    + cbn [head_or]. eapply (dseg_relink_last h h' (ids_of z1) p None (Some x) (Some y) np np'); eauto.
    + rewrite last_or_snoc.
      eapply (dseg_relink_first h h' y (ids_of z2) (Some x) (Some p) None ny ny'); eauto.
  - apply Forall_app. split.
    { eapply Forall_pay_frame; [|exact P1]. intros w Hw. apply Hf. left. exact Hw. }
    constructor; [eapply (pay_same h h' (p, clp)); eauto|].
    constructor; [eapply (pay_same h h' (y, cly)); eauto|].
    eapply Forall_pay_frame; [|exact P5]. intros w Hw. apply Hf. right. exact Hw.
Qed.
