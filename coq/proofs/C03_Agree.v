(** C03: the two backends agree with each other (through the contract), and the
    Redis Create of before fix 100dccd does not refine the contract (defect D7). *)
From Coq Require Import List ZArith NArith Arith Bool Lia.
From GL Require Import spec.KV model.InmemKV model.RedisSrv model.RedisKV model.legacy.RedisCreateLegacy
  proofs.C03_KV proofs.C06_Expiry proofs.C03_Inmem proofs.C03_Redis.
Import ListNotations.

(** Same operation sequence on both backends (inside the premises of the Redis comparison, which
    include a clock that does not run backwards): same results up to the renaming of versions. *)
Theorem backends_agree : forall ops t0, redis_ok t0 init ops ->
  exists g, g 0 = 0 /\ inj_below g (next (snd (run init ops))) /\
    fst (rk_run_sync rk_new (map (fun no => (fst no, ren_op g (snd no))) ops)) =
    map (ren_out g) (fst (im_run im_new ops)).
Proof.
  intros ops t0 Hok. destruct (redis_refines_kv ops t0 Hok) as [g [H0 [Hi Hr]]].
  exists g. split; [exact H0|]. split; [exact Hi|].
  rewrite (inmem_refines_kv ops t0 (redis_ok_mono ops t0 init Hok)). exact Hr.
Qed.

(** D7: before the fix a second Create of the same key answered ErrExist with the empty string
    instead of the stored version: no renaming of versions reconciles that with the contract. *)
Definition d7_ops : list (Z * op) :=
  [(0%Z, Create [97%N] [120%N] None); (1%Z, Create [97%N] [121%N] None); (2%Z, Get [97%N])].

Lemma legacy_redis_create_refuted :
  redis_ok 0 init d7_ops /\
  fst (run init d7_ops) = [OVer 1; OExist 1; ORec ([97%N], [120%N], 1, None)] /\
  fst (leg_rk_run_sync rk_new d7_ops) = [OVer 1; OExist 0; ORec ([97%N], [120%N], 1, None)] /\
  fst (rk_run_sync rk_new d7_ops) = [OVer 1; OExist 1; ORec ([97%N], [120%N], 1, None)] /\
  forall g, fst (leg_rk_run_sync rk_new (map (fun no => (fst no, ren_op g (snd no))) d7_ops))
            <> map (ren_out g) (fst (run init d7_ops)).
Proof.
  split; [|split; [|split; [|split]]].
  - cbn [d7_ops redis_ok op_clean cas_issued]. unfold clean. cbn. repeat split; lia.
  - vm_compute. reflexivity.
  - vm_compute. reflexivity.
  - vm_compute. reflexivity.
  - intros g H. vm_compute in H. injection H as H1 H2. congruence.
Qed.

(** ** new versions were never seen before *)

(* every version that any result of a history mentions was handed out before the history's end ... *)
Lemma run_out_vers_bound : forall ops s n, fresh s ->
  In n (flat_map out_vers (fst (run s ops))) -> n < next (snd (run s ops)).
Proof.
  induction ops as [|[now o] t IH]; intros s n Hf; cbn [run].
  - cbn. intros [].
  - pose proof (out_vers_bound s now o n Hf) as Hb. pose proof (step_fresh s now o Hf) as Hf'.
    destruct (step s now o) as [s' x]. cbn [fst snd] in *.
    specialize (IH s' n Hf'). pose proof (run_wf_fresh t s') as _.
    assert (Hmono : next s' <= next (snd (run s' t))).
    { clear. revert s'. induction t as [|[now o] t IH]; intros s'; cbn [run]; [cbn; lia|].
      pose proof (next_step_le s' now o) as Hle. destruct (step s' now o) as [s2 y]. cbn [fst] in Hle.
      specialize (IH s2). destruct (run s2 t) as [ys sf]. cbn [snd] in *. lia. }
    destruct (run s' t) as [xs sf]. cbn [fst snd flat_map] in *.
    intros Hin. apply in_app_or in Hin. destruct Hin as [Hin|Hin]; [specialize (Hb Hin); lia|auto].
Qed.

(* ... and a successful Create / Put / CasByVersion returns exactly the next, never used one
   (PutMany: one per record, see getmany_putmany_repeated_keys) *)
Lemma successful_write_version : forall s now o,
  match o, snd (step s now o) with
  | Create _ _ _, OVer n => n = next s
  | Put k v e, x => x = ORec (k, v, next s, e)
  | CasByVersion k v e _, ORec r => r = (k, v, next s, e)
  | _, _ => True
  end.
Proof.
  intros s now o. destruct o; cbn [step]; try exact I.
  - destruct (find now k s); cbn; [exact I|reflexivity].
  - reflexivity.
  - destruct (find now k s) as [r|]; cbn; [|exact I]. destruct (Nat.eqb (ver r) expected); cbn; [reflexivity|exact I].
Qed.

Theorem new_versions_never_seen : forall ops now o n,
  let s := snd (run init ops) in
  In n (flat_map out_vers (fst (run init ops))) ->
  (* seen before => smaller than the counter, which is what the next successful write returns *)
  n < next s /\
  match o, snd (step s now o) with
  | Create _ _ _, OVer n' => n <> n'
  | Put _ _ _, ORec (_, _, n', _) => n <> n'
  | CasByVersion _ _ _ _, ORec (_, _, n', _) => n <> n'
  | _, _ => True
  end.
Proof.
  intros ops now o n s Hin. pose proof (run_out_vers_bound ops init n fresh_init Hin) as Hb. fold s in Hb.
  split; [exact Hb|]. pose proof (successful_write_version s now o) as Hw.
  destruct o; try exact I; destruct (snd (step s now _)); try exact I.
  - lia.
  - destruct r as [[[k' v'] n'] e']. injection Hw as _ _ -> _. lia.
  - destruct r as [[[k' v'] n'] e']. injection Hw as _ _ -> _. lia.
Qed.

(** every state of a history from the empty storage is well formed and fresh *)
Lemma reachable_wf_fresh : forall ops, wf (snd (run init ops)) /\ fresh (snd (run init ops)).
Proof. intros ops. exact (run_wf_fresh ops init wf_init fresh_init). Qed.
