(** C20, part 3: round trip.  [zip_folder] of a well-formed tree from a cleanly
    spelled source directory produces one entry "/"+relative-path per selected
    regular file, and [unzip] of that archive into an empty file system yields
    exactly those files below the destination, with their contents, and the
    directories needed to hold them. *)
From Coq Require Import List NArith Bool Arith Lia Permutation.
From GL Require Import model.Zip model.legacy.ZipLegacy proofs.C20_Paths proofs.C20_Unzip.
Import ListNotations.

(** * Well-formed trees and source directories *)

Definition wf_file (f : list seg * N) : Prop := fst f <> [] /\ Forall normal (fst f).

(** distinct paths, ordinary names, and no file where another file's path
    needs a directory *)
Definition wf_tree (t : tree) : Prop :=
  NoDup (map fst t) /\
  (forall f, In f t -> wf_file f) /\
  (forall f g, In f t -> In g t -> ~ strict_prefix (fst f) (fst g)).

(** any spelling of the source directory except "" and "/" (ensureDirName
    turns "/" into "", and Walk("") fails) *)
Definition valid_src (src : rpath) : Prop := is_empty_str (ensure_dir_name src) = false.

Definition depth1 (r : list seg) : bool := match r with [_] => true | _ => false end.

(** the files ZipFolder is specified to take: the filter sees the cleaned
    path of the file, [Clean(srcDir + "/" + relative path)] *)
Definition selected (src : rpath) (filt : option (rpath -> bool)) (recursive : bool)
           (f : list seg * N) : bool :=
  match filt with Some t => t (clean_str (src ++ fst f)) | None => true end
  && (recursive || depth1 (fst f)).

Definition plain_entry (f : list seg * N) : entry := mkE (s_empty :: fst f) false (snd f).

(** * ZipFolder *)

Lemma walk_path_spec : forall r s, is_empty_str s = false -> r <> [] -> Forall normal r ->
  walk_path s r = clean_str (s ++ r).
Proof.
  unfold walk_path. induction r as [|x r IH]; intros s Hs Hne Hr; [congruence|].
  cbn [fold_left]. inversion Hr as [|? ? Hx Hr']; subst. destruct r as [|y r].
  - reflexivity.
  - rewrite IH; [|apply clean_str_not_empty|discriminate|exact Hr'].
    rewrite clean_str_app_normal.
    + rewrite <- app_assoc. reflexivity.
    + destruct s as [|a [|b s]]; try reflexivity. cbn in Hs. discriminate.
    + exact Hr'.
Qed.

Lemma zip_select_spec : forall s filt recursive f, is_empty_str s = false -> wf_file f ->
  zip_select s filt recursive f =
  if selected s filt recursive f then SelEntry (plain_entry f) else SelSkip.
Proof.
  intros s filt recursive [r c] Hs [Hne Hn]. cbn [fst snd] in *.
  unfold zip_select, selected. cbn [fst snd].
  rewrite walk_path_spec by assumption.
  destruct (match filt with Some t => t (clean_str (s ++ r)) | None => true end) eqn:Ef.
  - assert (E1 : match filt with Some t => negb (t (clean_str (s ++ r))) | None => false end = false).
    { destruct filt; [rewrite Ef; reflexivity|reflexivity]. }
    rewrite E1. rewrite rel_below by assumption. rewrite dir_of_names by assumption.
    fold (depth1 r). cbn [andb].
    destruct recursive; cbn [negb andb orb]; [reflexivity|].
    destruct (depth1 r); reflexivity.
  - assert (E1 : match filt with Some t => negb (t (clean_str (s ++ r))) | None => false end = true).
    { destruct filt; [rewrite Ef; reflexivity|discriminate]. }
    rewrite E1. reflexivity.
Qed.

Lemma zip_collect_spec : forall s filt recursive l, is_empty_str s = false ->
  (forall f, In f l -> wf_file f) ->
  zip_collect (map (zip_select s filt recursive) l) =
  ZOk (map plain_entry (filter (selected s filt recursive) l)).
Proof.
  intros s filt recursive l Hs. induction l as [|f l IH]; intros Hwf; cbn [map filter zip_collect].
  - reflexivity.
  - rewrite zip_select_spec; [|exact Hs|apply Hwf; left; reflexivity].
    rewrite IH by (intros g Hg; apply Hwf; right; exact Hg).
    destruct (selected s filt recursive f); reflexivity.
Qed.

Lemma walk_insert_perm : forall f l, Permutation (f :: l) (walk_insert f l).
Proof.
  intros f l. induction l as [|g l IH]; cbn [walk_insert].
  - apply Permutation_refl.
  - destruct (names_leb (fst f) (fst g)).
    + apply Permutation_refl.
    + eapply perm_trans; [apply perm_swap|]. apply perm_skip. exact IH.
Qed.

Lemma walk_sort_perm : forall t, Permutation t (walk_sort t).
Proof.
  induction t as [|f t IH]; cbn [walk_sort].
  - apply perm_nil.
  - eapply perm_trans; [apply perm_skip; exact IH|]. apply walk_insert_perm.
Qed.

Lemma walk_sort_In : forall t f, In f (walk_sort t) <-> In f t.
Proof.
  intros t f. split; apply Permutation_in; [apply Permutation_sym|]; apply walk_sort_perm.
Qed.

Theorem zip_folder_spec : forall src filt recursive t,
  valid_src src -> wf_tree t ->
  zip_folder src filt recursive t =
  ZOk (map plain_entry (filter (selected (ensure_dir_name src) filt recursive) (walk_sort t))).
Proof.
  intros src filt recursive t Hs [_ [Hwf _]]. unfold zip_folder.
  unfold valid_src in Hs. rewrite Hs.
  apply zip_collect_spec; [exact Hs|]. intros f Hf. apply Hwf. apply walk_sort_In. exact Hf.
Qed.

(** * UnzipToFolder of an archive of plain entries *)

Lemma edf_ok : forall md rest fs pre,
  (forall a b, a <> [] -> rest = a ++ b -> forall c, fs_get fs (pre ++ a) <> Some (File c)) ->
  exists fs', ensure_dir_from md fs pre rest = Some fs' /\
              forall a b, a <> [] -> rest = a ++ b -> fs_get fs' (pre ++ a) = Some Dir.
Proof.
  intros md. induction rest as [|s rest IH]; intros fs pre Hnf; cbn [ensure_dir_from].
  - exists fs. split; [reflexivity|]. intros a b Ha Hr. symmetry in Hr.
    apply app_eq_nil in Hr. tauto.
  - assert (Hstep : forall fs1,
              (forall q, q <> pre ++ [s] -> fs_get fs1 q = fs_get fs q) ->
              fs_get fs1 (pre ++ [s]) = Some Dir ->
              exists fs', ensure_dir_from md fs1 (pre ++ [s]) rest = Some fs' /\
                forall a b, a <> [] -> s :: rest = a ++ b -> fs_get fs' (pre ++ a) = Some Dir).
    { intros fs1 Hsame Hd. destruct (IH fs1 (pre ++ [s])) as [fs' [Hrun Hall]].
      - intros a b Ha Hr c. rewrite <- app_assoc. cbn [app]. rewrite Hsame.
        + apply (Hnf (s :: a) b); [discriminate|]. subst rest. reflexivity.
        + intros E. rewrite <- (app_nil_r (pre ++ [s])) in E. rewrite <- app_assoc in E.
          apply app_inv_head in E. cbn [app] in E. inversion E. subst a. congruence.
      - exists fs'. split; [exact Hrun|]. intros a b Ha Hr.
        destruct a as [|x a]; [congruence|]. cbn [app] in Hr. inversion Hr as [[Hx Hrest]]. subst x.
        destruct a as [|y a].
        + eapply edf_mono; eassumption.
        + replace (pre ++ s :: y :: a) with ((pre ++ [s]) ++ y :: a)
            by (rewrite <- app_assoc; reflexivity).
          apply (Hall (y :: a) b); [discriminate|exact Hrest]. }
    destruct (fs_get fs (pre ++ [s])) as [[|c]|] eqn:Eg.
    + apply Hstep; [intros; reflexivity|exact Eg].
    + exfalso. apply (Hnf [s] rest) with (c := c); [discriminate|reflexivity|exact Eg].
    + apply Hstep; [|apply fs_get_set_same].
      intros q Hq. apply fs_get_set_other. congruence.
Qed.

Lemma all_dirs_true : forall rest fs pre,
  (forall a b, a <> [] -> rest = a ++ b -> fs_get fs (pre ++ a) = Some Dir) ->
  all_dirs fs pre rest = true.
Proof.
  induction rest as [|s rest IH]; intros fs pre H; cbn [all_dirs].
  - reflexivity.
  - rewrite (H [s] rest) by (try discriminate; reflexivity).
    apply IH. intros a b Ha Hr. rewrite <- app_assoc. cbn [app].
    apply (H (s :: a) b); [discriminate|]. subst rest. reflexivity.
Qed.

Lemma create_file_ok : forall fs p c t,
  resolve p = t -> t <> [] -> all_dirs fs [] (removelast t) = true ->
  fs_get fs t <> Some Dir ->
  create_file fs p c = Some (fs_set fs t (File c)).
Proof.
  intros fs p c t Hr Hne Hall Hnd. unfold create_file. rewrite Hr.
  destruct t as [|x t]; [congruence|]. rewrite Hall.
  destruct (fs_get fs (x :: t)) as [[|c0]|]; [congruence|reflexivity|reflexivity].
Qed.

Section Plain.
Context (dest : rpath) (Hd : is_rooted dest = true).
Let D := rclean dest.

Record inv (fs : fsys) (ch : list rpath) (done : list (list seg * N)) : Prop := {
  i_file : forall p c, fs_get fs p = Some (File c) -> exists r, In (r, c) done /\ p = D ++ r;
  i_done : forall r c, In (r, c) done -> fs_get fs (D ++ r) = Some (File c);
  i_dir : forall p, fs_get fs p = Some Dir ->
          p <> [] /\ (inside p D \/
                      exists r c x y, In (r, c) done /\ r = x ++ y /\ y <> [] /\ p = D ++ x);
  i_dest : forall a, a <> [] -> inside a D -> fs_get fs a = Some Dir;
  i_sub : forall r c x y, In (r, c) done -> r = x ++ y -> y <> [] -> x <> [] ->
          fs_get fs (D ++ x) = Some Dir;
  i_ch : forall P, In P ch ->
         exists S, P = rooted_str S /\ Forall normal S /\
                   forall a, a <> [] -> inside a S -> fs_get fs a = Some Dir }.

Lemma is_dir_plain : forall r c, r <> [] -> Forall normal r -> is_dir_entry (plain_entry (r, c)) = false.
Proof.
  intros r c Hne Hn. unfold is_dir_entry, plain_entry. cbn [e_dirattr e_name fst snd orb].
  destruct r as [|x r]; [congruence|].
  assert (Hl : normal (last (s_empty :: x :: r) s_dot)).
  { change (last (s_empty :: x :: r) s_dot) with (last (x :: r) s_dot).
    assert (Hin : In (last (x :: r) s_dot) (x :: r)).
    { rewrite (app_removelast_last s_dot (l := x :: r)) at 2 by discriminate.
      apply in_or_app. right. left. reflexivity. }
    eapply Forall_forall in Hn; eassumption. }
  apply normal_tests in Hl. tauto.
Qed.

Lemma length_app_lt : forall (a b : list seg), b <> [] -> length a < length (a ++ b).
Proof.
  intros a b H. rewrite app_length. destruct b; [congruence|]. cbn [length]. lia.
Qed.

Lemma unzip_entry_plain : forall fs ch done r c,
  inv fs ch done ->
  r <> [] -> Forall normal r ->
  (forall r' c', In (r', c') done -> r' <> r /\ ~ strict_prefix r' r /\ ~ strict_prefix r r') ->
  exists fs' ch',
    unzip_entry dest (fs, ch) (plain_entry (r, c)) = ((fs', ch'), UOk) /\
    inv fs' ch' ((r, c) :: done).
Proof.
  intros fs ch done r c I Hne Hn Hfresh.
  unfold unzip_entry. rewrite is_dir_plain by assumption.
  unfold plain_entry. cbn [e_name e_data fst snd].
  rewrite !join_rooted by exact Hd. fold D. rewrite split_dir_fold.
  assert (ET : fold_left rstep (s_empty :: r) D = D ++ r).
  { cbn [fold_left]. rewrite rstep_empty. apply fold_rstep_normal. exact Hn. }
  assert (ES : fold_left rstep (removelast (s_empty :: r)) D = D ++ removelast r).
  { destruct r as [|x r]; [congruence|]. change (removelast (s_empty :: x :: r)) with (s_empty :: removelast (x :: r)).
    cbn [fold_left]. rewrite rstep_empty. apply fold_rstep_normal. apply Forall_removelast. exact Hn. }
  rewrite ET, ES. set (T := D ++ r). set (S := D ++ removelast r).
  assert (HDn : Forall normal D) by apply rclean_normal.
  assert (HT : Forall normal T) by (apply Forall_app; split; assumption).
  assert (HS : Forall normal S).
  { apply Forall_app. split; [exact HDn|]. apply Forall_removelast. exact Hn. }
  assert (HST : T = S ++ [last r s_empty]).
  { unfold T, S. rewrite <- app_assoc. f_equal. apply app_removelast_last. exact Hne. }
  destruct (rel_rooted_inside dest T Hd HT (inside_app D r)) as [rr [Hrel Hesc]].
  rewrite Hrel, Hesc. cbn [fst snd].
  (* the directory part *)
  match goal with
  | |- context [if existsb ?f ch then ?a else ?b] => set (mk := if existsb f ch then a else b)
  end.
  assert (Hmk : exists fs1 ch1,
            mk = Some (fs1, ch1) /\
            (forall q, fs_get fs1 q = fs_get fs q \/
                       (fs_get fs q = None /\ fs_get fs1 q = Some Dir /\ q <> [] /\ inside q S)) /\
            (forall a, a <> [] -> inside a S -> fs_get fs1 a = Some Dir) /\
            (ch1 = ch \/ ch1 = rooted_str S :: ch)).
  { subst mk. destruct (existsb (path_eqb (rooted_str S)) ch) eqn:Ex.
    - exists fs, ch. split; [reflexivity|]. split; [intros q; left; reflexivity|]. split; [|left; reflexivity].
      apply existsb_exists in Ex. destruct Ex as [P [HP HPe]]. apply path_eqb_eq in HPe. subst P.
      destruct (i_ch _ _ _ I _ HP) as [S' [HS'e [HS'n HS'd]]].
      apply rooted_str_inj in HS'e; [|exact HS|exact HS'n]. subst S'. exact HS'd.
    - unfold ensure_dir. rewrite resolve_rooted_str by exact HS.
      destruct (edf_ok (must_be_dir (rooted_str S)) S fs []) as [fs1 [Hrun Hall]].
      + intros a b Ha Hr c0 Hf. cbn [app] in Hf.
        destruct (i_file _ _ _ I _ _ Hf) as [r0 [Hin Ha0]].
        destruct (Hfresh _ _ Hin) as [_ [Hsp _]]. apply Hsp.
        unfold S in Hr. subst a. rewrite <- app_assoc in Hr. apply app_inv_head in Hr.
        exists (b ++ [last r s_empty]). split.
        * intros E. apply app_eq_nil in E. destruct E; discriminate.
        * rewrite app_assoc, <- Hr. apply app_removelast_last. exact Hne.
      + exists fs1, (rooted_str S :: ch). rewrite Hrun. split; [reflexivity|]. split; [|split].
        * intros q. destruct (edf_spec _ _ _ _ _ Hrun q) as [E|[E1 [E2 [a [b [Ha [Hr Hq]]]]]]].
          -- left. exact E.
          -- right. cbn [app] in Hq. subst q. split; [exact E1|]. split; [exact E2|].
             split; [exact Ha|]. exists b. exact Hr.
        * intros a Ha [b Hb]. apply (Hall a b Ha Hb).
        * right. reflexivity. }
  destruct Hmk as [fs1 [ch1 [Emk [G1 [G2 G3]]]]].
  (* the file *)
  assert (N1 : fs_get fs1 T <> Some Dir).
  { intros Hdir. destruct (G1 T) as [E|[_ [_ [_ Hin]]]].
    - rewrite E in Hdir. destruct (i_dir _ _ _ I _ Hdir) as [_ [Hin|[r0 [c0 [x [y [Hin [Hr0 [Hy HTx]]]]]]]]].
      + apply inside_length in Hin. pose proof (length_app_lt D r Hne). unfold T in Hin. lia.
      + unfold T in HTx. apply app_inv_head in HTx. subst x.
        destruct (Hfresh _ _ Hin) as [_ [_ Hsp]]. apply Hsp. exists y. split; assumption.
    - apply inside_length in Hin. rewrite HST in Hin. rewrite app_length in Hin. cbn [length] in Hin. lia. }
  assert (Hcf : create_file fs1 (rooted_str T) c = Some (fs_set fs1 T (File c))).
  { apply create_file_ok.
    - apply resolve_rooted_str. exact HT.
    - unfold T. intros E. apply app_eq_nil in E. tauto.
    - replace (removelast T) with S by (rewrite HST; symmetry; apply removelast_last).
      apply all_dirs_true. intros a b Ha Hr. cbn [app]. apply G2; [exact Ha|]. exists b. exact Hr.
    - exact N1. }
  exists (fs_set fs1 T (File c)), ch1. split.
  { rewrite Emk. cbn [fst snd]. rewrite Hcf. reflexivity. }
  (* the invariant *)
  assert (M1 : forall a, fs_get fs1 a = Some Dir -> fs_get (fs_set fs1 T (File c)) a = Some Dir).
  { intros a Ha. rewrite fs_get_set_other; [exact Ha|]. intros E. subst a. contradiction. }
  assert (M0 : forall a n, fs_get fs a = Some n -> fs_get fs1 a = Some n).
  { intros a n Ha. destruct (G1 a) as [E|[E _]]; congruence. }
  constructor.
  - intros p c0 Hf. rewrite fs_get_set in Hf. destruct (path_eqb T p) eqn:Ep.
    + apply path_eqb_eq in Ep. subst p. inversion Hf; subst c0. exists r. split; [left; reflexivity|reflexivity].
    + destruct (G1 p) as [E|[_ [E _]]]; [|congruence].
      rewrite E in Hf. destruct (i_file _ _ _ I _ _ Hf) as [r0 [Hin Hp]].
      exists r0. split; [right; exact Hin|exact Hp].
  - intros r0 c0 [Heq|Hin].
    + inversion Heq; subst r0 c0. apply fs_get_set_same.
    + rewrite fs_get_set_other.
      * apply M0. eapply i_done; eassumption.
      * unfold T. intros E. apply app_inv_head in E. destruct (Hfresh _ _ Hin) as [Hneq _]. congruence.
  - intros p Hp. rewrite fs_get_set in Hp. destruct (path_eqb T p) eqn:Ep; [discriminate|].
    destruct (G1 p) as [E|[_ [_ [Hpne Hin]]]].
    + rewrite E in Hp. destruct (i_dir _ _ _ I _ Hp) as [Hpne [Hin|[r0 [c0 [x [y [Hin [Hr0 [Hy Hpx]]]]]]]]].
      * split; [exact Hpne|]. left. exact Hin.
      * split; [exact Hpne|]. right. exists r0, c0, x, y. split; [right; exact Hin|]. tauto.
    + split; [exact Hpne|].
      destruct (prefix_comparable p D S Hin (inside_app D (removelast r))) as [HpD|[x Hx]].
      * left. exact HpD.
      * right. destruct Hin as [z Hz]. subst p. unfold S in Hz. rewrite <- app_assoc in Hz.
        apply app_inv_head in Hz.
        exists r, c, x, (z ++ [last r s_empty]). split; [left; reflexivity|]. split; [|split].
        -- rewrite app_assoc, <- Hz. apply app_removelast_last. exact Hne.
        -- intros E. apply app_eq_nil in E. destruct E; discriminate.
        -- reflexivity.
  - intros a Ha Hin. apply M1, M0. eapply i_dest; eassumption.
  - intros r0 c0 x y [Heq|Hin] Hr0 Hy Hx.
    + inversion Heq; subst r0 c0. apply M1, G2.
      * intros E. apply app_eq_nil in E. tauto.
      * unfold S. subst r. rewrite removelast_app by exact Hy. rewrite app_assoc. apply inside_app.
    + apply M1, M0. eapply i_sub; eassumption.
  - intros P HP. destruct G3 as [G3|G3]; subst ch1.
    + destruct (i_ch _ _ _ I _ HP) as [S' [HS'e [HS'n HS'd]]].
      exists S'. split; [exact HS'e|]. split; [exact HS'n|]. intros a Ha Hin. apply M1, M0, HS'd; assumption.
    + destruct HP as [HP|HP].
      * exists S. split; [symmetry; exact HP|]. split; [exact HS|]. intros a Ha Hin. apply M1, G2; assumption.
      * destruct (i_ch _ _ _ I _ HP) as [S' [HS'e [HS'n HS'd]]].
        exists S'. split; [exact HS'e|]. split; [exact HS'n|]. intros a Ha Hin. apply M1, M0, HS'd; assumption.
Qed.

Lemma unzip_loop_plain : forall todo fs ch done,
  inv fs ch done ->
  NoDup (map fst (todo ++ done)) ->
  (forall f g, In f (todo ++ done) -> In g (todo ++ done) -> ~ strict_prefix (fst f) (fst g)) ->
  (forall f, In f todo -> fst f <> [] /\ Forall normal (fst f)) ->
  exists fs' ch' done',
    unzip_loop dest (fs, ch) (map plain_entry todo) = ((fs', ch'), UOk) /\
    inv fs' ch' done' /\
    (forall f, In f done' <-> In f todo \/ In f done).
Proof.
  induction todo as [|[r c] todo IH]; intros fs ch done I Hnd Hpf Hwf; cbn [map unzip_loop].
  - exists fs, ch, done. split; [reflexivity|]. split; [exact I|]. intros f. cbn [In]. tauto.
  - destruct (Hwf (r, c) (or_introl eq_refl)) as [Hne Hn]. cbn [fst] in Hne, Hn.
    destruct (unzip_entry_plain fs ch done r c I Hne Hn) as [fs1 [ch1 [Estep I1]]].
    { intros r' c' Hin. split; [|split].
      - intros E. subst r'. cbn [map app fst] in Hnd. inversion Hnd as [|? ? Hni _]; subst.
        apply Hni. apply in_map_iff. exists (r, c'). split; [reflexivity|]. apply in_or_app. right. exact Hin.
      - apply (Hpf (r', c') (r, c)); [right; apply in_or_app; right; exact Hin|left; reflexivity].
      - apply (Hpf (r, c) (r', c')); [left; reflexivity|right; apply in_or_app; right; exact Hin]. }
    rewrite Estep. cbn [fst snd].
    assert (Hperm : Permutation ((r, c) :: todo ++ done) (todo ++ (r, c) :: done))
      by apply Permutation_middle.
    destruct (IH fs1 ch1 ((r, c) :: done) I1) as [fs' [ch' [done' [Erun [I' Hd']]]]].
    + eapply Permutation_NoDup; [|exact Hnd]. apply Permutation_map. exact Hperm.
    + intros f g Hf Hg. apply Hpf; eapply Permutation_in; try (apply Permutation_sym; exact Hperm); assumption.
    + intros f Hf. apply Hwf. right. exact Hf.
    + exists fs', ch', done'. split; [exact Erun|]. split; [exact I'|].
      intros f. rewrite Hd'. cbn [In]. tauto.
Qed.

Lemma unzip_plain : forall files,
  NoDup (map fst files) ->
  (forall f g, In f files -> In g files -> ~ strict_prefix (fst f) (fst g)) ->
  (forall f, In f files -> fst f <> [] /\ Forall normal (fst f)) ->
  exists fs',
    unzip dest (map plain_entry files) [] = (fs', UOk) /\
    (forall p c, fs_get fs' p = Some (File c) <-> exists r, In (r, c) files /\ p = D ++ r) /\
    (forall p, fs_get fs' p = Some Dir <->
               p <> [] /\ (inside p D \/
                           exists r c x y, In (r, c) files /\ r = x ++ y /\ y <> [] /\ p = D ++ x)).
Proof.
  intros files Hnd Hpf Hwf. unfold unzip, ensure_dir. rewrite resolve_rooted by exact Hd. fold D.
  destruct (edf_ok (must_be_dir dest) D [] []) as [fs1 [Hrun Hall]].
  { intros a b _ _ c. cbn. discriminate. }
  rewrite Hrun.
  assert (I0 : inv fs1 [] []).
  { constructor.
    - intros p c Hf. destruct (edf_spec _ _ _ _ _ Hrun p) as [E|[_ [E _]]]; [|congruence].
      rewrite E in Hf. cbn in Hf. discriminate.
    - intros r c [].
    - intros p Hp. destruct (edf_spec _ _ _ _ _ Hrun p) as [E|[_ [_ [a [b [Ha [Hr Hq]]]]]]].
      + rewrite E in Hp. cbn in Hp. discriminate.
      + cbn [app] in Hq. subst p. split; [exact Ha|]. left. exists b. exact Hr.
    - intros a Ha [b Hb]. apply (Hall a b Ha Hb).
    - intros r c x y [].
    - intros P []. }
  destruct (unzip_loop_plain files fs1 [] [] I0) as [fs' [ch' [done' [Erun [I' Hd']]]]].
  - rewrite app_nil_r. exact Hnd.
  - rewrite app_nil_r. exact Hpf.
  - exact Hwf.
  - rewrite Erun. cbn [fst snd]. exists fs'. split; [reflexivity|].
    assert (Hin : forall f, In f done' <-> In f files).
    { intros f. rewrite Hd'. cbn [In]. tauto. }
    split.
    + intros p c. split.
      * intros Hf. destruct (i_file _ _ _ I' _ _ Hf) as [r [Hr Hp]]. exists r. split; [apply Hin; exact Hr|exact Hp].
      * intros [r [Hr Hp]]. subst p. eapply i_done; [exact I'|]. apply Hin. exact Hr.
    + intros p. split.
      * intros Hp. destruct (i_dir _ _ _ I' _ Hp) as [Hne [Hi|[r [c [x [y [Hr H3]]]]]]].
        -- split; [exact Hne|]. left. exact Hi.
        -- split; [exact Hne|]. right. exists r, c, x, y. split; [apply Hin; exact Hr|exact H3].
      * intros [Hne [Hi|[r [c [x [y [Hr [Hr0 [Hy Hp]]]]]]]]].
        -- eapply i_dest; eassumption.
        -- destruct x as [|x0 x].
           ++ rewrite app_nil_r in Hp. subst p. eapply i_dest; [exact I'|exact Hne|apply inside_refl].
           ++ subst p. eapply (i_sub _ _ _ I' r c (x0 :: x) y); [apply Hin; exact Hr|exact Hr0|exact Hy|discriminate].
Qed.

End Plain.

(** * Round trip *)

Lemma NoDup_map_fst_filter : forall (f : list seg * N -> bool) l,
  NoDup (map fst l) -> NoDup (map fst (filter f l)).
Proof.
  intros f l. induction l as [|x l IH]; intros H; cbn [filter map].
  - constructor.
  - cbn [map] in H. inversion H as [|? ? Hni Hnd]; subst. destruct (f x); cbn [map].
    + constructor; [|apply IH; exact Hnd]. intros Hin. apply Hni.
      apply in_map_iff in Hin. destruct Hin as [y [Hy Hyin]]. apply filter_In in Hyin.
      apply in_map_iff. exists y. tauto.
    + apply IH. exact Hnd.
Qed.

Theorem zip_roundtrip : forall src filt recursive t dest,
  valid_src src -> wf_tree t -> is_rooted dest = true ->
  exists ar fs',
    zip_folder src filt recursive t = ZOk ar /\
    unzip dest ar [] = (fs', UOk) /\
    (forall p c, fs_get fs' p = Some (File c) <->
       exists r, In (r, c) t /\ selected (ensure_dir_name src) filt recursive (r, c) = true /\
                 p = resolve dest ++ r) /\
    (forall p, fs_get fs' p = Some Dir <->
       p <> [] /\
       (inside p (resolve dest) \/
        exists r c x y, In (r, c) t /\ selected (ensure_dir_name src) filt recursive (r, c) = true /\
                        r = x ++ y /\ y <> [] /\ p = resolve dest ++ x)).
Proof.
  intros src filt recursive t dest Hs Ht Hd.
  pose proof (zip_folder_spec src filt recursive t Hs Ht) as Hz.
  destruct Ht as [Hnd [Hwf Hpf]].
  set (sel := selected (ensure_dir_name src) filt recursive) in *.
  set (files := filter sel (walk_sort t)) in *.
  assert (Hin : forall f, In f files <-> In f t /\ sel f = true).
  { intros f. unfold files. rewrite filter_In, walk_sort_In. tauto. }
  destruct (unzip_plain dest Hd files) as [fs' [Hrun [Hfiles Hdirs]]].
  - unfold files. apply NoDup_map_fst_filter.
    eapply Permutation_NoDup; [|exact Hnd]. apply Permutation_map. apply walk_sort_perm.
  - intros f g Hf Hg. apply Hpf; [apply Hin in Hf|apply Hin in Hg]; tauto.
  - intros f Hf. apply Hin in Hf. apply (Hwf f (proj1 Hf)).
  - exists (map plain_entry files), fs'. split; [exact Hz|]. split; [exact Hrun|].
    rewrite resolve_rooted by exact Hd. split.
    + intros p c. rewrite Hfiles. split.
      * intros [r [Hr Hp]]. exists r. apply Hin in Hr. tauto.
      * intros [r [Hr [Hsel Hp]]]. exists r. split; [apply Hin; tauto|exact Hp].
    + intros p. rewrite Hdirs. split.
      * intros [Hne [Hi|[r [c [x [y [Hr H3]]]]]]]; (split; [exact Hne|]); [left; exact Hi|].
        right. exists r, c, x, y. apply Hin in Hr. tauto.
      * intros [Hne [Hi|[r [c [x [y [Hr [Hsel H3]]]]]]]]; (split; [exact Hne|]); [left; exact Hi|].
        right. exists r, c, x, y. split; [apply Hin; tauto|exact H3].
Qed.

(** * Before commit de6fafe a source directory that was not cleanly spelled lost files

    (defect D12): with srcDir "./s" the walk reports "s/file", and
    [path[len(srcDir):]] cut the name; the repaired code names the entries
    through filepath.Rel. *)
Definition b_s : seg := [115]%N.                               (* "s" *)
Definition b_file : seg := [102; 105; 108; 101]%N.              (* "file" *)
Definition b_d : seg := [100]%N.                               (* "d" *)

Theorem legacy_zip_unclean_src_mangles_names :
  legacy_zip_folder [s_dot; b_s] None true [([b_file], 1%N); ([b_d; b_file], 2%N)] =
  ZOk [mkE [s_empty; b_file] false 2%N; mkE [[105; 108; 101]%N] false 1%N] /\
  legacy_zip_folder [s_dot; b_s] None false [([b_file], 1%N); ([b_d; b_file], 2%N)] = ZOk [] /\
  legacy_zip_folder [s_dot; s_dot; b_s] None true [([b_d], 1%N)] = ZPanic /\
  zip_folder [s_dot; b_s] None true [([b_file], 1%N); ([b_d; b_file], 2%N)] =
  ZOk [mkE [s_empty; b_d; b_file] false 2%N; mkE [s_empty; b_file] false 1%N].
Proof. vm_compute. repeat split; reflexivity. Qed.
