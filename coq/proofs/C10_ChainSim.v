(** C10, layer L2 <-> specification, part 4: every operation of the chain
    simulates the abstract map under [R2] (forward simulation, equal
    outputs, no panic, no out-of-fuel). *)
From Coq Require Import List ZArith Arith Bool Lia.
From GL Require Import lib.IMapBase model.Chain spec.OMap
  proofs.C10_Assoc proofs.C10_Cells proofs.C10_Next proofs.C10_R2.
Import ListNotations.
Open Scope Z_scope.

(** * [vals] against the entries *)

Lemma nodup_fst_unique {V} (l : list (Z * V)) k v v' :
  NoDup (map fst l) -> In (k, v) l -> In (k, v') l -> v = v'.
Proof.
  intros Hnd H1 H2. apply (in_alookup _ _ _ Hnd) in H1. apply (in_alookup _ _ _ Hnd) in H2. congruence.
Qed.

Lemma vals_lookup_some es k s :
  alookup k (rev (vals_from 0 es)) = Some s ->
  exists e, nth_error es s = Some e /\ e_live e = true /\ e_key e = k.
Proof.
  intros H. apply alookup_in, in_rev, vals_from_in in H. destruct H as (_ & e & He & Hl & Hk).
  rewrite Nat.sub_0_r in He. eauto.
Qed.

Lemma vals_lookup_none es k :
  alookup k (rev (vals_from 0 es)) = None -> forall e, In e es -> live_with k e = false.
Proof.
  intros H e He. destruct (live_with k e) eqn:E; [|reflexivity]. exfalso.
  apply alookup_none in H. apply H. apply In_nth_error in He. destruct He as (j & Hj).
  apply live_with_iff in E. destruct E as [El Ek].
  rewrite map_rev, <- in_rev. apply (in_map fst _ (k, j)). apply vals_from_in.
  split; [lia|]. exists e. rewrite Nat.sub_0_r. auto.
Qed.

Lemma live_unique es k s s' e e' :
  NoDup (map fst (vals_from 0 es)) ->
  nth_error es s = Some e -> live_with k e = true ->
  nth_error es s' = Some e' -> live_with k e' = true -> s = s'.
Proof.
  intros Hnd H1 L1 H2 L2. apply live_with_iff in L1, L2.
  apply (nodup_fst_unique (vals_from 0 es) k s s' Hnd); apply vals_from_in; (split; [lia|]);
    rewrite Nat.sub_0_r; eauto.
Qed.

Lemma o_find_unique es k s e :
  NoDup (map fst (vals_from 0 es)) -> nth_error es s = Some e -> live_with k e = true ->
  o_find es k = Some e.
Proof.
  intros Hnd Hn Hl. unfold o_find. destruct (find (live_with k) es) as [e'|] eqn:E.
  - apply find_some in E. destruct E as [Hin Hl']. apply In_nth_error in Hin. destruct Hin as (j & Hj).
    assert (j = s) by (eapply live_unique; eassumption). subst j. congruence.
  - exfalso. apply nth_error_In in Hn. apply (List.find_none _ _ E) in Hn. congruence.
Qed.

Lemma o_find_none es k : (forall e, In e es -> live_with k e = false) -> o_find es k = None.
Proof.
  intros H. unfold o_find. destruct (find (live_with k) es) as [e'|] eqn:E; [|reflexivity].
  apply find_some in E. destruct E as [Hin Hl]. rewrite (H _ Hin) in Hl. discriminate.
Qed.

Lemma trel_mono {A B} (R R' : A -> B -> Prop) la lb :
  (forall a b, R a b -> R' a b) -> trel R la lb -> trel R' la lb.
Proof. apply trel_impl. Qed.

(** * Len, Get *)

Lemma sim_len c o : R2 c o -> length (cvals c) = o_len (entries o).
Proof. intros H. rewrite (r2_vals _ _ H), rev_length. apply vals_from_length. Qed.

Lemma sim_get c o k : R2 c o -> c_get c k = Ok (c, OutGet (option_map e_val (o_find (entries o) k))).
Proof.
  intros H. unfold c_get. rewrite (r2_vals _ _ H).
  destruct (alookup k (rev (vals_from 0 (entries o)))) as [s|] eqn:E.
  - destruct (vals_lookup_some _ _ _ E) as (e & Hn & Hl & Hk).
    rewrite (r2_cells _ _ H), (cfind_present _ _ s e Hn (or_introl Hl)). cbn [bind].
    rewrite (o_find_unique _ k s e (r2_nodup _ _ H) Hn) by (apply live_with_iff; auto).
    unfold the_cell. rewrite Hl. reflexivity.
  - rewrite o_find_none by (apply vals_lookup_none; exact E). reflexivity.
Qed.

(** * Add *)

Lemma nodup_snoc {A} (l : list A) (x : A) : NoDup l -> ~ In x l -> NoDup (l ++ [x]).
Proof.
  induction l as [|y t IH]; cbn [app]; intros Hnd Hni; [constructor; [intros []|constructor]|].
  inversion Hnd as [|? ? Hy Hnd']; subst. constructor.
  - rewrite in_app_iff. cbn [In]. intros [H|[H|[]]]; [contradiction|]. subst. apply Hni. left. reflexivity.
  - apply IH; [exact Hnd'|]. intros H. apply Hni. right. exact H.
Qed.

Lemma dead_range_app es e a b : (b <= length es)%nat -> dead_range es a b -> dead_range (es ++ [e]) a b.
Proof.
  intros Hb H j e' Hj He'. apply (H j e' Hj). rewrite nth_error_app1 in He' by lia. exact He'.
Qed.

Lemma sim_add c o k v : R2 c o ->
  exists c', c_add c k v = Ok (c', snd (o_step o (OAdd k v))) /\ R2 c' (fst (o_step o (OAdd k v))).
Proof.
  intros H. unfold c_add. cbn [o_step]. rewrite (r2_vals _ _ H).
  set (es := entries o). set (r := cnt (citers c)).
  destruct (alookup k (rev (vals_from 0 es))) as [s|] eqn:E.
  - destruct (vals_lookup_some _ _ _ E) as (e & Hn & Hl & Hk).
    rewrite (o_find_unique es k s e (r2_nodup _ _ H) Hn) by (apply live_with_iff; auto).
    exists c. split; [reflexivity|exact H].
  - pose proof (vals_lookup_none _ _ E) as Hno. rewrite (o_find_none es k Hno). cbn [fst snd].
    rewrite (r2_cells _ _ H). fold es r. rewrite cells_from_body. cbn [Nat.add].
    rewrite clast_app. cbn [bind last_cell c_st c_stamp].
    eexists. split; [reflexivity|].
    assert (Hrn : r (S (length es)) = 0).
    { apply cnt_zero. intros i s Hin. pose proof (irel_stamp_le _ _ _ _ _ (r2_iters _ _ H) Hin). fold es in H0. lia. }
    constructor; cbn [cells cvals citers entries opos].
    + fold r. rewrite cells_from_body, body_from_app. cbn [Nat.add body_from app length].
      rewrite app_length. cbn [length]. replace (length es + 1)%nat with (S (length es)) by lia.
      unfold last_cell at 2. rewrite Hrn.
      rewrite cupd_app, cupd_none.
      * unfold cell_at. cbn [e_live e_key e_val]. rewrite app_nil_r, <- app_assoc. cbn [app].
        unfold cupd, last_cell. cbn [map]. rewrite at_stamp_mk, Nat.eqb_refl. cbn [c_stamp c_ref].
        rewrite <- app_assoc. reflexivity.
      * eapply Forall_impl; [|apply body_from_stamps]. cbn. intros c0 Hc0. lia.
    + rewrite vals_from_app. cbn [vals_from e_live e_key Nat.add app]. rewrite rev_app_distr. reflexivity.
    + rewrite vals_from_app. cbn [vals_from e_live e_key Nat.add app]. rewrite map_app. cbn [map fst].
      apply nodup_snoc; [exact (r2_nodup _ _ H)|].
      apply alookup_none in E. rewrite map_rev, <- in_rev in E. exact E.
    + exact (r2_names _ _ H).
    + eapply trel_mono; [|exact (r2_iters _ _ H)]. fold es. intros s p [Hb Hd]. split.
      * rewrite app_length. cbn [length]. lia.
      * apply dead_range_app; [lia|exact Hd].
Qed.

(** * Remove *)

Lemma filter_rev' {A} (p : A -> bool) (l : list A) : filter p (rev l) = rev (filter p l).
Proof.
  induction l as [|x t IH]; [reflexivity|]. cbn [rev filter]. rewrite filter_app, IH. cbn [filter].
  destruct (p x); cbn [rev]; [reflexivity|apply app_nil_r].
Qed.

Definition unlink_or_mark (r : nat -> Z) (s : nat) (l : list cell) : list cell :=
  if 0 <? r s then cupd s (fun c => cset_st StDeleted (cset_val 0 c)) l else cdel s l.

Lemma uom_app r s l1 l2 : unlink_or_mark r s (l1 ++ l2) = unlink_or_mark r s l1 ++ unlink_or_mark r s l2.
Proof. unfold unlink_or_mark. destruct (0 <? r s); [apply cupd_app|apply cdel_app]. Qed.

Lemma uom_none r s l : Forall (fun c => c_stamp c <> s) l -> unlink_or_mark r s l = l.
Proof. unfold unlink_or_mark. intros H. destruct (0 <? r s); [apply cupd_none|apply cdel_none]; exact H. Qed.

Lemma kill_cells r k s es : forall i,
  (forall j e', nth_error es j = Some e' -> live_with k e' = true -> (i + j)%nat = s) ->
  ((i <= s)%nat -> exists e, ent es i s = Some e /\ live_with k e = true) ->
  cells_from r i (map (kill k) es) = unlink_or_mark r s (cells_from r i es).
Proof.
  induction es as [|e0 t IH]; intros i H1 H2; cbn [map cells_from].
  - destruct (Nat.le_gt_cases i s) as [Hi|Hi].
    + destruct (H2 Hi) as (e & He & _). unfold ent in He. destruct (s - i)%nat; discriminate.
    + symmetry. apply uom_none. repeat constructor. cbn. lia.
  - rewrite uom_app. destruct (Nat.eq_dec i s) as [->|Hne].
    + destruct (H2 (le_n _)) as (e & He & Hl). rewrite ent_head in He. injection He as <-.
      f_equal.
      * unfold kill. rewrite Hl. apply live_with_iff in Hl. destruct Hl as [Hl Hk].
        unfold cell_at, unlink_or_mark. cbn [e_live e_key e_val]. rewrite Hl.
        destruct (0 <? r s); [|sg]. unfold cupd. cbn [map]. rewrite at_stamp_mk, Nat.eqb_refl. reflexivity.
      * rewrite kill_none.
        -- symmetry. apply uom_none. apply cells_from_ne. lia.
        -- intros e' He'. destruct (live_with k e') eqn:E; [|reflexivity]. exfalso.
           apply In_nth_error in He'. destruct He' as (j & Hj). specialize (H1 (S j) e' Hj E). lia.
    + assert (Hl0 : live_with k e0 = false).
      { destruct (live_with k e0) eqn:E; [|reflexivity]. exfalso. specialize (H1 0%nat e0 eq_refl E). lia. }
      f_equal.
      * unfold kill. rewrite Hl0. symmetry. apply uom_none. apply cell_at_ne. auto.
      * apply IH.
        -- intros j e' Hj Hl. specialize (H1 (S j) e' Hj Hl). lia.
        -- intros Hi. destruct H2 as (e & He & Hl); [lia|]. exists e. rewrite <- (ent_tail e0) by lia. auto.
Qed.

Lemma dead_range_kill k es a b : dead_range es a b -> dead_range (map (kill k) es) a b.
Proof.
  intros H j e' Hj He'. rewrite nth_error_map in He'. destruct (nth_error es j) as [e|] eqn:E; [|discriminate].
  injection He' as <-. destruct (e_live (kill k e)) eqn:El; [|reflexivity].
  apply kill_live in El. rewrite (H j e Hj E) in El. discriminate.
Qed.

Lemma sim_remove c o k : R2 c o ->
  exists c', c_remove c k = Ok (c', OutUnit) /\ R2 c' (mkOMap (map (kill k) (entries o)) (opos o)).
Proof.
  intros H. unfold c_remove. rewrite (r2_vals _ _ H).
  set (es := entries o). set (r := cnt (citers c)).
  destruct (alookup k (rev (vals_from 0 es))) as [s|] eqn:E.
  - destruct (vals_lookup_some _ _ _ E) as (e & Hn & Hl & Hk).
    assert (Hlw : live_with k e = true) by (apply live_with_iff; auto).
    assert (Hcells : c_delete (cells c) s = Ok (unlink_or_mark r s (cells_from r 0 es))).
    { rewrite (r2_cells _ _ H). fold es r. unfold c_delete.
      rewrite (cfind_present r es s e Hn (or_introl Hl)). cbn [bind].
      unfold the_cell. rewrite Hl. cbn [c_st c_ref]. unfold unlink_or_mark.
      pose proof (cnt_nonneg (citers c) s) as Hge. fold r in Hge.
      destruct (Z.eqb_spec (r s) 0) as [Hz|Hnz].
      - rewrite (csucc_present r es s e Hn (or_introl Hl)). cbn [deref bind].
        destruct (Z.ltb_spec 0 (r s)); [lia|reflexivity].
      - destruct (Z.ltb_spec 0 (r s)); [reflexivity|lia]. }
    rewrite Hcells. cbn [bind]. eexists. split; [reflexivity|].
    constructor; cbn [cells cvals citers entries opos].
    + fold r. symmetry. apply kill_cells.
      * intros j e' Hj Hl'. cbn [Nat.add]. eapply live_unique; try eassumption. exact (r2_nodup _ _ H).
      * intros _. exists e. unfold ent. rewrite Nat.sub_0_r. auto.
    + fold es. rewrite <- vals_from_kill. unfold aremove. rewrite filter_rev'. reflexivity.
    + fold es. rewrite <- vals_from_kill. apply nodup_fst_filter. exact (r2_nodup _ _ H).
    + exact (r2_names _ _ H).
    + eapply trel_mono; [|exact (r2_iters _ _ H)]. fold es. intros s0 p [Hb Hd]. split.
      * rewrite kill_length. exact Hb.
      * apply dead_range_kill. exact Hd.
  - pose proof (vals_lookup_none _ _ E) as Hno. exists c. split; [reflexivity|].
    rewrite kill_none by exact Hno. destruct o. exact H.
Qed.

(** * Iterators *)

Lemma cfind_end' r es j : j = length es -> cfind j (cells_from r 0 es) = Ok (last_cell r j).
Proof. intros ->. apply cfind_end. Qed.

Lemma hd_cells_from_cell r es i :
  exists c0, hd_error (cells_from r i es) = Some c0 /\
             c_stamp c0 = first_present r i es /\ c_ref c0 = r (c_stamp c0).
Proof.
  pose proof (hd_cells_from r es i) as H. pose proof (cells_from_ref r es i) as Hr.
  destruct (cells_from r i es) as [|c0 t]; [discriminate|]. cbn in H. injection H as H.
  exists c0. repeat split; [exact H|]. inversion Hr; assumption.
Qed.

Lemma sim_iterator c o i : R2 c o -> ~ In i (map fst (citers c)) ->
  exists c', c_iterator c i = Ok (c', OutUnit) /\ R2 c' (mkOMap (entries o) ((i, 0%nat) :: opos o)).
Proof.
  intros H Hni. unfold c_iterator. rewrite (r2_cells _ _ H).
  set (es := entries o). set (r := cnt (citers c)).
  destruct (hd_cells_from_cell r es 0) as (c0 & Hhd & Hst & Hrf). rewrite Hhd. cbn [deref bind].
  eexists. split; [reflexivity|].
  destruct (first_present_spec r es 0) as (Hb & Hd & Hp). cbn zeta in Hb, Hd, Hp. rewrite <- Hst in Hb, Hd, Hp.
  constructor; cbn [cells cvals citers entries opos].
  - rewrite Hrf. rewrite <- park_cells.
    + apply cells_from_ext. intros j _. symmetry. apply cnt_cons.
    + apply cnt_nonneg.
    + intros _ e He. unfold ent in He. destruct Hp as (e' & He' & Hor).
      * cbn [Nat.add]. apply nth_error_Some. rewrite Nat.sub_0_r in He. congruence.
      * rewrite He in He'. injection He' as <-. exact Hor.
  - exact (r2_vals _ _ H).
  - exact (r2_nodup _ _ H).
  - cbn [map fst]. constructor; [exact Hni|exact (r2_names _ _ H)].
  - apply trel_cons; [|exact (r2_iters _ _ H)]. split; [cbn [Nat.add] in Hb; lia|].
    intros j e Hj He. apply (Hd j e); [lia|]. rewrite Nat.sub_0_r. exact He.
Qed.

Lemma nlive_dead es p : dead_range es p (nlive es p).
Proof.
  unfold nlive. destruct (first_live es p) as [[j e]|] eqn:E.
  - apply first_live_inv in E. tauto.
  - apply first_live_none_inv. exact E.
Qed.

Lemma nlive_some es p : (nlive es p < length es)%nat ->
  exists e, first_live es p = Some (nlive es p, e) /\ nth_error es (nlive es p) = Some e /\ e_live e = true.
Proof.
  unfold nlive. destruct (first_live es p) as [[j e]|] eqn:E; [|lia]. intros _.
  exists e. apply first_live_inv in E. tauto.
Qed.

Lemma nlive_none es p : nlive es p = length es -> first_live es p = None.
Proof.
  unfold nlive. destruct (first_live es p) as [[j e]|] eqn:E; [|reflexivity]. intros ->.
  apply first_live_inv in E. destruct E as (_ & Hn & _).
  assert (length es < length es)%nat by (apply nth_error_Some; congruence). lia.
Qed.

Lemma filter_len_le {A} (p : A -> bool) l : (length (filter p l) <= length l)%nat.
Proof. induction l as [|x t IH]; cbn; [lia|]. destruct (p x); cbn; lia. Qed.

(* [getValue] brings iterator [i] to the first live entry at or after its abstract position *)
Lemma sim_getvalue c o i s p : R2 c o ->
  alookup i (citers c) = Some s -> alookup i (opos o) = Some p ->
  let es := entries o in
  let j := nlive es p in
  c_getvalue (cells c) s = Ok (cells_from (cnt (aset i j (citers c))) 0 es, j) /\ irel es j p.
Proof.
  intros H Hs Hp es j.
  destruct (trel_lookup _ _ _ _ _ (r2_iters _ _ H) Hs) as (p' & Hp' & [Hb Hd]).
  assert (p' = p) by congruence. subst p'. fold es in Hb, Hd.
  set (r := cnt (citers c)).
  assert (Hrs : 1 <= r s) by (eapply cnt_in, alookup_in; exact Hs).
  assert (Hirel : irel es j p).
  { split; [apply nlive_bounds; lia|apply nlive_dead]. }
  split; [|exact Hirel].
  unfold c_getvalue. rewrite (r2_cells _ _ H). fold es r.
  assert (Hstay : j = s -> Ok (cells_from r 0 es, s) = Ok (cells_from (cnt (aset i j (citers c))) 0 es, j)).
  { intros ->. rewrite aset_id; [reflexivity|exact (r2_names _ _ H)|exact Hs]. }
  destruct (Nat.eq_dec s (length es)) as [Hend|Hne].
  - rewrite Hend at 1. rewrite cfind_end. cbn [bind last_cell c_st nstate_eqb].
    apply Hstay. unfold j, nlive. rewrite first_live_none; [auto|]. rewrite <- Hend. exact Hd.
  - destruct (nth_error es s) as [e|] eqn:Hn; [|apply nth_error_None in Hn; lia].
    assert (Hpos : 0 < r s) by lia.
    rewrite (cfind_present r es s e Hn (or_intror Hpos)). cbn [bind].
    destruct (e_live e) eqn:El.
    + unfold the_cell. rewrite El. cbn [c_st nstate_eqb]. apply Hstay.
      unfold j, nlive. rewrite (first_live_some es p s e); auto; lia.
    + unfold the_cell at 1. rewrite El. cbn [c_st nstate_eqb].
      rewrite (c_next_cells _ r s es e (cnt_nonneg _) Hn Hrs).
      * assert (Hj : nlive es (S s) = j).
        { symmetry. apply nlive_skip_dead; [lia|]. eapply dead_range_split; [exact Hd|].
          eapply dead_range_one; eassumption. }
        rewrite Hj. f_equal. f_equal. apply cells_from_ext. intros x _. symmetry.
        apply cnt_aset; [exact (r2_names _ _ H)|exact Hs].
      * unfold cfuel. pose proof (filter_len_le (gt_stamp s) (cells_from r 0 es)). lia.
Qed.

Lemma sim_hasnext c o i p : R2 c o -> alookup i (opos o) = Some p ->
  exists c', c_hasnext c i =
    Ok (c', OutBool (match first_live (entries o) p with Some _ => true | None => false end))
    /\ R2 c' o.
Proof.
  intros H Hp. pose proof (trel_keys _ _ _ (r2_iters _ _ H)) as Hk.
  destruct (alookup_some_in i (citers c)) as (s & Hs).
  { rewrite Hk. apply alookup_in in Hp. apply (in_map fst) in Hp. exact Hp. }
  destruct (sim_getvalue c o i s p H Hs Hp) as (Hgv & Hirel). cbn zeta in Hgv, Hirel.
  set (es := entries o) in *. set (j := nlive es p) in *.
  unfold c_hasnext. rewrite Hs. cbn [deref bind]. rewrite Hgv. cbn [bind].
  assert (Hout : exists c', cfind j (cells_from (cnt (aset i j (citers c))) 0 es) = Ok c' /\
            negb (nstate_eqb (c_st c') StLast) = match first_live es p with Some _ => true | None => false end).
  { destruct (Nat.eq_dec j (length es)) as [Hend|Hne].
    - rewrite (cfind_end' _ _ _ Hend). eexists. split; [reflexivity|].
      rewrite (nlive_none es p Hend). reflexivity.
    - destruct Hirel as [Hb _]. destruct (nlive_some es p) as (e & Hf & Hn & Hl); [fold j; lia|]. fold j in Hn.
      rewrite (cfind_present _ es j e Hn (or_introl Hl)). eexists. split; [reflexivity|].
      rewrite Hf. unfold the_cell. rewrite Hl. reflexivity. }
  destruct Hout as (c' & Hc' & Ho). rewrite Hc'. cbn [bind]. rewrite Ho.
  eexists. split; [reflexivity|].
  constructor; cbn [cells cvals citers].
  - reflexivity.
  - exact (r2_vals _ _ H).
  - exact (r2_nodup _ _ H).
  - rewrite aset_keys. exact (r2_names _ _ H).
  - apply trel_aset_l; [|rewrite <- Hk; exact (r2_names _ _ H)|exact (r2_iters _ _ H)].
    intros b Hb. assert (b = p) by congruence. subst b. exact Hirel.
Qed.

Lemma sim_itnext c o i p : R2 c o -> alookup i (opos o) = Some p ->
  exists c', c_itnext c i = Ok (c', snd (o_step o (ONext i))) /\ R2 c' (fst (o_step o (ONext i))).
Proof.
  intros H Hp. pose proof (trel_keys _ _ _ (r2_iters _ _ H)) as Hk.
  destruct (alookup_some_in i (citers c)) as (s & Hs).
  { rewrite Hk. apply alookup_in in Hp. apply (in_map fst) in Hp. exact Hp. }
  destruct (sim_getvalue c o i s p H Hs Hp) as (Hgv & Hirel). cbn zeta in Hgv, Hirel.
  set (es := entries o) in *. set (j := nlive es p) in *.
  assert (Hin : In i (map fst (citers c))) by (apply alookup_in in Hs; apply (in_map fst) in Hs; exact Hs).
  unfold c_itnext. rewrite Hs. cbn [deref bind]. rewrite Hgv. cbn [bind o_step]. rewrite Hp. fold es.
  set (its1 := aset i j (citers c)). set (r1 := cnt its1).
  assert (Hnd1 : NoDup (map fst its1)) by (unfold its1; rewrite aset_keys; exact (r2_names _ _ H)).
  assert (Hs1 : alookup i its1 = Some j) by (apply alookup_aset_same; exact Hin).
  destruct (Nat.eq_dec j (length es)) as [Hend|Hne].
  - (* at the end: nothing to return, the iterator stays *)
    rewrite (cfind_end' _ _ _ Hend). cbn [bind last_cell c_st nstate_eqb negb].
    unfold cfuel. cbn [c_next]. rewrite (cfind_end' _ _ _ Hend). cbn [bind last_cell c_st].
    rewrite (nlive_none es p Hend). cbn [fst snd].
    eexists. split; [reflexivity|].
    constructor; cbn [cells cvals citers].
    + fold its1 r1. reflexivity.
    + exact (r2_vals _ _ H).
    + exact (r2_nodup _ _ H).
    + rewrite aset_keys. exact (r2_names _ _ H).
    + apply trel_aset_l; [|rewrite <- Hk; exact (r2_names _ _ H)|exact (r2_iters _ _ H)].
      intros b Hb. assert (b = p) by congruence. subst b. exact Hirel.
  - destruct Hirel as [Hb Hdr]. destruct (nlive_some es p) as (e & Hf & Hn & Hl); [fold j; lia|]. fold j in Hn, Hf.
    rewrite (cfind_present r1 es j e Hn (or_introl Hl)). cbn [bind].
    assert (Hr1j : 1 <= r1 j) by (eapply cnt_in, alookup_in; exact Hs1).
    rewrite (c_next_cells _ r1 j es e (cnt_nonneg _) Hn Hr1j).
    2:{ unfold cfuel. pose proof (filter_len_le (gt_stamp j) (cells_from r1 0 es)). lia. }
    cbn [bind]. rewrite Hf. cbn [fst snd].
    set (j2 := nlive es (S j)).
    replace (negb (nstate_eqb (c_st (the_cell r1 j e)) StLast)) with true
      by (unfold the_cell; rewrite Hl; reflexivity).
    replace (c_key (the_cell r1 j e)) with (e_key e) by (unfold the_cell; rewrite Hl; reflexivity).
    replace (c_val (the_cell r1 j e)) with (e_val e) by (unfold the_cell; rewrite Hl; reflexivity).
    eexists. split; [reflexivity|].
    constructor; cbn [cells cvals citers entries opos].
    + apply cells_from_ext. intros x _. rewrite <- (aset_aset i j j2 (citers c)). fold its1.
      symmetry. apply cnt_aset; assumption.
    + exact (r2_vals _ _ H).
    + exact (r2_nodup _ _ H).
    + rewrite aset_keys. exact (r2_names _ _ H).
    + apply trel_aset; [|exact (r2_iters _ _ H)]. fold es. split.
      * apply nlive_bounds. lia.
      * apply nlive_dead.
Qed.

Lemma mark_id r s es : forall i,
  ((i <= s)%nat -> exists e, ent es i s = Some e /\ e_live e = false) ->
  cupd s (fun c => cset_st StDeleted (cset_val 0 c)) (cells_from r i es) = cells_from r i es.
Proof.
  induction es as [|e0 t IH]; intros i Hs; cbn [cells_from].
  - apply cupd_none. repeat constructor. cbn. intros E. assert (Hle : (i <= s)%nat) by lia.
    destruct (Hs Hle) as (e & He & _). unfold ent in He. destruct (s - i)%nat; discriminate.
  - rewrite cupd_app. f_equal.
    + destruct (Nat.eq_dec i s) as [->|Hne]; [|apply cupd_none, cell_at_ne; auto].
      destruct (Hs (le_n _)) as (e & He & Hl). rewrite ent_head in He. injection He as <-.
      unfold cell_at. rewrite Hl. destruct (0 <? r s); [|reflexivity]. sg.
    + destruct (Nat.le_gt_cases (S i) s) as [Hi|Hi].
      * apply IH. intros _. destruct Hs as (e & He & Hl); [lia|]. exists e. rewrite <- (ent_tail e0) by lia. auto.
      * apply cupd_none, cells_from_ne. lia.
Qed.

Lemma sim_close c o i p : R2 c o -> alookup i (opos o) = Some p ->
  exists c', c_close c i = Ok (c', OutUnit) /\ R2 c' (mkOMap (entries o) (aremove i (opos o))).
Proof.
  intros H Hp. pose proof (trel_keys _ _ _ (r2_iters _ _ H)) as Hk.
  destruct (alookup_some_in i (citers c)) as (s & Hs).
  { rewrite Hk. apply alookup_in in Hp. apply (in_map fst) in Hp. exact Hp. }
  destruct (trel_lookup _ _ _ _ _ (r2_iters _ _ H) Hs) as (p' & Hp' & [Hb Hd]).
  set (es := entries o) in *. set (r := cnt (citers c)).
  assert (Hrs : 1 <= r s) by (eapply cnt_in, alookup_in; exact Hs).
  assert (Hrel : c_release (cells c) s = Ok (cells_from (bump r s (-1)) 0 es)).
  { unfold c_release. rewrite (r2_cells _ _ H). fold es r.
    destruct (Nat.eq_dec s (length es)) as [Hend|Hne].
    - rewrite (cfind_end' _ _ _ Hend). cbn [bind last_cell c_st c_ref nstate_eqb]. f_equal. symmetry.
      apply unpark_keep; [exact Hrs|]. intros e He _. unfold ent in He. rewrite Nat.sub_0_r in He.
      assert (s < length es)%nat by (apply nth_error_Some; congruence). lia.
    - destruct (nth_error es s) as [e|] eqn:Hn; [|apply nth_error_None in Hn; lia].
      assert (Hpos : 0 < r s) by lia.
      rewrite (cfind_present r es s e Hn (or_intror Hpos)). cbn [bind].
      assert (Hent : ent es 0 s = Some e) by (unfold ent; rewrite Nat.sub_0_r; exact Hn).
      destruct (e_live e) eqn:El.
      + unfold the_cell. rewrite El. cbn [c_st c_ref nstate_eqb]. f_equal. symmetry.
        apply unpark_keep; [exact Hrs|]. intros e' He' _. left. congruence.
      + unfold the_cell. rewrite El. cbn [c_st c_ref nstate_eqb].
        unfold c_delete. rewrite cfind_cupd_same by reflexivity.
        rewrite (cfind_present r es s e Hn (or_intror Hpos)). cbn [bind].
        unfold the_cell. rewrite El. cbn [cset_ref c_st c_ref].
        destruct (Z.eqb_spec (r s - 1) 0) as [Hz|Hnz].
        * rewrite csucc_cupd by reflexivity. rewrite (csucc_present r es s e Hn (or_intror Hpos)).
          cbn [deref bind]. rewrite cdel_cupd by reflexivity. f_equal. symmetry.
          apply (unpark_drop r s es 0%nat e); [lia|lia|exact Hent|exact El].
        * rewrite <- (unpark_keep r s es 0%nat Hrs) by (intros; right; lia). f_equal.
          apply mark_id. intros _. exists e. auto. }
  unfold c_close. rewrite Hs. cbn [deref bind]. rewrite Hrel. cbn [bind].
  eexists. split; [reflexivity|].
  constructor; cbn [cells cvals citers entries opos].
  - apply cells_from_ext. intros x _. symmetry. apply cnt_aremove; [exact (r2_names _ _ H)|exact Hs].
  - exact (r2_vals _ _ H).
  - exact (r2_nodup _ _ H).
  - apply aremove_nodup. exact (r2_names _ _ H).
  - apply trel_aremove. exact (r2_iters _ _ H).
Qed.

(** * One step, any operation *)

Definition op_ok (names : list Z) (o : op) : Prop :=
  match o with
  | ONewIter i => ~ In i names
  | OHasNext i | ONext i | OClose i => In i names
  | _ => True
  end.

Lemma c_do_sim c o x : R2 c o -> op_ok (map fst (opos o)) x ->
  exists c', c_do c x = Ok (c', snd (o_step o x)) /\ R2 c' (fst (o_step o x)).
Proof.
  intros H Hok. pose proof (trel_keys _ _ _ (r2_iters _ _ H)) as Hk.
  destruct x as [k v|k|k| | |i|i|i|i]; cbn [c_do op_ok] in *.
  - apply sim_add. exact H.
  - destruct (sim_remove c o k H) as (c' & Hc & HR). exists c'. split; [exact Hc|exact HR].
  - exists c. split; [apply sim_get; exact H|exact H].
  - exists c. cbn [o_step fst snd]. rewrite (sim_len c o H). split; [reflexivity|exact H].
  - (* First = Iterator; Next; Close on a name nobody uses *)
    unfold c_first. set (name := fresh_name (akeys (citers c))).
    assert (Hfresh : ~ In name (map fst (citers c))) by apply fresh_name_notin.
    assert (Hfresh' : ~ In name (map fst (opos o))) by (rewrite <- Hk; exact Hfresh).
    destruct (sim_iterator c o name H Hfresh) as (c1 & Hc1 & HR1). rewrite Hc1. cbn [bind].
    set (o1 := mkOMap (entries o) ((name, 0%nat) :: opos o)) in *.
    assert (Hp1 : alookup name (opos o1) = Some 0%nat) by (cbn; rewrite Z.eqb_refl; reflexivity).
    destruct (sim_itnext c1 o1 name 0%nat HR1 Hp1) as (c2 & Hc2 & HR2). rewrite Hc2. cbn [bind].
    cbn [o_step] in Hc2, HR2 |- *. rewrite Hp1 in HR2 |- *. cbn [entries o1] in HR2 |- *.
    destruct (first_live (entries o) 0) as [[j e]|] eqn:Ef; cbn [fst snd] in HR2 |- *.
    + cbn [opos o1] in HR2. rewrite aset_cons_same, aset_notin in HR2 by exact Hfresh'.
      destruct (sim_close c2 _ name (S j) HR2) as (c3 & Hc3 & HR3); [cbn; rewrite Z.eqb_refl; reflexivity|].
      rewrite Hc3. cbn [bind]. exists c3. split; [reflexivity|].
      cbn [entries opos] in HR3. rewrite aremove_cons_same, aremove_notin in HR3 by exact Hfresh'.
      destruct o. exact HR3.
    + destruct (sim_close c2 o1 name 0%nat HR2 Hp1) as (c3 & Hc3 & HR3).
      rewrite Hc3. cbn [bind]. exists c3. split; [reflexivity|].
      cbn [entries opos o1] in HR3. rewrite aremove_cons_same, aremove_notin in HR3 by exact Hfresh'.
      destruct o. exact HR3.
  - rewrite <- Hk in Hok. apply sim_iterator; assumption.
  - destruct (alookup_some_in i (opos o) Hok) as (p & Hp). cbn [o_step]. rewrite Hp.
    apply sim_hasnext; assumption.
  - destruct (alookup_some_in i (opos o) Hok) as (p & Hp). apply (sim_itnext c o i p); assumption.
  - destruct (alookup_some_in i (opos o) Hok) as (p & Hp). cbn [o_step]. rewrite Hp.
    apply (sim_close c o i p); assumption.
Qed.

Lemma o_step_no_stop o x : op_ok (map fst (opos o)) x -> is_stop (snd (o_step o x)) = false.
Proof.
  destruct x as [k v|k|k| | |i|i|i|i]; cbn [op_ok o_step]; intros Hok;
    try (destruct (alookup_some_in i (opos o) Hok) as (p & ->)); try reflexivity.
  - destruct (o_find (entries o) k); reflexivity.
  - destruct (first_live (entries o) p) as [[j e]|]; reflexivity.
Qed.

Lemma o_step_names o x : op_ok (map fst (opos o)) x ->
  map fst (opos (fst (o_step o x))) =
  match x with
  | ONewIter i => i :: map fst (opos o)
  | OClose i => filter (fun y => negb (y =? i)) (map fst (opos o))
  | _ => map fst (opos o)
  end.
Proof.
  destruct x as [k v|k|k| | |i|i|i|i]; cbn [op_ok o_step]; intros Hok;
    try (destruct (alookup_some_in i (opos o) Hok) as (p & ->)); try reflexivity.
  - destruct (o_find (entries o) k); reflexivity.
  - destruct (first_live (entries o) p) as [[j e]|]; cbn [fst opos]; [apply aset_keys|reflexivity].
  - cbn [fst opos]. apply aremove_keys.
Qed.

(** * Whole histories *)

Lemma wf_head_ok open names x t :
  (forall y, In y open <-> In y names) -> wf_from open (x :: t) = true -> op_ok names x.
Proof.
  intros Hs Hwf. destruct x as [k v|k|k| | |i|i|i|i]; cbn [wf_from op_ok] in *; try exact I;
    apply andb_true_iff in Hwf; destruct Hwf as [Hm _].
  - apply negb_true_iff, memZ_false in Hm. rewrite <- Hs. exact Hm.
  - apply memZ_in in Hm. apply Hs. exact Hm.
  - apply memZ_in in Hm. apply Hs. exact Hm.
  - apply memZ_in in Hm. apply Hs. exact Hm.
Qed.

Definition open_after (open : list Z) (x : op) : list Z :=
  match x with
  | ONewIter i => i :: open
  | OClose i => filter (fun y => negb (y =? i)) open
  | _ => open
  end.

Lemma wf_tail open x t : wf_from open (x :: t) = true -> wf_from (open_after open x) t = true.
Proof.
  destruct x as [k v|k|k| | |i|i|i|i]; cbn [wf_from open_after]; intros H; try exact H;
    apply andb_true_iff in H; tauto.
Qed.

Lemma open_after_names open o x :
  (forall y, In y open <-> In y (map fst (opos o))) -> op_ok (map fst (opos o)) x ->
  forall y, In y (open_after open x) <-> In y (map fst (opos (fst (o_step o x)))).
Proof.
  intros Hs Hok y. rewrite (o_step_names o x Hok).
  destruct x as [k v|k|k| | |i|i|i|i]; cbn [open_after]; try apply Hs.
  - cbn [In]. rewrite Hs. tauto.
  - rewrite !filter_In, Hs. tauto.
Qed.

Theorem chain_run_sim : forall h open c o,
  R2 c o -> (forall y, In y open <-> In y (map fst (opos o))) -> wf_from open h = true ->
  fst (run c_step c h) = fst (run o_step o h) /\
  R2 (snd (run c_step c h)) (snd (run o_step o h)) /\
  Forall (fun x => is_stop x = false) (fst (run o_step o h)).
Proof.
  induction h as [|x t IH]; intros open c o HR Hs Hwf; cbn [run].
  - cbn. auto.
  - pose proof (wf_head_ok open _ x t Hs Hwf) as Hok.
    destruct (c_do_sim c o x HR Hok) as (c' & Hc & HR').
    unfold c_step at 1 3. rewrite Hc.
    pose proof (o_step_no_stop o x Hok) as Hns.
    destruct (o_step o x) as [o' y] eqn:Eo. cbn [fst snd] in *. rewrite Hns.
    specialize (IH (open_after open x) c' o' HR').
    destruct IH as (IH1 & IH2 & IH3).
    + pose proof (open_after_names open o x Hs Hok) as Hn. rewrite Eo in Hn. exact Hn.
    + apply wf_tail. exact Hwf.
    + destruct (run c_step c' t) as [xs cf]. destruct (run o_step o' t) as [ys of]. cbn [fst snd] in *.
      subst ys. split; [reflexivity|]. split; [exact IH2|]. constructor; assumption.
Qed.

Theorem chain_refines_omap h : wf_hist h -> run_chain h = run_omap h.
Proof.
  intros Hwf. unfold run_chain, run_omap, outs.
  apply (chain_run_sim h [] c_new o_new R2_init); [cbn; tauto|exact Hwf].
Qed.

Theorem chain_no_panic h : wf_hist h -> Forall (fun x => is_stop x = false) (run_chain h).
Proof.
  intros Hwf. destruct (chain_run_sim h [] c_new o_new R2_init) as (H1 & _ & H3); [cbn; tauto|exact Hwf|].
  unfold run_chain, outs. rewrite H1. exact H3.
Qed.
