(** C05, part 2: a dead holder's record lapses within one lease period; after Unlock
    the renewal of the tenure dies out (model/LeaseLTS.v). No timing hypotheses are
    needed for these: they hold for every accepted trace. *)
From Coq Require Import List ZArith Bool Lia.
From GL Require Import model.LeaseLTS spec.Lease.
Import ListNotations.
Open Scope Z_scope.

Ltac simp_st := cbn [set_now set_rec set_hs set_tst hs rec tst fails now tver nextv] in *.

(* case analysis of one step: destructs every scrutinee of [step] *)
Ltac crush_step Hs :=
  cbn [step] in Hs;
  repeat match type of Hs with
         | context [match ?x with _ => _ end] => destruct x eqn:?
         end;
  try discriminate Hs; inversion Hs; subst; clear Hs; simp_st.

(** * Expiry bound: the holder's record never outlives (last sign of life) + TTL *)


Definition exp_inv (TTL : Z) (s : state) : Prop :=
  clock s <= now s /\
  (forall r, rec s = Some r -> r_owner r = 0 -> r_exp r <= clock s + TTL) /\
  (forall i due, tst s = TFired i due -> i <= clock s) /\
  (forall i, hs s = HAcquiring i -> i <= now s).

Lemma exp_inv_init TTL : exp_inv TTL init.
Proof. unfold exp_inv, clock. cbn. repeat split; try lia; intros; discriminate. Qed.

Ltac inj_all :=
  repeat match goal with
         | H : Some _ = Some _ |- _ => inversion H; subst; clear H
         | H : HAcquiring _ = HAcquiring _ |- _ => inversion H; subst; clear H
         | H : HDead _ = HDead _ |- _ => inversion H; subst; clear H
         | H : TFired _ _ = TFired _ _ |- _ => inversion H; subst; clear H
         | H : TApplied _ _ = TApplied _ _ |- _ => inversion H; subst; clear H
         | H : (_ <=? _) = true |- _ => apply Z.leb_le in H
         | H : (_ <? _) = true |- _ => apply Z.ltb_lt in H
         | H : (_ <? _) = false |- _ => apply Z.ltb_ge in H
         | H : (_ =? _) = true |- _ => apply Z.eqb_eq in H
         | H : (_ =? _) = false |- _ => apply Z.eqb_neq in H
         | H : (_ && _) = true |- _ => apply andb_true_iff in H; destruct H
         end.

Lemma exp_inv_step TTL s l s' r :
  exp_inv TTL s -> step TTL s l = Some (s', r) -> exp_inv TTL s'.
Proof.
  intros (Hc & Hr & Hf & Ha) Hs. unfold exp_inv, clock in *.
  destruct l; crush_step Hs; inj_all;
    repeat split; intros; inj_all; simp_st; cbn [r_exp r_owner r_ver] in *;
    try discriminate;
    try (match goal with
         | Hx : rec _ = Some ?r0, Ho : r_owner ?r0 = 0 |- _ => pose proof (Hr _ Hx Ho)
         end);
    try (match goal with
         | Hx : tst _ = TFired _ _ |- _ => pose proof (Hf _ _ Hx)
         end);
    try (match goal with
         | Hx : hs _ = HAcquiring _ |- _ => pose proof (Ha _ Hx)
         end);
    try (pose proof (Ha _ eq_refl));
    try (pose proof (Hf _ _ eq_refl));
    try (match goal with Ho : r_owner ?r0 = 0 |- _ => pose proof (Hr r0 eq_refl Ho) end);
    try lia;
    destruct (hs _) eqn:?; try discriminate; try lia.
Qed.

Lemma exp_inv_run TTL tr : forall s0 s,
  exp_inv TTL s0 -> run TTL s0 tr = Some s -> exp_inv TTL s.
Proof.
  induction tr as [|l t IH]; intros s0 s Hinv Hrun.
  - cbn in Hrun. inversion Hrun; subst. exact Hinv.
  - cbn [run] in Hrun. unfold step_st in Hrun.
    destruct (step TTL s0 l) as [[s1 r1]|] eqn:Hst; [|discriminate].
    eapply IH; [|exact Hrun]. eapply exp_inv_step; eauto.
Qed.

(** dead_holder_released: once the holder died at [d], whatever happens afterwards
    (including one renewal that was in flight when it died), at every instant later
    than d + TTL the storage holds no record of that tenure, and a contender's Create
    on a free key succeeds. (No storage-latency term is needed: ExpiresAt is computed
    by the caller before the call is issued, i.e. no later than [d].) *)
Lemma dead_holder_released TTL : forall tr s d,
  run TTL init tr = Some s ->
  hs s = HDead d ->
  d + TTL < now s ->
  holder_rec_absent s = true /\
  (forall n e, 0 < n -> present s = None ->
     exists s', step TTL s (ContenderTry n e) = Some (s', RCreated (nextv s)) /\
                rec s' = Some (mkRec (nextv s) e n)).
Proof.
  intros tr s d Hrun Hd Hlate.
  pose proof (exp_inv_run TTL tr init s (exp_inv_init TTL) Hrun) as (Hc & Hr & _ & _).
  unfold clock in *. rewrite Hd in *.
  split.
  - unfold holder_rec_absent, present.
    destruct (rec s) as [r|] eqn:Hrec; [|reflexivity].
    destruct (r_exp r <? now s) eqn:He; [reflexivity|].
    apply Z.ltb_ge in He.
    destruct (r_owner r =? 0) eqn:Ho; [|reflexivity].
    apply Z.eqb_eq in Ho. specialize (Hr r eq_refl Ho). lia.
  - intros n e Hn Hp. cbn [step]. rewrite Hp.
    destruct (0 <? n) eqn:E; [|apply Z.ltb_ge in E; lia].
    eexists. split; reflexivity.
Qed.

(* the bound behind it, for every state: the record of the tenure never outlives
   (the last instant at which the holder was alive) + TTL *)
Lemma holder_record_bound TTL : forall tr s r,
  run TTL init tr = Some s -> rec s = Some r -> r_owner r = 0 ->
  r_exp r <= clock s + TTL.
Proof.
  intros tr s r Hrun Hr Ho.
  pose proof (exp_inv_run TTL tr init s (exp_inv_init TTL) Hrun) as (_ & H & _ & _). auto.
Qed.

(** after death the chain does at most one more storage call (the one in flight),
    no timer fires and nothing is armed *)

Lemma dead_chain TTL tr : forall s s',
  is_dead (hs s) = true -> run TTL s tr = Some s' ->
  is_dead (hs s') = true /\
  (cas_count tr <= match tst s with TFired _ _ => 1 | _ => 0 end)%nat /\
  (forall l, In l tr -> holder_local l = false).
Proof.
  induction tr as [|l t IH]; intros s s' Hd Hrun.
  - cbn in Hrun. inversion Hrun; subst. split; [exact Hd|]. split; [cbn; destruct (tst s'); lia|]. intros l [].
  - cbn [run] in Hrun. unfold step_st in Hrun.
    destruct (step TTL s l) as [[s1 r1]|] eqn:Hst; [|discriminate].
    assert (Hstep : is_dead (hs s1) = true /\ holder_local l = false /\
                    (if is_cas l then exists i due, tst s = TFired i due /\
                        match tst s1 with TFired _ _ => False | _ => True end
                     else tst s1 = tst s)).
    { destruct (hs s) eqn:Hh; try discriminate Hd.
      destruct l; crush_step Hst; rewrite ?Hh; cbn; try (repeat split; reflexivity); try discriminate;
        try (repeat split; try reflexivity; eexists; eexists; split; [reflexivity|exact I]);
        exfalso; rewrite Hh in *; cbn in *; rewrite ?andb_false_r in *; discriminate. }
    destruct Hstep as (Hd1 & Hl & Hc).
    destruct (IH s1 s' Hd1 Hrun) as (Hd' & Hcnt & Hloc).
    split; [exact Hd'|]. split.
    + unfold cas_count in *. cbn [filter]. destruct (is_cas l).
      * destruct Hc as (i & due & Ht & Hn). rewrite Ht. cbn [length].
        destruct (tst s1); try contradiction; lia.
      * rewrite Hc in Hcnt. exact Hcnt.
    + intros l0 [Hl0|Hl0]; [subst; exact Hl | auto].
Qed.

Lemma run_split TTL a : forall b s s',
  run TTL s (a ++ b) = Some s' -> exists m, run TTL s a = Some m /\ run TTL m b = Some s'.
Proof.
  induction a as [|l t IH]; intros b s s' H.
  - exists s. split; [reflexivity | exact H].
  - cbn [app run] in *. destruct (step_st TTL s l) as [s1|]; [|discriminate]. apply IH; exact H.
Qed.

Lemma dead_holder_one_cas TTL : forall tr1 tr2 s,
  run TTL init (tr1 ++ Die :: tr2) = Some s ->
  (cas_count tr2 <= 1)%nat /\ (forall l, In l tr2 -> holder_local l = false).
Proof.
  intros tr1 tr2 s Hrun.
  apply run_split in Hrun. destruct Hrun as (m & _ & Hrun).
  cbn [run] in Hrun. unfold step_st in Hrun.
  destruct (step TTL m Die) as [[m1 r1]|] eqn:Hst; [|discriminate].
  assert (Hd : is_dead (hs m1) = true) by (crush_step Hst; reflexivity).
  destruct (dead_chain TTL tr2 m1 s Hd Hrun) as (_ & Hc & Hl).
  split; [|exact Hl]. destruct (tst m1); lia.
Qed.

(** * After Unlock the renewal dies out *)

(* versions are fresh: everything the chain remembers is below the counter *)
Definition ver_inv (s : state) : Prop :=
  tver s < nextv s /\
  (forall r, rec s = Some r -> r_ver r < nextv s) /\
  (forall i v, tst s = TApplied i v -> v < nextv s).

Lemma ver_inv_init : ver_inv init.
Proof. unfold ver_inv. cbn. repeat split; try lia; intros; discriminate. Qed.

Lemma ver_inv_step TTL s l s' r :
  ver_inv s -> step TTL s l = Some (s', r) -> ver_inv s'.
Proof.
  intros (Ht & Hr & Ha) Hs. unfold ver_inv in *.
  destruct l; crush_step Hs; inj_all;
    repeat split; intros; inj_all; simp_st; cbn [r_exp r_owner r_ver] in *;
    try discriminate;
    try (match goal with Hx : rec _ = Some ?r0 |- _ => pose proof (Hr _ Hx) end);
    try (match goal with Hx : tst _ = TApplied _ _ |- _ => pose proof (Ha _ _ Hx) end);
    try (pose proof (Ha _ _ eq_refl));
    try (pose proof (Hr _ eq_refl));
    try lia.
Qed.

Lemma ver_inv_run TTL tr : forall s0 s,
  ver_inv s0 -> run TTL s0 tr = Some s -> ver_inv s.
Proof.
  induction tr as [|l t IH]; intros s0 s Hinv Hrun.
  - cbn in Hrun. inversion Hrun; subst. exact Hinv.
  - cbn [run] in Hrun. unfold step_st in Hrun.
    destruct (step TTL s0 l) as [[s1 r1]|] eqn:Hst; [|discriminate].
    eapply IH; [|exact Hrun]. eapply ver_inv_step; eauto.
Qed.

(* after the Delete of Unlock: whatever is stored has a version the chain does not know *)
Definition stale_inv (s : state) : Prop :=
  hs s = HUnlocked /\ ver_inv s /\
  (forall r, rec s = Some r ->
     r_ver r <> tver s /\ (forall i v, tst s = TApplied i v -> r_ver r <> v)).

Definition done_inv (s : state) : Prop := hs s = HUnlocked /\ tst s = TDone.

Lemma done_step TTL s l s' r :
  done_inv s -> step TTL s l = Some (s', r) -> done_inv s' /\ chain_label l = false.
Proof.
  intros (Hh & Ht) Hs. unfold done_inv.
  destruct l; crush_step Hs; try congruence; auto.
Qed.

Lemma done_run TTL tr : forall s s',
  done_inv s -> run TTL s tr = Some s' -> forall l, In l tr -> chain_label l = false.
Proof.
  induction tr as [|l t IH]; intros s s' Hd Hrun l0 Hin; [destruct Hin|].
  cbn [run] in Hrun. unfold step_st in Hrun.
  destruct (step TTL s l) as [[s1 r1]|] eqn:Hst; [|discriminate].
  destruct (done_step TTL s l s1 r1 Hd Hst) as (Hd1 & Hl).
  destruct Hin as [->|Hin]; [exact Hl | eapply IH; eauto].
Qed.

Lemma present_some s r : present s = Some r -> rec s = Some r.
Proof.
  unfold present. destruct (rec s) as [r0|]; [|discriminate].
  destruct (r_exp r0 <? now s); [discriminate|]. intros H; inversion H; reflexivity.
Qed.

Lemma stale_step TTL s l s' r :
  stale_inv s -> step TTL s l = Some (s', r) -> l <> StCas FReplyLost ->
  if is_applied_cas l then
    (r = RNotExist \/ r = RConflict) /\ done_inv s' /\
    present s' = present s /\ nextv s' = nextv s
  else stale_inv s'.
Proof.
  intros (Hh & Hv & Hst) Hs Hl.
  pose proof (ver_inv_step TTL s l s' r Hv Hs) as Hv'.
  destruct Hv as (Hv1 & Hv2 & Hv3).
  destruct l; try (destruct f); cbn [is_applied_cas]; try congruence.
  all: unfold stale_inv, done_inv.
  all: crush_step Hs; try congruence.
  all: try (split; [first [exact Hh | reflexivity | congruence]|]; split; [exact Hv'|]).
  all: try (intros r0 Hr0; try discriminate Hr0; inj_all; simp_st; cbn [r_ver] in *).
  all: try (destruct (Hst _ Hr0) as (Hn1 & Hn2); split;
            [first [exact Hn1 | eapply Hn2; eauto]
            | intros i0 v0 Hx0; first [discriminate Hx0 | eapply Hn2; exact Hx0]]).
  - (* a renewal that would be applied: impossible, the stored version is unknown to the chain *)
    exfalso. inj_all.
    match goal with Hp : present s = Some ?r0 |- _ => apply present_some in Hp; destruct (Hst _ Hp) as (Hn1 & _) end.
    congruence.
  - split; [right; reflexivity|]. split; [split; [exact Hh | reflexivity]|].
    split; [|reflexivity]. unfold present in *. simp_st. assumption.
  - split; [left; reflexivity|]. split; [split; [exact Hh | reflexivity]|].
    split; [|reflexivity]. unfold present. simp_st. reflexivity.
  - split; [lia|]. intros i0 v0 Hx0. pose proof (Hv3 _ _ Hx0). lia.
Qed.

Lemma no_chain_no_applied tr :
  (forall l, In l tr -> chain_label l = false) -> applied_cas tr = 0%nat.
Proof.
  unfold applied_cas. induction tr as [|l t IH]; intros H; [reflexivity|].
  cbn [filter]. assert (Hl : chain_label l = false) by (apply H; left; reflexivity).
  destruct l; try discriminate Hl; cbn [is_applied_cas]; apply IH; intros; apply H; right; assumption.
Qed.

Lemma stale_run TTL tr : forall s s',
  stale_inv s -> run TTL s tr = Some s' -> ~ In (StCas FReplyLost) tr ->
  after_unlock_spec TTL s tr /\ (applied_cas tr <= 1)%nat.
Proof.
  induction tr as [|l t IH]; intros s s' Hst Hrun Hnr.
  - cbn. split; [exact I | unfold applied_cas; cbn; lia].
  - cbn [run] in Hrun. unfold step_st in Hrun.
    destruct (step TTL s l) as [[s1 r1]|] eqn:Hs; [|discriminate].
    assert (Hl : l <> StCas FReplyLost) by (intros ->; apply Hnr; left; reflexivity).
    assert (Hnr' : ~ In (StCas FReplyLost) t) by (intros Hin; apply Hnr; right; exact Hin).
    pose proof (stale_step TTL s l s1 r1 Hst Hs Hl) as Hstep.
    cbn [after_unlock_spec]. rewrite Hs.
    unfold applied_cas in *. cbn [filter].
    destruct (is_applied_cas l) eqn:Hap.
    + destruct Hstep as (Hr & Hd & Hp & Hn).
      pose proof (done_run TTL t s1 s' Hd Hrun) as Hnc.
      split.
      * split; [exact Hr|]. split; [apply Hd|]. split; [exact Hp|]. split; [exact Hn | exact Hnc].
      * cbn [length]. pose proof (no_chain_no_applied t Hnc) as H0. unfold applied_cas in H0. lia.
    + destruct (IH s1 s' Hstep Hrun Hnr') as (Ha & Hc). split; assumption.
Qed.

Lemma run_join TTL a : forall b s m s',
  run TTL s a = Some m -> run TTL m b = Some s' -> run TTL s (a ++ b) = Some s'.
Proof.
  induction a as [|l t IH]; intros b s m s' Ha Hb.
  - cbn in Ha. inversion Ha; subst. exact Hb.
  - cbn [app run] in *. destruct (step_st TTL s l) as [s1|]; [|discriminate]. eapply IH; eauto.
Qed.

(** renewal_dies_after_unlock: in every accepted trace, after the (unfaulted) Delete of
    Unlock, as long as no later renewal call loses its reply: at most one renewal call
    of the tenure reaches the storage, it is answered ErrNotExist/ErrConflict, it
    changes nothing, and nothing of the chain happens after it. *)
Lemma renewal_dies_after_unlock TTL : forall tr1 tr2 s,
  run TTL init (tr1 ++ StDelete FOk :: tr2) = Some s ->
  ~ In (StCas FReplyLost) tr2 ->
  exists sm, run TTL init (tr1 ++ [StDelete FOk]) = Some sm /\
    hs sm = HUnlocked /\ rec sm = None /\
    after_unlock_spec TTL sm tr2 /\ (applied_cas tr2 <= 1)%nat.
Proof.
  intros tr1 tr2 s Hrun Hnr.
  apply run_split in Hrun. destruct Hrun as (m & Hm & Hrun).
  pose proof (ver_inv_run TTL tr1 init m ver_inv_init Hm) as Hvm.
  cbn [run] in Hrun. unfold step_st in Hrun.
  destruct (step TTL m (StDelete FOk)) as [[sm r]|] eqn:Hs; [|discriminate].
  pose proof (ver_inv_step TTL m _ sm r Hvm Hs) as Hvs.
  assert (Hsm : hs sm = HUnlocked /\ rec sm = None) by (crush_step Hs; split; reflexivity).
  destruct Hsm as (Hh & Hr).
  exists sm. split.
  - eapply run_join; [exact Hm|]. cbn [run]. unfold step_st. rewrite Hs. reflexivity.
  - split; [exact Hh|]. split; [exact Hr|].
    eapply stale_run; eauto.
    split; [exact Hh|]. split; [exact Hvs|]. intros r0 Hr0. rewrite Hr in Hr0. discriminate.
Qed.
