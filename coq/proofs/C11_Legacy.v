(** C11, part 4: the defect D2.  [ECache.Clear] as it was before commit 103acbd
    never closes its iterator.  Over the (correct) pointer map this is a
    well-formed use of the map that leaves one iterator open per call: the
    iterator stays parked on the sentinel, the sentinel becomes the next
    entry, and when that entry is removed it stays on the list for ever.
    Hence every [Clear] that follows a successful creation adds one node that
    is never unlinked: the number of nodes reachable from head grows without
    bound ([legacy_clear_leaks]).

    The proof runs the cache at three levels: the specification (what the
    calls return), the chain L2 (which cell every iterator is parked on) and
    the pointer model L1 (the nodes), tied by C11_CacheSim. *)
From Coq Require Import List ZArith Arith Bool Lia Sorted.
From GL Require Import lib.IMapBase model.IMap model.Chain spec.OMap model.IMapLRU model.legacy.IMapLRULegacy
  proofs.C10_Assoc proofs.C10_Cells proofs.C10_Next proofs.C10_R2 proofs.C10_ChainSim
  proofs.C10_Heap proofs.C10_L1 proofs.C10_Repr proofs.C10_Main
  proofs.C11_Chain proofs.C11_CacheSim proofs.C11_LRU.
Import ListNotations.
Open Scope Z_scope.

(** * Chain level: which cell the iterators are parked on *)

Lemma c_step_ok c x c' y : mstep c_step c x = Ok (c', y) -> c_do c x = Ok (c', y).
Proof.
  intros H. apply mstep_ok_inv in H. destruct H as [H Hs]. unfold c_step in H.
  destruct (c_do c x) as [r| |]; [congruence| |]; injection H as <- <-; discriminate Hs.
Qed.

Lemma c_do_ok_step c x c' y : c_do c x = Ok (c', y) -> is_stop y = false -> mstep c_step c x = Ok (c', y).
Proof. intros H Hs. apply mstep_ok_intro; [|exact Hs]. unfold c_step. rewrite H. reflexivity. Qed.

Lemma aremove_aset_same {V} i (p : V) l : aremove i (aset i p l) = aremove i l.
Proof.
  unfold aremove, aset. induction l as [|[k v] t IH]; cbn [map filter fst]; [reflexivity|].
  destruct (Z.eqb_spec k i) as [->|Hne]; cbn [fst].
  - rewrite Z.eqb_refl. cbn [negb]. exact IH.
  - destruct (Z.eqb_spec k i); [contradiction|]. cbn [negb]. f_equal. exact IH.
Qed.

Lemma aremove_idem {V} i (l : list (Z * V)) : aremove i (aremove i l) = aremove i l.
Proof. apply aremove_notin. apply aremove_not_in. Qed.

Lemma c_iterator_citers c i c' y : c_iterator c i = Ok (c', y) -> exists st, citers c' = (i, st) :: citers c.
Proof.
  unfold c_iterator. destruct (hd_error (cells c)) as [hd|]; [|discriminate]. cbn [deref bind].
  intros [= <- _]. eexists. reflexivity.
Qed.

Lemma c_hasnext_citers c i c' y : c_hasnext c i = Ok (c', y) -> exists p, citers c' = aset i p (citers c).
Proof.
  unfold c_hasnext. destruct (alookup i (citers c)); [|discriminate]. cbn [deref bind].
  destruct (c_getvalue (cells c) n) as [[cs p]| |]; try discriminate. cbn [bind].
  destruct (cfind p cs); try discriminate. cbn [bind]. intros [= <- _]. eexists. reflexivity.
Qed.

Lemma c_itnext_citers c i c' y : c_itnext c i = Ok (c', y) -> exists p, citers c' = aset i p (citers c).
Proof.
  unfold c_itnext. destruct (alookup i (citers c)); [|discriminate]. cbn [deref bind].
  destruct (c_getvalue (cells c) n) as [[cs p]| |]; try discriminate. cbn [bind].
  destruct (cfind p cs); try discriminate. cbn [bind].
  destruct (c_next (cfuel cs) cs p) as [[cs2 p2]| |]; try discriminate. cbn [bind].
  intros [= <- _]. eexists. reflexivity.
Qed.

Lemma c_close_citers c i c' y : c_close c i = Ok (c', y) -> citers c' = aremove i (citers c).
Proof.
  unfold c_close. destruct (alookup i (citers c)); [|discriminate]. cbn [deref bind].
  destruct (c_release (cells c) n); try discriminate. cbn [bind]. intros [= <- _]. reflexivity.
Qed.

(* the calls the cache makes leave every iterator but [it] where it is *)
Lemma c_do_frame it c x c' y : c_do c x = Ok (c', y) -> basic it x \/ x = ONewIter it ->
  aremove it (citers c') = aremove it (citers c).
Proof.
  intros H Hb. destruct x as [k v|k|k| | |i|i|i|i]; cbn [c_do] in H.
  - unfold c_add in H. destruct (alookup k (cvals c)); [injection H as <- _; reflexivity|].
    destruct (clast (cells c)) as [l| |]; try discriminate H. cbn [bind] in H.
    destruct (c_st l); try discriminate H. injection H as <- _. reflexivity.
  - unfold c_remove in H. destruct (alookup k (cvals c)); [|injection H as <- _; reflexivity].
    destruct (c_delete (cells c) n) as [cs| |]; try discriminate H. injection H as <- _. reflexivity.
  - unfold c_get in H. destruct (alookup k (cvals c)); [|injection H as <- _; reflexivity].
    destruct (cfind n (cells c)) as [cl| |]; try discriminate H. injection H as <- _. reflexivity.
  - injection H as <- _. reflexivity.
  - unfold c_first in H. set (name := fresh_name (akeys (citers c))) in *.
    assert (Hfresh : ~ In name (map fst (citers c))) by apply fresh_name_notin.
    destruct (c_iterator c name) as [[c1 y1]| |] eqn:E1; try discriminate H. cbn [bind] in H.
    destruct (c_itnext c1 name) as [[c2 y2]| |] eqn:E2; try discriminate H. cbn [bind] in H.
    destruct (c_close c2 name) as [[c3 y3]| |] eqn:E3; try discriminate H. cbn [bind] in H.
    injection H as <- _.
    destruct (c_iterator_citers _ _ _ _ E1) as (st & H1). destruct (c_itnext_citers _ _ _ _ E2) as (p & H2).
    rewrite (c_close_citers _ _ _ _ E3), H2, H1.
    rewrite aset_cons_same, aremove_cons_same, (aset_notin name p (citers c) Hfresh), (aremove_notin name (citers c) Hfresh).
    reflexivity.
  - destruct Hb as [[]|[= ->]]. destruct (c_iterator_citers _ _ _ _ H) as (st & ->). apply aremove_cons_same.
  - destruct Hb as [Hb|Hb]; [|discriminate Hb]. cbn [basic] in Hb. subst i.
    destruct (c_hasnext_citers _ _ _ _ H) as (p & ->). apply aremove_aset_same.
  - destruct Hb as [Hb|Hb]; [|discriminate Hb]. cbn [basic] in Hb. subst i.
    destruct (c_itnext_citers _ _ _ _ H) as (p & ->). apply aremove_aset_same.
  - destruct Hb as [Hb|Hb]; [|discriminate Hb]. cbn [basic] in Hb. subst i.
    rewrite (c_close_citers _ _ _ _ H). apply aremove_idem.
Qed.

(* when the loop of Clear ends, its iterator is parked on the sentinel *)
Lemma c_clear_loop_end it : forall fuel c removed c' n,
  lc_clear_loop c_step fuel c it removed = Ok (c', n) ->
  exists s cl, alookup it (citers c') = Some s /\ In cl (cells c') /\ c_stamp cl = s /\ c_st cl = StLast.
Proof.
  induction fuel as [|f IH]; intros c removed c' n H; [discriminate|]. cbn [lc_clear_loop] in H.
  destruct (mstep c_step c (OHasNext it)) as [[c1 rh]| |] eqn:E1; try discriminate H. cbn [bind] in H.
  assert (Hend : rh <> OutBool true -> Ok (c1, removed) = Ok (c', n) ->
    exists s cl, alookup it (citers c') = Some s /\ In cl (cells c') /\ c_stamp cl = s /\ c_st cl = StLast).
  { intros Hrh [= <- <-]. apply c_step_ok in E1. cbn [c_do] in E1. unfold c_hasnext in E1.
    destruct (alookup it (citers c)) as [p0|] eqn:Ep; [|discriminate E1]. cbn [deref bind] in E1.
    destruct (c_getvalue (cells c) p0) as [[cs p]| |]; try discriminate E1. cbn [bind] in E1.
    destruct (cfind p cs) as [cl| |] eqn:Ef; try discriminate E1. injection E1 as <- <-.
    exists p, cl. cbn [citers cells]. split.
    - apply alookup_aset_same. apply alookup_in in Ep. apply (in_map fst) in Ep. exact Ep.
    - destruct (cfind_some_in _ _ _ Ef) as [Hin Hs]. split; [exact Hin|]. split; [exact Hs|].
      destruct (c_st cl); try reflexivity; exfalso; apply Hrh; reflexivity. }
  destruct rh as [| | | | |[|]| | |]; try (apply Hend; [discriminate|exact H]).
  destruct (mstep c_step c1 (ONext it)) as [[c2 rn]| |]; try discriminate H. cbn [bind] in H.
  destruct rn as [| | | | | |[[k v]|]| |]; try (eapply IH; exact H).
  destruct (mstep c_step c2 (ORemove k)) as [[c3 rr]| |]; try discriminate H. cbn [bind] in H.
  eapply IH. exact H.
Qed.

Lemma cells_from_last_stamp r es : forall i cl,
  In cl (cells_from r i es) -> c_st cl = StLast -> c_stamp cl = (i + length es)%nat.
Proof.
  induction es as [|e t IH]; intros i cl; cbn [cells_from length].
  - intros [<-|[]] _. cbn. lia.
  - rewrite in_app_iff. intros [H|H] Hst.
    + unfold cell_at in H. destruct (e_live e); [destruct H as [<-|[]]; discriminate|].
      destruct (0 <? r i); [destruct H as [<-|[]]; discriminate|destruct H].
    + rewrite (IH _ _ H Hst). lia.
Qed.

(** * The two instances of the cache simulation *)

(* pointer model over chain *)
Definition Rel12 (m : imap) (c : chain) : Prop := exists zs o, repr m c zs /\ R2 c o.

Lemma c_do_op_ok c o x c' y : R2 c o -> c_do c x = Ok (c', y) -> (forall i, x <> ONewIter i) ->
  op_ok (map fst (opos o)) x.
Proof.
  intros H2 H Hn. pose proof (trel_keys _ _ _ (r2_iters _ _ H2)) as Hk.
  destruct x as [k v|k|k| | |i|i|i|i]; cbn [op_ok]; try exact I.
  - exfalso. apply (Hn i). reflexivity.
  - cbn [c_do] in H. unfold c_hasnext in H. destruct (alookup i (citers c)) eqn:E; [|discriminate H].
    rewrite <- Hk. apply alookup_in in E. apply (in_map fst) in E. exact E.
  - cbn [c_do] in H. unfold c_itnext in H. destruct (alookup i (citers c)) eqn:E; [|discriminate H].
    rewrite <- Hk. apply alookup_in in E. apply (in_map fst) in E. exact E.
  - cbn [c_do] in H. unfold c_close in H. destruct (alookup i (citers c)) eqn:E; [|discriminate H].
    rewrite <- Hk. apply alookup_in in E. apply (in_map fst) in E. exact E.
Qed.

Lemma R12_step ch m c x c' y : Rel12 m c ->
  (forall o, R2 c o -> op_ok (map fst (opos o)) x) -> mstep c_step c x = Ok (c', y) ->
  exists m', mstep (i_step ch) m x = Ok (m', y) /\ Rel12 m' c'.
Proof.
  intros (zs & o & Hr & H2) Hok H. pose proof (mstep_ok_inv _ _ _ _ _ H) as [_ Hs].
  apply c_step_ok in H.
  destruct (step3 ch m c o x (ex_intro _ zs Hr) H2 (Hok o H2)) as (m' & c3 & Hi & Hc & (zs' & Hr') & H2').
  rewrite H in Hc. injection Hc as <- Hy.
  exists m'. split.
  - apply mstep_ok_intro; [|exact Hs]. unfold i_step. rewrite Hi, <- Hy. reflexivity.
  - exists zs', (fst (o_step o x)). auto.
Qed.

Lemma R12_Hstep ch it m c x c' y : basic it x -> Rel12 m c -> mstep c_step c x = Ok (c', y) ->
  exists m', mstep (i_step ch) m x = Ok (m', y) /\ Rel12 m' c'.
Proof.
  intros Hb HR H. apply (R12_step ch m c x c' y HR); [|exact H].
  intros o H2. apply (c_do_op_ok c o x c' y H2 (c_step_ok _ _ _ _ H)). intros i ->. exact Hb.
Qed.

Lemma R12_Hnew ch it m c c' y : ~ In it (map fst (citers c)) -> Rel12 m c ->
  mstep c_step c (ONewIter it) = Ok (c', y) ->
  exists m', mstep (i_step ch) m (ONewIter it) = Ok (m', y) /\ Rel12 m' c'.
Proof.
  intros Hf HR H. apply (R12_step ch m c _ c' y HR); [|exact H].
  intros o H2. cbn [op_ok]. rewrite <- (trel_keys _ _ _ (r2_iters _ _ H2)). exact Hf.
Qed.

(* chain over specification, remembering where the other iterators are *)
Definition RelF (old : list (Z * nat)) (it : Z) (c : chain) (o : omap) : Prop :=
  R2 c o /\ aremove it (citers c) = old.

Lemma RF_step old it c o x o' y : RelF old it c o -> op_ok (map fst (opos o)) x ->
  basic it x \/ x = ONewIter it -> mstep o_step o x = Ok (o', y) ->
  exists c', mstep c_step c x = Ok (c', y) /\ RelF old it c' o'.
Proof.
  intros [H2 Hold] Hok Hb H. apply mstep_ok_inv in H. destruct H as [Ho Hs].
  destruct (c_do_sim c o x H2 Hok) as (c' & Hc & H2'). rewrite Ho in Hc, H2'. cbn [fst snd] in *.
  exists c'. split; [apply c_do_ok_step; assumption|]. split; [exact H2'|].
  rewrite (c_do_frame it c x c' y Hc Hb). exact Hold.
Qed.

Lemma RF_Hstep old it c o x o' y : basic it x -> RelF old it c o -> mstep o_step o x = Ok (o', y) ->
  exists c', mstep c_step c x = Ok (c', y) /\ RelF old it c' o'.
Proof.
  intros Hb HR H. apply (RF_step old it c o x o' y HR); [|left; exact Hb|exact H].
  apply o_step_ok_names.
  - apply mstep_ok_inv in H. destruct H as [-> Hs]. exact Hs.
  - intros i ->. exact Hb.
Qed.

Lemma RF_Hnew old it c o o' y : ~ In it (names o) -> RelF old it c o -> mstep o_step o (ONewIter it) = Ok (o', y) ->
  exists c', mstep c_step c (ONewIter it) = Ok (c', y) /\ RelF old it c' o'.
Proof. intros Hf HR H. apply (RF_step old it c o _ o' y HR); [exact Hf|right; reflexivity|exact H]. Qed.

(** * The invariant of the pre-fix cache *)

(* [k] calls of Clear so far, [n] of them leaked a node: the stamps [ss] are pairwise
   different and each is the cell some open iterator is parked on; [strict]: an entry
   has been added since the last Clear, so all of them lie before the sentinel *)
Definition leak_inv (k : Z) (n : nat) (strict : bool) (s : @lru imap) : Prop :=
  l_clears s = k /\ 0 <= k /\
  exists c o zs ss,
    repr (l_map s) c zs /\ R2 c o /\
    (forall i, In i (map fst (citers c)) -> 0 <= i < k) /\
    length ss = n /\ StronglySorted (fun a b => (b < a)%nat) ss /\ incl ss (map snd (citers c)) /\
    (strict = true -> Forall (fun st => (st < length (entries o))%nat) ss).

Lemma leak_inv_init : leak_inv 0 0 false (mkLru i_new 0).
Proof.
  split; [reflexivity|]. split; [lia|].
  exists c_new, o_new, [(0%nat, mkCell 0 StLast 0 0 0)], []. split; [apply repr_init|]. split; [apply R2_init|].
  split; [intros i []|]. split; [reflexivity|]. split; [constructor|]. split; [intros x []|]. intros _. constructor.
Qed.

Lemma sorted_desc_nodup ss : StronglySorted (fun a b => (b < a)%nat) ss -> NoDup ss.
Proof.
  induction 1 as [|a l _ IH Hall]; constructor; [|exact IH].
  intros Hin. apply (proj1 (Forall_forall _ _) Hall) in Hin. lia.
Qed.

(* what the invariant says about the nodes *)
Lemma leak_inv_nodes k n strict s : leak_inv k n strict s -> (n <= length (i_chain (l_map s)))%nat.
Proof.
  intros (_ & _ & c & o & zs & ss & Hr & H2 & _ & Hlen & Hsort & Hincl & _).
  rewrite (chain_ids _ _ _ Hr). unfold ids_of. rewrite map_length, <- (map_length snd zs), <- (rp_cells _ _ _ Hr).
  rewrite <- Hlen, <- (map_length c_stamp (cells c)).
  apply NoDup_incl_length; [apply sorted_desc_nodup; exact Hsort|].
  intros st Hst. apply Hincl in Hst. apply in_map_iff in Hst. destruct Hst as ([i st'] & Hs & Hin). cbn [snd] in Hs. subst st'.
  destruct (ci_iters _ (cinv_of_R2 _ _ H2) i st Hin) as (cl & Hcl & Hs & _).
  rewrite <- Hs. apply in_map. exact Hcl.
Qed.

Lemma stamps_le c o : R2 c o -> forall st, In st (map snd (citers c)) -> (st <= length (entries o))%nat.
Proof.
  intros H2 st Hst. apply in_map_iff in Hst. destruct Hst as ([i st'] & Hs & Hin). cbn [snd] in Hs. subst st'.
  eapply irel_stamp_le; [exact (r2_iters _ _ H2)|exact Hin].
Qed.

Lemma names_R2 c o : R2 c o -> map fst (citers c) = names o.
Proof. intros H2. apply (trel_keys _ _ _ (r2_iters _ _ H2)). Qed.

(* GetOrCreate and Remove: nothing moves; a successful creation makes room before the sentinel *)
Lemma leak_step_other ch cap k n strict s x : leak_inv k n strict s -> x <> CClear ->
  leak_inv k n (match x with CGetOrCreate _ _ true => true | _ => strict end)
    (fst (lc_step_legacy (i_step ch) cap s x)).
Proof.
  intros (Hk & Hk0 & c & o & zs & ss & Hr & H2 & Hnm & Hlen & Hsort & Hincl & Hstrict) Hx.
  destruct s as [m kk]. cbn [l_map l_clears] in *. subst kk.
  assert (Hfresh : ~ In k (map fst (citers c))) by (intros Hin; apply Hnm in Hin; lia).
  assert (HF : RelF (citers c) k c o) by (split; [exact H2|apply aremove_notin; exact Hfresh]).
  assert (H12 : Rel12 m c) by (exists zs, o; auto).
  assert (Hfin : forall o' c' m' out, R2 c' o' -> aremove k (citers c') = citers c -> Rel12 m' c' ->
            opos o' = opos o -> (length (entries o) <= length (entries o'))%nat ->
            (match x with CGetOrCreate _ _ true => (length (entries o) < length (entries o'))%nat | _ => True end) ->
            lc_do_legacy (i_step ch) cap (mkLru m k) x = Ok (mkLru m' k, out) ->
            leak_inv k n (match x with CGetOrCreate _ _ true => true | _ => strict end)
              (fst (lc_step_legacy (i_step ch) cap (mkLru m k) x))).
  { intros o' c' m' out H2' Hold (zs' & o'' & Hr' & _) Hpos Hle Hlt Hdo.
    unfold lc_step_legacy. rewrite Hdo. cbn [fst].
    assert (Hcit : citers c' = citers c).
    { rewrite <- Hold. symmetry. apply aremove_notin. rewrite (names_R2 _ _ H2'). unfold names. rewrite Hpos.
      fold (names o). rewrite <- (names_R2 _ _ H2). exact Hfresh. }
    split; [reflexivity|]. split; [exact Hk0|]. exists c', o', zs', ss.
    rewrite Hcit. cbn [l_map]. split; [exact Hr'|]. split; [exact H2'|]. split; [exact Hnm|]. split; [exact Hlen|].
    split; [exact Hsort|]. split; [exact Hincl|].
    intros Hs. apply Forall_forall. intros st Hst.
    assert (Hle0 : (st <= length (entries o))%nat) by (apply (stamps_le c o H2); apply Hincl; exact Hst).
    destruct x as [kx vx [|]|kx|]; try lia;
      specialize (Hstrict Hs); apply (proj1 (Forall_forall _ _) Hstrict) in Hst; lia. }
  destruct x as [kx vx ok|kx|]; [| |congruence]; cbn [lc_do_legacy lc_do l_map l_clears].
  - destruct (o_getorcreate cap o kx vx ok) as (o' & out & Ho & Hp' & _ & Hle & Hlt & _).
    destruct (getorcreate_sim c_step o_step (RelF (citers c) k) k (RF_Hstep (citers c) k) cap c o kx vx ok o' out HF Ho)
      as (c' & Hc & [H2' Hold]).
    destruct (getorcreate_sim (i_step ch) c_step Rel12 k (R12_Hstep ch k) cap m c kx vx ok c' out H12 Hc)
      as (m' & Hm & H12').
    apply (Hfin o' c' m' out H2' Hold H12' Hp' Hle); [destruct ok; [apply Hlt; reflexivity|exact I]|].
    cbn [lc_do_legacy lc_do l_map l_clears]. rewrite Hm. reflexivity.
  - destruct (o_remove_op o kx) as (o' & out & Ho & Hp' & _ & Hle & _).
    destruct (remove_sim c_step o_step (RelF (citers c) k) k (RF_Hstep (citers c) k) c o kx o' out HF Ho)
      as (c' & Hc & [H2' Hold]).
    destruct (remove_sim (i_step ch) c_step Rel12 k (R12_Hstep ch k) m c kx c' out H12 Hc) as (m' & Hm & H12').
    apply (Hfin o' c' m' out H2' Hold H12' Hp'); [lia|exact I|].
    cbn [lc_do_legacy lc_do l_map l_clears]. rewrite Hm. reflexivity.
Qed.

(* Clear: its iterator stays behind on the sentinel; if an entry was added since the last
   Clear that cell is a new one *)
Lemma leak_step_clear ch cap k n strict s : leak_inv k n strict s ->
  leak_inv (k + 1) (if strict then S n else n) false (fst (lc_step_legacy (i_step ch) cap s CClear)).
Proof.
  intros (Hk & Hk0 & c & o & zs & ss & Hr & H2 & Hnm & Hlen & Hsort & Hincl & Hstrict).
  destruct s as [m kk]. cbn [l_map l_clears] in *. subst kk.
  assert (Hfresh : ~ In k (map fst (citers c))) by (intros Hin; apply Hnm in Hin; lia).
  assert (Hfresh' : ~ In k (names o)) by (rewrite <- (names_R2 _ _ H2); exact Hfresh).
  assert (HF : RelF (citers c) k c o) by (split; [exact H2|apply aremove_notin; exact Hfresh]).
  assert (H12 : Rel12 m c) by (exists zs, o; auto).
  assert (Hnd : NoDup (names o)) by (rewrite <- (names_R2 _ _ H2); exact (r2_names _ _ H2)).
  destruct (o_clear_legacy o k Hnd Hfresh') as (o' & cnt & p' & Ho & Hp' & _ & _ & Hlen').
  destruct (clear_legacy_sim c_step o_step (RelF (citers c) k) k (fun o => ~ In k (names o))
              (RF_Hstep (citers c) k) (RF_Hnew (citers c) k) c o o' _ Hfresh' HF Ho) as (c' & Hc & [H2' Hold]).
  destruct (clear_legacy_sim (i_step ch) c_step Rel12 k (fun c => ~ In k (map fst (citers c)))
              (R12_Hstep ch k) (R12_Hnew ch k) m c c' _ Hfresh H12 Hc) as (m' & Hm & (zs' & o'' & Hr' & _)).
  unfold lc_step_legacy. cbn [lc_do_legacy l_map l_clears]. rewrite Hm. cbn [bind fst].
  (* where the new iterator is *)
  assert (Hend : exists s cl, alookup k (citers c') = Some s /\ In cl (cells c') /\ c_stamp cl = s /\ c_st cl = StLast).
  { unfold lc_clear_legacy in Hc.
    destruct (mstep c_step c (ONewIter k)) as [[ca ya]| |]; try discriminate Hc. cbn [bind] in Hc.
    destruct (lc_clear_loop c_step (clear_fuel c_step c) ca k 0) as [[cb nb]| |] eqn:El; try discriminate Hc.
    cbn [bind] in Hc. injection Hc as <- _. eapply c_clear_loop_end. exact El. }
  destruct Hend as (st & cl & Hst & Hcl & Hcs & Hlast).
  rewrite (r2_cells _ _ H2') in Hcl. pose proof (cells_from_last_stamp _ _ _ _ Hcl Hlast) as Hlen2.
  cbn [Nat.add] in Hlen2. rewrite Hcs in Hlen2. subst st.
  assert (Hcit : citers c' = (k, length (entries o')) :: citers c).
  { pose proof (names_R2 _ _ H2') as Hn'. unfold names in Hn'. rewrite Hp' in Hn'. cbn [map fst] in Hn'.
    destruct (citers c') as [|[i0 s0] t] eqn:Ec; [discriminate Hn'|]. cbn [map fst] in Hn'. injection Hn' as -> Ht.
    cbn [alookup] in Hst. rewrite Z.eqb_refl in Hst. injection Hst as ->.
    rewrite aremove_cons_same, aremove_notin in Hold.
    - rewrite Hold, Hlen2. reflexivity.
    - rewrite Ht. exact Hfresh'. }
  split; [reflexivity|]. split; [lia|].
  exists c', o', zs', (if strict then length (entries o') :: ss else ss).
  split; [exact Hr'|]. split; [exact H2'|]. split.
  { rewrite Hcit. cbn [map fst]. intros i [<-|Hin]; [lia|]. apply Hnm in Hin. lia. }
  rewrite Hcit. cbn [map snd]. destruct strict.
  - split; [cbn [length]; lia|]. split.
    + constructor; [exact Hsort|]. specialize (Hstrict eq_refl). rewrite Hlen'. exact Hstrict.
    + split; [|discriminate]. intros x [<-|Hx]; [left; reflexivity|right; apply Hincl; exact Hx].
  - split; [exact Hlen|]. split; [exact Hsort|]. split; [|discriminate]. intros x Hx. right. apply Hincl. exact Hx.
Qed.

(** * Every Clear that follows a successful creation leaks a node *)

Definition legacy_final (ch : nat -> option nat) (cap : nat) (ops : list cop) : @lru imap :=
  fold_left (fun s x => fst (lc_step_legacy (i_step ch) cap s x)) ops (mkLru i_new 0).

(* number of Clear calls that come after a successful GetOrCreate since the previous Clear *)
Fixpoint leaks (armed : bool) (ops : list cop) : nat :=
  match ops with
  | [] => O
  | CClear :: t => ((if armed then 1 else 0) + leaks false t)%nat
  | CGetOrCreate _ _ true :: t => leaks true t
  | _ :: t => leaks armed t
  end.

Lemma leak_run ch cap : forall ops k n strict s, leak_inv k n strict s ->
  exists k' strict', leak_inv k' (n + leaks strict ops) strict'
    (fold_left (fun s x => fst (lc_step_legacy (i_step ch) cap s x)) ops s).
Proof.
  induction ops as [|x t IH]; intros k n strict s Hs; cbn [fold_left leaks].
  - exists k, strict. rewrite Nat.add_0_r. exact Hs.
  - destruct x as [kx vx ok|kx|].
    + pose proof (leak_step_other ch cap k n strict s (CGetOrCreate kx vx ok) Hs ltac:(discriminate)) as H1.
      destruct ok; apply (IH _ _ _ _ H1).
    + pose proof (leak_step_other ch cap k n strict s (CRemove kx) Hs ltac:(discriminate)) as H1.
      apply (IH _ _ _ _ H1).
    + pose proof (leak_step_clear ch cap k n strict s Hs) as H1.
      destruct (IH _ _ _ _ H1) as (k' & strict' & H2). exists k', strict'.
      destruct strict; [replace (n + (1 + leaks false t))%nat with (S n + leaks false t)%nat by lia|]; exact H2.
Qed.

Theorem legacy_leaks_general : forall cap ch ops,
  (leaks false ops <= length (i_chain (l_map (legacy_final ch cap ops))))%nat.
Proof.
  intros cap ch ops. destruct (leak_run ch cap ops 0 0%nat false _ leak_inv_init) as (k' & strict' & H).
  apply leak_inv_nodes in H. exact H.
Qed.

(* the cycle of DESIGN.md: GetOrCreate k (creates), GetOrCreate k (hit), Clear *)
Definition leak_cycle (k v : Z) : list cop := [CGetOrCreate k v true; CGetOrCreate k v true; CClear].

Fixpoint leak_cycles (k v : Z) (n : nat) : list cop :=
  match n with O => [] | S n' => leak_cycle k v ++ leak_cycles k v n' end.

Lemma leaks_cycles k v n : forall armed, leaks armed (leak_cycles k v n) = n.
Proof. induction n as [|n IH]; intros armed; [reflexivity|]. cbn [leak_cycles leak_cycle app leaks]. rewrite IH. reflexivity. Qed.

Theorem legacy_clear_leaks : forall cap ch k v n,
  (n <= length (i_chain (l_map (legacy_final ch cap (leak_cycles k v n)))))%nat.
Proof.
  intros cap ch k v n. pose proof (legacy_leaks_general cap ch (leak_cycles k v n)) as H.
  rewrite leaks_cycles in H. exact H.
Qed.
