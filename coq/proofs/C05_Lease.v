(** C05, part 1: the lease of a live holder is kept (model/LeaseLTS.v).

    Inductive invariant over the renewal chain: in every state with a live holder
    the record is the holder's, and the worst-case instant at which the next
    successful renewal reaches the storage -- counting the lost requests that may
    still come -- is before the record's expiry. *)
From Coq Require Import List ZArith Bool Lia.
From GL Require Import model.LeaseLTS.
Import ListNotations.
Open Scope Z_scope.

Section Lease.
Variables TTL dl ep k : Z.
Hypothesis Hprem : lease_premise TTL dl ep k.

Definition W : Z := tenth TTL + dl + ep.
(* time budget for the lost requests that may still come after [f] of them *)
Definition budget (f : Z) : Z := (k - f) * W.

Lemma tenth_nonneg : 0 <= tenth TTL.
Proof. destruct Hprem as (HT & _). unfold tenth. apply Z.div_pos; lia. Qed.

Lemma half_nonneg : 0 <= half TTL.
Proof. destruct Hprem as (HT & _). unfold half. apply Z.div_pos; lia. Qed.

Lemma W_nonneg : 0 <= W.
Proof. pose proof tenth_nonneg. destruct Hprem as (_ & ? & ? & _). unfold W. lia. Qed.

Lemma budget_nonneg f : f <= k -> 0 <= budget f.
Proof. intros Hf. unfold budget. apply Z.mul_nonneg_nonneg; [lia | apply W_nonneg]. Qed.

Lemma budget_succ f : budget (f + 1) + W = budget f.
Proof. unfold budget. ring. Qed.

Lemma premise_form : half TTL + dl + ep + budget 0 < TTL.
Proof.
  destruct Hprem as (_ & _ & _ & _ & Hp). unfold budget, W.
  replace (half TTL + dl + ep + (k - 0) * (tenth TTL + dl + ep))
    with (half TTL + k * tenth TTL + (k + 1) * (dl + ep)) by ring.
  exact Hp.
Qed.

Lemma ep_lt_TTL : ep < TTL.
Proof.
  pose proof premise_form. pose proof half_nonneg.
  pose proof (budget_nonneg 0). destruct Hprem as (_ & ? & ? & ? & _). lia.
Qed.

(* the renewal chain of a held lock, relative to the stored record [r] *)
Definition chain_ok (s : state) (r : srec) : Prop :=
  0 <= fails s <= k /\
  match tst s with
  | TArmed a d =>
      r_ver r = tver s /\ now s <= a + d + dl /\ a + d + dl + budget (fails s) < r_exp r
  | TFired i due =>
      r_ver r = tver s /\ now s <= due + dl /\ now s <= i + ep /\ i <= due + dl /\
      due + dl + budget (fails s) < r_exp r
  | TApplied i v =>
      r_ver r = v /\ r_exp r = i + TTL /\ now s <= i + ep /\ fails s = 0
  | TLost i =>
      r_ver r = tver s /\ now s <= i + ep /\
      i + ep + tenth TTL + dl + budget (fails s) < r_exp r
  | _ => False
  end.

Definition lease_inv (s : state) : Prop :=
  match hs s with
  | HIdle => tst s = TNone /\ fails s = 0
  | HAcquiring i => tst s = TNone /\ fails s = 0 /\ now s <= i + ep
  | HCreated i =>
      tst s = TNone /\ fails s = 0 /\ now s <= i + ep /\
      rec s = Some (mkRec (tver s) (i + TTL) 0)
  | HHeld => exists r, rec s = Some r /\ r_owner r = 0 /\ chain_ok s r
  | _ => True
  end.

Lemma lease_inv_init : lease_inv init.
Proof. cbn. auto. Qed.

(* a live holder's lease is in force *)
Lemma lease_inv_lease s :
  lease_inv s -> alive s = true ->
  exists r, rec s = Some r /\ r_owner r = 0 /\ now s < r_exp r.
Proof.
  unfold lease_inv, alive. intros Hinv Hal.
  pose proof tenth_nonneg as Ht. pose proof ep_lt_TTL as He.
  destruct Hprem as (HT & Hdl & Hep & Hk & _).
  destruct (hs s) eqn:Hh; try discriminate.
  - destruct Hinv as (_ & _ & Hn & Hr). eexists; split; [exact Hr|]. cbn. lia.
  - destruct Hinv as (r & Hr & Ho & (Hf & Hc)). exists r. split; [exact Hr|]. split; [exact Ho|].
    pose proof (budget_nonneg (fails s)) as Hb.
    destruct (tst s); try contradiction; lia.
Qed.

Lemma present_of_lease s r :
  rec s = Some r -> now s < r_exp r -> present s = Some r.
Proof.
  intros Hr Hn. unfold present. rewrite Hr.
  destruct (r_exp r <? now s) eqn:E; [apply Z.ltb_lt in E; lia | reflexivity].
Qed.

Ltac simp_st := cbn [set_now set_rec set_hs set_tst hs rec tst fails now tver nextv].

Ltac inv_some :=
  repeat match goal with
  | H : Some _ = Some _ |- _ => inversion H; subst; clear H
  | H : None = Some _ |- _ => discriminate H
  | H : (if ?b then _ else _) = Some _ |- _ => destruct b eqn:?
  end.

(* one step under the timing and fault hypotheses preserves the invariant *)
Lemma lease_inv_step s l s' :
  lease_inv s ->
  tick_ok dl ep s l = true ->
  fault_ok k s l = true ->
  step_st TTL s l = Some s' ->
  lease_inv s'.
Proof.
  intros Hinv Htick Hfault Hstep. pose proof Hinv as Hinv0.
  pose proof tenth_nonneg as Ht. pose proof half_nonneg as Hh2.
  pose proof premise_form as Hpf. pose proof ep_lt_TTL as Hel.
  pose proof W_nonneg as HW. unfold W in HW.
  destruct Hprem as (HT & Hdl & Hep & Hk & _).
  unfold step_st in Hstep.
  destruct (step TTL s l) as [[s2 r2]|] eqn:Hs; [|discriminate].
  inversion Hstep; subst s2; clear Hstep.
  unfold lease_inv in Hinv.
  destruct l; cbn [step] in Hs.
  - (* Tick *)
    destruct (0 <=? dt) eqn:Hdt; [|discriminate]. inversion Hs; subst; clear Hs.
    apply Z.leb_le in Hdt. unfold lease_inv. cbn [tick_ok] in Htick.
    simp_st.
    destruct (hs s) eqn:Hh; auto.
    + destruct Hinv as (? & ? & ?). apply Z.leb_le in Htick. auto.
    + destruct Hinv as (? & ? & ? & ?). apply Z.leb_le in Htick. auto.
    + destruct Hinv as (r & Hr & Ho & (Hf & Hc)). exists r. split; [exact Hr|]. split; [exact Ho|].
      unfold chain_ok. simp_st. split; [exact Hf|].
      destruct (tst s); try contradiction.
      * apply Z.leb_le in Htick. intuition lia.
      * apply andb_true_iff in Htick. destruct Htick as [H1 H2].
        apply Z.leb_le in H1. apply Z.leb_le in H2. intuition lia.
      * apply Z.leb_le in Htick. intuition lia.
      * apply Z.leb_le in Htick. intuition lia.
  - (* Acquire *)
    destruct (hs s) eqn:Hh; try discriminate. inversion Hs; subst; clear Hs.
    unfold lease_inv. cbn. destruct Hinv. repeat split; auto; lia.
  - (* StCreate *)
    destruct (hs s) eqn:Hh; try discriminate.
    destruct Hinv as (Ht0 & Hf0 & Hn).
    destruct (present s); inversion Hs; subst; clear Hs; unfold lease_inv; cbn; auto.
  - (* AcqArm *)
    destruct (hs s) eqn:Hh; try discriminate. inversion Hs; subst; clear Hs.
    destruct Hinv as (Ht0 & Hf0 & Hn & Hr).
    unfold lease_inv. simp_st. eexists. split; [exact Hr|]. split; [reflexivity|].
    unfold chain_ok. cbn. rewrite Hf0. repeat split; try lia.
  - (* TimerFire *)
    destruct (tst s) eqn:Htst; try discriminate.
    destruct ((armed + delay <? now s) && negb (is_dead (hs s))) eqn:Hc; [|discriminate].
    inversion Hs; subst; clear Hs.
    unfold lease_inv. simp_st.
    destruct (hs s) eqn:Hh; auto.
    + destruct Hinv as (Hx & _). congruence.
    + destruct Hinv as (Hx & _). congruence.
    + destruct Hinv as (Hx & _). congruence.
    + destruct Hinv as (r & Hr & Ho & (Hf & Hch)). exists r. split; [exact Hr|]. split; [exact Ho|].
      unfold chain_ok in *. simp_st. rewrite Htst in Hch. split; [exact Hf|].
      intuition lia.
  - (* StCas *)
    destruct (tst s) eqn:Htst; try discriminate.
    unfold lease_inv.
    destruct (hs s) eqn:Hh.
    + destruct Hinv as (Hx & _). congruence.
    + destruct Hinv as (Hx & _). congruence.
    + destruct Hinv as (Hx & _). congruence.
    + destruct f; [destruct (present s) as [r0|]; [destruct (r_ver r0 =? tver s)|]| |destruct (present s) as [r0|]; [destruct (r_ver r0 =? tver s)|]];
        inversion Hs; subst; cbn; rewrite ?Hh; exact I.
    + (* held *)
      destruct Hinv as (r & Hr & Ho & (Hf & Hch)). unfold chain_ok in Hch. rewrite Htst in Hch.
      destruct Hch as (Hv & Hn1 & Hn2 & Hi & Hb).
      pose proof (budget_nonneg (fails s)) as Hbn.
      assert (Hp : present s = Some r) by (apply present_of_lease; [exact Hr | lia]).
      destruct f.
      * rewrite Hp in Hs. rewrite Hv, Z.eqb_refl in Hs. inversion Hs; subst; clear Hs.
        simp_st. rewrite ?Hh. eexists. split; [reflexivity|]. split; [reflexivity|].
        unfold chain_ok. cbn. repeat split; lia.
      * cbn [fault_ok] in Hfault. apply Z.ltb_lt in Hfault.
        inversion Hs; subst; clear Hs. simp_st. rewrite ?Hh.
        exists r. split; [exact Hr|]. split; [exact Ho|].
        unfold chain_ok. simp_st.
        pose proof (budget_succ (fails s)) as Hbs. unfold W in Hbs.
        repeat split; try lia.
      * cbn [fault_ok] in Hfault. discriminate.
    + destruct f; [destruct (present s) as [r0|]; [destruct (r_ver r0 =? tver s)|]| |destruct (present s) as [r0|]; [destruct (r_ver r0 =? tver s)|]];
        inversion Hs; subst; cbn; rewrite ?Hh; exact I.
    + destruct f; [destruct (present s) as [r0|]; [destruct (r_ver r0 =? tver s)|]| |destruct (present s) as [r0|]; [destruct (r_ver r0 =? tver s)|]];
        inversion Hs; subst; cbn; rewrite ?Hh; exact I.
    + destruct f; [destruct (present s) as [r0|]; [destruct (r_ver r0 =? tver s)|]| |destruct (present s) as [r0|]; [destruct (r_ver r0 =? tver s)|]];
        inversion Hs; subst; cbn; rewrite ?Hh; exact I.
  - (* Rearm *)
    destruct (tst s) eqn:Htst; try discriminate.
    destruct (is_dead (hs s)) eqn:Hd; [discriminate|].
    inversion Hs; subst; clear Hs.
    unfold lease_inv. simp_st.
    destruct (hs s) eqn:Hh; auto.
    + destruct Hinv as (Hx & _). congruence.
    + destruct Hinv as (Hx & _). congruence.
    + destruct Hinv as (Hx & _). congruence.
    + destruct Hinv as (r & Hr & Ho & (Hf & Hch)). unfold chain_ok in Hch. rewrite Htst in Hch.
      destruct Hch as (Hv & He & Hn & Hf0).
      exists r. split; [exact Hr|]. split; [exact Ho|].
      unfold chain_ok. simp_st. rewrite Hf0. repeat split; try lia.
  - (* RetryArm *)
    destruct (tst s) eqn:Htst; try discriminate.
    destruct (is_dead (hs s)) eqn:Hd; [discriminate|].
    inversion Hs; subst; clear Hs.
    unfold lease_inv. simp_st.
    destruct (hs s) eqn:Hh; auto.
    + destruct Hinv as (Hx & _). congruence.
    + destruct Hinv as (Hx & _). congruence.
    + destruct Hinv as (Hx & _). congruence.
    + destruct Hinv as (r & Hr & Ho & (Hf & Hch)). unfold chain_ok in Hch. rewrite Htst in Hch.
      destruct Hch as (Hv & Hn & Hb).
      exists r. split; [exact Hr|]. split; [exact Ho|].
      unfold chain_ok. simp_st. repeat split; try lia.
  - (* Unlock *)
    destruct (hs s) eqn:Hh; try discriminate. inversion Hs; subst; clear Hs.
    unfold lease_inv. cbn. exact I.
  - (* StDelete *)
    destruct (hs s) eqn:Hh; try discriminate.
    destruct f; [destruct (present s)| |destruct (present s)]; inversion Hs; subst; unfold lease_inv; cbn; exact I.
  - (* Die *)
    destruct (hs s) eqn:Hh; try discriminate; inversion Hs; subst; unfold lease_inv; cbn; rewrite ?Hh; exact I.
  - (* Expire *)
    destruct (rec s) as [r|] eqn:Hr; [|discriminate].
    destruct (r_exp r <? now s) eqn:He; [|discriminate]. apply Z.ltb_lt in He.
    inversion Hs; subst; clear Hs.
    unfold lease_inv. simp_st.
    destruct (hs s) eqn:Hh; auto.
    + exfalso.
      assert (Hal : alive s = true) by (unfold alive; rewrite Hh; reflexivity).
      pose proof Hinv0 as Hi.
      destruct (lease_inv_lease s Hi Hal) as (r' & Hr' & _ & Hn). rewrite Hr in Hr'. inversion Hr'; subst. lia.
    + exfalso.
      assert (Hal : alive s = true) by (unfold alive; rewrite Hh; reflexivity).
      pose proof Hinv0 as Hi.
      destruct (lease_inv_lease s Hi Hal) as (r' & Hr' & _ & Hn). rewrite Hr in Hr'. inversion Hr'; subst. lia.
  - (* ContenderTry *)
    destruct (0 <? n) eqn:Hn; [|discriminate].
    destruct (hs s) eqn:Hh.
    1-2,4,6-8: destruct (present s); inversion Hs; subst; unfold lease_inv; simp_st; rewrite ?Hh; exact Hinv.
    + (* created *)
      assert (Hal : alive s = true) by (unfold alive; rewrite Hh; reflexivity).
      pose proof Hinv0 as Hi.
      destruct (lease_inv_lease s Hi Hal) as (r' & Hr' & _ & Hlt).
      rewrite (present_of_lease s r' Hr' Hlt) in Hs. inversion Hs; subst. exact Hi.
    + assert (Hal : alive s = true) by (unfold alive; rewrite Hh; reflexivity).
      pose proof Hinv0 as Hi.
      destruct (lease_inv_lease s Hi Hal) as (r' & Hr' & _ & Hlt).
      rewrite (present_of_lease s r' Hr' Hlt) in Hs. inversion Hs; subst. exact Hi.
  - (* ContenderUnlock *)
    destruct (present s) as [r|] eqn:Hp; [|discriminate].
    destruct ((0 <? n) && (r_owner r =? n)) eqn:Hc; [|discriminate].
    apply andb_true_iff in Hc. destruct Hc as [Hn Ho]. apply Z.ltb_lt in Hn. apply Z.eqb_eq in Ho.
    inversion Hs; subst; clear Hs.
    unfold lease_inv. simp_st.
    destruct (hs s) eqn:Hh; auto.
    + exfalso.
      assert (Hal : alive s = true) by (unfold alive; rewrite Hh; reflexivity).
      pose proof Hinv0 as Hi.
      destruct (lease_inv_lease s Hi Hal) as (r' & Hr' & Ho' & Hlt).
      rewrite (present_of_lease s r' Hr' Hlt) in Hp. inversion Hp; subst. lia.
    + exfalso.
      assert (Hal : alive s = true) by (unfold alive; rewrite Hh; reflexivity).
      pose proof Hinv0 as Hi.
      destruct (lease_inv_lease s Hi Hal) as (r' & Hr' & Ho' & Hlt).
      rewrite (present_of_lease s r' Hr' Hlt) in Hp. inversion Hp; subst. lia.
  - (* Probe *)
    destruct (hs s) eqn:Hh.
    1-2,4,6-8: destruct (present s); inversion Hs; subst; unfold lease_inv; simp_st; rewrite ?Hh; exact Hinv.
    + assert (Hal : alive s = true) by (unfold alive; rewrite Hh; reflexivity).
      pose proof Hinv0 as Hi.
      destruct (lease_inv_lease s Hi Hal) as (r' & Hr' & _ & Hlt).
      rewrite (present_of_lease s r' Hr' Hlt) in Hs. inversion Hs; subst. exact Hi.
    + assert (Hal : alive s = true) by (unfold alive; rewrite Hh; reflexivity).
      pose proof Hinv0 as Hi.
      destruct (lease_inv_lease s Hi Hal) as (r' & Hr' & _ & Hlt).
      rewrite (present_of_lease s r' Hr' Hlt) in Hs. inversion Hs; subst. exact Hi.
Qed.

(* along a whole run *)
Lemma lease_inv_run tr : forall s0 s,
  lease_inv s0 ->
  run TTL s0 tr = Some s ->
  timely TTL dl ep s0 tr = true ->
  faults_ok TTL k s0 tr = true ->
  lease_inv s.
Proof.
  induction tr as [|l t IH]; intros s0 s Hinv Hrun Htm Hfl.
  - cbn in Hrun. inversion Hrun; subst. exact Hinv.
  - cbn [run] in Hrun. cbn [timely] in Htm. cbn [faults_ok] in Hfl.
    destruct (step_st TTL s0 l) as [s1|] eqn:Hst; [|discriminate].
    apply andb_true_iff in Htm. destruct Htm as [Htk Htm].
    apply andb_true_iff in Hfl. destruct Hfl as [Hfo Hfl].
    apply (IH s1 s); auto.
    eapply lease_inv_step; eauto.
Qed.

(* every renewal call of a live holder that reaches the storage is applied *)
Lemma renewal_cas_applied s i due :
  lease_inv s -> hs s = HHeld -> tst s = TFired i due ->
  step TTL s (StCas FOk) =
  Some (mkSt (now s) (Some (mkRec (nextv s) (i + TTL) 0)) (nextv s + 1) HHeld (tver s)
             (TApplied i (nextv s)) 0, RCasOk (nextv s)).
Proof.
  intros Hinv Hh Htst. unfold lease_inv in Hinv. rewrite Hh in Hinv.
  destruct Hinv as (r & Hr & Ho & (Hf & Hch)). unfold chain_ok in Hch. rewrite Htst in Hch.
  destruct Hch as (Hv & Hn1 & Hn2 & Hi & Hb).
  pose proof (budget_nonneg (fails s)) as Hbn.
  assert (Hp : present s = Some r) by (apply present_of_lease; [exact Hr | lia]).
  cbn [step]. rewrite Htst, Hp, Hv, Z.eqb_refl, Hh. reflexivity.
Qed.

End Lease.

Lemma run_app TTL a : forall b s s',
  run TTL s (a ++ b) = Some s' -> exists m, run TTL s a = Some m /\ run TTL m b = Some s'.
Proof.
  induction a as [|l t IH]; intros b s s' H.
  - exists s. split; [reflexivity | exact H].
  - cbn [app run] in *. destruct (step_st TTL s l) as [s1|]; [|discriminate]. apply IH; exact H.
Qed.

Lemma timely_app TTL dl ep a : forall b s,
  timely TTL dl ep s (a ++ b) = true -> timely TTL dl ep s a = true.
Proof.
  induction a as [|l t IH]; intros b s H; [reflexivity|].
  cbn [app timely] in *. apply andb_true_iff in H. destruct H as [H1 H2]. rewrite H1. cbn.
  destruct (step_st TTL s l) as [s1|]; [|reflexivity]. eapply IH; exact H2.
Qed.

Lemma faults_ok_app TTL k a : forall b s,
  faults_ok TTL k s (a ++ b) = true -> faults_ok TTL k s a = true.
Proof.
  induction a as [|l t IH]; intros b s H; [reflexivity|].
  cbn [app faults_ok] in *. apply andb_true_iff in H. destruct H as [H1 H2]. rewrite H1. cbn.
  destruct (step_st TTL s l) as [s1|]; [|reflexivity]. eapply IH; exact H2.
Qed.

(** lease_kept: at every state along an accepted run whose timing respects [dl]/[ep]
    and whose faults are lost requests, at most [k] in a row, a live holder's record is
    stored, is its own, and has not run out -- for holds of any length. *)
Lemma lease_kept TTL dl ep k : forall tr1 tr2 s1,
  lease_premise TTL dl ep k ->
  timely TTL dl ep init (tr1 ++ tr2) = true ->
  faults_ok TTL k init (tr1 ++ tr2) = true ->
  run TTL init tr1 = Some s1 ->
  alive s1 = true ->
  exists r, rec s1 = Some r /\ r_owner r = 0 /\ now s1 < r_exp r.
Proof.
  intros tr1 tr2 s1 Hp Htm Hfl Hrun Hal.
  apply (lease_inv_lease TTL dl ep k Hp); [|exact Hal].
  eapply lease_inv_run; eauto.
  - apply lease_inv_init.
  - eapply timely_app; exact Htm.
  - eapply faults_ok_app; exact Hfl.
Qed.

(* hence no contender can acquire meanwhile, the storage never drops the record, and a
   sample of the record shows it *)
Lemma lease_kept_excludes TTL dl ep k : forall tr s n,
  lease_premise TTL dl ep k ->
  timely TTL dl ep init tr = true ->
  faults_ok TTL k init tr = true ->
  run TTL init tr = Some s ->
  alive s = true ->
  (forall e, step TTL s (ContenderTry n e) = (if 0 <? n then Some (s, RExist) else None)) /\
  step TTL s Expire = None /\
  exists r, step TTL s Probe = Some (s, RRec (r_ver r) (r_exp r)) /\ r_owner r = 0.
Proof.
  intros tr s n Hp Htm Hfl Hrun Hal.
  destruct (lease_kept TTL dl ep k tr [] s Hp) as (r & Hr & Ho & Hlt); rewrite ?app_nil_r; auto.
  pose proof (present_of_lease s r Hr Hlt) as Hpr.
  cbn [step]. rewrite Hpr, Hr. repeat split.
  - destruct (r_exp r <? now s) eqn:E; [apply Z.ltb_lt in E; lia | reflexivity].
  - exists r. split; [reflexivity | exact Ho].
Qed.

(** renewal_survives_transient: under the same hypotheses every renewal call of the live
    holder that reaches the storage is applied (result RCasOk with a fresh version, new
    expiry = issue time + TTL) -- in particular the retries after lost requests --, and
    after a lost request the retry is armed with the same version after TTL/10. *)
Lemma renewal_survives_transient TTL dl ep k : forall tr s,
  lease_premise TTL dl ep k ->
  timely TTL dl ep init tr = true ->
  faults_ok TTL k init tr = true ->
  run TTL init tr = Some s ->
  hs s = HHeld ->
  (forall i due, tst s = TFired i due ->
     exists s', step TTL s (StCas FOk) = Some (s', RCasOk (nextv s)) /\
       rec s' = Some (mkRec (nextv s) (i + TTL) 0) /\ tst s' = TApplied i (nextv s) /\
       fails s' = 0 /\ hs s' = HHeld) /\
  (forall i, tst s = TLost i ->
     exists s', step TTL s RetryArm = Some (s', RNone) /\
       tst s' = TArmed (now s) (tenth TTL) /\ tver s' = tver s /\ rec s' = rec s).
Proof.
  intros tr s Hp Htm Hfl Hrun Hh.
  assert (Hinv : lease_inv TTL dl ep k s).
  { eapply lease_inv_run; eauto. apply lease_inv_init. }
  split.
  - intros i due Ht. eexists. split; [eapply renewal_cas_applied; eauto|]. cbn. auto.
  - intros i Ht. cbn [step]. rewrite Ht, Hh. cbn. eexists. split; [reflexivity|]. cbn. auto.
Qed.
