(** C17, part 1: the byte storage and the bits of one header byte.

    - [bget]/[bset]/[fill]: read-over-write lemmas of the sparse storage;
    - facts about one byte (zero-bit count, first zero bit, setting and
      clearing a bit) proved by exhaustive evaluation over the 256 byte values
      and the 8 bit positions. *)
From Coq Require Import List ZArith NArith Bool Lia FMapPositive.
From GL Require Import model.Blocks.
Import ListNotations.
Open Scope Z_scope.

(** * Storage *)

Lemma key_inj : forall a b, key a = key b -> a = b.
Proof.
  intros [|a|a] [|b|b] H; cbn [key] in H; try discriminate; try reflexivity;
    injection H as H; rewrite H; reflexivity.
Qed.

Lemma bsize_bset : forall b o v, bsize (bset b o v) = bsize b.
Proof. reflexivity. Qed.

Lemma bget_bset_same : forall b o v, bget (bset b o v) o = N.land v 255.
Proof.
  intros b o v. unfold bget, bset. cbn [cells].
  rewrite PositiveMap.gss. reflexivity.
Qed.

Lemma bget_bset_other : forall b o o' v, o <> o' -> bget (bset b o v) o' = bget b o'.
Proof.
  intros b o o' v Hne. unfold bget, bset. cbn [cells].
  rewrite PositiveMap.gso; [reflexivity|].
  intros Hk. apply Hne. symmetry. apply key_inj; assumption.
Qed.

Lemma bget_lt_256 : forall b o, (bget b o < 256)%N.
Proof.
  intros b o. unfold bget. destruct (PositiveMap.find (key o) (cells b)) as [v|].
  - change 255%N with (N.ones 8). rewrite N.land_ones.
    apply N.mod_lt. discriminate.
  - reflexivity.
Qed.

Lemma bget_zero_buffer : forall size o, bget (zero_buffer size) o = 0%N.
Proof.
  intros size o. unfold bget, zero_buffer. cbn [cells].
  rewrite PositiveMap.gempty. reflexivity.
Qed.

(** Grow: the old bytes, zeros behind (and nothing of what the sparse map may
    hold outside the old storage) *)
Lemma unkey_key : forall o, unkey (key o) = o.
Proof. intros [|p|p]; reflexivity. Qed.

Lemma bsize_grow : forall b n, bsize (grow_buf b n) = n.
Proof. reflexivity. Qed.

Lemma bget_grow : forall b n o,
  bget (grow_buf b n) o = if (0 <=? o) && (o <? bsize b) then bget b o else 0%N.
Proof.
  intros b n o. unfold bget, grow_buf. cbn [cells].
  rewrite PositiveMap.gmapi, unkey_key.
  destruct (PositiveMap.find (key o) (cells b)) as [v|]; cbn [option_map].
  - destruct ((0 <=? o) && (o <? bsize b)); reflexivity.
  - destruct ((0 <=? o) && (o <? bsize b)); reflexivity.
Qed.

Lemma bget_grow_inside : forall b n o, 0 <= o < bsize b -> bget (grow_buf b n) o = bget b o.
Proof.
  intros b n o H. rewrite bget_grow.
  destruct (Z.leb_spec 0 o); [|lia]. destruct (Z.ltb_spec o (bsize b)); [|lia]. reflexivity.
Qed.

Lemma bget_grow_outside : forall b n o, bsize b <= o -> bget (grow_buf b n) o = 0%N.
Proof.
  intros b n o H. rewrite bget_grow.
  destruct (Z.ltb_spec o (bsize b)); [lia|]. rewrite andb_false_r. reflexivity.
Qed.

Lemma bsize_fill : forall n b off v, bsize (fill n b off v) = bsize b.
Proof.
  induction n as [|n IH]; intros b off v; cbn [fill].
  - reflexivity.
  - rewrite IH. reflexivity.
Qed.

Lemma bget_fill_outside : forall n b off v o,
  (o < off \/ off + Z.of_nat n <= o) -> bget (fill n b off v) o = bget b o.
Proof.
  induction n as [|n IH]; intros b off v o Hout; cbn [fill].
  - reflexivity.
  - rewrite IH by lia. apply bget_bset_other; lia.
Qed.

Lemma bget_fill_inside : forall n b off v o,
  off <= o < off + Z.of_nat n -> bget (fill n b off v) o = N.land v 255.
Proof.
  induction n as [|n IH]; intros b off v o Hin; cbn [fill].
  - lia.
  - destruct (Z.eq_dec o off) as [->|Hne].
    + rewrite bget_fill_outside by lia. apply bget_bset_same.
    + apply IH; lia.
Qed.

(** [Buffer(offs, size)] for a window that lies inside the storage *)
Lemma buf_slice_inside : forall b offs size,
  0 <= offs -> 0 < size -> offs + size <= bsize b ->
  buf_slice b offs size = Some (offs, size).
Proof.
  intros b offs size H0 Hs Hin. unfold buf_slice.
  destruct (Z.ltb_spec offs 0) as [?|_]; [lia|].
  destruct (Z.leb_spec (bsize b) offs) as [?|_]; [lia|].
  cbn [orb]. destruct (Z.ltb_spec (bsize b) (offs + size)) as [?|_]; [lia|]. reflexivity.
Qed.

Lemma buf_slice_none : forall b offs size,
  buf_slice b offs size = None <-> (offs < 0 \/ bsize b <= offs).
Proof.
  intros b offs size. unfold buf_slice.
  destruct (Z.ltb_spec offs 0); destruct (Z.leb_spec (bsize b) offs); cbn [orb];
    split; intros Hx; try reflexivity; try discriminate; lia.
Qed.

(** * One byte: exhaustive facts *)

Definition all_bytes (f : N -> bool) : bool := forallb f (map N.of_nat (seq 0 256)).
Definition all_bits (f : N -> bool) : bool := forallb f (map N.of_nat (seq 0 8)).

Lemma all_bytes_spec : forall f, all_bytes f = true -> forall v, (v < 256)%N -> f v = true.
Proof.
  intros f H v Hv. unfold all_bytes in H. rewrite forallb_forall in H. apply H.
  apply in_map_iff. exists (N.to_nat v). split; [apply N2Nat.id|].
  apply in_seq. lia.
Qed.

Lemma all_bits_spec : forall f, all_bits f = true -> forall j, (j < 8)%N -> f j = true.
Proof.
  intros f H j Hj. unfold all_bits in H. rewrite forallb_forall in H. apply H.
  apply in_map_iff. exists (N.to_nat j). split; [apply N2Nat.id|].
  apply in_seq. lia.
Qed.

(** the [v != 0xFF] shortcut of initAvailabe does not change the count *)
Lemma zero_bits_255 : zero_bits 8 0 255 = 0.
Proof. reflexivity. Qed.

Lemma zero_bits_range : forall v, (v < 256)%N -> 0 <= zero_bits 8 0 v <= 8.
Proof.
  intros v Hv.
  assert (Hall : all_bytes (fun v => (0 <=? zero_bits 8 0 v) && (zero_bits 8 0 v <=? 8)) = true) by (vm_compute; reflexivity).
  pose proof (all_bytes_spec _ Hall v Hv) as H; cbn beta in H; clear Hall.
  lia.
Qed.

(** a byte other than 0xFF has a zero bit; [find_zero_bit] returns the lowest one *)
Lemma find_zero_bit_some : forall v, (v < 256)%N -> v <> 255%N ->
  exists j, find_zero_bit 8 0 v = Some j.
Proof.
  intros v Hv Hne.
  assert (Hall : all_bytes (fun v => ((v =? 255)%N || match find_zero_bit 8 0 v with Some _ => true | None => false end)) = true) by (vm_compute; reflexivity).
  pose proof (all_bytes_spec _ Hall v Hv) as H; cbn beta in H; clear Hall.
  destruct (N.eqb_spec v 255) as [?|_]; [contradiction|]. cbn [orb] in H.
  destruct (find_zero_bit 8 0 v) as [j|]; [exists j; reflexivity|discriminate].
Qed.

Lemma find_zero_bit_none_255 : forall v, (v < 256)%N ->
  (if (v =? 255)%N then None else find_zero_bit 8 0 v) = None -> v = 255%N.
Proof.
  intros v Hv H. destruct (N.eqb_spec v 255) as [E|Hne]; [exact E|].
  destruct (find_zero_bit_some v Hv Hne) as [j Hj]. rewrite Hj in H. discriminate.
Qed.

Lemma find_zero_bit_spec : forall v j, (v < 256)%N -> find_zero_bit 8 0 v = Some j ->
  (j < 8)%N /\ bit_is_clear v j = true /\ forall i, (i < j)%N -> bit_is_clear v i = false.
Proof.
  intros v j Hv Hf.
  assert (Hall : all_bytes (fun v => match find_zero_bit 8 0 v with
              | Some j => (j <? 8)%N && bit_is_clear v j
                          && all_bits (fun i => negb (i <? j)%N || negb (bit_is_clear v i))
              | None => true
              end) = true) by (vm_compute; reflexivity).
  pose proof (all_bytes_spec _ Hall v Hv) as H; cbn beta in H; clear Hall.
  rewrite Hf in H. apply andb_prop in H. destruct H as [H H3].
  apply andb_prop in H. destruct H as [H1 H2].
  apply N.ltb_lt in H1. split; [exact H1|]. split; [exact H2|].
  intros i Hi. pose proof (all_bits_spec _ H3 i ltac:(lia)) as Hb. cbn beta in Hb.
  destruct (N.ltb_spec i j) as [_|?]; [|lia]. cbn [negb orb] in Hb.
  destruct (bit_is_clear v i); [discriminate|reflexivity].
Qed.

(** 0xFF has no zero bit, any other byte has one *)
Lemma byte_255_bits : forall v, (v < 256)%N ->
  (v = 255%N <-> forall j, (j < 8)%N -> bit_is_clear v j = false).
Proof.
  intros v Hv.
  assert (Hall : all_bytes (fun v => Bool.eqb (v =? 255)%N (all_bits (fun j => negb (bit_is_clear v j)))) = true) by (vm_compute; reflexivity).
  pose proof (all_bytes_spec _ Hall v Hv) as H; cbn beta in H; clear Hall.
  apply Bool.eqb_prop in H. split.
  - intros E j Hj. apply N.eqb_eq in E. rewrite E in H. symmetry in H.
    pose proof (all_bits_spec _ H j Hj) as Hb. cbn beta in Hb.
    destruct (bit_is_clear v j); [discriminate|reflexivity].
  - intros Hall. apply N.eqb_eq. rewrite H. unfold all_bits. apply forallb_forall.
    intros j Hin. apply in_map_iff in Hin. destruct Hin as [n [<- Hn]]. apply in_seq in Hn.
    rewrite Hall by lia. reflexivity.
Qed.

Lemma zero_bits_0_iff_255 : forall v, (v < 256)%N -> (zero_bits 8 0 v = 0 <-> v = 255%N).
Proof.
  intros v Hv.
  assert (Hall : all_bytes (fun v => Bool.eqb (zero_bits 8 0 v =? 0) (v =? 255)%N) = true) by (vm_compute; reflexivity).
  pose proof (all_bytes_spec _ Hall v Hv) as H; cbn beta in H; clear Hall.
  apply Bool.eqb_prop in H. rewrite <- Z.eqb_eq, <- N.eqb_eq, H. reflexivity.
Qed.

(** setting bit j: buf[pos] |= 1 << j *)
Definition set_bit (v j : N) : N := N.lor v (bit_mask j).
(** clearing bit j: buf[fidx] & (0xFF ^ (1 << bit)) *)
Definition clear_bit (v j : N) : N := N.land v (N.lxor 255 (bit_mask j)).

Lemma set_bit_spec : forall v j, (v < 256)%N -> (j < 8)%N -> bit_is_clear v j = true ->
  N.land (set_bit v j) 255 = set_bit v j /\
  zero_bits 8 0 (set_bit v j) = zero_bits 8 0 v - 1 /\
  forall i, (i < 8)%N -> bit_is_clear (set_bit v j) i = if (i =? j)%N then false else bit_is_clear v i.
Proof.
  intros v j Hv Hj Hc.
  assert (Hall : all_bytes (fun v => all_bits (fun j => negb (bit_is_clear v j) ||
              ((N.land (set_bit v j) 255 =? set_bit v j)%N
               && (zero_bits 8 0 (set_bit v j) =? zero_bits 8 0 v - 1)
               && all_bits (fun i => Bool.eqb (bit_is_clear (set_bit v j) i)
                                       (if (i =? j)%N then false else bit_is_clear v i))))) = true) by (vm_compute; reflexivity).
  pose proof (all_bytes_spec _ Hall v Hv) as H; cbn beta in H; clear Hall.
  pose proof (all_bits_spec _ H j Hj) as Hb. cbn beta in Hb. rewrite Hc in Hb. cbn [negb orb] in Hb.
  apply andb_prop in Hb. destruct Hb as [Hb H3]. apply andb_prop in Hb. destruct Hb as [H1 H2].
  apply N.eqb_eq in H1. apply Z.eqb_eq in H2. split; [exact H1|]. split; [exact H2|].
  intros i Hi. pose proof (all_bits_spec _ H3 i Hi) as Hi'. cbn beta in Hi'.
  apply Bool.eqb_prop in Hi'. exact Hi'.
Qed.

Lemma clear_bit_spec : forall v j, (v < 256)%N -> (j < 8)%N -> bit_is_clear v j = false ->
  N.land (clear_bit v j) 255 = clear_bit v j /\
  zero_bits 8 0 (clear_bit v j) = zero_bits 8 0 v + 1 /\
  forall i, (i < 8)%N -> bit_is_clear (clear_bit v j) i = if (i =? j)%N then true else bit_is_clear v i.
Proof.
  intros v j Hv Hj Hc.
  assert (Hall : all_bytes (fun v => all_bits (fun j => bit_is_clear v j ||
              ((N.land (clear_bit v j) 255 =? clear_bit v j)%N
               && (zero_bits 8 0 (clear_bit v j) =? zero_bits 8 0 v + 1)
               && all_bits (fun i => Bool.eqb (bit_is_clear (clear_bit v j) i)
                                       (if (i =? j)%N then true else bit_is_clear v i))))) = true) by (vm_compute; reflexivity).
  pose proof (all_bytes_spec _ Hall v Hv) as H; cbn beta in H; clear Hall.
  pose proof (all_bits_spec _ H j Hj) as Hb. cbn beta in Hb. rewrite Hc in Hb. cbn [orb] in Hb.
  apply andb_prop in Hb. destruct Hb as [Hb H3]. apply andb_prop in Hb. destruct Hb as [H1 H2].
  apply N.eqb_eq in H1. apply Z.eqb_eq in H2. split; [exact H1|]. split; [exact H2|].
  intros i Hi. pose proof (all_bits_spec _ H3 i Hi) as Hi'. cbn beta in Hi'.
  apply Bool.eqb_prop in Hi'. exact Hi'.
Qed.

(** the number of set bits among 0..7, as the length of a filtered range, is 8 - zero_bits *)
Lemma zero_bits_filter : forall v, (v < 256)%N ->
  Z.of_nat (length (filter (fun k => negb (bit_is_clear v (Z.to_N k))) (zrange 0 8))) = 8 - zero_bits 8 0 v.
Proof.
  intros v Hv.
  assert (Hall : all_bytes (fun v => (Z.of_nat (length (filter (fun k => negb (bit_is_clear v (Z.to_N k))) (zrange 0 8)))
               =? 8 - zero_bits 8 0 v)) = true) by (vm_compute; reflexivity).
  pose proof (all_bytes_spec _ Hall v Hv) as H; cbn beta in H; clear Hall.
  apply Z.eqb_eq. exact H.
Qed.
