(** C11, part 1: what a state of the pointer model keeps reachable from [head].

    Everything is read off the representation relation of C10
    ([R s o] = [exists c zs, repr s c zs /\ R2 c o]): the nodes reachable from
    head are exactly the ids of the represented cell list, the cells are the
    live entries, the removed entries some open iterator is parked on, and the
    trailing sentinel. *)
From Coq Require Import List ZArith Arith Bool Lia.
From GL Require Import lib.IMapBase model.IMap model.Chain spec.OMap
  proofs.C10_Assoc proofs.C10_Cells proofs.C10_Next proofs.C10_R2 proofs.C10_ChainSim
  proofs.C10_Heap proofs.C10_L1 proofs.C10_Repr proofs.C10_Main.
Import ListNotations.
Open Scope Z_scope.

(** * The walk from head is the represented list *)

Lemma walk_dseg h : forall ids fuel prv x,
  dseg h prv (x :: ids) None -> (length (x :: ids) <= fuel)%nat -> walk fuel h x = x :: ids.
Proof.
  induction ids as [|y t IH]; intros fuel prv x Hd Hf; (destruct fuel as [|f]; [cbn in Hf; lia|]);
    cbn [dseg] in Hd; destruct Hd as (n & Hn & _ & Hx & Ht); cbn [walk]; rewrite Hn, Hx.
  - reflexivity.
  - f_equal. apply (IH f (Some x) y Ht). cbn [length] in *. lia.
Qed.

Lemma chain_ids s c zs : repr s c zs -> i_chain s = ids_of zs.
Proof.
  intros Hr. pose proof (rp_wst _ _ _ Hr) as Hw. pose proof (ws_core _ _ _ _ Hw) as Hcore.
  pose proof (ws_head _ _ _ _ Hw) as Hh. pose proof (co_dseg _ _ Hcore) as Hd.
  pose proof (fuel_ok _ _ Hcore) as Hf. unfold cfuel in Hf. rewrite map_length in Hf.
  unfold i_chain. destruct (ids_of zs) as [|x t] eqn:E; [discriminate|]. injection Hh as ->.
  apply (walk_dseg _ t _ None); [exact Hd|]. unfold ids_of in E.
  assert (length zs = length (head s :: t)) by (rewrite <- E, map_length; reflexivity). lia.
Qed.

Definition node_at (h : heap) (x : nat) : list node :=
  match nth_error h x with Some n => [n] | None => [] end.

Lemma nodes_cells h zs : Forall (pay h) zs ->
  Forall2 (fun n c => n_st n = c_st c /\ n_ref n = c_ref c) (flat_map (node_at h) (ids_of zs)) (map snd zs).
Proof.
  induction 1 as [|[x cl] t (n & Hn & Hst & Hrf & _) _ IH]; cbn [ids_of map flat_map fst snd]; [constructor|].
  cbn [fst snd] in *. unfold node_at at 1. rewrite Hn. cbn [app]. constructor; [auto|exact IH].
Qed.

Definition is_del (c : cell) : bool := nstate_eqb (c_st c) StDeleted.

Lemma count_del_cells ns cs :
  Forall2 (fun n c => n_st n = c_st c /\ n_ref n = c_ref c) ns cs ->
  length (filter (fun n => nstate_eqb (n_st n) StDeleted) ns) = length (filter is_del cs) /\
  fold_right (fun n acc => n_ref n + acc) 0 ns = fold_right (fun c acc => c_ref c + acc) 0 cs.
Proof.
  induction 1 as [|n c tn tc [H1 H2] _ [IH1 IH2]]; cbn [filter fold_right]; [auto|].
  unfold is_del. rewrite H1, H2, IH2. split; [|reflexivity].
  destruct (nstate_eqb (c_st c) StDeleted); cbn [length]; rewrite IH1; reflexivity.
Qed.

Lemma count_deleted_pinned s c zs : repr s c zs -> count_deleted s = c_pinned c /\ sum_ref s = c_sum_ref c.
Proof.
  intros Hr. unfold count_deleted, sum_ref, nodes_of, c_pinned, c_sum_ref.
  rewrite (chain_ids _ _ _ Hr), (rp_cells _ _ _ Hr).
  apply count_del_cells. apply (nodes_cells (heap_of s) zs).
  exact (co_pay _ _ (ws_core _ _ _ _ (rp_wst _ _ _ Hr))).
Qed.

(** * The cells: live entries + pinned removed entries + the sentinel *)

Lemma cells_from_count r es : forall i,
  length (cells_from r i es) = (o_len es + 1 + length (filter is_del (cells_from r i es)))%nat.
Proof.
  unfold o_len. induction es as [|e t IH]; intros i; cbn [cells_from filter].
  - reflexivity.
  - rewrite filter_app, !app_length, IH. unfold cell_at. destruct (e_live e); cbn [filter is_del c_st nstate_eqb length]; [lia|].
    destruct (0 <? r i); cbn [filter is_del c_st nstate_eqb length]; lia.
Qed.

Lemma cells_from_del_pos r es : forall i c, In c (cells_from r i es) -> is_del c = true -> 0 < r (c_stamp c).
Proof.
  induction es as [|e t IH]; intros i c; cbn [cells_from].
  - intros [<-|[]]. discriminate.
  - rewrite in_app_iff. intros [H|H]; [|apply (IH _ _ H)]. unfold cell_at in H.
    destruct (e_live e); [destruct H as [<-|[]]; discriminate|].
    destruct (Z.ltb_spec 0 (r i)); [|destruct H]. destruct H as [<-|[]]. intros _. exact H0.
Qed.

Lemma cnt_pos_in its j : 0 < cnt its j -> exists i, In (i, j) its.
Proof.
  unfold cnt. induction its as [|[i s] t IH]; cbn [filter snd length]; [lia|].
  destruct (Nat.eqb_spec s j) as [->|Hne].
  - intros _. exists i. left. reflexivity.
  - intros H. destruct (IH H) as (i' & Hi'). exists i'. right. exact Hi'.
Qed.

Lemma trel_in_r {A B} (P : A -> B -> Prop) la lb i b :
  trel P la lb -> In (i, b) lb -> exists a, In (i, a) la /\ P a b.
Proof.
  induction 1 as [|[ka va] [kb vb] ta tb [H HR] _ IH]; cbn [In]; [tauto|]. cbn [fst snd] in *. subst kb.
  intros [[= -> ->]|Hin].
  - exists va. auto.
  - destruct (IH Hin) as (a & Ha & HP). exists a. auto.
Qed.

Lemma nodup_fst_filter_gen {A B} (p : A * B -> bool) (l : list (A * B)) :
  NoDup (map fst l) -> NoDup (map fst (filter p l)).
Proof.
  induction l as [|x t IH]; cbn [map filter]; [auto|]. intros H. inversion H as [|? ? Hni Hnd]; subst.
  destruct (p x); cbn [map]; [|auto]. constructor; [|auto].
  intros Hin. apply Hni. apply in_map_iff in Hin. destruct Hin as (y & Hy & Hin).
  apply filter_In in Hin. rewrite <- Hy. apply in_map. tauto.
Qed.

Lemma filter_map_length {A B} (f : A -> B) (p : B -> bool) (l : list A) :
  length (filter p (map f l)) = length (filter (fun a => p (f a)) l).
Proof. induction l as [|a t IH]; cbn [map filter]; [reflexivity|]. destruct (p (f a)); cbn [length]; rewrite IH; reflexivity. Qed.

(* a pinned cell is the cell some open iterator of the pointer model points to *)
Lemma pinned_has_iter s c zs o x cl :
  repr s c zs -> R2 c o -> In (x, cl) zs -> is_del cl = true -> exists i, In (i, x) (iters s).
Proof.
  intros Hr H2 Hin Hd.
  assert (Hc : In cl (cells_from (cnt (citers c)) 0 (entries o))).
  { rewrite <- (r2_cells _ _ H2), (rp_cells _ _ _ Hr). apply (in_map snd) in Hin. exact Hin. }
  pose proof (cells_from_del_pos _ _ _ _ Hc Hd) as Hpos.
  destruct (cnt_pos_in _ _ Hpos) as (i & Hi).
  destruct (trel_in_r _ _ _ _ _ (rp_iters _ _ _ Hr) Hi) as (x' & Hx' & Hlk).
  exists i. replace x with x'; [exact Hx'|].
  eapply stamp_unique; [exact (co_stamps _ _ (ws_core _ _ _ _ (rp_wst _ _ _ Hr)))|exact Hlk|].
  apply sid_in. eauto.
Qed.

(** * The theorems, for any state related to a specification state *)

Section Related.
Variables (s : imap) (o : omap).
Hypothesis HR : R s o.

Lemma R_len : i_len s = o_len (entries o).
Proof.
  destruct HR as (c & zs & Hr & H2). rewrite (sim1_len _ _ _ Hr). apply sim_len. exact H2.
Qed.

Lemma R_names : map fst (iters s) = map fst (opos o).
Proof.
  destruct HR as (c & zs & Hr & H2).
  rewrite (trel_keys _ _ _ (rp_iters _ _ _ Hr)). apply (trel_keys _ _ _ (r2_iters _ _ H2)).
Qed.

Lemma R_open : length (iters s) = length (opos o).
Proof. rewrite <- (map_length fst (iters s)), R_names. apply map_length. Qed.

Lemma R_chain_length : length (i_chain s) = (i_len s + 1 + count_deleted s)%nat.
Proof.
  rewrite R_len. destruct HR as (c & zs & Hr & H2).
  rewrite (proj1 (count_deleted_pinned _ _ _ Hr)), (chain_ids _ _ _ Hr). unfold c_pinned, ids_of.
  rewrite map_length, <- (map_length snd zs), <- (rp_cells _ _ _ Hr), (r2_cells _ _ H2).
  apply cells_from_count.
Qed.

Lemma R_pinned_referenced : forall x n,
  In x (i_chain s) -> nth_error (heap_of s) x = Some n -> n_st n = StDeleted ->
  1 <= n_ref n /\ exists i, In (i, x) (iters s).
Proof.
  destruct HR as (c & zs & Hr & H2). intros x n Hx Hn Hst. rewrite (chain_ids _ _ _ Hr) in Hx.
  apply in_map_iff in Hx. destruct Hx as ([x' cl] & Hx' & Hin). cbn [fst] in Hx'. subst x'.
  pose proof (in_zs_pay _ _ _ _ (ws_core _ _ _ _ (rp_wst _ _ _ Hr)) Hin) as (n' & Hn' & Hst' & Hrf' & _).
  cbn [fst snd] in *. assert (n' = n) by congruence. subst n'.
  assert (Hd : is_del cl = true) by (unfold is_del; rewrite <- Hst', Hst; reflexivity).
  split; [|eapply pinned_has_iter; eauto].
  assert (Hc : In cl (cells_from (cnt (citers c)) 0 (entries o))).
  { rewrite <- (r2_cells _ _ H2), (rp_cells _ _ _ Hr). apply (in_map snd) in Hin. exact Hin. }
  pose proof (cells_from_del_pos _ _ _ _ Hc Hd) as Hpos.
  pose proof (proj1 (Forall_forall _ _) (cells_from_ref (cnt (citers c)) (entries o) 0%nat) cl Hc) as Hrf.
  cbn beta in Hrf. lia.
Qed.

Lemma R_pinned_le_iters : (count_deleted s <= length (iters s))%nat.
Proof.
  destruct HR as (c & zs & Hr & H2). rewrite (proj1 (count_deleted_pinned _ _ _ Hr)).
  unfold c_pinned. rewrite (rp_cells _ _ _ Hr).
  change (fun c0 : cell => nstate_eqb (c_st c0) StDeleted) with is_del.
  rewrite filter_map_length.
  set (P := filter (fun z : nat * cell => is_del (snd z)) zs).
  rewrite <- (map_length fst P), <- (map_length snd (iters s)).
  apply NoDup_incl_length.
  - apply nodup_fst_filter_gen. exact (co_ids _ _ (ws_core _ _ _ _ (rp_wst _ _ _ Hr))).
  - intros x Hx. apply in_map_iff in Hx. destruct Hx as ([x' cl] & Hx' & Hin). cbn [fst] in Hx'. subst x'.
    apply filter_In in Hin. destruct Hin as [Hin Hd]. cbn [snd] in Hd.
    destruct (pinned_has_iter _ _ _ _ _ _ Hr H2 Hin Hd) as (i & Hi).
    apply in_map_iff. exists (i, x). auto.
Qed.

Lemma back_linked_dseg h : forall ids prv nxt, dseg h prv ids nxt -> back_linked h prv ids = true.
Proof.
  induction ids as [|x t IH]; intros prv nxt Hd; cbn [back_linked]; [reflexivity|].
  cbn [dseg] in Hd. destruct Hd as (n & Hn & Hp & _ & Ht). rewrite Hn, Hp.
  destruct prv as [b|]; [rewrite Nat.eqb_refl; cbn [andb]|]; eapply IH; exact Ht.
Qed.

Lemma R_head_on_chain : hd_error (i_chain s) = Some (head s) /\ head_ok s = true.
Proof.
  destruct HR as (c & zs & Hr & H2).
  pose proof (rp_wst _ _ _ Hr) as Hw. pose proof (ws_core _ _ _ _ Hw) as Hcore.
  rewrite (chain_ids _ _ _ Hr). split; [exact (ws_head _ _ _ _ Hw)|].
  unfold head_ok. rewrite (chain_ids _ _ _ Hr).
  rewrite (back_linked_dseg _ _ _ _ (co_dseg _ _ Hcore)). cbn [andb].
  (* the last cell is the sentinel *)
  pose proof (rp_cells _ _ _ Hr) as Hcells. rewrite (r2_cells _ _ H2), cells_from_body in Hcells.
  destruct (list_snoc_cases zs) as [->|(zi & [a la] & ->)].
  { pose proof (ws_head _ _ _ _ Hw) as Hh. discriminate. }
  rewrite map_app in Hcells. cbn [map snd] in Hcells. apply app_inj_tail in Hcells. destruct Hcells as [_ Hla].
  rewrite ids_app, map_app. cbn [ids_of map fst]. rewrite last_last.
  pose proof (rp_last _ _ _ Hr) as Hl. rewrite ids_app in Hl. cbn [ids_of map fst] in Hl. rewrite last_last in Hl.
  rewrite Hl, Nat.eqb_refl. cbn [andb].
  assert (Hain : In (a, la) (zi ++ [(a, la)])) by (apply in_app_iff; right; left; reflexivity).
  destruct (in_zs_pay _ _ _ _ Hcore Hain) as (n & Hn & Hst & _). cbn [fst snd] in *.
  rewrite <- Hl, Hn, Hst, <- Hla. cbn [last_cell c_st nstate_eqb andb].
  pose proof (co_dseg _ _ Hcore) as Hd. rewrite ids_app in Hd. apply dseg_app in Hd. destruct Hd as [_ Hd].
  cbn [ids_of map fst dseg] in Hd. destruct Hd as (n' & Hn' & _ & Hx & _). assert (n' = n) by congruence. subst n'.
  rewrite Hx. reflexivity.
Qed.

Lemma R_sum_ref_cells : exists c, sum_ref s = c_sum_ref c /\ R2 c o.
Proof. destruct HR as (c & zs & Hr & H2). exists c. split; [apply (count_deleted_pinned _ _ _ Hr)|exact H2]. Qed.

End Related.

(** * Reachable states *)

Definition reach (ch : nat -> option nat) (h : list op) : imap := final (i_step ch) i_new h.
Definition oreach (h : list op) : omap := final o_step o_new h.

(* names of the iterators a history leaves open *)
Definition open_iters (h : list op) : list Z := fold_left open_after h [].

Lemma R_reach h ch : wf_hist h -> R (reach ch h) (oreach h).
Proof.
  intros Hwf. unfold reach, oreach, final.
  apply (imap_run_sim ch h [] i_new o_new R_init); [cbn; tauto|exact Hwf].
Qed.

Lemma final_names : forall h open o,
  (forall y, In y open <-> In y (map fst (opos o))) -> wf_from open h = true ->
  forall y, In y (fold_left open_after h open) <-> In y (map fst (opos (final o_step o h))).
Proof.
  induction h as [|x t IH]; intros open o Hs Hwf y; cbn [fold_left]; [apply Hs|].
  pose proof (wf_head_ok open _ x t Hs Hwf) as Hok.
  pose proof (o_step_no_stop o x Hok) as Hns.
  pose proof (open_after_names open o x Hs Hok) as Hn.
  unfold final. cbn [run]. destruct (o_step o x) as [o' z] eqn:Eo. cbn [fst snd] in *. rewrite Hns.
  specialize (IH (open_after open x) o' Hn (wf_tail _ _ _ Hwf) y). unfold final in IH.
  destruct (run o_step o' t) as [xs of]. exact IH.
Qed.

Lemma reach_names h ch : wf_hist h -> forall y, In y (open_iters h) <-> In y (map fst (iters (reach ch h))).
Proof.
  intros Hwf y. rewrite (R_names _ _ (R_reach h ch Hwf)).
  apply (final_names h [] o_new); [cbn; tauto|exact Hwf].
Qed.

Theorem chain_length : forall h ch, wf_hist h ->
  length (i_chain (reach ch h)) = (i_len (reach ch h) + 1 + count_deleted (reach ch h))%nat.
Proof. intros h ch Hwf. eapply R_chain_length. apply R_reach. exact Hwf. Qed.

Theorem pinned_referenced : forall h ch, wf_hist h -> forall x n,
  In x (i_chain (reach ch h)) -> nth_error (heap_of (reach ch h)) x = Some n -> n_st n = StDeleted ->
  1 <= n_ref n /\ exists i, In (i, x) (iters (reach ch h)) /\ In i (open_iters h).
Proof.
  intros h ch Hwf x n Hx Hn Hst.
  destruct (R_pinned_referenced _ _ (R_reach h ch Hwf) x n Hx Hn Hst) as (H1 & i & Hi).
  split; [exact H1|]. exists i. split; [exact Hi|]. apply (reach_names h ch Hwf).
  apply (in_map fst) in Hi. exact Hi.
Qed.

Theorem pinned_le_iters : forall h ch, wf_hist h ->
  (count_deleted (reach ch h) <= length (iters (reach ch h)))%nat.
Proof. intros h ch Hwf. eapply R_pinned_le_iters. apply R_reach. exact Hwf. Qed.

Theorem head_on_chain : forall h ch, wf_hist h ->
  hd_error (i_chain (reach ch h)) = Some (head (reach ch h)) /\ head_ok (reach ch h) = true.
Proof. intros h ch Hwf. eapply R_head_on_chain. apply R_reach. exact Hwf. Qed.

Theorem closed_no_garbage : forall h ch, wf_hist h -> open_iters h = [] ->
  iters (reach ch h) = [] /\ count_deleted (reach ch h) = 0%nat /\
  length (i_chain (reach ch h)) = (i_len (reach ch h) + 1)%nat.
Proof.
  intros h ch Hwf Hopen.
  assert (Hit : iters (reach ch h) = []).
  { destruct (iters (reach ch h)) as [|[i x] t] eqn:E; [reflexivity|]. exfalso.
    assert (Hin : In i (open_iters h)) by (apply (reach_names h ch Hwf); rewrite E; left; reflexivity).
    rewrite Hopen in Hin. exact Hin. }
  pose proof (pinned_le_iters h ch Hwf) as Hp. rewrite Hit in Hp. cbn [length] in Hp.
  split; [exact Hit|]. split; [lia|]. rewrite (chain_length h ch Hwf). lia.
Qed.

(** * Reference counts add up to the number of open iterators *)

Lemma sum_cnt_cells (l : list cell) : NoDup (map c_stamp l) -> forall its,
  (forall i s, In (i, s) its -> In s (map c_stamp l)) ->
  fold_right (fun c acc => cnt its (c_stamp c) + acc) 0 l = Z.of_nat (length its).
Proof.
  intros Hnd. induction its as [|[i s] t IH]; intros Hall.
  - cbn [length]. clear. induction l as [|c l IH]; [reflexivity|]. cbn [fold_right]. rewrite IH. reflexivity.
  - assert (Hone : forall l0, NoDup (map c_stamp l0) ->
              fold_right (fun c acc => cnt ((i, s) :: t) (c_stamp c) + acc) 0 l0 =
              fold_right (fun c acc => cnt t (c_stamp c) + acc) 0 l0 + (if in_dec Nat.eq_dec s (map c_stamp l0) then 1 else 0)).
    { induction l0 as [|c l0 IH0]; intros Hnd0; [reflexivity|]. cbn [fold_right map] in *.
      inversion Hnd0 as [|? ? Hni Hnd1]; subst. rewrite (IH0 Hnd1), cnt_cons. unfold bump.
      destruct (in_dec Nat.eq_dec s (c_stamp c :: map c_stamp l0)) as [Hin|Hnin];
        destruct (in_dec Nat.eq_dec s (map c_stamp l0)) as [Hin0|Hnin0];
        destruct (Nat.eqb_spec (c_stamp c) s) as [E|E]; try lia; exfalso;
        solve [ apply Hni; rewrite E; exact Hin0
              | destruct Hin as [Hin|Hin]; [congruence|contradiction]
              | apply Hnin; left; exact E
              | apply Hnin; right; exact Hin0 ]. }
    rewrite (Hone l Hnd), IH by (intros i0 s0 H0; apply (Hall i0 s0); right; exact H0).
    destruct (in_dec Nat.eq_dec s (map c_stamp l)) as [_|Hn]; [cbn [length]; lia|].
    exfalso. apply Hn. apply (Hall i s). left. reflexivity.
Qed.

Lemma R_sum_ref s o : R s o -> sum_ref s = Z.of_nat (length (iters s)).
Proof.
  intros HR. rewrite (R_open _ _ HR). destruct HR as (c & zs & Hr & H2).
  rewrite (proj2 (count_deleted_pinned _ _ _ Hr)). unfold c_sum_ref.
  rewrite <- (trel_length _ _ _ (r2_iters _ _ H2)).
  pose proof (cinv_of_R2 _ _ H2) as Hc.
  rewrite <- (sum_cnt_cells (cells c) (ci_nodup _ Hc) (citers c)).
  - pose proof (cells_from_ref (cnt (citers c)) (entries o) 0%nat) as Hrf. rewrite <- (r2_cells _ _ H2) in Hrf.
    induction Hrf as [|x l Hx _ IH]; [reflexivity|]. cbn [fold_right]. rewrite Hx, IH. reflexivity.
  - intros i st Hin. destruct (ci_iters _ Hc i st Hin) as (cl & Hcl & Hs & _). rewrite <- Hs. apply in_map. exact Hcl.
Qed.

Theorem refs_are_iters : forall h ch, wf_hist h ->
  sum_ref (reach ch h) = Z.of_nat (length (iters (reach ch h))).
Proof. intros h ch Hwf. eapply R_sum_ref. apply R_reach. exact Hwf. Qed.
