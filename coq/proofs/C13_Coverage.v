(** C13: strong coverage of the worker pool (model/TPool.v) as a full inductive invariant,
    under the timer fact "a wake-up by timer happens strictly after until", and its
    consequence: a reachable state with a due pending future is never stuck.

    DESIGN.md Appendix B names the exit of a worker with misCount > 1 that leaves only
    sleepers as the delicate step.  The invariant below makes that step trivial and moves
    the argument to the two places where it belongs:
      - a worker that falls asleep while it is not alone sleeps until the head's fire time
        or until now + idle, and then (F1) no other sleeper sleeps longer than it does;
      - a sleeper woken by its timer strictly after [until] either finds the head it slept
        for due (it is about to pop it), or every sleeper that could be stale has expired.

    [cov_inv p]: with a non-empty heap and no buffered token, one of
      N  no sleeper is stale (every sleeper has expired or wakes no later than the head's
         fire time);
      S  some worker cannot exit at its next locked section: it runs a callback or decides
         with misCount <= 1;
      D  the head is due and some worker is about to decide;
      G  some sleeper g sleeps exactly until the head's fire time, or g is not stale and no
         stale sleeper sleeps longer than g. *)
From Coq Require Import List ZArith NArith Bool Lia.
From GL Require Import model.THeap model.TPool proofs.C12_THeap proofs.C12_HeapOrder proofs.C12_TPool proofs.C12_PoolOrder proofs.C13_TPool.
Import ListNotations.
Open Scope Z_scope.

(** * the timer fact *)

(* a timer wake-up happens strictly after [until]: the timer is armed after the locked
   section in which [until] = now + tmt was computed from an earlier clock reading *)
Definition strict_label (p : pool) (l : label) : bool :=
  match l with
  | LWakeTimer w t => match pc_of p w with Sleeping _ u => u <? t | _ => true end
  | _ => true
  end.

Fixpoint strict_run (p : pool) (tr : list label) : bool :=
  match tr with
  | [] => true
  | l :: t => strict_label p l && match step p l with Some p' => strict_run p' t | None => true end
  end.

(** * the invariant *)

Definition nonstale (p : pool) (u : Z) : Prop := u <= now p \/ u <= head_fire (hp p).

Definition safe_active (c : pc) : Prop :=
  match c with Running _ => True | Deciding m => m <= 1 | _ => False end.

Definition cov_N (p : pool) : Prop := forall w m u, pc_of p w = Sleeping m u -> nonstale p u.
Definition cov_S (p : pool) : Prop := exists w, safe_active (pc_of p w).
Definition cov_D (p : pool) : Prop := (exists w m, pc_of p w = Deciding m) /\ head_fire (hp p) < now p.
Definition cov_G (p : pool) : Prop :=
  exists g m ug, pc_of p g = Sleeping m ug /\
    (ug = head_fire (hp p) \/
     (nonstale p ug /\ forall r m' ur, pc_of p r = Sleeping m' ur -> nonstale p ur \/ ur <= ug)).

Definition cov_inv (p : pool) : Prop :=
  arr (hp p) <> [] -> tokens p = 0 -> cov_N p \/ cov_S p \/ cov_D p \/ cov_G p.

Lemma cov_inv_init : forall i m c k, cov_inv (init_pool i m c k).
Proof. intros i m c k H. cbn in H. contradiction. Qed.

Lemma safe_is_active : forall c, safe_active c -> active c.
Proof. intros [m|m u|x|] H; cbn in *; auto. Qed.

(* the invariant gives strong coverage *)
Lemma cov_inv_covered : forall p, pool_inv p -> cov_inv p -> covered p.
Proof.
  intros p Hinv Hc Hne.
  pose proof (pi_f0 p Hinv Hne) as Hw1. rewrite (pi_watch p Hinv) in Hw1.
  destruct (exists_live _ Hw1) as [w0 Hl0]. change (nth w0 (workers p) Gone) with (pc_of p w0) in Hl0.
  destruct (Z.eq_dec (tokens p) 0) as [Ht|Ht].
  - destruct (Hc Hne Ht) as [N|[[w S]|[[[w [m E]] _]|[g [m [ug [E G]]]]]]].
    + destruct (live_cases _ Hl0) as [A|[m [u E]]].
      * left. exists w0. exact A.
      * destruct (N w0 m u E) as [X|X].
        -- right. left. exists w0, m, u. auto.
        -- right. right. right. exists w0, m, u. auto.
    + left. exists w. apply safe_is_active. exact S.
    + left. exists w. rewrite E. exact I.
    + assert (Hn : nonstale p ug).
      { destruct G as [->|[X _]]; [right; lia|exact X]. }
      destruct Hn as [X|X].
      * right. left. exists g, m, ug. auto.
      * right. right. right. exists g, m, ug. auto.
  - pose proof (pi_tok p Hinv) as Htk.
    destruct (live_cases _ Hl0) as [A|[m [u E]]].
    + left. exists w0. exact A.
    + right. right. left. split; [lia|]. exists w0, m, u. exact E.
Qed.

(** ** the clock *)
Lemma cov_inv_now : forall p t, cov_inv p -> now p <= t -> cov_inv (with_now p t).
Proof.
  intros p t Hc Ht Hne Htk.
  change (arr (hp (with_now p t))) with (arr (hp p)) in Hne.
  change (tokens (with_now p t)) with (tokens p) in Htk.
  assert (NS : forall u, nonstale p u -> nonstale (with_now p t) u).
  { intros u [X|X]; [left; cbn [with_now now]; lia|right; exact X]. }
  destruct (Hc Hne Htk) as [N|[S|[[Dx Dd]|[g [m [ug [E G]]]]]]].
  - left. intros w m u E. apply NS. apply (N w m u E).
  - right. left. exact S.
  - right. right. left. split; [exact Dx|]. cbn [with_now now hp]. lia.
  - right. right. right. exists g, m, ug. split; [exact E|].
    destruct G as [G|[G1 G2]]; [left; exact G|right]. split; [apply NS; exact G1|].
    intros r m' ur Er. destruct (G2 r m' ur Er) as [X|X]; [left; apply NS; exact X|right; exact X].
Qed.

(** ** the locked section when it does not pop *)
Lemma do_decide_nopop_cases : forall p w mis t, pops p t = false ->
  (do_decide p w mis t = exit_worker p w /\ 1 < mis) \/
  (f_len (hp p) = 0 /\ do_decide p w mis t = with_pc p w (Sleeping mis (t + idle p))) \/
  (f_len (hp p) <> 0 /\ t <= head_fire (hp p) /\
   exists u, do_decide p w mis t = with_pc p w (Sleeping mis u) /\
             (u = head_fire (hp p) \/ (u = t + idle p /\ u <= head_fire (hp p) /\ 1 < watchers p))).
Proof.
  intros p w mis t Hp. unfold pops in Hp. unfold do_decide.
  destruct (f_len (hp p) =? 0) eqn:E0.
  { apply Z.eqb_eq in E0. destruct (mis >? 1) eqn:Em.
    - left. apply Z.gtb_lt in Em. split; [reflexivity|lia].
    - right. left. split; [exact E0|reflexivity]. }
  apply Z.eqb_neq in E0. cbn [negb andb] in Hp. rewrite Hp.
  rewrite Z.gtb_ltb in Hp. apply Z.ltb_ge in Hp.
  destruct (watchers p >? 1) eqn:Ew.
  - apply Z.gtb_lt in Ew. destruct (mis >? 1) eqn:Em.
    + left. apply Z.gtb_lt in Em. split; [reflexivity|lia].
    + rewrite Z.gtb_ltb in Em. apply Z.ltb_ge in Em. right. right.
      split; [exact E0|]. split; [exact Hp|].
      destruct (head_fire (hp p) - t >? idle p) eqn:Ec.
      * apply Z.gtb_lt in Ec. exists (t + idle p). split; [reflexivity|]. right. repeat split; lia.
      * rewrite Z.gtb_ltb in Ec. apply Z.ltb_ge in Ec. exists (t + (head_fire (hp p) - t)).
        split; [reflexivity|]. left. lia.
  - rewrite Z.gtb_ltb in Ew. apply Z.ltb_ge in Ew. right. right.
    split; [exact E0|]. split; [exact Hp|]. exists (t + (head_fire (hp p) - t)).
    split; [reflexivity|]. left. lia.
Qed.

(** ** one step *)
Theorem cov_inv_step : forall p l p',
  pool_ok p -> pool_inv p -> cov_inv p -> step p l = Some p' -> strict_label p l = true ->
  cov_inv p'.
Proof.
  intros p l p' Hok Hinv Hcov Hs Hstrict. unfold step in Hs.
  destruct (label_time l <? now p) eqn:Ht; [discriminate|]. apply Z.ltb_ge in Ht.
  pose proof (pool_inv_now p (label_time l) Hinv Ht) as Hinv0.
  pose proof (with_now_ok p (label_time l) Hok) as Hok0.
  pose proof (cov_inv_now p (label_time l) Hcov Ht) as Hcov0.
  set (q := with_now p (label_time l)) in *.
  assert (Hqpc : forall w, pc_of q w = pc_of p w) by reflexivity.
  assert (Hnq : now q = label_time l) by reflexivity.
  clearbody q.
  destruct Hinv0 as [Par W F0 B T F1 WC]. destruct Par as [P1 P2 P3].
  destruct l as [x d tc nn t|x t|w t|w t|w t|w t]; cbn [label_time] in *.
  - (* Call *)
    destruct (tc >? t); [discriminate|]. destruct nn.
    + destruct (do_call_nonnil q x d tc p' Hs) as [h [_ [Hi [Hm [Hc [Hn Hcase]]]]]].
      destruct Hcase as [[W0 [W1 [Wk Tk]]]|[W0 [W1 [Wk Tk]]]].
      * (* the spawned worker decides with misCount = 1 *)
        intros _ _. right. left. exists (length (workers q)). unfold pc_of. rewrite Wk.
        rewrite app_nth2 by lia. rewrite Nat.sub_diag. cbn. lia.
      * (* a token is left *)
        pose proof (notify_tokens q P3 T) as Hnt. intros _ Htk. lia.
    + destruct (do_call_nil q x d tc p' Hs) as [Ha [Hw [Htk [Hwk [Hn [Hi [Hm [Hc [Hnc Hg]]]]]]]]].
      intros Hne Htk0. rewrite Ha in Hne. rewrite Htk in Htk0.
      assert (Hhf : head_fire (hp p') = head_fire (hp q)).
      { apply head_fire_same; [exact Ha| |exact Hne].
        intros y Hy. rewrite Hg; [reflexivity|]. intros ->.
        destruct (po_pend q Hok0 x Hy) as [A _]. congruence. }
      assert (Hpc : forall w, pc_of p' w = pc_of q w) by (intros w; unfold pc_of; rewrite Hwk; reflexivity).
      unfold cov_N, cov_S, cov_D, cov_G, nonstale. rewrite Hhf, Hn.
      destruct (Hcov0 Hne Htk0) as [N|[[w S]|[[[w [m E]] Dd]|[g [m [ug [E G]]]]]]].
      * left. intros w m u E. rewrite Hpc in E. apply (N w m u E).
      * right. left. exists w. rewrite Hpc. exact S.
      * right. right. left. split; [exists w, m; rewrite Hpc; exact E|exact Dd].
      * right. right. right. exists g, m, ug. rewrite Hpc. split; [exact E|].
        destruct G as [G|[G1 G2]]; [left; exact G|right]. split; [exact G1|].
        intros r m' ur Er. rewrite Hpc in Er. apply (G2 r m' ur Er).
  - (* Cancel *)
    destruct (do_cancel_facts q x p' Hok0 Hs) as [_ [_ [_ [Hwk [Hwa [Hn [Hin [Hf [_ Hnp]]]]]]]]].
    destruct (in_dec N.eq_dec x (arr (hp q))) as [HI|HI].
    + (* a pending future is removed: a token is left *)
      assert (Hne : arr (hp q) <> []) by (intros E; rewrite E in HI; destruct HI).
      specialize (F0 Hne).
      assert (Htk : tokens p' = tokens (notify q)).
      { unfold do_cancel in Hs. destruct (negb (was_called q x)); [discriminate|].
        rewrite (pending_idx _ _ (po_idx q Hok0) HI) in Hs.
        match type of Hs with Some (if ?c then _ else _) = _ => destruct c eqn:Ew end; injection Hs as <-.
        - reflexivity.
        - rewrite Z.gtb_ltb in Ew. apply Z.ltb_ge in Ew. cbn [with_heap watchers] in Ew. lia. }
      pose proof (notify_tokens q P3 T) as Hnt. intros _ Htk0. lia.
    + destruct (Hnp HI) as [Hh Htk'].
      intros Hne Htk0. rewrite Hh in Hne. rewrite Htk' in Htk0.
      assert (Hpc : forall w, pc_of p' w = pc_of q w) by (intros w; unfold pc_of; rewrite Hwk; reflexivity).
      unfold cov_N, cov_S, cov_D, cov_G, nonstale. rewrite Hh, Hn.
      destruct (Hcov0 Hne Htk0) as [N|[[w S]|[[[w [m E]] Dd]|[g [m [ug [E G]]]]]]].
      * left. intros w m u E. rewrite Hpc in E. apply (N w m u E).
      * right. left. exists w. rewrite Hpc. exact S.
      * right. right. left. split; [exists w, m; rewrite Hpc; exact E|exact Dd].
      * right. right. right. exists g, m, ug. rewrite Hpc. split; [exact E|].
        destruct G as [G|[G1 G2]]; [left; exact G|right]. split; [exact G1|].
        intros r m' ur Er. rewrite Hpc in Er. apply (G2 r m' ur Er).
  - (* Decide *)
    destruct (pc_of q w) as [mis| | |] eqn:Hpc; try discriminate. injection Hs as <-.
    assert (Hw : (w < length (workers q))%nat) by (apply pc_of_lt; rewrite Hpc; discriminate).
    destruct (pops q t) eqn:Hp.
    { (* pop: the worker runs the callback *)
      destruct (do_decide_pop q w mis t Hok0 Hw Hp) as [_ [_ [_ [_ [_ [_ [_ [_ R]]]]]]]].
      intros _ _. right. left. exists w. rewrite R. exact I. }
    destruct (do_decide_nopop_cases q w mis t Hp) as [[E Hmis]|[[E0 E]|[E0 [Hdue [u [E Hu]]]]]]; rewrite E.
    + (* exit: the delicate step; every other worker is where it was *)
      intros Hne Htk. cbn [exit_worker hp tokens] in Hne, Htk.
      assert (Ho : forall w', w' <> w -> pc_of (exit_worker q w) w' = pc_of q w')
        by (intros w' Hn; apply pc_exit_other; exact Hn).
      assert (Hsl : forall w' m u, pc_of (exit_worker q w) w' = Sleeping m u -> pc_of q w' = Sleeping m u).
      { intros w' m u Es. destruct (Nat.eq_dec w' w) as [->|Hn].
        - rewrite pc_exit_same in Es by exact Hw. discriminate.
        - rewrite Ho in Es by exact Hn. exact Es. }
      unfold cov_N, cov_S, cov_D, cov_G, nonstale. cbn [exit_worker hp now].
      destruct (Hcov0 Hne Htk) as [N|[[w' S]|[[[w' [m Ed]] Dd]|[g [m [ug [Eg G]]]]]]].
      * left. intros w' m u Es. apply (N w' m u (Hsl w' m u Es)).
      * right. left. exists w'. destruct (Nat.eq_dec w' w) as [->|Hn].
        -- rewrite Hpc in S. cbn in S. lia.
        -- rewrite Ho by exact Hn. exact S.
      * (* the head is due: then this worker would have popped it *)
        exfalso. unfold pops in Hp. rewrite Hnq in Dd.
        assert (Hl : f_len (hp q) =? 0 = false).
        { apply Z.eqb_neq. intros E0. apply f_len_zero in E0. contradiction. }
        rewrite Hl in Hp. cbn [negb andb] in Hp. rewrite Z.gtb_ltb in Hp. apply Z.ltb_ge in Hp. lia.
      * right. right. right. exists g, m, ug. split.
        -- destruct (Nat.eq_dec g w) as [->|Hn]; [rewrite Hpc in Eg; discriminate|].
           rewrite Ho by exact Hn. exact Eg.
        -- destruct G as [G|[G1 G2]]; [left; exact G|right]. split; [exact G1|].
           intros r m' ur Er. apply (G2 r m' ur (Hsl r m' ur Er)).
    + (* sleep on an empty heap *)
      intros Hne. cbn [with_pc hp] in Hne. apply f_len_zero in E0. contradiction.
    + (* sleep towards the head: this worker is the guardian *)
      intros Hne Htk. cbn [with_pc hp tokens] in Hne, Htk.
      right. right. right. exists w, mis, u. split; [apply pc_with_pc_same; exact Hw|].
      cbn [with_pc hp now].
      destruct Hu as [Hu|[Hu [Hle Hw2]]]; [left; exact Hu|right].
      split; [right; exact Hle|].
      intros r m' ur Er. destruct (Nat.eq_dec r w) as [->|Hn].
      * rewrite pc_with_pc_same in Er by exact Hw. injection Er as _ <-. right. lia.
      * rewrite pc_with_pc_other in Er by exact Hn. right.
        pose proof (F1 ltac:(lia) r m' ur Er). lia.
  - (* WakeTimer: strictly after until *)
    destruct (pc_of q w) as [|mis u| |] eqn:Hpc; try discriminate.
    destruct (t <? u); [discriminate|]. injection Hs as <-.
    assert (Hw : (w < length (workers q))%nat) by (apply pc_of_lt; rewrite Hpc; discriminate).
    cbn [strict_label] in Hstrict. rewrite <- Hqpc, Hpc in Hstrict. apply Z.ltb_lt in Hstrict.
    intros Hne Htk. cbn [with_pc hp tokens] in Hne, Htk.
    assert (Hsl : forall w' m u', pc_of (with_pc q w (Deciding (mis + 1))) w' = Sleeping m u' ->
                  pc_of q w' = Sleeping m u' /\ w' <> w).
    { intros w' m u' Es. destruct (Nat.eq_dec w' w) as [->|Hn].
      - rewrite pc_with_pc_same in Es by exact Hw. discriminate.
      - rewrite pc_with_pc_other in Es by exact Hn. auto. }
    assert (Hdec : pc_of (with_pc q w (Deciding (mis + 1))) w = Deciding (mis + 1))
      by (apply pc_with_pc_same; exact Hw).
    unfold cov_N, cov_S, cov_D, cov_G, nonstale. cbn [with_pc hp now].
    destruct (Hcov0 Hne Htk) as [N|[[w' S]|[[[w' [m Ed]] Dd]|[g [m [ug [Eg G]]]]]]].
    + left. intros w' m u' Es. destruct (Hsl w' m u' Es) as [Es' _]. apply (N w' m u' Es').
    + right. left. exists w'. destruct (Nat.eq_dec w' w) as [->|Hn].
      * rewrite Hpc in S. destruct S.
      * rewrite pc_with_pc_other by exact Hn. exact S.
    + right. right. left. split; [exists w, (mis + 1); exact Hdec|exact Dd].
    + destruct (Nat.eq_dec g w) as [->|Hn].
      * (* the guardian itself wakes up *)
        rewrite Hpc in Eg. injection Eg as -> ->.
        destruct G as [G|[G1 G2]].
        -- (* it slept for the head, which is due now *)
           right. right. left. split; [exists w, (m + 1); exact Hdec|]. lia.
        -- (* every sleeper that could be stale has expired *)
           left. intros w' m' u' Es. destruct (Hsl w' m' u' Es) as [Es' _].
           destruct (G2 w' m' u' Es') as [X|X]; [exact X|left; lia].
      * right. right. right. exists g, m, ug. split.
        -- rewrite pc_with_pc_other by exact Hn. exact Eg.
        -- destruct G as [G|[G1 G2]]; [left; exact G|right]. split; [exact G1|].
           intros r m' ur Er. destruct (Hsl r m' ur Er) as [Er' _]. apply (G2 r m' ur Er').
  - (* WakeToken: the woken worker decides with misCount = 1 *)
    destruct (pc_of q w) as [|mis u| |] eqn:Hpc; try discriminate.
    destruct (tokens q >? 0); [|discriminate]. injection Hs as <-.
    assert (Hw : (w < length (workers q))%nat) by (apply pc_of_lt; rewrite Hpc; discriminate).
    intros _ _. right. left. exists w. unfold pc_of. cbn [with_pc workers].
    rewrite set_pc_nth by exact Hw. cbn. lia.
  - (* CbEnd: misCount = 0 *)
    destruct (pc_of q w) as [| |x|] eqn:Hpc; try discriminate. injection Hs as <-.
    assert (Hw : (w < length (workers q))%nat) by (apply pc_of_lt; rewrite Hpc; discriminate).
    intros _ _. right. left. exists w. rewrite pc_with_pc_same by exact Hw. cbn. lia.
Qed.

(** * reachable states *)

Lemma run_cov : forall tr p p', pool_ok p -> pool_inv p -> cov_inv p ->
  run p tr = Some p' -> strict_run p tr = true -> pool_ok p' /\ pool_inv p' /\ cov_inv p'.
Proof.
  induction tr as [|l tr IH]; intros p p' Hok Hinv Hc Hr Hst; cbn [run] in Hr.
  - injection Hr as <-. auto.
  - cbn [strict_run] in Hst. apply andb_prop in Hst. destruct Hst as [Hl Hst].
    destruct (step p l) as [p1|] eqn:E; [|discriminate].
    apply (IH p1 p'); [| | |exact Hr|exact Hst].
    + apply (sf_ok _ _ _ (step_facts_hold p l p1 Hok E)).
    + eapply pool_inv_step; eauto.
    + eapply cov_inv_step; eauto.
Qed.

Theorem coverage : forall i m c k tr p,
  0 <= i -> 1 <= m -> 1 <= c -> 0 <= k <= c ->
  run (init_pool i m c k) tr = Some p -> strict_run (init_pool i m c k) tr = true ->
  covered p.
Proof.
  intros i m c k tr p Hi Hm Hc Hk Hr Hst.
  destruct (run_cov tr (init_pool i m c k) p) as [_ [Hinv Hcov]]; auto.
  - apply pool_ok_init.
  - apply pool_inv_init; assumption.
  - apply cov_inv_init.
  - apply cov_inv_covered; assumption.
Qed.

(** * never stuck with a due head *)

(* a covered state whose head is due has an enabled worker label, at the current instant or
   (for a sleeper whose timer expires exactly now) one tick later, and that label respects
   the timer fact *)
Theorem due_head_progress : forall p,
  covered p -> arr (hp p) <> [] -> head_fire (hp p) < now p ->
  exists l, worker_label l = true /\ now p <= label_time l <= now p + 1 /\
            strict_label p l = true /\ step p l <> None.
Proof.
  intros p Hc Hne Hdue.
  assert (Hstep : forall l, now p <= label_time l -> label_time l <? now p = false)
    by (intros l H; apply Z.ltb_ge; exact H).
  destruct (Hc Hne) as [[w A]|[[w [m [u [E X]]]]|[[Ht [w [m [u E]]]]|[w [m [u [E X]]]]]]].
  - destruct (pc_of p w) as [mis|mis u|x|] eqn:Hpc; try destruct A.
    + exists (LDecide w (now p)). cbn [worker_label label_time strict_label]. repeat split; try lia.
      unfold step. cbn [label_time]. rewrite Z.ltb_irrefl.
      change (pc_of (with_now p (now p)) w) with (pc_of p w). rewrite Hpc. discriminate.
    + exists (LCbEnd w (now p)). cbn [worker_label label_time strict_label]. repeat split; try lia.
      unfold step. cbn [label_time]. rewrite Z.ltb_irrefl.
      change (pc_of (with_now p (now p)) w) with (pc_of p w). rewrite Hpc. discriminate.
  - exists (LWakeTimer w (now p + 1)). cbn [worker_label label_time strict_label]. rewrite E.
    repeat split; try lia.
    unfold step. cbn [label_time]. rewrite (proj2 (Z.ltb_ge _ _)) by lia.
    change (pc_of (with_now p (now p + 1)) w) with (pc_of p w). rewrite E.
    rewrite (proj2 (Z.ltb_ge _ _)) by lia. discriminate.
  - exists (LWakeToken w (now p)). cbn [worker_label label_time strict_label]. repeat split; try lia.
    unfold step. cbn [label_time]. rewrite Z.ltb_irrefl.
    change (pc_of (with_now p (now p)) w) with (pc_of p w). rewrite E.
    change (tokens (with_now p (now p))) with (tokens p).
    rewrite (proj2 (Z.gtb_lt _ _)) by lia. discriminate.
  - exists (LWakeTimer w (now p)). cbn [worker_label label_time strict_label]. rewrite E.
    repeat split; try lia.
    unfold step. cbn [label_time]. rewrite Z.ltb_irrefl.
    change (pc_of (with_now p (now p)) w) with (pc_of p w). rewrite E.
    rewrite (proj2 (Z.ltb_ge _ _)) by lia. discriminate.
Qed.

(* for every accepted trace that respects the timer fact: while a future whose fire time
   has passed is pending, some worker label is enabled - the dispatcher is never stuck
   with a due future (whether the scheduler takes the label is outside the model) *)
Theorem never_stuck : forall i m c k tr p x,
  0 <= i -> 1 <= m -> 1 <= c -> 0 <= k <= c ->
  run (init_pool i m c k) tr = Some p -> strict_run (init_pool i m c k) tr = true ->
  In x (pending p) -> fireT (get (hs (hp p)) x) < now p ->
  exists l, worker_label l = true /\ now p <= label_time l <= now p + 1 /\
            strict_label p l = true /\ step p l <> None.
Proof.
  intros i m c k tr p x Hi Hm Hc Hk Hr Hst Hx Hdue.
  apply due_head_progress.
  - apply (coverage i m c k tr p); assumption.
  - unfold pending in Hx. intros E. rewrite E in Hx. destruct Hx.
  - pose proof (reachable_heap_ordered i m c k tr p Hr) as Ho.
    pose proof (head_fire_minimal (hp p) x Ho Hx) as Hmin. unfold head_fire. lia.
Qed.

(** * the timer fact is needed *)

(* with a timer that may fire AT [until], a worker that slept for the head wakes up at
   the head's exact fire time, finds it not yet due (now.After is strict), has slept twice
   and is not alone: it exits, and the remaining worker sleeps past the head *)
Definition stale_trace : list label :=
  [LCall 1%N 0 0 true 0; LCall 2%N 0 0 true 0; LCall 9%N 1000 0 true 0;
   LDecide 0 1; LDecide 1 1; LCbEnd 0 2; LDecide 0 2; LWakeToken 0 2; LDecide 0 2; LWakeToken 0 3; LDecide 0 3;
   LCbEnd 1 3; LDecide 1 10; LCall 3%N 45 10 true 10; LWakeToken 0 11; LDecide 0 11;
   LWakeTimer 0 55; LDecide 0 55].

Lemma stale_trace_state :
  option_map (fun p => (dump (hp p), watchers p, tokens p, workers p, now p, head_fire (hp p)))
             (run (init_pool 50 2 2 0) stale_trace)
  = Some ([(3%N, 0); (9%N, 1)], 1, 0, [Gone; Sleeping 0 60], 55, 55).
Proof. vm_compute. reflexivity. Qed.

Theorem coverage_needs_strict_timers :
  exists tr p, run (init_pool 50 2 2 0) tr = Some p /\ strict_run (init_pool 50 2 2 0) tr = false /\ ~ covered p.
Proof.
  exists stale_trace.
  destruct (run (init_pool 50 2 2 0) stale_trace) as [p|] eqn:Hr; [|vm_compute in Hr; discriminate].
  exists p. split; [reflexivity|]. split; [vm_compute; reflexivity|].
  assert (Hw : workers p = [Gone; Sleeping 0 60] /\ now p = 55 /\ head_fire (hp p) = 55 /\ tokens p = 0 /\ arr (hp p) <> []).
  { vm_compute in Hr. injection Hr as <-. vm_compute. repeat split; discriminate. }
  destruct Hw as [Hw [Hn [Hh [Ht Hne]]]].
  assert (Hpc : forall w, pc_of p w = Gone \/ pc_of p w = Sleeping 0 60).
  { intros w. unfold pc_of. rewrite Hw. destruct w as [|[|[|w]]]; cbn; auto. }
  intros C. destruct (C Hne) as [[w A]|[[w [m0 [u [E X]]]]|[[T _]|[w [m0 [u [E X]]]]]]].
  - destruct (Hpc w) as [G|G]; rewrite G in A; exact A.
  - destruct (Hpc w) as [G|G]; rewrite G in E; [discriminate|]. injection E as <- <-. lia.
  - lia.
  - destruct (Hpc w) as [G|G]; rewrite G in E; [discriminate|]. injection E as <- <-. lia.
Qed.

(** * a due head is started within (number of waiting workers) worker steps *)

(* workers that need one step (timer / token wake-up, callback return) before their next
   locked section *)
Definition waiting (c : pc) : Z := match c with Sleeping _ _ | Running _ => 1 | _ => 0 end.
Definition wait_rank (p : pool) : Z := fold_right (fun c a => waiting c + a) 0 (workers p).

Lemma wait_list_set : forall l w c, (w < length l)%nat ->
  fold_right (fun c a => waiting c + a) 0 (set_pc_list l w c)
  = fold_right (fun c a => waiting c + a) 0 l - waiting (nth w l Gone) + waiting c.
Proof.
  induction l as [|a l IH]; intros [|w] c Hw; cbn [length] in Hw; try lia;
    cbn [set_pc_list nth fold_right].
  - lia.
  - rewrite IH by lia. lia.
Qed.

Lemma wait_rank_le_live : forall l, fold_right (fun c a => waiting c + a) 0 l <= count_live l.
Proof.
  induction l as [|a l IH]; cbn [fold_right].
  - unfold count_live. cbn. lia.
  - rewrite count_live_cons. destruct a; cbn [waiting is_live ind]; lia.
Qed.

(* with a due head every locked section pops: a Decide starts a callback *)
Lemma decide_due_starts : forall p w t mis,
  pool_ok p -> arr (hp p) <> [] -> head_fire (hp p) < now p -> now p <= t ->
  pc_of p w = Deciding mis -> starts p (LDecide w t) <> None.
Proof.
  intros p w t mis Hok Hne Hdue Ht Hpc. unfold starts. rewrite Hpc.
  assert (C : negb (now p >? t) && negb (f_len (hp p) =? 0) && (t >? head_fire (hp p)) = true).
  { rewrite !andb_true_iff. repeat split.
    - apply negb_true_iff. rewrite Z.gtb_ltb. apply Z.ltb_ge. exact Ht.
    - apply negb_true_iff. apply Z.eqb_neq. intros E. apply f_len_zero in E. contradiction.
    - apply Z.gtb_lt. lia. }
  rewrite C.
  destruct (pop_head (hp p) (po_idx p Hok) Hne) as [[RI RL RD RB RO RX] Hx].
  destruct (heap_pop (hp p)) as [h1 x]. cbn [fst snd] in *. subst x.
  assert (Hin : In (anth (arr (hp p)) 0) (arr (hp p))).
  { unfold anth. apply nth_In. destruct (arr (hp p)); [contradiction|cbn; lia]. }
  destruct (po_pend p Hok _ Hin) as [_ Hl]. destruct (RD (anth (arr (hp p)) 0)) as [_ L].
  rewrite L, Hl. discriminate.
Qed.

Lemma nostart_step : forall p l p',
  pool_ok p -> arr (hp p) <> [] -> head_fire (hp p) < now p ->
  worker_label l = true -> step p l = Some p' -> starts p l = None ->
  hp p' = hp p /\ now p <= now p' /\ wait_rank p' = wait_rank p - 1.
Proof.
  intros p l p' Hok Hne Hdue Hl Hs Hns. unfold step in Hs.
  destruct (label_time l <? now p) eqn:Ht; [discriminate|]. apply Z.ltb_ge in Ht.
  destruct l as [x d tc nn t|x t|w t|w t|w t|w t]; try discriminate; cbn [label_time] in *.
  - (* Decide: would start the head *)
    change (pc_of (with_now p t) w) with (pc_of p w) in Hs.
    destruct (pc_of p w) as [mis| | |] eqn:Hpc; try discriminate.
    exfalso. apply (decide_due_starts p w t mis Hok Hne Hdue Ht Hpc). exact Hns.
  - change (pc_of (with_now p t) w) with (pc_of p w) in Hs.
    destruct (pc_of p w) as [|mis u| |] eqn:Hpc; try discriminate.
    destruct (t <? u); [discriminate|]. injection Hs as <-.
    assert (Hw : (w < length (workers p))%nat) by (apply pc_of_lt; rewrite Hpc; discriminate).
    cbn [with_pc with_now hp now]. split; [reflexivity|]. split; [exact Ht|].
    unfold wait_rank. cbn [with_pc with_now workers]. rewrite wait_list_set by exact Hw.
    change (nth w (workers p) Gone) with (pc_of p w). rewrite Hpc. cbn [waiting]. lia.
  - change (pc_of (with_now p t) w) with (pc_of p w) in Hs.
    destruct (pc_of p w) as [|mis u| |] eqn:Hpc; try discriminate.
    destruct (tokens (with_now p t) >? 0); [|discriminate]. injection Hs as <-.
    assert (Hw : (w < length (workers p))%nat) by (apply pc_of_lt; rewrite Hpc; discriminate).
    cbn [with_pc with_now hp now]. split; [reflexivity|]. split; [exact Ht|].
    unfold wait_rank. cbn [with_pc with_now workers]. rewrite wait_list_set by exact Hw.
    change (nth w (workers p) Gone) with (pc_of p w). rewrite Hpc. cbn [waiting]. lia.
  - change (pc_of (with_now p t) w) with (pc_of p w) in Hs.
    destruct (pc_of p w) as [| |x|] eqn:Hpc; try discriminate. injection Hs as <-.
    assert (Hw : (w < length (workers p))%nat) by (apply pc_of_lt; rewrite Hpc; discriminate).
    cbn [with_pc with_now hp now]. split; [reflexivity|]. split; [exact Ht|].
    unfold wait_rank. cbn [with_pc with_now workers]. rewrite wait_list_set by exact Hw.
    change (nth w (workers p) Gone) with (pc_of p w). rewrite Hpc. cbn [waiting]. lia.
Qed.

Lemma wait_rank_nonneg : forall p, 0 <= wait_rank p.
Proof.
  intros p. unfold wait_rank. induction (workers p) as [|a l IH]; cbn [fold_right]; [lia|].
  destruct a; cbn [waiting]; lia.
Qed.

(* while the head is due, a run of worker labels in which no callback starts has at most
   [wait_rank p <= watchers p] steps: after that every live worker is about to enter its
   locked section, and the first one that does pops the head.  With [never_stuck] (some
   worker label is always enabled): a scheduler that keeps taking enabled worker labels
   starts the earliest due future after at most watchers + 1 of them. *)
Theorem due_head_start_bounded : forall tr p p',
  pool_ok p -> arr (hp p) <> [] -> head_fire (hp p) < now p ->
  forallb worker_label tr = true -> run p tr = Some p' -> trace_starts p tr = [] ->
  Z.of_nat (length tr) <= wait_rank p.
Proof.
  induction tr as [|l tr IH]; intros p p' Hok Hne Hdue Hl Hr Hts.
  - cbn [length]. pose proof (wait_rank_nonneg p). lia.
  - cbn [forallb] in Hl. apply andb_prop in Hl. destruct Hl as [Hl1 Hl2].
    cbn [run] in Hr. cbn [trace_starts] in Hts.
    destruct (step p l) as [p1|] eqn:Es; [|discriminate].
    destruct (starts p l) as [x|] eqn:Est; [discriminate|].
    destruct (nostart_step p l p1 Hok Hne Hdue Hl1 Es Est) as [Hh [Hn Hrk]].
    assert (Hok1 : pool_ok p1) by (apply (sf_ok _ _ _ (step_facts_hold p l p1 Hok Es))).
    specialize (IH p1 p' Hok1). rewrite Hh in IH. specialize (IH Hne ltac:(lia) Hl2 Hr Hts).
    cbn [length]. lia.
Qed.

Lemma wait_rank_le_watchers : forall p, pool_inv p -> wait_rank p <= watchers p.
Proof. intros p H. rewrite (pi_watch p H). apply wait_rank_le_live. Qed.

(* reachable form: from a reachable state whose head is due, every accepted run of more than
   [watchers] worker labels starts a callback (and by [started_is_minimal] the first one
   started is a future with the smallest fire time) *)
Theorem due_head_started_within : forall i m c k tr0 p tr p',
  0 <= i -> 1 <= m -> 1 <= c -> 0 <= k <= c ->
  run (init_pool i m c k) tr0 = Some p ->
  arr (hp p) <> [] -> head_fire (hp p) < now p ->
  forallb worker_label tr = true -> run p tr = Some p' ->
  watchers p < Z.of_nat (length tr) ->
  trace_starts p tr <> [].
Proof.
  intros i m c k tr0 p tr p' Hi Hm Hc Hk Hr0 Hne Hdue Hl Hr Hlen Hts.
  pose proof (pool_ok_reachable i m c k tr0 p Hr0) as Hok.
  pose proof (pool_inv_reachable i m c k tr0 p Hi Hm Hc Hk Hr0) as Hinv.
  pose proof (due_head_start_bounded tr p p' Hok Hne Hdue Hl Hr Hts).
  pose proof (wait_rank_le_watchers p Hinv). lia.
Qed.
