(** C13: the worker pool of timeout/timeout.go (model/TPool.v): the invariants of
    DESIGN.md Appendix B.

    [pool_inv] (inductive): F0 watchers = number of live workers, and a non-empty heap
    has a worker; burst_bounded; token bounds; F1 (with two or more workers every sleeper
    wakes within idle); weak coverage.  Then spawn_iff_none, no_early_exit, restart and
    wind_down (ranking function). *)
From Coq Require Import List ZArith NArith Bool Lia.
From GL Require Import model.THeap model.TPool proofs.C12_THeap proofs.C12_TPool.
Import ListNotations.
Open Scope Z_scope.

(** * counting live workers *)

Definition is_live (c : pc) : bool := match c with Gone => false | _ => true end.

Definition count_live (l : list pc) : Z := Z.of_nat (length (filter is_live l)).

Lemma live_workers_count : forall p, live_workers p = count_live (workers p).
Proof. reflexivity. Qed.

Definition ind (b : bool) : Z := if b then 1 else 0.

Lemma count_live_cons : forall c l, count_live (c :: l) = ind (is_live c) + count_live l.
Proof.
  intros c l. unfold count_live. cbn [filter]. destruct (is_live c); cbn [ind length]; lia.
Qed.

Lemma count_live_nonneg : forall l, 0 <= count_live l.
Proof. intros l. unfold count_live. lia. Qed.

Lemma count_live_app : forall a b, count_live (a ++ b) = count_live a + count_live b.
Proof.
  induction a as [|c a IH]; intros b; cbn [app].
  - unfold count_live at 2. cbn. lia.
  - rewrite !count_live_cons, IH. lia.
Qed.

Lemma count_live_set : forall l w c, (w < length l)%nat ->
  count_live (set_pc_list l w c) = count_live l - ind (is_live (nth w l Gone)) + ind (is_live c).
Proof.
  induction l as [|a l IH]; intros [|w] c Hw; cbn [length] in Hw; try lia; cbn [set_pc_list nth].
  - rewrite !count_live_cons. lia.
  - rewrite !count_live_cons, IH by lia. lia.
Qed.

Lemma nth_set_pc_other : forall l w w' c, w' <> w -> nth w' (set_pc_list l w c) Gone = nth w' l Gone.
Proof.
  induction l as [|a l IH]; intros [|w] [|w'] c H; cbn [set_pc_list nth]; auto; try congruence.
Qed.

Lemma set_pc_length : forall l w c, length (set_pc_list l w c) = length l.
Proof. induction l as [|a l IH]; intros [|w] c; cbn [set_pc_list length]; auto. Qed.

Lemma count_zero_all_gone : forall l, count_live l = 0 -> forall w, nth w l Gone = Gone.
Proof.
  induction l as [|a l IH]; intros H w; [destruct w; reflexivity|].
  rewrite count_live_cons in H. pose proof (count_live_nonneg l).
  destruct a; cbn [is_live ind] in H; try lia.
  destruct w; [reflexivity|]. cbn [nth]. apply IH. lia.
Qed.

Lemma live_count_pos : forall l w, is_live (nth w l Gone) = true -> 1 <= count_live l.
Proof.
  induction l as [|a l IH]; intros w H; [destruct w; discriminate|].
  rewrite count_live_cons. pose proof (count_live_nonneg l).
  destruct w; cbn [nth] in H; [rewrite H; cbn [ind]; lia|].
  specialize (IH w H). destruct (is_live a); cbn [ind]; lia.
Qed.

(* a single live worker: everybody else is gone *)
Lemma count_one_others_gone : forall l w, count_live l = 1 -> is_live (nth w l Gone) = true ->
  forall w', w' <> w -> nth w' l Gone = Gone.
Proof.
  induction l as [|a l IH]; intros w H1 Hl w' Hne.
  - destruct w'; reflexivity.
  - rewrite count_live_cons in H1. pose proof (count_live_nonneg l) as Hnn.
    destruct w as [|w]; cbn [nth] in Hl.
    + rewrite Hl in H1. cbn [ind] in H1. destruct w' as [|w']; [congruence|]. cbn [nth].
      apply count_zero_all_gone. lia.
    + pose proof (live_count_pos l w Hl) as Hp.
      assert (Ha : a = Gone).
      { destruct a; try reflexivity; cbn [is_live ind] in H1; lia. }
      subst a. cbn [is_live ind] in H1.
      destruct w' as [|w']; [reflexivity|]. cbn [nth].
      apply (IH w); [lia|exact Hl|congruence].
Qed.

(** * the outcome of a locked section *)

Inductive decide_out (p : pool) (w : nat) (mis t : Z) : pool -> Prop :=
| DO_exit :
    (f_len (hp p) = 0 \/ (f_len (hp p) <> 0 /\ t <= head_fire (hp p) /\ 1 < watchers p)) ->
    1 < mis ->
    decide_out p w mis t (exit_worker p w)
| DO_sleep : forall u,
    (f_len (hp p) = 0 /\ mis <= 1 /\ u = t + idle p) \/
    (f_len (hp p) <> 0 /\ t <= head_fire (hp p) /\
       ((1 < watchers p /\ mis <= 1 /\ u <= t + idle p /\ u <= head_fire (hp p)) \/
        (watchers p <= 1 /\ u = head_fire (hp p)))) ->
    decide_out p w mis t (with_pc p w (Sleeping mis u))
| DO_pop : forall h1 x (sp : bool),
    f_len (hp p) <> 0 -> head_fire (hp p) < t -> heap_pop (hp p) = (h1, x) ->
    (sp = true -> watchers p < maxw p) ->
    decide_out p w mis t
      (with_pc (if sp then spawn (with_heap p h1) else with_heap p h1) w
               (if live (get (hs h1) x) then Running x else Deciding (mis + 1))).

Lemma decide_out_intro : forall p w mis t, decide_out p w mis t (do_decide p w mis t).
Proof.
  intros p w mis t. unfold do_decide.
  destruct (f_len (hp p) =? 0) eqn:E0.
  { apply Z.eqb_eq in E0. destruct (mis >? 1) eqn:Em.
    - apply DO_exit; [left; exact E0|apply Z.gtb_lt in Em; lia].
    - apply DO_sleep. left. rewrite Z.gtb_ltb in Em. apply Z.ltb_ge in Em. auto. }
  apply Z.eqb_neq in E0.
  destruct (t >? head_fire (hp p)) eqn:Et.
  - apply Z.gtb_lt in Et. destruct (heap_pop (hp p)) as [h1 x] eqn:HP.
    set (c := (f_len h1 >? 0) && (t >? head_fire h1) && (watchers (with_heap p h1) <? maxw (with_heap p h1))).
    apply (DO_pop p w mis t h1 x c); auto.
    intros Hc. unfold c in Hc. apply andb_prop in Hc. destruct Hc as [_ Hc].
    apply Z.ltb_lt in Hc. exact Hc.
  - rewrite Z.gtb_ltb in Et. apply Z.ltb_ge in Et.
    destruct (watchers p >? 1) eqn:Ew.
    + apply Z.gtb_lt in Ew. destruct (mis >? 1) eqn:Em.
      * apply DO_exit; [right; auto|apply Z.gtb_lt in Em; lia].
      * rewrite Z.gtb_ltb in Em. apply Z.ltb_ge in Em. apply DO_sleep. right.
        split; [exact E0|]. split; [exact Et|]. left.
        destruct (head_fire (hp p) - t >? idle p) eqn:Ec.
        -- apply Z.gtb_lt in Ec. repeat split; lia.
        -- rewrite Z.gtb_ltb in Ec. apply Z.ltb_ge in Ec. repeat split; lia.
    + rewrite Z.gtb_ltb in Ew. apply Z.ltb_ge in Ew. apply DO_sleep. right.
      split; [exact E0|]. split; [exact Et|]. right. split; [exact Ew|lia].
Qed.

(** * pcs after an update *)

Lemma pc_with_pc_same : forall p w c, (w < length (workers p))%nat -> pc_of (with_pc p w c) w = c.
Proof. intros p w c H. unfold pc_of. cbn [with_pc workers]. apply set_pc_nth. exact H. Qed.

Lemma pc_with_pc_other : forall p w w' c, w' <> w -> pc_of (with_pc p w c) w' = pc_of p w'.
Proof. intros p w w' c H. unfold pc_of. cbn [with_pc workers]. apply nth_set_pc_other. exact H. Qed.

Lemma pc_exit_same : forall p w, (w < length (workers p))%nat -> pc_of (exit_worker p w) w = Gone.
Proof. intros p w H. unfold pc_of. cbn [exit_worker workers]. apply set_pc_nth. exact H. Qed.

Lemma pc_exit_other : forall p w w', w' <> w -> pc_of (exit_worker p w) w' = pc_of p w'.
Proof. intros p w w' H. unfold pc_of. cbn [exit_worker workers]. apply nth_set_pc_other. exact H. Qed.

Lemma pc_spawn : forall p w,
  pc_of (spawn p) w = if Nat.ltb w (length (workers p)) then pc_of p w
                      else if Nat.eqb w (length (workers p)) then Deciding 1 else Gone.
Proof.
  intros p w. unfold pc_of. cbn [spawn workers].
  destruct (Nat.ltb_spec w (length (workers p))) as [L|L].
  - apply app_nth1. exact L.
  - rewrite app_nth2 by lia. destruct (Nat.eqb_spec w (length (workers p))) as [E|E].
    + rewrite E, Nat.sub_diag. reflexivity.
    + destruct (w - length (workers p))%nat as [|k] eqn:K; [lia|]. destruct k; reflexivity.
Qed.

Lemma pc_spawn_sleeping : forall p w m u, pc_of (spawn p) w = Sleeping m u -> pc_of p w = Sleeping m u.
Proof.
  intros p w m u H. rewrite pc_spawn in H.
  destruct (Nat.ltb w (length (workers p))); [exact H|].
  destruct (Nat.eqb w (length (workers p))); discriminate.
Qed.

Lemma pc_live_lt : forall p w, is_live (pc_of p w) = true -> (w < length (workers p))%nat.
Proof. intros p w H. apply pc_of_lt. intros E. rewrite E in H. discriminate. Qed.

Lemma exists_live : forall l, 1 <= count_live l -> exists w, is_live (nth w l Gone) = true.
Proof.
  induction l as [|a l IH]; intros H.
  - unfold count_live in H. cbn in H. lia.
  - rewrite count_live_cons in H. destruct (is_live a) eqn:Ea.
    + exists 0%nat. exact Ea.
    + cbn [ind] in H. destruct (IH ltac:(lia)) as [w Hw]. exists (S w). exact Hw.
Qed.

(** * the invariant *)

Record params_ok (p : pool) : Prop := mkParams {
  pa_idle : 0 <= idle p; pa_maxw : 1 <= maxw p; pa_wcap : 1 <= wcap p }.

Definition active (c : pc) : Prop := match c with Deciding _ | Running _ => True | _ => False end.

(* weak coverage: somebody will look at the heap, no later than max (head's fire time, now + idle) *)
Definition covered_weak (p : pool) : Prop :=
  arr (hp p) <> [] ->
  (exists w, active (pc_of p w)) \/
  (0 < tokens p /\ exists w m u, pc_of p w = Sleeping m u) \/
  (exists w m u, pc_of p w = Sleeping m u /\ (u <= head_fire (hp p) \/ u <= now p + idle p)).

Record pool_inv (p : pool) : Prop := mkInv {
  pi_par : params_ok p;
  pi_watch : watchers p = count_live (workers p);
  pi_f0 : arr (hp p) <> [] -> 1 <= watchers p;
  pi_bound : watchers p <= maxw p;
  pi_tok : 0 <= tokens p <= wcap p;
  pi_f1 : 2 <= watchers p -> forall w m u, pc_of p w = Sleeping m u -> u <= now p + idle p;
  pi_wc : covered_weak p
}.

Lemma pool_inv_init : forall i m c k, 0 <= i -> 1 <= m -> 1 <= c -> 0 <= k <= c ->
  pool_inv (init_pool i m c k).
Proof.
  intros i m c k Hi Hm Hc Hk. constructor; cbn; try lia.
  - constructor; cbn; lia.
  - intros H. contradiction.
  - intros H. contradiction.
Qed.

Lemma f_len_zero : forall h, f_len h = 0 <-> arr h = [].
Proof.
  intros h. unfold f_len. destruct (arr h); cbn [length]; split; intros H; try reflexivity; try discriminate; lia.
Qed.

(* a live worker that is neither deciding nor running sleeps *)
Lemma live_cases : forall c, is_live c = true -> active c \/ exists m u, c = Sleeping m u.
Proof. intros [m|m u|x|] H; cbn; eauto. discriminate. Qed.

(* after a token was left (or the buffer was already full) the heap is covered *)
Lemma covered_by_token : forall p, 1 <= count_live (workers p) -> 0 < tokens p -> covered_weak p.
Proof.
  intros p Hc Ht _. destruct (exists_live _ Hc) as [w Hw].
  destruct (live_cases _ Hw) as [A|[m [u E]]].
  - left. exists w. exact A.
  - right. left. split; [exact Ht|]. exists w, m, u. exact E.
Qed.

Lemma notify_tokens : forall p, 1 <= wcap p -> 0 <= tokens p <= wcap p ->
  0 < tokens (notify p) <= wcap p.
Proof.
  intros p Hw Ht. cbn [notify tokens]. destruct (tokens p <? wcap p) eqn:E.
  - apply Z.ltb_lt in E. lia.
  - apply Z.ltb_ge in E. lia.
Qed.

(** ** the clock *)
Lemma pool_inv_now : forall p t, pool_inv p -> now p <= t -> pool_inv (with_now p t).
Proof.
  intros p t [Par W F0 B T F1 WC] Ht. constructor; cbn [with_now hp watchers tokens workers maxw wcap idle now]; auto.
  - destruct Par. constructor; assumption.
  - intros H w m u E. change (pc_of (with_now p t) w) with (pc_of p w) in E. specialize (F1 H w m u E). lia.
  - intros Hne. change (arr (hp (with_now p t))) with (arr (hp p)) in Hne.
    unfold covered_weak in WC. cbn [with_now hp tokens now idle].
    change (fun w => pc_of (with_now p t) w) with (fun w => pc_of p w). destruct (WC Hne) as [A|[A|[w [m [u [E D]]]]]]; [left; exact A|right; left; exact A|].
    right. right. exists w, m, u. split; [exact E|]. destruct D; [left; assumption|right; lia].
Qed.

(** ** one step *)

Lemma do_call_nil : forall p x d tc p', do_call p x d tc false = Some p' ->
  arr (hp p') = arr (hp p) /\ watchers p' = watchers p /\ tokens p' = tokens p /\
  workers p' = workers p /\ now p' = now p /\ idle p' = idle p /\ maxw p' = maxw p /\ wcap p' = wcap p /\
  was_called p x = false /\
  forall y, y <> x -> get (hs (hp p')) y = get (hs (hp p)) y.
Proof.
  intros p x d tc p' H. unfold do_call in H. destruct (was_called p x) eqn:E; [discriminate|].
  injection H as <-. cbn. repeat split; auto.
  intros y Hy. destruct (N.eqb_spec x y); [congruence|reflexivity].
Qed.

Lemma do_call_nonnil : forall p x d tc p', do_call p x d tc true = Some p' ->
  exists h, hp p' = h /\ idle p' = idle p /\ maxw p' = maxw p /\ wcap p' = wcap p /\ now p' = now p /\
  ((watchers p = 0 /\ watchers p' = 1 /\ workers p' = workers p ++ [Deciding 1] /\ tokens p' = tokens p) \/
   (watchers p <> 0 /\ watchers p' = watchers p /\ workers p' = workers p /\
    tokens p' = tokens (notify p))).
Proof.
  intros p x d tc p' H. unfold do_call in H. destruct (was_called p x) eqn:E; [discriminate|].
  cbv zeta in H.
  match type of H with Some (if ?c then _ else _) = _ => destruct c eqn:Ew end; injection H as <-.
  - apply Z.eqb_eq in Ew. cbn in Ew. eexists. split; [reflexivity|]. cbn. repeat split; auto.
    left. repeat split; auto. lia.
  - apply Z.eqb_neq in Ew. cbn in Ew. eexists. split; [reflexivity|]. cbn. repeat split; auto.
Qed.

Lemma head_fire_same : forall h h', arr h' = arr h ->
  (forall y, In y (arr h) -> fireT (get (hs h') y) = fireT (get (hs h) y)) ->
  arr h <> [] -> head_fire h' = head_fire h.
Proof.
  intros h h' Ha Hf Hne. unfold head_fire. rewrite Ha. apply Hf.
  unfold aget. apply nth_In. destruct (arr h); [contradiction|cbn; lia].
Qed.

Ltac par_tac := constructor; cbn [exit_worker with_pc spawn with_heap idle maxw wcap]; lia.

Theorem pool_inv_step : forall p l p',
  pool_ok p -> pool_inv p -> step p l = Some p' -> pool_inv p'.
Proof.
  intros p l p' Hok Hinv Hs. unfold step in Hs.
  destruct (label_time l <? now p) eqn:Ht; [discriminate|]. apply Z.ltb_ge in Ht.
  pose proof (pool_inv_now p (label_time l) Hinv Ht) as Hinv0.
  pose proof (with_now_ok p (label_time l) Hok) as Hok0.
  set (q := with_now p (label_time l)) in *.
  assert (Hnq : now q = label_time l) by reflexivity.
  clearbody q.
  destruct Hinv0 as [Par W F0 B T F1 WC].
  destruct l as [x d tc nn t|x t|w t|w t|w t|w t]; cbn [label_time] in *.
  - (* Call *)
    destruct (tc >? t); [discriminate|]. destruct nn.
    + destruct (do_call_facts q x d tc true p' Hok0 Hs) as [_ [_ [_ [Hin _]]]].
      destruct (do_call_nonnil q x d tc p' Hs) as [h [_ [Hi [Hm [Hc [Hn Hcase]]]]]].
      destruct Par as [P1 P2 P3].
      destruct Hcase as [[W0 [W1 [Wk Tk]]]|[W0 [W1 [Wk Tk]]]].
      * assert (Hcnt : count_live (workers p') = 1).
        { rewrite Wk, count_live_app, <- W, W0. unfold count_live. cbn. lia. }
        constructor.
        -- constructor; lia.
        -- lia.
        -- intros _. lia.
        -- lia.
        -- lia.
        -- intros H2. lia.
        -- intros _. left. exists (length (workers q)). unfold pc_of. rewrite Wk.
           rewrite app_nth2 by lia. rewrite Nat.sub_diag. exact I.
      * pose proof (notify_tokens q P3 T) as Hnt.
        assert (Hw1 : 1 <= watchers q).
        { pose proof (count_live_nonneg (workers q)). lia. }
        assert (Hcl : 1 <= count_live (workers p')) by (rewrite Wk; lia).
        constructor.
        -- constructor; lia.
        -- rewrite Wk. lia.
        -- intros _. lia.
        -- lia.
        -- lia.
        -- intros H2 w m u E. unfold pc_of in E. rewrite Wk in E. rewrite Hn, Hi.
           apply (F1 ltac:(lia) w m u E).
        -- apply covered_by_token; lia.
    + destruct (do_call_nil q x d tc p' Hs) as [Ha [Hw [Htk [Hwk [Hn [Hi [Hm [Hc [Hnc Hg]]]]]]]]].
      destruct Par as [P1 P2 P3].
      constructor.
      * constructor; lia.
      * rewrite Hwk. lia.
      * rewrite Ha. intros H. specialize (F0 H). lia.
      * lia.
      * lia.
      * intros H2 w m u E. unfold pc_of in E. rewrite Hwk in E. rewrite Hn, Hi. apply (F1 ltac:(lia) w m u E).
      * intros Hne. rewrite Ha in Hne.
        assert (Hhf : head_fire (hp p') = head_fire (hp q)).
        { apply head_fire_same; [exact Ha| |exact Hne].
          intros y Hy. rewrite Hg; [reflexivity|]. intros ->.
          destruct (po_pend q Hok0 x Hy) as [A _]. congruence. }
        unfold pc_of. rewrite Hwk, Htk, Hhf, Hn, Hi. apply WC. exact Hne.
  - (* Cancel *)
    destruct (do_cancel_facts q x p' Hok0 Hs) as [_ [_ [_ [Hwk [Hwa [Hn [Hin [Hf [_ Hnp]]]]]]]]].
    assert (Hpar : idle p' = idle q /\ maxw p' = maxw q /\ wcap p' = wcap q /\
                   (In x (arr (hp q)) -> tokens p' = tokens (notify q))).
    { unfold do_cancel in Hs. destruct (negb (was_called q x)); [discriminate|].
      destruct (idx (get (hs (hp q)) x) <? 0) eqn:Ei.
      - injection Hs as <-. repeat split. intros HI.
        rewrite (pending_idx _ _ (po_idx q Hok0) HI) in Ei. discriminate.
      - match type of Hs with Some (if ?c then _ else _) = _ => destruct c eqn:Ew end; injection Hs as <-.
        + repeat split.
        + repeat split. intros HI. exfalso.
          rewrite Z.gtb_ltb in Ew. apply Z.ltb_ge in Ew. cbn in Ew.
          assert (Hne : arr (hp q) <> []) by (intros E; rewrite E in HI; destruct HI).
          specialize (F0 Hne). lia. }
    destruct Hpar as [Hi [Hm [Hc Htk]]]. destruct Par as [P1 P2 P3].
    destruct (in_dec N.eq_dec x (arr (hp q))) as [HI|HI].
    + assert (Hne : arr (hp q) <> []) by (intros E; rewrite E in HI; destruct HI).
      specialize (F0 Hne). pose proof (notify_tokens q P3 T) as Hnt. specialize (Htk HI).
      constructor.
      * constructor; lia.
      * rewrite Hwk. lia.
      * intros _. lia.
      * lia.
      * lia.
      * intros H2 w m u E. unfold pc_of in E. rewrite Hwk in E. rewrite Hn, Hi. apply (F1 ltac:(lia) w m u E).
      * apply covered_by_token; [rewrite Hwk; lia|lia].
    + destruct (Hnp HI) as [Hh Htk'].
      constructor.
      * constructor; lia.
      * rewrite Hwk. lia.
      * rewrite Hh. intros H. specialize (F0 H). lia.
      * lia.
      * lia.
      * intros H2 w m u E. unfold pc_of in E. rewrite Hwk in E. rewrite Hn, Hi. apply (F1 ltac:(lia) w m u E).
      * intros Hne. rewrite Hh in Hne. unfold pc_of. rewrite Hwk, Htk', Hh, Hn, Hi. apply WC. exact Hne.
  - (* Decide *)
    destruct (pc_of q w) as [mis| | |] eqn:Hpc; try discriminate. injection Hs as <-.
    assert (Hw : (w < length (workers q))%nat) by (apply pc_of_lt; rewrite Hpc; discriminate).
    assert (Hlw : ind (is_live (nth w (workers q) Gone)) = 1).
    { change (nth w (workers q) Gone) with (pc_of q w). rewrite Hpc. reflexivity. }
    destruct Par as [P1 P2 P3].
    destruct (decide_out_intro q w mis t) as [Hcond Hmis|u Hcond|h1 x sp Hlen Hdue HP Hsp].
    + (* exit *)
      assert (Hcnt : count_live (workers (exit_worker q w)) = watchers q - 1).
      { cbn [exit_worker workers]. rewrite count_live_set by exact Hw. rewrite Hlw. cbn [is_live ind]. lia. }
      constructor; cbn [exit_worker hp watchers tokens maxw wcap idle now].
      * par_tac.
      * lia.
      * intros Hne. destruct Hcond as [E|[_ [_ E]]]; [apply f_len_zero in E; contradiction|lia].
      * lia.
      * lia.
      * intros H2 w' m u E. destruct (Nat.eq_dec w' w) as [->|Hne].
        -- rewrite pc_exit_same in E by exact Hw. discriminate.
        -- rewrite pc_exit_other in E by exact Hne. apply (F1 ltac:(lia) w' m u E).
      * intros Hne. destruct Hcond as [E|[_ [_ E]]]; [apply f_len_zero in E; contradiction|].
        assert (Hex : 1 <= count_live (workers (exit_worker q w))) by lia.
        destruct (exists_live _ Hex) as [w' Hl]. change (nth w' _ Gone) with (pc_of (exit_worker q w) w') in Hl.
        assert (Hne' : w' <> w).
        { intros ->. rewrite pc_exit_same in Hl by exact Hw. discriminate. }
        destruct (live_cases _ Hl) as [A|[m [u Es]]].
        -- left. exists w'. exact A.
        -- right. right. exists w', m, u. split; [exact Es|]. right.
           rewrite pc_exit_other in Es by exact Hne'. apply (F1 ltac:(lia) w' m u Es).
    + (* sleep *)
      assert (Hcnt : count_live (workers (with_pc q w (Sleeping mis u))) = watchers q).
      { cbn [with_pc workers]. rewrite count_live_set by exact Hw. rewrite Hlw. cbn [is_live ind]. lia. }
      constructor; cbn [with_pc hp watchers tokens maxw wcap idle now].
      * par_tac.
      * lia.
      * exact F0.
      * lia.
      * lia.
      * intros H2 w' m u' E. destruct (Nat.eq_dec w' w) as [->|Hne].
        -- rewrite pc_with_pc_same in E by exact Hw. injection E as <- <-.
           destruct Hcond as [[_ [_ ->]]|[_ [_ [[_ [_ [A _]]]|[A _]]]]]; lia.
        -- rewrite pc_with_pc_other in E by exact Hne. apply (F1 H2 w' m u' E).
      * intros Hne. right. right. exists w, mis, u. split; [apply pc_with_pc_same; exact Hw|].
        destruct Hcond as [[E _]|[_ [_ [[_ [_ [_ A]]]|[_ A]]]]].
        -- apply f_len_zero in E. contradiction.
        -- left. exact A.
        -- left. cbn [with_pc hp]. lia.
    + (* pop *)
      set (c := if live (get (hs h1) x) then Running x else Deciding (mis + 1)).
      assert (Hact : active c) by (unfold c; destruct (live (get (hs h1) x)); exact I).
      assert (Hlc : is_live c = true) by (unfold c; destruct (live (get (hs h1) x)); reflexivity).
      assert (W1 : 1 <= watchers q).
      { rewrite W. apply (live_count_pos _ w). change (nth w (workers q) Gone) with (pc_of q w).
        rewrite Hpc. reflexivity. }
      destruct sp.
      * specialize (Hsp eq_refl).
        assert (Hw' : (w < length (workers (spawn (with_heap q h1))))%nat).
        { cbn [spawn workers with_heap]. rewrite app_length. cbn [length]. lia. }
        constructor; cbn [with_pc spawn with_heap hp watchers tokens maxw wcap idle now].
        -- par_tac.
        -- cbn [with_pc spawn with_heap workers]. rewrite count_live_set by (rewrite app_length; cbn [length]; lia).
           rewrite app_nth1 by exact Hw. rewrite Hlw, Hlc, count_live_app.
           replace (count_live [Deciding 1]) with 1 by reflexivity. cbn [ind]. lia.
        -- intros _. lia.
        -- lia.
        -- lia.
        -- intros H2 w' m u E. destruct (Nat.eq_dec w' w) as [->|Hne].
           ++ rewrite pc_with_pc_same in E by exact Hw'. subst c.
              destruct (live (get (hs h1) x)); discriminate.
           ++ rewrite pc_with_pc_other in E by exact Hne. apply pc_spawn_sleeping in E.
              change (pc_of (with_heap q h1) w') with (pc_of q w') in E.
              destruct (Z.eq_dec (watchers q) 1) as [E1|E1].
              ** exfalso. rewrite W in E1.
                 pose proof (count_one_others_gone (workers q) w E1) as Hg.
                 change (nth w (workers q) Gone) with (pc_of q w) in Hg. rewrite Hpc in Hg.
                 specialize (Hg eq_refl w' Hne). unfold pc_of in E. rewrite Hg in E. discriminate.
              ** apply (F1 ltac:(lia) w' m u E).
        -- intros _. left. exists w. rewrite pc_with_pc_same by exact Hw'. exact Hact.
      * constructor; cbn [with_pc with_heap hp watchers tokens maxw wcap idle now].
        -- par_tac.
        -- cbn [with_pc spawn with_heap workers]. rewrite count_live_set by exact Hw. rewrite Hlw, Hlc. cbn [ind]. lia.
        -- intros _. lia.
        -- lia.
        -- lia.
        -- intros H2 w' m u E. destruct (Nat.eq_dec w' w) as [->|Hne].
           ++ rewrite pc_with_pc_same in E by exact Hw. subst c.
              destruct (live (get (hs h1) x)); discriminate.
           ++ rewrite pc_with_pc_other in E by exact Hne. apply (F1 H2 w' m u E).
        -- intros _. left. exists w. rewrite pc_with_pc_same by exact Hw. exact Hact.
  - (* WakeTimer *)
    destruct (pc_of q w) as [|mis u| |] eqn:Hpc; try discriminate.
    destruct (t <? u); [discriminate|]. injection Hs as <-.
    assert (Hw : (w < length (workers q))%nat) by (apply pc_of_lt; rewrite Hpc; discriminate).
    assert (Hlw : ind (is_live (nth w (workers q) Gone)) = 1).
    { change (nth w (workers q) Gone) with (pc_of q w). rewrite Hpc. reflexivity. }
    destruct Par as [P1 P2 P3].
    constructor; cbn [with_pc hp watchers tokens maxw wcap idle now].
    + par_tac.
    + cbn [with_pc spawn with_heap workers]. rewrite count_live_set by exact Hw. rewrite Hlw. cbn [is_live ind]. lia.
    + exact F0.
    + lia.
    + lia.
    + intros H2 w' m u' E. destruct (Nat.eq_dec w' w) as [->|Hne].
      * rewrite pc_with_pc_same in E by exact Hw. discriminate.
      * rewrite pc_with_pc_other in E by exact Hne. apply (F1 H2 w' m u' E).
    + intros _. left. exists w. rewrite pc_with_pc_same by exact Hw. exact I.
  - (* WakeToken *)
    destruct (pc_of q w) as [|mis u| |] eqn:Hpc; try discriminate.
    destruct (tokens q >? 0) eqn:Etk; [|discriminate]. injection Hs as <-. apply Z.gtb_lt in Etk.
    assert (Hw : (w < length (workers q))%nat) by (apply pc_of_lt; rewrite Hpc; discriminate).
    assert (Hlw : ind (is_live (nth w (workers q) Gone)) = 1).
    { change (nth w (workers q) Gone) with (pc_of q w). rewrite Hpc. reflexivity. }
    destruct Par as [P1 P2 P3].
    constructor; cbn [with_pc hp watchers tokens maxw wcap idle now workers].
    + par_tac.
    + rewrite count_live_set by exact Hw. rewrite Hlw. cbn [is_live ind]. lia.
    + exact F0.
    + lia.
    + lia.
    + intros H2 w' m u' E. destruct (Nat.eq_dec w' w) as [->|Hne].
      * unfold pc_of in E. cbn [with_pc workers] in E. rewrite set_pc_nth in E by exact Hw. discriminate.
      * unfold pc_of in E. cbn [with_pc workers] in E. rewrite nth_set_pc_other in E by exact Hne.
        apply (F1 H2 w' m u' E).
    + intros _. left. exists w. unfold pc_of. cbn [with_pc workers]. rewrite set_pc_nth by exact Hw. exact I.
  - (* CbEnd *)
    destruct (pc_of q w) as [| |x|] eqn:Hpc; try discriminate. injection Hs as <-.
    assert (Hw : (w < length (workers q))%nat) by (apply pc_of_lt; rewrite Hpc; discriminate).
    assert (Hlw : ind (is_live (nth w (workers q) Gone)) = 1).
    { change (nth w (workers q) Gone) with (pc_of q w). rewrite Hpc. reflexivity. }
    destruct Par as [P1 P2 P3].
    constructor; cbn [with_pc hp watchers tokens maxw wcap idle now].
    + par_tac.
    + cbn [with_pc spawn with_heap workers]. rewrite count_live_set by exact Hw. rewrite Hlw. cbn [is_live ind]. lia.
    + exact F0.
    + lia.
    + lia.
    + intros H2 w' m u' E. destruct (Nat.eq_dec w' w) as [->|Hne].
      * rewrite pc_with_pc_same in E by exact Hw. discriminate.
      * rewrite pc_with_pc_other in E by exact Hne. apply (F1 H2 w' m u' E).
    + intros _. left. exists w. rewrite pc_with_pc_same by exact Hw. exact I.
Qed.

(** * reachable states *)

Lemma run_inv : forall tr p p', pool_ok p -> pool_inv p -> run p tr = Some p' -> pool_ok p' /\ pool_inv p'.
Proof.
  induction tr as [|l tr IH]; intros p p' Hok Hinv Hr; cbn [run] in Hr.
  - injection Hr as <-. split; assumption.
  - destruct (step p l) as [p1|] eqn:E; [|discriminate].
    apply (IH p1 p'); [|eapply pool_inv_step; eauto|exact Hr].
    apply (sf_ok _ _ _ (step_facts_hold p l p1 Hok E)).
Qed.

Theorem pool_inv_reachable : forall i m c k tr p,
  0 <= i -> 1 <= m -> 1 <= c -> 0 <= k <= c ->
  run (init_pool i m c k) tr = Some p -> pool_inv p.
Proof.
  intros i m c k tr p Hi Hm Hc Hk Hr.
  apply (run_inv tr (init_pool i m c k) p); [apply pool_ok_init|apply pool_inv_init; assumption|exact Hr].
Qed.

(** ** F0 *)
Theorem F0 : forall p, pool_inv p ->
  watchers p = live_workers p /\ (arr (hp p) <> [] -> 1 <= watchers p).
Proof. intros p H. split; [apply (pi_watch p H)|apply (pi_f0 p H)]. Qed.

Lemma all_gone_count : forall l, (forall w, nth w l Gone = Gone) -> count_live l = 0.
Proof.
  intros l H. pose proof (count_live_nonneg l) as Hn.
  destruct (Z.eq_dec (count_live l) 0) as [E|E]; [exact E|].
  destruct (exists_live l ltac:(lia)) as [w Hw]. rewrite H in Hw. discriminate.
Qed.

(** ** spawn_iff_none *)
Theorem no_watchers_iff_all_gone : forall p, pool_inv p ->
  (watchers p = 0 <-> forall w, pc_of p w = Gone).
Proof.
  intros p H. rewrite (pi_watch p H). split.
  - intros E w. apply count_zero_all_gone. exact E.
  - intros E. apply all_gone_count. exact E.
Qed.

Theorem call_spawns_iff_none : forall p x d tc t p',
  step p (LCall x d tc true t) = Some p' ->
  (watchers p = 0 -> watchers p' = 1 /\ workers p' = workers p ++ [Deciding 1] /\ tokens p' = tokens p) /\
  (watchers p <> 0 -> watchers p' = watchers p /\ workers p' = workers p /\
                      tokens p' = (if tokens p <? wcap p then tokens p + 1 else tokens p)).
Proof.
  intros p x d tc t p' Hs. unfold step in Hs. cbn [label_time] in Hs.
  destruct (t <? now p); [discriminate|]. destruct (tc >? t); [discriminate|].
  destruct (do_call_nonnil _ x d tc p' Hs) as [h [_ [_ [_ [_ [_ Hc]]]]]].
  cbn [with_now watchers workers tokens notify wcap] in Hc.
  destruct Hc as [[A [B [C D]]]|[A [B [C D]]]]; split; intros H; try contradiction; auto; lia.
Qed.

(** ** no_early_exit *)
Theorem no_early_exit : forall p w t p' mis,
  step p (LDecide w t) = Some p' -> pc_of p w = Deciding mis -> pc_of p' w = Gone ->
  1 < mis /\ (arr (hp p) = [] \/ (1 < watchers p /\ t <= head_fire (hp p))) /\
  watchers p' = watchers p - 1.
Proof.
  intros p w t p' mis Hs Hpc Hg. unfold step in Hs. cbn [label_time] in Hs.
  destruct (t <? now p); [discriminate|].
  set (q := with_now p t) in *.
  change (pc_of q w) with (pc_of p w) in Hs. rewrite Hpc in Hs. injection Hs as <-.
  assert (Hw : (w < length (workers q))%nat) by (apply pc_of_lt; change (pc_of q w) with (pc_of p w); rewrite Hpc; discriminate).
  destruct (decide_out_intro q w mis t) as [Hcond Hmis|u Hcond|h1 x sp Hlen Hdue HP Hsp].
  - split; [exact Hmis|]. split; [|reflexivity].
    destruct Hcond as [E|[_ [A B]]]; [left; apply f_len_zero; exact E|right; split; assumption].
  - rewrite pc_with_pc_same in Hg by exact Hw. discriminate.
  - exfalso. destruct sp.
    + rewrite pc_with_pc_same in Hg.
      * destruct (live (get (hs h1) x)); discriminate.
      * cbn [spawn with_heap workers]. rewrite app_length. cbn [length]. lia.
    + rewrite pc_with_pc_same in Hg by exact Hw. destruct (live (get (hs h1) x)); discriminate.
Qed.

(** ** restart *)
Theorem restart : forall p x d tc t p',
  watchers p = 0 -> step p (LCall x d tc true t) = Some p' ->
  watchers p' = 1 /\ pc_of p' (length (workers p)) = Deciding 1 /\
  forall t', t <= t' -> step p' (LDecide (length (workers p)) t') <> None.
Proof.
  intros p x d tc t p' Hw Hs.
  destruct (call_spawns_iff_none p x d tc t p' Hs) as [A _]. destruct (A Hw) as [W1 [Wk _]].
  assert (Hpc : pc_of p' (length (workers p)) = Deciding 1).
  { unfold pc_of. rewrite Wk, app_nth2 by lia. rewrite Nat.sub_diag. reflexivity. }
  split; [exact W1|]. split; [exact Hpc|].
  intros t' Ht'. unfold step. cbn [label_time].
  assert (Hn : now p' = t).
  { unfold step in Hs. cbn [label_time] in Hs. destruct (t <? now p); [discriminate|].
    destruct (tc >? t); [discriminate|].
    destruct (do_call_nonnil _ x d tc p' Hs) as [h [_ [_ [_ [_ [Hn _]]]]]]. exact Hn. }
  destruct (t' <? now p') eqn:E; [apply Z.ltb_lt in E; lia|].
  change (pc_of (with_now p' t') (length (workers p))) with (pc_of p' (length (workers p))).
  rewrite Hpc. discriminate.
Qed.

(** ** wind_down: ranking function *)

Definition worker_label (l : label) : bool :=
  match l with LCall _ _ _ _ _ | LCancel _ _ => false | _ => true end.

Definition rank_pc (c : pc) : Z :=
  match c with
  | Gone => 0
  | Running _ => 6
  | Deciding m => 2 * Z.max 0 (2 - m) + 1
  | Sleeping m _ => 2 * Z.max 0 (1 - m) + 2
  end.

Definition rank_list (l : list pc) : Z := fold_right (fun c a => rank_pc c + a) 0 l.

Definition rank (p : pool) : Z := rank_list (workers p) + 2 * tokens p.

Lemma rank_pc_nonneg : forall c, 0 <= rank_pc c.
Proof. intros [m|m u|x|]; cbn [rank_pc]; lia. Qed.

Lemma rank_list_nonneg : forall l, 0 <= rank_list l.
Proof.
  induction l as [|c l IH]; cbn [rank_list fold_right]; [lia|].
  pose proof (rank_pc_nonneg c). fold (rank_list l). lia.
Qed.

Lemma rank_list_set : forall l w c, (w < length l)%nat ->
  rank_list (set_pc_list l w c) = rank_list l - rank_pc (nth w l Gone) + rank_pc c.
Proof.
  induction l as [|a l IH]; intros [|w] c Hw; cbn [length] in Hw; try lia;
    cbn [set_pc_list nth rank_list fold_right]; fold (rank_list l).
  - lia.
  - fold (rank_list (set_pc_list l w c)). rewrite IH by lia. lia.
Qed.

Lemma rank_step : forall p l p',
  arr (hp p) = [] -> 0 <= tokens p -> worker_label l = true -> step p l = Some p' ->
  arr (hp p') = [] /\ 0 <= tokens p' /\ rank p' < rank p.
Proof.
  intros p l p' He Htk Hl Hs. unfold step in Hs.
  destruct (label_time l <? now p); [discriminate|].
  set (q := with_now p (label_time l)) in *.
  assert (Hq : hp q = hp p /\ tokens q = tokens p /\ workers q = workers p) by (repeat split).
  destruct Hq as [Hqh [Hqt Hqw]].
  assert (Hrq : rank q = rank p) by reflexivity.
  clearbody q.
  destruct l as [x d tc nn t|x t|w t|w t|w t|w t]; try discriminate; cbn [label_time] in *.
  - (* Decide *)
    destruct (pc_of q w) as [mis| | |] eqn:Hpc; try discriminate. injection Hs as <-.
    assert (Hw : (w < length (workers q))%nat) by (apply pc_of_lt; rewrite Hpc; discriminate).
    assert (H0 : f_len (hp q) = 0) by (apply f_len_zero; rewrite Hqh; exact He).
    unfold do_decide. rewrite H0. cbn [Z.eqb].
    destruct (mis >? 1) eqn:Em.
    + apply Z.gtb_lt in Em. cbn [exit_worker hp tokens]. rewrite Hqh, Hqt.
      split; [exact He|]. split; [exact Htk|].
      rewrite <- Hrq. unfold rank. cbn [exit_worker workers tokens].
      rewrite rank_list_set by exact Hw. change (nth w (workers q) Gone) with (pc_of q w).
      rewrite Hpc. cbn [rank_pc]. lia.
    + rewrite Z.gtb_ltb in Em. apply Z.ltb_ge in Em. cbn [with_pc hp tokens]. rewrite Hqh, Hqt.
      split; [exact He|]. split; [exact Htk|].
      rewrite <- Hrq. unfold rank. cbn [with_pc workers tokens].
      rewrite rank_list_set by exact Hw. change (nth w (workers q) Gone) with (pc_of q w).
      rewrite Hpc. cbn [rank_pc]. lia.
  - (* WakeTimer *)
    destruct (pc_of q w) as [|mis u| |] eqn:Hpc; try discriminate.
    destruct (t <? u); [discriminate|]. injection Hs as <-.
    assert (Hw : (w < length (workers q))%nat) by (apply pc_of_lt; rewrite Hpc; discriminate).
    cbn [with_pc hp tokens]. rewrite Hqh, Hqt. split; [exact He|]. split; [exact Htk|].
    rewrite <- Hrq. unfold rank. cbn [with_pc workers tokens].
    rewrite rank_list_set by exact Hw. change (nth w (workers q) Gone) with (pc_of q w).
    rewrite Hpc. cbn [rank_pc]. lia.
  - (* WakeToken *)
    destruct (pc_of q w) as [|mis u| |] eqn:Hpc; try discriminate.
    destruct (tokens q >? 0) eqn:Et; [|discriminate]. apply Z.gtb_lt in Et. injection Hs as <-.
    assert (Hw : (w < length (workers q))%nat) by (apply pc_of_lt; rewrite Hpc; discriminate).
    cbn [with_pc hp tokens]. rewrite Hqh. split; [exact He|]. split; [lia|].
    rewrite <- Hrq. unfold rank. cbn [with_pc workers tokens].
    rewrite rank_list_set by exact Hw. change (nth w (workers q) Gone) with (pc_of q w).
    rewrite Hpc. cbn [rank_pc]. lia.
  - (* CbEnd *)
    destruct (pc_of q w) as [| |x|] eqn:Hpc; try discriminate. injection Hs as <-.
    assert (Hw : (w < length (workers q))%nat) by (apply pc_of_lt; rewrite Hpc; discriminate).
    cbn [with_pc hp tokens]. rewrite Hqh, Hqt. split; [exact He|]. split; [exact Htk|].
    rewrite <- Hrq. unfold rank. cbn [with_pc workers tokens].
    rewrite rank_list_set by exact Hw. change (nth w (workers q) Gone) with (pc_of q w).
    rewrite Hpc. cbn [rank_pc]. lia.
Qed.

(* every run of worker labels from a state with an empty heap is finite: its length is
   bounded by the rank of the state *)
Theorem wind_down_bounded : forall tr p p',
  arr (hp p) = [] -> 0 <= tokens p -> forallb worker_label tr = true -> run p tr = Some p' ->
  Z.of_nat (length tr) <= rank p - rank p' /\ arr (hp p') = [] /\ 0 <= rank p'.
Proof.
  induction tr as [|l tr IH]; intros p p' He Htk Hl Hr; cbn [run] in Hr.
  - injection Hr as <-. cbn [length]. split; [lia|]. split; [exact He|].
    unfold rank. pose proof (rank_list_nonneg (workers p)). lia.
  - cbn [forallb] in Hl. apply andb_prop in Hl. destruct Hl as [Hl1 Hl2].
    destruct (step p l) as [p1|] eqn:Es; [|discriminate].
    destruct (rank_step p l p1 He Htk Hl1 Es) as [He1 [Htk1 Hlt]].
    destruct (IH p1 p' He1 Htk1 Hl2 Hr) as [A [B C]].
    split; [cbn [length]; lia|]. split; assumption.
Qed.

(* ... and when no worker label is enabled any more, no worker is left *)
Theorem wind_down_end : forall p, pool_inv p ->
  (forall l, worker_label l = true -> now p <= label_time l -> step p l = None) ->
  watchers p = 0.
Proof.
  intros p Hinv Hstuck. apply (no_watchers_iff_all_gone p Hinv). intros w.
  destruct (pc_of p w) as [mis|mis u|x|] eqn:Hpc; [| | |reflexivity]; exfalso.
  - specialize (Hstuck (LDecide w (now p)) eq_refl (Z.le_refl _)).
    unfold step in Hstuck. cbn [label_time] in Hstuck. rewrite Z.ltb_irrefl in Hstuck.
    change (pc_of (with_now p (now p)) w) with (pc_of p w) in Hstuck. rewrite Hpc in Hstuck. discriminate.
  - specialize (Hstuck (LWakeTimer w (Z.max (now p) u)) eq_refl (Z.le_max_l _ _)).
    unfold step in Hstuck. cbn [label_time] in Hstuck.
    destruct (Z.max (now p) u <? now p) eqn:E; [apply Z.ltb_lt in E; lia|].
    change (pc_of (with_now p (Z.max (now p) u)) w) with (pc_of p w) in Hstuck. rewrite Hpc in Hstuck.
    destruct (Z.max (now p) u <? u) eqn:E2; [apply Z.ltb_lt in E2; lia|discriminate].
  - specialize (Hstuck (LCbEnd w (now p)) eq_refl (Z.le_refl _)).
    unfold step in Hstuck. cbn [label_time] in Hstuck. rewrite Z.ltb_irrefl in Hstuck.
    change (pc_of (with_now p (now p)) w) with (pc_of p w) in Hstuck. rewrite Hpc in Hstuck. discriminate.
Qed.

(** * coverage *)

(* strong coverage: with a non-empty heap somebody is about to look at it (deciding,
   running a callback, or a sleeper whose timer has expired), or a wake-up token is
   buffered for a sleeper, or a sleeper's timer expires no later than the head's fire time *)
Definition covered (p : pool) : Prop :=
  arr (hp p) <> [] ->
  (exists w, active (pc_of p w)) \/
  (exists w m u, pc_of p w = Sleeping m u /\ u <= now p) \/
  (0 < tokens p /\ exists w m u, pc_of p w = Sleeping m u) \/
  (exists w m u, pc_of p w = Sleeping m u /\ u <= head_fire (hp p)).

(* the one step for which preservation of [covered] is not proved here: a worker that
   slept twice without work gives up although the heap is not empty (it is not alone) *)
Definition delicate_exit (p : pool) (l : label) : Prop :=
  exists w t mis, l = LDecide w t /\ pc_of p w = Deciding mis /\ 1 < mis /\
                  arr (hp p) <> [] /\ 1 < watchers p /\ t <= head_fire (hp p).

Lemma covered_init : forall i m c k, covered (init_pool i m c k).
Proof. intros i m c k H. cbn in H. contradiction. Qed.

Lemma covered_now : forall p t, covered p -> now p <= t -> covered (with_now p t).
Proof.
  intros p t C Ht Hne. change (arr (hp (with_now p t))) with (arr (hp p)) in Hne.
  destruct (C Hne) as [A|[[w [m [u [E D]]]]|[A|A]]].
  - left. exact A.
  - right. left. exists w, m, u. split; [exact E|]. cbn [with_now now]. lia.
  - right. right. left. exact A.
  - right. right. right. exact A.
Qed.

Lemma covered_token : forall p, 1 <= count_live (workers p) -> 0 < tokens p -> covered p.
Proof.
  intros p Hc Ht _. destruct (exists_live _ Hc) as [w Hw].
  destruct (live_cases _ Hw) as [A|[m [u E]]].
  - left. exists w. exact A.
  - right. right. left. split; [exact Ht|]. exists w, m, u. exact E.
Qed.

Theorem coverage_step_partial : forall p l p',
  pool_ok p -> pool_inv p -> covered p -> step p l = Some p' ->
  covered p' \/ delicate_exit p l.
Proof.
  intros p l p' Hok Hinv Hcov Hs. unfold step in Hs.
  destruct (label_time l <? now p) eqn:Ht; [discriminate|]. apply Z.ltb_ge in Ht.
  pose proof (pool_inv_now p (label_time l) Hinv Ht) as Hinv0.
  pose proof (with_now_ok p (label_time l) Hok) as Hok0.
  pose proof (covered_now p (label_time l) Hcov Ht) as Hcov0.
  set (q := with_now p (label_time l)) in *.
  assert (Hqp : hp q = hp p /\ watchers q = watchers p /\ forall w, pc_of q w = pc_of p w) by (repeat split).
  destruct Hqp as [Hqh [Hqw Hqpc]].
  clearbody q.
  destruct Hinv0 as [Par W F0 B T F1 WC]. destruct Par as [P1 P2 P3].
  destruct l as [x d tc nn t|x t|w t|w t|w t|w t]; cbn [label_time] in *.
  - (* Call *)
    left. destruct (tc >? t); [discriminate|]. destruct nn.
    + destruct (do_call_nonnil q x d tc p' Hs) as [h [_ [Hi [Hm [Hc [Hn Hcase]]]]]].
      destruct Hcase as [[W0 [W1 [Wk Tk]]]|[W0 [W1 [Wk Tk]]]].
      * intros _. left. exists (length (workers q)). unfold pc_of. rewrite Wk.
        rewrite app_nth2 by lia. rewrite Nat.sub_diag. exact I.
      * pose proof (notify_tokens q P3 T) as Hnt.
        pose proof (count_live_nonneg (workers q)).
        apply covered_token; [rewrite Wk; lia|lia].
    + destruct (do_call_nil q x d tc p' Hs) as [Ha [Hw [Htk [Hwk [Hn [Hi [Hm [Hc [Hnc Hg]]]]]]]]].
      intros Hne. rewrite Ha in Hne.
      assert (Hhf : head_fire (hp p') = head_fire (hp q)).
      { apply head_fire_same; [exact Ha| |exact Hne].
        intros y Hy. rewrite Hg; [reflexivity|]. intros ->.
        destruct (po_pend q Hok0 x Hy) as [A _]. congruence. }
      unfold pc_of. rewrite Hwk, Htk, Hhf, Hn. apply Hcov0. exact Hne.
  - (* Cancel *)
    left.
    destruct (do_cancel_facts q x p' Hok0 Hs) as [_ [_ [_ [Hwk [Hwa [Hn [Hin [Hf [_ Hnp]]]]]]]]].
    destruct (in_dec N.eq_dec x (arr (hp q))) as [HI|HI].
    + assert (Hne : arr (hp q) <> []) by (intros E; rewrite E in HI; destruct HI).
      specialize (F0 Hne).
      assert (Htk : tokens p' = tokens (notify q)).
      { unfold do_cancel in Hs. destruct (negb (was_called q x)); [discriminate|].
        rewrite (pending_idx _ _ (po_idx q Hok0) HI) in Hs.
        match type of Hs with Some (if ?c then _ else _) = _ => destruct c eqn:Ew end; injection Hs as <-.
        - reflexivity.
        - rewrite Z.gtb_ltb in Ew. apply Z.ltb_ge in Ew. cbn [with_heap watchers] in Ew. lia. }
      pose proof (notify_tokens q P3 T) as Hnt.
      apply covered_token; [rewrite Hwk; lia|lia].
    + destruct (Hnp HI) as [Hh Htk'].
      intros Hne. rewrite Hh in Hne. unfold pc_of. rewrite Hwk, Htk', Hh, Hn. apply Hcov0. exact Hne.
  - (* Decide *)
    destruct (pc_of q w) as [mis| | |] eqn:Hpc; try discriminate. injection Hs as <-.
    assert (Hw : (w < length (workers q))%nat) by (apply pc_of_lt; rewrite Hpc; discriminate).
    destruct (decide_out_intro q w mis t) as [Hcond Hmis|u Hcond|h1 x sp Hlen Hdue HP Hsp].
    + destruct Hcond as [E|[E [A Bw]]].
      * left. intros Hne. cbn [exit_worker hp] in Hne. apply f_len_zero in E. contradiction.
      * right. exists w, t, mis. split; [reflexivity|]. rewrite <- Hqpc, <- Hqh, <- Hqw.
        split; [exact Hpc|]. split; [exact Hmis|]. split; [|split; assumption].
        intros E'. apply E. apply f_len_zero. exact E'.
    + left. intros Hne. cbn [with_pc hp] in Hne. right. right. right.
      exists w, mis, u. split; [apply pc_with_pc_same; exact Hw|]. cbn [with_pc hp].
      destruct Hcond as [[E _]|[_ [_ [[_ [_ [_ A]]]|[_ A]]]]].
      * apply f_len_zero in E. contradiction.
      * exact A.
      * lia.
    + left. intros _. left. exists w.
      assert (Hact : active (if live (get (hs h1) x) then Running x else Deciding (mis + 1)))
        by (destruct (live (get (hs h1) x)); exact I).
      destruct sp.
      * rewrite pc_with_pc_same; [exact Hact|].
        cbn [spawn with_heap workers]. rewrite app_length. cbn [length]. lia.
      * rewrite pc_with_pc_same by exact Hw. exact Hact.
  - (* WakeTimer *)
    left. destruct (pc_of q w) as [|mis u| |] eqn:Hpc; try discriminate.
    destruct (t <? u); [discriminate|]. injection Hs as <-.
    assert (Hw : (w < length (workers q))%nat) by (apply pc_of_lt; rewrite Hpc; discriminate).
    intros _. left. exists w. rewrite pc_with_pc_same by exact Hw. exact I.
  - (* WakeToken *)
    left. destruct (pc_of q w) as [|mis u| |] eqn:Hpc; try discriminate.
    destruct (tokens q >? 0); [|discriminate]. injection Hs as <-.
    assert (Hw : (w < length (workers q))%nat) by (apply pc_of_lt; rewrite Hpc; discriminate).
    intros _. left. exists w. unfold pc_of. cbn [with_pc workers]. rewrite set_pc_nth by exact Hw. exact I.
  - (* CbEnd *)
    left. destruct (pc_of q w) as [| |x|] eqn:Hpc; try discriminate. injection Hs as <-.
    assert (Hw : (w < length (workers q))%nat) by (apply pc_of_lt; rewrite Hpc; discriminate).
    intros _. left. exists w. rewrite pc_with_pc_same by exact Hw. exact I.
Qed.

(* coverage for a pool that never has more than one worker at a time (maxWorkers = 1):
   there the delicate step does not exist and [covered] is a full inductive invariant *)
Theorem coverage_single_worker : forall i c k tr p,
  0 <= i -> 1 <= c -> 0 <= k <= c ->
  run (init_pool i 1 c k) tr = Some p -> covered p.
Proof.
  intros i c k tr p Hi Hc Hk.
  assert (G : forall tr q p, pool_ok q -> pool_inv q -> maxw q = 1 -> covered q ->
              run q tr = Some p -> covered p).
  { clear. induction tr as [|l tr IH]; intros q p Hok Hinv Hm Hcov Hr; cbn [run] in Hr.
    - injection Hr as <-. exact Hcov.
    - destruct (step q l) as [q1|] eqn:Es; [|discriminate].
      pose proof (pool_inv_step q l q1 Hok Hinv Es) as Hinv1.
      pose proof (sf_ok _ _ _ (step_facts_hold q l q1 Hok Es)) as Hok1.
      apply (IH q1 p Hok1 Hinv1); [| |exact Hr].
      + (* maxw is constant *)
        clear - Es Hm. unfold step in Es. destruct (label_time l <? now q); [discriminate|].
        destruct l as [x d tc nn t|x t|w t|w t|w t|w t]; cbn [label_time] in Es.
        * destruct (tc >? t); [discriminate|]. destruct nn.
          -- destruct (do_call_nonnil _ x d tc q1 Es) as [h [_ [_ [A _]]]]. rewrite A. exact Hm.
          -- destruct (do_call_nil _ x d tc q1 Es) as [_ [_ [_ [_ [_ [_ [A _]]]]]]]. rewrite A. exact Hm.
        * unfold do_cancel in Es. destruct (negb (was_called _ x)); [discriminate|].
          destruct (idx _ <? 0); [injection Es as <-; exact Hm|].
          match type of Es with Some (if ?c then _ else _) = _ => destruct c end; injection Es as <-; exact Hm.
        * destruct (pc_of _ w) as [mis| | |]; try discriminate. injection Es as <-.
          destruct (decide_out_intro (with_now q t) w mis t) as [? ?|u ?|h1 x sp ? ? ? ?]; try exact Hm.
          destruct sp; exact Hm.
        * destruct (pc_of _ w); try discriminate. destruct (t <? until); [discriminate|].
          injection Es as <-. exact Hm.
        * destruct (pc_of _ w); try discriminate. destruct (tokens _ >? 0); [|discriminate].
          injection Es as <-. exact Hm.
        * destruct (pc_of _ w); try discriminate. injection Es as <-. exact Hm.
      + destruct (coverage_step_partial q l q1 Hok Hinv Hcov Es) as [C|[w [t [mis [_ [_ [_ [_ [Hw _]]]]]]]]].
        * exact C.
        * exfalso. pose proof (pi_bound q Hinv). lia. }
  intros Hr. apply (G tr (init_pool i 1 c k) p); auto.
  - apply pool_ok_init.
  - apply pool_inv_init; auto; lia.
  - apply covered_init.
Qed.
