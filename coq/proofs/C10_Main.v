(** C10: the pointer model refines the specification (composition of the two
    layers), for all well-formed histories and all pool choices. *)
From Coq Require Import List ZArith Arith Bool Lia.
From GL Require Import lib.IMapBase model.IMap model.Chain spec.OMap
  proofs.C10_Assoc proofs.C10_Cells proofs.C10_Next proofs.C10_R2 proofs.C10_ChainSim
  proofs.C10_Heap proofs.C10_L1 proofs.C10_Repr.
Import ListNotations.
Open Scope Z_scope.

(** the simulation relation between the pointer model and the specification *)
Definition R (s : imap) (o : omap) : Prop := exists c zs, repr s c zs /\ R2 c o.

Lemma repr_init : repr i_new c_new [(0%nat, mkCell 0 StLast 0 0 0)].
Proof.
  constructor.
  - reflexivity.
  - constructor.
    + constructor.
      * cbn. constructor; [intros []|constructor].
      * cbn. constructor; [intros []|constructor].
      * cbn. exists zero_node. auto.
      * constructor; [|constructor]. exists zero_node. cbn. split; [reflexivity|]. split; [reflexivity|].
        split; [reflexivity|]. intros E. congruence.
    + split; constructor.
    + reflexivity.
    + intros y c [[= <- <-]|[]]. cbn. lia.
  - reflexivity.
  - constructor.
  - constructor.
Qed.

Lemma R_init : R i_new o_new.
Proof. exists c_new, [(0%nat, mkCell 0 StLast 0 0 0)]. split; [apply repr_init|apply R2_init]. Qed.

Theorem imap_step_sim ch s o x : R s o -> op_ok (map fst (opos o)) x ->
  exists s', i_do ch s x = Ok (s', snd (o_step o x)) /\ R s' (fst (o_step o x)).
Proof.
  intros (c & zs & Hrepr & HR2) Hok.
  pose proof (cinv_of_R2 _ _ HR2) as Hc.
  assert (Hgen : x <> OFirst ->
     exists c', c_do c x = Ok (c', snd (o_step o x)) /\ R2 c' (fst (o_step o x)) /\ cinv c').
  { intros _. destruct (c_do_sim c o x HR2 Hok) as (c' & H1 & H2). exists c'. split; [exact H1|].
    split; [exact H2|]. eapply cinv_of_R2. exact H2. }
  destruct x as [k v|k|k| | |i|i|i|i]; cbn [i_do].
  - destruct Hgen as (c' & Hdo & HR' & Hc'); [discriminate|]. cbn [c_do] in Hdo.
    destruct (sim1_add s c zs k v (ch (allocs s)) c' _ Hrepr Hc' Hdo) as (s' & zs' & Hi & Hr').
    exists s'. split; [exact Hi|]. exists c', zs'. auto.
  - destruct Hgen as (c' & Hdo & HR' & Hc'); [discriminate|]. cbn [c_do] in Hdo.
    destruct (sim1_remove s c zs k c' _ Hrepr Hc Hc' Hdo) as (s' & zs' & Hi & Hr').
    exists s'. split; [exact Hi|]. exists c', zs'. auto.
  - destruct Hgen as (c' & Hdo & HR' & Hc'); [discriminate|]. cbn [c_do] in Hdo.
    destruct (sim1_get s c zs k c' _ Hrepr Hc Hdo) as (Hi & ->).
    exists s. split; [exact Hi|]. exists c, zs. auto.
  - destruct Hgen as (c' & Hdo & HR' & Hc'); [discriminate|]. cbn [c_do] in Hdo.
    injection Hdo as <- Hout. exists s. rewrite (sim1_len s c zs Hrepr), Hout. split; [reflexivity|].
    exists c, zs. auto.
  - (* First = Iterator; Next; Close on a name nobody uses, at every level *)
    clear Hgen. cbn [op_ok] in Hok.
    pose proof (trel_keys _ _ _ (r2_iters _ _ HR2)) as Hk2.
    pose proof (trel_keys _ _ _ (rp_iters _ _ _ Hrepr)) as Hk1.
    unfold i_first. unfold akeys. rewrite Hk1. set (name := fresh_name (map fst (citers c))).
    assert (Hfresh : ~ In name (map fst (citers c))) by apply fresh_name_notin.
    assert (Hfresh' : ~ In name (map fst (opos o))) by (rewrite <- Hk2; exact Hfresh).
    destruct (sim_iterator c o name HR2 Hfresh) as (c1 & Hc1 & HR1).
    set (o1 := mkOMap (entries o) ((name, 0%nat) :: opos o)) in *.
    pose proof (cinv_of_R2 _ _ HR1) as Hci1.
    destruct (sim1_iterator s c zs name c1 _ Hrepr Hci1 Hc1) as (s1 & zs1 & Hi1 & Hr1).
    rewrite Hi1. cbn [bind].
    assert (Hp1 : alookup name (opos o1) = Some 0%nat) by (cbn; rewrite Z.eqb_refl; reflexivity).
    destruct (sim_itnext c1 o1 name 0%nat HR1 Hp1) as (c2 & Hc2 & HR2').
    pose proof (cinv_of_R2 _ _ HR2') as Hci2.
    destruct (sim1_itnext s1 c1 zs1 name c2 _ Hr1 Hci1 Hci2 Hc2) as (s2 & zs2 & Hi2 & Hr2).
    rewrite Hi2. cbn [bind].
    cbn [o_step] in HR2', Hi2 |- *. rewrite Hp1 in HR2', Hi2 |- *. cbn [entries o1] in HR2', Hi2 |- *.
    destruct (first_live (entries o) 0) as [[j e]|] eqn:Ef; cbn [fst snd] in HR2', Hi2 |- *.
    + cbn [opos o1] in HR2'. rewrite aset_cons_same, aset_notin in HR2' by exact Hfresh'.
      destruct (sim_close c2 _ name (S j) HR2') as (c3 & Hc3 & HR3); [cbn; rewrite Z.eqb_refl; reflexivity|].
      pose proof (cinv_of_R2 _ _ HR3) as Hci3.
      destruct (sim1_close s2 c2 zs2 name c3 _ Hr2 Hci2 Hci3 Hc3) as (s3 & zs3 & Hi3 & Hr3).
      rewrite Hi3. cbn [bind]. exists s3. split; [reflexivity|]. exists c3, zs3. split; [exact Hr3|].
      cbn [entries opos] in HR3. rewrite aremove_cons_same, aremove_notin in HR3 by exact Hfresh'.
      destruct o. exact HR3.
    + destruct (sim_close c2 o1 name 0%nat HR2' Hp1) as (c3 & Hc3 & HR3).
      pose proof (cinv_of_R2 _ _ HR3) as Hci3.
      destruct (sim1_close s2 c2 zs2 name c3 _ Hr2 Hci2 Hci3 Hc3) as (s3 & zs3 & Hi3 & Hr3).
      rewrite Hi3. cbn [bind]. exists s3. split; [reflexivity|]. exists c3, zs3. split; [exact Hr3|].
      cbn [entries opos o1] in HR3. rewrite aremove_cons_same, aremove_notin in HR3 by exact Hfresh'.
      destruct o. exact HR3.
  - destruct Hgen as (c' & Hdo & HR' & Hc'); [discriminate|]. cbn [c_do] in Hdo.
    destruct (sim1_iterator s c zs i c' _ Hrepr Hc' Hdo) as (s' & zs' & Hi & Hr').
    exists s'. split; [exact Hi|]. exists c', zs'. auto.
  - destruct Hgen as (c' & Hdo & HR' & Hc'); [discriminate|]. cbn [c_do] in Hdo.
    destruct (sim1_hasnext s c zs i c' _ Hrepr Hc Hc' Hdo) as (s' & zs' & Hi & Hr').
    exists s'. split; [exact Hi|]. exists c', zs'. auto.
  - destruct Hgen as (c' & Hdo & HR' & Hc'); [discriminate|]. cbn [c_do] in Hdo.
    destruct (sim1_itnext s c zs i c' _ Hrepr Hc Hc' Hdo) as (s' & zs' & Hi & Hr').
    exists s'. split; [exact Hi|]. exists c', zs'. auto.
  - destruct Hgen as (c' & Hdo & HR' & Hc'); [discriminate|]. cbn [c_do] in Hdo.
    destruct (sim1_close s c zs i c' _ Hrepr Hc Hc' Hdo) as (s' & zs' & Hi & Hr').
    exists s'. split; [exact Hi|]. exists c', zs'. auto.
Qed.

(** * Whole histories *)

Theorem imap_run_sim ch : forall h open s o,
  R s o -> (forall y, In y open <-> In y (map fst (opos o))) -> wf_from open h = true ->
  fst (run (i_step ch) s h) = fst (run o_step o h) /\
  R (snd (run (i_step ch) s h)) (snd (run o_step o h)) /\
  Forall (fun x => is_stop x = false) (fst (run o_step o h)).
Proof.
  induction h as [|x t IH]; intros open s o HR Hs Hwf; cbn [run].
  - cbn. auto.
  - pose proof (wf_head_ok open _ x t Hs Hwf) as Hok.
    destruct (imap_step_sim ch s o x HR Hok) as (s' & Hi & HR').
    unfold i_step at 1 3. rewrite Hi.
    pose proof (o_step_no_stop o x Hok) as Hns.
    destruct (o_step o x) as [o' y] eqn:Eo. cbn [fst snd] in *. rewrite Hns.
    specialize (IH (open_after open x) s' o' HR').
    destruct IH as (IH1 & IH2 & IH3).
    + pose proof (open_after_names open o x Hs Hok) as Hn. rewrite Eo in Hn. exact Hn.
    + apply wf_tail. exact Hwf.
    + destruct (run (i_step ch) s' t) as [xs sf]. destruct (run o_step o' t) as [ys of]. cbn [fst snd] in *.
      subst ys. split; [reflexivity|]. split; [exact IH2|]. constructor; assumption.
Qed.

Theorem imap_refines_omap : forall h ch, wf_hist h -> run_imap ch h = run_omap h.
Proof.
  intros h ch Hwf. unfold run_imap, run_omap, outs.
  apply (imap_run_sim ch h [] i_new o_new R_init); [cbn; tauto|exact Hwf].
Qed.

Theorem imap_no_panic : forall h ch, wf_hist h ->
  ~ In OutPanic (run_imap ch h) /\ ~ In OutNoFuel (run_imap ch h).
Proof.
  intros h ch Hwf. destruct (imap_run_sim ch h [] i_new o_new R_init) as (H1 & _ & H3); [cbn; tauto|exact Hwf|].
  unfold run_imap, outs. rewrite H1. split; intros Hin;
    apply (proj1 (Forall_forall _ _) H3) in Hin; discriminate.
Qed.

Theorem imap_choice_independent : forall h ch ch', wf_hist h -> run_imap ch h = run_imap ch' h.
Proof. intros h ch ch' Hwf. rewrite !imap_refines_omap by exact Hwf. reflexivity. Qed.
