(** C06 on the contract: an expired record is indistinguishable from a deleted
    one, for every operation kind and for every later history; a record that has
    not expired is never dropped. *)
From Coq Require Import List ZArith NArith Arith Bool Lia.
From GL Require Import spec.KV proofs.C03_KV.
Import ListNotations.

(** ** dropping expired records *)

Lemma alookup_filter : forall (f : key * rec -> bool) k l, NoDup (akeys l) ->
  alookup k (filter f l) =
  match alookup k l with
  | Some r => if f (k, r) then Some r else None
  | None => None
  end.
Proof.
  induction l as [|[k' r'] t IH]; intros Hnd; cbn [filter alookup]; [reflexivity|].
  cbn [akeys map fst] in Hnd. inversion Hnd as [|? ? Hn Ht]; subst.
  destruct (key_eqb k k') eqn:E.
  - apply key_eqb_eq in E. subst k'. destruct (f (k, r')) eqn:Ef.
    + cbn [alookup]. rewrite key_eqb_refl. reflexivity.
    + rewrite (IH Ht). apply alookup_None_notin in Hn. rewrite Hn. reflexivity.
  - destruct (f (k', r')); [cbn [alookup]; rewrite E|]; apply IH; exact Ht.
Qed.

Lemma find_purge : forall s now k, wf s -> find now k s = alookup k (purge now (recs s)).
Proof.
  intros s now k Hw. unfold find, purge. rewrite lookup_alookup, (alookup_filter _ k _ Hw).
  destruct (alookup k (recs s)) as [r|]; [|reflexivity]. cbn [snd]. destruct (expired now r); reflexivity.
Qed.

Lemma filter_comm : forall {A} (f g : A -> bool) l, filter f (filter g l) = filter g (filter f l).
Proof.
  induction l as [|a t IH]; cbn [filter]; [reflexivity|].
  destruct (g a) eqn:Eg, (f a) eqn:Ef; cbn [filter]; rewrite ?Eg, ?Ef, IH; reflexivity.
Qed.

Lemma purge_remove : forall now k l, purge now (remove k l) = aremove k (purge now l).
Proof. intros. unfold purge, remove, aremove. apply filter_comm. Qed.

Lemma purge_set : forall now k x l, purge now (set k x l) = aremove k (purge now l) ++ purge now [(k, x)].
Proof. intros. unfold set, purge at 1. rewrite filter_app. fold (purge now (remove k l)). rewrite purge_remove. reflexivity. Qed.

Lemma expired_mono : forall now now' r, (now <= now')%Z -> expired now r = true -> expired now' r = true.
Proof.
  intros now now' r Hle. unfold expired. destruct (exp r) as [e|]; [|auto].
  intros H. apply Z.ltb_lt in H. apply Z.ltb_lt. lia.
Qed.

Lemma purge_purge : forall now now' l, (now <= now')%Z -> purge now' (purge now l) = purge now' l.
Proof.
  intros now now' l Hle. induction l as [|[k r] t IH]; cbn [purge filter snd]; [reflexivity|].
  destruct (expired now r) eqn:E; cbn [negb].
  - rewrite (expired_mono _ _ _ Hle E). cbn [negb]. exact IH.
  - cbn [filter snd]. destruct (expired now' r); cbn [negb]; [exact IH|f_equal; exact IH].
Qed.

(** ** states that differ in expired records only *)

Definition veq (now : Z) (s1 s2 : state) : Prop :=
  next s1 = next s2 /\ purge now (recs s1) = purge now (recs s2).

Lemma veq_refl : forall now s, veq now s s.
Proof. intros. split; reflexivity. Qed.

Lemma veq_mono : forall now now' s1 s2, (now <= now')%Z -> veq now s1 s2 -> veq now' s1 s2.
Proof.
  intros now now' s1 s2 Hle [H1 H2]. split; [exact H1|].
  rewrite <- (purge_purge now now' (recs s1) Hle), <- (purge_purge now now' (recs s2) Hle), H2. reflexivity.
Qed.

Lemma veq_find : forall now s1 s2 k, wf s1 -> wf s2 -> veq now s1 s2 -> find now k s1 = find now k s2.
Proof. intros now s1 s2 k H1 H2 [_ H]. rewrite !find_purge by assumption. rewrite H. reflexivity. Qed.

Lemma veq_write : forall now s1 s2 k v e, veq now s1 s2 ->
  veq now (fst (write k v e s1)) (fst (write k v e s2)) /\ snd (write k v e s1) = snd (write k v e s2).
Proof.
  intros now s1 s2 k v e [H1 H2]. unfold write. cbn [fst snd]. split; [|exact H1].
  split; cbn [next recs]; [congruence|]. rewrite !purge_set, H1, H2. reflexivity.
Qed.

Lemma veq_put_many : forall now rs s1 s2, veq now s1 s2 -> veq now (put_many rs s1) (put_many rs s2).
Proof.
  induction rs as [|[[k v] e] t IH]; intros s1 s2 H; cbn [put_many]; [exact H|].
  apply IH. apply veq_write. exact H.
Qed.

Lemma filter_andb : forall {A} (f g : A -> bool) l, filter (fun a => f a && g a) l = filter g (filter f l).
Proof.
  induction l as [|a t IH]; cbn [filter]; [reflexivity|].
  destruct (f a); cbn [andb filter]; [destruct (g a); rewrite IH; reflexivity|exact IH].
Qed.

(** The contract cannot tell apart two states that are equal after dropping the
    records expired at [now]: every operation gives the same result on both, and
    the successor states are again equal after dropping expired records. *)
Lemma step_veq : forall now s1 s2 o, wf s1 -> wf s2 -> veq now s1 s2 ->
  snd (step s1 now o) = snd (step s2 now o) /\ veq now (fst (step s1 now o)) (fst (step s2 now o)).
Proof.
  intros now s1 s2 o W1 W2 V.
  assert (F : forall k, find now k s1 = find now k s2) by (intros; apply veq_find; assumption).
  destruct o; cbn [step].
  - rewrite (F k). destruct (find now k s2) as [r|]; cbn [fst snd]; [auto|].
    destruct (veq_write now s1 s2 k v e V) as [Hv Hn].
    destruct (write k v e s1) as [s1' n1], (write k v e s2) as [s2' n2]. cbn [fst snd] in *. subst. auto.
  - rewrite (F k). destruct (find now k s2); cbn [fst snd]; auto.
  - cbn [fst snd]. split; [|exact V]. f_equal. apply map_ext. intros k. rewrite (F k). reflexivity.
  - destruct (veq_write now s1 s2 k v e V) as [Hv Hn].
    destruct (write k v e s1) as [s1' n1], (write k v e s2) as [s2' n2]. cbn [fst snd] in *. subst. auto.
  - cbn [fst snd]. split; [reflexivity|apply veq_put_many; exact V].
  - rewrite (F k). destruct (find now k s2) as [r|]; cbn [fst snd]; [|auto].
    destruct (Nat.eqb (ver r) expected); cbn [fst snd]; [|auto].
    destruct (veq_write now s1 s2 k v e V) as [Hv Hn].
    destruct (write k v e s1) as [s1' n1], (write k v e s2) as [s2' n2]. cbn [fst snd] in *. subst. auto.
  - rewrite (F k). destruct (find now k s2); cbn [fst snd]; [|auto]. split; [reflexivity|].
    destruct V as [V1 V2]. split; cbn [next recs]; [exact V1|]. rewrite !purge_remove, V2. reflexivity.
  - cbn [fst snd]. split; [|exact V]. destruct V as [_ V2]. f_equal. f_equal.
    rewrite !(filter_andb (fun kr => negb (expired now (snd kr))) (fun kr => matches pat (fst kr))).
    unfold purge in V2. rewrite V2. reflexivity.
Qed.

(** ** expired = deleted *)

(* [k] holds a record whose expiration time has passed *)
Definition exp_passed (s : state) (now : Z) (k : key) : Prop :=
  exists r, lookup k (recs s) = Some r /\ expired now r = true.

(* the state in which [k] was deleted *)
Definition del (k : key) (s : state) : state := mkSt (remove k (recs s)) (next s).

Lemma wf_del : forall k s, wf s -> wf (del k s).
Proof. intros k s H. unfold wf, del. cbn [recs]. apply NoDup_remove. exact H. Qed.

Lemma veq_del : forall s now k, wf s -> exp_passed s now k -> veq now s (del k s).
Proof.
  intros s now k Hw [r [Hl He]]. split; [reflexivity|]. unfold del. cbn [recs]. symmetry.
  unfold purge, remove. apply (filter_remove_dead (fun kr => negb (expired now (snd kr))) k (recs s)).
  intros [k' r'] Hin Hk. cbn [fst] in Hk. subst k'. cbn [snd].
  rewrite lookup_alookup in Hl. rewrite (In_alookup k r' _ Hw Hin) in Hl. injection Hl as ->.
  rewrite He. reflexivity.
Qed.

(* for EVERY operation: same result, and the successor states are equal after dropping the
   expired records (same version counter, too) *)
Theorem expired_eq_deleted : forall s now k, wf s -> exp_passed s now k -> forall o,
  snd (step s now o) = snd (step (del k s) now o) /\
  purge now (recs (fst (step s now o))) = purge now (recs (fst (step (del k s) now o))) /\
  next (fst (step s now o)) = next (fst (step (del k s) now o)).
Proof.
  intros s now k Hw He o.
  destruct (step_veq now s (del k s) o Hw (wf_del k s Hw) (veq_del s now k Hw He)) as [H1 [H2 H3]].
  auto.
Qed.

(* spelled out per operation kind *)
Corollary expired_key_outcomes : forall s now k, exp_passed s now k ->
  (forall v e, snd (step s now (Create k v e)) = OVer (next s)) /\
  snd (step s now (Get k)) = ONotExist /\
  (forall v e n, snd (step s now (CasByVersion k v e n)) = ONotExist) /\
  snd (step s now (Delete k)) = ONotExist /\
  (forall p, exists ks, snd (step s now (ListKeys p)) = OKeys ks /\ (wf s -> ~ In k ks)) /\
  (forall ks, exists rs, snd (step s now (GetMany ks)) = ORecs rs /\
                         forall i, nth_error ks i = Some k -> nth_error rs i = Some None) /\
  (forall v, wait_now s now k v = Some ONotExist).
Proof.
  intros s now k [r [Hl He]].
  assert (F : find now k s = None) by (unfold find; rewrite Hl, He; reflexivity).
  repeat split.
  - intros v e. cbn [step]. rewrite F. reflexivity.
  - cbn [step]. rewrite F. reflexivity.
  - intros v e n. cbn [step]. rewrite F. reflexivity.
  - cbn [step]. rewrite F. reflexivity.
  - intros p. eexists. split; [reflexivity|]. intros Hw Hin. apply in_map_iff in Hin.
    destruct Hin as [[k' r'] [Hk Hin]]. cbn in Hk. subst k'. apply filter_In in Hin. destruct Hin as [Hin Hf].
    cbn [fst snd] in Hf. rewrite lookup_alookup in Hl. rewrite (In_alookup k r' _ Hw Hin) in Hl.
    injection Hl as ->. rewrite He in Hf. discriminate.
  - intros ks. eexists. split; [reflexivity|]. intros i Hi. rewrite nth_error_map, Hi. cbn. rewrite F. reflexivity.
  - intros v. unfold wait_now. rewrite F. reflexivity.
Qed.

(** ... and for every later history: runs from two states that are equal after
    dropping expired records give the same results forever (monotone clock). *)
Fixpoint mono (t : Z) (ops : list (Z * op)) : Prop :=
  match ops with
  | [] => True
  | (now, _) :: r => (t <= now)%Z /\ mono now r
  end.

Lemma run_veq : forall ops t s1 s2, wf s1 -> wf s2 -> veq t s1 s2 -> mono t ops ->
  fst (run s1 ops) = fst (run s2 ops).
Proof.
  induction ops as [|[now o] r IH]; intros t s1 s2 W1 W2 V M; cbn [run]; [reflexivity|].
  destruct M as [Hle M].
  destruct (step_veq now s1 s2 o W1 W2 (veq_mono _ _ _ _ Hle V)) as [Ho Hv].
  pose proof (step_wf s1 now o W1) as W1'. pose proof (step_wf s2 now o W2) as W2'.
  destruct (step s1 now o) as [s1' x1], (step s2 now o) as [s2' x2]. cbn [fst snd] in *. subst x2.
  specialize (IH now s1' s2' W1' W2' Hv M).
  destruct (run s1' r) as [xs1 f1], (run s2' r) as [xs2 f2]. cbn [fst] in *. congruence.
Qed.

Theorem expired_eq_deleted_forever : forall s now k ops, wf s -> exp_passed s now k -> mono now ops ->
  fst (run s ops) = fst (run (del k s) ops).
Proof.
  intros s now k ops Hw He M.
  apply (run_veq ops now); [exact Hw|apply wf_del; exact Hw|apply veq_del; assumption|exact M].
Qed.

(** ** a record that has not expired is never dropped *)

Definition read_only (o : op) : bool :=
  match o with Get _ | GetMany _ | ListKeys _ => true | _ => false end.

Theorem unexpired_never_dropped : forall s now o,
  (* an operation that does not name the key leaves its record alone, expiration or not *)
  (forall k, touches o k = false -> lookup k (recs (fst (step s now o))) = lookup k (recs s)) /\
  (* reading never changes anything: no record is dropped by looking at it *)
  (read_only o = true -> fst (step s now o) = s) /\
  (* an operation that fails changes nothing *)
  (match snd (step s now o) with OExist _ | ONotExist | OConflict => fst (step s now o) = s | _ => True end).
Proof.
  intros s now o. split; [|split].
  - intros k H. apply step_frame. exact H.
  - destruct o; cbn [read_only step]; try discriminate; intros _.
    + destruct (find now k s); reflexivity.
    + reflexivity.
    + reflexivity.
  - destruct o; cbn [step].
    + destruct (find now k s); [reflexivity|]. destruct (write k v e s). exact I.
    + destruct (find now k s); [exact I|reflexivity].
    + exact I.
    + destruct (write k v e s). exact I.
    + exact I.
    + destruct (find now k s) as [r|]; [|reflexivity]. destruct (Nat.eqb (ver r) expected); [|reflexivity].
      destruct (write k v e s). exact I.
    + destruct (find now k s); [exact I|reflexivity].
    + exact I.
Qed.

(* a live record is visible to every operation at every instant up to its expiration *)
Lemma live_record_visible : forall s now k r,
  lookup k (recs s) = Some r ->
  (match exp r with Some t => (now <= t)%Z | None => True end) ->
  find now k s = Some r.
Proof.
  intros s now k r Hl He. unfold find. rewrite Hl. unfold expired.
  destruct (exp r) as [t|]; [|reflexivity].
  assert (E : Z.ltb t now = false) by (apply Z.ltb_ge; exact He). rewrite E. reflexivity.
Qed.

(* WaitForVersionChange on an expired key ends with ErrNotExist (the waiter LTS is C07's) *)
Lemma wait_on_expired_notexist : forall s now k v, exp_passed s now k ->
  wait_now s now k v = Some ONotExist /\ wait_now (del k s) now k v = Some ONotExist.
Proof.
  intros s now k v [r [Hl He]]. unfold wait_now, find. rewrite Hl, He. split; [reflexivity|].
  unfold del. cbn [recs]. rewrite lookup_alookup, remove_aremove, alookup_remove_same. reflexivity.
Qed.
