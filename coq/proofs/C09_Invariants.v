(** C09: inductive invariants of the concurrent cache LTS (model/ECacheConc.v),
    for every reachable state, any number of threads:
    single-flight, in-flight keys are not resident, capacity, accounting of
    created / deleted / resident / pending values, no lost wake-up. *)
From Coq Require Import List ZArith NArith Arith Bool Lia Permutation.
From GL Require Import spec.LRU model.ECache model.ECacheConc proofs.C08_ECache proofs.C08_LRU.
Import ListNotations.

Section Conc.
Context {PK K V : Type}.
Context (keqb : K -> K -> bool).
Context (keqb_spec : forall a b, reflect (a = b) (keqb a b)).
Context (kmap : PK -> K).

Notation state := (cstate PK K V).
Notation pcT := (pc PK V).

(** ** reachability *)

Inductive reachable (cap : nat) : state -> Prop :=
| reach_init : reachable cap (cs_init cap)
| reach_step : forall s l s' ev,
    reachable cap s -> step keqb kmap s l = Some (s', ev) -> reachable cap s'.

Lemma run_trace_reachable : forall cap tr s s' evs,
  reachable cap s -> run_trace keqb kmap s tr = Some (s', evs) -> reachable cap s'.
Proof.
  intros cap tr. induction tr as [|l t IH]; intros s s' evs Hr Hrun; cbn [run_trace] in Hrun.
  - injection Hrun as <- _. exact Hr.
  - destruct (step keqb kmap s l) as [[s1 ev]|] eqn:Hs; [|discriminate].
    destruct (run_trace keqb kmap s1 t) as [[sf evs']|] eqn:Hrt; [|discriminate].
    injection Hrun as <- _. eapply IH; [|exact Hrt]. eapply reach_step; eassumption.
Qed.

(** ** small facts *)

Lemma upd_eq : forall (f : tid -> pcT) t x, upd f t x t = x.
Proof. intros f t x. unfold upd. rewrite Nat.eqb_refl. reflexivity. Qed.

Lemma upd_neq : forall (f : tid -> pcT) t x t0, t0 <> t -> upd f t x t0 = f t0.
Proof. intros f t x t0 Hn. unfold upd. destruct (Nat.eqb_spec t0 t); [contradiction|reflexivity]. Qed.

Lemma inflight_get_in : forall k ch (l : list (K * chan)),
  inflight_get keqb k l = Some ch -> In (k, ch) l.
Proof.
  intros k ch l. induction l as [|[k' c'] t IH]; cbn [inflight_get In]; intros H.
  - discriminate.
  - destruct (keqb_spec k k') as [He|Hn].
    + injection H as <-. left. congruence.
    + right. apply IH. exact H.
Qed.

Lemma inflight_get_none : forall k (l : list (K * chan)),
  inflight_get keqb k l = None -> ~ In k (map fst l).
Proof.
  intros k l. induction l as [|[k' c'] t IH]; cbn [inflight_get map In fst]; intros H.
  - intros [].
  - destruct (keqb_spec k k') as [He|Hn]; [discriminate|].
    intros [Hc|Hc]; [congruence|]. exact (IH H Hc).
Qed.

Lemma inflight_del_in : forall k k' ch (l : list (K * chan)),
  In (k', ch) (inflight_del keqb k l) <-> In (k', ch) l /\ k' <> k.
Proof.
  intros k k' ch l. unfold inflight_del. rewrite filter_In. cbn [fst].
  destruct (keqb_spec k k') as [He|Hn]; cbn [negb]; split; intros [H1 H2]; split; auto; congruence.
Qed.

Lemma nodup_filter_map : forall {A B} (f : A -> B) (p : A -> bool) (l : list A),
  NoDup (map f l) -> NoDup (map f (filter p l)).
Proof.
  intros A B f p l. induction l as [|a t IH]; cbn [filter map]; intros Hnd.
  - constructor.
  - inversion Hnd as [|? ? Hni Hnd']; subst. destruct (p a).
    + cbn [map]. constructor; [|apply IH; exact Hnd'].
      rewrite in_map_iff. intros [x [Hx Hi]]. apply filter_In in Hi. apply Hni.
      rewrite in_map_iff. exists x. tauto.
    + apply IH. exact Hnd'.
Qed.

Lemma nodup_fst_inj : forall {A B} (l : list (A * B)) a b1 b2,
  NoDup (map fst l) -> In (a, b1) l -> In (a, b2) l -> b1 = b2.
Proof.
  intros A B l a b1 b2. induction l as [|[a' b'] t IH]; cbn [map In fst]; intros Hnd H1 H2.
  - destruct H1.
  - inversion Hnd as [|? ? Hni Hnd']; subst.
    destruct H1 as [H1|H1]; destruct H2 as [H2|H2].
    + congruence.
    + injection H1 as -> ->. exfalso. apply Hni. rewrite in_map_iff. exists (a, b2). auto.
    + injection H2 as -> ->. exfalso. apply Hni. rewrite in_map_iff. exists (a, b1). auto.
    + apply IH; assumption.
Qed.

Lemma chan_closed_in : forall (s : state) ch, chan_closed s ch = true <-> In ch (cs_closed s).
Proof.
  intros s ch. unfold chan_closed. rewrite existsb_exists. split.
  - intros [x [Hx He]]. apply Nat.eqb_eq in He. subst. exact Hx.
  - intros H. exists ch. split; [exact H|apply Nat.eqb_refl].
Qed.

(** ** the control invariant: in-flight table, channels, program counters *)

Record ctl_inv (infl : list (K * chan)) (closed : list chan) (nextch : chan) (f : tid -> pcT) : Prop := mkCtl {
  ci_keys : NoDup (map fst infl);
  ci_chans : NoDup (map snd infl);
  ci_owner_reg : forall t pk ch, owner_of (f t) = Some (pk, ch) -> In (kmap pk, ch) infl;
  ci_reg_owner : forall k ch, In (k, ch) infl ->
                   exists t pk, owner_of (f t) = Some (pk, ch) /\ kmap pk = k;
  ci_open : forall k ch, In (k, ch) infl -> ch < nextch /\ ~ In ch closed;
  ci_closed_old : forall ch, In ch closed -> ch < nextch;
  ci_wait : forall t pk ch, f t = PWait pk ch -> In ch closed \/ In (kmap pk, ch) infl;
  ci_single : forall t1 t2 pk1 ch1 pk2 ch2,
      owner_of (f t1) = Some (pk1, ch1) -> owner_of (f t2) = Some (pk2, ch2) ->
      kmap pk1 = kmap pk2 -> t1 = t2
}.

(* a thread moves between program counters that neither own a creation nor newly wait *)
Lemma ctl_inv_upd : forall infl closed nextch f t x,
  ctl_inv infl closed nextch f ->
  owner_of x = owner_of (f t) ->
  (forall pk ch, x = PWait pk ch -> In ch closed \/ In (kmap pk, ch) infl) ->
  ctl_inv infl closed nextch (upd f t x).
Proof.
  intros infl closed nextch f t x [H1 H2 H3 H4 H5 H6 H7 H8] Ho Hw.
  assert (Hown : forall t0, owner_of (upd f t x t0) = owner_of (f t0)).
  { intros t0. destruct (Nat.eq_dec t0 t) as [->|Hn]; [rewrite upd_eq; exact Ho|rewrite upd_neq by exact Hn; reflexivity]. }
  constructor; auto.
  - intros t0 pk ch. rewrite Hown. apply H3.
  - intros k ch Hin. destruct (H4 k ch Hin) as [t0 [pk [Ha Hb]]]. exists t0, pk. rewrite Hown. auto.
  - intros t0 pk ch Hp. destruct (Nat.eq_dec t0 t) as [->|Hn].
    + rewrite upd_eq in Hp. apply Hw. exact Hp.
    + rewrite upd_neq in Hp by exact Hn. eapply H7. exact Hp.
  - intros t1 t2 pk1 ch1 pk2 ch2. rewrite !Hown. apply H8.
Qed.

(** ** the full invariant *)

Definition resident_of (s : state) : lru_state PK K V := om_abs (cs_items s).

Definition pending (s : state) : list (PK * V) :=
  flat_map (fun t => pending_of (cs_pc s t)) (cs_threads s).

Record inv (cap : nat) (s : state) : Prop := mkInv {
  inv_cap : cs_cap s = cap;
  inv_ctl : ctl_inv (cs_inflight s) (cs_closed s) (cs_nextch s) (cs_pc s);
  inv_wf : om_wf (cs_items s);
  inv_lru : lru_inv cap (resident_of s);
  inv_not_resident : forall k ch, In (k, ch) (cs_inflight s) -> lru_find keqb k (resident_of s) = None;
  inv_threads : NoDup (cs_threads s) /\ forall t, ~ In t (cs_threads s) -> cs_pc s t = PIdle;
  inv_account : Permutation (cs_created s)
                            (cs_deleted s ++ resident (resident_of s) ++ pending s)
}.

Lemma inv_init : forall cap, inv cap (cs_init cap).
Proof.
  intros cap. constructor; cbn.
  - reflexivity.
  - constructor; cbn; try (apply NoDup_nil); try (intros; contradiction); try (intros; discriminate).
  - apply wf_empty.
  - split; [apply NoDup_nil|cbn; lia].
  - intros k ch [].
  - split; [constructor|reflexivity].
  - constructor.
Qed.

(* pending values when one thread's program counter changes *)
Lemma pending_upd : forall (f : tid -> pcT) t x ts,
  NoDup ts -> In t ts ->
  Permutation (pending_of (f t) ++ flat_map (fun t0 => pending_of (upd f t x t0)) ts)
              (pending_of x ++ flat_map (fun t0 => pending_of (f t0)) ts).
Proof.
  intros f t x ts. induction ts as [|a r IH]; intros Hnd Hin; [destruct Hin|].
  inversion Hnd as [|? ? Hni Hnd']; subst. cbn [flat_map]. destruct Hin as [->|Hin].
  - rewrite upd_eq.
    assert (Hsame : flat_map (fun t0 => pending_of (upd f t x t0)) r
                    = flat_map (fun t0 => pending_of (f t0)) r).
    { clear - Hni. induction r as [|b r IH]; cbn [flat_map]; [reflexivity|].
      rewrite upd_neq by (intros ->; apply Hni; left; reflexivity).
      rewrite IH; [reflexivity|]. intros Hc. apply Hni. right. exact Hc. }
    rewrite Hsame. rewrite !app_assoc. apply Permutation_app_tail. apply Permutation_app_comm.
  - assert (Hne : a <> t) by (intros ->; exact (Hni Hin)).
    rewrite upd_neq by exact Hne.
    rewrite !app_assoc.
    eapply perm_trans; [apply Permutation_app_tail, Permutation_app_comm|].
    rewrite <- !app_assoc. eapply perm_trans; [apply Permutation_app_head, IH; assumption|].
    rewrite !app_assoc. apply Permutation_app_tail. apply Permutation_app_comm.
Qed.

Lemma pending_upd_none : forall (f : tid -> pcT) t x ts,
  pending_of (f t) = [] -> pending_of x = [] ->
  flat_map (fun t0 => pending_of (upd f t x t0)) ts = flat_map (fun t0 => pending_of (f t0)) ts.
Proof.
  intros f t x ts H1 H2. induction ts as [|a r IH]; cbn [flat_map]; [reflexivity|].
  rewrite IH. f_equal. destruct (Nat.eq_dec a t) as [->|Hn].
  - rewrite upd_eq. congruence.
  - rewrite upd_neq by exact Hn. reflexivity.
Qed.

Lemma threads_upd : forall (f : tid -> pcT) t x ts,
  (NoDup ts /\ forall t0, ~ In t0 ts -> f t0 = PIdle) -> In t ts ->
  NoDup ts /\ forall t0, ~ In t0 ts -> upd f t x t0 = PIdle.
Proof.
  intros f t x ts [H1 H2] Hin. split; [exact H1|]. intros t0 Hn.
  rewrite upd_neq by (intros ->; exact (Hn Hin)). apply H2. exact Hn.
Qed.

Lemma not_idle_in_threads : forall cap s t, inv cap s -> cs_pc s t <> PIdle -> In t (cs_threads s).
Proof.
  intros cap s t Hi Hn. destruct (in_dec Nat.eq_dec t (cs_threads s)) as [Hin|Hout]; [exact Hin|].
  exfalso. apply Hn. apply (proj2 (inv_threads _ _ Hi)). exact Hout.
Qed.

(** ** preservation, by kind of state change *)

(* only one program counter changes (and possibly a value is recorded as created) *)
Definition set_pc_cr (s : state) (t : tid) (x : pcT) (cr : list (PK * V)) : state :=
  mkCS (cs_items s) (cs_cap s) (cs_inflight s) (cs_closed s) (cs_nextch s)
       (upd (cs_pc s) t x) cr (cs_deleted s) (cs_threads s).

Lemma inv_set_pc : forall cap s t x cr,
  inv cap s -> In t (cs_threads s) ->
  owner_of x = owner_of (cs_pc s t) ->
  (forall pk ch, x = PWait pk ch -> In ch (cs_closed s) \/ In (kmap pk, ch) (cs_inflight s)) ->
  pending_of (cs_pc s t) = [] ->
  cr = cs_created s ++ pending_of x ->
  inv cap (set_pc_cr s t x cr).
Proof.
  intros cap s t x cr [Hcap Hctl Hwf Hlru Hnr Hth Hacc] Hin Ho Hw Hp Hcr.
  constructor; cbn [set_pc_cr cs_cap cs_inflight cs_closed cs_nextch cs_pc cs_items cs_threads
                    cs_created cs_deleted]; auto.
  - apply ctl_inv_upd; assumption.
  - apply threads_upd; assumption.
  - subst cr. unfold pending. cbn [cs_pc cs_threads set_pc_cr].
    pose proof (pending_upd (cs_pc s) t x (cs_threads s) (proj1 Hth) Hin) as Hpu.
    rewrite Hp in Hpu. cbn [app] in Hpu.
    eapply perm_trans; [apply Permutation_app_tail; exact Hacc|].
    rewrite <- !app_assoc. apply Permutation_app_head. apply Permutation_app_head.
    eapply perm_trans; [apply Permutation_app_comm|]. apply Permutation_sym. exact Hpu.
Qed.

(* only the cache contents change (inside a critical section), keys do not grow *)
Definition with_items (s : state) (it' : omap K (PK * V)) (del' : list (PK * V)) : state :=
  mkCS it' (cs_cap s) (cs_inflight s) (cs_closed s) (cs_nextch s)
       (cs_pc s) (cs_created s) del' (cs_threads s).

Lemma inv_with_items : forall cap s it' del',
  inv cap s -> om_wf it' -> lru_inv cap (om_abs it') ->
  (forall k, lru_find keqb k (resident_of s) = None -> lru_find keqb k (om_abs it') = None) ->
  Permutation (cs_deleted s ++ resident (resident_of s)) (del' ++ resident (om_abs it')) ->
  inv cap (with_items s it' del').
Proof.
  intros cap s it' del' [Hcap Hctl Hwf Hlru Hnr Hth Hacc] Hwf' Hlru' Hkeys Hperm.
  constructor; cbn [with_items cs_cap cs_inflight cs_closed cs_nextch cs_pc cs_items cs_threads
                    cs_created cs_deleted]; auto.
  - intros k ch Hin. apply Hkeys. eapply Hnr. exact Hin.
  - unfold pending, resident_of in *. cbn [cs_pc cs_threads cs_items with_items].
    eapply perm_trans; [exact Hacc|]. rewrite !app_assoc. apply Permutation_app_tail. exact Hperm.
Qed.

(** ** what the critical sections do to the resident entries *)

Lemma lru_find_some_in : forall k x (l : lru_state PK K V),
  lru_find keqb k l = Some x -> In k (map fst l).
Proof.
  intros k x l. induction l as [|[k' y] t IH]; cbn [lru_find map In fst]; intros H.
  - discriminate.
  - destruct (keqb_spec k k') as [He|Hn]; [left; congruence|right; apply IH; exact H].
Qed.

Lemma keys_find_none : forall (l l' : lru_state PK K V),
  (forall k, In k (map fst l') -> In k (map fst l)) ->
  forall k, lru_find keqb k l = None -> lru_find keqb k l' = None.
Proof.
  intros l l' Hincl k Hf. apply (lru_find_none keqb keqb_spec).
  intros Hc. apply (lru_find_none keqb keqb_spec k l); [exact Hf|]. apply Hincl. exact Hc.
Qed.

Lemma hit_facts : forall cap (it : omap K (PK * V)) pk v it',
  om_wf it -> lru_inv cap (om_abs it) -> sec_lookup keqb kmap it pk = Some (v, it') ->
  om_wf it' /\ lru_inv cap (om_abs it') /\
  (forall k, In k (map fst (om_abs it')) -> In k (map fst (om_abs it))) /\
  Permutation (resident (om_abs it)) (resident (om_abs it')).
Proof.
  intros cap it pk v it' Hwf Hlru Hl.
  destruct (lru_find keqb (kmap pk) (om_abs it)) as [x|] eqn:Hf.
  2:{ erewrite lookup_miss in Hl by exact Hf. discriminate. }
  destruct (lookup_hit keqb keqb_spec kmap it pk x Hwf Hf) as [it2 [Hl2 [Hwf2 Habs2]]].
  rewrite Hl2 in Hl. injection Hl as _ <-.
  pose proof (get_facts keqb keqb_spec kmap cap (om_abs it) pk None Hlru) as Hg.
  unfold lru_get in Hg. rewrite Hf in Hg. destruct x as [pk0 v0]. rewrite <- Habs2 in Hg.
  destruct Hg as [Hi Hb]. unfold balanced in Hb. cbn [created_ok deleted app] in Hb.
  rewrite app_nil_r in Hb.
  split; [exact Hwf2|]. split; [exact Hi|]. split; [|exact Hb].
  intros k. rewrite Habs2, map_app, in_app_iff. cbn [map fst In].
  intros [Hc|[<-|[]]].
  - eapply lru_del_keys_incl. exact Hc.
  - eapply lru_find_some_in. exact Hf.
Qed.

Lemma insert_facts : forall cap (it : omap K (PK * V)) pk v it' d,
  om_wf it -> lru_inv cap (om_abs it) -> lru_find keqb (kmap pk) (om_abs it) = None ->
  sec_insert keqb kmap cap it pk v = (it', d) ->
  om_wf it' /\ lru_inv cap (om_abs it') /\
  (forall k, In k (map fst (om_abs it')) -> k = kmap pk \/ In k (map fst (om_abs it))) /\
  Permutation (resident (om_abs it) ++ [(pk, v)]) (d ++ resident (om_abs it')).
Proof.
  intros cap it pk v it' d Hwf Hlru Hf Hins.
  assert (Hg0 : om_get keqb it (kmap pk) = None) by (rewrite get_abs; exact Hf).
  pose proof (insert_spec keqb keqb_spec kmap cap it pk v Hwf Hg0) as Hs.
  rewrite Hins in Hs. cbn zeta in Hs. destruct Hs as [Hwf' Hs].
  pose proof (get_facts keqb keqb_spec kmap cap (om_abs it) pk (Some v) Hlru) as Hg.
  unfold lru_get in Hg. rewrite Hf in Hg.
  destruct (cap <? length (om_abs it ++ [(kmap pk, (pk, v))]))%nat.
  - destruct (om_abs it ++ [(kmap pk, (pk, v))]) as [|[kd [pkd vd]] t] eqn:Hl; [contradiction|].
    destruct Hs as [Ha ->]. rewrite Ha. destruct Hg as [Hi Hb].
    split; [exact Hwf'|]. split; [exact Hi|]. split.
    + intros k Hin.
      assert (Hin' : In k (map fst (om_abs it ++ [(kmap pk, (pk, v))]))) by (rewrite Hl; right; exact Hin).
      rewrite map_app, in_app_iff in Hin'. cbn [map fst In] in Hin'.
      destruct Hin' as [Hc|[Hc|[]]]; [right; exact Hc|left; congruence].
    + unfold balanced in Hb. cbn [created_ok deleted app] in Hb. exact Hb.
  - destruct Hs as [Ha ->]. rewrite Ha. destruct Hg as [Hi Hb].
    split; [exact Hwf'|]. split; [exact Hi|]. split.
    + intros k. rewrite map_app, in_app_iff. cbn [map fst In].
      intros [Hc|[Hc|[]]]; [right; exact Hc|left; congruence].
    + unfold balanced in Hb. cbn [created_ok deleted app] in Hb. exact Hb.
Qed.

Lemma remove_facts_c : forall cap (it : omap K (PK * V)) pk it' b d,
  om_wf it -> lru_inv cap (om_abs it) -> sec_remove keqb kmap it pk = (it', b, d) ->
  om_wf it' /\ lru_inv cap (om_abs it') /\
  (forall k, In k (map fst (om_abs it')) -> In k (map fst (om_abs it))) /\
  Permutation (resident (om_abs it)) (d ++ resident (om_abs it')).
Proof.
  intros cap it pk it' b d Hwf Hlru Hr.
  pose proof (remove_spec keqb kmap it pk Hwf) as Hs. rewrite Hr in Hs.
  destruct Hs as [Hwf' Hs].
  pose proof (remove_facts keqb keqb_spec kmap cap (om_abs it) pk Hlru) as Hg.
  unfold lru_remove in Hg.
  destruct (lru_find keqb (kmap pk) (om_abs it)) as [[pk0 v0]|].
  - destruct Hs as [Ha [-> ->]]. rewrite Ha. destruct Hg as [Hi Hb].
    split; [exact Hwf'|]. split; [exact Hi|]. split.
    + intros k Hc. eapply lru_del_keys_incl. exact Hc.
    + unfold balanced in Hb. cbn [created_ok deleted app] in Hb. rewrite app_nil_r in Hb. exact Hb.
  - destruct Hs as [Ha [-> ->]]. rewrite Ha.
    split; [exact Hwf'|]. split; [exact Hlru|]. split; [auto|apply Permutation_refl].
Qed.

Lemma clear_facts_c : forall cap (it : omap K (PK * V)) it' n d oof,
  om_wf it -> sec_clear keqb it = (it', n, d, oof) ->
  oof = false /\ om_wf it' /\ lru_inv cap (om_abs it') /\ om_abs it' = [] /\
  n = length (om_abs it) /\ d = resident (om_abs it).
Proof.
  intros cap it it' n d oof Hwf Hc. rewrite (clear_spec keqb keqb_spec it Hwf) in Hc.
  injection Hc as <- <- <- <-.
  split; [reflexivity|]. split; [apply wf_cleared|].
  split; [split; [apply NoDup_nil|cbn; lia]|]. split; [reflexivity|]. split; [reflexivity|].
  unfold resident, om_abs, abs_ents. rewrite map_map. reflexivity.
Qed.

Lemma nodup_snd_inj : forall {A B} (l : list (A * B)) a1 a2 b,
  NoDup (map snd l) -> In (a1, b) l -> In (a2, b) l -> a1 = a2.
Proof.
  intros A B l a1 a2 b. induction l as [|[a' b'] t IH]; cbn [map In snd]; intros Hnd H1 H2.
  - destruct H1.
  - inversion Hnd as [|? ? Hni Hnd']; subst.
    destruct H1 as [H1|H1]; destruct H2 as [H2|H2].
    + congruence.
    + injection H1 as -> ->. exfalso. apply Hni. rewrite in_map_iff. exists (a2, b). auto.
    + injection H2 as -> ->. exfalso. apply Hni. rewrite in_map_iff. exists (a1, b). auto.
    + apply IH; assumption.
Qed.

(** ** the three transitions that change the in-flight table or add a thread *)

Lemma inv_invoke_new : forall cap s t o,
  inv cap s -> ~ In t (cs_threads s) -> cs_pc s t = PIdle ->
  inv cap (mkCS (cs_items s) (cs_cap s) (cs_inflight s) (cs_closed s) (cs_nextch s)
                (upd (cs_pc s) t (PPend o)) (cs_created s) (cs_deleted s) (t :: cs_threads s)).
Proof.
  intros cap s t o [Hcap Hctl Hwf Hlru Hnr Hth Hacc] Hnin Hpc.
  constructor; cbn [cs_cap cs_inflight cs_closed cs_nextch cs_pc cs_items cs_threads
                    cs_created cs_deleted]; auto.
  - apply ctl_inv_upd; [exact Hctl|rewrite Hpc; reflexivity|intros; discriminate].
  - destruct Hth as [H1 H2]. split; [constructor; assumption|].
    intros t0 Hn. rewrite upd_neq by (intros ->; apply Hn; left; reflexivity).
    apply H2. intros Hc. apply Hn. right. exact Hc.
  - unfold pending in *. cbn [cs_pc cs_threads flat_map]. rewrite upd_eq. cbn [pending_of app].
    rewrite pending_upd_none; [exact Hacc|rewrite Hpc; reflexivity|reflexivity].
Qed.

Lemma inv_register : forall cap s t pk,
  inv cap s -> cs_pc s t = PPend (CGet pk) ->
  sec_lookup keqb kmap (cs_items s) pk = None ->
  inflight_get keqb (kmap pk) (cs_inflight s) = None ->
  inv cap (mkCS (cs_items s) (cs_cap s) ((kmap pk, cs_nextch s) :: cs_inflight s) (cs_closed s)
                (S (cs_nextch s)) (upd (cs_pc s) t (PCreating pk (cs_nextch s)))
                (cs_created s) (cs_deleted s) (cs_threads s)).
Proof.
  intros cap s t pk Hi Hpc Hl Hg.
  pose proof (not_idle_in_threads cap s t Hi) as Hin. rewrite Hpc in Hin.
  specialize (Hin ltac:(discriminate)).
  destruct Hi as [Hcap Hctl Hwf Hlru Hnr Hth Hacc].
  pose proof (inflight_get_none _ _ Hg) as Hkn.
  destruct Hctl as [H1 H2 H3 H4 H5 H6 H7 H8].
  assert (Hnot : owner_of (cs_pc s t) = None) by (rewrite Hpc; reflexivity).
  assert (Hnk : lru_find keqb (kmap pk) (resident_of s) = None).
  { unfold resident_of. rewrite <- get_abs. unfold sec_lookup in Hl.
    destruct (om_get keqb (cs_items s) (kmap pk)); [discriminate|reflexivity]. }
  constructor; cbn [cs_cap cs_inflight cs_closed cs_nextch cs_pc cs_items cs_threads
                    cs_created cs_deleted]; auto.
  - constructor; cbn [map fst snd].
    + constructor; assumption.
    + constructor; [|exact H2]. rewrite in_map_iff. intros [[k0 c0] [He Hi0]]. cbn [snd] in He. subst c0.
      destruct (H5 _ _ Hi0) as [Hlt _]. lia.
    + intros t0 pk0 ch0 Ho. destruct (Nat.eq_dec t0 t) as [->|Hn].
      * rewrite upd_eq in Ho. cbn [owner_of] in Ho. injection Ho as <- <-. left. reflexivity.
      * rewrite upd_neq in Ho by exact Hn. right. eapply H3. exact Ho.
    + intros k0 ch0 [Hhd|Htl].
      * injection Hhd as <- <-. exists t, pk. rewrite upd_eq. auto.
      * destruct (H4 _ _ Htl) as [t0 [pk0 [Ha Hb]]]. exists t0, pk0.
        rewrite upd_neq; [auto|]. intros ->. congruence.
    + intros k0 ch0 [Hhd|Htl].
      * injection Hhd as <- <-. split; [lia|]. intros Hc. apply H6 in Hc. lia.
      * destruct (H5 _ _ Htl) as [Ha Hb]. split; [lia|exact Hb].
    + intros ch0 Hc. apply H6 in Hc. lia.
    + intros t0 pk0 ch0 Hp. destruct (Nat.eq_dec t0 t) as [->|Hn].
      * rewrite upd_eq in Hp. discriminate.
      * rewrite upd_neq in Hp by exact Hn. destruct (H7 _ _ _ Hp) as [Hc|Hc]; [left; exact Hc|right; right; exact Hc].
    + intros t1 t2 pk1 ch1 pk2 ch2 Ho1 Ho2 Hk.
      destruct (Nat.eq_dec t1 t) as [->|Hn1]; destruct (Nat.eq_dec t2 t) as [->|Hn2]; try reflexivity.
      * rewrite upd_eq in Ho1. rewrite upd_neq in Ho2 by exact Hn2. cbn [owner_of] in Ho1.
        injection Ho1 as <- <-. exfalso. apply Hkn. apply H3 in Ho2.
        rewrite in_map_iff. exists (kmap pk2, ch2). split; [cbn; congruence|exact Ho2].
      * rewrite upd_eq in Ho2. rewrite upd_neq in Ho1 by exact Hn1. cbn [owner_of] in Ho2.
        injection Ho2 as <- <-. exfalso. apply Hkn. apply H3 in Ho1.
        rewrite in_map_iff. exists (kmap pk1, ch1). split; [cbn; congruence|exact Ho1].
      * rewrite upd_neq in Ho1 by exact Hn1. rewrite upd_neq in Ho2 by exact Hn2. eapply H8; eassumption.
  - intros k0 ch0 [Hhd|Htl].
    + injection Hhd as <- <-. exact Hnk.
    + eapply Hnr. exact Htl.
  - apply threads_upd; assumption.
  - unfold pending in *. cbn [cs_pc cs_threads].
    rewrite pending_upd_none; [exact Hacc|rewrite Hpc; reflexivity|reflexivity].
Qed.

(* the control part of the second section: close(ch); delete(inflight, k) *)
Lemma ctl_secB : forall s t pk ch res r,
  ctl_inv (cs_inflight s) (cs_closed s) (cs_nextch s) (cs_pc s) ->
  cs_pc s t = PInB pk ch res ->
  ctl_inv (inflight_del keqb (kmap pk) (cs_inflight s)) (ch :: cs_closed s) (cs_nextch s)
          (upd (cs_pc s) t (PDone r)).
Proof.
  intros s t pk ch res r [H1 H2 H3 H4 H5 H6 H7 H8] Hpc.
  assert (Hown : owner_of (cs_pc s t) = Some (pk, ch)) by (rewrite Hpc; reflexivity).
  pose proof (H3 _ _ _ Hown) as Hmine.
  constructor.
  - apply nodup_filter_map. exact H1.
  - apply nodup_filter_map. exact H2.
  - intros t0 pk0 ch0 Ho. destruct (Nat.eq_dec t0 t) as [->|Hn].
    + rewrite upd_eq in Ho. discriminate.
    + rewrite upd_neq in Ho by exact Hn. apply inflight_del_in. split; [eapply H3; exact Ho|].
      intros Hk. apply Hn. eapply H8; eassumption.
  - intros k0 ch0 Hin. apply inflight_del_in in Hin. destruct Hin as [Hin Hk].
    destruct (H4 _ _ Hin) as [t0 [pk0 [Ha Hb]]]. exists t0, pk0.
    rewrite upd_neq; [auto|]. intros ->. rewrite Hown in Ha. injection Ha as -> ->. congruence.
  - intros k0 ch0 Hin. apply inflight_del_in in Hin. destruct Hin as [Hin Hk].
    destruct (H5 _ _ Hin) as [Ha Hb]. split; [exact Ha|].
    intros [Hc|Hc]; [|exact (Hb Hc)]. subst ch0. apply Hk.
    eapply nodup_snd_inj; eassumption.
  - intros ch0 [<-|Hc]; [apply (H5 _ _ Hmine)|apply H6; exact Hc].
  - intros t0 pk0 ch0 Hp. destruct (Nat.eq_dec t0 t) as [->|Hn].
    + rewrite upd_eq in Hp. discriminate.
    + rewrite upd_neq in Hp by exact Hn. destruct (H7 _ _ _ Hp) as [Hc|Hc].
      * left. right. exact Hc.
      * destruct (keqb_spec (kmap pk0) (kmap pk)) as [He|Hne].
        -- left. left. rewrite He in Hc. eapply nodup_fst_inj; eassumption.
        -- right. apply inflight_del_in. auto.
  - intros t1 t2 pk1 ch1 pk2 ch2 Ho1 Ho2 Hk.
    destruct (Nat.eq_dec t1 t) as [->|Hn1]; [rewrite upd_eq in Ho1; discriminate|].
    destruct (Nat.eq_dec t2 t) as [->|Hn2]; [rewrite upd_eq in Ho2; discriminate|].
    rewrite upd_neq in Ho1 by exact Hn1. rewrite upd_neq in Ho2 by exact Hn2. eapply H8; eassumption.
Qed.

Lemma inv_secB_failed : forall cap s t pk ch,
  inv cap s -> cs_pc s t = PInB pk ch None ->
  inv cap (mkCS (cs_items s) (cs_cap s) (inflight_del keqb (kmap pk) (cs_inflight s))
                (ch :: cs_closed s) (cs_nextch s) (upd (cs_pc s) t (PDone RErr))
                (cs_created s) (cs_deleted s) (cs_threads s)).
Proof.
  intros cap s t pk ch Hi Hpc.
  pose proof (not_idle_in_threads cap s t Hi) as Hin. rewrite Hpc in Hin.
  specialize (Hin ltac:(discriminate)).
  destruct Hi as [Hcap Hctl Hwf Hlru Hnr Hth Hacc].
  constructor; cbn [cs_cap cs_inflight cs_closed cs_nextch cs_pc cs_items cs_threads
                    cs_created cs_deleted]; auto.
  - eapply ctl_secB; eassumption.
  - intros k0 ch0 Hi0. apply inflight_del_in in Hi0. eapply Hnr. apply Hi0.
  - apply threads_upd; assumption.
  - unfold pending in *. cbn [cs_pc cs_threads].
    rewrite pending_upd_none; [exact Hacc|rewrite Hpc; reflexivity|reflexivity].
Qed.

Lemma inv_secB_ok : forall cap s t pk ch v it' d,
  inv cap s -> cs_pc s t = PInB pk ch (Some v) ->
  sec_insert keqb kmap (cs_cap s) (cs_items s) pk v = (it', d) ->
  inv cap (mkCS it' (cs_cap s) (inflight_del keqb (kmap pk) (cs_inflight s))
                (ch :: cs_closed s) (cs_nextch s) (upd (cs_pc s) t (PDone (RVal v)))
                (cs_created s) (cs_deleted s ++ d) (cs_threads s)).
Proof.
  intros cap s t pk ch v it' d Hi Hpc Hins.
  pose proof (not_idle_in_threads cap s t Hi) as Hin. rewrite Hpc in Hin.
  specialize (Hin ltac:(discriminate)).
  destruct Hi as [Hcap Hctl Hwf Hlru Hnr Hth Hacc].
  assert (Hown : owner_of (cs_pc s t) = Some (pk, ch)) by (rewrite Hpc; reflexivity).
  pose proof (ci_owner_reg _ _ _ _ Hctl _ _ _ Hown) as Hmine.
  pose proof (Hnr _ _ Hmine) as Hnk.
  rewrite Hcap in Hins.
  destruct (insert_facts cap (cs_items s) pk v it' d Hwf Hlru Hnk Hins) as [Hwf' [Hlru' [Hkeys Hperm]]].
  constructor; cbn [cs_cap cs_inflight cs_closed cs_nextch cs_pc cs_items cs_threads
                    cs_created cs_deleted]; auto.
  - eapply ctl_secB; eassumption.
  - intros k0 ch0 Hi0. apply inflight_del_in in Hi0. destruct Hi0 as [Hi0 Hne].
    unfold resident_of. cbn [cs_items]. apply (lru_find_none keqb keqb_spec).
    intros Hc. destruct (Hkeys _ Hc) as [He|Hold]; [exact (Hne He)|].
    apply (lru_find_none keqb keqb_spec k0 (resident_of s)); [eapply Hnr; exact Hi0|exact Hold].
  - apply threads_upd; assumption.
  - unfold pending, resident_of in *. cbn [cs_pc cs_threads cs_items].
    pose proof (pending_upd (cs_pc s) t (PDone (RVal v)) (cs_threads s) (proj1 Hth) Hin) as Hpu.
    rewrite Hpc in Hpu. cbn [pending_of app] in Hpu.
    set (P' := flat_map (fun t0 => pending_of (upd (cs_pc s) t (PDone (RVal v)) t0)) (cs_threads s)) in *.
    set (P := flat_map (fun t0 => pending_of (cs_pc s t0)) (cs_threads s)) in *.
    set (R := resident (om_abs (cs_items s))) in *. set (R' := resident (om_abs it')) in *.
    eapply perm_trans; [exact Hacc|].
    rewrite <- app_assoc. apply Permutation_app_head.
    (* R ++ P ~ d ++ R' ++ P' *)
    eapply perm_trans; [apply Permutation_app_head, Permutation_sym; exact Hpu|].
    (* R ++ (pk,v) :: P' *)
    change ((pk, v) :: P') with ([(pk, v)] ++ P'). rewrite !app_assoc.
    apply Permutation_app_tail. exact Hperm.
Qed.

(** ** the invariant is inductive *)

Lemma inv_step : forall cap s l s' ev,
  inv cap s -> step keqb kmap s l = Some (s', ev) -> inv cap s'.
Proof.
  intros cap s l s' ev Hi Hs. unfold step in Hs.
  destruct l as [t o|t|t res|t|t|t|t|t];
    destruct (cs_pc s t) as [|o'|pk ch|pk ch|pk ch r|r] eqn:Hpc; try discriminate Hs.
  - (* Invoke *)
    injection Hs as <- <-. destruct (existsb (Nat.eqb t) (cs_threads s)) eqn:He.
    + apply existsb_exists in He. destruct He as [x [Hx He]]. apply Nat.eqb_eq in He. subst x.
      change (inv cap (set_pc_cr s t (PPend o) (cs_created s))).
      apply inv_set_pc; auto.
      * rewrite Hpc. reflexivity.
      * intros; discriminate.
      * rewrite Hpc. reflexivity.
      * cbn [pending_of]. rewrite app_nil_r. reflexivity.
    + apply inv_invoke_new; auto. intros Hc.
      assert (existsb (Nat.eqb t) (cs_threads s) = true); [|congruence].
      apply existsb_exists. exists t. split; [exact Hc|apply Nat.eqb_refl].
  - (* SecA *)
    destruct o' as [pk| |]; try discriminate Hs.
    assert (Hin : In t (cs_threads s)).
    { eapply not_idle_in_threads; [exact Hi|]. rewrite Hpc. discriminate. }
    destruct (sec_lookup keqb kmap (cs_items s) pk) as [[v it']|] eqn:Hl.
    + injection Hs as <- <-.
      destruct (hit_facts cap (cs_items s) pk v it' (inv_wf _ _ Hi) (inv_lru _ _ Hi) Hl)
        as [Hwf' [Hlru' [Hkeys Hperm]]].
      change (inv cap (set_pc_cr (with_items s it' (cs_deleted s)) t (PDone (RVal v)) (cs_created s))).
      apply inv_set_pc; cbn [with_items cs_threads cs_pc cs_closed cs_inflight cs_created]; auto.
      * apply inv_with_items; auto.
        -- apply keys_find_none. exact Hkeys.
        -- apply Permutation_app_head. exact Hperm.
      * rewrite Hpc. reflexivity.
      * intros; discriminate.
      * rewrite Hpc. reflexivity.
      * cbn [pending_of]. rewrite app_nil_r. reflexivity.
    + destruct (inflight_get keqb (kmap pk) (cs_inflight s)) as [ch|] eqn:Hg.
      * injection Hs as <- <-.
        change (inv cap (set_pc_cr s t (PWait pk ch) (cs_created s))).
        apply inv_set_pc; auto.
        -- rewrite Hpc. reflexivity.
        -- intros pk0 ch0 He. injection He as <- <-. right. apply inflight_get_in. exact Hg.
        -- rewrite Hpc. reflexivity.
        -- cbn [pending_of]. rewrite app_nil_r. reflexivity.
      * injection Hs as <- <-. apply inv_register; auto.
  - (* CreateRet *)
    injection Hs as <- <-.
    assert (Hin : In t (cs_threads s)).
    { eapply not_idle_in_threads; [exact Hi|]. rewrite Hpc. discriminate. }
    change (inv cap (set_pc_cr s t (PInB pk ch res)
                       (match res with Some v => cs_created s ++ [(pk, v)] | None => cs_created s end))).
    apply inv_set_pc; auto.
    + rewrite Hpc. reflexivity.
    + intros; discriminate.
    + rewrite Hpc. reflexivity.
    + destruct res as [v|]; cbn [pending_of]; [reflexivity|rewrite app_nil_r; reflexivity].
  - (* SecB *)
    destruct r as [v|].
    + destruct (sec_insert keqb kmap (cs_cap s) (cs_items s) pk v) as [it' d] eqn:Hins.
      injection Hs as <- <-. eapply inv_secB_ok; eassumption.
    + injection Hs as <- <-. eapply inv_secB_failed; eassumption.
  - (* Wake *)
    destruct (chan_closed s ch); [|discriminate Hs]. injection Hs as <- <-.
    assert (Hin : In t (cs_threads s)).
    { eapply not_idle_in_threads; [exact Hi|]. rewrite Hpc. discriminate. }
    change (inv cap (set_pc_cr s t (PPend (CGet pk)) (cs_created s))).
    apply inv_set_pc; auto.
    + rewrite Hpc. reflexivity.
    + intros; discriminate.
    + rewrite Hpc. reflexivity.
    + cbn [pending_of]. rewrite app_nil_r. reflexivity.
  - (* SecRemove *)
    destruct o' as [|pk|]; try discriminate Hs.
    assert (Hin : In t (cs_threads s)).
    { eapply not_idle_in_threads; [exact Hi|]. rewrite Hpc. discriminate. }
    destruct (sec_remove keqb kmap (cs_items s) pk) as [[it' b] d] eqn:Hr.
    injection Hs as <- <-.
    destruct (remove_facts_c cap (cs_items s) pk it' b d (inv_wf _ _ Hi) (inv_lru _ _ Hi) Hr)
      as [Hwf' [Hlru' [Hkeys Hperm]]].
    change (inv cap (set_pc_cr (with_items s it' (cs_deleted s ++ d)) t (PDone (RBool b)) (cs_created s))).
    apply inv_set_pc; cbn [with_items cs_threads cs_pc cs_closed cs_inflight cs_created]; auto.
    + apply inv_with_items; auto.
      * apply keys_find_none. exact Hkeys.
      * rewrite <- app_assoc. apply Permutation_app_head. exact Hperm.
    + rewrite Hpc. reflexivity.
    + intros; discriminate.
    + rewrite Hpc. reflexivity.
    + cbn [pending_of]. rewrite app_nil_r. reflexivity.
  - (* SecClear *)
    destruct o' as [| |]; try discriminate Hs.
    assert (Hin : In t (cs_threads s)).
    { eapply not_idle_in_threads; [exact Hi|]. rewrite Hpc. discriminate. }
    destruct (sec_clear keqb (cs_items s)) as [[[it' n] d] oof] eqn:Hc.
    destruct (clear_facts_c cap (cs_items s) it' n d oof (inv_wf _ _ Hi) Hc)
      as [-> [Hwf' [Hlru' [Hempty [Hn Hd]]]]].
    injection Hs as <- <-.
    change (inv cap (set_pc_cr (with_items s it' (cs_deleted s ++ d)) t (PDone (RCount n)) (cs_created s))).
    apply inv_set_pc; cbn [with_items cs_threads cs_pc cs_closed cs_inflight cs_created]; auto.
    + apply inv_with_items; auto.
      * intros k _. rewrite Hempty. reflexivity.
      * rewrite Hempty, Hd. cbn [resident map]. rewrite app_nil_r. apply Permutation_refl.
    + rewrite Hpc. reflexivity.
    + intros; discriminate.
    + rewrite Hpc. reflexivity.
    + cbn [pending_of]. rewrite app_nil_r. reflexivity.
  - (* Return *)
    injection Hs as <- <-.
    assert (Hin : In t (cs_threads s)).
    { eapply not_idle_in_threads; [exact Hi|]. rewrite Hpc. discriminate. }
    change (inv cap (set_pc_cr s t PIdle (cs_created s))).
    apply inv_set_pc; auto.
    + rewrite Hpc. reflexivity.
    + intros; discriminate.
    + rewrite Hpc. reflexivity.
    + cbn [pending_of]. rewrite app_nil_r. reflexivity.
Qed.

Theorem reachable_inv : forall cap s, reachable cap s -> inv cap s.
Proof.
  intros cap s Hr. induction Hr as [|s l s' ev Hr IH Hs].
  - apply inv_init.
  - eapply inv_step; eassumption.
Qed.

End Conc.
