(** C04: the ranking argument behind "hand-off reaches everyone".

    In a run of INTERNAL steps (the steps the implementation takes by itself: no new call, no
    cancellation, no shutdown, no fault, no renewal, no expiry) in which nobody becomes a holder,
    a measure over the (finitely many) threads that are inside a call strictly decreases with
    every step.  So such a run has at most [rank] steps: the retry loop
    Create -> ErrExist -> WaitForVersionChange -> Create of a waiter goes round only when the
    record changed in between, and without a new holder the record changes only by the Delete
    of an Unlock that is already in progress - each of those happens once.

    Together with [no_deadlock] (nothing enabled and nobody holds => everybody is Idle): every
    maximal internal run from a reachable state either makes somebody a holder within [rank]
    steps, or ends within [rank] steps with every call returned; and a blocking attempt that is
    not cancelled on a live provider can only return as a holder ([blocking_attempt_stays]). *)
From Coq Require Import List Arith Bool NArith Lia.
From GL Require Import model.LockLTS proofs.C01_Exclusion proofs.C01_Tokens proofs.C04_Residue.
Import ListNotations.

(** ** a small invariant of ALL steps: Lock() has no context to cancel; TryLock never waits *)

Definition kind_of (p : pc) : option kind :=
  match p with
  | LocalWait _ k | HasToken _ k | CreateIssued _ k | WaitVer _ k _ => Some k
  | _ => None
  end.

Definition kinv (s : state) : Prop :=
  (forall t, kind_of (pc_of s t) = Some KLock -> ctx_of s t = false) /\
  (forall t L k v, pc_of s t = WaitVer L k v -> k <> KTry).

Lemma kinv_init : forall lp, kinv (init lp).
Proof. intros lp. split; cbn; intros; discriminate. Qed.

Lemma kinv_step : forall s l s', kinv s -> step s l = Some s' -> kinv s'.
Proof.
  intros s l s' [Ka Kb] H.
  destruct l; step_inv H;
    (split;
     [ intros tq Hk; specialize (Ka tq); unfold pc_of, ctx_of, set_pc, cancel_timer in *; cbn in *;
       repeat match goal with |- context [tm_st ?x] => destruct (tm_st x) end; cbn in *;
       upd_split; cbn in *;
       repeat match goal with Hp : t_pc _ = _ |- _ => rewrite Hp in * end; cbn in *;
       try congruence; auto;
       try (match goal with Hq : kind_eqb ?k KLock = false |- _ => destruct k; cbn in *; congruence end)
     | intros tq Lq kq vq Hp0; specialize (Kb tq); unfold pc_of, ctx_of, set_pc, cancel_timer in *; cbn in *;
       repeat match goal with |- context [tm_st ?x] => destruct (tm_st x) end;
       repeat match goal with Hx : context [tm_st ?x] |- _ => destruct (tm_st x) end; cbn in *;
       upd_split; cbn in *;
       repeat match goal with Hp : t_pc _ = _ |- _ => rewrite Hp in * end; cbn in *;
       try congruence; eauto;
       try (injection Hp0 as <- <- <-; congruence) ]).
Qed.

Lemma kinv_run : forall tr s s', kinv s -> run s tr = Some s' -> kinv s'.
Proof.
  induction tr as [|l tr IH]; intros s s' K Hr; cbn in Hr.
  - injection Hr as <-. exact K.
  - destruct (step s l) as [s1|] eqn:Hs; [|discriminate].
    eapply IH; [|exact Hr]. eapply kinv_step; eauto.
Qed.

(** ** the measure *)

Definition cancelled (k : kind) (x : bool) : bool := kind_eqb k KCtx && x.

Definition changedb (r : option (ver * tenure)) (v : ver) : bool :=
  match r with None => true | Some (v', _) => negb (N.eqb v' v) end.

(** weight of one thread: the number of internal steps it can still take before it either
    needs the record to change or is back to Idle *)
Definition baseP (r : option (ver * tenure)) (p : pc) (x : bool) : nat :=
  match p with
  | Idle => 0
  | Done _ => 1
  | Failing _ _ | Unl2 _ => 2
  | Unl1 _ _ => 3
  | LocalWait _ _ => 9
  | HasToken _ k => if cancelled k x then 3 else 7
  | CreateIssued _ k => if cancelled k x then 5 else 6
  | WaitVer _ k v => if cancelled k x then 4 else if changedb r v then 8 else 5
  end.

Definition base (s : state) (t : thread) : nat := baseP (rec s) (pc_of s t) (ctx_of s t).

Definition unl1b (p : pc) : bool := match p with Unl1 _ _ => true | _ => false end.

Fixpoint sum (f : thread -> nat) (ts : list thread) : nat :=
  match ts with [] => 0 | t :: r => f t + sum f r end.

Definition pending (s : state) (ts : list thread) : nat :=
  sum (fun t => if unl1b (pc_of s t) then 1 else 0) ts.

(** [ts]: the threads that are inside a call (any duplicate-free list that contains them) *)
Definition rank (ts : list thread) (s : state) : nat :=
  sum (base s) ts + 3 * pending s ts * length ts.

Definition covers (ts : list thread) (s : state) : Prop := forall t, ~ In t ts -> pc_of s t = Idle.

Lemma sum_ext_le : forall f g ts, (forall t, In t ts -> f t <= g t) -> sum f ts <= sum g ts.
Proof.
  induction ts as [|a r IH]; intros H; cbn; [lia|].
  specialize (H a (or_introl eq_refl)) as Ha.
  assert (sum f r <= sum g r) by (apply IH; intros; apply H; right; assumption). lia.
Qed.

Lemma sum_ext : forall f g ts, (forall t, In t ts -> f t = g t) -> sum f ts = sum g ts.
Proof.
  induction ts as [|a r IH]; intros H; cbn; [reflexivity|].
  rewrite (H a (or_introl eq_refl)), IH; [reflexivity|]. intros; apply H; right; assumption.
Qed.

(** one summand drops by at least one, the others grow by at most [d] each *)
Lemma sum_one_drops : forall d f g ts m, NoDup ts -> In m ts ->
  f m + 1 <= g m -> (forall t, In t ts -> t <> m -> f t <= g t + d) ->
  sum f ts + 1 + d <= sum g ts + d * length ts.
Proof.
  induction ts as [|a r IH]; intros m ND Hin Hm Ho; [destruct Hin|].
  inversion ND as [|? ? Hna ND']; subst. cbn [sum length].
  destruct Hin as [->|Hin].
  - assert (sum f r <= sum (fun t => g t + d) r).
    { apply sum_ext_le. intros t Ht. apply Ho; [right; exact Ht|]. intros ->. contradiction. }
    assert (sum (fun t => g t + d) r = sum g r + d * length r).
    { clear. induction r as [|b r IH]; cbn; [lia|]. rewrite IH. lia. }
    lia.
  - assert (a <> m) by (intros ->; contradiction).
    specialize (IH m ND' Hin Hm (fun t Ht Hne => Ho t (or_intror Ht) Hne)).
    specialize (Ho a (or_introl eq_refl) H). lia.
Qed.

(** ** one internal step *)

Definition holderless (s : state) : Prop := forall L, held (lk s L) = None.

(** a step that moves only thread [m], leaves the record alone and does not enter or leave Unl1 *)
Lemma rank_local : forall ts s s' m,
  NoDup ts -> In m ts ->
  rec s' = rec s ->
  (forall t, t <> m -> th s' t = th s t) ->
  unl1b (pc_of s' m) = unl1b (pc_of s m) ->
  base s' m + 1 <= base s m ->
  rank ts s' < rank ts s.
Proof.
  intros ts s s' m ND Hin Hr Ho Hu Hb. unfold rank.
  assert (Hp : pending s' ts = pending s ts).
  { unfold pending. apply sum_ext. intros t _. destruct (Nat.eq_dec t m) as [->|Hne].
    - rewrite Hu. reflexivity.
    - unfold pc_of. rewrite (Ho t Hne). reflexivity. }
  rewrite Hp.
  pose proof (sum_one_drops 0 (base s') (base s) ts m ND Hin Hb) as Hs.
  assert (forall t, In t ts -> t <> m -> base s' t <= base s t + 0).
  { intros t _ Hne. unfold base, pc_of, ctx_of. rewrite Hr, (Ho t Hne). lia. }
  specialize (Hs H). lia.
Qed.

(** the Delete of an Unlock: one pending Delete less, every waiter may go round once more *)
Lemma rank_delete : forall ts s s' m L otn,
  NoDup ts -> In m ts ->
  pc_of s m = Unl1 L otn -> pc_of s' m = Unl2 L ->
  (forall t, t <> m -> th s' t = th s t) ->
  rank ts s' < rank ts s.
Proof.
  intros ts s s' m L otn ND Hin Hp Hp' Ho. unfold rank.
  assert (Hpend : pending s' ts + 1 <= pending s ts).
  { unfold pending.
    pose proof (sum_one_drops 0 (fun t => if unl1b (pc_of s' t) then 1 else 0)
                  (fun t => if unl1b (pc_of s t) then 1 else 0) ts m ND Hin) as Hs.
    cbn beta in Hs.
    assert (Hm1 : (if unl1b (pc_of s' m) then 1 else 0) + 1 <= (if unl1b (pc_of s m) then 1 else 0)).
    { rewrite Hp, Hp'. cbn. lia. }
    assert (forall t, In t ts -> t <> m ->
              (if unl1b (pc_of s' t) then 1 else 0) <= (if unl1b (pc_of s t) then 1 else 0) + 0).
    { intros t _ Hne. unfold pc_of. rewrite (Ho t Hne). lia. }
    specialize (Hs Hm1 H). lia. }
  pose proof (sum_one_drops 3 (base s') (base s) ts m ND Hin) as Hs.
  assert (Hm : base s' m + 1 <= base s m).
  { unfold base. rewrite Hp, Hp'. cbn. lia. }
  assert (Hoth : forall t, In t ts -> t <> m -> base s' t <= base s t + 3).
  { intros t _ Hne. unfold base, pc_of, ctx_of. rewrite (Ho t Hne).
    destruct (t_pc (th s t)); cbn; try lia.
    destruct (cancelled k (t_ctx (th s t))); [lia|].
    destruct (changedb (rec s') v), (changedb (rec s) v); lia. }
  specialize (Hs Hm Hoth).
  assert (3 * pending s' ts * length ts + 3 * length ts <= 3 * pending s ts * length ts) by nia.
  lia.
Qed.

(** the usual shape of a step: the pc of [m] is replaced, Locker fields may change *)
Lemma rank_setpc : forall ts s s1 m p,
  NoDup ts -> In m ts -> rec s1 = rec s -> th s1 = th s ->
  unl1b p = unl1b (pc_of s m) ->
  baseP (rec s) p (ctx_of s m) + 1 <= base s m ->
  rank ts (set_pc s1 m p) < rank ts s.
Proof.
  intros ts s s1 m p ND Hin Hr Ht Hu Hb.
  apply (rank_local ts s (set_pc s1 m p) m ND Hin).
  - cbn. exact Hr.
  - intros t Hne. unfold set_pc, set_th. cbn. rewrite upd_other by exact Hne. rewrite Ht. reflexivity.
  - unfold pc_of at 1, set_pc, set_th. cbn. rewrite upd_same. cbn. exact Hu.
  - unfold base at 1, pc_of at 1, ctx_of at 1, set_pc, set_th. cbn. rewrite upd_same. cbn.
    rewrite Hr. unfold ctx_of at 1. rewrite Ht. exact Hb.
Qed.

Lemma rank_step : forall ts s l s',
  NoDup ts -> covers ts s -> kinv s ->
  internal l = true -> step s l = Some s' -> holderless s' ->
  rank ts s' < rank ts s /\ covers ts s'.
Proof.
  intros ts s l s' ND Hc [Ka Kb] Hi H Hh.
  assert (Hin : forall t, pc_of s t <> Idle -> In t ts).
  { intros t Hne. destruct (in_dec Nat.eq_dec t ts) as [Hin|Hn]; [exact Hin|]. elim Hne. apply Hc. exact Hn. }
  assert (Hcov : forall s2 m, In m ts -> (forall t, t <> m -> th s2 t = th s t) -> covers ts s2).
  { intros s2 m Hm Ho t Hn. unfold pc_of. rewrite Ho; [apply Hc; exact Hn|]. intros ->. contradiction. }
  destruct l; cbn in Hi; try discriminate; step_inv H; cbn in Hi; try discriminate;
  match goal with
    | Hp : pc_of s ?m = _ |- rank ts ?s2 < _ /\ _ =>
        assert (Hm : In m ts) by (apply Hin; rewrite Hp; discriminate);
        assert (Hoth : forall tq, tq <> m -> th s2 tq = th s tq) by
          (intros tq Hne; unfold set_pc, set_th, set_lk, set_rec, arm_first, set_nextver, set_nexttn, set_ntimers, set_timer; cbn;
           unfold upd; destruct (Nat.eqb_spec tq m); [contradiction|reflexivity])
    end;
  (split; [|eapply Hcov; eauto]); clear Hcov Hoth;
  try (eapply rank_setpc; eauto; [rewrite Heqp; reflexivity | unfold base; rewrite Heqp; cbn;
       repeat match goal with |- context [cancelled ?k ?x] => destruct (cancelled k x) eqn:? end; cbn; try lia]; fail).
  - (* CheckCtx, not cancelled *)
    eapply rank_setpc; eauto; [rewrite Heqp; reflexivity|].
    unfold base; rewrite Heqp; cbn. unfold cancelled. rewrite Heqb. lia.
  - (* Create answered ErrExist, Lock *)
    eapply rank_setpc; eauto; [rewrite Heqp; reflexivity|].
    unfold base; rewrite Heqp; cbn. rewrite Heqo. cbn. rewrite N.eqb_refl. cbn. lia.
  - (* Create answered ErrExist, LockWithCtx *)
    eapply rank_setpc; eauto; [rewrite Heqp; reflexivity|].
    unfold base; rewrite Heqp; cbn. rewrite Heqo. cbn. rewrite N.eqb_refl. cbn.
    destruct (ctx_of s t); cbn; lia.
  - (* a successful Create makes a holder *)
    exfalso. specialize (Hh L). unfold set_pc, arm_first, set_lk, set_th, set_ntimers, set_timer in Hh. cbn in Hh.
    rewrite !upd_same in Hh. cbn in Hh. discriminate.
  - (* return of the storage wait *)
    eapply rank_setpc; eauto; [rewrite Heqp; reflexivity|].
    unfold base; rewrite Heqp; cbn.
    destruct w.
    + unfold changedb. rewrite Heqb. destruct (cancelled k (ctx_of s t)); lia.
    + destruct k.
      * rewrite (Ka t) in Heqb; [discriminate|]. rewrite Heqp. reflexivity.
      * elim (Kb t L KTry v Heqp). reflexivity.
      * unfold cancelled. rewrite Heqb. cbn. lia.
  - (* the Delete of Unlock *)
    eapply rank_delete; eauto.
    + unfold pc_of, set_pc, set_th, set_rec. cbn. rewrite upd_same. reflexivity.
    + intros tq Hne. unfold set_pc, set_th, set_rec. cbn. rewrite upd_other by exact Hne. reflexivity.
Qed.

(** ** runs *)

(** a run of internal steps along which nobody becomes a holder *)
Fixpoint quiet_run (s : state) (tr : list label) : Prop :=
  match tr with
  | [] => True
  | l :: tr' =>
      internal l = true /\
      match step s l with
      | Some s' => holderless s' /\ quiet_run s' tr'
      | None => False
      end
  end.

Lemma quiet_run_runs : forall tr s, quiet_run s tr -> exists s', run s tr = Some s'.
Proof.
  induction tr as [|l tr IH]; intros s H; cbn in *.
  - eexists; reflexivity.
  - destruct H as [_ H]. destruct (step s l) as [s1|]; [|contradiction]. apply IH. apply H.
Qed.

Lemma handoff_bounded : forall tr ts s,
  NoDup ts -> covers ts s -> kinv s -> quiet_run s tr -> length tr <= rank ts s.
Proof.
  induction tr as [|l tr IH]; intros ts s ND Hc K H; cbn in *; [lia|].
  destruct H as [Hi H]. destruct (step s l) as [s1|] eqn:Hs; [|contradiction].
  destruct H as [Hh Hq].
  destruct (rank_step ts s l s1 ND Hc K Hi Hs Hh) as [Hlt Hc1].
  specialize (IH ts s1 ND Hc1 (kinv_step s l s1 K Hs) Hq). lia.
Qed.

Lemma internal_fault_free : forall s l, internal l = true -> fault_free s l.
Proof.
  intros s l H. destruct l; cbn in *; try exact I; try discriminate;
    destruct f; cbn in *; try reflexivity; discriminate.
Qed.

Lemma internal_wf_ok : forall s l, internal l = true -> wf_ok s l.
Proof. intros s l H. destruct l; cbn in *; try exact I; discriminate. Qed.

Lemma quiet_respects : forall g : state -> label -> Prop, (forall s l, internal l = true -> g s l) ->
  forall tr s, quiet_run s tr -> respects g s tr.
Proof.
  intros g Hg. induction tr as [|l tr IH]; intros s H; cbn in *; [exact I|].
  destruct H as [Hi H]. split; [apply Hg; exact Hi|].
  destruct (step s l) as [s1|]; [|exact I]. apply IH. apply H.
Qed.

Lemma run_app_intro : forall tr1 tr2 s s1 s2,
  run s tr1 = Some s1 -> run s1 tr2 = Some s2 -> run s (tr1 ++ tr2) = Some s2.
Proof.
  induction tr1 as [|l tr1 IH]; intros tr2 s s1 s2 H1 H2; cbn in *.
  - injection H1 as <-. exact H2.
  - destruct (step s l) as [s0|]; [|discriminate]. eapply IH; eauto.
Qed.

Lemma quiet_holderless : forall tr s s', holderless s -> quiet_run s tr -> run s tr = Some s' -> holderless s'.
Proof.
  induction tr as [|l tr IH]; intros s s' Hh H Hr; cbn in *.
  - injection Hr as <-. exact Hh.
  - destruct H as [_ H]. destruct (step s l) as [s1|]; [|contradiction].
    destruct H as [Hh1 Hq]. eapply IH; eauto.
Qed.

(** a maximal internal run from a reachable state without holder, along which nobody becomes a
    holder, ends with every call returned *)
Lemma quiet_end_idle : forall lp tr0 s tr s',
  run (init lp) tr0 = Some s -> no_faults lp tr0 -> wf_programs lp tr0 -> holderless s ->
  quiet_run s tr -> run s tr = Some s' -> stuck s' ->
  forall t, pc_of s' t = Idle.
Proof.
  intros lp tr0 s tr s' Hr HF HW Hh Hq Hr' Hst.
  apply (no_deadlock lp (tr0 ++ tr) s').
  - eapply run_app_intro; eauto.
  - apply respects_app_intro; [exact HF|]. intros s1 H1. rewrite Hr in H1. injection H1 as <-.
    apply quiet_respects; [apply internal_fault_free|exact Hq].
  - apply respects_app_intro; [exact HW|]. intros s1 H1. rewrite Hr in H1. injection H1 as <-.
    apply quiet_respects; [apply internal_wf_ok|exact Hq].
  - exact Hst.
  - eapply quiet_holderless; eauto.
Qed.

(** ** a blocking attempt that is not cancelled, on a live provider, returns only as a holder *)

Definition wants (s : state) (t : thread) : Prop :=
  exists L k, k <> KTry /\ ctx_of s t = false /\ down s (lprov s L) = false /\
    (pc_of s t = LocalWait L k \/ pc_of s t = HasToken L k \/ pc_of s t = CreateIssued L k \/
     exists v, pc_of s t = WaitVer L k v).

Lemma wants_frame : forall s s' w, th s' w = th s w -> down s' = down s -> lprov s' = lprov s ->
  wants s w -> wants s' w.
Proof.
  intros s s' w Ht Hd Hl (L & k & Hk & Hc & Hdn & Hp). exists L, k.
  unfold pc_of, ctx_of in *. rewrite Ht, Hd, Hl. auto.
Qed.

Ltac newpc L k := exists L, k; unfold pc_of, ctx_of, set_pc, set_th, set_lk in *; cbn; rewrite ?upd_same; cbn;
  repeat split; auto.

Lemma wants_step : forall s l s' w, tinv s -> wants s w ->
  internal l = true -> step s l = Some s' -> holderless s' -> wants s' w.
Proof.
  intros s l s' w IT HWt Hi H Hh.
  destruct l; cbn in Hi; try discriminate; step_inv H; cbn in Hi; try discriminate;
  (destruct (Nat.eq_dec w t) as [->|Hne];
   [ | apply (wants_frame s); auto;
       unfold set_pc, set_th, set_lk, set_rec, arm_first, set_nextver, set_nexttn, set_ntimers, set_timer; cbn;
       rewrite ?upd_other by exact Hne; reflexivity ]);
  destruct HWt as (L' & k' & Hk & Hc & Hdn & Hp); rewrite Heqp in Hp;
  destruct Hp as [Hp|[Hp|[Hp|[v' Hp]]]]; try discriminate; injection Hp as ? ?; subst.
  - congruence.
  - match goal with H : token (lk s L') = true |- _ => destruct (t_tok s IT L' H) as (_ & Hc0 & _) end. congruence.
  - newpc L' k'.
  - congruence.
  - match goal with H : _ && ctx_of s t = true |- _ => rewrite Hc, andb_false_r in H; discriminate end.
  - congruence.
  - match goal with H : _ && ctx_of s t = true |- _ => rewrite Hc, andb_false_r in H; discriminate end.
  - newpc L' k'.
  - newpc L' KLock. right. right. right. eexists; reflexivity.
  - congruence.
  - newpc L' KCtx. right. right. right. eexists; reflexivity.
  - exfalso. specialize (Hh L'). unfold set_pc, arm_first, set_lk, set_th, set_ntimers, set_timer in Hh. cbn in Hh.
    rewrite !upd_same in Hh. cbn in Hh. discriminate.
  - congruence.
  - newpc L' k'.
Qed.

Lemma wants_quiet : forall tr s s' w, tinv s -> wants s w -> quiet_run s tr -> run s tr = Some s' -> wants s' w.
Proof.
  induction tr as [|l tr IH]; intros s s' w IT HWt Hq Hr; cbn in *.
  - injection Hr as <-. exact HWt.
  - destruct Hq as [Hi Hq]. destruct (step s l) as [s1|] eqn:Hs; [|contradiction].
    destruct Hq as [Hh Hq].
    apply (IH s1 s' w); auto.
    + eapply tinv_step; eauto. apply internal_wf_ok. exact Hi.
    + eapply wants_step; eauto.
Qed.

(** as long as somebody still wants the lock, an internal run along which nobody became a holder
    is not maximal: some internal step is enabled after it *)
Lemma handoff_not_stuck : forall lp tr0 s tr s' w,
  run (init lp) tr0 = Some s -> no_faults lp tr0 -> wf_programs lp tr0 -> holderless s ->
  wants s w -> quiet_run s tr -> run s tr = Some s' -> ~ stuck s'.
Proof.
  intros lp tr0 s tr s' w Hr HF HW Hh HWt Hq Hr' Hst.
  pose proof (quiet_end_idle lp tr0 s tr s' Hr HF HW Hh Hq Hr' Hst w) as Hidle.
  assert (HW' : wants s' w).
  { eapply wants_quiet; eauto. eapply tinv_reachable; eauto. }
  destruct HW' as (L & k & _ & _ & _ & [Hp|[Hp|[Hp|[v Hp]]]]); rewrite Hp in Hidle; discriminate.
Qed.

(** ** the threads inside a call are finitely many *)

Lemma step_covers : forall s l s' ts, covers ts s -> step s l = Some s' ->
  covers (match l with Invoke t _ => t :: ts | _ => ts end) s'.
Proof.
  intros s l s' ts Hc H.
  destruct l; step_inv H; intros tq Hn; unfold pc_of, set_pc, cancel_timer in *; cbn;
    repeat match goal with |- context [tm_st ?x] => destruct (tm_st x) end; cbn;
    try (apply Hc; exact Hn);
    unfold upd; destruct (Nat.eqb_spec tq t) as [->|Hne]; cbn;
    try (apply Hc; exact Hn);
    try (elim Hn; left; reflexivity);
    try (apply Hc; intros Hx; apply Hn; right; exact Hx);
    try (pose proof (Hc t Hn) as Hx; unfold pc_of in Hx; congruence);
    try reflexivity.
Qed.

Lemma covers_exists_from : forall tr s0 s ts0, covers ts0 s0 -> run s0 tr = Some s ->
  exists ts, covers ts s.
Proof.
  induction tr as [|l tr IH]; intros s0 s ts0 Hc Hr; cbn in Hr.
  - injection Hr as <-. exists ts0. exact Hc.
  - destruct (step s0 l) as [s1|] eqn:Hs; [|discriminate].
    eapply IH; [|exact Hr]. eapply step_covers; eauto.
Qed.

Lemma covers_exists : forall lp tr s, run (init lp) tr = Some s ->
  exists ts, NoDup ts /\ covers ts s.
Proof.
  intros lp tr s Hr.
  destruct (covers_exists_from tr (init lp) s [] (fun t _ => eq_refl) Hr) as [ts Hc].
  exists (nodup Nat.eq_dec ts). split; [apply NoDup_nodup|].
  intros t Hn. apply Hc. intros Hin. apply Hn. apply nodup_In. exact Hin.
Qed.

(** ** the ranking statement *)

Theorem handoff_reaches_everyone : forall lp tr0 s,
  run (init lp) tr0 = Some s -> no_faults lp tr0 -> wf_programs lp tr0 -> holderless s ->
  exists bound,
    (forall tr, quiet_run s tr -> length tr <= bound) /\
    (forall tr s', quiet_run s tr -> run s tr = Some s' -> stuck s' -> forall t, pc_of s' t = Idle) /\
    (forall tr s' w, wants s w -> quiet_run s tr -> run s tr = Some s' -> ~ stuck s').
Proof.
  intros lp tr0 s Hr HF HW Hh.
  destruct (covers_exists lp tr0 s Hr) as (ts & ND & Hc).
  exists (rank ts s). repeat split.
  - intros tr Hq. apply handoff_bounded; auto. eapply kinv_run; [apply kinv_init|exact Hr].
  - intros tr s' Hq Hr' Hst. eapply quiet_end_idle; eauto.
  - intros tr s' w HWt Hq Hr'. eapply handoff_not_stuck; eauto.
Qed.
