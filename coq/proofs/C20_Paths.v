(** C20, part 1: lemmas about the lexical path functions of model/Zip.v
    ([clean], [craw], [join], [rel], [render]/[bsplit]) and about prefixes of
    resolved paths. *)
From Coq Require Import List NArith Bool Arith Lia.
From GL Require Import model.Zip.
Import ListNotations.

(** * Boolean equalities *)

Lemma seg_eqb_eq : forall a b, seg_eqb a b = true <-> a = b.
Proof.
  induction a as [|x a IH]; intros [|y b]; cbn [seg_eqb]; split; intros H;
    try reflexivity; try discriminate.
  - apply andb_true_iff in H. destruct H as [Hx Ha].
    apply N.eqb_eq in Hx. apply IH in Ha. subst. reflexivity.
  - inversion H; subst. apply andb_true_iff. split.
    + apply N.eqb_refl.
    + apply IH. reflexivity.
Qed.

Lemma seg_eqb_refl : forall a, seg_eqb a a = true.
Proof. intros a. apply seg_eqb_eq. reflexivity. Qed.

Lemma seg_eqb_neq : forall a b, seg_eqb a b = false <-> a <> b.
Proof.
  intros a b. split.
  - intros H E. apply seg_eqb_eq in E. congruence.
  - intros H. destruct (seg_eqb a b) eqn:E; [|reflexivity].
    apply seg_eqb_eq in E. contradiction.
Qed.

Lemma path_eqb_eq : forall a b, path_eqb a b = true <-> a = b.
Proof.
  induction a as [|x a IH]; intros [|y b]; cbn [path_eqb]; split; intros H;
    try reflexivity; try discriminate.
  - apply andb_true_iff in H. destruct H as [Hx Ha].
    apply seg_eqb_eq in Hx. apply IH in Ha. subst. reflexivity.
  - inversion H; subst. apply andb_true_iff. split.
    + apply seg_eqb_refl.
    + apply IH. reflexivity.
Qed.

Lemma path_eqb_refl : forall a, path_eqb a a = true.
Proof. intros a. apply path_eqb_eq. reflexivity. Qed.

Lemma path_eqb_neq : forall a b, path_eqb a b = false <-> a <> b.
Proof.
  intros a b. split.
  - intros H E. apply path_eqb_eq in E. congruence.
  - intros H. destruct (path_eqb a b) eqn:E; [|reflexivity].
    apply path_eqb_eq in E. contradiction.
Qed.

(** * Ordinary segments *)

Definition normal (s : seg) : Prop := seg_normal s = true.

Lemma normal_spec : forall s,
  normal s <-> s <> s_empty /\ s <> s_dot /\ s <> s_dotdot.
Proof.
  intros s. unfold normal, seg_normal.
  rewrite negb_true_iff, !orb_false_iff, !seg_eqb_neq. tauto.
Qed.

Lemma normal_tests : forall s, normal s ->
  seg_eqb s s_empty = false /\ seg_eqb s s_dot = false /\ seg_eqb s s_dotdot = false.
Proof.
  intros s H. apply normal_spec in H. rewrite !seg_eqb_neq. exact H.
Qed.

(** * Prefixes ([inside d p]: [d] is a prefix of [p]) *)

Lemma inside_refl : forall d, inside d d.
Proof. intros d. exists []. symmetry. apply app_nil_r. Qed.

Lemma inside_trans : forall a b c, inside a b -> inside b c -> inside a c.
Proof.
  intros a b c [x Hx] [y Hy]. exists (x ++ y). subst. symmetry. apply app_assoc.
Qed.

Lemma inside_app : forall d q, inside d (d ++ q).
Proof. intros d q. exists q. reflexivity. Qed.

Lemma inside_nil : forall p, inside [] p.
Proof. intros p. exists p. reflexivity. Qed.

Lemma inside_length : forall d p, inside d p -> length d <= length p.
Proof. intros d p [q Hq]. subst. rewrite app_length. lia. Qed.

Lemma inside_antisym : forall a b, inside a b -> inside b a -> a = b.
Proof.
  intros a b [x Hx] Hba. apply inside_length in Hba. subst b.
  rewrite app_length in Hba. destruct x as [|s x].
  - symmetry. apply app_nil_r.
  - cbn [length] in Hba. lia.
Qed.

(** two prefixes of the same list are comparable *)
Lemma prefix_comparable : forall (a b l : list seg),
  inside a l -> inside b l -> inside a b \/ inside b a.
Proof.
  induction a as [|s a IH]; intros b l Ha Hb.
  - left. apply inside_nil.
  - destruct b as [|t b].
    + right. apply inside_nil.
    + destruct Ha as [x Hx]. destruct Hb as [y Hy]. subst l.
      cbn [app] in Hy. inversion Hy as [[Hst Hrest]]. subst t.
      destruct (IH b (a ++ x)) as [[z Hz]|[z Hz]].
      * apply inside_app.
      * exists y. exact Hrest.
      * left. exists z. subst b. reflexivity.
      * right. exists z. subst a. reflexivity.
Qed.

Lemma removelast_inside : forall (l : list seg), inside (removelast l) l.
Proof.
  intros l. destruct l as [|s l].
  - apply inside_nil.
  - exists [last (s :: l) s_empty]. apply app_removelast_last. discriminate.
Qed.

Lemma strict_prefix_not_inside : forall p d, strict_prefix p d -> ~ inside d p.
Proof.
  intros p d [q [Hq Hd]] Hin. apply inside_length in Hin. subst d.
  rewrite app_length in Hin. destruct q as [|s q]; [congruence|]. cbn [length] in Hin. lia.
Qed.

Lemma inside_cases : forall p d, inside p d -> p = d \/ strict_prefix p d.
Proof.
  intros p d [q Hq]. destruct q as [|s q].
  - left. subst d. symmetry. apply app_nil_r.
  - right. exists (s :: q). split; [discriminate|exact Hq].
Qed.

Lemma is_prefix_inside : forall d p, is_prefix d p = true <-> inside d p.
Proof.
  induction d as [|x d IH]; intros p; cbn [is_prefix].
  - split; intros _; [apply inside_nil|reflexivity].
  - destruct p as [|y p].
    + split; [discriminate|]. intros [q Hq]. discriminate.
    + rewrite andb_true_iff, seg_eqb_eq, IH. split.
      * intros [Hxy [q Hq]]. subst. exists q. reflexivity.
      * intros [q Hq]. cbn [app] in Hq. inversion Hq; subst. split; [reflexivity|].
        exists q. reflexivity.
Qed.

(** * [Forall] helpers *)

Lemma Forall_removelast : forall (P : seg -> Prop) l, Forall P l -> Forall P (removelast l).
Proof.
  intros P l H. induction H as [|x l Hx Hl IH].
  - constructor.
  - cbn [removelast]. destruct l as [|y l].
    + constructor.
    + constructor; assumption.
Qed.

Lemma Forall_app_l : forall (P : seg -> Prop) a b, Forall P (a ++ b) -> Forall P a.
Proof. intros P a b H. apply Forall_app in H. tauto. Qed.

Lemma Forall_app_r : forall (P : seg -> Prop) a b, Forall P (a ++ b) -> Forall P b.
Proof. intros P a b H. apply Forall_app in H. tauto. Qed.

(** * [Clean] of a rooted path *)

Definition rstep (stk : list seg) (s : seg) : list seg :=
  if seg_eqb s s_empty || seg_eqb s s_dot then stk
  else if seg_eqb s s_dotdot then removelast stk
  else stk ++ [s].

(* the resolved path of a rooted string *)
Definition rclean (p : rpath) : list seg := fold_left rstep p [].

Lemma cstep_rooted : forall up stk s, cstep true (up, stk) s = (up, rstep stk s).
Proof.
  intros up stk s. unfold cstep, rstep. cbn [fst snd].
  destruct (seg_eqb s s_empty || seg_eqb s s_dot); [reflexivity|].
  destruct (seg_eqb s s_dotdot); [|reflexivity].
  destruct stk as [|x stk]; reflexivity.
Qed.

Lemma fold_cstep_rooted : forall l up stk,
  fold_left (cstep true) l (up, stk) = (up, fold_left rstep l stk).
Proof.
  induction l as [|s l IH]; intros up stk; cbn [fold_left].
  - reflexivity.
  - rewrite cstep_rooted. apply IH.
Qed.

Lemma clean_rooted : forall p, is_rooted p = true -> clean p = mkC true 0 (rclean p).
Proof.
  intros p H. unfold clean. rewrite H, fold_cstep_rooted. reflexivity.
Qed.

Lemma resolve_rooted : forall p, is_rooted p = true -> resolve p = rclean p.
Proof. intros p H. unfold resolve. rewrite clean_rooted by exact H. reflexivity. Qed.

Lemma rstep_normal_inv : forall stk s, Forall normal stk -> Forall normal (rstep stk s).
Proof.
  intros stk s H. unfold rstep.
  destruct (seg_eqb s s_empty || seg_eqb s s_dot) eqn:E1; [exact H|].
  destruct (seg_eqb s s_dotdot) eqn:E2.
  - apply Forall_removelast. exact H.
  - apply Forall_app. split; [exact H|]. constructor; [|constructor].
    unfold normal, seg_normal. apply orb_false_iff in E1. destruct E1 as [Ea Eb].
    rewrite Ea, Eb, E2. reflexivity.
Qed.

Lemma fold_rstep_normal_inv : forall l stk,
  Forall normal stk -> Forall normal (fold_left rstep l stk).
Proof.
  induction l as [|s l IH]; intros stk H; cbn [fold_left].
  - exact H.
  - apply IH. apply rstep_normal_inv. exact H.
Qed.

Lemma rclean_normal : forall p, Forall normal (rclean p).
Proof. intros p. apply fold_rstep_normal_inv. constructor. Qed.

Lemma rstep_normal : forall stk s, normal s -> rstep stk s = stk ++ [s].
Proof.
  intros stk s H. apply normal_tests in H. destruct H as [Ha [Hb Hc]].
  unfold rstep. rewrite Ha, Hb, Hc. reflexivity.
Qed.

Lemma fold_rstep_normal : forall l stk, Forall normal l -> fold_left rstep l stk = stk ++ l.
Proof.
  induction l as [|s l IH]; intros stk H; cbn [fold_left].
  - symmetry. apply app_nil_r.
  - inversion H as [|? ? Hs Hl]; subst. rewrite rstep_normal by exact Hs.
    rewrite IH by exact Hl. rewrite <- app_assoc. reflexivity.
Qed.

Lemma rstep_empty : forall stk, rstep stk s_empty = stk.
Proof. intros stk. reflexivity. Qed.

Lemma is_rooted_app : forall a b, is_rooted a = true -> is_rooted (a ++ b) = true.
Proof.
  intros a b H. destruct a as [|s [|t a]]; cbn in H; try discriminate. exact H.
Qed.

Lemma is_rooted_not_empty : forall a, is_rooted a = true -> is_empty_str a = false.
Proof.
  intros a H. destruct a as [|s [|t a]]; cbn in H; try discriminate. reflexivity.
Qed.

Lemma rclean_app : forall a b, rclean (a ++ b) = fold_left rstep b (rclean a).
Proof. intros a b. unfold rclean. apply fold_left_app. Qed.

(** the cleaned string of a resolved rooted path, and back *)
Definition rooted_str (S : list seg) : rpath := craw (mkC true 0 S).

Lemma rooted_str_rooted : forall S, is_rooted (rooted_str S) = true.
Proof. intros [|x S]; reflexivity. Qed.

Lemma rclean_rooted_str : forall S, Forall normal S -> rclean (rooted_str S) = S.
Proof.
  intros S H. unfold rooted_str, craw. cbn [c_rooted c_segs].
  destruct S as [|x S].
  - reflexivity.
  - unfold rclean. cbn [fold_left]. rewrite rstep_empty.
    apply (fold_rstep_normal (x :: S) []). exact H.
Qed.

Lemma clean_rooted_str : forall S, Forall normal S -> clean (rooted_str S) = mkC true 0 S.
Proof.
  intros S H. rewrite clean_rooted by apply rooted_str_rooted.
  rewrite rclean_rooted_str by exact H. reflexivity.
Qed.

Lemma resolve_rooted_str : forall S, Forall normal S -> resolve (rooted_str S) = S.
Proof. intros S H. unfold resolve. rewrite clean_rooted_str by exact H. reflexivity. Qed.

Lemma rooted_str_inj : forall S S', Forall normal S -> Forall normal S' ->
  rooted_str S = rooted_str S' -> S = S'.
Proof.
  intros S S' H H' E. rewrite <- (rclean_rooted_str S H), <- (rclean_rooted_str S' H'), E.
  reflexivity.
Qed.

(** [Clean] is idempotent on rooted paths (general statement: [clean_idempotent] below) *)
Lemma clean_str_rooted : forall p, is_rooted p = true -> clean_str p = rooted_str (rclean p).
Proof. intros p H. unfold clean_str. rewrite clean_rooted by exact H. reflexivity. Qed.

(** * [Clean] in general: the result is canonical and [Clean] is idempotent *)

Definition canonical (c : cpath) : Prop :=
  Forall normal (c_segs c) /\ (c_rooted c = true -> c_up c = 0).

Lemma cstep_inv : forall r st s,
  Forall normal (snd st) /\ (r = true -> fst st = 0) ->
  Forall normal (snd (cstep r st s)) /\ (r = true -> fst (cstep r st s) = 0).
Proof.
  intros r [up stk] s [Hn Hr]. cbn [fst snd] in *. unfold cstep. cbn [fst snd].
  destruct (seg_eqb s s_empty || seg_eqb s s_dot) eqn:E1; [cbn [fst snd]; tauto|].
  destruct (seg_eqb s s_dotdot) eqn:E2.
  - destruct stk as [|x stk].
    + destruct r; cbn [fst snd]; split; try tauto. intros; discriminate.
    + cbn [fst snd]. split; [|exact Hr]. apply Forall_removelast. exact Hn.
  - cbn [fst snd]. split; [|exact Hr]. apply Forall_app. split; [exact Hn|].
    constructor; [|constructor]. unfold normal, seg_normal.
    apply orb_false_iff in E1. destruct E1 as [Ea Eb]. rewrite Ea, Eb, E2. reflexivity.
Qed.

Lemma fold_cstep_inv : forall r l st,
  Forall normal (snd st) /\ (r = true -> fst st = 0) ->
  Forall normal (snd (fold_left (cstep r) l st)) /\ (r = true -> fst (fold_left (cstep r) l st) = 0).
Proof.
  intros r l. induction l as [|s l IH]; intros st H; cbn [fold_left].
  - exact H.
  - apply IH. apply cstep_inv. exact H.
Qed.

Lemma clean_canonical : forall p, canonical (clean p).
Proof.
  intros p. unfold canonical, clean. cbn [c_segs c_rooted c_up].
  apply fold_cstep_inv. cbn [fst snd]. split; [constructor|reflexivity].
Qed.

Lemma fold_cstep_dotdots : forall n up,
  fold_left (cstep false) (repeat s_dotdot n) (up, []) = (n + up, []).
Proof.
  induction n as [|n IH]; intros up; cbn [repeat fold_left].
  - reflexivity.
  - unfold cstep at 2. cbn [fst snd seg_eqb s_dotdot s_empty s_dot N.eqb Pos.eqb andb orb].
    rewrite IH. f_equal. lia.
Qed.

Lemma fold_cstep_normal : forall r l up stk, Forall normal l ->
  fold_left (cstep r) l (up, stk) = (up, stk ++ l).
Proof.
  intros r l. induction l as [|s l IH]; intros up stk H; cbn [fold_left].
  - rewrite app_nil_r. reflexivity.
  - inversion H as [|? ? Hs Hl]; subst. apply normal_tests in Hs. destruct Hs as [Ha [Hb Hc]].
    unfold cstep at 2. cbn [fst snd]. rewrite Ha, Hb, Hc. cbn [orb].
    rewrite IH by exact Hl. rewrite <- app_assoc. reflexivity.
Qed.

Lemma is_rooted_unrooted_raw : forall n l, Forall normal l ->
  is_rooted (match repeat s_dotdot n ++ l with [] => [s_dot] | x => x end) = false.
Proof.
  intros n l H. destruct n as [|n]; cbn [repeat app].
  - destruct l as [|x [|y l]]; try reflexivity.
    inversion H as [|? ? Hx _]; subst. apply normal_tests in Hx. cbn [is_rooted]. tauto.
  - destruct (repeat s_dotdot n ++ l); reflexivity.
Qed.

Theorem clean_craw : forall c, canonical c -> clean (craw c) = c.
Proof.
  intros [r up segs] [Hn Hr]. cbn [c_segs c_rooted c_up] in *. destruct r.
  - rewrite (Hr eq_refl). apply clean_rooted_str. exact Hn.
  - unfold craw. cbn [c_rooted c_up c_segs]. unfold clean.
    rewrite is_rooted_unrooted_raw by exact Hn.
    destruct (repeat s_dotdot up ++ segs) as [|x l] eqn:E.
    + apply app_eq_nil in E. destruct E as [E1 E2]. subst segs.
      destruct up; [|discriminate]. reflexivity.
    + rewrite <- E. rewrite fold_left_app, fold_cstep_dotdots, fold_cstep_normal by exact Hn.
      cbn [fst snd app]. f_equal. lia.
Qed.

Theorem clean_idempotent : forall p, clean (clean_str p) = clean p.
Proof. intros p. unfold clean_str. apply clean_craw. apply clean_canonical. Qed.

Theorem clean_str_idempotent : forall p, clean_str (clean_str p) = clean_str p.
Proof. intros p. unfold clean_str at 1. rewrite clean_idempotent. reflexivity. Qed.

(** * [Join] onto a rooted directory *)

Lemma join_rooted : forall dest n, is_rooted dest = true ->
  join dest n = rooted_str (fold_left rstep n (rclean dest)).
Proof.
  intros dest n H. unfold join. rewrite is_rooted_not_empty by exact H.
  rewrite clean_str_rooted by (apply is_rooted_app; exact H).
  rewrite rclean_app. reflexivity.
Qed.

(** the directory part of a name resolves to a path comparable with the whole name's *)
Lemma split_dir_fold : forall n D,
  fold_left rstep (split_dir n) D = fold_left rstep (removelast n) D.
Proof.
  intros n D. unfold split_dir. rewrite fold_left_app. cbn [fold_left]. apply rstep_empty.
Qed.

Lemma rstep_cases : forall stk s,
  rstep stk s = stk \/ rstep stk s = removelast stk \/ rstep stk s = stk ++ [s].
Proof.
  intros stk s. unfold rstep.
  destruct (seg_eqb s s_empty || seg_eqb s s_dot); [tauto|].
  destruct (seg_eqb s s_dotdot); tauto.
Qed.

Lemma dir_file_common : forall n D,
  let S := fold_left rstep (removelast n) D in
  let T := fold_left rstep n D in
  (inside S T) \/ (inside T S).
Proof.
  intros n D S T. destruct n as [|x n].
  - left. subst S T. cbn [removelast fold_left]. apply inside_refl.
  - assert (Hn : x :: n = removelast (x :: n) ++ [last (x :: n) s_empty])
      by (apply app_removelast_last; discriminate).
    assert (HT : T = rstep S (last (x :: n) s_empty)).
    { subst T S. rewrite Hn at 1. rewrite fold_left_app. reflexivity. }
    rewrite HT.
    destruct (rstep_cases S (last (x :: n) s_empty)) as [E|[E|E]]; rewrite E.
    + left. apply inside_refl.
    + right. apply removelast_inside.
    + left. apply inside_app.
Qed.

(** * [Rel] from a rooted directory: the containment check of UnzipToFolder *)

Lemma strip_common_prefix : forall d q, strip_common d (d ++ q) = ([], q).
Proof.
  induction d as [|x d IH]; intros q; cbn [app strip_common].
  - destruct q; reflexivity.
  - rewrite seg_eqb_refl. apply IH.
Qed.

Lemma strip_common_spec : forall b t br tr,
  strip_common b t = (br, tr) -> exists c, b = c ++ br /\ t = c ++ tr.
Proof.
  induction b as [|x b IH]; intros t br tr H.
  - cbn [strip_common] in H. inversion H; subst. exists []. split; reflexivity.
  - destruct t as [|y t].
    + cbn [strip_common] in H. inversion H; subst. exists []. split; reflexivity.
    + cbn [strip_common] in H. destruct (seg_eqb x y) eqn:E.
      * apply seg_eqb_eq in E. subst y. apply IH in H. destruct H as [c [Hb Ht]].
        exists (x :: c). subst. split; reflexivity.
      * inversion H; subst. exists []. split; reflexivity.
Qed.

Lemma rel_rooted_unfold : forall dest T, is_rooted dest = true -> Forall normal T ->
  rel dest (rooted_str T) =
  if path_eqb (rooted_str (rclean dest)) (rooted_str T) then Some [s_dot]
  else
    let bt := strip_common (rclean dest) T in
    match fst bt with
    | [] => Some (match snd bt with [] => [s_empty] | l => l end)
    | x :: _ => if seg_eqb x s_dotdot then None
                else Some (repeat s_dotdot (length (fst bt)) ++ snd bt)
    end.
Proof.
  intros dest T Hd HT. unfold rel.
  rewrite (clean_rooted dest Hd), (clean_rooted_str T HT).
  fold (rooted_str (rclean dest)). fold (rooted_str T).
  destruct (path_eqb (rooted_str (rclean dest)) (rooted_str T)); [reflexivity|].
  cbn [c_rooted Bool.eqb negb elems_base elems_targ c_segs strip_common].
  rewrite seg_eqb_refl. reflexivity.
Qed.

(** a target inside the directory passes the check *)
Lemma rel_rooted_inside : forall dest T, is_rooted dest = true -> Forall normal T ->
  inside (rclean dest) T ->
  exists r, rel dest (rooted_str T) = Some r /\ rel_escapes r = false.
Proof.
  intros dest T Hd HT [q Hq]. rewrite rel_rooted_unfold by assumption.
  destruct (path_eqb (rooted_str (rclean dest)) (rooted_str T)).
  - exists [s_dot]. split; reflexivity.
  - subst T. rewrite strip_common_prefix. cbn [fst snd].
    destruct q as [|x q].
    + exists [s_empty]. split; reflexivity.
    + exists (x :: q). split; [reflexivity|]. cbn [rel_escapes].
      apply Forall_app_r in HT. inversion HT as [|? ? Hx _]; subst.
      apply normal_tests in Hx. tauto.
Qed.

(** a target that passes the check is inside the directory *)
Lemma rel_rooted_pass : forall dest T r, is_rooted dest = true -> Forall normal T ->
  rel dest (rooted_str T) = Some r -> rel_escapes r = false ->
  inside (rclean dest) T.
Proof.
  intros dest T r Hd HT Hrel Hesc. rewrite rel_rooted_unfold in Hrel by assumption.
  destruct (path_eqb (rooted_str (rclean dest)) (rooted_str T)) eqn:E.
  - apply path_eqb_eq in E. apply rooted_str_inj in E; [|apply rclean_normal|exact HT].
    rewrite E. apply inside_refl.
  - destruct (strip_common (rclean dest) T) as [br tr] eqn:Es. cbn [fst snd] in Hrel.
    apply strip_common_spec in Es. destruct Es as [c [Hb Ht]].
    destruct br as [|x br].
    + rewrite app_nil_r in Hb. subst c. exists tr. exact Ht.
    + exfalso. assert (Hx : normal x).
      { pose proof (rclean_normal dest) as Hn. rewrite Hb in Hn.
        apply Forall_app_r in Hn. inversion Hn; assumption. }
      apply normal_tests in Hx. destruct Hx as [_ [_ Hx]]. rewrite Hx in Hrel.
      inversion Hrel; subst r. cbn in Hesc. discriminate.
Qed.

(** the statement used by the design: the joined, cleaned destination of an
    entry is either inside the destination directory or its relative path from
    there starts with ".." (and the entry is rejected) *)
Theorem join_inside_or_escapes : forall dest n, is_rooted dest = true ->
  let T := resolve (join dest n) in
  inside (resolve dest) T \/
  (exists r, rel dest (join dest n) = Some r /\ rel_escapes r = true).
Proof.
  intros dest n Hd T. subst T. rewrite join_rooted by exact Hd.
  set (T := fold_left rstep n (rclean dest)).
  assert (HT : Forall normal T) by (apply fold_rstep_normal_inv, rclean_normal).
  rewrite resolve_rooted_str by exact HT. rewrite resolve_rooted by exact Hd.
  destruct (rel dest (rooted_str T)) as [r|] eqn:Er.
  - destruct (rel_escapes r) eqn:Ee.
    + right. exists r. split; [reflexivity|exact Ee].
    + left. eapply rel_rooted_pass; eassumption.
  - exfalso. rewrite rel_rooted_unfold in Er by assumption.
    destruct (path_eqb _ _); [discriminate|].
    destruct (strip_common (rclean dest) T) as [br tr] eqn:Es. cbn [fst snd] in Er.
    apply strip_common_spec in Es. destruct Es as [c [Hb _]].
    destruct br as [|x br]; [discriminate|].
    assert (Hx : normal x).
    { pose proof (rclean_normal dest) as Hn. rewrite Hb in Hn.
      apply Forall_app_r in Hn. inversion Hn; assumption. }
    apply normal_tests in Hx. destruct Hx as [_ [_ Hx]]. rewrite Hx in Er. discriminate.
Qed.

(** * [Clean] of a path followed by ordinary elements (any spelling) *)

Lemma is_rooted_app_gen : forall p r, is_empty_str p = false -> is_rooted (p ++ r) = is_rooted p.
Proof.
  intros p r H. destruct p as [|s [|t p]]; cbn in H; try discriminate.
  - cbn [app is_rooted]. destruct r; [reflexivity|exact H].
  - reflexivity.
Qed.

Lemma clean_app_normal : forall p r, is_empty_str p = false -> Forall normal r ->
  clean (p ++ r) = mkC (c_rooted (clean p)) (c_up (clean p)) (c_segs (clean p) ++ r).
Proof.
  intros p r Hp Hr. unfold clean. rewrite is_rooted_app_gen by exact Hp.
  rewrite fold_left_app. cbn [c_rooted c_up c_segs].
  destruct (fold_left (cstep (is_rooted p)) p (0, [])) as [up stk].
  rewrite fold_cstep_normal by exact Hr. reflexivity.
Qed.

Lemma craw_not_empty : forall c, canonical c -> is_empty_str (craw c) = false.
Proof.
  intros [r up segs] [Hn Hr]. cbn [c_segs c_rooted c_up] in *. unfold craw. cbn [c_rooted c_segs c_up].
  destruct r.
  - destruct segs; reflexivity.
  - destruct (repeat s_dotdot up ++ segs) as [|x [|y l]] eqn:E; try reflexivity.
    cbn [is_empty_str]. destruct up as [|up].
    + cbn [repeat app] in E. subst segs. inversion Hn as [|? ? Hx _]; subst.
      apply normal_tests in Hx. tauto.
    + cbn [repeat app] in E. inversion E. reflexivity.
Qed.

Lemma clean_str_not_empty : forall p, is_empty_str (clean_str p) = false.
Proof. intros p. apply craw_not_empty, clean_canonical. Qed.

(** Clean(Clean(p) + "/" + r) = Clean(p + "/" + r): how filepath.Walk builds paths *)
Lemma clean_str_app_normal : forall p r, is_empty_str p = false -> Forall normal r ->
  clean_str (clean_str p ++ r) = clean_str (p ++ r).
Proof.
  intros p r Hp Hr. unfold clean_str at 1 3.
  rewrite (clean_app_normal (clean_str p) r) by (try apply clean_str_not_empty; exact Hr).
  rewrite clean_idempotent. rewrite (clean_app_normal p r) by assumption. reflexivity.
Qed.

(** * [Rel] from a directory (any spelling) to a file below it *)

Lemma rel_below : forall s r, is_empty_str s = false -> r <> [] -> Forall normal r ->
  rel s (clean_str (s ++ r)) = Some r.
Proof.
  intros s r Hs Hne Hr.
  assert (Hct : clean (clean_str (s ++ r)) =
                mkC (c_rooted (clean s)) (c_up (clean s)) (c_segs (clean s) ++ r)).
  { rewrite clean_idempotent. apply clean_app_normal; assumption. }
  unfold rel. rewrite Hct. clear Hct.
  pose proof (clean_canonical s) as Hc. destruct (clean s) as [ro up segs] eqn:Ec.
  cbn [c_rooted c_up c_segs] in *. cbv zeta.
  assert (Hc' : canonical (mkC ro up (segs ++ r))).
  { destruct Hc as [Hn Hu]. split; [|exact Hu]. cbn [c_segs]. apply Forall_app. split; assumption. }
  destruct (path_eqb (craw (mkC ro up segs)) (craw (mkC ro up (segs ++ r)))) eqn:Ee.
  { exfalso. apply path_eqb_eq in Ee.
    assert (E : mkC ro up segs = mkC ro up (segs ++ r)).
    { rewrite <- (clean_craw _ Hc), <- (clean_craw _ Hc'), Ee. reflexivity. }
    inversion E as [E1]. rewrite <- (app_nil_r segs) in E1 at 1. apply app_inv_head in E1. congruence. }
  rewrite Bool.eqb_reflx. cbn [negb]. unfold elems_base, elems_targ. cbn [c_rooted c_up c_segs].
  assert (Hres : forall l, strip_common l (l ++ r) = ([], r)) by (intros; apply strip_common_prefix).
  destruct ro.
  - change (s_empty :: segs ++ r) with ((s_empty :: segs) ++ r). rewrite Hres. cbn [fst snd].
    destruct r; [congruence|reflexivity].
  - destruct (repeat s_dotdot up ++ segs ++ r) as [|x l] eqn:El.
    + apply app_eq_nil in El. destruct El as [_ El]. apply app_eq_nil in El. tauto.
    + rewrite <- El, app_assoc, Hres. cbn [fst snd]. destruct r; [congruence|reflexivity].
Qed.

(** filepath.Dir of a relative path of ordinary names is "." exactly for a single name *)
Lemma dir_of_names : forall r, r <> [] -> Forall normal r ->
  path_eqb (dir_of r) [s_dot] = match r with [_] => true | _ => false end.
Proof.
  intros r Hne Hr. unfold dir_of, split_dir. destruct r as [|x [|y r]]; [congruence| |].
  - reflexivity.
  - assert (Hq : Forall normal (removelast (x :: y :: r))) by (apply Forall_removelast; exact Hr).
    destruct (removelast (x :: y :: r)) as [|z q] eqn:Eq; [cbn in Eq; destruct r; discriminate|].
    assert (Hz : normal z) by (inversion Hq; assumption).
    unfold clean_str, clean.
    assert (Hro : is_rooted ((z :: q) ++ [s_empty]) = false).
    { apply normal_tests in Hz. cbn [app is_rooted]. destruct (q ++ [s_empty]); tauto. }
    rewrite Hro, fold_left_app, fold_cstep_normal by exact Hq. cbn [fold_left app].
    unfold craw. cbn [c_rooted c_up c_segs repeat app cstep fst snd seg_eqb s_empty orb].
    apply path_eqb_neq. intros E. inversion E; subst. apply normal_tests in Hz.
    destruct Hz as [_ [Hz _]]. cbn in Hz. discriminate.
Qed.
