(** C10: what the refinement means.  Corollaries proved on the specification
    spec/OMap.v (vocabulary: spec/OMapObs.v) and transferred to the pointer
    model (vocabulary: model/IMapObs.v) through [imap_step_sim]. *)
From Coq Require Import List ZArith Arith Bool Lia Sorted.
From GL Require Import lib.IMapBase model.IMap model.Chain spec.OMap spec.OMapObs model.IMapObs model.legacy.IMapLegacy
  proofs.C10_Assoc proofs.C10_Cells proofs.C10_Next proofs.C10_R2 proofs.C10_ChainSim
  proofs.C10_Heap proofs.C10_L1 proofs.C10_Repr proofs.C10_Main.
Import ListNotations.
Open Scope Z_scope.

Notation onames o := (map fst (opos o)).

(** * Histories, states, answers *)

Lemma wf_app : forall h1 open h2,
  wf_from open (h1 ++ h2) = wf_from open h1 && wf_from (fold_left open_after h1 open) h2.
Proof.
  induction h1 as [|x t IH]; intros open h2; cbn [app fold_left]; [reflexivity|].
  destruct x as [k v|k|k| | |i|i|i|i]; cbn [wf_from open_after]; rewrite ?IH, ?andb_assoc; reflexivity.
Qed.

Lemma ostate_snoc h x : ostate (h ++ [x]) = fst (o_step (ostate h) x).
Proof. unfold ostate. rewrite fold_left_app. reflexivity. Qed.

Lemma istate_snoc ch h x : istate ch (h ++ [x]) = fst (i_step ch (istate ch h) x).
Proof. unfold istate. rewrite fold_left_app. reflexivity. Qed.

Lemma fold_sim ch : forall h open s o,
  R s o -> (forall y, In y open <-> In y (onames o)) -> wf_from open h = true ->
  R (fold_left (fun s x => fst (i_step ch s x)) h s) (fold_left (fun s x => fst (o_step s x)) h o) /\
  (forall y, In y (fold_left open_after h open) <->
             In y (onames (fold_left (fun s x => fst (o_step s x)) h o))).
Proof.
  induction h as [|x t IH]; intros open s o HR Hs Hwf; cbn [fold_left]; [auto|].
  pose proof (wf_head_ok open _ x t Hs Hwf) as Hok.
  destruct (imap_step_sim ch s o x HR Hok) as (s' & Hi & HR').
  assert (Hst : i_step ch s x = (s', snd (o_step o x))) by (unfold i_step; rewrite Hi; reflexivity).
  rewrite Hst. cbn [fst]. apply (IH (open_after open x)); [exact HR'| |apply wf_tail; exact Hwf].
  apply open_after_names; assumption.
Qed.

Lemma R_states ch h : wf_hist h -> R (istate ch h) (ostate h).
Proof. intros Hwf. apply (fold_sim ch h [] i_new o_new R_init); [cbn; tauto|exact Hwf]. Qed.

Lemma open_states h : wf_hist h -> forall y, In y (fold_left open_after h []) <-> In y (onames (ostate h)).
Proof. intros Hwf. apply (fold_sim (fun _ => None) h [] i_new o_new R_init); [cbn; tauto|exact Hwf]. Qed.

(* a history can be extended by a call iff the call is allowed in the state it has reached *)
Lemma wf_snoc h x : wf_hist (h ++ [x]) <-> wf_hist h /\ op_ok (onames (ostate h)) x.
Proof.
  unfold wf_hist. rewrite wf_app, andb_true_iff. split.
  - intros [H1 H2]. split; [exact H1|]. eapply wf_head_ok; [|exact H2]. apply open_states. exact H1.
  - intros [H1 H2]. split; [exact H1|]. pose proof (open_states h H1) as Ho.
    destruct x as [k v|k|k| | |i|i|i|i]; cbn [wf_from op_ok] in *; try reflexivity; rewrite andb_true_r.
    + apply negb_true_iff, memZ_false. rewrite Ho. exact H2.
    + apply memZ_in. rewrite Ho. exact H2.
    + apply memZ_in. rewrite Ho. exact H2.
    + apply memZ_in. rewrite Ho. exact H2.
Qed.

Lemma wf_prefix h1 h2 : wf_hist (h1 ++ h2) -> wf_hist h1.
Proof. unfold wf_hist. rewrite wf_app, andb_true_iff. tauto. Qed.

Lemma wf_cons_ok h1 x t : wf_hist (h1 ++ x :: t) -> wf_hist (h1 ++ [x]) /\ op_ok (onames (ostate h1)) x.
Proof.
  intros H. replace (h1 ++ x :: t) with ((h1 ++ [x]) ++ t) in H by (rewrite <- app_assoc; reflexivity).
  apply wf_prefix in H. split; [exact H|]. apply wf_snoc in H. tauto.
Qed.

(** the pointer model answers what the specification answers, whatever the pool does *)
Theorem answer_refines : forall ch h x, wf_hist (h ++ [x]) -> i_answer ch h x = o_answer h x.
Proof.
  intros ch h x H. apply wf_snoc in H. destruct H as [Hwf Hok].
  destruct (imap_step_sim ch _ _ x (R_states ch h Hwf) Hok) as (s' & Hi & _).
  unfold i_answer, o_answer, i_step. rewrite Hi. reflexivity.
Qed.

(* ... and [i_answer] is what the run of the main theorem outputs *)
Lemma run_snoc {S} (step : S -> op -> S * out) : forall h s x,
  Forall (fun y => is_stop y = false) (fst (run step s h)) ->
  fst (run step s (h ++ [x])) = fst (run step s h) ++ [snd (step (fold_left (fun s x => fst (step s x)) h s) x)].
Proof.
  induction h as [|a t IH]; intros s x Hall; cbn [app run fold_left].
  - destruct (step s x) as [s' y]. destruct (is_stop y); reflexivity.
  - cbn [run] in Hall. destruct (step s a) as [s' y] eqn:E. cbn [fst].
    destruct (is_stop y) eqn:Es.
    + cbn [fst] in Hall. inversion Hall; subst. congruence.
    + destruct (run step s' t) as [xs sf] eqn:Er. cbn [fst] in Hall. inversion Hall; subst.
      specialize (IH s' x). rewrite Er in IH. cbn [fst] in IH.
      destruct (run step s' (t ++ [x])) as [xs' sf']. cbn [fst] in *. rewrite IH by assumption. reflexivity.
Qed.

Theorem run_imap_snoc : forall ch h x, wf_hist (h ++ [x]) ->
  run_imap ch (h ++ [x]) = run_imap ch h ++ [i_answer ch h x].
Proof.
  intros ch h x H. pose proof (wf_prefix _ _ H) as Hwf.
  rewrite (answer_refines ch h x H), !imap_refines_omap by assumption.
  unfold run_omap, outs. rewrite run_snoc; [reflexivity|].
  destruct (chain_run_sim h [] c_new o_new R2_init) as (_ & _ & H3); [cbn; tauto|exact Hwf|exact H3].
Qed.

(** * Get, Len, First: the live entries in insertion order *)

Lemma alookup_kv es k : alookup k (map kv (filter e_live es)) = option_map e_val (o_find es k).
Proof.
  unfold o_find. induction es as [|e t IH]; cbn [filter map find]; [reflexivity|].
  unfold live_with at 1. destruct (e_live e); cbn [andb map alookup kv fst]; [|exact IH].
  destruct (e_key e =? k); [reflexivity|exact IH].
Qed.

Lemma kv_kill k es : map kv (filter e_live (map (kill k) es)) = aremove k (map kv (filter e_live es)).
Proof.
  unfold aremove. induction es as [|e t IH]; cbn [map filter]; [reflexivity|].
  destruct (live_with k e) eqn:Elw.
  - replace (kill k e) with (mkEntry (e_key e) (e_val e) false) by (unfold kill; rewrite Elw; reflexivity).
    cbn [e_live]. apply live_with_iff in Elw. destruct Elw as [El Ek]. rewrite El. cbn [map filter kv fst].
    rewrite Ek, Z.eqb_refl. cbn [negb]. exact IH.
  - replace (kill k e) with e by (unfold kill; rewrite Elw; reflexivity).
    destruct (e_live e) eqn:El; [|exact IH]. cbn [map filter kv fst].
    unfold live_with in Elw. rewrite El in Elw. cbn [andb] in Elw. rewrite Elw. cbn [negb]. f_equal. exact IH.
Qed.

Lemma step_entries_other o x : (forall k v, x <> OAdd k v) -> (forall k, x <> ORemove k) ->
  entries (fst (o_step o x)) = entries o.
Proof.
  intros Ha Hr. destruct x as [k v|k|k| | |i|i|i|i]; cbn [o_step fst entries]; try reflexivity.
  - exfalso. eapply Ha. reflexivity.
  - exfalso. eapply Hr. reflexivity.
  - destruct (alookup i (opos o)); reflexivity.
  - destruct (alookup i (opos o)) as [p|]; [|reflexivity]. destruct (first_live (entries o) p) as [[j e]|]; reflexivity.
  - destruct (alookup i (opos o)); reflexivity.
Qed.

Lemma kv_fold : forall h l o, l = map kv (filter e_live (entries o)) ->
  fold_left kv_step h l = map kv (filter e_live (entries (fold_left (fun s x => fst (o_step s x)) h o))).
Proof.
  induction h as [|x t IH]; intros l o Hl; cbn [fold_left]; [exact Hl|]. apply IH. subst l.
  destruct x as [k v|k|k| | |i|i|i|i]; cbn [kv_step];
    try (rewrite step_entries_other by (intros; discriminate); reflexivity).
  - rewrite alookup_kv. cbn [o_step]. destruct (o_find (entries o) k); cbn [option_map fst entries]; [reflexivity|].
    rewrite filter_app, map_app. reflexivity.
  - cbn [o_step fst entries]. symmetry. apply kv_kill.
Qed.

Lemma live_kv_entries h : live_kv h = map kv (filter e_live (entries (ostate h))).
Proof. apply kv_fold. reflexivity. Qed.

Lemma live_kv_nodup h : NoDup (map fst (live_kv h)).
Proof.
  unfold live_kv. assert (H : NoDup (map fst (@nil (Z * Z)))) by constructor. revert H.
  generalize (@nil (Z * Z)). induction h as [|x t IH]; intros l Hl; cbn [fold_left]; [exact Hl|]. apply IH.
  destruct x as [k v|k|k| | |i|i|i|i]; cbn [kv_step]; try exact Hl.
  - destruct (alookup k l) eqn:E; [exact Hl|]. rewrite map_app. cbn [map fst]. apply nodup_snoc; [exact Hl|].
    apply alookup_none. exact E.
  - apply aremove_nodup. exact Hl.
Qed.

Lemma first_live_from_hd es : forall i,
  option_map (fun r => kv (snd r)) (first_live_from i es) = hd_error (map kv (filter e_live es)).
Proof.
  induction es as [|e t IH]; intros i; cbn [first_live_from filter]; [reflexivity|].
  destruct (e_live e); [reflexivity|apply IH].
Qed.

Lemma first_live_hd es : option_map (fun r => kv (snd r)) (first_live es 0) = hd_error (map kv (filter e_live es)).
Proof. unfold first_live. cbn [skipn]. apply first_live_from_hd. Qed.

Lemma wf_snoc_basic h x : wf_hist h ->
  match x with ONewIter _ | OHasNext _ | ONext _ | OClose _ => False | _ => True end -> wf_hist (h ++ [x]).
Proof. intros Hwf Hx. apply wf_snoc. split; [exact Hwf|]. destruct x; cbn [op_ok]; try exact I; destruct Hx. Qed.

Theorem get_len_exact : forall ch h, wf_hist h ->
  (forall k, i_answer ch h (OGet k) = OutGet (alookup k (live_kv h))) /\
  i_answer ch h OLen = OutLen (length (live_kv h)) /\
  NoDup (map fst (live_kv h)).
Proof.
  intros ch h Hwf. split; [|split; [|apply live_kv_nodup]].
  - intros k. rewrite answer_refines by (apply wf_snoc_basic; [exact Hwf|exact I]).
    unfold o_answer. cbn [o_step snd]. rewrite live_kv_entries, alookup_kv. reflexivity.
  - rewrite answer_refines by (apply wf_snoc_basic; [exact Hwf|exact I]).
    unfold o_answer. cbn [o_step snd]. rewrite live_kv_entries, map_length. reflexivity.
Qed.

Theorem first_is_oldest_live : forall ch h, wf_hist h ->
  i_answer ch h OFirst = OutFirst (option_map fst (hd_error (live_kv h))) /\
  (forall i, ~ In i (onames (ostate h)) ->
     wf_hist (h ++ [ONewIter i]) /\ live_kv (h ++ [ONewIter i]) = live_kv h /\
     i_answer ch (h ++ [ONewIter i]) (ONext i) = OutNext (hd_error (live_kv h))).
Proof.
  intros ch h Hwf. split.
  - rewrite answer_refines by (apply wf_snoc_basic; [exact Hwf|exact I]).
    unfold o_answer. cbn [o_step snd]. rewrite live_kv_entries, <- first_live_hd.
    destruct (first_live (entries (ostate h)) 0) as [[j e]|]; reflexivity.
  - intros i Hi. assert (Hwf1 : wf_hist (h ++ [ONewIter i])) by (apply wf_snoc; split; [exact Hwf|exact Hi]).
    split; [exact Hwf1|]. split; [unfold live_kv; rewrite fold_left_app; reflexivity|].
    rewrite answer_refines.
    + unfold o_answer. rewrite ostate_snoc. cbn [o_step fst snd opos entries alookup]. rewrite Z.eqb_refl.
      rewrite live_kv_entries, <- first_live_hd.
      destruct (first_live (entries (ostate h)) 0) as [[j e]|]; reflexivity.
    + apply wf_snoc. split; [exact Hwf1|]. rewrite ostate_snoc. cbn [o_step fst opos map op_ok]. left. reflexivity.
Qed.

Theorem iter_never_removed : forall ch h i k v, wf_hist (h ++ [ONext i]) ->
  i_answer ch h (ONext i) = OutNext (Some (k, v)) -> In (k, v) (live_kv h).
Proof.
  intros ch h i k v Hwf H. rewrite answer_refines in H by exact Hwf. unfold o_answer in H. cbn [o_step] in H.
  destruct (alookup i (opos (ostate h))) as [p|]; [|discriminate H].
  destruct (first_live (entries (ostate h)) p) as [[j e]|] eqn:Ef; [|discriminate H].
  cbn [snd] in H. injection H as <- <-.
  destruct (first_live_inv _ _ _ _ Ef) as (_ & Hn & Hl & _).
  rewrite live_kv_entries. apply (in_map kv _ e). apply filter_In. split; [eapply nth_error_In; exact Hn|exact Hl].
Qed.

(** * Stamps: entries keep their place, key and value; a removed entry stays removed *)

Lemma step_stable o x j e : nth_error (entries o) j = Some e ->
  exists e', nth_error (entries (fst (o_step o x))) j = Some e' /\ kv e' = kv e /\ (e_live e' = true -> e_live e = true).
Proof.
  intros Hn.
  destruct x as [k v|k|k| | |i|i|i|i];
    try (rewrite step_entries_other by (intros; discriminate); exists e; auto).
  - cbn [o_step]. destruct (o_find (entries o) k); cbn [fst entries]; [exists e; auto|].
    exists e. split; [|auto]. rewrite nth_error_app1; [exact Hn|]. apply nth_error_Some. congruence.
  - cbn [o_step fst entries]. exists (kill k e). rewrite nth_error_map, Hn. split; [reflexivity|].
    unfold kill. destruct (live_with k e); cbn; (split; [reflexivity|]); [discriminate|auto].
Qed.

Lemma stable : forall h2 h1 j e, nth_error (entries (ostate h1)) j = Some e ->
  exists e', nth_error (entries (ostate (h1 ++ h2))) j = Some e' /\ kv e' = kv e /\ (e_live e' = true -> e_live e = true).
Proof.
  induction h2 as [|x t IH]; intros h1 j e Hn.
  - rewrite app_nil_r. exists e. auto.
  - destruct (step_stable (ostate h1) x j e Hn) as (e1 & H1 & Hk1 & Hl1). rewrite <- ostate_snoc in H1.
    destruct (IH (h1 ++ [x]) j e1 H1) as (e2 & H2 & Hk2 & Hl2). rewrite <- app_assoc in H2. cbn [app] in H2.
    exists e2. split; [exact H2|]. split; [congruence|auto].
Qed.

Theorem added_prefix : forall h1 h2, exists t, added (h1 ++ h2) = added h1 ++ t.
Proof.
  intros h1 h2. unfold added.
  assert (H : forall j e, nth_error (map kv (entries (ostate h1))) j = Some e ->
                          nth_error (map kv (entries (ostate (h1 ++ h2)))) j = Some e).
  { intros j e Hj. rewrite nth_error_map in Hj. destruct (nth_error (entries (ostate h1)) j) as [e0|] eqn:E; [|discriminate Hj].
    injection Hj as <-. destruct (stable h2 h1 j e0 E) as (e' & H' & Hk & _). rewrite nth_error_map, H'. cbn. congruence. }
  revert H. generalize (map kv (entries (ostate (h1 ++ h2)))). generalize (map kv (entries (ostate h1))).
  induction l as [|a t IH]; intros l' H; [exists l'; reflexivity|].
  destruct l' as [|b t']; [specialize (H 0%nat a eq_refl); discriminate|].
  pose proof (H 0%nat a eq_refl) as H0. cbn in H0. injection H0 as ->.
  destruct (IH t') as (r & ->); [intros j e Hj; exact (H (S j) e Hj)|]. exists r. reflexivity.
Qed.

Lemma dead_stays h1 h2 j e : nth_error (entries (ostate h1)) j = Some e -> e_live e = false ->
  live_at (h1 ++ h2) j = false.
Proof.
  intros Hn Hd. destruct (stable h2 h1 j e Hn) as (e' & H' & _ & Hl). unfold live_at. rewrite H'.
  destruct (e_live e'); [|reflexivity]. rewrite Hl in Hd by reflexivity. discriminate.
Qed.

(** * One iterator *)

Lemma alookup_aremove_other {V} i i' (l : list (Z * V)) : i <> i' -> alookup i (aremove i' l) = alookup i l.
Proof.
  intros Hne. unfold aremove. induction l as [|[k v] t IH]; cbn [filter alookup fst]; [reflexivity|].
  destruct (Z.eqb_spec k i') as [->|Hk]; cbn [negb alookup].
  - destruct (Z.eqb_spec i' i); [congruence|exact IH].
  - destruct (k =? i); [reflexivity|exact IH].
Qed.

(* the position of an open iterator: moved only by its own Next, and then just past what it returns *)
Lemma step_pos o x i p : op_ok (onames o) x -> x <> OClose i -> alookup i (opos o) = Some p ->
  alookup i (opos (fst (o_step o x))) =
    Some (match x with
          | ONext j => if j =? i then match first_live (entries o) p with Some (s, _) => S s | None => p end else p
          | _ => p
          end).
Proof.
  intros Hok Hx Hp. assert (Hin : In i (onames o)) by (apply alookup_in in Hp; apply (in_map fst) in Hp; exact Hp).
  destruct x as [k v|k|k| | |j|j|j|j]; cbn [o_step op_ok] in *; try exact Hp.
  - destruct (o_find (entries o) k); exact Hp.
  - cbn [fst opos alookup]. destruct (Z.eqb_spec j i) as [->|Hne]; [contradiction|exact Hp].
  - destruct (alookup j (opos o)); exact Hp.
  - destruct (Z.eqb_spec j i) as [->|Hne].
    + rewrite Hp. destruct (first_live (entries o) p) as [[s e]|]; cbn [fst opos]; [|exact Hp].
      apply alookup_aset_same. exact Hin.
    + destruct (alookup j (opos o)) as [q|]; [|exact Hp].
      destruct (first_live (entries o) q) as [[s e]|]; cbn [fst opos]; [|exact Hp].
      rewrite alookup_aset_other by congruence. exact Hp.
  - destruct (alookup j (opos o)) as [q|]; [|exact Hp]. cbn [fst opos].
    rewrite alookup_aremove_other by congruence. exact Hp.
Qed.

Lemma returned_cons i h1 x t :
  returned i h1 (x :: t) =
  (match x with
   | ONext j => if j =? i then match stamp_ret h1 i with Some s => [s] | None => [] end else []
   | _ => []
   end) ++ returned i (h1 ++ [x]) t.
Proof. reflexivity. Qed.

(** the window of an iterator over a stretch of history during which it stays open: it moves
    forward only; what it returns lies in the window, in strictly increasing stamp order; and
    every entry of the window that is still live at the end was returned *)
Theorem iter_window : forall h2 h1 i p,
  wf_hist (h1 ++ h2) -> pos_of h1 i = Some p -> ~ In (OClose i) h2 ->
  exists p', pos_of (h1 ++ h2) i = Some p' /\ (p <= p')%nat /\
    StronglySorted lt (returned i h1 h2) /\
    (forall j, In j (returned i h1 h2) -> (p <= j < p')%nat) /\
    (forall j, (p <= j < p')%nat -> live_at (h1 ++ h2) j = true -> In j (returned i h1 h2)).
Proof.
  induction h2 as [|x t IH]; intros h1 i p Hwf Hp Hnc.
  - rewrite app_nil_r. exists p. split; [exact Hp|]. split; [lia|]. split; [constructor|].
    split; [intros j []|]. intros j Hj. lia.
  - destruct (wf_cons_ok h1 x t Hwf) as [Hwf1 Hok].
    assert (Hx : x <> OClose i) by (intros ->; apply Hnc; left; reflexivity).
    pose proof (step_pos (ostate h1) x i p Hok Hx Hp) as Hp2. rewrite <- ostate_snoc in Hp2.
    assert (Hwf' : wf_hist ((h1 ++ [x]) ++ t)) by (rewrite <- app_assoc; exact Hwf).
    assert (Hnc' : ~ In (OClose i) t) by (intros H; apply Hnc; right; exact H).
    replace (h1 ++ x :: t) with ((h1 ++ [x]) ++ t) by (rewrite <- app_assoc; reflexivity).
    rewrite returned_cons.
    assert (Hsame : pos_of (h1 ++ [x]) i = Some p ->
              exists p', pos_of ((h1 ++ [x]) ++ t) i = Some p' /\ (p <= p')%nat /\
                StronglySorted lt (returned i (h1 ++ [x]) t) /\
                (forall j, In j (returned i (h1 ++ [x]) t) -> (p <= j < p')%nat) /\
                (forall j, (p <= j < p')%nat -> live_at ((h1 ++ [x]) ++ t) j = true -> In j (returned i (h1 ++ [x]) t))).
    { intros Hpp. exact (IH (h1 ++ [x]) i p Hwf' Hpp Hnc'). }
    destruct x as [k v|k|k| | |j|j|j|j]; try (cbn [app]; exact (Hsame Hp2)).
    destruct (Z.eqb_spec j i) as [->|Hne]; [|cbn [app]; exact (Hsame Hp2)].
    assert (Hsr : stamp_ret h1 i = option_map fst (first_live (entries (ostate h1)) p))
      by (unfold stamp_ret; rewrite Hp; reflexivity).
    rewrite Hsr. unfold pos_of in Hp.
    destruct (first_live (entries (ostate h1)) p) as [[s e]|] eqn:Ef; cbn [option_map fst];
      [|cbn [app]; exact (Hsame Hp2)].
    destruct (first_live_inv _ _ _ _ Ef) as (Hps & Hn & Hl & Hdead).
    destruct (IH (h1 ++ [ONext i]) i (S s) Hwf' Hp2 Hnc') as (p' & H1 & H2 & H3 & H4 & H5).
    exists p'. split; [exact H1|]. split; [lia|]. cbn [app]. split; [|split].
    + constructor; [exact H3|]. apply Forall_forall. intros j Hj. apply H4 in Hj. lia.
    + intros j [<-|Hj]; [lia|]. apply H4 in Hj. lia.
    + intros j Hj Hlive. destruct (Nat.lt_ge_cases s j) as [Hgt|Hle]; [right; apply H5; [lia|exact Hlive]|].
      destruct (Nat.eq_dec j s) as [->|Hnes]; [left; reflexivity|]. exfalso.
      assert (Hjs : (j < length (entries (ostate h1)))%nat).
      { assert (s < length (entries (ostate h1)))%nat by (apply nth_error_Some; congruence). lia. }
      destruct (nth_error (entries (ostate h1)) j) as [ej|] eqn:Ej; [|apply nth_error_None in Ej; lia].
      assert (Hdj : e_live ej = false) by (apply (Hdead j ej); [lia|exact Ej]).
      rewrite <- app_assoc in Hlive. cbn [app] in Hlive.
      rewrite (dead_stays h1 (ONext i :: t) j ej Ej Hdj) in Hlive. discriminate.
Qed.

Theorem iter_in_order_once : forall h1 h2 i p,
  wf_hist (h1 ++ h2) -> pos_of h1 i = Some p -> ~ In (OClose i) h2 ->
  StronglySorted lt (returned i h1 h2) /\ NoDup (returned i h1 h2).
Proof.
  intros h1 h2 i p Hwf Hp Hnc. destruct (iter_window h2 h1 i p Hwf Hp Hnc) as (p' & _ & _ & Hs & _).
  split; [exact Hs|]. clear - Hs. induction Hs as [|a l _ IH Hall]; constructor; [|exact IH].
  intros Hin. apply (proj1 (Forall_forall _ _) Hall) in Hin. lia.
Qed.

(* an entry inside the window that is live at the end was returned, exactly once *)
Theorem iter_complete : forall h1 h2 i p p' j,
  wf_hist (h1 ++ h2) -> pos_of h1 i = Some p -> ~ In (OClose i) h2 -> pos_of (h1 ++ h2) i = Some p' ->
  (p <= j < p')%nat -> live_at (h1 ++ h2) j = true ->
  In j (returned i h1 h2) /\ NoDup (returned i h1 h2).
Proof.
  intros h1 h2 i p p' j Hwf Hp Hnc Hp' Hj Hl.
  destruct (iter_window h2 h1 i p Hwf Hp Hnc) as (p'' & H1 & _ & _ & _ & H5).
  assert (p'' = p') by congruence. subst p''. split; [apply H5; assumption|].
  apply (iter_in_order_once h1 h2 i p Hwf Hp Hnc).
Qed.

(* positions never run ahead of the entries *)
Lemma pos_le_len h i p : wf_hist h -> pos_of h i = Some p -> (p <= length (entries (ostate h)))%nat.
Proof.
  intros Hwf Hp. destruct (R_states (fun _ => None) h Hwf) as (c & zs & _ & H2).
  unfold pos_of in Hp. pose proof (r2_iters _ _ H2) as Ht.
  apply alookup_in in Hp. revert Hp. induction Ht as [|[ka va] [kb vb] ta tb [_ HR] _ IH]; cbn [In]; [tauto|].
  intros [[= -> ->]|Hin]; [|auto]. destruct HR as [HR _]. cbn [snd] in HR. lia.
Qed.

(* an entry added while the iterator is open: its stamp is not behind the iterator, so, as long
   as it is live, it has been returned or the iterator has not yet reached it -- and then
   the next call returns it or an earlier entry, never skips it *)
Theorem iter_sees_added : forall h1 k v h2 i p,
  wf_hist (h1 ++ OAdd k v :: h2) -> pos_of h1 i = Some p -> ~ In (OClose i) h2 ->
  alookup k (live_kv h1) = None ->
  let j := length (added h1) in
  let h := h1 ++ OAdd k v :: h2 in
  nth_error (added h) j = Some (k, v) /\
  (live_at h j = true ->
     In j (returned i h1 (OAdd k v :: h2)) \/
     (exists j', stamp_ret h i = Some j' /\ (j' <= j)%nat)).
Proof.
  intros h1 k v h2 i p Hwf Hp Hnc Hnew j h.
  assert (Hwf1 : wf_hist h1) by (eapply wf_prefix; exact Hwf).
  assert (Hj : nth_error (entries (ostate (h1 ++ [OAdd k v]))) j = Some (mkEntry k v true)).
  { rewrite ostate_snoc. cbn [o_step]. rewrite live_kv_entries, alookup_kv in Hnew.
    destruct (o_find (entries (ostate h1)) k); [discriminate Hnew|]. cbn [fst entries].
    unfold j, added. rewrite map_length, nth_error_app2, Nat.sub_diag by lia. reflexivity. }
  split.
  - destruct (stable h2 (h1 ++ [OAdd k v]) j _ Hj) as (e' & H' & Hk & _).
    rewrite <- app_assoc in H'. cbn [app] in H'. unfold added, h. rewrite nth_error_map, H'. cbn [option_map].
    rewrite Hk. reflexivity.
  - intros Hlive. assert (Hnc' : ~ In (OClose i) (OAdd k v :: h2)) by (intros [H|H]; [discriminate H|contradiction]).
    destruct (iter_window (OAdd k v :: h2) h1 i p Hwf Hp Hnc') as (p' & Hp' & Hle & _ & _ & H5).
    pose proof (pos_le_len h1 i p Hwf1 Hp) as Hpl. unfold j, added in *. rewrite map_length in *.
    destruct (Nat.lt_ge_cases (length (entries (ostate h1))) p') as [Hlt|Hge].
    + left. apply H5; [lia|exact Hlive].
    + right. unfold stamp_ret. fold h in Hp'. rewrite Hp'.
      unfold live_at in Hlive. fold h in Hlive.
      destruct (nth_error (entries (ostate h)) (length (entries (ostate h1)))) as [e|] eqn:Ee; [|discriminate Hlive].
      destruct (first_live (entries (ostate h)) p') as [[j' e']|] eqn:Ef.
      * exists j'. split; [reflexivity|]. destruct (first_live_inv _ _ _ _ Ef) as (_ & _ & _ & Hd).
        destruct (Nat.le_gt_cases j' (length (entries (ostate h1)))) as [Hok|Hbad]; [exact Hok|].
        rewrite (Hd (length (entries (ostate h1))) e ltac:(lia) Ee) in Hlive. discriminate.
      * apply first_live_none_inv in Ef.
        assert (Hlt : (length (entries (ostate h1)) < length (entries (ostate h)))%nat) by (apply nth_error_Some; congruence).
        rewrite (Ef (length (entries (ostate h1))) e ltac:(lia) Ee) in Hlive. discriminate.
Qed.

(** * The same, read off the pointer model's answers *)

Lemma next_answer h i : wf_hist (h ++ [ONext i]) ->
  o_answer h (ONext i) =
  OutNext (match stamp_ret h i with Some j => nth_error (added h) j | None => None end).
Proof.
  intros Hwf. apply wf_snoc in Hwf. destruct Hwf as [_ Hok]. cbn [op_ok] in Hok.
  destruct (alookup_some_in i _ Hok) as (p & Hp).
  unfold o_answer, stamp_ret, pos_of. cbn [o_step]. rewrite Hp.
  destruct (first_live (entries (ostate h)) p) as [[j e]|] eqn:Ef; cbn [snd option_map fst]; [|reflexivity].
  destruct (first_live_inv _ _ _ _ Ef) as (_ & Hn & _). unfold added. rewrite nth_error_map, Hn. reflexivity.
Qed.

Lemma stamp_ret_some h i s : stamp_ret h i = Some s -> exists e, nth_error (added h) s = Some e.
Proof.
  unfold stamp_ret. destruct (pos_of h i) as [p|]; [|discriminate].
  destruct (first_live (entries (ostate h)) p) as [[j e]|] eqn:Ef; [|discriminate]. cbn [option_map fst].
  intros [= <-]. destruct (first_live_inv _ _ _ _ Ef) as (_ & Hn & _).
  exists (kv e). unfold added. rewrite nth_error_map, Hn. reflexivity.
Qed.

(* the entries the pointer model's iterator returns are the entries with the stamps [returned] lists *)
Theorem rets_stamps : forall ch i h2 h1, wf_hist (h1 ++ h2) ->
  map Some (i_rets ch i h1 h2) = map (nth_error (added (h1 ++ h2))) (returned i h1 h2).
Proof.
  intros ch i. induction h2 as [|x t IH]; intros h1 Hwf; [reflexivity|].
  destruct (wf_cons_ok h1 x t Hwf) as [Hwf1 Hok].
  assert (Hwf' : wf_hist ((h1 ++ [x]) ++ t)) by (rewrite <- app_assoc; exact Hwf).
  cbn [i_rets]. rewrite returned_cons, !map_app. specialize (IH (h1 ++ [x]) Hwf').
  rewrite <- app_assoc in IH. cbn [app] in IH. rewrite IH. f_equal.
  destruct x as [k v|k|k| | |j|j|j|j]; try reflexivity.
  rewrite (answer_refines ch h1 (ONext j) Hwf1), (next_answer h1 j Hwf1).
  destruct (Z.eqb_spec j i) as [->|Hne].
  - destruct (stamp_ret h1 i) as [s|] eqn:Es; [|reflexivity].
    destruct (stamp_ret_some h1 i s Es) as (e & He). rewrite He. cbn [map]. f_equal.
    destruct (added_prefix h1 (ONext i :: t)) as (r & Hr). rewrite Hr, nth_error_app1, He; [reflexivity|].
    apply nth_error_Some. congruence.
  - destruct (stamp_ret h1 j) as [s|]; [destruct (nth_error (added h1) s)|]; reflexivity.
Qed.

(** * The statements about what the pointer model's iterators return *)

(* in insertion order, never the same Add twice *)
Theorem imap_iter_in_order_once : forall ch h1 h2 i p,
  wf_hist (h1 ++ h2) -> pos_of h1 i = Some p -> ~ In (OClose i) h2 ->
  exists stamps, StronglySorted lt stamps /\ NoDup stamps /\
    map Some (i_rets ch i h1 h2) = map (nth_error (added (h1 ++ h2))) stamps.
Proof.
  intros ch h1 h2 i p Hwf Hp Hnc. exists (returned i h1 h2).
  destruct (iter_in_order_once h1 h2 i p Hwf Hp Hnc) as [H1 H2]. split; [exact H1|]. split; [exact H2|].
  apply rets_stamps. exact Hwf.
Qed.

(* an entry the iterator has passed and that is still live has been returned *)
Theorem imap_iter_complete : forall ch h1 h2 i p p' j,
  wf_hist (h1 ++ h2) -> pos_of h1 i = Some p -> ~ In (OClose i) h2 -> pos_of (h1 ++ h2) i = Some p' ->
  (p <= j < p')%nat -> live_at (h1 ++ h2) j = true ->
  exists e, nth_error (added (h1 ++ h2)) j = Some e /\ In e (i_rets ch i h1 h2).
Proof.
  intros ch h1 h2 i p p' j Hwf Hp Hnc Hp' Hj Hl.
  destruct (iter_complete h1 h2 i p p' j Hwf Hp Hnc Hp' Hj Hl) as [Hin _].
  apply (in_map (nth_error (added (h1 ++ h2)))) in Hin. rewrite <- (rets_stamps ch i h2 h1 Hwf) in Hin.
  apply in_map_iff in Hin. destruct Hin as (e & He & Hin). exists e. auto.
Qed.

(* an entry added under an open iterator and still live has been returned, or lies ahead of it *)
Theorem imap_iter_sees_added : forall ch h1 k v h2 i p,
  wf_hist (h1 ++ OAdd k v :: h2) -> pos_of h1 i = Some p -> ~ In (OClose i) h2 ->
  alookup k (live_kv h1) = None ->
  let j := length (added h1) in
  let h := h1 ++ OAdd k v :: h2 in
  nth_error (added h) j = Some (k, v) /\
  (live_at h j = true ->
     In (k, v) (i_rets ch i h1 (OAdd k v :: h2)) \/
     (exists j', stamp_ret h i = Some j' /\ (j' <= j)%nat)).
Proof.
  intros ch h1 k v h2 i p Hwf Hp Hnc Hnew j h.
  destruct (iter_sees_added h1 k v h2 i p Hwf Hp Hnc Hnew) as [H1 H2]. fold j h in H1, H2.
  split; [exact H1|]. intros Hl. destruct (H2 Hl) as [Hin|Hahead]; [left|right; exact Hahead].
  apply (in_map (nth_error (added h))) in Hin. unfold h in Hin at 2. rewrite <- (rets_stamps ch i _ h1 Hwf) in Hin.
  apply in_map_iff in Hin. destruct Hin as (e & He & Hin). fold h in He. rewrite H1 in He. injection He as ->. exact Hin.
Qed.

(** * D1: closing an iterator -- also one parked on a removed entry -- leaves the map usable *)

Theorem close_leaves_usable : forall ch h i, wf_hist (h ++ [OClose i]) ->
  let h' := h ++ [OClose i] in
  i_answer ch h (OClose i) = OutUnit /\ live_kv h' = live_kv h /\
  (forall k, i_answer ch h' (OGet k) = OutGet (alookup k (live_kv h))) /\
  i_answer ch h' OLen = OutLen (length (live_kv h)) /\
  i_answer ch h' OFirst = OutFirst (option_map fst (hd_error (live_kv h))) /\
  (forall i', ~ In i' (onames (ostate h')) ->
     i_answer ch (h' ++ [ONewIter i']) (ONext i') = OutNext (hd_error (live_kv h))).
Proof.
  intros ch h i Hwf h'.
  assert (Hkv : live_kv h' = live_kv h) by (unfold h', live_kv; rewrite fold_left_app; reflexivity).
  split.
  - rewrite answer_refines by exact Hwf. apply wf_snoc in Hwf. destruct Hwf as [_ Hok]. cbn [op_ok] in Hok.
    destruct (alookup_some_in i _ Hok) as (p & Hp). unfold o_answer. cbn [o_step]. rewrite Hp. reflexivity.
  - split; [exact Hkv|]. destruct (get_len_exact ch h' Hwf) as (Hg & Hl & _).
    destruct (first_is_oldest_live ch h' Hwf) as (Hf & Hn). rewrite Hkv in *.
    split; [exact Hg|]. split; [exact Hl|]. split; [exact Hf|]. intros i' Hi'. apply (Hn i' Hi').
Qed.

(** * The pre-fix release (D1) *)

Lemma legacy_imap_refuted :
  exists h, wf_hist h /\ In OutPanic (run_imap_legacy always_fresh h) /\ ~ In OutPanic (run_omap h).
Proof.
  exists d1_witness. split; [reflexivity|]. split.
  - vm_compute. tauto.
  - vm_compute. intuition discriminate.
Qed.
