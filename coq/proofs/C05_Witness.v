(** C05, part 3: witness traces (checked by computation).
    - the renewal chain of the code before the D9 fix dies after ONE lost request;
    - on the current code a renewal whose REPLY is lost (applied by the storage, error
      returned) still breaks the lease: the retry presents the old version, is answered
      ErrConflict, the chain ends, the record of the live holder runs out
      (known finding D9-reply-lost-renewal). *)
From Coq Require Import List ZArith Bool Lia.
From GL Require Import model.LeaseLTS model.legacy.LeaseLegacy spec.Lease.
Import ListNotations.
Open Scope Z_scope.

(* TTL = 1000, timer lateness <= 5, call latency <= 5 *)
Definition legacy_trace : list label :=
  [Acquire; StCreate; AcqArm; Tick 501; TimerFire; StCas FReqLost; RetryArm; Tick 600].

Definition reply_lost_trace : list label :=
  [Acquire; StCreate; AcqArm; Tick 501; TimerFire; StCas FReplyLost; RetryArm;
   Tick 101; TimerFire; StCas FOk; Tick 1000].

Lemma premise_1000_5_5_1 : lease_premise 1000 5 5 1.
Proof. unfold lease_premise, half, tenth. cbn. lia. Qed.

Lemma premise_1000_5_5_0 : lease_premise 1000 5 5 0.
Proof. unfold lease_premise, half, tenth. cbn. lia. Qed.

Lemma legacy_renewal_dies_refuted :
  exists TTL dl ep k tr s,
    lease_premise TTL dl ep k /\
    run_legacy TTL init tr = Some s /\
    timely_legacy TTL dl ep init tr = true /\
    faults_ok_legacy TTL k init tr = true /\
    filter faulty tr = [StCas FReqLost] /\
    alive s = true /\ present s = None /\ lease_ok s = false /\
    exists s', step_legacy TTL s (ContenderTry 1 (now s + TTL)) = Some (s', RCreated (nextv s)).
Proof.
  exists 1000, 5, 5, 1, legacy_trace.
  eexists. split; [exact premise_1000_5_5_1|].
  split; [vm_compute; reflexivity|].
  repeat split; try (vm_compute; reflexivity).
  eexists. vm_compute. reflexivity.
Qed.

(* the same schedule on the current model: the retry is armed and the lease survives *)
Lemma current_survives_legacy_schedule :
  exists s,
    run 1000 init [Acquire; StCreate; AcqArm; Tick 501; TimerFire; StCas FReqLost; RetryArm;
                   Tick 101; TimerFire; StCas FOk; Rearm; Tick 500] = Some s /\
    alive s = true /\ lease_ok s = true.
Proof. eexists. split; [vm_compute; reflexivity|]. split; vm_compute; reflexivity. Qed.

Lemma reply_lost_renewal_breaks_lease :
  exists TTL dl ep tr s rs,
    lease_premise TTL dl ep 0 /\
    run TTL init tr = Some s /\
    run_res TTL init tr = Some rs /\
    timely TTL dl ep init tr = true /\
    filter faulty tr = [StCas FReplyLost] /\
    In RConflict rs /\ tst s = TDone /\
    alive s = true /\ present s = None /\ lease_ok s = false /\
    exists s', step TTL s (ContenderTry 1 (now s + TTL)) = Some (s', RCreated (nextv s)).
Proof.
  exists 1000, 5, 5, reply_lost_trace.
  eexists. eexists. split; [exact premise_1000_5_5_0|].
  split; [vm_compute; reflexivity|].
  split; [vm_compute; reflexivity|].
  repeat split; try (vm_compute; reflexivity).
  - cbn. auto 20.
  - eexists. vm_compute. reflexivity.
Qed.
