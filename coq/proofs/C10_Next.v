(** C10, layer L2 <-> specification, part 2: what the [next] loop of L2 does
    on [cells_from]: it moves one parked reference from stamp [s] to the next
    live-or-end stamp, unlinking the cell it leaves if that was pinned by it
    alone. *)
From Coq Require Import List ZArith Arith Bool Lia.
From GL Require Import lib.IMapBase model.Chain spec.OMap proofs.C10_Cells.
Import ListNotations.
Open Scope Z_scope.

(** * [first_live] *)

Definition dead_range (es : list entry) (a b : nat) : Prop :=
  forall j e, (a <= j < b)%nat -> nth_error es j = Some e -> e_live e = false.

Lemma first_live_from_some l : forall n i e,
  (forall k e', (k < n)%nat -> nth_error l k = Some e' -> e_live e' = false) ->
  nth_error l n = Some e -> e_live e = true ->
  first_live_from i l = Some ((i + n)%nat, e).
Proof.
  induction l as [|x t IH]; intros n i e Hd Hn Hl.
  - destruct n; discriminate.
  - destruct n as [|n]; cbn [first_live_from].
    + cbn in Hn. injection Hn as ->. rewrite Hl. f_equal. f_equal. lia.
    + rewrite (Hd 0%nat x) by (try lia; reflexivity).
      rewrite (IH n (S i) e); [f_equal; f_equal; lia| |exact Hn|exact Hl].
      intros k e' Hk He'. apply (Hd (S k)); [lia|exact He'].
Qed.

Lemma first_live_from_none l : forall i,
  (forall k e', nth_error l k = Some e' -> e_live e' = false) -> first_live_from i l = None.
Proof.
  induction l as [|x t IH]; intros i Hd; cbn [first_live_from]; [reflexivity|].
  rewrite (Hd 0%nat x) by reflexivity. apply IH. intros k e' He'. apply (Hd (S k)). exact He'.
Qed.

Lemma nth_error_skipn {A} (l : list A) : forall p k, nth_error (skipn p l) k = nth_error l (p + k).
Proof.
  induction l as [|x t IH]; intros p k.
  - rewrite skipn_nil. destruct k, (p + 0)%nat, p; reflexivity.
  - destruct p; [reflexivity|]. cbn [skipn Nat.add nth_error]. apply IH.
Qed.

Lemma first_live_some es p j e :
  (p <= j)%nat -> nth_error es j = Some e -> e_live e = true -> dead_range es p j ->
  first_live es p = Some (j, e).
Proof.
  intros Hp Hn Hl Hd. unfold first_live.
  rewrite (first_live_from_some (skipn p es) (j - p) p e).
  - f_equal. f_equal. lia.
  - intros k e' Hk He'. rewrite nth_error_skipn in He'. apply (Hd (p + k)%nat); [lia|exact He'].
  - rewrite nth_error_skipn. replace (p + (j - p))%nat with j by lia. exact Hn.
  - exact Hl.
Qed.

Lemma first_live_none es p : dead_range es p (length es) -> first_live es p = None.
Proof.
  intros Hd. unfold first_live. apply first_live_from_none.
  intros k e' He'. rewrite nth_error_skipn in He'. apply (Hd (p + k)%nat); [|exact He'].
  split; [lia|]. apply nth_error_Some. rewrite He'. discriminate.
Qed.

(* the stamp an iterator at position [p] will stop at: first live entry, else the end *)
Definition nlive (es : list entry) (p : nat) : nat :=
  match first_live es p with Some (j, _) => j | None => length es end.

Lemma dead_range_split es a b c : dead_range es a b -> dead_range es b c -> dead_range es a c.
Proof.
  intros H1 H2 j e Hj He. destruct (Nat.lt_ge_cases j b); [apply (H1 j)|apply (H2 j)]; auto; lia.
Qed.

Lemma dead_range_one es j e : nth_error es j = Some e -> e_live e = false -> dead_range es j (S j).
Proof. intros Hn Hd k e' Hk He'. assert (k = j) by lia. subst k. congruence. Qed.

Lemma dead_range_sub es a b a' b' : (a <= a')%nat -> (b' <= b)%nat -> dead_range es a b -> dead_range es a' b'.
Proof. intros Ha Hb H j e Hj. apply H. lia. Qed.

(** * [first_present] *)

Lemma first_present_spec r l : forall i,
  let fp := first_present r i l in
  (i <= fp <= i + length l)%nat /\
  (forall k e, (i <= k < fp)%nat -> nth_error l (k - i) = Some e -> e_live e = false /\ r k <= 0) /\
  ((fp < i + length l)%nat -> exists e, nth_error l (fp - i) = Some e /\ (e_live e = true \/ 0 < r fp)).
Proof.
  induction l as [|x t IH]; intros i; cbn [first_present length].
  - split; [lia|]. split; [intros; lia|intros; lia].
  - destruct (e_live x || (0 <? r i)) eqn:E.
    + split; [lia|]. split; [intros; lia|]. intros _. exists x. rewrite Nat.sub_diag. split; [reflexivity|].
      apply orb_true_iff in E. destruct E as [E|E]; [left; exact E|right; apply Z.ltb_lt; exact E].
    + apply orb_false_iff in E. destruct E as [E1 E2]. apply Z.ltb_ge in E2.
      destruct (IH (S i)) as (Hb & Hd & Hp). cbn zeta in *. split; [lia|]. split.
      * intros k e Hk He. destruct (Nat.eq_dec k i) as [->|Hne].
        -- rewrite Nat.sub_diag in He. injection He as <-. auto.
        -- apply (Hd k e); [lia|]. replace (k - i)%nat with (S (k - S i)) in He by lia. exact He.
      * intros Hlt. destruct Hp as (e & He & Hor); [lia|]. exists e. split; [|exact Hor].
        replace (first_present r (S i) t - i)%nat with (S (first_present r (S i) t - S i)) by lia. exact He.
Qed.

(* the same for the suffix of [es] starting at [a] *)
Lemma first_present_skipn r es a : (a <= length es)%nat ->
  let fp := first_present r a (skipn a es) in
  (a <= fp <= length es)%nat /\
  (forall k e, (a <= k < fp)%nat -> nth_error es k = Some e -> e_live e = false /\ r k <= 0) /\
  ((fp < length es)%nat -> exists e, nth_error es fp = Some e /\ (e_live e = true \/ 0 < r fp)).
Proof.
  intros Ha. destruct (first_present_spec r (skipn a es) a) as (Hb & Hd & Hp). cbn zeta in *.
  rewrite skipn_length in Hb, Hp. split; [lia|]. split.
  - intros k e Hk He. apply (Hd k e Hk). rewrite nth_error_skipn. replace (a + (k - a))%nat with k by lia. exact He.
  - intros Hlt. destruct Hp as (e & He & Hor); [lia|]. exists e. split; [|exact Hor].
    rewrite nth_error_skipn in He. replace (a + (first_present r a (skipn a es) - a))%nat with (first_present r a (skipn a es)) in He by lia.
    exact He.
Qed.

(** * Cells that exist *)

Definition the_cell (r : nat -> Z) (s : nat) (e : entry) : cell :=
  if e_live e then mkCell s StOk (r s) (e_key e) (e_val e)
  else mkCell s StDeleted (r s) (e_key e) 0.

Lemma cell_at_present r s e : e_live e = true \/ 0 < r s -> cell_at r s e = [the_cell r s e].
Proof.
  intros H. unfold cell_at, the_cell. destruct (e_live e); [reflexivity|].
  destruct H as [H|H]; [discriminate|]. destruct (Z.ltb_spec 0 (r s)); [reflexivity|lia].
Qed.

Lemma cfind_present r es s e :
  nth_error es s = Some e -> e_live e = true \/ 0 < r s ->
  cfind s (cells_from r 0 es) = Ok (the_cell r s e).
Proof.
  intros Hn H. rewrite cfind_cells_from by lia. unfold ent. rewrite Nat.sub_0_r, Hn.
  rewrite cell_at_present by exact H. reflexivity.
Qed.

Lemma cfind_end r es : cfind (length es) (cells_from r 0 es) = Ok (last_cell r (length es)).
Proof.
  rewrite cfind_cells_from by lia. unfold ent. rewrite Nat.sub_0_r.
  replace (nth_error es (length es)) with (@None entry) by (symmetry; apply nth_error_None; lia).
  cbn [Nat.add]. rewrite Nat.eqb_refl. reflexivity.
Qed.

Lemma csucc_cupd s s' f l : (forall c, c_stamp (f c) = c_stamp c) -> csucc s (cupd s' f l) = csucc s l.
Proof.
  intros Hf. induction l as [|c t IH]; [reflexivity|]. cbn [cupd map csucc].
  assert (Hst : forall c, c_stamp (if at_stamp s' c then f c else c) = c_stamp c).
  { intros c0. destruct (at_stamp s' c0); [apply Hf|reflexivity]. }
  unfold at_stamp at 1. rewrite Hst. fold (at_stamp s c). destruct (at_stamp s c).
  - destruct t as [|c' t']; [reflexivity|]. cbn [map hd_error option_map]. rewrite Hst. reflexivity.
  - exact IH.
Qed.

Lemma csucc_present r es s e :
  nth_error es s = Some e -> e_live e = true \/ 0 < r s ->
  csucc s (cells_from r 0 es) = Some (first_present r (S s) (skipn (S s) es)).
Proof.
  intros Hn H. rewrite csucc_cells_from; [|lia|].
  - unfold ent. rewrite !Nat.sub_0_r, Hn. reflexivity.
  - unfold ent. rewrite Nat.sub_0_r, Hn. intros e' [= <-]. exact H.
Qed.

(** * One step and the whole loop *)

Definition move (r : nat -> Z) (s j : nat) : nat -> Z := bump (bump r s (-1)) j 1.

Lemma move_move r s m j x : s <> m -> move (move r s m) m j x = move r s j x.
Proof.
  intros Hne. unfold move, bump.
  destruct (Nat.eqb_spec x j), (Nat.eqb_spec x m), (Nat.eqb_spec x s); subst; try lia.
Qed.

Definition gt_stamp (s : nat) (c : cell) : bool := (s <? c_stamp c)%nat.

Lemma filter_stamp_cupd p s f l :
  (forall c, c_stamp (f c) = c_stamp c) ->
  length (filter (fun c => p (c_stamp c)) (cupd s f l)) = length (filter (fun c => p (c_stamp c)) l).
Proof.
  intros Hf. induction l as [|c t IH]; [reflexivity|]. cbn [cupd map filter].
  assert (Hst : c_stamp (if at_stamp s c then f c else c) = c_stamp c).
  { destruct (at_stamp s c); [apply Hf|reflexivity]. }
  rewrite Hst. fold (cupd s f t). destruct (p (c_stamp c)); cbn [length]; rewrite IH; reflexivity.
Qed.

Lemma filter_stamp_cdel_le p s l :
  (length (filter (fun c => p (c_stamp c)) (cdel s l)) <= length (filter (fun c => p (c_stamp c)) l))%nat.
Proof.
  induction l as [|c t IH]; [cbn; lia|]. cbn [cdel filter].
  destruct (negb (at_stamp s c)); cbn [filter]; destruct (p (c_stamp c)); cbn [length]; fold (cdel s t); lia.
Qed.

Lemma filter_gt_lt s np l :
  (s < np)%nat -> In np (map c_stamp l) ->
  (length (filter (gt_stamp np) l) < length (filter (gt_stamp s) l))%nat.
Proof.
  intros Hlt. unfold gt_stamp. induction l as [|c t IH]; intros Hin; [destruct Hin|].
  cbn [filter]. cbn [map In] in Hin.
  assert (Hmono : (length (filter (fun c => (np <? c_stamp c)%nat) t) <= length (filter (fun c => (s <? c_stamp c)%nat) t))%nat).
  { clear - Hlt. induction t as [|c t IH]; [cbn; lia|]. cbn [filter].
    destruct (Nat.ltb_spec np (c_stamp c)), (Nat.ltb_spec s (c_stamp c)); cbn [length]; lia. }
  destruct Hin as [Heq|Hin].
  - rewrite Heq. destruct (Nat.ltb_spec np np); [lia|]. destruct (Nat.ltb_spec s np); [|lia]. cbn [length]. lia.
  - specialize (IH Hin).
    destruct (Nat.ltb_spec np (c_stamp c)), (Nat.ltb_spec s (c_stamp c)); cbn [length]; lia.
Qed.

(** * Soundness of [first_live] *)

Lemma first_live_from_inv l : forall i j e,
  first_live_from i l = Some (j, e) ->
  exists n, j = (i + n)%nat /\ nth_error l n = Some e /\ e_live e = true /\
            forall k e', (k < n)%nat -> nth_error l k = Some e' -> e_live e' = false.
Proof.
  induction l as [|x t IH]; intros i j e H; cbn [first_live_from] in H; [discriminate|].
  destruct (e_live x) eqn:E.
  - injection H as <- <-. exists 0%nat. repeat split; [lia|exact E|]. intros; lia.
  - destruct (IH _ _ _ H) as (n & -> & Hn & Hl & Hd). exists (S n). repeat split; [lia|exact Hn|exact Hl|].
    intros k e' Hk He'. destruct k as [|k]; [cbn in He'; congruence|]. apply (Hd k); [lia|exact He'].
Qed.

Lemma first_live_from_none_inv l : forall i,
  first_live_from i l = None -> forall k e', nth_error l k = Some e' -> e_live e' = false.
Proof.
  induction l as [|x t IH]; intros i H k e' He'; [destruct k; discriminate|].
  cbn [first_live_from] in H. destruct (e_live x) eqn:E; [discriminate|].
  destruct k as [|k]; [cbn in He'; congruence|]. apply (IH _ H k). exact He'.
Qed.

Lemma first_live_inv es p j e :
  first_live es p = Some (j, e) ->
  (p <= j)%nat /\ nth_error es j = Some e /\ e_live e = true /\ dead_range es p j.
Proof.
  unfold first_live. intros H. destruct (first_live_from_inv _ _ _ _ H) as (n & -> & Hn & Hl & Hd).
  rewrite nth_error_skipn in Hn. repeat split; [lia|exact Hn|exact Hl|].
  intros k e' Hk He'. apply (Hd (k - p)%nat); [lia|]. rewrite nth_error_skipn.
  replace (p + (k - p))%nat with k by lia. exact He'.
Qed.

Lemma first_live_none_inv es p : first_live es p = None -> dead_range es p (length es).
Proof.
  unfold first_live. intros H k e' Hk He'. apply (first_live_from_none_inv _ _ H (k - p)%nat).
  rewrite nth_error_skipn. replace (p + (k - p))%nat with k by lia. exact He'.
Qed.

Lemma nlive_skip_dead es a b : (a <= b)%nat -> dead_range es a b -> nlive es a = nlive es b.
Proof.
  intros Hab Hd. unfold nlive. destruct (first_live es b) as [[j e]|] eqn:E.
  - destruct (first_live_inv _ _ _ _ E) as (Hj & Hn & Hl & Hd').
    rewrite (first_live_some es a j e); [reflexivity|lia|exact Hn|exact Hl|].
    eapply dead_range_split; eassumption.
  - rewrite first_live_none; [reflexivity|]. eapply dead_range_split; [exact Hd|].
    apply first_live_none_inv. exact E.
Qed.

Lemma nlive_bounds es p : (p <= length es)%nat -> (p <= nlive es p <= length es)%nat.
Proof.
  intros Hp. unfold nlive. destruct (first_live es p) as [[j e]|] eqn:E; [|lia].
  destruct (first_live_inv _ _ _ _ E) as (Hj & Hn & _). split; [exact Hj|].
  apply Nat.lt_le_incl. apply nth_error_Some. congruence.
Qed.

Lemma find_cupd_same s f l :
  (forall c, c_stamp (f c) = c_stamp c) ->
  find (at_stamp s) (cupd s f l) = option_map f (find (at_stamp s) l).
Proof.
  intros Hf. induction l as [|c t IH]; [reflexivity|]. cbn [cupd map find].
  destruct (at_stamp s c) eqn:E.
  - assert (E' : at_stamp s (f c) = true) by (apply at_stamp_true; rewrite Hf; apply at_stamp_true; exact E).
    rewrite E'. reflexivity.
  - rewrite E. exact IH.
Qed.

Lemma cfind_cupd_same s f l :
  (forall c, c_stamp (f c) = c_stamp c) ->
  cfind s (cupd s f l) = (c <- cfind s l ;; Ok (f c)).
Proof.
  intros Hf. unfold cfind. rewrite find_cupd_same by exact Hf.
  destruct (find (at_stamp s) l); reflexivity.
Qed.

Lemma cfind_in s l c : cfind s l = Ok c -> In s (map c_stamp l).
Proof.
  unfold cfind. destruct (find (at_stamp s) l) as [c'|] eqn:E; [|discriminate]. intros _.
  apply find_some in E. destruct E as [Hin Hs]. apply at_stamp_true in Hs. subst s.
  apply in_map. exact Hin.
Qed.

(** * The loop *)

Lemma c_next_unfold f cs s c :
  cfind s cs = Ok c -> c_st c <> StLast ->
  c_next (S f) cs s =
  (np <- deref (csucc s cs) ;;
   cs2 <- (if nstate_eqb (c_st c) StDeleted && (c_ref c - 1 <=? 0)
           then c_delete (cupd s (cset_ref (c_ref c - 1)) cs) s
           else Ok (cupd s (cset_ref (c_ref c - 1)) cs)) ;;
   c' <- cfind np cs2 ;;
   if nstate_eqb (c_st c') StDeleted
   then c_next f (cupd np (cset_ref (c_ref c' + 1)) cs2) np
   else Ok (cupd np (cset_ref (c_ref c' + 1)) cs2, np)).
Proof.
  intros H Hst. cbn [c_next]. rewrite H. cbn [bind].
  destruct (c_st c); [congruence|reflexivity|reflexivity].
Qed.

Lemma c_next_cells : forall fuel r s es e,
  (forall j, 0 <= r j) ->
  nth_error es s = Some e -> 1 <= r s ->
  (length (filter (gt_stamp s) (cells_from r 0 es)) < fuel)%nat ->
  c_next fuel (cells_from r 0 es) s =
  Ok (cells_from (move r s (nlive es (S s))) 0 es, nlive es (S s)).
Proof.
  induction fuel as [|f IH]; intros r s es e Hr0 Hn Hrs Hfuel; [lia|].
  assert (Hpos : 0 < r s) by lia.
  assert (Hs : (S s <= length es)%nat) by (apply nth_error_Some; congruence).
  rewrite (c_next_unfold f _ s (the_cell r s e) (cfind_present r es s e Hn (or_intror Hpos)))
    by (unfold the_cell; destruct (e_live e); discriminate).
  rewrite (csucc_present r es s e Hn (or_intror Hpos)).
  set (np := first_present r (S s) (skipn (S s) es)).
  destruct (first_present_skipn r es (S s) Hs) as (Hb & Hd & Hp). fold np in Hb, Hd, Hp.
  assert (Hdr : dead_range es (S s) np) by (intros k e' Hk He'; apply (Hd k e' Hk He')).
  set (r1 := bump r s (-1)).
  assert (Hr1np : r1 np = r np) by (apply bump_other; lia).
  (* after leaving [s] the cells are those of [r1] *)
  assert (Hstep :
    (x <- (if nstate_eqb (c_st (the_cell r s e)) StDeleted && (c_ref (the_cell r s e) - 1 <=? 0)
           then c_delete (cupd s (cset_ref (c_ref (the_cell r s e) - 1)) (cells_from r 0 es)) s
           else Ok (cupd s (cset_ref (c_ref (the_cell r s e) - 1)) (cells_from r 0 es))) ;;
     Ok x) = Ok (cells_from r1 0 es)).
  { unfold the_cell. destruct (e_live e) eqn:El; cbn [c_st c_ref nstate_eqb andb].
    - cbn [bind]. f_equal. symmetry. apply unpark_keep; [exact Hrs|].
      intros e' He' _. unfold ent in He'. rewrite Nat.sub_0_r in He'. left. congruence.
    - destruct (Z.leb_spec (r s - 1) 0) as [Hle|Hgt].
      + assert (Hr1 : r s = 1) by lia.
        unfold c_delete. rewrite cfind_cupd_same by reflexivity.
        rewrite (cfind_present r es s e Hn (or_intror Hpos)).
        unfold the_cell. rewrite El. cbn [bind cset_ref c_st c_ref].
        rewrite Hr1. cbn [Z.sub Z.add Z.opp Z.pos_sub Z.eqb].
        rewrite csucc_cupd by reflexivity. rewrite (csucc_present r es s e Hn (or_intror Hpos)).
        cbn [deref bind]. rewrite cdel_cupd by reflexivity. f_equal. symmetry.
        apply (unpark_drop r s es 0%nat e); [exact Hr1|lia| |exact El].
        unfold ent. rewrite Nat.sub_0_r. exact Hn.
      + cbn [bind]. f_equal. symmetry. apply unpark_keep; [exact Hrs|]. intros; right; lia. }
  cbn [deref bind].
  match goal with |- context [bind ?X ?K] =>
    match X with (if _ then _ else _) =>
      replace (bind X K) with (bind (x <- X ;; Ok x) K)
        by (destruct X; reflexivity)
    end end.
  rewrite Hstep. cbn [bind].
  assert (Hr1ge : 0 <= r1 np) by (rewrite Hr1np; apply Hr0).
  (* the cell we arrive at *)
  destruct (Nat.lt_ge_cases np (length es)) as [Hlt|Hge].
  - destruct (Hp Hlt) as (e' & Hn' & Hor').
    assert (Hor1 : e_live e' = true \/ 0 < r1 np) by (rewrite Hr1np; exact Hor').
    rewrite (cfind_present r1 es np e' Hn' Hor1).
    assert (Hpark : cupd np (cset_ref (c_ref (the_cell r1 np e') + 1)) (cells_from r1 0 es)
                    = cells_from (move r s np) 0 es).
    { replace (c_ref (the_cell r1 np e')) with (r1 np) by (unfold the_cell; destruct (e_live e'); reflexivity).
      symmetry. apply park_cells; [exact Hr1ge|]. intros _ e'' He''. unfold ent in He''.
      rewrite Nat.sub_0_r in He''. assert (e'' = e') by congruence. subst e''. exact Hor1. }
    cbn [bind]. rewrite Hpark.
    assert (Hin : In np (map c_stamp (cells_from r 0 es))) by (eapply cfind_in; apply (cfind_present r es np e' Hn' Hor')).
    destruct (e_live e') eqn:El'.
    + (* a live entry: stop *)
      replace (c_st (the_cell r1 np e')) with StOk by (unfold the_cell; rewrite El'; reflexivity).
      cbn [nstate_eqb]. unfold nlive. rewrite (first_live_some es (S s) np e'); [reflexivity|lia|exact Hn'|exact El'|exact Hdr].
    + (* a pinned removed entry: go on *)
      replace (c_st (the_cell r1 np e')) with StDeleted by (unfold the_cell; rewrite El'; reflexivity).
      cbn [nstate_eqb].
      assert (Hnl : nlive es (S s) = nlive es (S np)).
      { apply nlive_skip_dead; [lia|]. eapply dead_range_split; [exact Hdr|].
        eapply dead_range_one; eassumption. }
      rewrite (IH (move r s np) np es e').
      * rewrite Hnl. f_equal. f_equal. apply cells_from_ext. intros j _. apply move_move. lia.
      * intros j. unfold move, bump.
        pose proof (Hr0 j) as Hj.
        destruct (Nat.eqb_spec j np) as [Ej|Ej]; destruct (Nat.eqb_spec j s) as [Es|Es]; try lia.
        subst j. lia.
      * exact Hn'.
      * unfold move. rewrite bump_same. fold r1. lia.
      * (* fuel *)
        rewrite <- Hpark.
        pose proof (filter_gt_lt s np _ ltac:(lia) Hin) as Hlt2.
        unfold gt_stamp in *.
        rewrite (filter_stamp_cupd (fun x => (np <? x)%nat)) by reflexivity.
        assert (Hle : (length (filter (fun c => (np <? c_stamp c)%nat) (cells_from r1 0 es))
                       <= length (filter (fun c => (np <? c_stamp c)%nat) (cells_from r 0 es)))%nat).
        { unfold r1. destruct (e_live e) eqn:El.
          - rewrite (unpark_keep r s es 0%nat Hrs).
            + rewrite (filter_stamp_cupd (fun x => (np <? x)%nat)) by reflexivity. lia.
            + intros e0 He0 _. unfold ent in He0. rewrite Nat.sub_0_r in He0. left. congruence.
          - destruct (Z.eq_dec (r s) 1) as [Hr1|Hr1].
            + rewrite (unpark_drop r s es 0%nat e Hr1); [apply (filter_stamp_cdel_le (fun x => (np <? x)%nat))|lia| |exact El].
              unfold ent. rewrite Nat.sub_0_r. exact Hn.
            + rewrite (unpark_keep r s es 0%nat Hrs).
              * rewrite (filter_stamp_cupd (fun x => (np <? x)%nat)) by reflexivity. lia.
              * intros; right; lia. }
        lia.
  - (* the end of the chain *)
    assert (Hnp : np = length es) by lia.
    rewrite Hnp. rewrite cfind_end. cbn [bind last_cell c_st c_ref nstate_eqb].
    rewrite <- Hnp.
    replace (cupd np (cset_ref (r1 np + 1)) (cells_from r1 0 es)) with (cells_from (move r s np) 0 es).
    + unfold nlive. rewrite first_live_none; [rewrite <- Hnp; reflexivity|]. rewrite <- Hnp. exact Hdr.
    + apply park_cells; [exact Hr1ge|]. intros _ e'' He''. unfold ent in He''. rewrite Nat.sub_0_r in He''.
      exfalso. assert (np < length es)%nat by (apply nth_error_Some; congruence). lia.
Qed.
