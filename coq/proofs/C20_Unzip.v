(** C20, part 2: UnzipToFolder (model/Zip.v [unzip]) creates or modifies paths
    only inside the destination directory, for any archive and any file
    system; the pre-fix code (model/legacy/ZipLegacy.v) does not. *)
From Coq Require Import List NArith Bool Arith Lia.
From GL Require Import model.Zip model.legacy.ZipLegacy proofs.C20_Paths.
Import ListNotations.

(** * File system map *)

Lemma fs_get_set : forall fs p n q,
  fs_get (fs_set fs p n) q = if path_eqb p q then Some n else fs_get fs q.
Proof. intros fs p n q. reflexivity. Qed.

Lemma fs_get_set_same : forall fs p n, fs_get (fs_set fs p n) p = Some n.
Proof. intros fs p n. rewrite fs_get_set, path_eqb_refl. reflexivity. Qed.

Lemma fs_get_set_other : forall fs p n q, p <> q -> fs_get (fs_set fs p n) q = fs_get fs q.
Proof.
  intros fs p n q H. rewrite fs_get_set. apply path_eqb_neq in H. rewrite H. reflexivity.
Qed.

(** * EnsureDirExists *)

(** what [ensure_dir_from] may change: a missing non-empty prefix of the
    requested path becomes a directory; nothing else changes *)
Lemma edf_spec : forall md rest fs pre fs',
  ensure_dir_from md fs pre rest = Some fs' ->
  forall q, fs_get fs' q = fs_get fs q \/
            (fs_get fs q = None /\ fs_get fs' q = Some Dir /\
             exists a b, a <> [] /\ rest = a ++ b /\ q = pre ++ a).
Proof.
  intros md. induction rest as [|s rest IH]; intros fs pre fs' H q; cbn [ensure_dir_from] in H.
  - inversion H; subst. left. reflexivity.
  - destruct (fs_get fs (pre ++ [s])) as [[|c]|] eqn:Eg.
    + destruct (IH _ _ _ H q) as [E|[E1 [E2 [a [b [Ha [Hr Hq]]]]]]].
      * left. exact E.
      * right. split; [exact E1|]. split; [exact E2|].
        exists (s :: a), b. split; [discriminate|]. split.
        -- subst rest. reflexivity.
        -- subst q. rewrite <- app_assoc. reflexivity.
    + destruct rest; [|discriminate]. destruct md; [discriminate|]. inversion H; subst. left. reflexivity.
    + destruct (IH _ _ _ H q) as [E|[E1 [E2 [a [b [Ha [Hr Hq]]]]]]].
      * rewrite fs_get_set in E. destruct (path_eqb (pre ++ [s]) q) eqn:Ep.
        -- apply path_eqb_eq in Ep. subst q. right. split; [exact Eg|]. split; [exact E|].
           exists [s], rest. split; [discriminate|]. split; reflexivity.
        -- left. exact E.
      * rewrite fs_get_set in E1. destruct (path_eqb (pre ++ [s]) q) eqn:Ep; [discriminate|].
        right. split; [exact E1|]. split; [exact E2|].
        exists (s :: a), b. split; [discriminate|]. split.
        -- subst rest. reflexivity.
        -- subst q. rewrite <- app_assoc. reflexivity.
Qed.

(** existing nodes are kept *)
Lemma edf_mono : forall md rest fs pre fs' q n,
  ensure_dir_from md fs pre rest = Some fs' -> fs_get fs q = Some n -> fs_get fs' q = Some n.
Proof.
  intros md rest fs pre fs' q n H Hq. destruct (edf_spec _ _ _ _ _ H q) as [E|[E _]].
  - rewrite E. exact Hq.
  - congruence.
Qed.

(** after success every proper non-empty prefix of the path is a directory *)
Lemma edf_chain : forall md rest fs pre fs',
  ensure_dir_from md fs pre rest = Some fs' ->
  forall a b, a <> [] -> b <> [] -> rest = a ++ b -> fs_get fs' (pre ++ a) = Some Dir.
Proof.
  intros md. induction rest as [|s rest IH]; intros fs pre fs' H a b Ha Hb Hr; cbn [ensure_dir_from] in H.
  - symmetry in Hr. apply app_eq_nil in Hr. tauto.
  - destruct a as [|x a]; [congruence|]. cbn [app] in Hr. inversion Hr as [[Hx Hrest]]. subst x.
    assert (Hstep : forall fs1, ensure_dir_from md fs1 (pre ++ [s]) rest = Some fs' ->
                                fs_get fs1 (pre ++ [s]) = Some Dir ->
                                fs_get fs' (pre ++ s :: a) = Some Dir).
    { intros fs1 H1 Hd. destruct a as [|y a].
      - eapply edf_mono; eassumption.
      - replace (pre ++ s :: y :: a) with ((pre ++ [s]) ++ y :: a)
          by (rewrite <- app_assoc; reflexivity).
        eapply IH; [exact H1|discriminate|exact Hb|exact Hrest]. }
    destruct (fs_get fs (pre ++ [s])) as [[|c]|] eqn:Eg.
    + eapply Hstep; eassumption.
    + destruct rest as [|t rest]; [|discriminate].
      symmetry in Hrest. apply app_eq_nil in Hrest. tauto.
    + eapply Hstep; [exact H|]. apply fs_get_set_same.
Qed.

(** * Confinement *)

(** every proper non-empty prefix of [D] is a directory *)
Definition chain_ok (fs : fsys) (D : list seg) : Prop :=
  forall a b, a <> [] -> b <> [] -> D = a ++ b -> fs_get fs a = Some Dir.

(** [fs'] differs from [fs] only inside [D] *)
Definition same_or_inside (D : list seg) (fs fs' : fsys) : Prop :=
  forall q, fs_get fs' q = fs_get fs q \/ inside D q.

Lemma soi_refl : forall D fs, same_or_inside D fs fs.
Proof. intros D fs q. left. reflexivity. Qed.

Lemma soi_trans : forall D a b c,
  same_or_inside D a b -> same_or_inside D b c -> same_or_inside D a c.
Proof.
  intros D a b c H1 H2 q. destruct (H2 q) as [E2|I]; [|right; exact I].
  destruct (H1 q) as [E1|I]; [|right; exact I]. left. congruence.
Qed.

Lemma soi_chain : forall D fs fs', same_or_inside D fs fs' -> chain_ok fs D -> chain_ok fs' D.
Proof.
  intros D fs fs' H Hc a b Ha Hb HD. destruct (H a) as [E|I].
  - rewrite E. eapply Hc; eassumption.
  - exfalso. eapply strict_prefix_not_inside; [|exact I]. exists b. split; assumption.
Qed.

(** [ensure_dir] on a path comparable with [D] stays inside [D] once the
    chain above [D] exists *)
Lemma ensure_dir_inside : forall md D S l fs fs',
  chain_ok fs D -> inside S l -> inside D l ->
  ensure_dir_from md fs [] S = Some fs' -> same_or_inside D fs fs'.
Proof.
  intros md D S l fs fs' Hc HS HD H q.
  destruct (edf_spec _ _ _ _ _ H q) as [E|[E1 [_ [a [b [Ha [Hr Hq]]]]]]].
  - left. exact E.
  - cbn [app] in Hq. subst q.
    assert (Hal : inside a l).
    { eapply inside_trans; [|exact HS]. exists b. exact Hr. }
    destruct (prefix_comparable a D l Hal HD) as [HaD|HDa].
    + destruct (inside_cases _ _ HaD) as [Eq|[x [Hx HDx]]].
      * right. subst a. apply inside_refl.
      * exfalso. rewrite (Hc a x Ha Hx HDx) in E1. discriminate.
    + right. exact HDa.
Qed.

Lemma create_file_spec : forall fs p c fs',
  create_file fs p c = Some fs' -> fs' = fs_set fs (resolve p) (File c).
Proof.
  intros fs p c fs' H. unfold create_file in H.
  destruct (resolve p) as [|x t] eqn:E; [discriminate|].
  destruct (all_dirs fs [] (removelast (x :: t))); [|discriminate].
  destruct (fs_get fs (x :: t)) as [[|c']|]; inversion H; reflexivity.
Qed.

Lemma unzip_entry_confined : forall dest fs ch e fs' ch' r,
  is_rooted dest = true ->
  chain_ok fs (rclean dest) ->
  unzip_entry dest (fs, ch) e = ((fs', ch'), r) ->
  same_or_inside (rclean dest) fs fs'.
Proof.
  intros dest fs ch e fs' ch' r Hd Hc H. unfold unzip_entry in H.
  destruct (is_dir_entry e).
  { inversion H; subst. apply soi_refl. }
  rewrite !join_rooted in H by exact Hd.
  set (D := rclean dest) in *.
  set (T := fold_left rstep (e_name e) D) in *.
  rewrite split_dir_fold in H.
  set (S := fold_left rstep (removelast (e_name e)) D) in *.
  assert (HT : Forall normal T) by (apply fold_rstep_normal_inv, rclean_normal).
  assert (HS : Forall normal S) by (apply fold_rstep_normal_inv, rclean_normal).
  destruct (rel dest (rooted_str T)) as [rr|] eqn:Er.
  2:{ inversion H; subst. apply soi_refl. }
  destruct (rel_escapes rr) eqn:Ee.
  { inversion H; subst. apply soi_refl. }
  assert (HDT : inside D T) by (eapply rel_rooted_pass; eassumption).
  cbn [fst snd] in H.
  assert (Hmk : forall fs1, ensure_dir fs (rooted_str S) = Some fs1 -> same_or_inside D fs fs1).
  { intros fs1 H1. unfold ensure_dir in H1. rewrite resolve_rooted_str in H1 by exact HS.
    destruct (dir_file_common (e_name e) D) as [HST|HTS]; fold S in HST || fold S in HTS;
      fold T in HST || fold T in HTS.
    - eapply (ensure_dir_inside _ D S T); eassumption.
    - eapply (ensure_dir_inside _ D S S); [exact Hc|apply inside_refl| |exact H1].
      eapply inside_trans; eassumption. }
  assert (Hcf : forall fs1 fs2, create_file fs1 (rooted_str T) (e_data e) = Some fs2 ->
                                same_or_inside D fs1 fs2).
  { intros fs1 fs2 H2. apply create_file_spec in H2. rewrite resolve_rooted_str in H2 by exact HT.
    subst fs2. intros q. rewrite fs_get_set. destruct (path_eqb T q) eqn:Ep.
    - apply path_eqb_eq in Ep. subst q. right. exact HDT.
    - left. reflexivity. }
  destruct (existsb (path_eqb (rooted_str S)) ch).
  - cbn [fst snd] in H.
    destruct (create_file fs (rooted_str T) (e_data e)) as [fs2|] eqn:Ec.
    + inversion H; subst. eapply Hcf. exact Ec.
    + inversion H; subst. apply soi_refl.
  - destruct (ensure_dir fs (rooted_str S)) as [fs1|] eqn:Em.
    + cbn [fst snd] in H.
      destruct (create_file fs1 (rooted_str T) (e_data e)) as [fs2|] eqn:Ec.
      * inversion H; subst. eapply soi_trans; [apply Hmk; reflexivity|]. eapply Hcf. exact Ec.
      * inversion H; subst. apply Hmk. reflexivity.
    + inversion H; subst. apply soi_refl.
Qed.

Lemma unzip_loop_confined : forall dest es fs ch fs' ch' r,
  is_rooted dest = true ->
  chain_ok fs (rclean dest) ->
  unzip_loop dest (fs, ch) es = ((fs', ch'), r) ->
  same_or_inside (rclean dest) fs fs'.
Proof.
  intros dest es. induction es as [|e es IH]; intros fs ch fs' ch' r Hd Hc H;
    cbn [unzip_loop] in H.
  - inversion H; subst. apply soi_refl.
  - destruct (unzip_entry dest (fs, ch) e) as [[fs1 ch1] r1] eqn:Ee. cbn [fst snd] in H.
    pose proof (unzip_entry_confined _ _ _ _ _ _ _ Hd Hc Ee) as H1.
    destruct r1.
    + eapply soi_trans; [exact H1|]. eapply IH; [exact Hd| |exact H].
      eapply soi_chain; eassumption.
    + inversion H; subst. exact H1.
    + inversion H; subst. exact H1.
Qed.

(** the headline statement *)
Theorem unzip_confined : forall dest ar fs fs' res p,
  is_rooted dest = true ->
  unzip dest ar fs = (fs', res) ->
  fs_get fs' p <> fs_get fs p ->
  inside (resolve dest) p \/
  (p <> [] /\ strict_prefix p (resolve dest) /\ fs_get fs p = None /\ fs_get fs' p = Some Dir).
Proof.
  intros dest ar fs fs' res p Hd H Hp. rewrite resolve_rooted by exact Hd.
  unfold unzip in H. unfold ensure_dir in H. rewrite resolve_rooted in H by exact Hd.
  destruct (ensure_dir_from (must_be_dir dest) fs [] (rclean dest)) as [fs1|] eqn:E1.
  2:{ inversion H; subst. congruence. }
  destruct (unzip_loop dest (fs1, []) ar) as [[fs2 ch2] r2] eqn:E2. cbn [fst snd] in H.
  inversion H; subst fs' res.
  assert (Hc : chain_ok fs1 (rclean dest)).
  { intros a b Ha Hb HD. apply (edf_chain _ _ _ _ _ E1 a b Ha Hb HD). }
  destruct (unzip_loop_confined _ _ _ _ _ _ _ Hd Hc E2 p) as [E|I]; [|left; exact I].
  destruct (edf_spec _ _ _ _ _ E1 p) as [E'|[Hn [Hdir [a [b [Ha [Hr Hq]]]]]]].
  - congruence.
  - cbn [app] in Hq. subst a. destruct b as [|x b].
    + left. rewrite app_nil_r in Hr. rewrite Hr. apply inside_refl.
    + right. split; [exact Ha|]. split; [|split].
      * exists (x :: b). split; [discriminate|exact Hr].
      * exact Hn.
      * rewrite E. exact Hdir.
Qed.

(** when the destination directory (hence every directory above it) already
    exists, nothing outside of it changes at all *)
Definition dest_exists (fs : fsys) (D : list seg) : Prop :=
  forall a b, a <> [] -> D = a ++ b -> fs_get fs a = Some Dir.

Theorem unzip_confined_existing_dest : forall dest ar fs fs' res p,
  is_rooted dest = true ->
  dest_exists fs (resolve dest) ->
  unzip dest ar fs = (fs', res) ->
  fs_get fs' p <> fs_get fs p ->
  inside (resolve dest) p.
Proof.
  intros dest ar fs fs' res p Hd He H Hp.
  destruct (unzip_confined _ _ _ _ _ _ Hd H Hp) as [I|[Hne [[q [Hq HD]] [Hn _]]]]; [exact I|].
  exfalso. rewrite (He p q Hne HD) in Hn. discriminate.
Qed.

(** * The pre-fix code escapes (defect D5, repaired by commit e1a7162) *)

Definition bytes_dest : seg := [100; 101; 115; 116]%N.          (* "dest" *)
Definition bytes_p : seg := [112]%N.                            (* "p" *)
Definition bytes_escaped : seg := [101; 115; 99; 97; 112; 101; 100; 46; 116; 120; 116]%N. (* "escaped.txt" *)

Definition d5_dest : rpath := [s_empty; bytes_p; bytes_dest].             (* "/p/dest" *)
Definition d5_archive : list entry := [mkE [s_dotdot; bytes_escaped] false 7%N].  (* "../escaped.txt" *)

Theorem legacy_unzip_escapes :
  exists dest ar p c,
    is_rooted dest = true /\
    fs_get (fst (legacy_unzip dest ar [])) p = Some (File c) /\
    fs_get [] p = None /\
    ~ inside (resolve dest) p /\ ~ strict_prefix p (resolve dest).
Proof.
  exists d5_dest, d5_archive, [bytes_p; bytes_escaped], 7%N.
  split; [reflexivity|]. split; [vm_compute; reflexivity|]. split; [reflexivity|].
  split.
  - intros [q Hq]. vm_compute in Hq. discriminate.
  - intros [q [_ Hq]]. vm_compute in Hq. discriminate.
Qed.

(** the repaired code rejects the same archive and leaves nothing outside *)
Lemma fixed_unzip_rejects_d5 :
  unzip d5_dest d5_archive [] =
  ([([bytes_p; bytes_dest], Dir); ([bytes_p], Dir)], URejected).
Proof. vm_compute. reflexivity. Qed.
