(** C17, part 3: counting.

    - [free_count]: the number of zero bits in all header bytes, written as the
      nested sum initAvailabe computes; how it changes under byte updates;
    - the allocated indices as a filtered range: its length is
      Count - free_count; membership, insertion, removal and the least free
      index of a filtered range agree with the set operations of spec/AllocSet.v. *)
From Coq Require Import List ZArith NArith Bool Lia.
From GL Require Import model.Blocks spec.AllocSet proofs.C17_Bytes proofs.C17_Geometry.
Import ListNotations.
Open Scope Z_scope.

(** * The sum initAvailabe computes *)

Fixpoint sum_window (n : nat) (buf : buffer) (base : Z) : Z :=
  match n with
  | O => 0
  | S n' => zero_bits 8 0 (bget buf base) + sum_window n' buf (base + 1)
  end.

Fixpoint sum_segs (n : nat) (buf : buffer) (bs : Z) (s : Z) : Z :=
  match n with
  | O => 0
  | S n' => sum_window (Z.to_nat bs) buf (s * ssz bs) + sum_segs n' buf bs (s + 1)
  end.

Definition free_count (bs segs : Z) (buf : buffer) : Z := sum_segs (Z.to_nat segs) buf bs 0.

Lemma count_window_eq : forall n buf base, count_window n buf base = sum_window n buf base.
Proof.
  induction n as [|n IH]; intros buf base; cbn [count_window sum_window].
  - reflexivity.
  - rewrite IH. destruct (N.eqb_spec (bget buf base) 255) as [E|_].
    + rewrite E, zero_bits_255. reflexivity.
    + reflexivity.
Qed.

Lemma init_loop_ok : forall n buf bs s cnt,
  0 < bs -> 0 <= s -> (s + Z.of_nat n) * ssz bs <= bsize buf ->
  init_loop n buf bs (ssz bs) s cnt = Some (cnt + sum_segs n buf bs s).
Proof.
  induction n as [|n IH]; intros buf bs s cnt Hbs Hs Hsz; cbn [init_loop sum_segs].
  - f_equal. lia.
  - pose proof (ssz_pos bs Hbs) as Hss. pose proof (bs_le_ssz bs Hbs) as Hle.
    assert (Hmul : (s + 1) * ssz bs <= (s + Z.of_nat (S n)) * ssz bs)
      by (apply Z.mul_le_mono_nonneg_r; lia).
    assert (0 <= s * ssz bs) by (apply Z.mul_nonneg_nonneg; lia).
    rewrite buf_slice_inside by lia.
    rewrite count_window_eq, IH by lia. f_equal. lia.
Qed.

Lemma sum_window_ext : forall n buf buf' base,
  (forall o, base <= o < base + Z.of_nat n -> bget buf' o = bget buf o) ->
  sum_window n buf' base = sum_window n buf base.
Proof.
  induction n as [|n IH]; intros buf buf' base H; cbn [sum_window].
  - reflexivity.
  - rewrite H by lia. rewrite (IH buf buf'); [reflexivity|]. intros o Ho. apply H. lia.
Qed.

Lemma sum_window_update : forall n buf buf' base a d,
  (forall o, o <> a -> bget buf' o = bget buf o) ->
  zero_bits 8 0 (bget buf' a) = zero_bits 8 0 (bget buf a) + d ->
  sum_window n buf' base =
  sum_window n buf base + (if (base <=? a) && (a <? base + Z.of_nat n) then d else 0).
Proof.
  induction n as [|n IH]; intros buf buf' base a d Hoth Ha; cbn [sum_window].
  - destruct (Z.leb_spec base a); destruct (Z.ltb_spec a (base + Z.of_nat 0)); cbn [andb]; lia.
  - rewrite (IH buf buf' (base + 1) a d Hoth Ha).
    destruct (Z.eq_dec base a) as [->|Hne].
    + rewrite Ha.
      destruct (Z.leb_spec (a + 1) a); [lia|]. cbn [andb].
      destruct (Z.leb_spec a a); [|lia].
      destruct (Z.ltb_spec a (a + Z.of_nat (S n))); [|lia]. cbn [andb]. lia.
    + rewrite (Hoth base Hne).
      destruct (Z.leb_spec (base + 1) a); destruct (Z.leb_spec base a); try lia;
        destruct (Z.ltb_spec a (base + 1 + Z.of_nat n));
        destruct (Z.ltb_spec a (base + Z.of_nat (S n))); cbn [andb]; lia.
Qed.

Lemma sum_segs_ext : forall n buf buf' bs s, 0 < bs ->
  (forall s' p, s <= s' < s + Z.of_nat n -> 0 <= p < bs ->
     bget buf' (hdr_addr bs s' p) = bget buf (hdr_addr bs s' p)) ->
  sum_segs n buf' bs s = sum_segs n buf bs s.
Proof.
  induction n as [|n IH]; intros buf buf' bs s Hbs H; cbn [sum_segs].
  - reflexivity.
  - rewrite (IH buf buf') by (try assumption; intros s' p Hs' Hp; apply H; lia).
    rewrite (sum_window_ext _ buf buf'); [reflexivity|].
    intros o Ho. rewrite Z2Nat.id in Ho by lia.
    replace o with (hdr_addr bs s (o - s * ssz bs)) by (unfold hdr_addr; lia).
    apply H; lia.
Qed.

Lemma sum_segs_update : forall n buf buf' bs s s0 p0 d,
  0 < bs -> 0 <= p0 < bs ->
  (forall o, o <> hdr_addr bs s0 p0 -> bget buf' o = bget buf o) ->
  zero_bits 8 0 (bget buf' (hdr_addr bs s0 p0)) = zero_bits 8 0 (bget buf (hdr_addr bs s0 p0)) + d ->
  sum_segs n buf' bs s =
  sum_segs n buf bs s + (if (s <=? s0) && (s0 <? s + Z.of_nat n) then d else 0).
Proof.
  induction n as [|n IH]; intros buf buf' bs s s0 p0 d Hbs Hp0 Hoth Ha; cbn [sum_segs].
  - destruct (Z.leb_spec s s0); destruct (Z.ltb_spec s0 (s + Z.of_nat 0)); cbn [andb]; lia.
  - rewrite (IH buf buf' bs (s + 1) s0 p0 d Hbs Hp0 Hoth Ha).
    rewrite (sum_window_update _ buf buf' _ _ d Hoth Ha).
    rewrite Z2Nat.id by lia.
    replace (s * ssz bs) with (hdr_addr bs s 0) by (unfold hdr_addr; lia).
    (* the byte lies in the window of segment s iff s0 = s *)
    assert (Hin : (hdr_addr bs s 0 <=? hdr_addr bs s0 p0) && (hdr_addr bs s0 p0 <? hdr_addr bs s 0 + bs)
                  = (s0 =? s)).
    { destruct (Z.eqb_spec s0 s) as [->|Hne].
      - unfold hdr_addr. destruct (Z.leb_spec (s * ssz bs + 0) (s * ssz bs + p0)); [|lia].
        destruct (Z.ltb_spec (s * ssz bs + p0) (s * ssz bs + 0 + bs)); [|lia]. reflexivity.
      - destruct (Z.lt_trichotomy s0 s) as [Hlt|[?|Hgt]]; [|contradiction|].
        + assert (hdr_addr bs s0 p0 < hdr_addr bs s 0) by (apply hdr_addr_lt; lia).
          destruct (Z.leb_spec (hdr_addr bs s 0) (hdr_addr bs s0 p0)); [lia|]. reflexivity.
        + assert (hdr_addr bs s (bs - 1) < hdr_addr bs s0 p0) by (apply hdr_addr_lt; lia).
          unfold hdr_addr in *.
          destruct (Z.ltb_spec (s0 * ssz bs + p0) (s * ssz bs + 0 + bs)); [lia|].
          apply andb_false_r. }
    rewrite Hin.
    destruct (Z.eqb_spec s0 s) as [->|Hne].
    + destruct (Z.leb_spec (s + 1) s); [lia|]. cbn [andb].
      destruct (Z.leb_spec s s); [|lia]. destruct (Z.ltb_spec s (s + Z.of_nat (S n))); [|lia].
      cbn [andb]. lia.
    + destruct (Z.leb_spec (s + 1) s0); destruct (Z.leb_spec s s0); try lia;
        destruct (Z.ltb_spec s0 (s + 1 + Z.of_nat n));
        destruct (Z.ltb_spec s0 (s + Z.of_nat (S n))); cbn [andb]; lia.
Qed.

Lemma sum_window_nonneg : forall n buf base, 0 <= sum_window n buf base <= 8 * Z.of_nat n.
Proof.
  induction n as [|n IH]; intros buf base; cbn [sum_window].
  - lia.
  - pose proof (IH buf (base + 1)). pose proof (zero_bits_range _ (bget_lt_256 buf base)). lia.
Qed.

(** all bytes of a window are 0xFF iff its sum is 0 *)
Lemma sum_window_zero : forall n buf base,
  sum_window n buf base = 0 <->
  (forall o, base <= o < base + Z.of_nat n -> bget buf o = 255%N).
Proof.
  induction n as [|n IH]; intros buf base; cbn [sum_window].
  - split; [intros _ o Ho; lia|reflexivity].
  - pose proof (sum_window_nonneg n buf (base + 1)) as Hn.
    pose proof (zero_bits_range _ (bget_lt_256 buf base)) as Hz. split.
    + intros H o Ho. destruct (Z.eq_dec o base) as [->|Hne].
      * apply zero_bits_0_iff_255; [apply bget_lt_256|lia].
      * apply (proj1 (IH buf (base + 1))); lia.
    + intros H. rewrite (proj2 (zero_bits_0_iff_255 _ (bget_lt_256 buf base))) by (apply H; lia).
      rewrite (proj2 (IH buf (base + 1))); [reflexivity|]. intros o Ho. apply H. lia.
Qed.

Lemma sum_segs_nonneg : forall n buf bs s, 0 < bs -> 0 <= sum_segs n buf bs s <= Z.of_nat n * (8 * bs).
Proof.
  induction n as [|n IH]; intros buf bs s Hbs; cbn [sum_segs].
  - lia.
  - pose proof (IH buf bs (s + 1) Hbs). pose proof (sum_window_nonneg (Z.to_nat bs) buf (s * ssz bs)).
    rewrite Z2Nat.id in * by lia. lia.
Qed.

Lemma sum_segs_zero : forall n buf bs s, 0 < bs ->
  (sum_segs n buf bs s = 0 <->
   (forall s' p, s <= s' < s + Z.of_nat n -> 0 <= p < bs -> bget buf (hdr_addr bs s' p) = 255%N)).
Proof.
  induction n as [|n IH]; intros buf bs s Hbs; cbn [sum_segs].
  - split; [intros _ s' p Hs'; lia|reflexivity].
  - pose proof (sum_segs_nonneg n buf bs (s + 1) Hbs) as Hn.
    pose proof (sum_window_nonneg (Z.to_nat bs) buf (s * ssz bs)) as Hw. split.
    + intros H s' p Hs' Hp. destruct (Z.eq_dec s' s) as [->|Hne].
      * apply (proj1 (sum_window_zero (Z.to_nat bs) buf (s * ssz bs))); [lia|].
        rewrite Z2Nat.id by lia. unfold hdr_addr. lia.
      * apply (proj1 (IH buf bs (s + 1) Hbs)); lia.
    + intros H.
      rewrite (proj2 (sum_window_zero (Z.to_nat bs) buf (s * ssz bs))).
      * rewrite (proj2 (IH buf bs (s + 1) Hbs)); [reflexivity|]. intros s' p Hs' Hp. apply H; lia.
      * intros o Ho. rewrite Z2Nat.id in Ho by lia.
        replace o with (hdr_addr bs s (o - s * ssz bs)) by (unfold hdr_addr; lia). apply H; lia.
Qed.

(** * Ranges and filters *)

Lemma zrange_app : forall n m a, zrange a (n + m) = zrange a n ++ zrange (a + Z.of_nat n) m.
Proof.
  induction n as [|n IH]; intros m a.
  - cbn [zrange Nat.add app]. f_equal. lia.
  - cbn [zrange Nat.add app]. rewrite IH. do 3 f_equal. lia.
Qed.

Lemma in_zrange : forall n a x, In x (zrange a n) <-> a <= x < a + Z.of_nat n.
Proof.
  induction n as [|n IH]; intros a x; cbn [zrange In].
  - lia.
  - rewrite IH. lia.
Qed.

Lemma filter_zrange_shift : forall (f g : Z -> bool) n a c,
  (forall k, c <= k < c + Z.of_nat n -> f (a + k) = g k) ->
  length (filter f (zrange (a + c) n)) = length (filter g (zrange c n)).
Proof.
  intros f g. induction n as [|n IH]; intros a c H; cbn [zrange filter].
  - reflexivity.
  - rewrite H by lia. replace (a + c + 1) with (a + (c + 1)) by lia.
    destruct (g c); cbn [length]; rewrite (IH a (c + 1)) by (intros k Hk; apply H; lia); reflexivity.
Qed.

Lemma filter_ext_zrange : forall (f g : Z -> bool) n a,
  (forall x, a <= x < a + Z.of_nat n -> f x = g x) ->
  filter f (zrange a n) = filter g (zrange a n).
Proof.
  intros f g n a H. apply filter_ext_in. intros x Hx. apply H. apply in_zrange. exact Hx.
Qed.

(** ** the allocated indices: how many *)

Lemma is_alloc_bytes_at : forall bs buf s p j, 0 < bs -> 0 <= p < bs -> 0 <= j < 8 ->
  is_alloc_bytes bs buf (s * (8 * bs) + p * 8 + j) =
  negb (bit_is_clear (bget buf (hdr_addr bs s p)) (Z.to_N j)).
Proof.
  intros bs buf s p j Hbs Hp Hj. unfold is_alloc_bytes.
  destruct (idx_compose bs s p j Hbs Hp Hj) as [H1 [H2 H3]]. cbv zeta in H1, H2, H3.
  rewrite H1, H2, H3. reflexivity.
Qed.

Lemma filter_byte : forall bs buf s p, 0 < bs -> 0 <= p < bs ->
  Z.of_nat (length (filter (is_alloc_bytes bs buf) (zrange (s * (8 * bs) + p * 8) 8))) =
  8 - zero_bits 8 0 (bget buf (hdr_addr bs s p)).
Proof.
  intros bs buf s p Hbs Hp.
  rewrite <- (zero_bits_filter _ (bget_lt_256 buf (hdr_addr bs s p))).
  f_equal. replace (s * (8 * bs) + p * 8) with (s * (8 * bs) + p * 8 + 0) by lia.
  apply filter_zrange_shift. intros k Hk.
  replace (s * (8 * bs) + p * 8 + k) with (s * (8 * bs) + p * 8 + k) by lia.
  apply is_alloc_bytes_at; lia.
Qed.

Lemma filter_hdr : forall bs buf s n p, 0 < bs -> 0 <= p -> p + Z.of_nat n <= bs ->
  Z.of_nat (length (filter (is_alloc_bytes bs buf) (zrange (s * (8 * bs) + p * 8) (8 * n)))) =
  8 * Z.of_nat n - sum_window n buf (hdr_addr bs s p).
Proof.
  intros bs buf s. induction n as [|n IH]; intros p Hbs Hp Hn.
  - cbn. reflexivity.
  - replace (8 * S n)%nat with (8 + 8 * n)%nat by lia.
    rewrite zrange_app, filter_app, app_length, Nat2Z.inj_add.
    rewrite filter_byte by lia.
    replace (s * (8 * bs) + p * 8 + Z.of_nat 8) with (s * (8 * bs) + (p + 1) * 8) by lia.
    rewrite IH by lia. cbn [sum_window].
    replace (hdr_addr bs s (p + 1)) with (hdr_addr bs s p + 1) by (unfold hdr_addr; lia). lia.
Qed.

Lemma filter_segs : forall bs buf n s, 0 < bs ->
  Z.of_nat (length (filter (is_alloc_bytes bs buf) (zrange (s * (8 * bs)) (n * Z.to_nat (8 * bs))))) =
  Z.of_nat n * (8 * bs) - sum_segs n buf bs s.
Proof.
  intros bs buf. induction n as [|n IH]; intros s Hbs.
  - cbn. reflexivity.
  - replace (S n * Z.to_nat (8 * bs))%nat with (Z.to_nat (8 * bs) + n * Z.to_nat (8 * bs))%nat by lia.
    rewrite zrange_app, filter_app, app_length, Nat2Z.inj_add.
    rewrite Z2Nat.id by lia.
    replace (s * (8 * bs) + 8 * bs) with ((s + 1) * (8 * bs)) by lia.
    rewrite IH by lia. cbn [sum_segs].
    replace (Z.to_nat (8 * bs)) with (8 * Z.to_nat bs)%nat by lia.
    replace (s * (8 * bs)) with (s * (8 * bs) + 0 * 8) by lia.
    rewrite filter_hdr by lia.
    replace (hdr_addr bs s 0) with (s * ssz bs) by (unfold hdr_addr; lia). lia.
Qed.

(** Count - |allocated| = the number of zero header bits *)
Lemma alloc_count : forall bs segs buf, 0 < bs -> 0 <= segs ->
  Z.of_nat (length (alloc_of_bytes bs segs buf)) = segs * (8 * bs) - free_count bs segs buf.
Proof.
  intros bs segs buf Hbs Hsegs. unfold alloc_of_bytes, free_count.
  replace (Z.to_nat (segs * (8 * bs))) with (Z.to_nat segs * Z.to_nat (8 * bs))%nat
    by (symmetry; apply Z2Nat.inj_mul; lia).
  replace 0 with (0 * (8 * bs)) at 1 by lia.
  rewrite filter_segs by lia. rewrite Z2Nat.id by lia. reflexivity.
Qed.

(** ** a filtered range as a set *)

Lemma as_mem_filter : forall (f : Z -> bool) n a i,
  as_mem i (filter f (zrange a n)) = (a <=? i) && (i <? a + Z.of_nat n) && f i.
Proof.
  intros f. induction n as [|n IH]; intros a i; cbn [zrange filter].
  - cbn [as_mem]. destruct (Z.leb_spec a i); destruct (Z.ltb_spec i (a + Z.of_nat 0)); cbn [andb]; try reflexivity; lia.
  - destruct (f a) eqn:Efa; cbn [as_mem]; rewrite IH.
    + destruct (Z.eqb_spec a i) as [->|Hne]; cbn [orb].
      * rewrite Efa. destruct (Z.leb_spec i i); [|lia].
        destruct (Z.ltb_spec i (i + Z.of_nat (S n))); [|lia]. reflexivity.
      * destruct (Z.leb_spec (a + 1) i); destruct (Z.leb_spec a i); try lia;
          destruct (Z.ltb_spec i (a + 1 + Z.of_nat n)); destruct (Z.ltb_spec i (a + Z.of_nat (S n)));
          cbn [andb]; try reflexivity; lia.
    + destruct (Z.eq_dec a i) as [->|Hne].
      * rewrite Efa. destruct (Z.leb_spec (i + 1) i); [lia|]. cbn [andb].
        rewrite andb_false_r. reflexivity.
      * destruct (Z.leb_spec (a + 1) i); destruct (Z.leb_spec a i); try lia;
          destruct (Z.ltb_spec i (a + 1 + Z.of_nat n)); destruct (Z.ltb_spec i (a + Z.of_nat (S n)));
          cbn [andb]; try reflexivity; lia.
Qed.

(** the head of a filtered range is at least its start *)
Lemma filter_zrange_head_ge : forall (f : Z -> bool) n a x t,
  filter f (zrange a n) = x :: t -> a <= x.
Proof.
  intros f n a x t H.
  assert (Hin : In x (filter f (zrange a n))) by (rewrite H; left; reflexivity).
  apply filter_In in Hin. destruct Hin as [Hin _]. apply in_zrange in Hin. lia.
Qed.

Lemma as_add_below : forall i l, (forall x t, l = x :: t -> i < x) -> as_add i l = i :: l.
Proof.
  intros i [|x t] H; cbn [as_add].
  - reflexivity.
  - specialize (H x t eq_refl). destruct (Z.ltb_spec i x); [reflexivity|lia].
Qed.

(** switching one index on inserts it *)
Lemma as_add_filter : forall (f g : Z -> bool) n a i,
  a <= i < a + Z.of_nat n -> f i = false -> g i = true ->
  (forall x, a <= x < a + Z.of_nat n -> x <> i -> g x = f x) ->
  filter g (zrange a n) = as_add i (filter f (zrange a n)).
Proof.
  intros f g. induction n as [|n IH]; intros a i Hi Hf Hg Hoth; cbn [zrange filter].
  - lia.
  - destruct (Z.eq_dec a i) as [->|Hne].
    + rewrite Hf, Hg.
      rewrite (filter_ext_zrange g f) by (intros x Hx; apply Hoth; lia).
      symmetry. apply as_add_below. intros x t E.
      apply filter_zrange_head_ge in E. lia.
    + rewrite (Hoth a) by lia. destruct (f a); cbn [as_add].
      * destruct (Z.ltb_spec i a); [lia|]. destruct (Z.eqb_spec i a); [lia|].
        f_equal. apply IH; try assumption; [lia|]. intros x Hx. apply Hoth. lia.
      * apply IH; try assumption; [lia|]. intros x Hx. apply Hoth. lia.
Qed.

(** switching one index off removes it *)
Lemma as_remove_filter : forall (f g : Z -> bool) n a i,
  a <= i < a + Z.of_nat n -> f i = true -> g i = false ->
  (forall x, a <= x < a + Z.of_nat n -> x <> i -> g x = f x) ->
  filter g (zrange a n) = as_remove i (filter f (zrange a n)).
Proof.
  intros f g. induction n as [|n IH]; intros a i Hi Hf Hg Hoth; cbn [zrange filter].
  - lia.
  - destruct (Z.eq_dec a i) as [->|Hne].
    + rewrite Hf, Hg. cbn [as_remove]. rewrite Z.eqb_refl.
      apply filter_ext_zrange. intros x Hx. apply Hoth; lia.
    + rewrite (Hoth a) by lia. destruct (f a); cbn [as_remove].
      * destruct (Z.eqb_spec a i); [lia|]. f_equal. apply IH; try assumption; [lia|].
        intros x Hx. apply Hoth. lia.
      * apply IH; try assumption; [lia|]. intros x Hx. apply Hoth. lia.
Qed.

(** the least index that is off *)
Lemma lowest_free_filter : forall (f : Z -> bool) n a i,
  a <= i < a + Z.of_nat n -> f i = false -> (forall x, a <= x < i -> f x = true) ->
  lowest_free a (filter f (zrange a n)) = i.
Proof.
  intros f. induction n as [|n IH]; intros a i Hi Hf Hlow; cbn [zrange filter].
  - lia.
  - destruct (Z.eq_dec a i) as [->|Hne].
    + rewrite Hf. destruct (filter f (zrange (i + 1) n)) as [|x t] eqn:E; cbn [lowest_free].
      * reflexivity.
      * apply filter_zrange_head_ge in E. destruct (Z.eqb_spec x i); [lia|reflexivity].
    + rewrite (Hlow a) by lia. cbn [lowest_free]. rewrite Z.eqb_refl.
      apply IH; try assumption; [lia|]. intros x Hx. apply Hlow. lia.
Qed.

Lemma filter_length_le' : forall (f : Z -> bool) l, (length (filter f l) <= length l)%nat.
Proof.
  intros f. induction l as [|x t IH]; cbn [filter length]; [lia|].
  destruct (f x); cbn [length]; lia.
Qed.

Lemma length_zrange : forall n a, length (zrange a n) = n.
Proof.
  induction n as [|n IH]; intros a; cbn [zrange length]; [reflexivity|]. rewrite IH. reflexivity.
Qed.

Lemma filter_all_true_length : forall (f : Z -> bool) n a,
  length (filter f (zrange a n)) = n -> forall x, a <= x < a + Z.of_nat n -> f x = true.
Proof.
  intros f. induction n as [|n IH]; intros a Hlen x Hx; cbn [zrange filter] in Hlen.
  - lia.
  - pose proof (filter_length_le' f (zrange (a + 1) n)) as Hle.
    rewrite length_zrange in Hle.
    destruct (f a) eqn:Efa.
    + cbn [length] in Hlen. destruct (Z.eq_dec x a) as [->|Hne]; [exact Efa|].
      apply (IH (a + 1)); lia.
    + lia.
Qed.
