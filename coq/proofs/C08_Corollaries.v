(** C08: the accounting and capacity theorems transported from the reference
    LRU to the cache model through the refinement. *)
From Coq Require Import List ZArith NArith Arith Bool Lia Permutation.
From GL Require Import spec.LRU model.ECache proofs.C08_ECache proofs.C08_LRU.
Import ListNotations.

Section Transport.
Context {PK K V : Type}.
Context (keqb : K -> K -> bool).
Context (keqb_spec : forall a b, reflect (a = b) (keqb a b)).
Context (kmap : PK -> K).
Context (expires : V -> Z).

Lemma expirable_refines : forall (cap : nat) (ops : list (lru_op PK V)),
  Forall (fun o => match o with OGet _ _ => False | _ => True end) ops ->
  fst (fst (ec_run keqb kmap expires (ec_new cap) ops))
    = fst (lru_run keqb kmap expires cap [] ops).
Proof. intros cap ops _. apply ecache_refines_lru. exact keqb_spec. Qed.

Lemma ecache_delete_exactly_once : forall (cap : nat) (ops : list (lru_op PK V)),
  let '(outs, c, _) := ec_run keqb kmap expires (ec_new cap) ops in
  Permutation (created_ok (all_events outs))
              (deleted (all_events outs) ++ map snd (ec_resident c)).
Proof.
  intros cap ops.
  pose proof (ecache_refines_lru keqb keqb_spec kmap expires cap ops) as Ho.
  pose proof (ecache_final_state keqb keqb_spec kmap expires cap ops) as Hs.
  pose proof (delete_exactly_once keqb keqb_spec kmap expires cap ops) as Hd.
  destruct (ec_run keqb kmap expires (ec_new cap) ops) as [[outs c] oof].
  destruct (lru_run keqb kmap expires cap [] ops) as [souts s].
  cbn [fst snd] in *. subst souts s. exact Hd.
Qed.

Lemma ecache_resident_le_cap : forall (cap : nat) (ops : list (lru_op PK V)),
  length (ec_resident (snd (fst (ec_run keqb kmap expires (ec_new cap) ops)))) <= cap.
Proof.
  intros cap ops. rewrite (ecache_final_state keqb keqb_spec).
  pose proof (resident_le_cap keqb keqb_spec kmap expires cap ops) as H.
  unfold resident in H. rewrite map_length in H. exact H.
Qed.

End Transport.
