(** C10, layer L2 <-> specification, part 1: the cells of the chain as a
    *function* of the abstract entries and of the number of iterators parked
    on every stamp ([cells_from]), and how the list primitives of L2
    ([cfind], [cupd], [cdel], [csucc]) act on it. *)
From Coq Require Import List ZArith Arith Bool Lia.
From GL Require Import lib.IMapBase model.Chain spec.OMap.
Import ListNotations.
Open Scope Z_scope.

(** * Generic facts about [cupd] / [cdel] / [find] *)

Lemma cupd_app s f l1 l2 : cupd s f (l1 ++ l2) = cupd s f l1 ++ cupd s f l2.
Proof. unfold cupd. apply map_app. Qed.

Lemma cdel_app s l1 l2 : cdel s (l1 ++ l2) = cdel s l1 ++ cdel s l2.
Proof. unfold cdel. apply filter_app. Qed.

Lemma find_app {A} (p : A -> bool) l1 l2 :
  find p (l1 ++ l2) = match find p l1 with Some x => Some x | None => find p l2 end.
Proof. induction l1 as [|x t IH]; cbn [app find]; [reflexivity|]. destruct (p x); auto. Qed.

Lemma at_stamp_true s c : at_stamp s c = true <-> c_stamp c = s.
Proof. unfold at_stamp. apply Nat.eqb_eq. Qed.

Lemma at_stamp_false s c : at_stamp s c = false <-> c_stamp c <> s.
Proof. unfold at_stamp. apply Nat.eqb_neq. Qed.

Lemma at_stamp_mk s i a b c d : at_stamp s (mkCell i a b c d) = Nat.eqb i s.
Proof. reflexivity. Qed.

Lemma cupd_none s f l : Forall (fun c => c_stamp c <> s) l -> cupd s f l = l.
Proof.
  induction 1 as [|c t Hc _ IH]; cbn; [reflexivity|].
  apply at_stamp_false in Hc. rewrite Hc. f_equal. exact IH.
Qed.

Lemma cdel_none s l : Forall (fun c => c_stamp c <> s) l -> cdel s l = l.
Proof.
  induction 1 as [|c t Hc _ IH]; cbn; [reflexivity|].
  apply at_stamp_false in Hc. rewrite Hc. cbn. f_equal. exact IH.
Qed.

Lemma find_stamp_none s l : Forall (fun c => c_stamp c <> s) l -> find (at_stamp s) l = None.
Proof.
  induction 1 as [|c t Hc _ IH]; cbn; [reflexivity|].
  apply at_stamp_false in Hc. rewrite Hc. exact IH.
Qed.

Lemma cdel_cupd s f l : (forall c, c_stamp (f c) = c_stamp c) -> cdel s (cupd s f l) = cdel s l.
Proof.
  intros Hf. induction l as [|c t IH]; cbn; [reflexivity|].
  destruct (at_stamp s c) eqn:E.
  - assert (E' : at_stamp s (f c) = true) by (apply at_stamp_true; rewrite Hf; apply at_stamp_true; exact E).
    rewrite E'. cbn. exact IH.
  - rewrite E. cbn. f_equal. exact IH.
Qed.

Lemma cupd_stamps s f l :
  (forall c, c_stamp (f c) = c_stamp c) -> map c_stamp (cupd s f l) = map c_stamp l.
Proof.
  intros Hf. unfold cupd. rewrite map_map. apply map_ext. intros c.
  destruct (at_stamp s c); rewrite ?Hf; reflexivity.
Qed.

Lemma cupd_length s f l : length (cupd s f l) = length l.
Proof. unfold cupd. apply map_length. Qed.

(** * The cells determined by entries [es] (first index [i]) and parked counts [r] *)

Definition cell_at (r : nat -> Z) (i : nat) (e : entry) : list cell :=
  if e_live e then [mkCell i StOk (r i) (e_key e) (e_val e)]
  else if 0 <? r i then [mkCell i StDeleted (r i) (e_key e) 0] else [].

Definition last_cell (r : nat -> Z) (i : nat) : cell := mkCell i StLast (r i) 0 0.

Fixpoint cells_from (r : nat -> Z) (i : nat) (es : list entry) : list cell :=
  match es with
  | [] => [last_cell r i]
  | e :: t => cell_at r i e ++ cells_from r (S i) t
  end.

Lemma cell_at_stamp r i e : Forall (fun c => c_stamp c = i) (cell_at r i e).
Proof.
  unfold cell_at. destruct (e_live e); [repeat constructor|].
  destruct (0 <? r i); repeat constructor.
Qed.

Lemma cells_from_stamps r es : forall i,
  Forall (fun c => (i <= c_stamp c <= i + length es)%nat) (cells_from r i es).
Proof.
  induction es as [|e t IH]; intros i; cbn [cells_from length].
  - constructor; [|constructor]. unfold last_cell. cbn [c_stamp length]. lia.
  - apply Forall_app. split.
    + eapply Forall_impl; [|apply cell_at_stamp]. cbn. intros c Hc. lia.
    + eapply Forall_impl; [|apply IH]. cbn. intros c Hc. lia.
Qed.

Lemma cells_from_ne r es i s : (s < i)%nat -> Forall (fun c => c_stamp c <> s) (cells_from r i es).
Proof.
  intros Hs. eapply Forall_impl; [|apply cells_from_stamps]. cbn. intros c Hc. lia.
Qed.

Lemma cell_at_ne r i e s : s <> i -> Forall (fun c => c_stamp c <> s) (cell_at r i e).
Proof.
  intros Hs. eapply Forall_impl; [|apply cell_at_stamp]. cbn. intros c Hc. lia.
Qed.

Lemma cells_from_ext r r' es : forall i,
  (forall j, (i <= j)%nat -> r j = r' j) -> cells_from r i es = cells_from r' i es.
Proof.
  induction es as [|e t IH]; intros i Hr; cbn [cells_from].
  - unfold last_cell. rewrite Hr by lia. reflexivity.
  - f_equal.
    + unfold cell_at. rewrite Hr by lia. reflexivity.
    + apply IH. intros j Hj. apply Hr. lia.
Qed.

Lemma cells_from_nonnil r es i : cells_from r i es <> [].
Proof.
  revert i. induction es as [|e t IH]; intros i; cbn; [discriminate|].
  intros H. apply app_eq_nil in H. destruct H as [_ H]. eapply IH. exact H.
Qed.

Lemma cells_from_app r es1 es2 : forall i,
  cells_from r i (es1 ++ es2) =
  removelast (cells_from r i es1) ++ cells_from r (i + length es1) es2.
Proof.
  induction es1 as [|e t IH]; intros i; cbn [app cells_from length].
  - cbn [removelast app]. replace (i + 0)%nat with i by lia. reflexivity.
  - rewrite IH. rewrite removelast_app by apply cells_from_nonnil.
    rewrite <- app_assoc. replace (S i + length t)%nat with (i + S (length t))%nat by lia. reflexivity.
Qed.

(** the entry that stamp [s] denotes when the list starts at index [i] *)
Definition ent (es : list entry) (i s : nat) : option entry := nth_error es (s - i).

Lemma ent_tail e t i s : (S i <= s)%nat -> ent (e :: t) i s = ent t (S i) s.
Proof. intros H. unfold ent. replace (s - i)%nat with (S (s - S i)) by lia. reflexivity. Qed.

Lemma ent_head e t i : ent (e :: t) i i = Some e.
Proof. unfold ent. rewrite Nat.sub_diag. reflexivity. Qed.

(** * [cfind] *)

Lemma cfind_cells_from r es : forall i s, (i <= s)%nat ->
  cfind s (cells_from r i es) =
  match ent es i s with
  | Some e => deref (hd_error (cell_at r s e))
  | None => if Nat.eqb s (i + length es) then Ok (last_cell r s) else Panic
  end.
Proof.
  unfold cfind. induction es as [|e t IH]; intros i s Hs; cbn [cells_from length].
  - unfold ent. cbn [find]. unfold at_stamp at 1. cbn [last_cell c_stamp].
    replace (i + 0)%nat with i by lia.
    destruct (Nat.eqb_spec i s) as [->|Hne].
    + rewrite Nat.sub_diag, Nat.eqb_refl. reflexivity.
    + destruct (Nat.eqb_spec s i); [lia|]. destruct (s - i)%nat eqn:E; [lia|]. reflexivity.
  - rewrite find_app. destruct (Nat.eq_dec s i) as [->|Hne].
    + rewrite ent_head. unfold cell_at.
      destruct (e_live e); [cbn; unfold at_stamp; cbn; rewrite Nat.eqb_refl; reflexivity|].
      destruct (0 <? r i); [cbn; unfold at_stamp; cbn; rewrite Nat.eqb_refl; reflexivity|].
      cbn [find hd_error deref]. rewrite find_stamp_none; [reflexivity|]. apply cells_from_ne. lia.
    + rewrite (find_stamp_none s (cell_at r i e)) by (apply cell_at_ne; exact Hne).
      rewrite ent_tail by lia. rewrite IH by lia.
      replace (S i + length t)%nat with (i + S (length t))%nat by lia. reflexivity.
Qed.

Ltac sg := unfold cupd, cdel; cbn [map filter]; rewrite ?at_stamp_mk, ?Nat.eqb_refl; cbn [negb cset_ref c_stamp c_st c_ref c_key c_val]; reflexivity.

(** * Parking one more iterator on a stamp that has a cell *)

Definition bump (r : nat -> Z) (s : nat) (d : Z) : nat -> Z :=
  fun j => if Nat.eqb j s then r j + d else r j.

Lemma bump_same r s d : bump r s d s = r s + d.
Proof. unfold bump. rewrite Nat.eqb_refl. reflexivity. Qed.

Lemma bump_other r s d j : j <> s -> bump r s d j = r j.
Proof. unfold bump. intros H. destruct (Nat.eqb_spec j s); [contradiction|reflexivity]. Qed.

Lemma cell_at_bump_other r s d i e : i <> s -> cell_at (bump r s d) i e = cell_at r i e.
Proof. intros H. unfold cell_at. rewrite bump_other by exact H. reflexivity. Qed.

(* [s] has a cell: it is the end, or its entry is live or pinned *)
Definition has_cell (r : nat -> Z) (es : list entry) (i s : nat) : Prop :=
  forall e, ent es i s = Some e -> e_live e = true \/ 0 < r s.

Lemma has_cell_tail r e t i s : (S i <= s)%nat -> has_cell r (e :: t) i s -> has_cell r t (S i) s.
Proof. intros H Hc e' He. apply Hc. rewrite ent_tail by exact H. exact He. Qed.

Lemma park_cells r s es : forall i,
  0 <= r s -> ((i <= s)%nat -> has_cell r es i s) ->
  cells_from (bump r s 1) i es = cupd s (cset_ref (r s + 1)) (cells_from r i es).
Proof.
  induction es as [|e t IH]; intros i Hr Hc; cbn [cells_from].
  - unfold last_cell, cupd. cbn [map]. rewrite at_stamp_mk.
    destruct (Nat.eqb_spec i s) as [->|Hne].
    + rewrite bump_same. reflexivity.
    + rewrite bump_other by exact Hne. reflexivity.
  - rewrite cupd_app. destruct (Nat.eq_dec i s) as [->|Hne].
    + f_equal.
      * specialize (Hc (le_n _) e (ent_head _ _ _)).
        unfold cell_at. rewrite bump_same. destruct (e_live e); [sg|].
        destruct Hc as [Hc|Hc]; [discriminate|].
        destruct (Z.ltb_spec 0 (r s)); [|lia]. destruct (Z.ltb_spec 0 (r s + 1)); [|lia].
        sg.
      * rewrite cupd_none by (apply cells_from_ne; lia).
        apply cells_from_ext. intros j Hj. apply bump_other. lia.
    + f_equal.
      * rewrite cell_at_bump_other by exact Hne. symmetry. apply cupd_none. apply cell_at_ne. auto.
      * apply IH; [exact Hr|]. intros Hi. apply (has_cell_tail r e t i s Hi). apply Hc. lia.
Qed.

(** * Taking one iterator off a stamp *)

Lemma unpark_keep r s es : forall i,
  1 <= r s ->
  (forall e, ent es i s = Some e -> (i <= s)%nat -> e_live e = true \/ 2 <= r s) ->
  cells_from (bump r s (-1)) i es = cupd s (cset_ref (r s - 1)) (cells_from r i es).
Proof.
  induction es as [|e t IH]; intros i Hr Hc; cbn [cells_from].
  - unfold last_cell, cupd. cbn [map]. rewrite at_stamp_mk.
    destruct (Nat.eqb_spec i s) as [->|Hne].
    + rewrite bump_same. reflexivity.
    + rewrite bump_other by exact Hne. reflexivity.
  - rewrite cupd_app. destruct (Nat.eq_dec i s) as [->|Hne].
    + f_equal.
      * specialize (Hc e (ent_head _ _ _) (le_n _)).
        unfold cell_at. rewrite bump_same. destruct (e_live e); [sg|].
        destruct Hc as [Hc|Hc]; [discriminate|].
        destruct (Z.ltb_spec 0 (r s)); [|lia]. destruct (Z.ltb_spec 0 (r s + -1)); [|lia].
        sg.
      * rewrite cupd_none by (apply cells_from_ne; lia).
        apply cells_from_ext. intros j Hj. apply bump_other. lia.
    + f_equal.
      * rewrite cell_at_bump_other by exact Hne. symmetry. apply cupd_none. apply cell_at_ne. auto.
      * apply IH; [exact Hr|]. intros e' He Hi. apply Hc; [|lia]. rewrite ent_tail by lia. exact He.
Qed.

Lemma unpark_drop r s es : forall i e0,
  r s = 1 -> (i <= s)%nat -> ent es i s = Some e0 -> e_live e0 = false ->
  cells_from (bump r s (-1)) i es = cdel s (cells_from r i es).
Proof.
  induction es as [|e t IH]; intros i e0 Hr Hi He Hd; cbn [cells_from].
  - unfold ent in He. destruct (s - i)%nat; discriminate.
  - rewrite cdel_app. destruct (Nat.eq_dec i s) as [->|Hne].
    + rewrite ent_head in He. injection He as ->. f_equal.
      * unfold cell_at. rewrite bump_same, Hd, Hr. change (0 <? 1 + -1) with false. change (0 <? 1) with true. sg.
      * rewrite cdel_none by (apply cells_from_ne; lia).
        apply cells_from_ext. intros j Hj. apply bump_other. lia.
    + f_equal.
      * rewrite cell_at_bump_other by exact Hne. symmetry. apply cdel_none. apply cell_at_ne. auto.
      * apply (IH (S i) e0); [exact Hr|lia| |exact Hd]. rewrite <- (ent_tail e) by lia. exact He.
Qed.

(** * The stamp that follows [s] on the chain *)

(* stamp of the first cell of [cells_from r i es] *)
Fixpoint first_present (r : nat -> Z) (i : nat) (es : list entry) : nat :=
  match es with
  | [] => i
  | e :: t => if e_live e || (0 <? r i) then i else first_present r (S i) t
  end.

Lemma hd_cells_from r es : forall i,
  option_map c_stamp (hd_error (cells_from r i es)) = Some (first_present r i es).
Proof.
  induction es as [|e t IH]; intros i; cbn [cells_from first_present]; [reflexivity|].
  unfold cell_at. destruct (e_live e); [reflexivity|]. cbn [orb].
  destruct (0 <? r i); [reflexivity|]. cbn [app]. apply IH.
Qed.

Lemma csucc_cells_from r es : forall i s, (i <= s)%nat ->
  (forall e, ent es i s = Some e -> e_live e = true \/ 0 < r s) ->
  csucc s (cells_from r i es) =
  match ent es i s with
  | Some _ => Some (first_present r (S s) (skipn (S (s - i)) es))
  | None => None
  end.
Proof.
  induction es as [|e t IH]; intros i s Hs Hc; cbn [cells_from].
  - unfold ent. replace (nth_error [] (s - i)%nat) with (@None entry) by (destruct (s - i)%nat; reflexivity).
    cbn. destruct (i =? s)%nat; reflexivity.
  - destruct (Nat.eq_dec s i) as [->|Hne].
    + rewrite ent_head. rewrite Nat.sub_diag. cbn [skipn].
      specialize (Hc e (ent_head _ _ _)).
      assert (Hcell : exists c, cell_at r i e = [c] /\ c_stamp c = i).
      { unfold cell_at. destruct (e_live e); [eexists; split; reflexivity|].
        destruct Hc as [Hc|Hc]; [discriminate|]. destruct (Z.ltb_spec 0 (r i)); [|lia].
        eexists; split; reflexivity. }
      destruct Hcell as (c & -> & Hst). cbn [app csucc]. unfold at_stamp. rewrite Hst, Nat.eqb_refl.
      apply hd_cells_from.
    + rewrite ent_tail by lia.
      assert (Hskip : forall l, (forall c, In c l -> c_stamp c <> s) ->
                 csucc s (l ++ cells_from r (S i) t) = csucc s (cells_from r (S i) t)).
      { induction l as [|c l IHl]; intros Hl; [reflexivity|]. cbn [app csucc].
        destruct (at_stamp s c) eqn:E; [apply at_stamp_true in E; exfalso; apply (Hl c); [left; reflexivity|exact E]|].
        apply IHl. intros c' Hc'. apply Hl. right. exact Hc'. }
      rewrite Hskip.
      * rewrite IH by (try lia; intros e' He'; apply Hc; rewrite ent_tail by lia; exact He').
        replace (s - i)%nat with (S (s - S i)) by lia. reflexivity.
      * apply Forall_forall. apply cell_at_ne. exact Hne.
Qed.
